/-
  C16 — the property theorems (DESIGN §6 C16, Appendix B).  Everything is about the
  functions of `Gotree/Model/C16.lean` that the driver runs against the Go code
  (`run`, `allTopologies`); the predicates are those of `Gotree/Spec/C16.lean`
  that the driver evaluates on the implementation's own output.

  Hypotheses (all `Bool`, all evaluated and tagged by the driver):
  `g.min rooted ≤ n` (tag hyp-min), `drawsInRange g n rooted ints` (every value is one
  `rand.Intn(k)` can return at that call; tag hyp-draws-in-range), `lensNonneg lens`
  (`gostats.Exp ≥ 0`; tag hyp-lens-nonneg).
-/
import Gotree.Lemmas.C16Nodup
import Gotree.Lemmas.C16Oracle
import Gotree.Lemmas.C16Script
import Gotree.Lemmas.C16Keys
import Gotree.Lemmas.C16Index
import Gotree.Lemmas.C16Extra
import Gotree.Lemmas.C16Doc
import Gotree.Lemmas.C16Surj2
import Gotree.Lemmas.C16Surj3
import Gotree.Lemmas.C16Depth
import Gotree.Lemmas.C16Cli
import Gotree.Lemmas.C16Table
import Gotree.Lemmas.C16CliRun
import Gotree.Lemmas.C16TopoCli
import Gotree.Lemmas.C16Opts
import Gotree.Lemmas.C16DepthGo
import Gotree.Model.C16DepthGoU
import Gotree.Lemmas.C16DepthDist
import Gotree.Gen.C16Source

namespace Gotree.C16
open Gotree

/-! ### the hypotheses are satisfiable on non-trivial instances -/

example : GenKind.uniform.min false ≤ 6 ∧ drawsInRange .uniform 6 false [0, 2, 4, 1] = true ∧
    lensNonneg [1/2, 0, 3, 1/8] = true := by decide +kernel
example : GenKind.yule.min true ≤ 5 ∧ drawsInRange .yule 5 true [1, 2, 0] = true := by decide
example : (run .uniform 5 false [0, 2, 1] [1, 2, 3]).isOk = true := by decide +kernel
example : (run .yule 5 true [1, 0, 3] []).isOk = true := by decide +kernel
example : GenKind.balanced.min false ≤ 3 := by decide
example : GenKind.caterpillar.min true ≤ 5 ∧ lensNonneg [1, 0, 2, 1/3] = true := by decide +kernel
example : (run .caterpillar 5 true [] [1, 2, 3]).isOk = true := by decide +kernel
example : (run .balanced 3 false [] [1, 2, 3, 1/2]).isOk = true := by decide +kernel
-- the enumeration: default names, and four caller-supplied pairwise different names
example : (if false then 2 else 3) ≤ 5 ∧ (([] : List String) = [] ∨ (([] : List String).length = 5 ∧ ([] : List String).Nodup)) := by
  decide
example : ["A", "b_2", "10", "Tip1"].length = 4 ∧ ["A", "b_2", "10", "Tip1"].Nodup := by decide
example : (allTopologies 4 false ["A", "b_2", "10", "Tip1"]).isOk = true := by decide +kernel
example : (allTopologies 4 true).isOk = true := by decide +kernel

/-! ### ★ gen_ok -/

/-- ★ For every size from the minimum on, every rootedness, every sequence of integer draws
    that `rand.Intn` can return and all non-negative exponential lengths, each random binary
    generator returns a tree (no error, no panic) that is binary, whose tips are exactly
    `Tip0 … Tip(ntips-1)` (each once), with the requested rootedness, every branch carrying a
    non-negative length, and whose tip index (as left by `ReinitIndexes`) lists exactly the tips. -/
theorem gen_ok (g : GenKind) (n : Nat) (rooted : Bool) (ints : List Nat) (lens : List Rat)
    (hg : g ≠ .star) (h : g.min rooted ≤ n)
    (hd : drawsInRange g n rooted ints = true) (hl : lensNonneg lens = true) :
    ∃ o, run g (n : Int) rooted ints lens = .ok o ∧ o.t.binary = true ∧
      o.t.tipNames.Perm (tipNamesUpTo (g.ntips n)) ∧ o.t.rooted = rooted ∧ lensOk o.t = true ∧
      indexReady o = true := by
  cases g with
  | uniform => exact uniform_ok n rooted ints lens h hd hl
  | yule => exact yule_ok n rooted ints lens h hd hl
  | caterpillar => exact caterpillar_ok n rooted lens h hl
  | balanced =>
    cases rooted with
    | true => obtain ⟨o, h1, h2, _⟩ := balanced_rooted_ok n lens h hl; exact ⟨o, h1, h2⟩
    | false => obtain ⟨o, h1, h2, _⟩ := balanced_unrooted_ok n lens h hl; exact ⟨o, h1, h2⟩
  | star => exact absurd rfl hg

/-- the tips of a generated tree are pairwise different, and `ExistsTip` answers `true` exactly
    for `Tip0 … Tip(ntips-1)` -/
theorem gen_unique_and_indexed (g : GenKind) (n : Nat) (rooted : Bool) (ints : List Nat) (lens : List Rat)
    (hg : g ≠ .star) (h : g.min rooted ≤ n)
    (hd : drawsInRange g n rooted ints = true) (hl : lensNonneg lens = true) :
    ∃ o, run g (n : Int) rooted ints lens = .ok o ∧ o.t.tipNames.Nodup ∧
      ∀ name, o.existsTip name = some (decide (name ∈ tipNamesUpTo (g.ntips n))) := by
  obtain ⟨o, h1, _, hp, _, _, hix⟩ := gen_ok g n rooted ints lens hg h hd hl
  refine ⟨o, h1, hp.nodup_iff.mpr (tipNamesUpTo_nodup _), ?_⟩
  intro name
  exact existsTip_of_ready o (g.ntips n) hp hix (ntips_pos g n rooted h) name

/-- The model's result passes the very predicate the driver evaluates as ORACLE on what the Go
    code returns (`genTreeOK`: names, uniqueness, lengths, binary, rootedness, and the shape of the
    caterpillar / balanced / star generators), for all five generators. -/
theorem gen_meets_oracle (g : GenKind) (n : Nat) (rooted : Bool) (ints : List Nat) (lens : List Rat)
    (h : g.min rooted ≤ n) (hd : drawsInRange g n rooted ints = true) (hl : lensNonneg lens = true) :
    ∃ o, run g (n : Int) rooted ints lens = .ok o ∧ genTreeOK g n rooted o.t = true :=
  genTreeOK_model g n rooted ints lens h hd hl

/-- The draw protocol: a call with size `n` reads exactly the first `nintsZ` integer draws and the
    first `nlens` exponential values (the script the harness replays, whose length the driver
    compares with these numbers on every case) — changing anything beyond them changes nothing. -/
theorem gen_reads_only_script (g : GenKind) (n : Int) (rooted : Bool) (ints ints' : List Nat) (lens lens' : List Rat)
    (hi : ∀ j, j < g.nintsZ n rooted → ints'.getD j 0 = ints.getD j 0)
    (hl : ∀ j, j < g.nlens n rooted → lens'.getD j 0 = lens.getD j 0) :
    run g n rooted ints' lens' = run g n rooted ints lens :=
  run_congr g n rooted ints ints' lens lens' ⟨hi, hl⟩

/-- "Indexes ready for use", in full: on the tree every generator returns, the C04 model of the
    final `ReinitIndexes` succeeds and gives every branch exactly the record its split prescribes
    (bitset over the sorted tip names, both taxon counts, both additive name hashes — hence
    `HashCode`, `TopoDepth`, `HashEquals`, by the C04 theorems), for every name hash `H`; and the
    tip index kept by the C16 model is C04's rank list. -/
theorem gen_index_complete (g : GenKind) (n : Nat) (rooted : Bool) (ints : List Nat) (lens : List Rat)
    (H : String → UInt64) (h : g.min rooted ≤ n) (hd : drawsInRange g n rooted ints = true)
    (hl : lensNonneg lens = true) :
    ∃ o, run g (n : Int) rooted ints lens = .ok o ∧
      o.reinit H = .ok (C04.sortNames o.t.tipNames, o.t.splits.map fun s => C04.specIdx H o.t.tipNames s.below) ∧
      o.index = some (C04.sortNames o.t.tipNames) := by
  have key : ∀ o : Out, o.t.tipNames.Perm (tipNamesUpTo (g.ntips n)) → indexReady o = true →
      o.reinit H = .ok (C04.sortNames o.t.tipNames, o.t.splits.map fun s => C04.specIdx H o.t.tipNames s.below) ∧
      o.index = some (C04.sortNames o.t.tipNames) := by
    intro o hp hix
    refine ⟨reinit_of_perm H o _ (ntips_pos g n rooted h) hp, ?_⟩
    unfold indexReady at hix
    rw [← sortNames_eq_C04]
    simpa using hix
  by_cases hg : g = .star
  · subst hg
    obtain ⟨o, h1, hp, _, hix, _⟩ := star_ok n h
    have h1' : run .star (n : Int) rooted ints lens = .ok o := h1
    exact ⟨o, h1', key o hp hix⟩
  · obtain ⟨o, h1, _, hp, _, _, hix⟩ := gen_ok g n rooted ints lens hg h hd hl
    exact ⟨o, h1, key o hp hix⟩

/-- `gen_meets_oracle` for the oracle predicate the driver evaluates since round 3 (`genTreeOK2`: as
    `genTreeOK`, but the balanced shape of an unrooted tree may be seen from any node, so that the
    place where the tree is hung is not part of the claim) -/
theorem gen_meets_oracle2 (g : GenKind) (n : Nat) (rooted : Bool) (ints : List Nat) (lens : List Rat)
    (h : g.min rooted ≤ n) (hd : drawsInRange g n rooted ints = true) (hl : lensNonneg lens = true) :
    ∃ o, run g (n : Int) rooted ints lens = .ok o ∧ genTreeOK2 g n rooted o.t = true := by
  obtain ⟨o, h1, h2⟩ := gen_meets_oracle g n rooted ints lens h hd hl
  exact ⟨o, h1, genTreeOK2_of_genTreeOK g n rooted o.t h2⟩

/-! ### node depths (what `ComputeDepths` leaves in `Node.Depth()`)

   `depthsOf` (Spec/C16Depth) is the specification the driver compares `Node.Depth()` of every node
   of every returned tree with: branches to the closest tip, below the node in a rooted tree,
   anywhere in an unrooted one.  Proved here: one value per node, and the rule of the rooted case. -/

/-- one depth per node, in `Nodes()` order -/
theorem depths_one_per_node (t : T) : (depthsOf t).length = t.size := by
  unfold depthsOf
  split
  · exact depthsR_length t
  · split
    · cases t with
      | node d p ks => simp [T.size, depthsUL_length]; omega
    · exact depthsU_length none t

/-- the rooted rule: a tip has depth 0; an inner node is one branch further from a tip than the
    closest of its children -/
theorem downDepth_rule (d : NodeD) (p : Nat) (k : EdgeD × T) (ks : Kids) :
    downDepth (.node d p []) = 0 ∧
    (∀ et ∈ k :: ks, downDepth (.node d p (k :: ks)) ≤ 1 + downDepth et.2) ∧
    ∃ et ∈ k :: ks, downDepth (.node d p (k :: ks)) = 1 + downDepth et.2 := by
  obtain ⟨m, hm, hle, ⟨w, hw, hwm⟩⟩ := downMin_spec (k :: ks) (by simp)
  refine ⟨by simp [downDepth], ?_, ?_⟩
  · intro et het
    simp only [downDepth, hm, Option.getD_some]
    have := hle et het; omega
  · exact ⟨w, hw, by simp only [downDepth, hm, Option.getD_some, hwm]⟩

/-- `computeDepthRecurRooted` (model `goDepthR`, the Go recursion with its `-1` sentinel, statement by
    statement) leaves in every node of a rooted tree the specified depth: the list read back with
    `Node.Depth()` in `Nodes()` order passes the depth oracle -/
theorem computeDepths_rooted_meets_spec (t : T) (h : t.rooted = true) :
    goComputeDepthsRooted t = (depthsOf t).map (fun (x : Nat) => (x : Int)) ∧ depthsOK t (goComputeDepthsRooted t) = true := by
  have h1 : goComputeDepthsRooted t = (depthsOf t).map (fun (x : Nat) => (x : Int)) := by
    rw [goComputeDepthsRooted_eq]; simp [depthsOf, h]
  exact ⟨h1, by simp [depthsOK, h1]⟩

example : (T.node ⟨"", []⟩ 0 [(EdgeD.blank, T.leaf "a"), (EdgeD.blank, .node ⟨"", []⟩ 0 [(EdgeD.blank, T.leaf "b"), (EdgeD.blank, T.leaf "c")])]).rooted = true := by
  decide

/-! ### unrooted trees: `computeDepthUnRooted` (model `goComputeDepthsUnrooted`: the reset of 7dc6678, then the
   level-by-level loop, statement by statement) and what "depth" means

   Oracle of every unrooted case: `tipDistOKInt (adjOf t) depths` on the implementation's own output.
   `depth_is_distance_to_closest_tip`: a list of depths that passes it gives, for EVERY node, the number of
   branches of a shortest walk to a node with one neighbour (`IsTipDist`), on any neighbour table.
   Full statement wanted for the model (not proved: needs the invariant of the level loop — after pass k the
   nodes at distance ≤ k are filled, `nodes` is exactly the set at distance k, fuel suffices):
     ∀ t, ¬t.rooted → ∃ ds, goComputeDepthsUnrooted t stale = some ds ∧ tipDistOKInt (adjOf t) ds = true
   proved below for every unrooted binary topology of 4, 5, 6 tips and generator outputs (`_partial`), and
   checked on every unrooted case of every run (tie `depths-go-unrooted`). -/

/-- ★ depths passing the oracle predicate are, node by node, the distance in branches to the closest tip -/
theorem depth_is_distance_to_closest_tip (adj : List (List Nat)) (dep : List Nat) (h : tipDistOK adj dep = true)
    (v : Nat) (hv : v < adj.length) : IsTipDist adj v (dep.getD v 0) :=
  tipDistOK_sound adj dep h v hv

/-- the distance to the closest tip is unique: two lists passing the oracle agree on every node -/
theorem depth_oracle_determines_depths (adj : List (List Nat)) (d1 d2 : List Nat) (h1 : tipDistOK adj d1 = true)
    (h2 : tipDistOK adj d2 = true) (v : Nat) (hv : v < adj.length) : d1.getD v 0 = d2.getD v 0 :=
  tipDist_unique adj v _ _ (tipDistOK_sound adj d1 h1 v hv) (tipDistOK_sound adj d2 h2 v hv)

/-- partial: the model of `computeDepthUnRooted` stops within its fuel and its depths pass the oracle
    (hence are the distances to the closest tip) and equal the two-pass Spec `depthsOf`, on all 3 + 15 +
    105 unrooted topologies of 4, 5, 6 tips and on unrooted generator outputs (kernel evaluation) -/
theorem computeDepthUnRooted_meets_spec_partial :
    ([4, 5, 6].all fun (n : Nat) =>
      match allTopologies (n : Int) false with
      | .ok ts => ts.all fun t =>
          match goComputeDepthsUnrooted t with
          | some ds => tipDistOKInt (adjOf t) ds && depthsOK t ds
          | none => false
      | _ => false) = true ∧
    ([run .caterpillar 7 false [] [], run .balanced 3 false [] [], run .uniform 8 false [0, 2, 1, 5, 3, 0] [],
      run .yule 8 false [1, 0, 3, 2, 4, 1] [], run .star 5 false [] []].all fun r =>
      match r with
      | .ok o => !o.t.rooted &&
          (match goComputeDepthsUnrooted o.t with
           | some ds => tipDistOKInt (adjOf o.t) ds && depthsOK o.t ds
           | none => false)
      | _ => false) = true := by
  constructor <;> decide +kernel

/-- before 7dc6678 the loop kept the depths computed earlier: with stale depths (here: those of the
    tree while it was rooted elsewhere, all 7) nothing is filled and the stale values are reported;
    the reset makes the result independent of them -/
theorem computeDepthUnRooted_stale_pinned_fails :
    (match run .caterpillar 5 false [] [] with
     | .ok o =>
       (match goComputeDepthsUnrootedPinned o.t (List.replicate o.t.size 7) with
        | some ds => !tipDistOKInt (adjOf o.t) ds
        | none => true) &&
       goComputeDepthsUnrooted o.t (List.replicate o.t.size 7) == goComputeDepthsUnrooted o.t [] &&
       (match goComputeDepthsUnrooted o.t (List.replicate o.t.size 7) with
        | some ds => tipDistOKInt (adjOf o.t) ds
        | none => false)
     | _ => false) = true := by
  decide +kernel

/-! ### gen_rejects -/

/-- Sizes below the minimum (negative ones included) are answered by an error — never by a
    panic, never by a tree — whatever the draws. -/
theorem gen_rejects (g : GenKind) (n : Int) (rooted : Bool) (ints : List Nat) (lens : List Rat)
    (h : n < (g.min rooted : Int)) : (run g n rooted ints lens).isErr = true := by
  cases g with
  | uniform => exact insertionGen_rejects _ n rooted lens h
  | yule => exact insertionGen_rejects _ n rooted lens h
  | caterpillar => exact insertionGen_rejects _ n rooted lens h
  | balanced =>
    cases rooted with
    | true =>
      have : n < 1 := by simpa [GenKind.min] using h
      simp [run, balanced, this, Res.isErr]
    | false =>
      have h2 : n < 2 := by simpa [GenKind.min] using h
      by_cases h1 : n < 1
      · simp [run, balanced, h1, Res.isErr]
      · simp [run, balanced, h1, h2, Res.isErr]
  | star =>
    have : n < 2 := by simpa [GenKind.min] using h
    simp [run, star, this, Res.isErr]

/-! ### the documented minimum and the effective one

   `GenKind.docMin` is what the guards of the code and their messages document; `GenKind.min` is
   the size from which a call succeeds (hypothesis of `gen_ok`, bound of `gen_rejects`).  Since
   f417e91 (found by this check's audit) they coincide. -/

/-- the documented minimum is the effective one: no size is documented as valid and then rejected -/
theorem documented_minimum (g : GenKind) (n : Int) (rooted : Bool) :
    g.docMin rooted = g.min rooted ∧ docGap g n rooted = false :=
  ⟨docMin_eq_min g rooted, docGap_false g n rooted⟩

/-- before f417e91 the guards documented 2 tips for the unrooted insertion generators: that call
    passed them and ended in the unrelated error of `RerootFirst`; now it is refused by the guard -/
theorem two_tips_unrooted_doc_pinned_fails :
    (match insertionGenDoc2 (yuleStep [] []) 2 false [] with | .err m => m == errNoDeg3 | _ => false) = true ∧
    (match insertionGen (yuleStep [] []) 2 false [] with | .err m => m == errLess3All | _ => false) = true := by
  decide +kernel

/-- from the documented minimum on, outside that region, every call succeeds (`gen_ok` restated with
    the documented bound) -/
theorem gen_ok_documented (g : GenKind) (n : Nat) (rooted : Bool) (ints : List Nat) (lens : List Rat)
    (hg : g ≠ .star) (h : g.docMin rooted ≤ n) (hgap : docGap g (n : Int) rooted = false)
    (hd : drawsInRange g n rooted ints = true) (hl : lensNonneg lens = true) :
    ∃ o, run g (n : Int) rooted ints lens = .ok o ∧ o.t.binary = true ∧
      o.t.tipNames.Perm (tipNamesUpTo (g.ntips n)) ∧ o.t.rooted = rooted ∧ lensOk o.t = true ∧
      indexReady o = true := by
  have hmin : g.min rooted ≤ n := by
    unfold docGap at hgap
    have h' : ((g.docMin rooted : Nat) : Int) ≤ (n : Int) := by omega
    simp only [h', decide_true, Bool.true_and, decide_eq_false_iff_not] at hgap
    omega
  exact gen_ok g n rooted ints lens hg hmin hd hl

/-! ### shapes -/

/-- the caterpillar generator returns a caterpillar: the inner nodes form a path (rooted: a
    ladder from the root; unrooted: the root is an inner node with at most two inner neighbours) -/
theorem caterpillar_shape (n : Nat) (rooted : Bool) (lens : List Rat) (h : GenKind.caterpillar.min rooted ≤ n)
    (hl : lensNonneg lens = true) :
    ∃ o, run .caterpillar (n : Int) rooted [] lens = .ok o ∧ caterShape rooted o.t = true :=
  caterpillar_shape_lemma n rooted lens h hl

/-- the balanced generator returns the complete binary tree of the requested depth (rooted: two
    complete halves of height `d-1`; unrooted: re-hung on the root of one half) -/
theorem balanced_shape (d : Nat) (rooted : Bool) (lens : List Rat) (h : GenKind.balanced.min rooted ≤ d)
    (hl : lensNonneg lens = true) :
    ∃ o, run .balanced (d : Int) rooted [] lens = .ok o ∧ balancedShape rooted d o.t = true := by
  cases rooted with
  | true => obtain ⟨o, h1, _, h3⟩ := balanced_rooted_ok d lens h hl; exact ⟨o, h1, h3⟩
  | false => obtain ⟨o, h1, _, h3⟩ := balanced_unrooted_ok d lens h hl; exact ⟨o, h1, h3⟩

/-- the star generator returns a single inner node carrying the `n` tips `Tip0 … Tip(n-1)`, all
    branches of length 1 (≥ 0), index ready -/
theorem star_shape (n : Nat) (h : 2 ≤ n) :
    ∃ o, run .star (n : Int) false [] [] = .ok o ∧ starShape n o.t = true ∧
      o.t.tipNames.Perm (tipNamesUpTo n) ∧ lensOk o.t = true ∧ indexReady o = true := by
  obtain ⟨o, h1, h2, h3, h4, h5⟩ := star_ok n h
  exact ⟨o, h1, h5, h2, h3, h4⟩

/-- the star written by `gotree generate startree` (every branch length redrawn with Exp, in
    `Edges()` order): with non-negative Exp values it passes the oracle predicate — star shape,
    names `Tip0 … Tip(n-1)`, lengths ≥ 0 — and its index is ready -/
theorem starCli_ok (n : Nat) (lens : List Rat) (h2 : 2 ≤ n) (hl : lensNonneg lens = true) :
    ∃ o, starCli (n : Int) lens = .ok o ∧ genTreeOK2 .star n false o.t = true ∧ indexReady o = true :=
  starCli_ok_lemma n lens h2 hl

theorem starCli_rejects (n : Int) (lens : List Rat) (h : n < 2) : (starCli n lens).isErr = true := by
  simp [starCli, h, Res.isErr]

/-! ### ★ the enumeration -/

/-- ★ the enumerator returns (2n-5)!! unrooted / (2n-3)!! rooted trees (with the default names
    `names = []`, or with `n` caller-supplied names) -/
theorem allTopologies_count (n : Nat) (rooted : Bool) (names : List String) (h : (if rooted then 2 else 3) ≤ n)
    (hn : names = [] ∨ names.length = n) :
    ∃ ts, allTopologies (n : Int) rooted names = .ok ts ∧
      ts.length = if rooted then dfact (2 * n - 3) else dfact (2 * n - 5) := by
  refine ⟨_, allTopologies_eq n rooted names h hn, ?_⟩
  rw [allTopoRec_length]
  cases rooted with
  | false =>
    simp only [Bool.false_eq_true, if_false] at h ⊢
    have hne : numEdges (topoInit (topoName names) false).1 = 1 + 2 := by simp [topoInit, numEdges, numEdgesL, T.leaf]
    have h2 : (topoInit (topoName names) false).2 = 3 := rfl
    rw [hne, h2]
    have := cnt_dfact (n - 3) 1
    simp only [dfact, Nat.mul_one] at this
    rw [this]; congr 1; omega
  | true =>
    simp only [if_true] at h ⊢
    have hne : numEdges (topoInit (topoName names) true).1 = 1 := by simp [topoInit, numEdges, numEdgesL, T.leaf]
    have h2 : (topoInit (topoName names) true).2 = 1 := rfl
    rw [hne, h2]
    obtain ⟨f, hf⟩ : ∃ f, n - 1 = f + 1 := ⟨n - 2, by omega⟩
    rw [hf]
    simp only [cnt, Nat.one_mul]
    have := cnt_dfact f 1
    simp only [dfact, Nat.mul_one] at this
    rw [this]; congr 1; omega

/-- every enumerated tree is a binary tree whose tips are exactly the `n` names (`Tip1 … Tipn` by
    default), with a root of degree 3 (unrooted) or 2 (rooted; since 7eca7b6 the start node above
    the root is removed from the returned copy) -/
theorem allTopologies_wellformed (n : Nat) (rooted : Bool) (names : List String) (h : (if rooted then 2 else 3) ≤ n)
    (hn : names = [] ∨ names.length = n) :
    ∃ ts, allTopologies (n : Int) rooted names = .ok ts ∧
      ∀ t ∈ ts, t.tipNames.Perm (topoNames names n) ∧ binaryL t.kids = true ∧
        t.kids.length = (if rooted then 2 else 3) := by
  refine ⟨_, allTopologies_eq n rooted names h hn, ?_⟩
  intro t ht
  rw [allTopoRec_eq_map] at ht
  obtain ⟨v, hv, rfl⟩ := List.mem_map.mp ht
  have hTI := allTopoRaw_wf (topoName names) _ _ _ _ (TI_init (topoName names) rooted) v hv
  have e : (topoInit (topoName names) rooted).2 + (n - (topoInit (topoName names) rooted).2) = n := by
    cases rooted <;> simp [topoInit] at h ⊢ <;> omega
  rw [e] at hTI
  have h2 : 2 ≤ n := by cases rooted <;> simp at h <;> omega
  obtain ⟨o1, o2, o3⟩ := topo_out (topoName names) rooted n v hTI h2
  exact ⟨o3, o1, o2⟩

/-- The enumerator never returns the same topology twice, for every `n` (default names, or `n`
    pairwise different caller-supplied names): the families of leaf sets below the branches
    (`belowFam`, the tree seen from its root) are pairwise different as sets of sets
    (`pairwiseDistinct`/`famEq` of the Spec).  For the rooted enumeration this family IS the
    rooted labelled topology (its set of clades).  For the unrooted one see
    `allTopologies_nodup_unrooted`. -/
theorem allTopologies_nodup (n : Nat) (rooted : Bool) (names : List String) (h : (if rooted then 2 else 3) ≤ n)
    (hn : names = [] ∨ (names.length = n ∧ names.Nodup)) :
    ∃ ts, allTopologies (n : Int) rooted names = .ok ts ∧ pairwiseDistinct (ts.map belowFam) = true := by
  refine ⟨_, allTopologies_eq n rooted names h (hn.imp id (·.1)), ?_⟩
  rw [pairwiseDistinct_iff, List.pairwise_map, allTopoRec_eq_map]
  have e : (topoInit (topoName names) rooted).2 + (n - (topoInit (topoName names) rooted).2) = n := by
    cases rooted <;> simp [topoInit] at h ⊢ <;> omega
  have h2 : 2 ≤ n := by cases rooted <;> simp at h <;> omega
  have hraw := rec_pairwise (topoName names) n (topoName_inj names n hn) _ _ _ _ (Nat.le_of_eq e)
    (TI_init (topoName names) rooted)
  have hTI : ∀ v ∈ allTopoRaw (topoName names) (n - (topoInit (topoName names) rooted).2)
      (topoInit (topoName names) rooted).1 (topoInit (topoName names) rooted).2,
      TI (topoName names) (if rooted then 1 else 3) n v := by
    intro v hv
    have := allTopoRaw_wf (topoName names) _ _ _ _ (TI_init (topoName names) rooted) v hv
    rwa [e] at this
  exact (out_pairwise (topoName names) rooted n _ hTI h2 hraw).imp
    (by intro a b hab; simpa only [belowFam_eq] using hab)

/-- Unrooted enumeration: no two returned trees have the same set of splits, where a split is a
    leaf set up to complement (`USame`: every leaf set below a branch of one tree is, as a set, a
    leaf set below a branch of the other or the complement of one).  The proof uses that all
    trees are seen from the node joining the first three tips, so a leaf set below a branch never
    holds two of these and its complement always does. -/
theorem allTopologies_nodup_unrooted (n : Nat) (names : List String) (h : 3 ≤ n)
    (hn : names = [] ∨ (names.length = n ∧ names.Nodup)) :
    ∃ ts, allTopologies (n : Int) false names = .ok ts ∧
      ts.Pairwise (fun a b => ¬ USame (topoNames names n) (belowFam a) (belowFam b)) := by
  refine ⟨_, allTopologies_eq n false names (by simpa using h) (hn.imp id (·.1)), ?_⟩
  rw [allTopoRec_eq_map]
  have hinj := topoName_inj names n hn
  have h0 := TI_init (topoName names) false
  have e : (topoInit (topoName names) false).2 + (n - (topoInit (topoName names) false).2) = n := by
    simp [topoInit]; omega
  have n12 : topoName names 0 ≠ topoName names 1 := fun e => by have := hinj 0 1 (by omega) (by omega) e; omega
  have n13 : topoName names 0 ≠ topoName names 2 := fun e => by have := hinj 0 2 (by omega) (by omega) e; omega
  have n23 : topoName names 1 ≠ topoName names 2 := fun e => by have := hinj 1 2 (by omega) (by omega) e; omega
  have q0 : Q3 (topoName names 0) (topoName names 1) (topoName names 2)
      (belowsL (topoInit (topoName names) false).1.kids) := by
    intro S hS
    simp only [topoInit, Bool.false_eq_true, if_false, T.kids_node, belowsL, belowsT, T.leaf, T.leaves, List.append_nil,
      List.mem_cons, List.not_mem_nil, or_false, List.nil_append] at hS
    rcases hS with rfl | rfl | rfl <;> simp [n12, n13, n23, n12.symm, n13.symm, n23.symm]
  have mem : ∀ i, i < 3 → topoName names i ∈ topoNames names n := by
    intro i hi
    exact List.mem_map.mpr ⟨i, List.mem_range.mpr (by omega), rfl⟩
  have hTI : ∀ v ∈ allTopoRaw (topoName names) (n - (topoInit (topoName names) false).2)
      (topoInit (topoName names) false).1 (topoInit (topoName names) false).2,
      TI (topoName names) 3 n v := by
    intro v hv
    have := allTopoRaw_wf (topoName names) _ _ _ _ h0 v hv
    rwa [e] at this
  have hout : ∀ v ∈ allTopoRaw (topoName names) (n - (topoInit (topoName names) false).2)
      (topoInit (topoName names) false).1 (topoInit (topoName names) false).2,
      belowFam (dropStem (clone v)) = belowsL v.kids := by
    intro v hv
    have := belows_out (topoName names) false n v (hTI v hv) (by omega)
    rw [belowFam_eq]; simpa using this.symm
  rw [List.pairwise_map]
  refine List.Pairwise.imp_of_mem ?_ (rec_pairwise (topoName names) n hinj _ _ _ _ (Nat.le_of_eq e) h0)
  intro a b ha hb hne hu
  apply hne
  have qa := rec_Q3 (topoName names) n hinj _ _ _ _ (by simp [topoInit]) (Nat.le_of_eq e) h0 q0 a ha
  have qb := rec_Q3 (topoName names) n hinj _ _ _ _ (by simp [topoInit]) (Nat.le_of_eq e) h0 q0 b hb
  rw [hout a ha, hout b hb] at hu
  exact famEq_of_uSame _ _ _ _ _ _ (mem 0 (by omega)) (mem 1 (by omega)) (mem 2 (by omega)) qa qb hu

/-- the enumerator rejects sizes below 3 (unrooted) / 2 (rooted) by an error, and a list of names
    whose length is not the requested number of tips -/
theorem allTopologies_rejects (n : Int) (rooted : Bool) (names : List String)
    (h : n < (if rooted then 2 else 3) ∨ (names ≠ [] ∧ (names.length : Int) ≠ n)) :
    (allTopologies n rooted names).isErr = true := by
  unfold allTopologies
  split
  · rfl
  · split
    · rfl
    · rename_i h1 h2
      rcases h with h | ⟨hne, hl⟩
      · exfalso
        cases rooted with
        | false => have : n < 3 := by simpa using h
                   simp [this] at h1
        | true => have : n < 2 := by simpa using h
                  simp [this] at h2
      · have hpos : names.length > 0 := List.length_pos_iff.mpr hne
        simp [hpos, hl, Res.isErr]

/- An extra instance, kept from round 1: kernel evaluation of the older string-key predicates on the
   model's enumeration for small n (the general statements are `allTopologies_nodup`,
   `allTopologies_nodup_unrooted`, `allTopologies_meets_oracle` and `topoOKN_sound` below). -/

/-- partial: pairwise distinct canonical forms, with the right count and well-formed trees, for
    the sizes 3 … 6 (unrooted) and 2 … 5 (rooted) — kernel evaluation of the model -/
theorem allTopologies_nodup_partial :
    ([3, 4, 5, 6].all (topoCheck false) && [2, 3, 4, 5].all (topoCheck true)) = true := by
  decide +kernel

/-! ### the enumeration oracle: numeric canonical form (closes `allTopologies_nodup_partial`)

   `topoKeyN` turns the family of leaf sets below the branches into one number; the driver
   evaluates `topoOKN` (count, well-formed trees, pairwise different keys) on every enumeration
   the Go code returns, of any size.  The four theorems below say that this Bool oracle is
   exactly the mathematical claim: equal keys ⇔ same topology, an accepted list is pairwise
   different (whatever produced it), and the model's own enumeration is accepted for every `n`. -/

/-- rooted: two trees on the reference tips get the same key iff they have the same set of clades -/
theorem topoKeyN_rooted_iff_famEq (all : List String) (a b : T) (ha : a.tipNames.Perm all) (hb : b.tipNames.Perm all) :
    topoKeyN all true a = topoKeyN all true b ↔ famEq (belowFam a) (belowFam b) = true := by
  rw [famEq_iff]
  exact topoKeyN_rooted_iff all a b (famIn_of_tips all a ha) (famIn_of_tips all b hb)

/-- unrooted: two trees on the (pairwise different) reference tips get the same key iff they have
    the same set of splits (leaf sets up to complement) -/
theorem topoKeyN_unrooted_iff_uSame (all : List String) (hn : all.Nodup) (a b : T) (ha : a.tipNames.Perm all)
    (hb : b.tipNames.Perm all) :
    topoKeyN all false a = topoKeyN all false b ↔ USame all (belowFam a) (belowFam b) :=
  topoKeyN_unrooted_iff all hn a b (famIn_of_tips all a ha) (famIn_of_tips all b hb)

/-- soundness of the oracle: a list of trees accepted by `topoOKN` — whatever produced it — has the
    right number of trees, each a binary tree on the requested tips, no topology twice -/
theorem topoOKN_sound (n : Nat) (rooted : Bool) (names : List String) (hn : (topoNames names n).Nodup) (ts : List T)
    (h : topoOKN n rooted ts names = true) :
    ts.length = topoCount n rooted ∧ (∀ t ∈ ts, topoTreeOK n rooted t names = true) ∧
    ts.Pairwise (fun a b => if rooted then ¬ FamEq (belowFam a) (belowFam b)
      else ¬ USame (topoNames names n) (belowFam a) (belowFam b)) := by
  have h' := h
  unfold topoOKN at h'
  simp only [Bool.and_eq_true, List.all_eq_true, beq_iff_eq] at h'
  refine ⟨h'.1.1, h'.1.2, ?_⟩
  cases rooted with
  | true => simpa using topoOKN_sound_rooted n names ts h
  | false => simpa using topoOKN_sound_unrooted n names hn ts h

/-- the model's enumeration passes the oracle for every `n` (default names or `n` pairwise
    different caller-supplied names): the full form of `allTopologies_nodup_partial` -/
theorem allTopologies_meets_oracle (n : Nat) (rooted : Bool) (names : List String) (h : (if rooted then 2 else 3) ≤ n)
    (hn : names = [] ∨ (names.length = n ∧ names.Nodup)) :
    ∃ ts, allTopologies (n : Int) rooted names = .ok ts ∧ topoOKN n rooted ts names = true := by
  have hn' : names = [] ∨ names.length = n := hn.imp id (·.1)
  obtain ⟨ts, h1, hcount⟩ := allTopologies_count n rooted names h hn'
  obtain ⟨ts2, h2, hwf⟩ := allTopologies_wellformed n rooted names h hn'
  have e2 : ts2 = ts := res_ok_inj (h2.symm.trans h1)
  subst e2
  have hall : (topoNames names n).Nodup := namesUpTo_nodup (topoName names) n n (topoName_inj names n hn) (Nat.le_refl n)
  refine ⟨ts2, h1, ?_⟩
  unfold topoOKN
  simp only [Bool.and_eq_true, List.all_eq_true, beq_iff_eq]
  refine ⟨⟨?_, ?_⟩, ?_⟩
  · rw [hcount]; unfold topoCount; rfl
  · intro t ht
    obtain ⟨w1, w2, w3⟩ := hwf t ht
    unfold topoTreeOK
    simp only [Bool.and_eq_true]
    refine ⟨⟨sameNames_of_perm _ _ w1, w2⟩, ?_⟩
    cases rooted <;> simp [w3]
  · apply distinctNat_of_pairwise (topoNames names n) rooted hall ts2
      (fun t ht => famIn_of_tips _ t (hwf t ht).1)
    cases rooted with
    | true =>
      obtain ⟨ts3, h3, hd⟩ := allTopologies_nodup n true names h hn
      have e3 : ts3 = ts2 := res_ok_inj (h3.symm.trans h1)
      subst e3
      rw [pairwiseDistinct_iff, List.pairwise_map] at hd
      simpa using hd
    | false =>
      obtain ⟨ts3, h3, hd⟩ := allTopologies_nodup_unrooted n names (by simpa using h) hn
      have e3 : ts3 = ts2 := res_ok_inj (h3.symm.trans h1)
      subst e3
      simpa using hd

/-! ### exhaustiveness: every labelled binary topology is enumerated

   Together with `allTopologies_nodup` / `_nodup_unrooted` this is "each topology exactly once"
   without appeal to the classical count of labelled binary trees (which becomes a corollary of
   `allTopologies_count`).  Proof: prune the last tip of the given tree, find the smaller tree in
   the enumeration (induction), re-insert the tip on the matching branch (`Lemmas/C16Surj`). -/

/-- ROOTED: every rooted binary tree on the `n` names (root with two children, every inner node with
    two children, tips = the names) has the same set of clades as one of the enumerated trees -/
theorem allTopologies_exhaustive_rooted (n : Nat) (names : List String) (h : 2 ≤ n)
    (hn : names = [] ∨ (names.length = n ∧ names.Nodup)) :
    ∃ ts, allTopologies (n : Int) true names = .ok ts ∧
      ∀ t : T, t.kids.length = 2 → binaryL t.kids = true → (leavesL t.kids).Perm (topoNames names n) →
        ∃ t' ∈ ts, FamEq (belowFam t) (belowFam t') := by
  refine ⟨_, allTopologies_eq n true names (by simpa using h) (hn.imp id (·.1)), ?_⟩
  intro t hdeg hbin hleaves
  have := exhaustive_rooted_lemma (topoName names) n (topoName_inj names n hn) h t hdeg hbin hleaves
  have e2 : (topoInit (topoName names) true).2 = 1 := rfl
  simpa only [belowFam_eq, e2] using this

/-- UNROOTED: every binary tree on the `n` names, drawn from the node that joins the first three names
    (root with three children, every other inner node with two, no leaf set below a branch holding two
    of the first three names — every unrooted binary tree has exactly one such drawing), has the same
    family of leaf sets as one of the enumerated trees -/
theorem allTopologies_exhaustive_unrooted (n : Nat) (names : List String) (h : 3 ≤ n)
    (hn : names = [] ∨ (names.length = n ∧ names.Nodup)) :
    ∃ ts, allTopologies (n : Int) false names = .ok ts ∧
      ∀ t : T, t.kids.length = 3 → binaryL t.kids = true → (leavesL t.kids).Perm (topoNames names n) →
        Q3 (topoName names 0) (topoName names 1) (topoName names 2) (belowFam t) →
        ∃ t' ∈ ts, FamEq (belowFam t) (belowFam t') := by
  refine ⟨_, allTopologies_eq n false names (by simpa using h) (hn.imp id (·.1)), ?_⟩
  intro t hdeg hbin hleaves hq
  rw [belowFam_eq] at hq
  have := exhaustive_unrooted_lemma (topoName names) n (topoName_inj names n hn) h t hdeg hbin hleaves hq
  have e2 : (topoInit (topoName names) false).2 = 3 := rfl
  simpa only [belowFam_eq, e2] using this

/-- UNROOTED, any drawing: every binary tree on the `n` names drawn from ANY node of degree three
    (root with three children, every other inner node with two) has the same set of splits — leaf
    sets up to complement, `USame` — as one of the enumerated trees.  (The tree is first re-drawn from
    the node joining the first three names, `median_drawing`, which keeps the split set.) -/
theorem allTopologies_exhaustive_unrooted_any (n : Nat) (names : List String) (h : 3 ≤ n)
    (hn : names = [] ∨ (names.length = n ∧ names.Nodup)) :
    ∃ ts, allTopologies (n : Int) false names = .ok ts ∧
      ∀ t : T, t.kids.length = 3 → binaryL t.kids = true → (leavesL t.kids).Perm (topoNames names n) →
        ∃ t' ∈ ts, USame (topoNames names n) (belowFam t) (belowFam t') := by
  obtain ⟨ts, h1, hex⟩ := allTopologies_exhaustive_unrooted n names h hn
  obtain ⟨ts2, h2, hwf⟩ := allTopologies_wellformed n false names (by simpa using h) (hn.imp id (·.1))
  have e2 : ts2 = ts := res_ok_inj (h2.symm.trans h1)
  subst e2
  refine ⟨ts2, h1, ?_⟩
  intro t hdeg hbin hleaves
  have hinj := topoName_inj names n hn
  have hall : (topoNames names n).Nodup := namesUpTo_nodup (topoName names) n n hinj (Nat.le_refl n)
  have n01 : topoName names 0 ≠ topoName names 1 := fun e => by have := hinj 0 1 (by omega) (by omega) e; omega
  have n02 : topoName names 0 ≠ topoName names 2 := fun e => by have := hinj 0 2 (by omega) (by omega) e; omega
  have n12 : topoName names 1 ≠ topoName names 2 := fun e => by have := hinj 1 2 (by omega) (by omega) e; omega
  have hU : U3 (topoNames names n) t := ⟨hdeg, hbin, hleaves⟩
  obtain ⟨t₂, hU2, hq2, hus⟩ := median_drawing (topoNames names n) hall _ _ _ n01 n02 n12 t hU
  obtain ⟨t', ht', hfe⟩ := hex t₂ hU2.deg hU2.bin hU2.leaves (by rw [belowFam_eq]; exact hq2)
  refine ⟨t', ht', ?_⟩
  rw [belowFam_eq] at hfe ⊢
  rw [belowFam_eq] at hfe
  rw [belowFam_eq]
  have hin' : FamIn (topoNames names n) (belowsL t'.kids) := by
    have := famIn_of_tips (topoNames names n) t' (hwf t' ht').1
    rwa [belowFam_eq] at this
  exact USame.trans (famIn_of_U3 hU) hin' hus (uSame_of_famEq _ hfe)

/-- the hypotheses of the two theorems are satisfiable: the caterpillars ((Tip1,Tip2),(Tip3,Tip4)) and
    ((Tip4,Tip1),Tip2,Tip3) -/
example : (leavesL (T.node ⟨"", []⟩ 0 [(EdgeD.blank, .node ⟨"", []⟩ 0 [(EdgeD.blank, T.leaf "Tip1"), (EdgeD.blank, T.leaf "Tip2")]),
    (EdgeD.blank, .node ⟨"", []⟩ 0 [(EdgeD.blank, T.leaf "Tip3"), (EdgeD.blank, T.leaf "Tip4")])]).kids) =
    ["Tip1", "Tip2", "Tip3", "Tip4"] := by decide

/-! ### the other constructors of treegen.go -/

/-- `StarTreeFromName`: with at least two names, a star carrying exactly these names in this order,
    all lengths 1; index ready when the names are pairwise different; fewer than two names: error -/
theorem starFromNames_ok (names : List String) (h : 2 ≤ names.length) :
    ∃ o, starFromNames names = .ok o ∧ starFromNamesOK names o.t = true ∧ o.t.tipNames = names ∧
      (names.Nodup → o.index = some (sortNames names)) :=
  starFromNames_ok_lemma names h

theorem starFromNames_rejects (names : List String) (h : names.length < 2) : (starFromNames names).isErr = true := by
  simp [starFromNames, h, Res.isErr]

/-- `StarTreeFromTree`: a star with one tip per terminal branch of the input, same names, same
    lengths (absent ones included), same order — whatever the shape of the input -/
theorem starFromTree_ok (tin : T) (h : 2 ≤ (tipEdgesOf tin).length) (hn : ((tipEdgesOf tin).map (·.1)).Nodup) :
    ∃ o, starFromTree tin = .ok o ∧ starFromTreeOK tin o.t = true ∧ o.t.tipNames = (tipEdgesOf tin).map (·.1) :=
  starFromTree_ok_lemma tin h hn

/-- `BipartitionTree`: two sides of at least two names, all pairwise different: the tree whose
    only inner branch separates them, all lengths 1, index ready -/
theorem bipartitionTree_ok (left right : List String) (hl : 2 ≤ left.length) (hr : 2 ≤ right.length)
    (hd : (left ++ right).Nodup) :
    ∃ o, bipartitionTree left right = .ok o ∧ twoStarOK left right o.t = true ∧ o.t.tipNames = right ++ left ∧
      o.index = some (sortNames (right ++ left)) :=
  bipartitionTree_ok_lemma left right hl hr hd

/-- a side with fewer than two names, or a name on both sides, is an error -/
theorem bipartitionTree_rejects (left right : List String)
    (h : left.length ≤ 1 ∨ right.length ≤ 1 ∨ ∃ x, x ∈ left ∧ x ∈ right) :
    (bipartitionTree left right).isErr = true := by
  unfold bipartitionTree
  split
  · rfl
  · split
    · rfl
    · rename_i h1 h2
      exfalso
      rcases h with h | h | ⟨x, hx, hy⟩
      · apply h1; simp [h]
      · apply h1; simp [h]
      · apply h2
        rw [List.any_eq_true]
        exact ⟨x, hy, by simpa using hx⟩

/-- `EdgeTree` on a branch of a tree with pairwise different tip names: the tree whose only inner
    branch separates the tips below that branch from the others -/
theorem edgeTree_ok (tin : T) (k : Nat) (hk : k < tin.splits.length) (hn : tin.tipNames.Nodup) :
    ∃ o, edgeTree tin k = .ok o ∧
      twoStarOK (tin.tipNames.filter fun x => !(tin.splits[k]).below.contains x)
        (tin.tipNames.filter fun x => (tin.splits[k]).below.contains x) o.t = true :=
  edgeTree_ok_lemma tin k hk hn

/-- which inputs these constructors reject, read off the inputs alone (the predicates the driver uses
    as oracle; the model is only used for the tie) -/
theorem extra_rejections (names left right : List String) (tin : T) :
    (starFromNames names).isErr = starnMustReject names ∧
    (starFromTree tin).isErr = startMustReject tin ∧
    (bipartitionTree left right).isErr = bipartMustReject left right :=
  ⟨starFromNames_isErr_iff names, starFromTree_isErr_iff tin, bipartitionTree_isErr_iff left right⟩

/-! ### the command loop (`uniformTree` … `starTree` of cmd/*.go; model `genCli`) -/

/-- the call the command makes for its `i`-th tree, with the `i`-th block of draws -/
def cliCall (g : GenKind) (n : Int) (rooted : Bool) (ints : Nat → List Nat) (lens : Nat → List Rat) (i : Nat) : Res Out :=
  if g == .star then starCli n (lens i) else run g n rooted (ints i) (lens i)

/-- `gotree generate <cmd>` with a valid size, a creatable output and admissible draws: exit status 0,
    nothing logged, exactly the requested number of trees, every one of them passing the oracle
    predicate of the library call -/
theorem generate_cli_ok (g : GenKind) (n : Nat) (rooted : Bool) (r : GenReq) (ints : Nat → List Nat) (lens : Nat → List Rat)
    (h : g.min rooted ≤ n) (hd : ∀ i, drawsInRange g n rooted (ints i) = true) (hl : ∀ i, lensNonneg (lens i) = true)
    (hs : g = .star → rooted = false) :
    let out := genCli r true (cliCall g n rooted ints lens)
    out.exit = 0 ∧ out.logged = false ∧ out.trees.length = r.nbtrees.toNat ∧
    ∀ t ∈ out.trees, genTreeOK2 g n rooted t = true := by
  have hok : ∀ i, ∃ o, cliCall g n rooted ints lens i = .ok o ∧ genTreeOK2 g n rooted o.t = true := by
    intro i
    by_cases hg : g = .star
    · subst hg
      have h2 : 2 ≤ n := by simpa [GenKind.min] using h
      obtain ⟨o, h1, h3, _⟩ := starCli_ok n (lens i) h2 (hl i)
      rw [hs rfl]
      exact ⟨o, by simp [cliCall, h1], h3⟩
    · obtain ⟨o, h1, h3⟩ := gen_meets_oracle2 g n rooted (ints i) (lens i) h (hd i) (hl i)
      exact ⟨o, by simp [cliCall, hg, h1], h3⟩
  have hall : ∀ j, j < r.nbtrees.toNat → (cliCall g n rooted ints lens j).isOk = true := by
    intro j _
    obtain ⟨o, h1, _⟩ := hok j
    rw [h1]; rfl
  have hloop := cliLoop_all_ok (cliCall g n rooted ints lens) r.nbtrees.toNat 0 [] (fun j _ h2 => hall j (by omega))
  simp only [genCli, Bool.not_true, Bool.and_false, Bool.false_eq_true, if_false]
  refine ⟨hloop.1, hloop.2.1, by simpa using hloop.2.2, ?_⟩
  intro t ht
  obtain ⟨j, o, _, hj, ho⟩ := cliLoop_mem _ _ hall t ht
  obtain ⟨o', h1, h3⟩ := hok j
  rw [hj] at h1
  cases h1
  rw [← ho]; exact h3

/-- a rejected size with at least one tree asked for: the first call fails, nothing is written, the
    error is logged and the exit status is 1 (`RunE`, table row `entry`) -/
theorem generate_cli_rejects (g : GenKind) (n : Int) (rooted : Bool) (r : GenReq) (creatable : Bool)
    (ints : Nat → List Nat) (lens : Nat → List Rat)
    (h : n < (g.min rooted : Int)) (hn : 0 < r.nbtrees) :
    genCli r creatable (cliCall g n rooted ints lens) = ⟨1, true, []⟩ := by
  unfold genCli
  split
  · rfl
  · have hf : (cliCall g n rooted ints lens 0).isOk = false := by
      by_cases hg : g = .star
      · subst hg
        have : n < 2 := by simpa [GenKind.min] using h
        simp [cliCall, starCli, this, Res.isOk]
      · have := gen_rejects g n rooted (ints 0) (lens 0) h
        simp only [cliCall, hg, beq_iff_eq, if_false]
        cases hr : run g n rooted (ints 0) (lens 0) with
        | ok o => rw [hr] at this; simp [Res.isErr] at this
        | err m => rfl
        | panic m => rfl
    obtain ⟨k, hk⟩ : ∃ k, r.nbtrees.toNat = k + 1 := ⟨r.nbtrees.toNat - 1, by omega⟩
    rw [hk]
    exact cliLoop_first_fails _ k 0 hf

/-- an output file that cannot be created: the error is returned before any generator call -/
theorem generate_cli_uncreatable (r : GenReq) (gen : Nat → Res Out) (h : r.toFile = true) :
    genCli r false gen = ⟨1, true, []⟩ := by
  simp [genCli, h]

/-- zero (or a negative number of) trees asked for: the loop body never runs — nothing is written,
    nothing is rejected, whatever the size -/
theorem generate_cli_zero (r : GenReq) (gen : Nat → Res Out) (h : r.nbtrees ≤ 0) :
    genCli r true gen = ⟨0, false, []⟩ := by
  have : r.nbtrees.toNat = 0 := by omega
  simp [genCli, this, cliLoop]

example : GenKind.yule.min true ≤ 5 ∧ (∀ _i : Nat, drawsInRange .yule 5 true [1, 2, 0] = true) ∧
    (⟨5, true, 2, "stdout", some 7, 1⟩ : GenReq).nbtrees.toNat = 2 :=
  ⟨by decide, fun _ => by decide, by decide⟩

/-! ### the command `generate topologies` (model `topoCli`) -/

/-- without `-i`: a valid `-l n` and an output that can be opened: exit status 0, nothing logged, the
    (2n-5)!! / (2n-3)!! trees of the enumeration are written -/
theorem topologies_cli_ok (n : Nat) (rooted : Bool) (h : (if rooted then 2 else 3) ≤ n) :
    ∃ ts, topoCli (n : Int) rooted .absent true = ⟨0, false, ts⟩ ∧ allTopologies (n : Int) rooted [] = .ok ts ∧
      ts.length = if rooted then dfact (2 * n - 3) else dfact (2 * n - 5) := by
  obtain ⟨ts, h1, hc⟩ := allTopologies_count n rooted [] h (Or.inl rfl)
  exact ⟨ts, topoCli_of_ok _ rooted .absent ts (by intro h; cases h) h1, h1, hc⟩

/-- with `-i`: the number of tips is the number of tip names of the input tree, whatever `-l` says -/
theorem topologies_cli_ok_names (l : List String) (m : Int) (rooted : Bool) (h : (if rooted then 2 else 3) ≤ l.length) :
    ∃ ts, topoCli m rooted (.names l) true = ⟨0, false, ts⟩ ∧ allTopologies (l.length : Int) rooted l = .ok ts ∧
      ts.length = if rooted then dfact (2 * l.length - 3) else dfact (2 * l.length - 5) := by
  obtain ⟨ts, h1, hc⟩ := allTopologies_count l.length rooted l h (Or.inr rfl)
  exact ⟨ts, topoCli_of_ok m rooted (.names l) ts (by intro h; cases h) h1, h1, hc⟩

/-- every failure ends with exit status 1, an error logged and nothing written: a size below the
    minimum (taken from `-l`, or from the input tree when `-i` is given), an input that cannot be read,
    an output that cannot be opened -/
theorem topologies_cli_rejects (n : Int) (rooted : Bool) (inp : TopoInput) (creatable : Bool)
    (h : (inp.args n).1 < (if rooted then 2 else 3) ∨ inp = .unreadable ∨ creatable = false) :
    topoCli n rooted inp creatable = ⟨1, true, []⟩ := by
  rcases h with h | h | h
  · exact topoCli_of_err n rooted inp creatable (allTopologies_rejects _ rooted _ (Or.inl h))
  · subst h; rfl
  · subst h; exact topoCli_uncreatable n rooted inp

example : (if true then 2 else 3) ≤ ["A", "b_2", "10"].length := by decide

/-! ### the option model (`parseGenArgs`): what it computes -/

/-- no option: the defaults — 10 tips (depth 3 for balancedtree), one tree, unrooted, standard output, no seed -/
theorem options_defaults (bal : Bool) :
    parseGenArgs bal [] (GenReq.default bal) = some (GenReq.default bal) ∧
    (GenReq.default bal).size = (if bal then 3 else 10) ∧ (GenReq.default bal).nbtrees = 1 ∧
    (GenReq.default bal).rooted = false ∧ (GenReq.default bal).toFile = false ∧ (GenReq.default bal).seed = none := by
  refine ⟨parseGenArgs_nil bal _, ?_⟩
  cases bal <;> decide

/-- a value option spelled in two words sets its field; the remaining words are read from there -/
theorem options_value_step (bal : Bool) (f v : String) (rest : List String) (r : GenReq) (k : FlagKind)
    (hs : splitFlag f = (f, none)) (hk : flagKind bal f = k) (hr : k ≠ .rooted) (hu : k ≠ .unknown) :
    parseGenArgs bal (f :: v :: rest) r = (setFlag k v r).bind (parseGenArgs bal rest) :=
  parseGenArgs_value_step bal f v rest r k hs hk hr hu

/-- `-r` / `--rooted` consumes one word -/
theorem options_rooted_step (bal : Bool) (f : String) (rest : List String) (r : GenReq)
    (hs : splitFlag f = (f, none)) (hk : flagKind bal f = .rooted) :
    parseGenArgs bal (f :: rest) r = parseGenArgs bal rest { r with rooted := true } :=
  parseGenArgs_rooted_step bal f rest r hs hk

/-- the size option given twice: the last one counts -/
theorem options_size_twice_last_counts (bal : Bool) (f v1 v2 : String) (rest : List String) (r : GenReq) (x1 x2 : Int)
    (hs : splitFlag f = (f, none)) (hk : flagKind bal f = .size) (h1 : v1.toInt? = some x1) (h2 : v2.toInt? = some x2) :
    parseGenArgs bal (f :: v1 :: f :: v2 :: rest) r = parseGenArgs bal (f :: v2 :: rest) r :=
  parseGenArgs_size_twice bal f v1 v2 rest r x1 x2 hs hk h1 h2

/-- a word that is not an option of the command is a usage error -/
theorem options_unknown_is_usage_error (bal : Bool) (f : String) (rest : List String) (r : GenReq)
    (hk : flagKind bal (splitFlag f).1 = .unknown) : parseGenArgs bal (f :: rest) r = none :=
  parseGenArgs_unknown bal f rest r hk

/-! ### facts about the source, regenerated on every run (`harness/c16/extract.go` → `Gotree/Gen/C16Source.lean`)

   The hand-written model assumes: the leading rejections of the six generator functions (operator,
   bound, rootedness condition, message, order), the rate of every `gostats.Exp` call (the harness
   replays the draws with it), the options of `gotree generate …` (names, shorthands, defaults,
   variables), which library function each command calls and that its error reaches the exit status
   (`RunE`), and the two spellings of "standard output".  Each is re-decided here against the table
   extracted from the working tree; when a decision fails the cases still run, so that the oracle can
   exhibit a failing input (a guard moved from 3 to 4 rejects the valid size 3, …). -/

/-- the guards of tree/treegen.go are the ones the model was written from (the source text of the
    conditions is not compared: `depth < 2 && !rooted` and `!rooted && depth < 2` are the same row) -/
theorem sourceGuardsCheck : Gotree.Gen.C16.guards.map Guard.sem = expectedGuards.map Guard.sem := by decide

/-- what the extracted guards MEAN is what the model does: for every generator, size, rootedness and
    draws, when a leading `if` of the source fires the model returns that error with that message,
    and when none fires the size is at least `GenKind.min` (so `gen_ok` applies) -/
theorem source_guards_decide_as_model (g : GenKind) (n : Int) (rooted : Bool) (ints : List Nat) (lens : List Rat) :
    match firstFiring (guardsOf Gotree.Gen.C16.guards g.goName) n rooted with
    | some m => run g n rooted ints lens = .err m
    | none => (g.min rooted : Int) ≤ n := by
  rw [firstFiring_congr _ _ sourceGuardsCheck]
  have h := expected_guards_model g n rooted ints lens
  revert h
  cases firstFiring (guardsOf expectedGuards g.goName) n rooted <;> exact id

/-- the same for the size guards of the enumerator -/
theorem source_guards_decide_as_model_topo (n : Int) (rooted : Bool) (names : List String) :
    match firstFiring (guardsOf Gotree.Gen.C16.guards "AllTopologies") n rooted with
    | some m => allTopologies n rooted names = .err m
    | none => ((if rooted then 2 else 3 : Nat) : Int) ≤ n := by
  rw [firstFiring_congr _ _ sourceGuardsCheck]
  exact expected_guards_topo n rooted names

/-- every `gostats.Exp` of the generators and of `generate startree` has rate 10 -/
theorem sourceRatesCheck : Gotree.Gen.C16.rates = expectedRates := by decide

/-- the options of the generate commands are the ones of the option model: every row of the
    extracted table is the expected one, and each expected row agrees with `flagKind` (both
    spellings) and `GenReq.default` -/
theorem sourceFlagsCheck :
    Gotree.Gen.C16.flags = expectedFlags ∧ (genFlags expectedFlags).all Flag.agrees = true := by
  constructor
  · decide
  · decide +kernel

/-- each command calls the generator the model runs for it, through `RunE`; "stdout" and "-" are the
    two names of standard output -/
theorem sourceCallsCheck :
    sameFacts Gotree.Gen.C16.calls expectedCalls = true ∧ sameFacts Gotree.Gen.C16.outputs expectedOutputs = true := by
  decide +kernel

/-! ### pinned variants: the repaired defects, as theorems about the old behaviour -/

/-- F6/F21 (before 6e33baa): the 2-tip unrooted call of the insertion generators crashed -/
theorem twotip_unrooted_pinned_fails :
    (match insertionGenPinned (yuleStep [] []) 2 false [] with | .panic _ => true | _ => false) = true ∧
    (insertionGen (yuleStep [] []) 2 false []).isErr = true := by
  decide +kernel

/-- before 254a41c: the unrooted balanced tree of depth 1 was returned rooted at a tip: not binary -/
theorem balanced_depth1_unrooted_pinned_fails :
    (match balancedPinned 1 false [1, 1] with
     | .ok o => !o.t.binary && rootIsTip o.t && genTreeOK .balanced 1 false o.t == false
     | _ => false) = true ∧
    (balanced 1 false [1, 1]).isErr = true := by
  decide +kernel

/-- before 7eca7b6: every tree of the rooted enumeration kept the start node above the root (a root
    with ONE neighbour: `Rooted()` false, one tip too many); now the root has two -/
theorem rooted_topologies_pinned_fails :
    ((allTopoRecPinned (topoName []) 2 (topoInit (topoName []) true).1 1).all (fun t => t.kids.length == 1 && !t.rooted)) = true ∧
    ((allTopoRec (topoName []) 2 (topoInit (topoName []) true).1 1).all (fun t => t.rooted)) = true := by
  decide +kernel

end Gotree.C16
