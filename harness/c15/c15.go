// Package c15: local edits keep the rest of the tree; copies are independent.
//
// Per-operation cases (GraftTreeOnTip, Merge, InsertIdenticalTips, RemoveSingleNodes,
// SubTree, Clone) and aliasing histories (edit scripts applied to a copy / to the
// original while the other one is re-read after every step).
package c15

import (
	"fmt"
	"math/rand"
	"reflect"
	"sort"
	"strconv"
	"strings"

	"verifharness/core"

	"github.com/evolbioinfo/gotree/tree"
)

func b2s(b bool) string {
	if b {
		return "1"
	}
	return "0"
}

// build constructs the Go tree of n; indexed = ReinitIndexes is called (what the parsers do).
func build(n *core.N, indexed bool) *tree.Tree {
	t, err := core.Build(n)
	if err != nil {
		panic(err)
	}
	if indexed {
		if p, msg := core.Safe(func() { t.ReinitIndexes() }); p {
			panic("ReinitIndexes panicked on a generated tree: " + msg)
		}
	}
	return t
}

// read returns the α dump of t and the problems the checker found ("" = none).
func read(t *tree.Tree) (string, string) {
	var n *core.N
	var wf *core.WF
	if p, msg := core.Safe(func() { n, wf = core.Alpha(t) }); p {
		return "", core.Escape("alpha panicked: " + msg)
	}
	d := ""
	if n != nil {
		d = n.Dump()
	}
	if !wf.OK() {
		return d, core.Escape(strings.Join(wf.Problems, "; "))
	}
	return d, ""
}

func text(t *tree.Tree) string {
	var s string
	if p, msg := core.Safe(func() { s = t.Newick() }); p {
		return core.Escape("PANIC " + msg)
	}
	return core.Escape(s)
}

func outcome(p bool, msg string, err error) string {
	if p {
		return "panic:" + core.Escape(msg)
	}
	if err != nil {
		return "err"
	}
	return "ok"
}

// indexAnswers lists (sorted) the current tips that the tip index answers for: TipNode(name) must
// return the very node that Tips() enumerates under that name; "!" + names the index knows
// although no such tip exists (stale entries) are appended.
func indexAnswers(t *tree.Tree, extra []string) string {
	var out []string
	p, _ := core.Safe(func() {
		seen := map[string]bool{}
		for _, tip := range t.Tips() {
			seen[tip.Name()] = true
			if n, err := t.TipNode(tip.Name()); err == nil && n == tip {
				out = append(out, tip.Name())
			}
		}
		for _, nm := range extra {
			if !seen[nm] {
				if ok, err := t.ExistsTip(nm); err == nil && ok {
					out = append(out, "!"+nm)
				}
			}
		}
	})
	if p {
		return "PANIC,"
	}
	sort.Strings(out)
	return core.StrList(out)
}

// sharedCells reports which kinds of heap cells two trees have in common: node and branch
// structs, the backing arrays of the comment slices (when they have capacity: zero-capacity
// slices all point at the runtime's zero base), bitsets.
func sharedCells(a, b *tree.Tree) string {
	var kinds []string
	p, _ := core.Safe(func() {
		nodes := map[*tree.Node]bool{}
		edges := map[*tree.Edge]bool{}
		arrs := map[uintptr]bool{}
		bits := map[uintptr]bool{}
		for _, n := range a.Nodes() {
			nodes[n] = true
			if c := n.Comments(); cap(c) > 0 {
				arrs[reflect.ValueOf(c).Pointer()] = true
			}
		}
		for _, e := range a.Edges() {
			edges[e] = true
			if c := e.Comments(); cap(c) > 0 {
				arrs[reflect.ValueOf(c).Pointer()] = true
			}
			if bs := e.Bitset(); bs != nil {
				bits[reflect.ValueOf(bs).Pointer()] = true
			}
		}
		found := map[string]bool{}
		for _, n := range b.Nodes() {
			if nodes[n] {
				found["node"] = true
			}
			if c := n.Comments(); cap(c) > 0 && arrs[reflect.ValueOf(c).Pointer()] {
				found["nodecomment"] = true
			}
		}
		for _, e := range b.Edges() {
			if edges[e] {
				found["edge"] = true
			}
			if c := e.Comments(); cap(c) > 0 && arrs[reflect.ValueOf(c).Pointer()] {
				found["edgecomment"] = true
			}
			if bs := e.Bitset(); bs != nil && bits[reflect.ValueOf(bs).Pointer()] {
				found["bitset"] = true
			}
		}
		for k := range found {
			kinds = append(kinds, k)
		}
	})
	if p {
		return "PANIC,"
	}
	sort.Strings(kinds)
	return core.StrList(kinds)
}

// bitsetState compares every branch bitset with the tips actually below the branch (through the
// tip index): "ok", "nil" (some branch has no bitset), "stale" (some bit is wrong), "noindex".
func bitsetState(t *tree.Tree) string {
	state := "ok"
	p, _ := core.Safe(func() {
		var below func(n, prev *tree.Node, acc map[int]bool) bool
		below = func(n, prev *tree.Node, acc map[int]bool) bool {
			if n.Tip() {
				id, err := t.TipIndex(n.Name())
				if err != nil {
					return false
				}
				acc[id] = true
				return true
			}
			for _, c := range n.Neigh() {
				if c != prev {
					if !below(c, n, acc) {
						return false
					}
				}
			}
			return true
		}
		ntips := len(t.Tips())
		for _, e := range t.Edges() {
			bs := e.Bitset()
			if bs == nil {
				state = "nil"
				return
			}
			acc := map[int]bool{}
			if !below(e.Right(), e.Left(), acc) {
				state = "noindex"
				return
			}
			for i := 0; i < ntips; i++ {
				if bs.Test(uint(i)) != acc[i] {
					state = "stale"
					return
				}
			}
		}
	})
	if p {
		return "panic"
	}
	return state
}

// derivedDump prints the derived state of t: the tip index as the list of names ordered by tip id
// (a name whose id is out of range or taken is flagged), and the bitset of every branch in Edges()
// order as a 0/1 string over the tip ids ("nil" when absent).
func derivedDump(t *tree.Tree) string {
	out := ""
	p, _ := core.Safe(func() {
		tips := t.Tips()
		byID := make([]string, len(tips))
		okIdx := true
		for _, tip := range tips {
			id, err := t.TipIndex(tip.Name())
			if err != nil || id < 0 || id >= len(tips) || byID[id] != "" {
				okIdx = false
				break
			}
			byID[id] = tip.Name() + "\x00"
		}
		if !okIdx {
			out = "!index"
			return
		}
		for i := range byID {
			byID[i] = strings.TrimSuffix(byID[i], "\x00")
		}
		var bits []string
		for _, e := range t.Edges() {
			bs := e.Bitset()
			if bs == nil {
				bits = append(bits, "nil")
				continue
			}
			b := make([]byte, len(tips))
			for i := range b {
				if bs.Test(uint(i)) {
					b[i] = '1'
				} else {
					b[i] = '0'
				}
			}
			if bs.Len() != uint(len(tips)) {
				bits = append(bits, "len"+string(b))
			} else {
				bits = append(bits, string(b))
			}
		}
		out = core.StrList(byID) + "/" + core.StrList(bits)
	})
	if p {
		return "!panic"
	}
	return out
}

func pathStr(p []int) string { return core.IntList(p) }

func parsePath(s string) []int {
	var out []int
	for _, f := range strings.Split(s, ",") {
		if f == "" {
			continue
		}
		v, _ := strconv.Atoi(f)
		out = append(out, v)
	}
	return out
}

func parseStrList(s string) []string {
	var out []string
	f := strings.Split(s, ",")
	for _, x := range f[:len(f)-1] {
		u, err := core.Unescape(x)
		if err != nil {
			panic(err)
		}
		out = append(out, u)
	}
	return out
}

func parseStrLists(s string) [][]string {
	out := [][]string{}
	f := strings.Split(s, ";")
	for _, x := range f[:len(f)-1] {
		out = append(out, parseStrList(x))
	}
	return out
}

func mustDump(s string) *core.N {
	n, err := core.ParseDump(s)
	if err != nil {
		panic(err)
	}
	return n
}

/* ---------- generators ---------- */

func opts(g *core.G) core.TreeOpts {
	o := core.DefaultOpts()
	o.MinTips, o.MaxTips = 3, 9
	o.Lengths = 2
	o.Supports = 2
	o.Comments = 0.15
	if g.Chance(0.15) {
		o.MinTips, o.MaxTips = 2, 3
	}
	if g.Chance(0.2) {
		o.InnerNames = 0.4
	}
	return o
}

// rerooted passes the tree through the real Reroot so that parent positions differ from 0.
func rerooted(g *core.G, n *core.N) *core.N {
	t, err := core.Build(n)
	if err != nil {
		panic(err)
	}
	var inner []*tree.Node
	for _, x := range t.Nodes() {
		if x.Nneigh() >= 2 && x != t.Root() {
			inner = append(inner, x)
		}
	}
	if len(inner) == 0 {
		return n
	}
	if p, _ := core.Safe(func() { t.Reroot(inner[g.Intn(len(inner))]) }); p {
		return n
	}
	m, wf := core.Alpha(t)
	if !wf.OK() {
		return n
	}
	return m
}

// rootTip hangs the tree below a new named root that has a single neighbour.
func rootTip(g *core.G, n *core.N, o *core.TreeOpts, name string) *core.N {
	n.E = core.NewE()
	n.E.Len = g.Length(o)
	return &core.N{Name: name, Kids: []*core.N{n}}
}

func addSingles(g *core.G, o *core.TreeOpts, n *core.N, p float64) {
	for i, k := range n.Kids {
		addSingles(g, o, k, p)
		for g.Chance(p) { // chains
			mid := &core.N{E: core.NewE(), Kids: []*core.N{n.Kids[i]}}
			mid.E.Len = g.Length(o)
			if g.Chance(0.5) {
				mid.E.Sup = g.Support(o)
			}
			if g.Chance(0.3) {
				mid.Name = fmt.Sprintf("S%d", g.Intn(1000))
			}
			if g.Chance(0.2) {
				mid.E.Comments = []string{"s"}
			}
			n.Kids[i] = mid
		}
	}
}

// genTree draws a tree with the decorations C15 needs; prefix keeps tip sets disjoint.
func genTree(g *core.G, prefix string, rooted int) *core.N {
	o := opts(g)
	o.TipPrefix = prefix
	o.Rooted = rooted
	n, _ := g.Tree(o)
	if rooted == 2 && g.Chance(0.25) {
		n = rerooted(g, n)
	}
	// p-values next to supports (written "support/pvalue" by the Newick writer)
	var pv func(x *core.N)
	pv = func(x *core.N) {
		if x.E != nil && x.E.Sup != -1 && g.Chance(0.5) {
			x.E.Pval = float64(g.Intn(17)) / 16
		}
		for _, k := range x.Kids {
			pv(k)
		}
	}
	pv(n)
	if g.Chance(0.03) { // one tip without a name
		var leaves []*core.N
		var rec func(x *core.N)
		rec = func(x *core.N) {
			if len(x.Kids) == 0 {
				leaves = append(leaves, x)
			}
			for _, k := range x.Kids {
				rec(k)
			}
		}
		rec(n)
		if len(leaves) > 0 && prefix == "t" {
			leaves[g.Intn(len(leaves))].Name = ""
		}
	}
	core.NumberEdges(n)
	return n
}

func tipsBelowRoot(n *core.N) []string {
	var out []string
	for _, k := range n.Kids {
		out = append(out, k.Leaves()...)
	}
	return out
}

/* ---------- operations on the real code ---------- */

func doGraft(c *core.Ctx, indexed bool, n *core.N, tip string, gn *core.N) {
	t := build(n, indexed)
	gt := build(gn, true)
	var err error
	p, msg := core.Safe(func() { err = t.GraftTreeOnTip(tip, gt) })
	oc := outcome(p, msg, err)
	d, wf := "", ""
	if !p { // also after a refusal: the tree must then be untouched
		d, wf = read(t)
	}
	ia := ""
	if oc == "ok" {
		ia = indexAnswers(t, append(n.TipNames(), gn.TipNames()...)) + "||" + derivedDump(t)
	}
	c.Emit("C15.graft", b2s(indexed), n.Dump(), core.Escape(tip), gn.Dump(), oc, d, wf, ia)
}

func doMerge(c *core.Ctx, i1, i2 bool, n1, n2 *core.N) {
	t := build(n1, i1)
	t2 := build(n2, i2)
	var err error
	p, msg := core.Safe(func() { err = t.Merge(t2) })
	oc := outcome(p, msg, err)
	d, wf := "", ""
	if !p { // also after a refusal: the tree must then be untouched
		d, wf = read(t)
	}
	ia := ""
	if oc == "ok" {
		ia = indexAnswers(t, append(n1.TipNames(), n2.TipNames()...)) + "|" + bitsetState(t) + "|" + derivedDump(t)
	}
	c.Emit("C15.merge", b2s(i1), b2s(i2), n1.Dump(), n2.Dump(), oc, d, wf, ia)
}

func doInsid(c *core.Ctx, indexed bool, n *core.N, groups [][]string) {
	t := build(n, indexed)
	var err error
	p, msg := core.Safe(func() { err = t.InsertIdenticalTips(groups) })
	oc := outcome(p, msg, err)
	if oc == "err" { // the message tells the refusals apart (known finding F79: NewNodeIndex's duplicate name)
		oc = "err:" + core.Escape(err.Error())
	}
	d, wf := "", ""
	if !p {
		d, wf = read(t)
	}
	ia := ""
	if oc == "ok" {
		ia = indexAnswers(t, n.TipNames()) + "|" + bitsetState(t) + "|" + derivedDump(t)
	}
	c.Emit("C15.insid", b2s(indexed), n.Dump(), core.StrLists(groups), oc, d, wf, ia)
}

func doRmSingle(c *core.Ctx, indexed bool, n *core.N) {
	t := build(n, indexed)
	p, msg := core.Safe(func() { t.RemoveSingleNodes() })
	oc := outcome(p, msg, nil)
	d, wf := "", ""
	if !p {
		d, wf = read(t)
	}
	dd := ""
	if !p && indexed {
		dd = derivedDump(t)
	}
	c.Emit("C15.rmsingle", b2s(indexed), n.Dump(), oc, d, wf, dd)
}

func doSubTree(c *core.Ctx, n *core.N, path []int) {
	t := build(n, true)
	txt0 := text(t)
	node, _, err := core.NodeAt(t, path)
	if err != nil {
		panic(err)
	}
	var sub *tree.Tree
	p, msg := core.Safe(func() { sub = t.SubTree(node) })
	oc := outcome(p, msg, nil)
	d, wf := "", ""
	if !p {
		d, wf = read(sub)
	}
	da, _ := read(t)
	ia, sh := "", ""
	if !p {
		ia = indexAnswers(sub, n.TipNames()) + "|" + bitsetState(sub) + "|" + derivedDump(sub)
		sh = sharedCells(t, sub)
	}
	c.Emit("C15.subtree", n.Dump(), pathStr(path), oc, d, wf, da, txt0, text(t), ia, sh)
}

// nodeIds: every value field of Node and Edge the α dump does not carry — node id and depth; per branch the
// two tip counts and the hash code (set by ReinitIndexes) — in Nodes() / Edges() order.
func nodeIds(t *tree.Tree) string {
	var b strings.Builder
	for _, x := range t.Nodes() {
		d, err := x.Depth()
		if err != nil {
			d = -1
		}
		fmt.Fprintf(&b, "%d/%d,", x.Id(), d)
	}
	b.WriteByte('|')
	for _, e := range t.Edges() {
		fmt.Fprintf(&b, "%d/%d/%d,", e.NumTipsLeft(), e.NumTipsRight(), e.HashCode())
	}
	// the row `gotree stats edges` prints for every branch: length, support, topological depth, depth of the
	// lower node, depth TO THE ROOT (Node.rootdepth), name of the node below
	b.WriteByte('|')
	depthsKnown := true // ToStatsString exits the process when a depth has not been computed
	for _, x := range t.Nodes() {
		if _, err := x.Depth(); err != nil {
			depthsKnown = false
		}
	}
	for _, e := range t.Edges() {
		if !depthsKnown {
			b.WriteString("-,")
			continue
		}
		row := ""
		if p, msg := core.Safe(func() { row = e.ToStatsString(false) }); p {
			row = "PANIC " + msg
		}
		b.WriteString(core.Escape(row))
		b.WriteByte(',')
	}
	return b.String()
}

func doClone(c *core.Ctx, indexed bool, setIds bool, n *core.N) {
	t := build(n, indexed)
	if setIds {
		for i, x := range t.Nodes() {
			x.SetId(i + 7)
		}
	}
	if indexed {
		core.Safe(func() { t.ComputeDepths() }) // depth and depth-to-the-root of every node
	}
	var cl *tree.Tree
	p, msg := core.Safe(func() { cl = t.Clone() })
	oc := outcome(p, msg, nil)
	d, wf, tc, ic := "", "", "", ""
	if !p {
		d, wf = read(cl)
		tc = text(cl)
		ic = nodeIds(cl)
	}
	da, _ := read(t)
	ia, sh := "", ""
	if !p {
		ia = indexAnswers(cl, n.TipNames())
		if indexed {
			ia += "|" + bitsetState(cl) + "|" + derivedDump(cl)
		}
		sh = sharedCells(t, cl)
	}
	c.Emit("C15.clone", b2s(indexed), n.Dump(), oc, d, wf, da, text(t), tc, nodeIds(t), ic, ia, sh)
}

/* ---------- case generators ---------- */

func graftTree(g *core.G) *core.N {
	switch g.Intn(8) {
	case 0: // a single node
		return &core.N{Name: "g0"}
	case 1: // root with one child
		o := opts(g)
		return rootTip(g, &core.N{Name: "g1"}, &o, "gr")
	case 2: // root tip above a tree
		o := opts(g)
		return rootTip(g, genTree(g, "g", 2), &o, "gr")
	case 3:
		return genTree(g, "g", 1)
	default:
		return genTree(g, "g", 2)
	}
}

func graftCases(c *core.Ctx) {
	g := c.G
	n := genTree(g, "t", 2)
	if g.Chance(0.15) {
		o := opts(g)
		n = rootTip(g, n, &o, "rt")
		core.NumberEdges(n)
	}
	tips := n.TipNames()
	var pick []string
	if len(tips) <= 5 || !c.Quick() {
		pick = tips // all graft positions
	} else {
		pick = []string{tips[g.Intn(len(tips))], tips[g.Intn(len(tips))]}
	}
	for _, tip := range pick {
		doGraft(c, true, n, tip, graftTree(g))
	}
	if g.Chance(0.1) {
		doGraft(c, true, n, "nosuchtip", graftTree(g))
	}
	if g.Chance(0.1) {
		doGraft(c, false, n, tips[0], graftTree(g))
	}
	if g.Chance(0.1) { // graft sharing names with the host
		doGraft(c, true, n, tips[0], genTree(g, "t", 2))
	}
}

func mergeCases(c *core.Ctx) {
	g := c.G
	r1, r2 := 1, 1
	if g.Chance(0.12) {
		r1 = 0
	}
	if g.Chance(0.12) {
		r2 = 0
	}
	p2 := "u"
	if g.Chance(0.12) {
		p2 = "t" // common tip names: must be refused
	}
	n1 := genTree(g, "t", r1)
	n2 := genTree(g, p2, r2)
	// the generator's "rooted" trees may have a multifurcating root: make it a real root
	binRoot := func(n *core.N) {
		if len(n.Kids) > 2 {
			o := opts(g)
			in := &core.N{E: core.NewE(), Kids: n.Kids[1:]}
			in.E.Len = g.Length(&o)
			n.Kids = []*core.N{n.Kids[0], in}
			core.NumberEdges(n)
		}
	}
	if r1 == 1 {
		binRoot(n1)
	}
	if r2 == 1 {
		binRoot(n2)
	}
	// inner labels that look like trouble but are none: an inner node of one tree named like a tip of the
	// other, two inner nodes sharing a label — the tips stay disjoint, the merge must succeed
	var inners func(x *core.N, acc *[]*core.N)
	inners = func(x *core.N, acc *[]*core.N) {
		for _, k := range x.Kids {
			if len(k.Kids) > 0 {
				*acc = append(*acc, k)
			}
			inners(k, acc)
		}
	}
	if g.Chance(0.3) {
		var in1, in2 []*core.N
		inners(n1, &in1)
		inners(n2, &in2)
		switch g.Intn(4) {
		case 0:
			if len(in2) > 0 {
				in2[g.Intn(len(in2))].Name = n1.TipNames()[0]
				in2[0].E.Sup = -1
			}
		case 1:
			if len(in1) > 0 {
				in1[g.Intn(len(in1))].Name = n2.TipNames()[0]
			}
		case 2:
			if len(in2) >= 2 {
				in2[0].Name, in2[len(in2)-1].Name = "SAME", "SAME"
			} else {
				n2.Name = n1.TipNames()[0] // the root of the second tree
			}
		default:
			if len(in1) >= 2 {
				in1[0].Name, in1[len(in1)-1].Name = "SAME", "SAME"
			}
		}
	}
	if g.Chance(0.3) {
		addSingles(g, &core.TreeOpts{Lengths: 2, LenDenom: 8, LenMax: 40, Supports: 2}, n1, 0.15)
		core.NumberEdges(n1)
	}
	doMerge(c, !g.Chance(0.06), !g.Chance(0.06), n1, n2)
}

func insidCases(c *core.Ctx) {
	g := c.G
	n := genTree(g, "t", 2)
	if g.Chance(0.1) {
		o := opts(g)
		n = rootTip(g, n, &o, "rt")
		core.NumberEdges(n)
	}
	if g.Chance(0.04) { // the two-node tree: a root that is a tip above one leaf
		n = &core.N{Name: "rt", Kids: []*core.N{{Name: "t0", E: core.NewE()}}}
		n.Kids[0].E.Len = []float64{0, -1, 1.5}[g.Intn(3)]
		n.Kids[0].E.Id = 0
	}
	if g.Chance(0.03) { // two inner nodes with the same label (known finding F79)
		var in []*core.N
		var rec func(x *core.N)
		rec = func(x *core.N) {
			for _, k := range x.Kids {
				if len(k.Kids) > 0 {
					in = append(in, k)
				}
				rec(k)
			}
		}
		rec(n)
		if len(in) >= 2 && g.Chance(0.5) {
			in[0].Name, in[len(in)-1].Name = "DUP", "DUP"
			in[0].E.Sup, in[len(in)-1].E.Sup = -1, -1
		} else if len(in) >= 1 { // an inner label equal to a tip label of the same tree
			k := in[g.Intn(len(in))]
			k.Name = k.Leaves()[0]
			k.E.Sup = -1
		}
	}
	if g.Chance(0.06) { // a tip without a name ("" is also the code's "no existing tip yet")
		x := n
		for len(x.Kids) > 0 {
			x = x.Kids[g.Intn(len(x.Kids))]
		}
		x.Name = ""
	}
	tips := n.TipNames()
	perm := g.R.Perm(len(tips))
	ng := 1 + g.Intn(3)
	if ng > len(tips) {
		ng = len(tips)
	}
	var groups [][]string
	fresh := 0
	// force zero / absent tip branch lengths on the chosen tips now and then
	var setLen func(x *core.N, name string, l float64)
	setLen = func(x *core.N, name string, l float64) {
		for _, k := range x.Kids {
			if len(k.Kids) == 0 && k.Name == name {
				k.E.Len = l
			}
			setLen(k, name, l)
		}
	}
	for i := 0; i < ng; i++ {
		old := tips[perm[i]]
		switch g.Intn(4) {
		case 0:
			setLen(n, old, 0)
		case 1:
			setLen(n, old, -1)
		}
		grp := []string{}
		k := g.Intn(4)
		pos := g.Intn(k + 1)
		for j := 0; j <= k; j++ {
			if j == pos {
				grp = append(grp, old)
			}
			if j < k {
				grp = append(grp, fmt.Sprintf("n%d", fresh))
				fresh++
			}
		}
		groups = append(groups, grp)
	}
	switch g.Intn(14) {
	case 0: // two existing members
		groups[0] = append(groups[0], tips[perm[len(tips)-1]])
	case 1: // no existing member
		groups = append(groups, []string{"z1", "z2"})
	case 2: // the same new name twice in a group
		groups[0] = append(groups[0], "dup", "dup")
	case 3: // a new name reused by a later group
		if len(groups) >= 2 {
			groups[0] = append(groups[0], "shared")
			groups[1] = append(groups[1], "shared")
		}
	case 4:
		groups = append(groups, []string{})
	case 5:
		groups = [][]string{}
	case 6, 7: // a later group whose existing member was inserted by an earlier group
		if fresh > 0 {
			groups = append(groups, []string{"late1", "n0", "late2"})
		}
	}
	doInsid(c, !g.Chance(0.05), n, groups)
}

func rmSingleCases(c *core.Ctx) {
	g := c.G
	n := genTree(g, "t", 2)
	o := opts(g)
	addSingles(g, &o, n, 0.25)
	if g.Chance(0.2) { // single-child nodes right below a root that is itself a tip
		n = rootTip(g, n, &o, "rt")
		if g.Chance(0.5) {
			mid := &core.N{E: core.NewE(), Kids: []*core.N{n.Kids[0]}}
			mid.E.Len = g.Length(&o)
			n.Kids[0] = mid
		}
	}
	if g.Chance(0.12) { // an unnamed root above a chain of single-child nodes (the root is then a tip named "")
		top := n
		for k := 1 + g.Intn(3); k > 0; k-- {
			top.E = core.NewE()
			top.E.Len = g.Length(&o)
			if g.Chance(0.5) {
				top.E.Sup = g.Support(&o)
			}
			top = &core.N{Kids: []*core.N{top}}
		}
		n = top
	}
	core.NumberEdges(n)
	if g.Chance(0.3) {
		n = rerooted(g, n)
	}
	doRmSingle(c, !g.Chance(0.1), n)
}

func subTreeCases(c *core.Ctx) {
	g := c.G
	n := genTree(g, "t", 2)
	if g.Chance(0.3) {
		o := opts(g)
		addSingles(g, &o, n, 0.15)
		core.NumberEdges(n)
	}
	paths := n.Paths()
	if c.Quick() && len(paths) > 8 {
		g.R.Shuffle(len(paths), func(i, j int) { paths[i], paths[j] = paths[j], paths[i] })
		paths = paths[:8]
	}
	for _, p := range paths { // every node as subtree root
		doSubTree(c, n, p)
	}
}

func heapCases(c *core.Ctx) {
	g := c.G
	n := genTree(g, "t", 2)
	o := opts(g)
	if g.Chance(0.3) {
		addSingles(g, &o, n, 0.15)
	}
	if g.Chance(0.1) {
		n = rootTip(g, n, &o, "rt")
	}
	core.NumberEdges(n)
	if g.Chance(0.3) {
		n = rerooted(g, n)
	}
	if g.Chance(0.3) {
		var inner [][]int
		for _, q := range n.Paths() {
			if len(n.At(q).Kids) > 0 {
				inner = append(inner, q)
			}
		}
		doHeapReroot(c, n, inner[g.Intn(len(inner))])
	} else if g.Chance(0.5) {
		doHeap(c, "clone", n, nil)
	} else {
		paths := n.Paths()
		doHeap(c, "subtree", n, paths[g.Intn(len(paths))])
	}
}

func cloneCases(c *core.Ctx) {
	g := c.G
	n := genTree(g, "t", 2)
	o := opts(g)
	if g.Chance(0.3) {
		addSingles(g, &o, n, 0.15)
	}
	if g.Chance(0.1) {
		n = rootTip(g, n, &o, "rt")
	}
	core.NumberEdges(n)
	if g.Chance(0.3) {
		n = rerooted(g, n)
	}
	doClone(c, !g.Chance(0.2), g.Chance(0.5), n)
}

// Replay re-executes the requests of a corpus / replay file on the real code.
func Replay(c *core.Ctx, lines []string) {
	for _, l := range lines {
		f := strings.Split(l, "\t")
		switch {
		case f[0] == "C15.graft" && len(f) >= 5:
			tip, _ := core.Unescape(f[3])
			doGraft(c, f[1] == "1", mustDump(f[2]), tip, mustDump(f[4]))
		case f[0] == "C15.graftins" && len(f) >= 5:
			tip, _ := core.Unescape(f[2])
			doGraftIns(c, mustDump(f[1]), tip, mustDump(f[3]), parseStrLists(f[4]))
		case f[0] == "C15.merge" && len(f) >= 5:
			doMerge(c, f[1] == "1", f[2] == "1", mustDump(f[3]), mustDump(f[4]))
		case f[0] == "C15.insid" && len(f) >= 4:
			doInsid(c, f[1] == "1", mustDump(f[2]), parseStrLists(f[3]))
		case f[0] == "C15.rmsingle" && len(f) >= 3:
			doRmSingle(c, f[1] == "1", mustDump(f[2]))
		case f[0] == "C15.subtree" && len(f) >= 3:
			doSubTree(c, mustDump(f[1]), parsePath(f[2]))
		case f[0] == "C15.clone" && len(f) >= 3:
			doClone(c, f[1] == "1", true, mustDump(f[2]))
		case f[0] == "C15.heap" && len(f) >= 4:
			doHeap(c, f[1], mustDump(f[2]), parsePath(f[3]))
		case f[0] == "C15.heapedit" && len(f) >= 4 && f[1] == "reroot":
			doHeapReroot(c, mustDump(f[2]), parsePath(f[3]))
		case f[0] == "C15.heapedit" && len(f) >= 8:
			arg, _ := core.Unescape(f[3])
			var n2 *core.N
			if f[7] != "" {
				n2 = mustDump(f[7])
			}
			doHeapOp(c, f[1], mustDump(f[2]), arg, n2)
		case c.Gotree != "" && replayGlue(c, f):
			// glue cases: the binary is run again on the recorded inputs (cmd.go)
		case f[0] == "C15.glue":
			// no binary at hand: glue cases are regenerated by the CLI tier
		case replayCmd(c, f):
			// whole-input command cases (cmd.go)
		case f[0] == "C15.hist" && len(f) >= 6:
			runHistory(c, f[1], f[2], mustDump(f[3]), parsePath(f[4]), parseStrList(f[5]), 0)
		default:
			panic("C15: cannot replay " + f[0])
		}
	}
}

// Run generates the cases of C15.
func Run(c *core.Ctx) {
	if c.Arg != "" {
		Replay(c, core.ReadRequests(c.Arg))
		return
	}
	rand.Seed(c.Seed)
	if c.Quick() {
		enumCases(c, 3)
	} else if c.Seed%1000 == 0 { // first shard of the thorough tier
		enumCases(c, 5)
	}
	n := c.Scale(70, 2500)
	for i := 0; i < n; i++ {
		graftCases(c)
		graftInsCases(c)
		mergeCases(c)
		mergeCases(c)
		insidCases(c)
		insidCases(c)
		rmSingleCases(c)
		rmSingleCases(c)
		subTreeCases(c)
		cloneCases(c)
		cloneCases(c)
		heapCases(c)
		heapCases(c)
		heapOpCases(c)
		heapOpCases(c)
		heapOpCases(c)
	}
	h := c.Scale(400, 7500)
	for i := 0; i < h; i++ {
		historyCase(c)
	}
	if c.Gotree != "" {
		m := c.Scale(60, 1000)
		for i := 0; i < m; i++ {
			cliCases(c)
		}
		for i := 0; i < c.Scale(80, 1000); i++ {
			glueCases(c)
		}
		for i := 0; i < c.Scale(120, 900); i++ {
			cmdCases(c)
		}
	}
}

// heapDump prints the pointer graph of a tree as cells with reference fields, in the layout of the
// Lean heap model (Lemmas/C15HeapCopy.lean): Node [comment array, neigh array, br array], Edge [left,
// right, comment array, bitset], an array cell holds its elements.  Cells are numbered in order of
// first visit; a slice without capacity and a nil bitset count as a cell of their own (negative keys
// per owner), as `make(…, 0)` / "no bitset yet" do in the model.  Format: "root;id=p.p.p;id=…".
func heapDump(t *tree.Tree) string { return heapDumpOpt(t, false, true) }

// heapDumpNoBits leaves the content of the bitsets out (operations that end with ReinitIndexes /
// ReinitInternalIndexes recompute them; that part is compared by value elsewhere: derivedDump).
func heapDumpNoBits(t *tree.Tree) string { return heapDumpOpt(t, false, false) }

// heapRaw is heapDump with the addresses themselves: two readings are equal iff no cell of the tree was
// replaced, added, dropped or rewired (Go's collector does not move heap objects).
func heapRaw(t *tree.Tree) string { return heapDumpOpt(t, true, true) }

func heapDumpOpt(t *tree.Tree, raw bool, withBits bool) string { return heapDumpMulti(raw, withBits, t) }

// heapDumpMulti: several trees in one numbering (header "root,root;").
func heapDumpMulti(raw bool, withBits bool, ts ...*tree.Tree) string {
	ids := map[string]int{}
	var order []string
	cells := map[string][]string{}
	data := map[string]uint32{} // the non-reference content of a cell, hashed (FNV-1a, 31 bits)
	hash := func(parts ...string) uint32 {
		h := uint32(2166136261)
		for _, p := range parts {
			for i := 0; i < len(p); i++ {
				h ^= uint32(p[i])
				h *= 16777619
			}
			h ^= 0xff
			h *= 16777619
		}
		return h & 0x7fffffff
	}
	key := func(kind string, p uintptr) string { return fmt.Sprintf("%s%x", kind, p) }
	id := func(k string) int {
		if v, ok := ids[k]; ok {
			return v
		}
		ids[k] = len(ids)
		order = append(order, k)
		return ids[k]
	}
	var visitNode func(n *tree.Node) string
	visitEdge := func(e *tree.Edge) string {
		k := key("e", reflect.ValueOf(e).Pointer())
		if _, seen := cells[k]; seen {
			return k
		}
		id(k)
		cells[k] = nil
		ck := k + "c"
		if c := e.Comments(); cap(c) > 0 {
			ck = key("a", reflect.ValueOf(c).Pointer())
		}
		id(ck)
		if _, ok := cells[ck]; !ok {
			cells[ck] = []string{}
		}
		bk := k + "b"
		if bs := e.Bitset(); bs != nil {
			bk = key("b", reflect.ValueOf(bs).Pointer())
		}
		id(bk)
		if _, ok := cells[bk]; !ok {
			cells[bk] = []string{}
		}
		data[k] = hash(core.Rat(e.Length()), core.Rat(e.Support()), core.Rat(e.PValue()), fmt.Sprint(e.Id()))
		data[ck] = hash(e.Comments()...)
		if bs := e.Bitset(); bs != nil && withBits {
			data[bk] = hash(bs.String())
		} else {
			data[bk] = hash("nil")
		}
		cells[k] = []string{visitNode(e.Left()), visitNode(e.Right()), ck, bk}
		return k
	}
	visitNode = func(n *tree.Node) string {
		k := key("n", reflect.ValueOf(n).Pointer())
		if _, seen := cells[k]; seen {
			return k
		}
		id(k)
		cells[k] = nil
		ck := k + "c"
		if c := n.Comments(); cap(c) > 0 {
			ck = key("a", reflect.ValueOf(c).Pointer())
		}
		id(ck)
		if _, ok := cells[ck]; !ok {
			cells[ck] = []string{}
		}
		nk, bk := k + "n", k+"r"
		if s := n.Neigh(); cap(s) > 0 {
			nk = key("N", reflect.ValueOf(s).Pointer())
		}
		if s := n.Edges(); cap(s) > 0 {
			bk = key("B", reflect.ValueOf(s).Pointer())
		}
		id(nk)
		id(bk)
		data[k] = hash(n.Name(), fmt.Sprint(n.Id()))
		data[ck] = hash(n.Comments()...)
		cells[k] = []string{ck, nk, bk}
		var ne, be []string
		cells[nk], cells[bk] = []string{}, []string{}
		for _, m := range n.Neigh() {
			ne = append(ne, visitNode(m))
		}
		for _, e := range n.Edges() {
			be = append(be, visitEdge(e))
		}
		cells[nk], cells[bk] = ne, be
		return k
	}
	out := ""
	p, _ := core.Safe(func() {
		var b strings.Builder
		var rks []string
		for _, t := range ts {
			rks = append(rks, visitNode(t.Root()))
		}
		for i, rk := range rks {
			if i > 0 {
				b.WriteByte(',')
			}
			fmt.Fprintf(&b, "%d", ids[rk])
		}
		b.WriteByte(';')
		for _, k := range order {
			if raw {
				b.WriteString(k)
				b.WriteByte(':')
			}
			fmt.Fprintf(&b, "%d:%d=", ids[k], data[k])
			for i, q := range cells[k] {
				if i > 0 {
					b.WriteByte('.')
				}
				fmt.Fprintf(&b, "%d", ids[q])
			}
			b.WriteByte(';')
		}
		out = b.String()
	})
	if p {
		return "PANIC"
	}
	return out
}

// doHeap: the pointer graph of the source before, and of the copy after, Clone / SubTree.
func doHeap(c *core.Ctx, kind string, n *core.N, path []int) {
	t := build(n, true)
	dump := heapDump
	if kind != "clone" { // SubTree ends with ReinitIndexes on the copy
		dump = heapDumpNoBits
	}
	before := dump(t)
	var cp *tree.Tree
	p, msg := core.Safe(func() {
		if kind == "clone" {
			cp = t.Clone()
		} else {
			node, _, err := core.NodeAt(t, path)
			if err != nil {
				panic(err)
			}
			cp = t.SubTree(node)
		}
	})
	if p {
		c.Emit("C15.heap", kind, n.Dump(), pathStr(path), "panic:"+core.Escape(msg), before, "")
		return
	}
	c.Emit("C15.heap", kind, n.Dump(), pathStr(path), "ok", before, dump(cp))
}

// doHeapReroot: the pointer graph before and after the real Reroot at the node addressed by path.
func doHeapReroot(c *core.Ctx, n *core.N, path []int) {
	t := build(n, true)
	before := heapDumpNoBits(t) // Reroot ends with ReinitInternalIndexes
	node, _, err := core.NodeAt(t, path)
	if err != nil {
		panic(err)
	}
	var rerr error
	p, msg := core.Safe(func() { rerr = t.Reroot(node) })
	c.Emit("C15.heapedit", "reroot", n.Dump(), pathStr(path), outcome(p, msg, rerr), before, heapDumpNoBits(t))
}

// doHeapOp: the pointer graph before and after one of the anchored operations, for the statement-by-
// statement heap programs of Lemmas/C15HeapEdits.lean (shape only: the programs do not compute lengths).
func doHeapOp(c *core.Ctx, op string, n *core.N, arg string, n2 *core.N) {
	t := build(n, true)
	var t2 *tree.Tree
	before := ""
	if n2 != nil {
		t2 = build(n2, true)
		before = heapDumpMulti(false, false, t, t2)
	} else {
		before = heapDumpMulti(false, false, t)
	}
	var err error
	p, msg := core.Safe(func() {
		switch op {
		case "graft":
			err = t.GraftTreeOnTip(arg, t2)
		case "merge":
			err = t.Merge(t2)
		case "rmsingle":
			t.RemoveSingleNodes()
		case "prune":
			err = t.RemoveTips(false, arg)
		case "insid":
			var tip *tree.Node
			if tip, err = t.TipNode(arg); err == nil {
				_, err = t.InsertIdenticalTip(tip, "zznew")
			}
		default:
			panic("doHeapOp " + op)
		}
	})
	d2 := ""
	if n2 != nil {
		d2 = n2.Dump()
	}
	c.Emit("C15.heapedit", op, n.Dump(), core.Escape(arg), outcome(p, msg, err), before, heapDumpNoBits(t), d2)
}

func heapOpCases(c *core.Ctx) {
	g := c.G
	switch g.Intn(5) {
	case 4:
		n := genTree(g, "t", 2)
		tips := tipsBelowRoot(n)
		doHeapOp(c, "prune", n, tips[g.Intn(len(tips))], nil)
	case 3:
		n := genTree(g, "t", 2)
		o := opts(g)
		addSingles(g, &o, n, 0.25)
		if g.Chance(0.2) {
			n = rootTip(g, n, &o, "rt")
		}
		core.NumberEdges(n)
		if g.Chance(0.3) {
			n = rerooted(g, n)
		}
		doHeapOp(c, "rmsingle", n, "", nil)
	case 0:
		n := genTree(g, "t", 2)
		if g.Chance(0.15) {
			o := opts(g)
			n = rootTip(g, n, &o, "rt")
			core.NumberEdges(n)
		}
		tips := n.TipNames()
		doHeapOp(c, "graft", n, tips[g.Intn(len(tips))], graftTree(g))
	case 1:
		n1, n2 := genTree(g, "t", 1), genTree(g, "u", 1)
		for _, n := range []*core.N{n1, n2} {
			if len(n.Kids) > 2 {
				in := &core.N{E: core.NewE(), Kids: n.Kids[1:]}
				in.E.Len = 1
				n.Kids = []*core.N{n.Kids[0], in}
				core.NumberEdges(n)
			}
		}
		doHeapOp(c, "merge", n1, "", n2)
	default:
		n := genTree(g, "t", 2)
		if g.Chance(0.15) {
			o := opts(g)
			n = rootTip(g, n, &o, "rt")
			core.NumberEdges(n)
		}
		tips := n.TipNames()
		doHeapOp(c, "insid", n, tips[g.Intn(len(tips))], nil)
	}
}

// doGraftIns: two steps of the property in a row — graft a tree on a tip, then insert identical tips next
// to tips of the result (a grafted tip, a host tip, or — to be refused — the replaced tip).
func doGraftIns(c *core.Ctx, n *core.N, tip string, gn *core.N, groups [][]string) {
	t := build(n, true)
	gt := build(gn, true)
	var err error
	p, msg := core.Safe(func() { err = t.GraftTreeOnTip(tip, gt) })
	oc1 := outcome(p, msg, err)
	oc2, d, wf := "", "", ""
	if oc1 == "ok" {
		p, msg = core.Safe(func() { err = t.InsertIdenticalTips(groups) })
		oc2 = outcome(p, msg, err)
		if !p {
			d, wf = read(t)
		}
	}
	c.Emit("C15.graftins", n.Dump(), core.Escape(tip), gn.Dump(), core.StrLists(groups), oc1, oc2, d, wf)
}

func graftInsCases(c *core.Ctx) {
	g := c.G
	n := genTree(g, "t", 2)
	gn := genTree(g, "g", 2)
	tips := tipsBelowRoot(n)
	tip := tips[g.Intn(len(tips))]
	gl := tipsBelowRoot(gn)
	var groups [][]string
	switch g.Intn(6) {
	case 0: // next to a host tip
		for _, x := range tips {
			if x != tip {
				groups = append(groups, []string{x, "n0"})
				break
			}
		}
	case 1: // next to the replaced tip: no such tip any more
		groups = append(groups, []string{tip, "n0"})
	default: // next to grafted tips
		groups = append(groups, []string{gl[g.Intn(len(gl))], "n0", "n1"})
		if g.Chance(0.4) && len(gl) >= 2 && gl[0] != groups[0][0] {
			groups = append(groups, []string{"n2", gl[0]})
		}
	}
	if len(groups) == 0 {
		groups = [][]string{{gl[0], "n0"}}
	}
	doGraftIns(c, n, tip, gn, groups)
}
