/-
  C07 — helper lemmas: what one contraction does to the list of branches.
-/
import Gotree.Model.C07
import Gotree.Spec.Splits

namespace Gotree.C07
open Gotree

/- ## generalities on leaves and split lists -/

theorem leavesL_append (a b : Kids) : leavesL (a ++ b) = leavesL a ++ leavesL b := by
  induction a with
  | nil => simp [leavesL]
  | cons x r ih => obtain ⟨e, t⟩ := x; simp [leavesL, ih]

theorem leaves_node (d : NodeD) (p : Nat) (k : Kids) :
    (T.node d p k).leaves = if k = [] then [d.name] else leavesL k := by
  cases k with
  | nil => simp [T.leaves]
  | cons x r => simp [T.leaves]

mutual
theorem leaves_ne_nil : ∀ t : T, t.leaves ≠ []
  | .node d p [] => by simp [T.leaves]
  | .node d p ((e, c) :: r) => by
    have h := leaves_ne_nil c
    simp [T.leaves, leavesL, h]
end

theorem leavesL_ne_nil : ∀ k : Kids, k ≠ [] → leavesL k ≠ []
  | [], h => absurd rfl h
  | (e, c) :: r, _ => by simp [leavesL, leaves_ne_nil c]

theorem leaves_of_not_leaf (t : T) (h : t.isLeaf = false) : t.leaves = leavesL t.kids := by
  cases t with
  | node d p k =>
    cases k with
    | nil => simp [T.isLeaf] at h
    | cons x r => simp [T.leaves]

theorem isLeaf_node (d : NodeD) (p : Nat) (k : Kids) : (T.node d p k).isLeaf = k.isEmpty := rfl

/- ## the observation of a branch list

   `obsL f k` lists, for every branch below the child list `k` (pre-order), what the
   property may look at: `f` of the leaf names below (any function that does not depend on
   their order: the sorted list, the canonical side, their number, membership, …), the
   branch data (length, support, p-value, comments, id), whether the node below is a tip,
   and the data (name, comments) of the node below. -/
abbrev Obs (β : Type) := β × EdgeD × Bool × NodeD

mutual
def obsT {β : Type} (f : List String → β) : T → List (Obs β)
  | .node _ _ k => obsL f k
def obsL {β : Type} (f : List String → β) : Kids → List (Obs β)
  | [] => []
  | (e, c) :: r => (f c.leaves, e, c.isLeaf, c.d) :: (obsT f c ++ obsL f r)
end

/-- `f` does not depend on the order of the names -/
def PermInv {β : Type} (f : List String → β) : Prop := ∀ l l' : List String, l.Perm l' → f l = f l'

theorem obsL_append {β : Type} (f : List String → β) (a b : Kids) : obsL f (a ++ b) = obsL f a ++ obsL f b := by
  induction a with
  | nil => simp [obsL]
  | cons x r ih => obtain ⟨e, t⟩ := x; simp [obsL, ih]

theorem obsT_node {β : Type} (f : List String → β) (d p k) : obsT f (T.node d p k) = obsL f k := by
  simp [obsT]

theorem obsT_kids {β : Type} (f : List String → β) (t : T) : obsT f t = obsL f t.kids := by
  cases t; simp [obsT]

/-- the split list of Core is the observation without the node data -/
theorem splitsL_obs {β : Type} (f : List String → β) :
    ∀ k : Kids, (splitsL k).map (fun s => (f s.below, s.e, s.tip)) = (obsL f k).map (fun x => (x.1, x.2.1, x.2.2.1))
  | [] => by simp [splitsL, obsL]
  | (e, .node d p kk) :: r => by
    have h1 := splitsL_obs f kk
    have h2 := splitsL_obs f r
    simp [splitsL, obsL, obsT, T.splitsBelow, h1, h2]

/- ## what one contraction does -/

/-- effect of the iteration for branch `id` on one observed branch: a tip branch stays (length 0
    with `removeTips`), an inner branch disappears, any other branch is untouched -/
def stepO {β : Type} (rt : Bool) (id : Int) (x : Obs β) : Option (Obs β) :=
  if x.2.1.id == id then
    (if x.2.2.1 then some (x.1, (if rt then zeroLen x.2.1 else x.2.1), x.2.2.1, x.2.2.2) else none)
  else some x

/-- the skip test of `RemoveEdges` can never fire below: `removeRoot`, or no node with exactly
    two neighbours -/
def NoSkip (rr : Bool) (deg : Nat) (k : Kids) : Prop := rr = true ∨ (deg ≠ 2 ∧ noSingleL k = true)

theorem noSingleL_cons (e : EdgeD) (c : T) (r : Kids) :
    noSingleL ((e, c) :: r) = (c.noSingleBelow && noSingleL r) := by
  simp [noSingleL]

theorem noSingleBelow_node (d p k) : (T.node d p k).noSingleBelow = (k.length != 1 && noSingleL k) := by
  simp [T.noSingleBelow]

theorem noSingleL_append (a b : Kids) : noSingleL (a ++ b) = (noSingleL a && noSingleL b) := by
  induction a with
  | nil => simp [noSingleL]
  | cons x r ih => obtain ⟨e, t⟩ := x; simp [noSingleL, ih, Bool.and_assoc]

end Gotree.C07

namespace Gotree.C07
open Gotree

@[simp] theorem stayKids_nil : stayKids [] = [] := rfl
@[simp] theorem stayKids_some (x : EdgeD × T) (s) : stayKids (some x :: s) = x :: stayKids s := rfl
@[simp] theorem stayKids_none (s) : stayKids (none :: s) = stayKids s := rfl

theorem contractL_cons (rr rt : Bool) (id : Int) (deg : Nat) (e : EdgeD) (c : T) (r : Kids) :
    contractL rr rt id deg ((e, c) :: r) =
      if e.id == id then
        if c.isLeaf || deg == 1 then (some (if rt then zeroLen e else e, contractT rr rt id false c) :: (contractL rr rt id deg r).1, (contractL rr rt id deg r).2)
        else if !rr && deg == 2 then (some (e, contractT rr rt id false c) :: (contractL rr rt id deg r).1, (contractL rr rt id deg r).2)
        else (none :: (contractL rr rt id deg r).1, (contractT rr rt id false c).kids ++ (contractL rr rt id deg r).2)
      else (some (e, contractT rr rt id false c) :: (contractL rr rt id deg r).1, (contractL rr rt id deg r).2) := by
  rw [contractL]

theorem contractT_node (rr rt : Bool) (id : Int) (isRoot : Bool) (d p k) :
    contractT rr rt id isRoot (.node d p k) =
      .node d (p - nNone ((contractL (rr || !isRoot) rt id (k.length + (if isRoot then 0 else 1)) k).1.take p))
        (stayKids (contractL (rr || !isRoot) rt id (k.length + (if isRoot then 0 else 1)) k).1 ++ (contractL (rr || !isRoot) rt id (k.length + (if isRoot then 0 else 1)) k).2) := by
  rw [contractT]

end Gotree.C07

namespace Gotree.C07
open Gotree

/-- new child list of a node after the iteration -/
def newKids (rr rt : Bool) (id : Int) (deg : Nat) (k : Kids) : Kids :=
  stayKids (contractL rr rt id deg k).1 ++ (contractL rr rt id deg k).2

theorem contractT_kids (rr rt : Bool) (id : Int) (isRoot : Bool) (d p k) :
    (contractT rr rt id isRoot (.node d p k)).kids = newKids (rr || !isRoot) rt id (k.length + (if isRoot then 0 else 1)) k := by
  rw [contractT_node]; rfl

theorem contractT_d (rr rt : Bool) (id : Int) (isRoot : Bool) (c : T) :
    (contractT rr rt id isRoot c).d = c.d := by
  cases c; rw [contractT_node]; rfl

/- No tip is lost, none is created: the leaf names below every surviving node are the same
   up to order, and a node is a tip afterwards iff it was one.  (Unconditional.) -/
mutual
theorem contractT_leaves (rr rt : Bool) (id : Int) (isRoot : Bool) :
    ∀ c : T, (contractT rr rt id isRoot c).leaves.Perm c.leaves ∧ (contractT rr rt id isRoot c).isLeaf = c.isLeaf
  | .node d p k => by
    have h := contractL_leaves (rr || !isRoot) rt id (k.length + (if isRoot then 0 else 1)) k
    rw [contractT_node]
    rw [leaves_node, leaves_node, isLeaf_node, isLeaf_node]
    by_cases hk : k = []
    · subst hk; simp [contractL]
    · have hne : stayKids (contractL (rr || !isRoot) rt id (k.length + (if isRoot then 0 else 1)) k).1 ++ (contractL (rr || !isRoot) rt id (k.length + (if isRoot then 0 else 1)) k).2 ≠ [] := by
        intro hn
        unfold newKids at h
        rw [hn] at h
        exact leavesL_ne_nil k hk (by simpa [leavesL] using h.symm.eq_nil)
      unfold newKids at h
      rw [List.isEmpty_eq_false_iff.mpr hne, List.isEmpty_eq_false_iff.mpr hk]
      simp [hk, hne, h]
theorem contractL_leaves (rr rt : Bool) (id : Int) (deg : Nat) :
    ∀ k : Kids, (leavesL (newKids rr rt id deg k)).Perm (leavesL k)
  | [] => by simp [newKids, contractL]
  | (e, c) :: r => by
    have h1 := contractT_leaves rr rt id false c
    have h2 := contractL_leaves rr rt id deg r
    unfold newKids at h2 ⊢
    rw [contractL_cons]
    split
    · split
      · simp only [stayKids_some, List.cons_append, leavesL]
        exact h1.1.append h2
      · split
        · simp only [stayKids_some, List.cons_append, leavesL]
          exact h1.1.append h2
        · rename_i hleaf _
          have hl : (contractT rr rt id false c).isLeaf = false := by
            rw [h1.2]; simp only [Bool.or_eq_true, not_or] at hleaf; simpa using hleaf.1
          have hk' := leaves_of_not_leaf _ hl
          rw [leavesL_append] at h2
          simp only [stayKids_none, leavesL_append, leavesL]
          rw [← hk']
          exact (List.perm_append_comm_assoc _ _ _).trans (h1.1.append h2)
    · simp only [stayKids_some, List.cons_append, leavesL]
      exact h1.1.append h2
end

end Gotree.C07

namespace Gotree.C07
open Gotree

theorem newKids_nil (rr rt : Bool) (id : Int) (deg : Nat) : newKids rr rt id deg [] = [] := by
  simp [newKids, contractL]

theorem kids_len_of_ns (c : T) (h : c.noSingleBelow = true) : c.kids.length ≠ 1 := by
  cases c with
  | node d p k => simp [T.noSingleBelow] at h; exact h.1

theorem kids_ns_of_ns (c : T) (h : c.noSingleBelow = true) : noSingleL c.kids = true := by
  cases c with
  | node d p k => simp [T.noSingleBelow] at h; exact h.2

/- "No single-child inner node" is preserved, and a node never loses neighbours. -/
mutual
theorem contractT_ns (rr rt : Bool) (id : Int) :
    ∀ c : T, c.noSingleBelow = true → (contractT rr rt id false c).noSingleBelow = true
  | .node d p k => by
    intro h
    have hk := contractL_ns (rr || !false) rt id (k.length + 1) k
    rw [noSingleBelow_node] at h
    simp only [Bool.and_eq_true, bne_iff_ne, ne_eq] at h
    have h2 := hk h.2
    rw [contractT_node]
    rw [noSingleBelow_node]
    simp only [Bool.and_eq_true, bne_iff_ne, ne_eq, Bool.false_eq_true, if_false]
    refine ⟨?_, h2.1⟩
    intro h1
    cases k with
    | nil => simp [contractL] at h1
    | cons x r =>
      cases r with
      | nil => simp at h
      | cons y r' =>
        have := h2.2
        simp only [newKids, List.length_cons] at this h1
        omega
theorem contractL_ns (rr rt : Bool) (id : Int) (deg : Nat) :
    ∀ k : Kids, noSingleL k = true → noSingleL (newKids rr rt id deg k) = true ∧ k.length ≤ (newKids rr rt id deg k).length
  | [] => by intro _; simp [newKids_nil, noSingleL]
  | (e, c) :: r => by
    intro h
    rw [noSingleL_cons] at h
    simp only [Bool.and_eq_true] at h
    have h1 := contractT_ns rr rt id c h.1
    have h2 := contractL_ns rr rt id deg r h.2
    unfold newKids at h2 ⊢
    rw [contractL_cons]
    split
    · split
      · simp only [stayKids_some, List.cons_append, noSingleL_cons, h1, h2.1, List.length_cons]
        simpa using h2.2
      · split
        · simp only [stayKids_some, List.cons_append, noSingleL_cons, h1, h2.1, List.length_cons]
          simpa using h2.2
        · rename_i hleaf _
          have hl : (contractT rr rt id false c).isLeaf = false := by
            rw [(contractT_leaves rr rt id false c).2]
            simp only [Bool.or_eq_true, not_or] at hleaf; simpa using hleaf.1
          have hlen := kids_len_of_ns _ h1
          have hne : (contractT rr rt id false c).kids ≠ [] := by
            intro hn; simp [T.isLeaf, hn] at hl
          have hns := kids_ns_of_ns _ h1
          have h21 := h2.1
          rw [noSingleL_append] at h21
          simp only [Bool.and_eq_true] at h21
          simp only [stayKids_none, noSingleL_append, Bool.and_eq_true, List.length_append, List.length_cons]
          refine ⟨⟨h21.1, hns, h21.2⟩, ?_⟩
          have := h2.2
          simp only [List.length_append] at this
          have : (contractT rr rt id false c).kids.length ≥ 1 := by
            cases hh : (contractT rr rt id false c).kids with
            | nil => exact absurd hh hne
            | cons _ _ => simp
          omega
    · simp only [stayKids_some, List.cons_append, noSingleL_cons, h1, h2.1, List.length_cons]
      simpa using h2.2
end

end Gotree.C07

namespace Gotree.C07
open Gotree

theorem noSkip_tail {rr : Bool} {deg : Nat} {e : EdgeD} {c : T} {r : Kids} (h : NoSkip rr deg ((e, c) :: r)) :
    NoSkip rr deg r ∧ (rr = true ∨ c.noSingleBelow = true) := by
  rcases h with h | ⟨h1, h2⟩
  · exact ⟨Or.inl h, Or.inl h⟩
  · rw [noSingleL_cons] at h2
    simp only [Bool.and_eq_true] at h2
    exact ⟨Or.inr ⟨h1, h2.2⟩, Or.inr h2.1⟩

theorem obsL_kids_eq {β : Type} (f : List String → β) (t : T) : obsL f t.kids = obsT f t := (obsT_kids f t).symm

/- The effect of one iteration of `RemoveEdges` on the observed branch list, when the skip
   test cannot fire: exactly `stepO` on every branch, up to the order of the list. -/
mutual
theorem contractT_obs {β : Type} (f : List String → β) (hf : PermInv f) (rr rt : Bool) (id : Int) :
    ∀ c : T, (rr = true ∨ c.noSingleBelow = true) →
      (obsT f (contractT rr rt id false c)).Perm ((obsT f c).filterMap (stepO rt id))
  | .node d p k => by
    intro h
    have hk := contractL_obs f hf (rr || !false) rt id (k.length + 1) k
    rw [contractT_node, obsT_node, obsT_node]
    apply hk
    · by_cases hk0 : k = []
      · exact Or.inr hk0
      · left
        cases k with
        | nil => exact absurd rfl hk0
        | cons _ _ => simp
    · exact Or.inl (by simp)
theorem contractL_obs {β : Type} (f : List String → β) (hf : PermInv f) (rr rt : Bool) (id : Int) (deg : Nat) :
    ∀ k : Kids, (deg ≠ 1 ∨ k = []) → NoSkip rr deg k →
      (obsL f (newKids rr rt id deg k)).Perm ((obsL f k).filterMap (stepO rt id))
  | [] => by intro _ _; simp [newKids_nil, obsL]
  | (e, c) :: r => by
    intro hd1 h
    have hdeg : deg ≠ 1 := by
      rcases hd1 with h1 | h1
      · exact h1
      · cases h1
    have hdegb : (deg == 1) = false := by simpa using hdeg
    have ht := noSkip_tail h
    have h1 := contractT_obs f hf rr rt id c ht.2
    have h2 := contractL_obs f hf rr rt id deg r (Or.inl hdeg) ht.1
    have hl := contractT_leaves rr rt id false c
    have hfl : f (contractT rr rt id false c).leaves = f c.leaves := hf _ _ hl.1
    have hd := contractT_d rr rt id false c
    unfold newKids at h2 ⊢
    rw [contractL_cons, hdegb, Bool.or_false]
    by_cases hid : (e.id == id) = true
    · rw [if_pos hid]
      by_cases hleaf : c.isLeaf = true
      · rw [if_pos hleaf]
        simp only [stayKids_some, List.cons_append, obsL, List.filterMap_cons, List.filterMap_append]
        simp only [stepO, hid, hleaf, if_true, hfl, hl.2, hd]
        exact List.Perm.cons _ (h1.append h2)
      · rw [if_neg hleaf]
        have hskip : (!rr && deg == 2) = false := by
          rcases h with h | ⟨hdeg2, _⟩
          · simp [h]
          · simp [hdeg2]
        rw [hskip]
        simp only [Bool.false_eq_true, if_false, stayKids_none, obsL_append, obsL, List.filterMap_cons, List.filterMap_append]
        simp only [stepO, hid, hleaf, if_true, Bool.false_eq_true, if_false]
        rw [obsL_kids_eq]
        rw [obsL_append] at h2
        exact (List.perm_append_comm_assoc _ _ _).trans (h1.append h2)
    · rw [if_neg hid]
      simp only [stayKids_some, List.cons_append, obsL, List.filterMap_cons, List.filterMap_append]
      simp only [stepO, hid, Bool.false_eq_true, if_false, hfl, hl.2, hd]
      exact List.Perm.cons _ (h1.append h2)
end

end Gotree.C07

namespace Gotree.C07
open Gotree

/- ## the whole loop of `RemoveEdges` -/

/-- effect of the successive iterations for `ids` on one observed branch -/
def stepAllO {β : Type} (rt : Bool) : List Int → Obs β → Option (Obs β)
  | [], x => some x
  | id :: ids, x => (stepO rt id x).bind (stepAllO rt ids)

/- a node never loses neighbours (unconditional) -/
theorem contractL_len (rr rt : Bool) (id : Int) (deg : Nat) :
    ∀ k : Kids, k.length ≤ (newKids rr rt id deg k).length
  | [] => by simp [newKids_nil]
  | (e, c) :: r => by
    have h2 := contractL_len rr rt id deg r
    unfold newKids at h2 ⊢
    rw [contractL_cons]
    split
    · split
      · simp only [stayKids_some, List.cons_append, List.length_cons]; omega
      · split
        · simp only [stayKids_some, List.cons_append, List.length_cons]; omega
        · rename_i hleaf _
          have hl : (contractT rr rt id false c).isLeaf = false := by
            rw [(contractT_leaves rr rt id false c).2]
            simp only [Bool.or_eq_true, not_or] at hleaf; simpa using hleaf.1
          have : (contractT rr rt id false c).kids.length ≥ 1 := by
            cases hh : (contractT rr rt id false c).kids with
            | nil => simp [T.isLeaf, hh] at hl
            | cons _ _ => simp
          simp only [stayKids_none, List.length_append, List.length_cons] at h2 ⊢
          omega
    · simp only [stayKids_some, List.cons_append, List.length_cons]; omega

/-- The hypothesis of the exactness theorems: the root is not a tip (a root with a single neighbour
    makes its branch a terminal branch, which the tip flag of the observation does not show), and
    the skip test of `RemoveEdges` never fires anywhere in the tree, now and after any number of
    contractions: `removeRoot`, or an unrooted tree (root of degree ≥ 3) without single-child inner
    nodes. -/
def RootOK (rr : Bool) (t : T) : Prop :=
  t.kids.length ≠ 1 ∧ (rr = true ∨ (3 ≤ t.kids.length ∧ t.noSingle = true))

theorem rootOK_step (rr rt : Bool) (id : Int) (t : T) (h : RootOK rr t) : RootOK rr (contractT rr rt id true t) := by
  obtain ⟨h1, h⟩ := h
  cases t with
  | node d p k =>
    have hlen := contractL_len (rr || !true) rt id (k.length + 0) k
    simp only [T.kids_node] at h1
    constructor
    · rw [contractT_kids]
      simp only [if_true]
      cases k with
      | nil => simp [newKids_nil]
      | cons a r =>
        cases r with
        | nil => simp at h1
        | cons b r' => simp only [List.length_cons] at hlen ⊢; omega
    · rcases h with h | ⟨h3, hns⟩
      · exact Or.inl h
      · have := contractL_ns (rr || !true) rt id (k.length + 0) k hns
        right
        rw [contractT_kids]
        simp only [if_true, T.noSingle, contractT_kids]
        simp only [T.kids_node] at h3
        exact ⟨by omega, this.1⟩

theorem contractT_root_obs {β : Type} (f : List String → β) (hf : PermInv f) (rr rt : Bool) (id : Int) (t : T)
    (h : RootOK rr t) : (obsT f (contractT rr rt id true t)).Perm ((obsT f t).filterMap (stepO rt id)) := by
  obtain ⟨h1, h⟩ := h
  cases t with
  | node d p k =>
    rw [contractT_node, obsT_node, obsT_node]
    simp only [T.kids_node] at h1
    simp only [Bool.not_true, Bool.or_false]
    apply contractL_obs f hf rr rt id _ k
    · left; simpa using h1
    · rcases h with h | ⟨h3, hns⟩
      · exact Or.inl h
      · simp only [T.kids_node] at h3
        exact Or.inr ⟨by simp; omega, hns⟩

theorem removeEdges_cons (rr rt : Bool) (id : Int) (ids : List Int) (t : T) :
    removeEdges rr rt (id :: ids) t = removeEdges rr rt ids (contractT rr rt id true t) := rfl

theorem removeEdges_obs {β : Type} (f : List String → β) (hf : PermInv f) (rr rt : Bool) :
    ∀ (ids : List Int) (t : T), RootOK rr t →
      (obsT f (removeEdges rr rt ids t)).Perm ((obsT f t).filterMap (stepAllO rt ids))
  | [], t, _ => by
    have : (stepAllO rt [] : Obs β → Option (Obs β)) = some := by funext x; rfl
    simp [removeEdges, this]
  | id :: ids, t, h => by
    rw [removeEdges_cons]
    have ih := removeEdges_obs f hf rr rt ids _ (rootOK_step rr rt id t h)
    have h1 := contractT_root_obs f hf rr rt id t h
    refine ih.trans ?_
    refine (h1.filterMap _).trans ?_
    rw [List.filterMap_filterMap]
    apply List.Perm.of_eq
    congr 1

theorem removeEdges_leaves (rr rt : Bool) : ∀ (ids : List Int) (t : T),
    (removeEdges rr rt ids t).leaves.Perm t.leaves ∧ (removeEdges rr rt ids t).d = t.d
  | [], t => by simp [removeEdges]
  | id :: ids, t => by
    rw [removeEdges_cons]
    have ih := removeEdges_leaves rr rt ids (contractT rr rt id true t)
    exact ⟨ih.1.trans (contractT_leaves rr rt id true t).1, ih.2.trans (contractT_d rr rt id true t)⟩

theorem zeroLen_id (e : EdgeD) : (zeroLen e).id = e.id := rfl
theorem zeroLen_idem (e : EdgeD) : zeroLen (zeroLen e) = zeroLen e := rfl

/-- the loop only looks at whether the id of a branch is in the list -/
theorem stepAllO_char {β : Type} (rt : Bool) : ∀ (ids : List Int) (x : Obs β),
    stepAllO rt ids x =
      if x.2.1.id ∈ ids then
        (if x.2.2.1 then some (x.1, (if rt then zeroLen x.2.1 else x.2.1), x.2.2.1, x.2.2.2) else none)
      else some x
  | [], x => by simp [stepAllO]
  | id :: ids, x => by
    obtain ⟨b, e, tip, d⟩ := x
    simp only [stepAllO, stepO]
    by_cases hid : e.id = id
    · subst hid
      cases tip with
      | false => simp
      | true =>
        simp only [beq_self_eq_true, if_true, Option.bind_some, List.mem_cons, true_or]
        rw [stepAllO_char rt ids]
        cases rt <;> simp [zeroLen_id, zeroLen_idem]
    · have : (e.id == id) = false := by simpa using hid
      simp only [this, Bool.false_eq_true, if_false, Option.bind_some, List.mem_cons, hid, false_or]
      rw [stepAllO_char rt ids]

theorem filterMap_congr' {α γ : Type} (g h : α → Option γ) : ∀ (l : List α), (∀ x ∈ l, g x = h x) → l.filterMap g = l.filterMap h
  | [], _ => rfl
  | a :: l, hh => by
    simp only [List.filterMap_cons, hh a (List.mem_cons_self)]
    rw [filterMap_congr' g h l (fun x hx => hh x (List.mem_cons_of_mem _ hx))]

theorem eq_of_nodup_map {α γ : Type} (g : α → γ) : ∀ (l : List α), (l.map g).Nodup → ∀ a ∈ l, ∀ b ∈ l, g a = g b → a = b
  | [], _, a, ha, _, _, _ => by cases ha
  | x :: l, hn, a, ha, b, hb, hg => by
    simp only [List.map_cons, List.nodup_cons, List.mem_map, not_exists, not_and] at hn
    rcases List.mem_cons.mp ha with rfl | ha'
    · rcases List.mem_cons.mp hb with rfl | hb'
      · rfl
      · exact absurd hg.symm (hn.1 b hb')
    · rcases List.mem_cons.mp hb with rfl | hb'
      · exact absurd hg (hn.1 a ha')
      · exact eq_of_nodup_map g l hn.2 a ha' b hb' hg

end Gotree.C07

namespace Gotree.C07
open Gotree

/- ## the two root branches of a rooted tree, without `removeRoot` -/

/-- what one iteration does to a root branch of a rooted tree when `removeRoot` is false:
    nothing, except `SetLength(0.0)` on a tip branch with `removeTips` -/
def rootEdge1 (rt : Bool) (id : Int) (leaf : Bool) (e : EdgeD) : EdgeD :=
  if e.id == id && leaf && rt then zeroLen e else e

/-- … and what the whole loop does to it -/
def rootEdge (rt : Bool) (leaf : Bool) (ids : List Int) (e : EdgeD) : EdgeD :=
  if e.id ∈ ids ∧ leaf = true ∧ rt = true then zeroLen e else e

/-- the loop seen from inside one of the two subtrees hanging off the root -/
def belowAll (rt : Bool) (ids : List Int) (c : T) : T :=
  ids.foldl (fun c id => contractT false rt id false c) c

theorem nNone_take2 (a b : EdgeD × T) (p : Nat) : nNone (List.take p [some a, some b]) = 0 := by
  match p with
  | 0 => rfl
  | 1 => rfl
  | (n + 2) => simp [nNone]

set_option linter.unusedSimpArgs false in
theorem contractT_rooted (rt : Bool) (id : Int) (d : NodeD) (p : Nat) (e1 e2 : EdgeD) (c1 c2 : T) :
    contractT false rt id true (.node d p [(e1, c1), (e2, c2)]) =
      .node d p [(rootEdge1 rt id c1.isLeaf e1, contractT false rt id false c1),
                 (rootEdge1 rt id c2.isLeaf e2, contractT false rt id false c2)] := by
  rw [contractT_node]
  simp only [contractL, List.length_cons, List.length_nil, if_true, Nat.add_zero, Nat.zero_add]
  have h2 : ((0 + 1 + 1 : Nat) == 2) = true := rfl
  cases h1 : (e1.id == id) <;> cases h2 : (e2.id == id) <;> cases hl1 : c1.isLeaf <;> cases hl2 : c2.isLeaf <;> cases rt <;>
    simp [rootEdge1, h1, h2, hl1, hl2, nNone_take2, stayKids]

theorem rootEdge_cons (rt : Bool) (leaf : Bool) (id : Int) (ids : List Int) (e : EdgeD) :
    rootEdge rt leaf ids (rootEdge1 rt id leaf e) = rootEdge rt leaf (id :: ids) e := by
  unfold rootEdge rootEdge1
  by_cases h1 : e.id = id
  · subst h1
    cases leaf <;> cases rt <;> simp [zeroLen_id, zeroLen_idem]
  · have : (e.id == id) = false := by simpa using h1
    simp [this, h1]

theorem removeEdges_rooted (rt : Bool) (d : NodeD) (p : Nat) :
    ∀ (ids : List Int) (e1 e2 : EdgeD) (c1 c2 : T),
      removeEdges false rt ids (.node d p [(e1, c1), (e2, c2)]) =
        .node d p [(rootEdge rt c1.isLeaf ids e1, belowAll rt ids c1), (rootEdge rt c2.isLeaf ids e2, belowAll rt ids c2)]
  | [], e1, e2, c1, c2 => by simp [removeEdges, rootEdge, belowAll]
  | id :: ids, e1, e2, c1, c2 => by
    rw [removeEdges_cons, contractT_rooted, removeEdges_rooted rt d p ids]
    rw [(contractT_leaves false rt id false c1).2, (contractT_leaves false rt id false c2).2]
    rw [rootEdge_cons, rootEdge_cons]
    rfl

theorem belowAll_obs {β : Type} (f : List String → β) (hf : PermInv f) (rt : Bool) :
    ∀ (ids : List Int) (c : T), c.noSingleBelow = true →
      (obsT f (belowAll rt ids c)).Perm ((obsT f c).filterMap (stepAllO rt ids))
  | [], c, _ => by
    have : (stepAllO rt [] : Obs β → Option (Obs β)) = some := by funext x; rfl
    simp [belowAll, this]
  | id :: ids, c, h => by
    have ih := belowAll_obs f hf rt ids _ (contractT_ns false rt id c h)
    have h1 := contractT_obs f hf false rt id c (Or.inr h)
    show (obsT f (belowAll rt ids (contractT false rt id false c))).Perm _
    refine ih.trans ?_
    refine (h1.filterMap _).trans ?_
    rw [List.filterMap_filterMap]
    apply List.Perm.of_eq
    congr 1

theorem belowAll_leaves (rt : Bool) : ∀ (ids : List Int) (c : T),
    (belowAll rt ids c).leaves.Perm c.leaves ∧ (belowAll rt ids c).isLeaf = c.isLeaf ∧ (belowAll rt ids c).d = c.d
  | [], c => by simp [belowAll]
  | id :: ids, c => by
    have ih := belowAll_leaves rt ids (contractT false rt id false c)
    have h1 := contractT_leaves false rt id false c
    exact ⟨ih.1.trans h1.1, ih.2.1.trans h1.2, ih.2.2.trans (contractT_d false rt id false c)⟩

end Gotree.C07
