/-
  C04 — lemmas about the model of `Edge.DumpBitSet` (Model/C04Dump.lean).
-/
import Gotree.Model.C04Dump

namespace Gotree.C04
open Gotree

theorem range_rev_map_drop (f : Nat → Char) (n k : Nat) :
    (((List.range (n + k)).reverse.map f)).drop k = (List.range n).reverse.map f := by
  rw [List.range_add, List.reverse_append, List.map_append]
  apply List.drop_left'
  simp

theorem range_map_getD (g : Bool → Char) (b : List Bool) :
    (List.range b.length).map (fun i => g (b.getD i false)) = b.map g := by
  apply List.ext_getElem
  · simp
  · intro i h1 h2
    simp at h1 h2
    simp [h2]

/-- the repaired `DumpBitSet`: the bits from the highest to the lowest position, then a dot — for every width -/
theorem dumpBitSetL_eq (b : List Bool) : dumpBitSetL (some b) = b.reverse.map bitChar ++ ['.'] := by
  simp only [dumpBitSetL]
  rw [List.map_reverse, range_map_getD, List.map_reverse]

/-- the pinned `DumpBitSet` on a bitset of 1 to 64 positions: the same (fix 405e36d changes nothing there) -/
theorem dumpBitSetPinnedL_le64 (b : List Bool) (h1 : 1 ≤ b.length) (h2 : b.length ≤ 64) :
    dumpBitSetPinnedL (some b) = some (b.reverse.map bitChar ++ ['.']) := by
  have hw : (b.length + 63) / 64 = 1 := by omega
  obtain ⟨k, hk⟩ : ∃ k, 64 = b.length + k := ⟨64 - b.length, by omega⟩
  have hlen : (wordChars b 0).length = 65 := by simp [wordChars]
  simp only [dumpBitSetPinnedL, dumpAsBitsL, hw]
  have : (List.range 1).reverse.flatMap (wordChars b) = wordChars b 0 := by simp [List.range_succ]
  rw [this, hlen]
  have hlt : ¬ (65 < b.length + 1) := by omega
  simp only [hlt, if_false]
  congr 1
  have hd : 65 - b.length - 1 = k := by omega
  rw [hd]
  unfold wordChars
  have hk' : k = ((List.range 64).reverse.map fun i => bitChar (b.getD (64 * 0 + i) false)).length - b.length := by
    simp; omega
  rw [List.drop_append_of_le_length (by simp; omega)]
  congr 1
  rw [hk, range_rev_map_drop]
  simp only [Nat.mul_zero, Nat.zero_add]
  rw [List.map_reverse, range_map_getD, List.map_reverse]

end Gotree.C04
