/-
  C09 — bridge for the lengths: the Spec's length sum of a canonical side over
  `T.usplitsAll` is the model's `lenM` of the bitset (branch lists of the unrooted
  trees), when every length is absent or non-negative.
-/
import Gotree.Lemmas.C09Bridge

namespace Gotree.C09
open Gotree

/-! ## what the `insertU` fold stores for one side -/

/-- the lengths stored for side `c` -/
def lensOf (c : List String) (l : List USplit) : List Rat := (l.filter (·.side == c)).map (·.len)

/-- the fused length of a non-empty list of lengths, `[]` for none -/
def fuseAll : List Rat → List Rat
  | [] => []
  | a :: r => [r.foldl fuseLen a]

theorem lensOf_insertU_ne (c : List String) (s : USplit) (hs : (s.side == c) = false) :
    ∀ l : List USplit, lensOf c (insertU s l) = lensOf c l
  | [] => by simp [insertU, lensOf, hs]
  | x :: r => by
    unfold insertU
    by_cases h : (x.side == s.side) = true
    · have hx : x.side = s.side := by simpa using h
      have hxc : (x.side == c) = false := by rw [hx]; exact hs
      simp [h, lensOf, hxc]
    · have ih := lensOf_insertU_ne c s hs r
      simp only [h, Bool.false_eq_true, if_false]
      unfold lensOf at ih ⊢
      simp only [List.filter_cons]
      split <;> simp [ih]

theorem lensOf_insertU_eq (c : List String) (s : USplit) (hs : s.side = c) :
    ∀ l : List USplit, (l.map (·.side)).Nodup →
      lensOf c (insertU s l) = match lensOf c l with
        | [] => [s.len]
        | a :: r => fuseLen a s.len :: r
  | [], _ => by simp [insertU, lensOf, hs]
  | x :: r, hnd => by
    simp only [List.map_cons, List.nodup_cons] at hnd
    unfold insertU
    by_cases h : (x.side == s.side) = true
    · have hx : x.side = s.side := by simpa using h
      have hxc : (x.side == c) = true := by rw [hx, hs]; simp
      -- no other entry of r has this side
      have hr : lensOf c r = [] := by
        unfold lensOf
        rw [List.map_eq_nil_iff, List.filter_eq_nil_iff]
        intro y hy hyc
        have : y.side = x.side := by rw [hx, hs]; simpa using hyc
        exact hnd.1 (List.mem_map.2 ⟨y, hy, this⟩)
      simp only [h, if_true]
      have : lensOf c (x :: r) = x.len :: lensOf c r := by simp [lensOf, hxc]
      rw [this, hr]
      simp [lensOf, hxc] at hr ⊢
      exact hr
    · have hxc : (x.side == c) = false := by
        rw [← hs]; simpa using h
      have ih := lensOf_insertU_eq c s hs r hnd.2
      simp only [h, Bool.false_eq_true, if_false]
      have e1 : lensOf c (x :: insertU s r) = lensOf c (insertU s r) := by simp [lensOf, hxc]
      have e2 : lensOf c (x :: r) = lensOf c r := by simp [lensOf, hxc]
      rw [e1, e2, ih]

theorem sides_insertU_nodup (s : USplit) : ∀ l : List USplit, (l.map (·.side)).Nodup →
    ((insertU s l).map (·.side)).Nodup
  | [], _ => by simp [insertU]
  | x :: r, hnd => by
    simp only [List.map_cons, List.nodup_cons] at hnd
    unfold insertU
    by_cases h : (x.side == s.side) = true
    · simp only [h, if_true, List.map_cons, List.nodup_cons]; exact hnd
    · simp only [h, Bool.false_eq_true, if_false, List.map_cons, List.nodup_cons]
      refine ⟨?_, sides_insertU_nodup s r hnd.2⟩
      intro hm
      rcases (mem_sides_insertU s r x.side).1 hm with h1 | h1
      · exact h (by simp [h1])
      · exact hnd.1 h1

/-- the fold over a list of candidates: one entry per side, carrying the fused length -/
theorem lensOf_foldl (c : List String) : ∀ (L : List USplit) (acc : List USplit),
    (acc.map (·.side)).Nodup →
    ((L.foldl (fun acc s => insertU s acc) acc).map (·.side)).Nodup ∧
    lensOf c (L.foldl (fun acc s => insertU s acc) acc) =
      match lensOf c acc with
      | [] => fuseAll (lensOf c L)
      | a :: r => (lensOf c L).foldl fuseLen a :: r
  | [], acc, hnd => by
    refine ⟨hnd, ?_⟩
    simp only [List.foldl_nil]
    cases h : lensOf c acc with
    | nil => simp [lensOf, fuseAll]
    | cons a r => simp [lensOf]
  | s :: L, acc, hnd => by
    have hnd' := sides_insertU_nodup s acc hnd
    obtain ⟨i1, i2⟩ := lensOf_foldl c L (insertU s acc) hnd'
    refine ⟨i1, ?_⟩
    rw [List.foldl_cons, i2]
    by_cases hs : (s.side == c) = true
    · have hsc : s.side = c := by simpa using hs
      rw [lensOf_insertU_eq c s hsc acc hnd]
      have hL : lensOf c (s :: L) = s.len :: lensOf c L := by simp [lensOf, hs]
      rw [hL]
      cases h : lensOf c acc with
      | nil => simp [fuseAll]
      | cons a r => simp
    · have hsf : (s.side == c) = false := by simpa using hs
      rw [lensOf_insertU_ne c s hsf acc]
      have hL : lensOf c (s :: L) = lensOf c L := by simp [lensOf, hsf]
      rw [hL]

/-! ## the splits of a rooted tree and of its unrooted form -/

theorem splits_rooted (d : NodeD) (p : Nat) (e1 e2 : EdgeD) (d1 d2 : NodeD) (p1 p2 : Nat) (k1 k2 : Kids) :
    (T.node d p [(e1, .node d1 p1 k1), (e2, .node d2 p2 k2)]).splits =
      (⟨(T.node d1 p1 k1).leaves, e1, (T.node d1 p1 k1).isLeaf⟩ :: splitsL k1) ++
      (⟨(T.node d2 p2 k2).leaves, e2, (T.node d2 p2 k2).isLeaf⟩ :: splitsL k2) := by
  simp [T.splits, splitsL, T.splitsBelow]

/-- the length `UnRoot` gives to the fused root branch -/
def len3 (e1 e2 : EdgeD) : Rat := if e1.len != NIL || e2.len != NIL then max0 e1.len + max0 e2.len else NIL

theorem unroot_splits_inner (d : NodeD) (p : Nat) (e1 e2 : EdgeD) (d1 d2 : NodeD) (p1 p2 : Nat) (k1 k2 : Kids)
    (hk1 : k1 ≠ []) : ∃ e3 : EdgeD, e3.len = len3 e1 e2 ∧
    (unroot (T.node d p [(e1, .node d1 p1 k1), (e2, .node d2 p2 k2)])).splits =
      splitsL k1 ++ (⟨(T.node d2 p2 k2).leaves, e3, (T.node d2 p2 k2).isLeaf⟩ :: splitsL k2) := by
  have hne : k1.isEmpty = false := by
    cases k1 with
    | nil => exact absurd rfl hk1
    | cons _ _ => rfl
  refine ⟨⟨len3 e1 e2, if !k1.isEmpty && !k2.isEmpty && (e1.sup != NIL || e2.sup != NIL)
      then maxR (max0 e1.sup) (max0 e2.sup) else NIL, NIL, [], -1⟩, rfl, ?_⟩
  simp only [unroot, hne, Bool.false_eq_true, if_false, T.splits, T.kids_node, splitsL_append,
    splitsBelow_node, splitsL, List.append_nil, len3]
  congr 2
  cases k2 <;> rfl

theorem unroot_splits_tip (d : NodeD) (p : Nat) (e1 e2 : EdgeD) (d1 d2 : NodeD) (p1 p2 : Nat) (k2 : Kids) :
    ∃ e3 : EdgeD, e3.len = len3 e1 e2 ∧
    (unroot (T.node d p [(e1, .node d1 p1 []), (e2, .node d2 p2 k2)])).splits =
      splitsL k2 ++ [⟨(T.node d1 p1 []).leaves, e3, true⟩] := by
  refine ⟨⟨len3 e1 e2, NIL, NIL, [], -1⟩, rfl, ?_⟩
  simp [unroot, T.splits, splitsL_append, splitsL, T.leaves, T.isLeaf, T.splitsBelow, len3]

/-- `fuseLen` (Spec) and `UnRoot`'s rule agree on lengths that are absent or non-negative -/
theorem fuseLen_eq_len3 (e1 e2 : EdgeD) (h1 : e1.len = NIL ∨ 0 ≤ e1.len) (h2 : e2.len = NIL ∨ 0 ≤ e2.len) :
    fuseLen e1.len e2.len = len3 e1 e2 := by
  have m : ∀ x : Rat, (x = NIL ∨ 0 ≤ x) → (if x == NIL then 0 else x) = max0 x := by
    intro x hx
    rcases hx with h | h
    · subst h; simp [max0, NIL]; decide +kernel
    · have hne : (x == NIL) = false := by
        rw [beq_eq_false_iff_ne]; intro he; rw [he] at h; revert h; unfold NIL; decide +kernel
      have hlt : ¬ x < 0 := Rat.not_lt.2 h
      simp [max0, hne, hlt]
  have ea := m e1.len h1
  have eb := m e2.len h2
  unfold fuseLen len3
  rw [ea, eb]
  cases hA : (e1.len == NIL) <;> cases hB : (e2.len == NIL) <;> simp [bne, hA, hB]

/-! ## one tree -/

/-- "the branch has the bipartition of `key`" -/
def matchP (univ key : List String) (s : SplitE) : Bool := eqc univ key (bits univ s.below)

theorem lsum_splits (univ : List String) (u : T) (key : List String) :
    lsum univ (edgeKeys univ u) key = ((u.splits.filter (matchP univ key)).map (·.e.len)).sum := by
  unfold lsum edgeKeys matchP
  rw [List.filter_map, List.map_map]
  rfl

theorem cnt_splits (univ : List String) (u : T) (key : List String) :
    cnt univ (edgeKeys univ u) key = (u.splits.filter (matchP univ key)).length := by
  unfold cnt edgeKeys matchP
  rw [List.countP_map, List.countP_eq_length_filter]
  rfl

theorem filter_le_one (univ : List String) (u : T) (key : List String) (hk : IsKey univ key)
    (hd : distinctKeys univ u = true) : (u.splits.filter (matchP univ key)).length ≤ 1 := by
  rw [← cnt_splits]
  exact pairwiseNe_cnt univ key hk (edgeKeys univ u) (edgeKeys_isKey univ u) hd

theorem fuseAll_small (l : List Rat) (h : l.length ≤ 1) : fuseAll l = l := by
  match l, h with
  | [], _ => rfl
  | [a], _ => rfl

theorem specLen_eq (t : T) (c : List String) :
    ((t.usplitsAll.filter (·.side == c)).map (·.len)).sum =
      (fuseAll ((t.splits.filter (fun s => canonSide t.tipNames s.below == c)).map (·.e.len))).sum := by
  unfold T.usplitsAll
  simp only
  have hperm := List.mergeSort_perm
    (t.splits.foldl (fun acc s => insertU ⟨canonSide t.tipNames s.below, s.e.len, s.e.sup⟩ acc) [])
    (fun a b => decide (toString a.side ≤ toString b.side))
  rw [sumR_perm ((hperm.filter _).map _)]
  have hfold : t.splits.foldl (fun acc s => insertU ⟨canonSide t.tipNames s.below, s.e.len, s.e.sup⟩ acc) [] =
      (t.splits.map fun s => (⟨canonSide t.tipNames s.below, s.e.len, s.e.sup⟩ : USplit)).foldl
        (fun acc s => insertU s acc) [] := by
    rw [List.foldl_map]
  rw [hfold]
  have := (lensOf_foldl c (t.splits.map fun s => (⟨canonSide t.tipNames s.below, s.e.len, s.e.sup⟩ : USplit)) []
    (by simp)).2
  unfold lensOf at this
  rw [this]
  simp only [List.filter_nil, List.map_nil, List.filter_map, List.map_map]
  rfl

/-- the two root branches of a rooted tree have complementary bitsets -/
theorem root_sides_eqc (univ b1 b2 : List String) (hnd : (b1 ++ b2).Nodup)
    (hu : ∀ a, a ∈ univ ↔ a ∈ b1 ++ b2) : Eqc univ (bits univ b1) (bits univ b2) := by
  apply bits_compl
  intro x hx
  have hnd' := List.nodup_append.1 hnd
  constructor
  · intro h1 h2; exact hnd'.2.2 x h1 x h2 rfl
  · intro h2
    rcases List.mem_append.1 ((hu x).1 hx) with h | h
    · exact h
    · exact absurd h h2

theorem spec_len_tree (univ taxa : List String) (t : T) (k : List String)
    (hk : k.Nodup) (hnd : t.tipNames.Nodup) (hne : t.tipNames ≠ []) (htaxa : taxa.Nodup)
    (hmem : ∀ x, x ∈ t.tipNames ↔ x ∈ taxa) (hut : ∀ a, a ∈ univ ↔ a ∈ taxa)
    (hdist : distinctKeys univ (unroot t) = true)
    (hlens : ∀ s ∈ t.splits, s.e.len = NIL ∨ 0 ≤ s.e.len) :
    ((t.usplitsAll.filter (·.side == canonSide taxa k)).map (·.len)).sum =
      lsum univ (edgeKeys univ (unroot t)) (bits univ k) := by
  have hmu : ∀ a, a ∈ t.tipNames ↔ a ∈ univ := fun a => (hmem a).trans (hut a).symm
  have hkey : IsKey univ (bits univ k) := isKey_bits univ k
  rw [specLen_eq, lsum_splits]
  -- the Spec's test on the branches of `t` is the model's test
  have hP : t.splits.filter (fun s => canonSide t.tipNames s.below == canonSide taxa k) =
      t.splits.filter (matchP univ (bits univ k)) := by
    apply List.filter_congr
    intro s hs
    have hsnd : s.below.Nodup := (below_sublist_L t.kids s hs).nodup (leavesL_nodup_of_tipNames hnd)
    rw [Bool.eq_iff_iff, beq_iff_eq, canonSide_eq_iff t.tipNames taxa s.below k hnd htaxa hmem hne hsnd hk]
    unfold matchP
    rw [eqc_iff, eqc_bits_iff]
    exact ⟨SameSide.of_mem_iff hmu, SameSide.of_mem_iff fun a => (hmu a).symm⟩
  rw [hP]
  generalize hPdef : matchP univ (bits univ k) = P
  have hPb : ∀ (b : List String) (e e' : EdgeD) (x y : Bool), P ⟨b, e, x⟩ = P ⟨b, e', y⟩ := by
    intro b e e' x y; rw [← hPdef]; rfl
  have hle := filter_le_one univ (unroot t) (bits univ k) hkey hdist
  rw [hPdef] at hle
  by_cases h2 : t.kids.length = 2
  · cases t with
    | node d p kids =>
      match kids, h2 with
      | [(e1, .node d1 p1 k1), (e2, .node d2 p2 k2)], _ =>
        have htn : (T.node d p [(e1, .node d1 p1 k1), (e2, .node d2 p2 k2)]).tipNames =
            (T.node d1 p1 k1).leaves ++ (T.node d2 p2 k2).leaves := by
          simp [T.tipNames, leavesL]
        rw [htn] at hnd hmu
        have hroot := root_sides_eqc univ _ _ hnd (fun a => (hmu a).symm)
        have hP12 : ∀ (e e' : EdgeD) (x y : Bool),
            P ⟨(T.node d1 p1 k1).leaves, e, x⟩ = P ⟨(T.node d2 p2 k2).leaves, e', y⟩ := by
          intro e e' x y
          rw [← hPdef]
          exact eqc_congr_right (isKey_bits _ _) (isKey_bits _ _) hkey hroot
        have hl1 := hlens ⟨(T.node d1 p1 k1).leaves, e1, (T.node d1 p1 k1).isLeaf⟩
          (by rw [splits_rooted]; simp)
        have hl2 := hlens ⟨(T.node d2 p2 k2).leaves, e2, (T.node d2 p2 k2).isLeaf⟩
          (by rw [splits_rooted]; simp)
        rw [splits_rooted]
        by_cases hk1 : k1 = []
        · subst hk1
          obtain ⟨e3, he3, hun⟩ := unroot_splits_tip d p e1 e2 d1 d2 p1 p2 k2
          rw [hun] at hle ⊢
          have hs0 : splitsL ([] : Kids) = [] := rfl
          rw [hs0]
          simp only [List.filter_append, List.filter_cons, List.filter_nil, List.cons_append, List.nil_append,
            List.length_append] at hle ⊢
          rw [hP12 e1 e2 (T.node d1 p1 []).isLeaf (T.node d2 p2 k2).isLeaf]
          rw [hPb (T.node d1 p1 []).leaves e3 e1 true (T.node d1 p1 []).isLeaf,
            hP12 e1 e2 (T.node d1 p1 []).isLeaf (T.node d2 p2 k2).isLeaf] at hle ⊢
          by_cases hp : P ⟨(T.node d2 p2 k2).leaves, e2, (T.node d2 p2 k2).isLeaf⟩ = true
          · simp only [hp, if_true, List.length_cons, List.length_nil] at hle ⊢
            have : (splitsL k2).filter P = [] := List.eq_nil_of_length_eq_zero (by omega)
            rw [this]
            simp only [List.map_cons, List.map_nil, fuseAll, List.foldl_cons, List.foldl_nil, List.nil_append,
              List.sum_cons, List.sum_nil]
            rw [fuseLen_eq_len3 e1 e2 hl1 hl2, he3]
          · simp only [hp, Bool.false_eq_true, if_false, List.length_nil, List.append_nil] at hle ⊢
            rw [fuseAll_small _ (by simp; omega)]
        · obtain ⟨e3, he3, hun⟩ := unroot_splits_inner d p e1 e2 d1 d2 p1 p2 k1 k2 hk1
          rw [hun] at hle ⊢
          simp only [List.filter_append, List.filter_cons, List.cons_append, List.length_append] at hle ⊢
          rw [hP12 e1 e2 (T.node d1 p1 k1).isLeaf (T.node d2 p2 k2).isLeaf]
          rw [hPb (T.node d2 p2 k2).leaves e3 e2 (T.node d2 p2 k2).isLeaf (T.node d2 p2 k2).isLeaf] at hle ⊢
          by_cases hp : P ⟨(T.node d2 p2 k2).leaves, e2, (T.node d2 p2 k2).isLeaf⟩ = true
          · simp only [hp, if_true, List.length_cons] at hle ⊢
            have h1 : (splitsL k1).filter P = [] := List.eq_nil_of_length_eq_zero (by omega)
            have h2 : (splitsL k2).filter P = [] := List.eq_nil_of_length_eq_zero (by omega)
            rw [h1, h2]
            simp only [List.nil_append, List.map_cons, List.map_nil, fuseAll, List.foldl_cons, List.foldl_nil,
              List.sum_cons, List.sum_nil]
            rw [fuseLen_eq_len3 e1 e2 hl1 hl2, he3]
          · simp only [hp, Bool.false_eq_true, if_false] at hle ⊢
            rw [fuseAll_small _ (by simp; omega)]
  · rw [unroot_of_ne2 t h2] at hle ⊢
    rw [fuseAll_small _ (by simpa using hle)]

/-! ## the collection -/

theorem spec_lenSum_eq (ts : List T) (k : List String) (hk : k.Nodup)
    (hnd : ∀ t ∈ ts, t.tipNames.Nodup) (hne : ∀ t ∈ ts, t.tipNames ≠ [])
    (hmem : ∀ t ∈ ts, ∀ x, x ∈ t.tipNames ↔ x ∈ C09S.taxa ts)
    (hut : ∀ a, a ∈ univOf ts ↔ a ∈ C09S.taxa ts) (htaxa : (C09S.taxa ts).Nodup)
    (hnr : noRepeat ts = true) (hl : lensOK ts = true) (hns : ∀ t ∈ ts, okBelowL t.kids = true) :
    C09S.lenSum ts (canonSide (C09S.taxa ts) k) = lenM (univOf ts) (trees ts) (bits (univOf ts) k) := by
  unfold C09S.lenSum lenM trees
  rw [List.map_map]
  congr 1
  apply List.map_congr_left
  intro t ht
  simp only [Function.comp]
  have hn := norm_of_noSingles t (hns t ht)
  rw [hn]
  apply spec_len_tree (univOf ts) (C09S.taxa ts) t k hk (hnd t ht) (hne t ht) htaxa (hmem t ht) hut
  · unfold noRepeat at hnr
    rw [← hn]
    exact List.all_eq_true.1 hnr t ht
  · intro s hs
    unfold lensOK at hl
    have := List.all_eq_true.1 (List.all_eq_true.1 hl t ht) s hs
    simp only [Bool.or_eq_true, beq_iff_eq, decide_eq_true_eq] at this
    exact this

end Gotree.C09
