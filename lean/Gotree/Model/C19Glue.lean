/-
  C19 — the option glue of the anchored commands as small pure functions (cmd/consensus.go +
  tree/algo.go:272, cmd/divide.go:48, cmd/annotate.go:69-90, cmd/root.go readTree, cmd/minbrlen.go:47):
  what each command does with the value its option variable holds, as far as the documented
  default is concerned.  Tied to the binary by the `C19.glue` cases.
-/
namespace Gotree.C19.Glue

/-- `compute consensus --freq-min f`: tree.Consensus refuses `f < 0.5 || f > 1` -/
def consensusAccepts (f : Rat) : Bool := !(decide (f < 1 / 2) || decide (f > 1))

/-- `%03d` for a natural number -/
def pad3 (i : Nat) : String :=
  let s := toString i
  String.ofList (List.replicate (3 - s.length) '0') ++ s

/-- `divide --output p`: fmt.Sprintf("%s_%03d.nw", p, i) for the i-th tree -/
def divideName (pfx : String) (i : Nat) : String := pfx ++ "_" ++ pad3 i ++ ".nw"

def divideNames (pfx : String) (n : Nat) : List String := (List.range n).map (divideName pfx)

/-- `annotate`: where the annotations come from.  --map-file has priority; the compared tree file
    "none" is turned into "stdin" (cmd/annotate.go:85) -/
inductive AnnotSource
  | mapFile (file : String)
  | tree (file : String)
  deriving DecidableEq, Repr

def annotateSource (mapfile compared : String) : AnnotSource :=
  if mapfile != "none" then .mapFile mapfile
  else .tree (if compared == "none" then "stdin" else compared)

/-- cmd/root.go readTree: the file name "none" is refused (merge --compared, compare --compared …) -/
def readTreeAccepts (file : String) : Bool := file != "none"

/-- `brlen setmin --length c`: new length of a branch (cmd/minbrlen.go:47-49) -/
def setmin (c : Rat) (external internal isTip : Bool) (len : Rat) : Rat :=
  if ((isTip && external) || (!isTip && internal)) && decide (len < c) then c else len

/-! ### option variables assigned after parsing (table (e), Gen/C19Writes.lean) -/

/-- `comment clear` / `comment transfer` (cmd/clearcomments.go:36, cmd/transfercomments.go:26):
    neither --edges-only nor --nodes-only ⇒ both kinds; result = (edges, nodes) -/
def commentTargets (edgesOnly nodesOnly : Bool) : Bool × Bool :=
  if !edgesOnly && !nodesOnly then (true, true) else (edgesOnly, nodesOnly)

/-- `rename --auto --length l` (cmd/rename.go:101): identifiers have at least 5 characters -/
def autoLength (l : Int) : Int := if l < 5 then 5 else l

/-- `generate topologies --nbtips n --input f` (cmd/topologies.go:26-39): with an input tree the
    number of tips is the number of its tips, whatever --nbtips says -/
def topologiesNbTips (nbtips : Int) (inputTips : Option Nat) : Int :=
  match inputTips with
  | some k => k
  | none => nbtips

/-- one assignment to an option variable inside a command body -/
structure OptWrite where
  path : String
  var : String
  file : String
  rhs : String
  deriving DecidableEq, Repr

/-- the post-parse assignments the models account for: (command, variable, right-hand side as the
    source spells it) ↦ model function.  The right-hand side is part of the key: a SECOND assignment to
    the same variable in the same command is not covered by the model of the first. -/
def modelledWrites : List ((String × String × String) × String) := [
  (("gotree", "seed", "= time.Now().UTC().UnixNano()"), "PreRun.seedOf"),
  (("gotree compare trees", "rootCpus", "= maxcpus"), "PreRun.clampThreads"),
  (("gotree annotate", "annotateCompTreeFile", "= \"stdin\""), "Glue.annotateSource"),
  (("gotree comment clear", "edgecomments", "= true"), "Glue.commentTargets"),
  (("gotree comment clear", "nodecomments", "= true"), "Glue.commentTargets"),
  (("gotree comment transfer", "edgecomments", "= true"), "Glue.commentTargets"),
  (("gotree comment transfer", "nodecomments", "= true"), "Glue.commentTargets"),
  (("gotree rename", "autorenamelength", "= 5"), "Glue.autoLength"),
  (("gotree generate topologies", "generateNbTips", "= len(tipNames)"), "Glue.topologiesNbTips")]

def isModelled (w : OptWrite) : Bool := modelledWrites.any fun m => m.1 == (w.path, w.var, w.rhs)

/-! ### tests of whether an option was GIVEN (table (f), Gen/C19Changed.lean) -/

/-- one `Flags().Changed("flag")` (or `.Flag("flag").Changed`) in the body of a command -/
structure ChangedSite where
  path : String
  flag : String
  file : String
  deriving DecidableEq, Repr

/-- the `Changed` tests that are accounted for: (command, flag) ↦ the model of that command's
    cascade and the recorded finding (each of them makes "omitted" differ from "documented default
    spelled out" in some context; none is harmless) -/
def accountedChanged : List ((String × String) × String) := [
  (("gotree rename", "regexp"), "Rename.renameMode — finding F45 RenameRegexpGiven"),
  (("gotree rename", "replace"), "Rename.renameMode — finding F45 RenameRegexpGiven"),
  (("gotree brlen setrand", "min-mean"), "Setrand.meanRange — finding F55 SetrandMeanRangeGiven"),
  (("gotree brlen setrand", "max-mean"), "Setrand.meanRange — finding F55 SetrandMeanRangeGiven")]

def isAccounted (c : ChangedSite) : Bool := accountedChanged.any fun m => m.1 == (c.path, c.flag)

def defaultFreqMin : Rat := 1 / 2
def defaultPrefix : String := "prefix"

/-- the names of the files an outcome (harness format: "…\nfile NAME:\n…") reports -/
def filesOf (outcome : String) : List String :=
  (outcome.splitOn "\n").filterMap fun l =>
    if l.startsWith "file " && l.endsWith ":" then some (String.ofList ((l.toList.drop 5).dropLast)) else none

end Gotree.C19.Glue
