/-
  C17 — `Apart` at every site, by cases on the slot configuration: the upper end is the root.
-/
import Gotree.Lemmas.C17ApartLocalCommon

namespace Gotree.C17
open Gotree Gotree.C17.Spec

set_option maxHeartbeats 4000000 in
theorem local_apart_root_f (path : List Nat) (d1 d2 : NodeD) (e eu ev : EdgeD) (tu tv : T)
    (y z : EdgeD × T) (p1 p2 : Nat) (hp2 : p2 ≤ 2) :
    LocalApart path d1 false true p1 [(e, T.node d2 p2 [(eu, tu), (ev, tv)]), y, z] 0 p2 ∧
    LocalApart path d1 false true p1 [y, (e, T.node d2 p2 [(eu, tu), (ev, tv)]), z] 1 p2 ∧
    LocalApart path d1 false true p1 [y, z, (e, T.node d2 p2 [(eu, tu), (ev, tv)])] 2 p2 := by
  obtain ⟨xu, hxu⟩ := List.exists_mem_of_ne_nil _ (leaves_ne_nil tu)
  obtain ⟨xv, hxv⟩ := List.exists_mem_of_ne_nil _ (leaves_ne_nil tv)
  obtain ⟨ey, ty⟩ := y
  obtain ⟨ez, tz⟩ := z
  obtain ⟨xy, hxy⟩ := List.exists_mem_of_ne_nil _ (leaves_ne_nil ty)
  obtain ⟨xz, hxz⟩ := List.exists_mem_of_ne_nil _ (leaves_ne_nil tz)
  have bu := block_sub eu tu
  have bv := block_sub ev tv
  have bY := block_sub ey ty
  have bz := block_sub ez tz
  have h2 : p2 = 0 ∨ p2 = 1 ∨ p2 = 2 := by omega
  unfold LocalApart
  rcases h2 with rfl | rfl | rfl <;>
    refine ⟨?_, ?_, ?_⟩ <;> intro hnd S' hS' <;> eval_local at hS' <;> subst hS' <;>
    simp only [leavesL, T.leaves, List.append_nil, List.nodup_append, List.mem_append] at hnd <;>
    simp only [T.kids_node, lowerLeaves, List.getElem?_cons_zero, List.getElem?_cons_succ, leavesL, List.append_nil] <;>
    first
    | apart_at4 0 e eu ev ey ez tu tv ty tz xu xv xy xz bu bv bY bz
    | apart_at4 1 e eu ev ey ez tu tv ty tz xu xv xy xz bu bv bY bz
    | apart_at4 2 e eu ev ey ez tu tv ty tz xu xv xy xz bu bv bY bz

end Gotree.C17
