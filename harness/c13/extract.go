package c13

// GenTables (vh gen-tables): facts about the anchored source that the hand-written model of C13 assumes,
// re-extracted from the working tree on every run (go/parser only) and written to
// lean/Gotree/Gen/C13Tables.lean; Proofs/C13.lean re-decides them (`…_table_check` theorems):
//   * io/nexus/nexus_lexer.go  scanIdent: the switch on strings.ToUpper(lit) — case literal → token; base and
//     size given to strconv.ParseInt; Scan: the punctuation switch
//   * io/nexus/nexus_token.go  isIdent / isWhitespace: the characters compared
//   * io/phyloxml/phyloxml.go  the xml tags of the structs xml.Unmarshal fills; the order in which cladeToTree
//     looks at Name / Tax.ScientificName / Tax.Code; the guard of SetSupport
//   * io/utils/readtrees.go    the FORMAT_ constants (iota order); per reader entry point, which parser package
//     each case calls
//   * cmd/root.go              the switch on rootInputFormat: flag value → FORMAT_ constant, and its default
//   * cmd/reformat*.go         the writer each command calls, the reader (readTrees), the flag defaults
// The same extraction (SourceKeywords, SourceFormatFlags) aims the generator: the labels and flag values drawn
// include every literal found in the source, so that a changed table row is met by a concrete input.

import (
	"fmt"
	"go/ast"
	"go/parser"
	"go/token"
	"os"
	"path/filepath"
	"strconv"
	"strings"
)

func parseGo(repo, rel string) (*ast.File, error) {
	return parser.ParseFile(token.NewFileSet(), filepath.Join(repo, rel), nil, 0)
}

func funcNamed(f *ast.File, name string) *ast.FuncDecl {
	for _, d := range f.Decls {
		if fd, ok := d.(*ast.FuncDecl); ok && fd.Name.Name == name && fd.Body != nil {
			return fd
		}
	}
	return nil
}

func exprStr(e ast.Expr) string {
	switch x := e.(type) {
	case *ast.Ident:
		return x.Name
	case *ast.SelectorExpr:
		return exprStr(x.X) + "." + x.Sel.Name
	case *ast.BasicLit:
		return x.Value
	case *ast.CallExpr:
		return exprStr(x.Fun) + "()"
	case *ast.StarExpr:
		return "*" + exprStr(x.X)
	case *ast.ParenExpr:
		return exprStr(x.X)
	case *ast.UnaryExpr:
		return x.Op.String() + exprStr(x.X)
	}
	return "?"
}

func unq(s string) string {
	if u, err := strconv.Unquote(s); err == nil {
		return u
	}
	return s
}

// firstReturnIdent: the first result of the first `return` among the statements
func firstReturnIdent(body []ast.Stmt) string {
	for _, s := range body {
		if r, ok := s.(*ast.ReturnStmt); ok && len(r.Results) > 0 {
			return exprStr(r.Results[0])
		}
	}
	return "?"
}

type pair struct{ a, b string }

// caseTable: the rows (case literal, f(body)) of a switch statement, and f(default body)
func caseTable(sw *ast.SwitchStmt, f func([]ast.Stmt) string) (rows []pair, dflt string) {
	dflt = "?"
	for _, s := range sw.Body.List {
		cc, ok := s.(*ast.CaseClause)
		if !ok {
			continue
		}
		if cc.List == nil {
			dflt = f(cc.Body)
			continue
		}
		for _, e := range cc.List {
			rows = append(rows, pair{unq(exprStr(e)), f(cc.Body)})
		}
	}
	return
}

// switchOn: the first switch statement below n whose tag prints as one of `tags`
func switchOn(n ast.Node, tags ...string) *ast.SwitchStmt {
	var found *ast.SwitchStmt
	ast.Inspect(n, func(m ast.Node) bool {
		if sw, ok := m.(*ast.SwitchStmt); ok && found == nil && sw.Tag != nil {
			for _, t := range tags {
				if exprStr(sw.Tag) == t {
					found = sw
				}
			}
		}
		return found == nil
	})
	return found
}

// charsCompared: the character literals x of the comparisons `ch <op> 'x'` below n, in source order
func charsCompared(n ast.Node, op token.Token) (out []string) {
	ast.Inspect(n, func(m ast.Node) bool {
		if be, ok := m.(*ast.BinaryExpr); ok && be.Op == op {
			if bl, ok := be.Y.(*ast.BasicLit); ok && bl.Kind == token.CHAR {
				out = append(out, bl.Value)
			}
		}
		return true
	})
	return
}

func callsTo(n ast.Node, names ...string) (out []string) {
	ast.Inspect(n, func(m ast.Node) bool {
		if ce, ok := m.(*ast.CallExpr); ok {
			s := exprStr(ce.Fun)
			for _, nm := range names {
				if s == nm || strings.HasSuffix(s, "."+nm) {
					out = append(out, nm)
				}
			}
		}
		return true
	})
	return
}

type tables struct {
	keywords                []pair
	kwDefault               string
	switchUpper             bool
	intBase, intBits        string
	punct                   []pair
	identStops, wsChars     []string
	identNegWs              bool
	xmlTags                 [][3]string
	nameOrder               []string
	supportGuard            string
	supportProbes           []bool
	formatConsts            []string
	multiReaders, firstRead []pair
	formatFlags             []pair
	formatDefault           string
	reformat                [][4]string // file, writer, reader, flag defaults
	translateDefault        string
	reformatFlagDefaults    []pair
}

func extract(repo string) (*tables, error) {
	t := &tables{}
	// ---- lexer
	lx, err := parseGo(repo, "io/nexus/nexus_lexer.go")
	if err != nil {
		return nil, err
	}
	si := funcNamed(lx, "scanIdent")
	if si == nil {
		return nil, fmt.Errorf("scanIdent not found")
	}
	sw := switchOn(si, "strings.ToUpper()", "strings.ToLower()", "buf.String()")
	if sw == nil {
		return nil, fmt.Errorf("scanIdent: keyword switch not found")
	}
	t.switchUpper = exprStr(sw.Tag) == "strings.ToUpper()"
	t.keywords, t.kwDefault = caseTable(sw, firstReturnIdent)
	t.intBase, t.intBits = "?", "?"
	ast.Inspect(si, func(m ast.Node) bool {
		if ce, ok := m.(*ast.CallExpr); ok && exprStr(ce.Fun) == "strconv.ParseInt" && len(ce.Args) == 3 {
			t.intBase, t.intBits = exprStr(ce.Args[1]), exprStr(ce.Args[2])
		}
		return true
	})
	sc := funcNamed(lx, "Scan")
	if sc == nil {
		return nil, fmt.Errorf("Scan not found")
	}
	if sw2 := switchOn(sc, "ch"); sw2 != nil {
		t.punct, _ = caseTable(sw2, firstReturnIdent)
	}
	tk, err := parseGo(repo, "io/nexus/nexus_token.go")
	if err != nil {
		return nil, err
	}
	ii, iw := funcNamed(tk, "isIdent"), funcNamed(tk, "isWhitespace")
	if ii == nil || iw == nil {
		return nil, fmt.Errorf("isIdent / isWhitespace not found")
	}
	t.identStops = charsCompared(ii, token.NEQ)
	t.wsChars = charsCompared(iw, token.EQL)
	ast.Inspect(ii, func(m ast.Node) bool {
		if u, ok := m.(*ast.UnaryExpr); ok && u.Op == token.NOT && exprStr(u.X) == "isWhitespace()" {
			t.identNegWs = true
		}
		return true
	})
	// ---- phyloxml
	px, err := parseGo(repo, "io/phyloxml/phyloxml.go")
	if err != nil {
		return nil, err
	}
	for _, d := range px.Decls {
		gd, ok := d.(*ast.GenDecl)
		if !ok || gd.Tok != token.TYPE {
			continue
		}
		for _, s := range gd.Specs {
			ts := s.(*ast.TypeSpec)
			st, ok := ts.Type.(*ast.StructType)
			if !ok {
				continue
			}
			for _, fl := range st.Fields.List {
				tag := ""
				if fl.Tag != nil {
					tag = reflectTag(unq(fl.Tag.Value))
				}
				for _, nm := range fl.Names {
					t.xmlTags = append(t.xmlTags, [3]string{ts.Name.Name, nm.Name, tag})
				}
			}
		}
	}
	ct := funcNamed(px, "cladeToTree")
	if ct == nil {
		return nil, fmt.Errorf("cladeToTree not found")
	}
	// the if / else-if chain whose branches call newNode.SetName
	for _, s := range ct.Body.List {
		is, ok := s.(*ast.IfStmt)
		if !ok || len(callsTo(is.Body, "SetName")) == 0 {
			continue
		}
		for is != nil {
			arg := "?"
			ast.Inspect(is.Body, func(m ast.Node) bool {
				if ce, ok := m.(*ast.CallExpr); ok && strings.HasSuffix(exprStr(ce.Fun), ".SetName") && len(ce.Args) == 1 {
					arg = exprStr(ce.Args[0])
				}
				return true
			})
			cond := "?"
			if be, ok := is.Cond.(*ast.BinaryExpr); ok {
				cond = exprStr(be.X) + " " + be.Op.String() + " " + exprStr(be.Y)
			}
			t.nameOrder = append(t.nameOrder, cond+" => "+arg)
			next, _ := is.Else.(*ast.IfStmt)
			is = next
		}
		break
	}
	// the comparison of len(…) with a literal among the conditions that enclose the call of SetSupport
	// (written as nested ifs or as one conjunction: the same row)
	t.supportGuard = "?"
	ast.Inspect(ct, func(m ast.Node) bool {
		is, ok := m.(*ast.IfStmt)
		if !ok || len(callsTo(is.Body, "SetSupport")) == 0 || t.supportGuard != "?" {
			return true
		}
		ast.Inspect(is.Cond, func(k ast.Node) bool {
			be, ok := k.(*ast.BinaryExpr)
			if !ok || t.supportGuard != "?" {
				return true
			}
			if ce, ok := be.X.(*ast.CallExpr); ok && exprStr(ce.Fun) == "len" && len(ce.Args) == 1 {
				t.supportGuard = "len(" + exprStr(ce.Args[0]) + ") " + be.Op.String() + " " + exprStr(be.Y)
				// the comparison evaluated on probes len = 0, 1, 2, 3: an equivalent spelling (>= 1, != 0) gives the same row
				if lit, err := strconv.Atoi(exprStr(be.Y)); err == nil {
					t.supportProbes = nil
					for n := 0; n <= 3; n++ {
						var v bool
						switch be.Op {
						case token.GTR:
							v = n > lit
						case token.GEQ:
							v = n >= lit
						case token.NEQ:
							v = n != lit
						case token.EQL:
							v = n == lit
						case token.LSS:
							v = n < lit
						case token.LEQ:
							v = n <= lit
						}
						t.supportProbes = append(t.supportProbes, v)
					}
				}
			}
			return true
		})
		return true
	})
	// ---- readtrees.go
	rt, err := parseGo(repo, "io/utils/readtrees.go")
	if err != nil {
		return nil, err
	}
	for _, d := range rt.Decls {
		if gd, ok := d.(*ast.GenDecl); ok && gd.Tok == token.CONST {
			for i, s := range gd.Specs {
				vs := s.(*ast.ValueSpec)
				for _, nm := range vs.Names {
					v := ""
					if i == 0 && len(vs.Values) == 1 {
						v = "=" + exprStr(vs.Values[0])
					} else if len(vs.Values) > 0 {
						v = "=" + exprStr(vs.Values[0])
					}
					t.formatConsts = append(t.formatConsts, nm.Name+v)
				}
			}
		}
	}
	parserOf := func(body []ast.Stmt) string {
		found := "?"
		for _, s := range body {
			ast.Inspect(s, func(m ast.Node) bool {
				if ce, ok := m.(*ast.CallExpr); ok && found == "?" {
					f := exprStr(ce.Fun)
					if strings.HasSuffix(f, ".NewParser") || f == "fileutils.ReadUntilSemiColon" {
						found = f
					}
				}
				return true
			})
		}
		return found
	}
	for _, nm := range []string{"ReadMultiTrees", "ReadTreeReader"} {
		fd := funcNamed(rt, nm)
		if fd == nil {
			return nil, fmt.Errorf("%s not found", nm)
		}
		sw := switchOn(fd, "format")
		if sw == nil {
			return nil, fmt.Errorf("%s: switch format not found", nm)
		}
		rows, d := caseTable(sw, parserOf)
		rows = append(rows, pair{"default", d})
		if nm == "ReadMultiTrees" {
			t.multiReaders = rows
		} else {
			t.firstRead = rows
		}
	}
	// ---- cmd/root.go
	root, err := parseGo(repo, "cmd/root.go")
	if err != nil {
		return nil, err
	}
	swf := switchOn(root, "rootInputFormat")
	if swf == nil {
		return nil, fmt.Errorf("cmd/root.go: switch rootInputFormat not found")
	}
	assigned := func(body []ast.Stmt) string {
		for _, s := range body {
			if as, ok := s.(*ast.AssignStmt); ok && len(as.Lhs) == 1 && exprStr(as.Lhs[0]) == "treeformat" {
				return strings.TrimPrefix(exprStr(as.Rhs[0]), "utils.")
			}
		}
		return "?"
	}
	t.formatFlags, t.formatDefault = caseTable(swf, assigned)
	// ---- cmd/reformat*.go
	for _, fn := range []string{"reformatnewick.go", "reformatnexus.go", "reformatphyloxml.go"} {
		f, err := parseGo(repo, "cmd/"+fn)
		if err != nil {
			return nil, err
		}
		w := strings.Join(callsTo(f, "WriteNexus", "WritePhyloXML", "Newick", "Nexus"), "+")
		r := strings.Join(callsTo(f, "readTrees", "readTree"), "+")
		arg := ""
		ast.Inspect(f, func(m ast.Node) bool {
			if ce, ok := m.(*ast.CallExpr); ok && strings.HasSuffix(exprStr(ce.Fun), ".WriteNexus") && len(ce.Args) == 2 {
				arg = exprStr(ce.Args[1])
			}
			return true
		})
		flags := ""
		ast.Inspect(f, func(m ast.Node) bool {
			if ce, ok := m.(*ast.CallExpr); ok && strings.HasSuffix(exprStr(ce.Fun), ".BoolVar") && len(ce.Args) >= 3 {
				flags += unq(exprStr(ce.Args[1])) + "=" + exprStr(ce.Args[2]) + ":" + exprStr(ce.Args[0])
			}
			return true
		})
		t.reformat = append(t.reformat, [4]string{fn, w, r, arg + "|" + flags})
	}
	rf, err := parseGo(repo, "cmd/reformat.go")
	if err != nil {
		return nil, err
	}
	ast.Inspect(rf, func(m ast.Node) bool {
		if ce, ok := m.(*ast.CallExpr); ok && strings.HasSuffix(exprStr(ce.Fun), ".StringVarP") && len(ce.Args) >= 4 {
			t.reformatFlagDefaults = append(t.reformatFlagDefaults,
				pair{unq(exprStr(ce.Args[1])) + "/" + unq(exprStr(ce.Args[2])) + ":" + exprStr(ce.Args[0]), unq(exprStr(ce.Args[3]))})
		}
		return true
	})
	return t, nil
}

// reflectTag: the value of the key `xml` in a struct tag
func reflectTag(tag string) string {
	i := strings.Index(tag, `xml:"`)
	if i < 0 {
		return ""
	}
	rest := tag[i+5:]
	j := strings.Index(rest, `"`)
	if j < 0 {
		return ""
	}
	return rest[:j]
}

func leanStr(s string) string {
	var b strings.Builder
	b.WriteByte('"')
	for _, r := range s {
		switch {
		case r == '"':
			b.WriteString("\\\"")
		case r == '\\':
			b.WriteString("\\\\")
		case r == '\n':
			b.WriteString("\\n")
		case r == '\r':
			b.WriteString("\\r")
		case r == '\t':
			b.WriteString("\\t")
		case r < 0x20:
			fmt.Fprintf(&b, "\\x%02x", r)
		default:
			b.WriteRune(r)
		}
	}
	b.WriteByte('"')
	return b.String()
}

// leanChars: one-character strings as a Lean list of Char literals
func leanChars(ss []string) string {
	var xs []string
	for _, s := range ss {
		r := []rune(s)
		if len(r) != 1 {
			xs = append(xs, "'?'")
			continue
		}
		switch c := r[0]; {
		case c == '\n':
			xs = append(xs, `'\n'`)
		case c == '\r':
			xs = append(xs, `'\r'`)
		case c == '\t':
			xs = append(xs, `'\t'`)
		case c == '\'':
			xs = append(xs, `'\''`)
		case c == '\\':
			xs = append(xs, `'\\'`)
		case c < 0x20 || c == 0x7f:
			xs = append(xs, fmt.Sprintf("'\\x%02x'", c))
		default:
			xs = append(xs, "'"+string(c)+"'")
		}
	}
	return "[" + strings.Join(xs, ", ") + "]"
}

func leanPairs(ps []pair) string {
	var xs []string
	for _, p := range ps {
		xs = append(xs, "("+leanStr(p.a)+", "+leanStr(p.b)+")")
	}
	return "[" + strings.Join(xs, ",\n   ") + "]"
}

func leanStrs(ss []string) string {
	var xs []string
	for _, s := range ss {
		xs = append(xs, leanStr(s))
	}
	return "[" + strings.Join(xs, ", ") + "]"
}

// goCharLits: Go character literals ('[' '\r' …) as the Lean strings of their values
func goCharVals(ss []string) []string {
	var out []string
	for _, s := range ss {
		if !strings.HasPrefix(s, "'") {
			out = append(out, s)
		} else if r, _, _, err := strconv.UnquoteChar(strings.Trim(s, "'"), '\''); err == nil {
			out = append(out, string(r))
		} else {
			out = append(out, s)
		}
	}
	return out
}

// GenTables is called by `vh gen-tables`.
func GenTables(repo, out string) error {
	t, err := extract(repo)
	if err != nil {
		return err
	}
	var b strings.Builder
	b.WriteString("-- GENERATED by harness/c13/extract.go (vh gen-tables) from io/nexus/nexus_lexer.go, io/nexus/nexus_token.go,\n")
	b.WriteString("-- io/phyloxml/phyloxml.go, io/utils/readtrees.go, cmd/root.go, cmd/reformat*.go of the working tree; do not edit\n")
	b.WriteString("namespace Gotree.Gen.C13\n\n")
	w := func(doc, name, ty, val string) {
		fmt.Fprintf(&b, "/-- %s -/\ndef %s : %s :=\n  %s\n\n", doc, name, ty, val)
	}
	w("scanIdent: `switch strings.ToUpper(buf.String())`: case literal, token returned", "lexerKeywords", "List (String × String)", leanPairs(t.keywords))
	w("token of the default branch of that switch", "lexerDefault", "String", leanStr(t.kwDefault))
	w("the switch is on strings.ToUpper of the literal", "lexerSwitchOnToUpper", "Bool", strconv.FormatBool(t.switchUpper))
	w("base and bit size handed to strconv.ParseInt in scanIdent", "lexerParseInt", "String × String", "("+leanStr(t.intBase)+", "+leanStr(t.intBits)+")")
	var punct []pair
	for _, p := range t.punct {
		punct = append(punct, pair{strings.Join(goCharVals([]string{p.a}), ""), p.b})
	}
	w("Scan: `switch ch`: character, token returned (the case `eof` is the identifier eof)", "lexerPunct", "List (String × String)", leanPairs(punct))
	w("isIdent: the characters x of the conjuncts `ch != 'x'`", "identStops", "List Char", leanChars(goCharVals(t.identStops)))
	w("isIdent ends with `!isWhitespace(ch)`", "identExcludesWhitespace", "Bool", strconv.FormatBool(t.identNegWs))
	w("isWhitespace: the characters x of the disjuncts `ch == 'x'`", "whitespaceChars", "List Char", leanChars(goCharVals(t.wsChars)))
	var tags []string
	for _, x := range t.xmlTags {
		tags = append(tags, "("+leanStr(x[0])+", "+leanStr(x[1])+", "+leanStr(x[2])+")")
	}
	w("io/phyloxml: struct, field, value of its `xml` tag", "xmlTags", "List (String × String × String)", "["+strings.Join(tags, ",\n   ")+"]")
	w("cladeToTree: the if / else-if chain that names the node: `condition => argument of SetName`", "cladeNameOrder", "List String", leanStrs(t.nameOrder))
	w("cladeToTree: the guard around SetSupport", "supportGuard", "String", leanStr(t.supportGuard))
	var pr []string
	for _, v := range t.supportProbes {
		pr = append(pr, strconv.FormatBool(v))
	}
	w("that guard evaluated for len = 0, 1, 2, 3 (empty when it is not a comparison with an integer literal)", "supportGuardProbes", "List Bool", "["+strings.Join(pr, ", ")+"]")
	w("io/utils/readtrees.go: the constants of the const block, in order", "formatConsts", "List String", leanStrs(t.formatConsts))
	w("ReadMultiTrees: `switch format`: case, first parser entry called in it", "multiReaders", "List (String × String)", leanPairs(t.multiReaders))
	w("ReadTreeReader: `switch format`: case, first parser entry called in it", "firstReaders", "List (String × String)", leanPairs(t.firstRead))
	w("cmd/root.go PersistentPreRun: `switch rootInputFormat`: flag value, constant assigned to treeformat", "formatFlags", "List (String × String)", leanPairs(t.formatFlags))
	w("constant assigned in the default branch", "formatDefault", "String", leanStr(t.formatDefault))
	var rf []string
	for _, x := range t.reformat {
		rf = append(rf, "("+leanStr(x[0])+", "+leanStr(x[1])+", "+leanStr(x[2])+", "+leanStr(x[3])+")")
	}
	w("cmd/reformat<out>.go: file, writer calls, reader calls, `second argument of WriteNexus|bool flags name=default:variable`", "reformatGlue", "List (String × String × String × String)", "["+strings.Join(rf, ",\n   ")+"]")
	w("cmd/reformat.go: the persistent string flags `long/short:variable`, default", "reformatFlags", "List (String × String)", leanPairs(t.reformatFlagDefaults))
	b.WriteString("end Gotree.Gen.C13\n")
	path := filepath.Join(out, "C13Tables.lean")
	if old, err := os.ReadFile(path); err == nil && string(old) == b.String() {
		return nil
	}
	return os.WriteFile(path, []byte(b.String()), 0644)
}

// SourceKeywords: the case literals of the lexer's keyword switch in the working tree (lower case), for the
// generator of keyword labels; nil when the source cannot be read.
func SourceKeywords(repo string) []string {
	t, err := extract(repo)
	if err != nil {
		return nil
	}
	var out []string
	for _, p := range t.keywords {
		out = append(out, strings.ToLower(p.a))
	}
	return out
}

// SourceFormatFlags: the case literals of the switch on rootInputFormat in the working tree.
func SourceFormatFlags(repo string) []string {
	t, err := extract(repo)
	if err != nil {
		return nil
	}
	var out []string
	for _, p := range t.formatFlags {
		out = append(out, p.a)
	}
	return out
}
