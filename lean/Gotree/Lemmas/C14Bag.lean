/-
  C14 (round 7) — lemmas about the `TipBag` model (`Model/C14Go.lean: addTip, bagNames`;
  `Model/C14Bag.lean: bagRun, bagAfter`) and about the ids `ToDistanceMatrix` leaves behind.
-/
import Gotree.Model.C14Bag
import Gotree.Lemmas.C14Walk5

namespace Gotree.C14
open Gotree Gotree.C14.Go

/-- the keys of the map -/
def bagKeys (b : Bag) : List String := b.map (·.1)

theorem bag_lookup_none_of_not_mem : ∀ (b : Bag) (k : String), k ∉ bagKeys b → b.lookup k = none
  | [], _, _ => rfl
  | (k', v) :: r, k, h => by
    have hk : k ≠ k' := fun e => h (by simp [bagKeys, e])
    have hr : k ∉ bagKeys r := fun m => h (by simp [bagKeys] at m ⊢; exact Or.inr m)
    have hb : (k == k') = false := by simpa using hk
    simp [List.lookup, hb, bag_lookup_none_of_not_mem r k hr]

theorem bag_not_mem_of_lookup_none : ∀ (b : Bag) (k : String), b.lookup k = none → k ∉ bagKeys b
  | [], _, _ => by simp [bagKeys]
  | (k', v) :: r, k, h => by
    by_cases hk : k = k'
    · subst hk; simp [List.lookup] at h
    · have hb : (k == k') = false := by simpa using hk
      have h' : r.lookup k = none := by simpa [List.lookup, hb] using h
      have := bag_not_mem_of_lookup_none r k h'
      simp only [bagKeys, List.map_cons, List.mem_cons, not_or]
      exact ⟨hk, this⟩

theorem bag_lookup_append_new : ∀ (b : Bag) (k : String) (v : Nat), b.lookup k = none → (b ++ [(k, v)]).lookup k = some v
  | [], k, v, _ => by simp [List.lookup]
  | (k', v') :: r, k, v, h => by
    by_cases hk : k = k'
    · subst hk; simp [List.lookup] at h
    · have hb : (k == k') = false := by simpa using hk
      have h' : r.lookup k = none := by simpa [List.lookup, hb] using h
      simp [List.lookup, hb, bag_lookup_append_new r k v h']

/-- what `AddTip` does on a node that exists: the three outcomes of the Go text -/
theorem addTip_cases (g : G) (b : Bag) (t : Nat) (nd : GNode) (hn : g.nodes[t]? = some nd) :
    addTip g b t =
      (if nd.neigh.length != 1 then .error "Internal node given to TipBag.AddTip" else
       match b.lookup nd.name with
       | none => .ok (b ++ [(nd.name, t)])
       | some n => if n != t then .error "TipBag.AddTip: TipBag already contains another tip of the tree having the same name: May be several tips have the same name?" else .ok b) := by
  unfold addTip; rw [hn]; rfl

/-- `AddTip` of a tip that is already in the bag changes nothing: "If the same tip is already present: do nothing" -/
theorem addTip_idem (g : G) (b b' : Bag) (t : Nat) (h : addTip g b t = .ok b') : addTip g b' t = .ok b' := by
  cases hn : g.nodes[t]? with
  | none => simp [addTip, hn] at h
  | some nd =>
    rw [addTip_cases g b t nd hn] at h
    rw [addTip_cases g b' t nd hn]
    by_cases h1 : nd.neigh.length != 1
    · simp [h1] at h
    · simp only [h1, Bool.false_eq_true, if_false] at h ⊢
      cases hl : b.lookup nd.name with
      | none =>
        rw [hl] at h
        have hb : b' = b ++ [(nd.name, t)] := by injection h with h; exact h.symm
        rw [hb, bag_lookup_append_new b nd.name t hl]
        simp
      | some n =>
        rw [hl] at h
        by_cases hnt : n != t
        · simp [hnt] at h
        · simp only [hnt, Bool.false_eq_true, if_false] at h
          have hb : b' = b := by injection h with h; exact h.symm
          rw [hb, hl]; simp [hnt]

/-- a Go map has pairwise distinct keys: `AddTip` keeps it so -/
theorem addTip_keys_nodup (g : G) (b b' : Bag) (t : Nat) (hk : (bagKeys b).Nodup) (h : addTip g b t = .ok b') :
    (bagKeys b').Nodup := by
  cases hn : g.nodes[t]? with
  | none => simp [addTip, hn] at h
  | some nd =>
    rw [addTip_cases g b t nd hn] at h
    by_cases h1 : nd.neigh.length != 1
    · simp [h1] at h
    · simp only [h1, Bool.false_eq_true, if_false] at h
      cases hl : b.lookup nd.name with
      | none =>
        rw [hl] at h
        have hb : b' = b ++ [(nd.name, t)] := by injection h with h; exact h.symm
        have hnm := bag_not_mem_of_lookup_none b nd.name hl
        rw [hb]
        simp only [bagKeys, List.map_append, List.map_cons, List.map_nil]
        refine List.nodup_append.2 ⟨hk, by simp, ?_⟩
        intro a ha c hc
        simp only [List.mem_singleton] at hc
        subst hc
        intro e; subst e; exact hnm ha
      | some n =>
        rw [hl] at h
        by_cases hnt : n != t
        · simp [hnt] at h
        · simp only [hnt, Bool.false_eq_true, if_false] at h
          have hb : b' = b := by injection h with h; exact h.symm
          rw [hb]; exact hk

/-- every bag a script of calls can reach has pairwise distinct names -/
theorem bagAfter_keys_nodup (g : G) : ∀ (ops : List BagOp) (b : Bag), (bagKeys b).Nodup → (bagKeys (bagAfter g ops b)).Nodup
  | [], b, h => h
  | .add none :: r, b, h => by simp only [bagAfter]; exact bagAfter_keys_nodup g r b h
  | .add (some n) :: r, b, h => by
    simp only [bagAfter]
    cases ha : addTip g b n with
    | ok b' => exact bagAfter_keys_nodup g r b' (addTip_keys_nodup g b b' n h ha)
    | error e => exact bagAfter_keys_nodup g r b h
  | .clear :: r, b, _ => by simp only [bagAfter]; exact bagAfter_keys_nodup g r [] (by simp [bagKeys])
  | .size :: r, b, h => by simp only [bagAfter]; exact bagAfter_keys_nodup g r b h
  | .tips :: r, b, h => by simp only [bagAfter]; exact bagAfter_keys_nodup g r b h

/-- `Tips()` lists every key once, sorted: as many names as `Size()` says -/
theorem bagNames_length (b : Bag) : (bagNames b).length = b.length := by
  unfold bagNames
  rw [(insSort_perm _ _).length_eq, List.length_map]

theorem bagNames_perm (b : Bag) : (bagNames b).Perm (bagKeys b) := insSort_perm _ _

theorem bagNames_sorted (b : Bag) : (bagNames b).Pairwise (fun x y => x ≤ y) := by
  have h := insSort_sorted (fun (s : String) => s) (b.map (fun (x : String × Nat) => x.1))
  unfold bagNames
  exact h

/-- the ids `ToDistanceMatrix` leaves on the tips: the tip of row `j` has id `j` -/
theorem ids_after_matrix (t : T) (hu : t.tipNames.Nodup) (j : Nat)
    (hj : j < (sortTips (G.ofT t) (G.ofT t).tips).length) :
    (setIds (G.ofT t).nodes.size (sortTips (G.ofT t) (G.ofT t).tips)).getD ((sortTips (G.ofT t) (G.ofT t).tips)[j]) 0 = j := by
  have hnames : (G.ofT t).tips.map (G.ofT t).name = t.tipNames := tips_names_ofT t
  have hnamesN : ((G.ofT t).tips.map (G.ofT t).name).Nodup := by rw [hnames]; exact hu
  have htipsN : (G.ofT t).tips.Nodup := nodup_of_map (G.ofT t).name hnamesN
  have hperm : (sortTips (G.ofT t) (G.ofT t).tips).Perm (G.ofT t).tips := insSort_perm _ _
  exact setIds_get _ _ (hperm.nodup_iff.2 htipsN) (fun x hx => tips_lt_size t x (hperm.mem_iff.1 hx)) j hj

end Gotree.C14
