/-
  C16 — the remaining constructors of treegen.go return what they must (helper lemmas).
-/
import Gotree.Spec.C16Extra
import Gotree.Lemmas.C16Oracle
import Gotree.Lemmas.C04Idx

namespace Gotree.C16
open Gotree

/-! ### lists of tips hanging on one node -/

theorem leavesL_tips (f : String → EdgeD) : ∀ (l : List String), leavesL (l.map fun x => (f x, T.leaf x)) = l
  | [] => rfl
  | a :: r => by
    have ih := leavesL_tips f r
    simp only [List.map_cons, leavesL, T.leaf, T.leaves] at ih ⊢
    rw [ih]; simp

theorem all_leaf_tips (f : String → EdgeD) (l : List String) :
    (l.map fun x => (f x, T.leaf x)).all (fun et => et.2.isLeaf) = true := by
  simp [List.all_map, T.leaf, T.isLeaf]

theorem edgesAllL_tips (p : EdgeD → Bool) (f : String → EdgeD) (h : ∀ x, p (f x) = true) :
    ∀ (l : List String), edgesAllL p (l.map fun x => (f x, T.leaf x)) = true
  | [] => rfl
  | a :: r => by
    have ih := edgesAllL_tips p f h r
    simp only [List.map_cons, edgesAllL, edgesAllT, T.leaf] at ih ⊢
    rw [ih]; simp [h a]

theorem edges_all_eq (p : EdgeD → Bool) (t : T) : t.edges.all p = edgesAllL p t.kids := by
  unfold T.edges T.splits
  rw [List.all_map]
  exact splitsL_all p t.kids

/-! ### stars -/

theorem starOf_kids (l : List (Rat × String)) :
    (starOf l).kids = l.map fun x => (newEdge x.1, T.leaf x.2) := rfl

theorem starIs_starOf (l : List (Rat × String)) : starIs (l.map fun x => (x.2, x.1)) (starOf l) = true := by
  unfold starIs starShape rootTips
  simp only [starOf_kids, List.length_map, beq_self_eq_true, Bool.true_and, List.all_map, List.map_map, Bool.and_eq_true,
    beq_iff_eq]
  refine ⟨by simp [T.leaf, T.isLeaf], ?_⟩
  apply List.map_congr_left
  intro x _
  simp [T.leaf, T.name, newEdge]

theorem starOf_tipNames (l : List (Rat × String)) (h : 2 ≤ l.length) : (starOf l).tipNames = l.map (·.2) := by
  have hk : ((starOf l).kids.length == 1) = false := by simp [starOf_kids]; omega
  unfold T.tipNames
  rw [hk]
  simp only [Bool.false_eq_true, if_false, List.nil_append, starOf_kids]
  induction l with
  | nil => rfl
  | cons a r _ =>
    clear hk h
    induction (a :: r) with
    | nil => rfl
    | cons b s ih => simp only [List.map_cons, leavesL, T.leaf, T.leaves] at ih ⊢; rw [ih]; simp

theorem starFromNames_ok_lemma (names : List String) (h : 2 ≤ names.length) :
    ∃ o, starFromNames names = .ok o ∧ starFromNamesOK names o.t = true ∧ o.t.tipNames = names ∧
      (names.Nodup → o.index = some (sortNames names)) := by
  have h1 : ¬ names.length < 2 := by omega
  refine ⟨finishOut (starOf (names.map fun x => (1, x))), by simp [starFromNames, h1], ?_, ?_, ?_⟩
  · have := starIs_starOf (names.map fun x => ((1 : Rat), x))
    simpa [starFromNamesOK, finishOut, List.map_map, Function.comp_def] using this
  · have := starOf_tipNames (names.map fun x => ((1 : Rat), x)) (by simpa using h)
    simpa [finishOut, List.map_map, Function.comp_def] using this
  · intro hn
    have ht := starOf_tipNames (names.map fun x => ((1 : Rat), x)) (by simpa using h)
    have ht' : (starOf (names.map fun x => ((1 : Rat), x))).tipNames = names := by
      simpa [List.map_map, Function.comp_def] using ht
    simp [finishOut, updateTipIndex, ht', hasDup_false_of_nodup _ hn]

theorem starFromTree_ok_lemma (tin : T) (h : 2 ≤ (tipEdgesOf tin).length) (hn : ((tipEdgesOf tin).map (·.1)).Nodup) :
    ∃ o, starFromTree tin = .ok o ∧ starFromTreeOK tin o.t = true ∧ o.t.tipNames = (tipEdgesOf tin).map (·.1) := by
  have hlen : (tin.splits.filter (·.tip)).length = (tipEdgesOf tin).length := by simp [tipEdgesOf]
  have h1 : ¬ (tin.splits.filter (·.tip)).length < 2 := by omega
  have ht := starOf_tipNames ((tin.splits.filter (·.tip)).map fun s => (s.e.len, s.below.headD "")) (by simpa using (hlen ▸ h))
  have ht' : (starOf ((tin.splits.filter (·.tip)).map fun s => (s.e.len, s.below.headD ""))).tipNames =
      (tipEdgesOf tin).map (·.1) := by
    simpa [tipEdgesOf, List.map_map, Function.comp_def] using ht
  refine ⟨⟨starOf ((tin.splits.filter (·.tip)).map fun s => (s.e.len, s.below.headD "")),
    some (sortNames ((tipEdgesOf tin).map (·.1)))⟩, ?_, ?_, ht'⟩
  · simp only [starFromTree, h1, if_false, finishChecked, updateTipIndex, ht', hasDup_false_of_nodup _ hn,
      Bool.false_eq_true]
  · have := starIs_starOf ((tin.splits.filter (·.tip)).map fun s => (s.e.len, s.below.headD ""))
    simpa [starFromTreeOK, tipEdgesOf, List.map_map, Function.comp_def] using this

/-! ### one inner branch -/

def isOne (e : EdgeD) : Bool := e.len == 1

theorem twoStar_tipNames (left right : List String) (hl : 1 ≤ left.length) (hr : 1 ≤ right.length) :
    (twoStar left right).tipNames = right ++ left := by
  have hk : ((twoStar left right).kids.length == 1) = false := by
    simp only [twoStar, T.kids_node, List.length_cons, List.length_map, beq_eq_false_iff_ne, ne_eq]; omega
  unfold T.tipNames
  rw [hk]
  simp only [Bool.false_eq_true, if_false, List.nil_append, twoStar, T.kids_node, leavesL]
  rw [leaves_node_of_pos _ _ _ (by simp only [List.length_map]; omega), leavesL_tips, leavesL_tips]

theorem twoStarOK_twoStar (left right : List String) (hl : 1 ≤ left.length) (hr : 1 ≤ right.length) :
    twoStarOK left right (twoStar left right) = true := by
  unfold twoStarOK
  rw [twoStar_tipNames left right hl hr, edges_all_eq]
  have hp : (right ++ left).Perm (left ++ right) := List.perm_append_comm
  have he : edgesAllL (fun e => e.len == 1) (twoStar left right).kids = true := by
    simp only [twoStar, T.kids_node, edgesAllL, edgesAllT, Bool.and_eq_true]
    refine ⟨⟨by simp [newEdge], edgesAllL_tips _ _ (by intro x; simp [newEdge]) right⟩,
      edgesAllL_tips _ _ (by intro x; simp [newEdge]) left⟩
  rw [he]
  simp only [sameNames_of_perm _ _ hp, Bool.true_and, twoStar, T.kids_node, leavesL_tips,
    sameNames_of_perm _ _ (List.Perm.refl _), all_leaf_tips, Bool.and_true]
  cases right with
  | nil => simp at hr
  | cons a r => simp [T.isLeaf]

theorem bipartitionTree_ok_lemma (left right : List String) (hl : 2 ≤ left.length) (hr : 2 ≤ right.length)
    (hd : (left ++ right).Nodup) :
    ∃ o, bipartitionTree left right = .ok o ∧ twoStarOK left right o.t = true ∧ o.t.tipNames = right ++ left ∧
      o.index = some (sortNames (right ++ left)) := by
  have hdis := (List.nodup_append.mp hd).2.2
  have hany : right.any left.contains = false := by
    rw [List.any_eq_false]
    intro x hx hc
    simp only [List.contains_eq_mem, decide_eq_true_eq] at hc
    exact hdis x hc x hx rfl
  have hlen : (decide (left.length ≤ 1) || decide (right.length ≤ 1)) = false := by simp; omega
  have ht := twoStar_tipNames left right (by omega) (by omega)
  have hn : (right ++ left).Nodup := (List.perm_append_comm).nodup_iff.mp hd
  refine ⟨⟨twoStar left right, some (sortNames (right ++ left))⟩, ?_, twoStarOK_twoStar left right (by omega) (by omega), ht, rfl⟩
  simp only [bipartitionTree, hlen, hany, Bool.false_eq_true, if_false, finishChecked, updateTipIndex, ht,
    hasDup_false_of_nodup _ hn]

theorem edgeTree_ok_lemma (tin : T) (k : Nat) (hk : k < tin.splits.length) (hn : tin.tipNames.Nodup) :
    ∃ o, edgeTree tin k = .ok o ∧
      twoStarOK (tin.tipNames.filter fun x => !(tin.splits[k]).below.contains x)
        (tin.tipNames.filter fun x => (tin.splits[k]).below.contains x) o.t = true := by
  have hm : tin.splits[k] ∈ tin.splits := List.getElem_mem hk
  have hprop := C04.below_proper tin _ hm
  have hsub := (C04.below_sublist tin _ hm).subset
  -- something is below the branch …
  have hr : 1 ≤ (tin.tipNames.filter fun x => (tin.splits[k]).below.contains x).length := by
    obtain ⟨x, hx⟩ := List.exists_mem_of_length_pos hprop.1
    have : x ∈ tin.tipNames.filter fun x => (tin.splits[k]).below.contains x := by
      simp [List.mem_filter, hsub hx, hx]
    exact List.length_pos_of_mem this
  -- … and something is not
  have hl : 1 ≤ (tin.tipNames.filter fun x => !(tin.splits[k]).below.contains x).length := by
    apply Nat.pos_of_ne_zero
    intro h0
    have hnil := List.length_eq_zero_iff.mp h0
    have hall : tin.tipNames ⊆ (tin.splits[k]).below := by
      intro x hx
      have : x ∉ tin.tipNames.filter fun x => !(tin.splits[k]).below.contains x := by rw [hnil]; simp
      simp only [List.mem_filter, hx, true_and, Bool.not_eq_true', List.contains_eq_mem, decide_eq_false_iff_not] at this
      exact Classical.not_not.mp this
    have := hn.length_le_of_subset hall
    omega
  refine ⟨finishOut (twoStar (tin.tipNames.filter fun x => !(tin.splits[k]).below.contains x)
    (tin.tipNames.filter fun x => (tin.splits[k]).below.contains x)), by simp only [edgeTree, List.getElem?_eq_getElem hk], ?_⟩
  exact twoStarOK_twoStar _ _ hl hr

end Gotree.C16
