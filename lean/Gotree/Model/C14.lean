/-
  C14 — model of `ToDistanceMatrix` / `pathLengths` / `AvgDistanceMatrix`
  (tree/algo.go:672-770) and `CutEdgesMaxLength` (tree/tree.go:1997-2070).
-/
import Gotree.Model.Core

namespace Gotree.C14
open Gotree

inductive Metric | brlen | boots | none
  deriving DecidableEq, Repr

/-- what one branch contributes (`pathLengths`, the `switch metric`) -/
def Metric.w : Metric → EdgeD → Rat
  | .brlen, e => if e.len == NIL then 0 else e.len
  | .boots, e => if e.sup == NIL then 1 else e.sup
  | .none, _ => 1

/- `pathLengths(child, cur, …, curlength+l)` going away from the start tip,
   inside a subtree hanging below the path: every leaf gets the accumulated
   length. -/
mutual
def walkDown (w : EdgeD → Rat) : T → Rat → List (String × Rat)
  | .node d _ [], acc => [(d.name, acc)]
  | .node _ _ (k :: ks), acc => walkDownL w (k :: ks) acc
def walkDownL (w : EdgeD → Rat) : Kids → Rat → List (String × Rat)
  | [], _ => []
  | (e, t) :: r, acc => walkDown w t (acc + w e) ++ walkDownL w r acc
end

/- The same walk seen from the rose tree when the start tip `a` lies inside:
   `walkUp a t = some (d, res)` iff `a` is a leaf of `t`; `d` is the length
   accumulated when the walk reaches the top node of `t`, `res` what it wrote
   for the other leaves of `t`. -/
mutual
def walkUp (w : EdgeD → Rat) (a : String) : T → Option (Rat × List (String × Rat))
  | .node d _ [] => if d.name = a then some (0, []) else none
  | .node _ _ (k :: ks) => walkUpL w a (k :: ks)
def walkUpL (w : EdgeD → Rat) (a : String) : Kids → Option (Rat × List (String × Rat))
  | [] => none
  | (e, t) :: r =>
    match walkUp w a t with
    | some (d, res) => some (d + w e, res ++ walkDownL w r (d + w e))
    | none =>
      match walkUpL w a r with
      | some (d, res) => some (d, walkDown w t (d + w e) ++ res)
      | none => none
end

/-- everything the walk started at tip `a` writes: (tip, length) pairs -/
def row (w : EdgeD → Rat) (t : T) (a : String) : List (String × Rat) :=
  if t.kids.length == 1 && t.name == a then walkDownL w t.kids 0
  else match walkUpL w a t.kids with
    | some (d, res) => res ++ (if t.kids.length == 1 then [(t.name, d)] else [])
    | none => []

def sortNames (l : List String) : List String := l.mergeSort (fun a b => decide (a ≤ b))

/-- `ToDistanceMatrix`: tips sorted by name; row `i` is filled by the walk from
    tip `i`; the diagonal keeps its initial 0. -/
def matrix (m : Metric) (t : T) : List String × List (List Rat) :=
  let tips := sortNames t.tipNames
  (tips, tips.map fun a =>
    let r := row m.w t a
    tips.map fun b => if a == b then 0 else (r.lookup b).getD 0)

/-- `AvgDistanceMatrix`: entrywise sum divided by the number of trees; an error
    when the sorted tip names differ. -/
def addM (a b : List (List Rat)) : List (List Rat) :=
  List.zipWith (fun r s => List.zipWith (· + ·) r s) a b

def avgMatrix (m : Metric) : List T → Option (List String × List (List Rat))
  | [] => some ([], [])
  | t :: ts =>
    let (tips, m0) := matrix m t
    let rec go : List T → List (List Rat) → Option (List (List Rat))
      | [], acc => some acc
      | u :: us, acc =>
        let (tips2, m2) := matrix m u
        if tips2 == tips then go us (addM acc m2) else none
    match go ts m0 with
    | some s => some (tips, s.map fun r => r.map fun x => x / ((ts.length + 1 : Nat) : Rat))
    | none => none

/- ## cut -/

/- `comp thr t = (open, closed)`: `open` are the leaves of `t` connected to the
   top node of `t` through branches of length `< thr`; `closed` are the finished
   groups strictly inside.  (The order in which Go emits the bags — by first
   unvisited branch — is not modelled: the observation is the partition.) -/
mutual
def comp (thr : Rat) : T → List String × List (List String)
  | .node d _ [] => ([d.name], [])
  | .node _ _ (k :: ks) => compL thr (k :: ks)
def compL (thr : Rat) : Kids → List String × List (List String)
  | [] => ([], [])
  | (e, t) :: r =>
    let (o, c) := comp thr t
    let (o', c') := compL thr r
    if e.len < thr then (o ++ o', c ++ c')
    else (o', (if o.isEmpty then [] else [o]) ++ c ++ c')
end

/-- `CutEdgesMaxLength` as a partition of the tips (bags with no tip are dropped). -/
def cut (thr : Rat) (t : T) : List (List String) :=
  let (o, c) := compL thr t.kids
  let o := (if t.kids.length == 1 then [t.name] else []) ++ o
  (if o.isEmpty then [] else [o]) ++ c

end Gotree.C14
