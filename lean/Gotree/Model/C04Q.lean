/-
  C04 — model of `tree.Quartet` (tree/quartets.go): HashCode, Compare, HashEquals.
  Taxon indexes are `Nat` (Go: `uint` converted to `int` for the comparisons —
  the same order below 2^63, which tip indexes never reach).  Core Lean only.
-/
namespace Gotree.C04

structure Quartet where
  t1 : Nat
  t2 : Nat
  t3 : Nat
  t4 : Nat
  deriving DecidableEq, Repr

/-- the five conditional swaps of `HashCode` (a sorting network), as the code does them -/
def Quartet.sorted4 (q : Quartet) : Nat × Nat × Nat × Nat :=
  let (i1, i2) := if q.t2 < q.t1 then (q.t2, q.t1) else (q.t1, q.t2)
  let (i3, i4) := if q.t4 < q.t3 then (q.t4, q.t3) else (q.t3, q.t4)
  let (i1, i3) := if i3 < i1 then (i3, i1) else (i1, i3)
  let (i2, i4) := if i4 < i2 then (i4, i2) else (i2, i4)
  let (i3, i2) := if i3 < i2 then (i2, i3) else (i3, i2)
  (i1, i2, i3, i4)

/-- the pinned version (before fix cf649d5): the second pair is sorted the wrong way -/
def Quartet.sorted4Pinned (q : Quartet) : Nat × Nat × Nat × Nat :=
  let (i1, i2) := if q.t2 < q.t1 then (q.t2, q.t1) else (q.t1, q.t2)
  let (i3, i4) := if q.t3 < q.t4 then (q.t4, q.t3) else (q.t3, q.t4)
  let (i1, i3) := if i3 < i1 then (i3, i1) else (i1, i3)
  let (i2, i4) := if i4 < i2 then (i4, i2) else (i2, i4)
  let (i3, i2) := if i3 < i2 then (i2, i3) else (i3, i2)
  (i1, i2, i3, i4)

/-- `31*(31*(31*(31+i1)+i2)+i3)+i4` in `uint64` -/
def mix4 (s : Nat × Nat × Nat × Nat) : UInt64 :=
  31 * (31 * (31 * (31 + UInt64.ofNat s.1) + UInt64.ofNat s.2.1) + UInt64.ofNat s.2.2.1) + UInt64.ofNat s.2.2.2

def Quartet.hashCode (q : Quartet) : UInt64 := mix4 q.sorted4
def Quartet.hashCodePinned (q : Quartet) : UInt64 := mix4 q.sorted4Pinned

inductive QCmp | equals | conflict | diff
  deriving DecidableEq, Repr

/-- `Quartet.Compare`, test by test -/
def Quartet.compare (q q2 : Quartet) : QCmp :=
  if ((q.t1 == q2.t1 && q.t2 == q2.t2) || (q.t1 == q2.t2 && q.t2 == q2.t1)) &&
     ((q.t3 == q2.t3 && q.t4 == q2.t4) || (q.t3 == q2.t4 && q.t4 == q2.t3)) then .equals
  else if ((q.t1 == q2.t3 && q.t2 == q2.t4) || (q.t1 == q2.t4 && q.t2 == q2.t3)) &&
     ((q.t3 == q2.t1 && q.t4 == q2.t2) || (q.t3 == q2.t2 && q.t4 == q2.t1)) then .equals
  else if ((q.t3 == q2.t1 && q.t2 == q2.t2) || (q.t3 == q2.t2 && q.t2 == q2.t1)) &&
     ((q.t1 == q2.t3 && q.t4 == q2.t4) || (q.t1 == q2.t4 && q.t4 == q2.t3)) then .conflict
  else if ((q.t3 == q2.t3 && q.t2 == q2.t4) || (q.t3 == q2.t4 && q.t2 == q2.t3)) &&
     ((q.t1 == q2.t1 && q.t4 == q2.t2) || (q.t1 == q2.t2 && q.t4 == q2.t1)) then .conflict
  else if ((q.t4 == q2.t1 && q.t2 == q2.t2) || (q.t4 == q2.t2 && q.t2 == q2.t1)) &&
     ((q.t3 == q2.t3 && q.t1 == q2.t4) || (q.t3 == q2.t4 && q.t1 == q2.t3)) then .conflict
  else if ((q.t4 == q2.t3 && q.t2 == q2.t4) || (q.t4 == q2.t4 && q.t2 == q2.t3)) &&
     ((q.t3 == q2.t1 && q.t1 == q2.t2) || (q.t3 == q2.t2 && q.t1 == q2.t1)) then .conflict
  else .diff

/-- `Quartet.HashEquals` -/
def Quartet.hashEquals (q q2 : Quartet) : Bool := q.compare q2 != .diff

def Quartet.taxa (q : Quartet) : List Nat := [q.t1, q.t2, q.t3, q.t4]

def Quartet.distinct (q : Quartet) : Bool :=
  q.t1 != q.t2 && q.t1 != q.t3 && q.t1 != q.t4 && q.t2 != q.t3 && q.t2 != q.t4 && q.t3 != q.t4

end Gotree.C04
