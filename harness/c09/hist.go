package c09

// Round 7: input trees with a history.  core.Build hands Consensus trees that were never indexed;
// a caller's trees usually were (parsed, compared, annotated) and then modified through the API.
// Here every tree is built, indexed (ReinitIndexes), then modified by operations that leave the
// tip index, the branch bitsets, the hash codes and the depths STALE, and only then given to
// Consensus, which must re-index them itself:
//
//	P<i0>.<i1>…  the tips (Tips() order) are relabelled through Node.SetName with a permutation
//	             of their own names (tip j gets the name tip i_j had)
//	R<k>         Reroot at the k-th inner node (Nodes() order)
//	G<k>         a new tip "zz" is grafted (GraftTipOnEdge) on the k-th branch that has a length
//
//	C09.hist  kind  cutoff  floorGo  origdumps|  histories|  class  resultdump  inputdumps|
//
// `origdumps`: the trees as built; `histories`: one history per tree, each followed by '|', steps
// separated by ';'; `inputdumps`: the α dumps of the trees as Consensus receives them (after the
// history) — the collection the oracle and the model are applied to.
import (
	"fmt"
	"strconv"
	"strings"

	"verifharness/core"

	"github.com/evolbioinfo/gotree/tree"
)

func applyHistory(t *tree.Tree, h string) error {
	if err := t.ReinitIndexes(); err != nil {
		return err
	}
	for _, st := range strings.Split(h, ";") {
		if st == "" {
			continue
		}
		switch st[0] {
		case 'P':
			tips := t.Tips()
			names := make([]string, len(tips))
			for i, tp := range tips {
				names[i] = tp.Name()
			}
			idx := strings.Split(st[1:], ".")
			if len(idx) != len(tips) {
				return fmt.Errorf("history %q: %d tips", st, len(tips))
			}
			for i, tp := range tips {
				j, err := strconv.Atoi(idx[i])
				if err != nil || j < 0 || j >= len(names) {
					return fmt.Errorf("history %q", st)
				}
				tp.SetName(names[j])
			}
		case 'R':
			k, err := strconv.Atoi(st[1:])
			if err != nil {
				return err
			}
			var inner []*tree.Node
			for _, n := range t.Nodes() {
				if !n.Tip() {
					inner = append(inner, n)
				}
			}
			if len(inner) > 0 {
				if err := t.Reroot(inner[k%len(inner)]); err != nil {
					return err
				}
			}
		case 'G':
			k, err := strconv.Atoi(st[1:])
			if err != nil {
				return err
			}
			var es []*tree.Edge
			for _, e := range t.Edges() {
				if e.Length() >= 0 {
					es = append(es, e)
				}
			}
			if len(es) == 0 {
				return fmt.Errorf("no branch with a length to graft on")
			}
			n := t.NewNode()
			n.SetName("zz")
			if _, _, _, err := t.GraftTipOnEdge(n, es[k%len(es)]); err != nil {
				return err
			}
		default:
			return fmt.Errorf("unknown history step %q", st)
		}
	}
	return nil
}

// emitHist builds, indexes and modifies the trees, then runs Consensus on those very objects.
// A history that cannot be applied (or leaves a malformed tree) gives no case.
func emitHist(c *core.Ctx, kind string, ns []*core.N, hs []string, cutoff float64) {
	ch := make(chan tree.Trees, len(ns)+1)
	var inputs []*core.N
	for i, n := range ns {
		t, err := core.Build(n)
		if err != nil {
			panic(err)
		}
		var herr error
		if p, _ := core.Safe(func() { herr = applyHistory(t, hs[i]) }); p || herr != nil {
			return
		}
		back, wf := core.Alpha(t)
		if !wf.OK() {
			return
		}
		inputs = append(inputs, back)
		ch <- tree.Trees{Tree: t, Id: i}
	}
	close(ch)
	var cons *tree.Tree
	var err error
	class, res := "ok", ""
	if p, msg := core.Safe(func() { cons, err = tree.Consensus(ch, cutoff) }); p {
		class = "panic:" + core.Escape(msg)
	} else if err != nil {
		class = classify(err)
	} else {
		back, wf := core.Alpha(cons)
		if !wf.OK() {
			class = "malformed:" + core.Escape(strings.Join(wf.Problems, ";"))
		} else {
			res = back.Dump()
		}
	}
	c.Emit("C09.hist", kind, core.Rat(cutoff), fmt.Sprint(floorGo(cutoff, len(ns))), core.Dumps(ns),
		strings.Join(hs, "|")+"|", class, res, core.Dumps(inputs))
}

// permStep writes the relabelling of the tree's tips (Tips() order, as they are now) by the map sigma.
func permStep(t *tree.Tree, sigma map[string]string) (string, bool) {
	tips := t.Tips()
	pos := map[string]int{}
	for i, tp := range tips {
		pos[tp.Name()] = i
	}
	parts := make([]string, len(tips))
	for i, tp := range tips {
		j, ok := pos[sigma[tp.Name()]]
		if !ok {
			return "", false
		}
		parts[i] = strconv.Itoa(j)
	}
	return "P" + strings.Join(parts, "."), true
}

// genHist draws the histories while applying them to trial copies of the trees (a relabelling is
// written against the tips as they are at that point).  70% of the collections relabel every tree
// with the same permutation of the taxon names (the bipartitions the trees share stay shared),
// the others tree by tree.
func genHist(c *core.Ctx) {
	g := c.G
	funny = true
	ns, _ := collection(g)
	cutoff, ck := pickCutoff(g, len(ns))
	if ck == "nonfinite" {
		cutoff, ck = 0.5, "half"
	}
	graft := g.Chance(0.3)
	names := append([]string{}, ns[0].TipNames()...)
	if graft {
		names = append(names, "zz")
	}
	draw := func() map[string]string {
		m := map[string]string{}
		for i, j := range g.R.Perm(len(names)) {
			m[names[i]] = names[j]
		}
		return m
	}
	global := g.Chance(0.7)
	sigma1, sigma2 := draw(), draw()
	hs := make([]string, len(ns))
	for i, n := range ns {
		t, err := core.Build(n)
		if err != nil {
			panic(err)
		}
		var steps []string
		do := func(st string) bool {
			var herr error
			if p, _ := core.Safe(func() { herr = applyHistory(t, st) }); p || herr != nil {
				return false
			}
			steps = append(steps, st)
			return true
		}
		if g.Chance(0.3) && !do("R"+strconv.Itoa(g.Intn(50))) {
			return
		}
		if graft && !do("G"+strconv.Itoa(g.Intn(50))) {
			return
		}
		if g.Chance(0.8) {
			sg := sigma1
			if !global {
				sg = draw()
			}
			st, ok := permStep(t, sg)
			if !ok || !do(st) {
				return
			}
		}
		if g.Chance(0.3) && !do("R"+strconv.Itoa(g.Intn(50))) {
			return
		}
		if g.Chance(0.25) { // relabel once more
			sg := sigma2
			if !global {
				sg = draw()
			}
			st, ok := permStep(t, sg)
			if !ok || !do(st) {
				return
			}
		}
		hs[i] = strings.Join(steps, ";")
	}
	kind := "lib-hist-" + ck
	if global {
		kind += "-global"
	}
	emitHist(c, kind, ns, hs, cutoff)
}

func replayHist(c *core.Ctx, f []string) {
	cutoff, err := core.ParseRat(f[2])
	if err != nil {
		panic(err)
	}
	ns := parseDumps(f[4])
	hs := strings.Split(strings.TrimSuffix(f[5], "|"), "|")
	if len(hs) != len(ns) {
		panic("C09.hist: histories do not match the trees")
	}
	emitHist(c, f[1], ns, hs, cutoff)
}
