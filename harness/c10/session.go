package c10

// Sessions: several calls of FBP / TBE inside ONE process that share what the API lets them
// share — a *support.Supporter, the reference *tree.Tree object (annotated again and again) —
// and collections of hundreds of tiny trees under many threads.  Every call is reported as one
// C10.step line carrying the α dump of the reference just before it, so the driver judges
// each call on its own input: no state of an earlier call may leak into a later one.

import (
	"fmt"
	"math"
	"strings"

	"verifharness/core"

	"github.com/evolbioinfo/gotree/support"
	"github.com/evolbioinfo/gotree/tree"
)

type step struct {
	kind    string // fbp | tbe | tbe-noindex (TBE on a reference that was never indexed)
	threads int
	reroot  int // > 0: before the call the reference object is indexed and re-rooted, by the real Reroot, on its
	// inner node number reroot-1: the branch ids travel with the branches and are no longer in Edges() order
	boots []*core.N
}

type session struct {
	share string // sup | ref | sup+ref
	ref   *core.N
	steps []step
}

type stepResult struct{ out, before, after string }

func (s session) encode() string {
	var parts []string
	for _, st := range s.steps {
		parts = append(parts, fmt.Sprintf("%s^%d;%d;%s", st.kind, st.reroot, st.threads, core.Dumps(st.boots)))
	}
	return s.share + "@" + s.ref.Dump() + "@" + strings.Join(parts, "#")
}

func decodeSession(x string) (session, bool) {
	f := strings.SplitN(x, "@", 3)
	if len(f) != 3 {
		return session{}, false
	}
	ref, err := core.ParseDump(f[1])
	if err != nil {
		return session{}, false
	}
	s := session{share: f[0], ref: ref}
	for _, p := range strings.Split(f[2], "#") {
		g := strings.SplitN(p, ";", 3)
		if len(g) != 3 {
			return session{}, false
		}
		st := step{kind: g[0], boots: parseDumps(g[2])}
		if kr := strings.SplitN(g[0], "^", 2); len(kr) == 2 {
			st.kind = kr[0]
			fmt.Sscanf(kr[1], "%d", &st.reroot)
		}
		fmt.Sscanf(g[1], "%d", &st.threads)
		s.steps = append(s.steps, st)
	}
	return s, true
}

func dumpOrNan(t *tree.Tree) (string, string) {
	d, ok := afterDump(t)
	if !ok {
		return "panic:malformed-reference", ""
	}
	if d == "nan" {
		return "nan", ""
	}
	return "ok", d
}

func runSessionInproc(s session) []stepResult {
	var sup *support.Supporter
	if strings.Contains(s.share, "sup") {
		sup = support.NewSupporter()
	}
	var shared *tree.Tree
	if strings.Contains(s.share, "ref") {
		shared = build(s.ref)
	}
	var res []stepResult
	for _, st := range s.steps {
		t := shared
		if t == nil {
			t = build(s.ref)
		}
		if st.reroot > 0 {
			core.Safe(func() {
				if t.ReinitIndexes() != nil {
					return
				}
				var inner []*tree.Node
				for _, n := range t.Nodes() {
					if !n.Tip() && n != t.Root() {
						inner = append(inner, n)
					}
				}
				if len(inner) > 0 && len(t.Root().Neigh()) >= 3 {
					t.Reroot(inner[(st.reroot-1)%len(inner)])
				}
			})
		}
		ok, before := dumpOrNan(t)
		if ok != "ok" {
			// the previous call left something that is not a number: nothing sensible to judge from here on
			res = append(res, stepResult{out: "skip"})
			continue
		}
		ch := channel(st.boots)
		st := st
		out, _ := guarded(func() error {
			if st.kind == "fbp" {
				return support.FBP(t, ch, st.threads, sup)
			}
			if st.kind == "tbe-noindex" {
				_, err := support.TBE(t, ch, st.threads, false, false, false, 0.3, nil, sup)
				return err
			}
			if err := t.ReinitIndexes(); err != nil {
				return err
			}
			_, err := support.TBE(t, ch, st.threads, false, false, false, 0.3, nil, sup)
			return err
		})
		r := stepResult{out: out, before: before}
		if out == "ok" {
			r.out, r.after = dumpOrNan(t)
		}
		res = append(res, r)
		if out == "timeout" {
			break
		}
	}
	return res
}

func runSession(s session) []stepResult {
	if !useChild {
		return runSessionInproc(s)
	}
	if child == nil {
		child = startChild()
	}
	reply, ok := childRoundTrip("SESSION\t" + s.encode() + "\n")
	if !ok {
		var res []stepResult
		for range s.steps {
			res = append(res, stepResult{out: reply, before: s.ref.Dump()})
		}
		return res
	}
	var res []stepResult
	for _, p := range strings.Split(reply, "\t") {
		f := strings.Split(p, "@")
		for len(f) < 3 {
			f = append(f, "")
		}
		res = append(res, stepResult{out: f[0], before: f[1], after: f[2]})
	}
	return res
}

func sessionReply(s session) string {
	var parts []string
	for _, r := range runSessionInproc(s) {
		parts = append(parts, r.out+"@"+r.before+"@"+r.after)
	}
	return strings.Join(parts, "\t")
}

func doSession(c *core.Ctx, s session) {
	res := runSession(s)
	enc := s.encode()
	for i, st := range s.steps {
		if i >= len(res) || res[i].out == "skip" {
			continue
		}
		c.Emit("C10.step", st.kind, fmt.Sprint(st.threads), fmt.Sprint(i+1), s.share, res[i].before, core.Dumps(st.boots),
			res[i].out, res[i].after, enc)
	}
}

var shareKinds = []string{"sup", "sup+ref", "ref", "sup"}

func sessionCase(c *core.Ctx) {
	g := c.G
	saved := smallFirst
	smallFirst = g.Chance(0.5)
	funnyOKLib = true
	ref := refTree(c)
	funnyOKLib = false
	smallFirst = saved
	s := session{share: shareKinds[g.Intn(len(shareKinds))], ref: ref}
	n := 2 + g.Intn(2)
	for i := 0; i < n; i++ {
		st := step{kind: []string{"fbp", "tbe", "tbe"}[g.Intn(3)], threads: 1}
		if g.Chance(0.25) {
			st.threads = threadChoices[g.Intn(len(threadChoices))]
		}
		if g.Chance(0.4) {
			st.reroot = 1 + g.Intn(8)
		}
		if i == 0 && st.reroot == 0 && !strings.Contains(s.share, "ref") && g.Chance(0.3) {
			st.kind = "tbe-noindex"
		}
		for k := 1 + g.Intn(4); k > 0; k-- {
			st.boots = append(st.boots, bootTree(c, ref))
		}
		if g.Chance(0.08) {
			spoilTaxa(g, st.boots[g.Intn(len(st.boots))])
		}
		s.steps = append(s.steps, st)
	}
	doSession(c, s)
}

// manyTreesCase: hundreds of tiny bootstrap trees under 4 or 16 threads: what a lost update of a
// counter shared by the workers needs to show.
func manyTreesCase(c *core.Ctx) {
	g := c.G
	saved := smallFirst
	smallFirst = true
	ref := refTree(c)
	smallFirst = saved
	var variants []*core.N
	for v := 2 + g.Intn(4); v > 0; v-- {
		variants = append(variants, bootTree(c, ref))
	}
	coll := func() []*core.N {
		n := 400 + g.Intn(c.Scale(400, 600))
		boots := make([]*core.N, n)
		for i := range boots {
			boots[i] = variants[g.Intn(len(variants))]
		}
		return boots
	}
	if g.Chance(0.25) {
		// both functions, once
		doSupN(c, "lib", []int{4, 16}[g.Intn(2)], ref, coll()[:200])
		return
	}
	// FBP alone, three calls with 16 and 4 threads (a race does not show on every call)
	s := session{share: "sup", ref: ref}
	for _, th := range []int{16, 4, 16} {
		s.steps = append(s.steps, step{kind: "fbp", threads: th, boots: coll()})
	}
	doSession(c, s)
}

var _ = math.NaN
