/-
  C12 — ACCTRAN is sound: every state it reports at an inner node has second-pass cost
  equal to the global minimum (hence occurs there in a most parsimonious labelling).
-/
import Gotree.Lemmas.C12Root

namespace Gotree.C12
open Gotree

theorem inter_cases (k : Nat) (s p : Vec) :
    ((∃ i, i < k ∧ s.at i + p.at i > 1) ∧
      inter k s p = tab k (fun i => if (vadd k s p).at i > 1 then 1 else 0)) ∨
    ((∀ i, i < k → s.at i + p.at i ≤ 1) ∧ inter k s p = s) := by
  unfold inter
  simp only []
  split
  · rename_i h
    left
    refine ⟨?_, rfl⟩
    simp only [List.any_eq_true, List.mem_range, decide_eq_true_eq] at h
    obtain ⟨i, hi, hgt⟩ := h
    rw [at_vadd] at hgt
    simp only [hi, if_true] at hgt
    exact ⟨i, hi, hgt⟩
  · rename_i h
    right
    refine ⟨?_, rfl⟩
    intro i hi
    simp only [List.any_eq_true, List.mem_range, decide_eq_true_eq, not_exists, not_and] at h
    have := h i hi
    rw [at_vadd] at this
    simp only [hi, if_true] at this
    omega

/-- ACCTRAN at a node that has children (equation used instead of unfolding the definitions) -/
theorem acctran_upA_cons (k : Nat) (tv : String → Vec) (p : Option Vec) (d : NodeD) (pp : Nat) (x : EdgeD × T) (xs : Kids) :
    acctran k p (upA k tv (.node d pp (x :: xs))) =
      .node (match p with | none => upS k tv (.node d pp (x :: xs)) | some pv => inter k (upS k tv (.node d pp (x :: xs))) pv)
        (acctranL k (some (match p with | none => upS k tv (.node d pp (x :: xs)) | some pv => inter k (upS k tv (.node d pp (x :: xs))) pv))
          (upAL k tv (x :: xs))) := by
  obtain ⟨e0, c0⟩ := x
  cases p <;> simp only [upA, upAL, acctran]

theorem acctran_upA_leaf (k : Nat) (tv : String → Vec) (p : Option Vec) (d : NodeD) (pp : Nat) :
    acctran k p (upA k tv (.node d pp [])) = .node (tv d.name) [] := by
  simp only [upA, upAL, upS, acctran]

section acc
variable (k : Nat) (tv : String → Vec)

/-- what the parent hands down: its reported set `pv` (a non-empty set of states that are all
    optimal for the parent's second-pass slice `totv`), and `MIN ≤ totv` everywhere -/
structure ParOK (MIN : Nat) (pv totv : Vec) : Prop where
  h01 : Set01 k pv
  hne : ∃ p, p < k ∧ pv.at p ≠ 0
  hopt : ∀ p, p < k → pv.at p ≠ 0 → totv.at p = MIN
  hmin : ∀ t, t < k → MIN ≤ totv.at t

theorem acc_step (hk : 0 < k) (d : NodeD) (pp : Nat) (x : EdgeD × T) (xs : Kids)
    (hl : ∀ n ∈ leavesL (x :: xs), leaf01 k tv n)
    (MIN : Nat) (pv totv R U : Vec) (hpar : ParOK k MIN pv totv)
    (hU : ∀ s, s < k → U.at s = (through k R).at s)
    (hR : ∀ t, t < k → R.at t + (gv k tv (.node d pp (x :: xs))).at t = totv.at t) :
    ParOK k MIN (inter k (upS k tv (.node d pp (x :: xs))) pv) (vadd k (fL k tv (x :: xs)) U) := by
  have hl' : ∀ et ∈ x :: xs, ∀ n ∈ et.2.leaves, leaf01 k tv n :=
    fun et het n hn => hl n (leaves_mem_kids (x :: xs) et het n hn)
  have hlc : ∀ n ∈ (T.node d pp (x :: xs)).leaves, leaf01 k tv n := by
    intro n hn; rw [leaves_node_cons] at hn; exact hl n hn
  obtain ⟨hm, hiff⟩ := node_min k tv hk (x :: xs)
    (fun et het i hi => upS_le_one k tv et.2 (hl' et het) i hi)
    (fun et het s hs => key k tv hk et.2 (hl' et het) s hs)
  have hkey := key k tv hk (.node d pp (x :: xs)) hlc
  have hVU01 : Set01 k (upS k tv (.node d pp (x :: xs))) := fun i hi => upS_le_one k tv _ hlc i hi
  have hVUat : ∀ s, s < k → ((upS k tv (.node d pp (x :: xs))).at s ≠ 0 ↔
      (fL k tv (x :: xs)).at s = minOver k (fL k tv (x :: xs)).at) := by
    intro s hs
    rw [← hiff s hs]
    simp only [upS, cp, at_tab, hs, if_true]
    split <;> simp_all
  have hupN : upN k tv (.node d pp (x :: xs)) = minOver k (fL k tv (x :: xs)).at := by
    simp only [upN]; omega
  -- (4) MIN is a lower bound of the child's slice
  have h4 : ∀ s, s < k → MIN ≤ (fL k tv (x :: xs)).at s + U.at s := by
    intro s hs
    rw [hU s hs]
    simp only [through, at_tab, hs, if_true]
    obtain ⟨t0, ht0, he0⟩ := minOver_attained k hk (fun t => R.at t + (if s = t then 0 else 1))
    rw [← he0]
    have hg : (gv k tv (.node d pp (x :: xs))).at t0 ≤ (fL k tv (x :: xs)).at s + (if t0 = s then 0 else 1) := by
      simp only [gv, through, at_tab, ht0, if_true]
      exact minOver_le k (fun t => (fL k tv (x :: xs)).at t + (if t0 = t then 0 else 1)) s hs
    have := hR t0 ht0
    have := hpar.hmin t0 ht0
    by_cases hst : s = t0
    · subst hst; simp at hg ⊢; omega
    · have : ¬ t0 = s := fun e => hst e.symm
      simp [hst, this] at hg ⊢; omega
  have hUle : ∀ s t, s < k → t < k → U.at s ≤ R.at t + (if s = t then 0 else 1) := by
    intro s t hs ht
    rw [hU s hs]
    simp only [through, at_tab, hs, if_true]
    exact minOver_le k (fun t => R.at t + (if s = t then 0 else 1)) t ht
  rcases inter_cases k (upS k tv (.node d pp (x :: xs))) pv with ⟨⟨i0, hi0, hgt0⟩, heq⟩ | ⟨hle, heq⟩
  · -- non-empty intersection
    rw [heq]
    have hat : ∀ s, s < k → ((tab k fun i => if (vadd k (upS k tv (.node d pp (x :: xs))) pv).at i > 1 then 1 else 0).at s ≠ 0 ↔
        (upS k tv (.node d pp (x :: xs))).at s + pv.at s > 1) := by
      intro s hs
      simp only [at_tab, at_vadd, hs, if_true]
      split <;> simp_all
    refine ⟨?_, ⟨i0, hi0, (hat i0 hi0).mpr hgt0⟩, ?_, ?_⟩
    · intro i _; rw [at_tab]; split <;> (try split) <;> omega
    · intro s hs hne
      have hgt := (hat s hs).mp hne
      have h1 := hVU01 s hs
      have h2 := hpar.h01 s hs
      have hf := (hVUat s hs).mp (by omega)
      have ht := hpar.hopt s hs (by omega)
      have hg := hkey s hs
      have hr := hR s hs
      have hu := hUle s s hs hs
      have h4s := h4 s hs
      simp only [at_vadd, hs, if_true]
      simp at hu
      have : (upS k tv (.node d pp (x :: xs))).at s ≠ 0 := by omega
      simp [this] at hg
      omega
    · intro t ht
      simp only [at_vadd, ht, if_true]
      exact h4 t ht
  · -- empty intersection: the up-pass set is kept
    rw [heq]
    obtain ⟨hms, hmax⟩ := argTo_fst (sumL k tv (x :: xs)).at k hk
    refine ⟨hVU01, ⟨_, hms, ?_⟩, ?_, ?_⟩
    · simp only [upS, cp, at_tab, hms, if_true, hmax]; simp
    · intro s hs hne
      have hf := (hVUat s hs).mp hne
      obtain ⟨p, hp, hpne⟩ := hpar.hne
      have h1 := hle p hp
      have ht := hpar.hopt p hp hpne
      have hg := hkey p hp
      have hr := hR p hp
      have hu := hUle s p hs hp
      have h4s := h4 s hs
      have : (upS k tv (.node d pp (x :: xs))).at p = 0 := by omega
      simp [this] at hg
      simp only [at_vadd, hs, if_true]
      split at hu <;> omega
    · intro t ht
      simp only [at_vadd, ht, if_true]
      exact h4 t ht

/-- the claim for a non-root subtree -/
def PA (MIN : Nat) (c : T) : Prop :=
  ∀ (pv totv R U : Vec), ParOK k MIN pv totv →
    (∀ s, s < k → U.at s = (through k R).at s) →
    (∀ t, t < k → R.at t + (gv k tv c).at t = totv.at t) →
    (∀ n ∈ c.leaves, leaf01 k tv n) →
    ∀ (p : List Nat) (vec tot : Vec), (acctran k (some pv) (upA k tv c)).get p = some vec →
      (totA k tv U c).get p = some tot → innerAt c p = true →
      ∀ s, s < k → vec.at s ≠ 0 → tot.at s = MIN

theorem acc_list (hk : 0 < k) (MIN : Nat) : ∀ (ks : Kids), (∀ et ∈ ks, PA k tv MIN et.2) →
    (∀ n ∈ leavesL ks, leaf01 k tv n) →
    ∀ (Uv pre S totv : Vec), ParOK k MIN S totv →
    (∀ t, t < k → totv.at t = Uv.at t + pre.at t + (fL k tv ks).at t) →
    ∀ (i : Nat) (q : List Nat) (vec tot : Vec),
      A.getL (acctranL k (some S) (upAL k tv ks)) i q = some vec →
      A.getL (totL k tv Uv pre ks) i q = some tot → innerOpt (subL ks i q) = true →
      ∀ s, s < k → vec.at s ≠ 0 → tot.at s = MIN
  | [], _, _, _, _, _, _, _, _, _, _, _, _, h, _, _ => by simp [upAL, acctranL, A.getL] at h
  | (e, c) :: rest, ih, hl, Uv, pre, S, totv, hpar, hinv, 0, q, vec, tot, h, hg, hin => by
    simp only [upAL, acctranL, A.getL] at h
    simp only [totL, A.getL] at hg
    simp only [subL] at hin
    refine ih (e, c) (List.mem_cons_self ..) S totv (vadd k Uv (vadd k pre (fL k tv rest))) _ hpar
      (fun s _ => rfl) ?_ (fun n hn => hl n (by simp only [leavesL, List.mem_append]; exact Or.inl hn))
      q vec tot h hg (by simpa [innerAt] using hin)
    intro t ht
    have := hinv t ht
    simp only [fL, at_vadd, ht, if_true] at this ⊢
    omega
  | (e, c) :: rest, ih, hl, Uv, pre, S, totv, hpar, hinv, i + 1, q, vec, tot, h, hg, hin => by
    simp only [upAL, acctranL, A.getL] at h
    simp only [totL, A.getL] at hg
    simp only [subL] at hin
    refine acc_list hk MIN rest (fun et het => ih et (List.mem_cons_of_mem _ het))
      (fun n hn => hl n (by simp only [leavesL, List.mem_append]; exact Or.inr hn))
      Uv (vadd k pre (gv k tv c)) S totv hpar ?_ i q vec tot h hg hin
    intro t ht
    have := hinv t ht
    simp only [fL, at_vadd, ht, if_true] at this ⊢
    omega

theorem acc_tree (hk : 0 < k) (MIN : Nat) : ∀ c : T, PA k tv MIN c := by
  intro c
  induction c using T.induct with
  | h d pp ks ih =>
    intro pv totv R U hpar hU hR hl p vec tot h hg hin
    match ks, ih, hR, hl, p, h, hg, hin with
    | [], _, _, _, [], _, _, hin => simp [innerAt, innerOpt, sub] at hin
    | [], _, _, _, i :: q, _, _, hin => simp [innerAt, innerOpt, sub, subL] at hin
    | (e0, c0) :: xs, ih, hR, hl, p, h, hg, hin =>
      rw [leaves_node_cons] at hl
      have hstep := acc_step k tv hk d pp (e0, c0) xs hl MIN pv totv R U hpar hU hR
      match p, h, hg, hin with
      | [], h, hg, _ =>
        simp only [upA, upAL, acctran, A.get, Option.some.injEq] at h
        simp only [totA, A.get, Option.some.injEq] at hg
        subst h; subst hg
        exact fun s hs hne => hstep.hopt s hs hne
      | i :: q, h, hg, hin =>
        simp only [upA, upAL, acctran, A.get] at h
        simp only [totA, A.get] at hg
        refine acc_list k tv hk MIN ((e0, c0) :: xs) ih hl U (vzero k) _ _ hstep ?_ i q vec tot
          (by simpa only [upAL] using h) hg (by simpa [innerAt, sub] using hin)
        intro t ht
        simp only [at_vadd, at_vzero, ht, if_true]
        omega

end acc

end Gotree.C12
