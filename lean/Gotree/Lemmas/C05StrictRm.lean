/-
  C05 — strict mode with removal: a success means the outgroup is one side of a split (round 5, audit B1-d).
-/
import Gotree.Lemmas.C05RemoveAny

namespace Gotree.C05
open Gotree

/-- strict mode, outgroup removed: what was removed is exactly the outgroup, which is one side of a split -/
theorem outgroup_strict_side_rm (t t' : T) (S : List String)
    (h : rerootOutGroup true true S t = .ok t') (hu : t.tipNames.Nodup) (hg : LensGood t.splits)
    (hs : ∀ s ∈ t.splits, GoodL s.e.sup) :
    isSide t S = true ∧ (t.tipNames.filter (fun x => !t'.tipNames.contains x)).Perm (outTips t S) := by
  obtain ⟨_, hne', hsub, hside, _⟩ := outgroup_remove_any t t' true S h hu hg hs
  unfold rerootOutGroup rerootOutGroupWith at h
  obtain ⟨pl, hpl, h⟩ := Res.bind_ok h
  obtain ⟨ec, hec, h⟩ := Res.bind_ok h
  obtain ⟨e, c⟩ := ec
  have hk := ofOption_ok_panic hec
  simp only [if_true] at h
  split at h
  · cases h
  · rename_i hlen2
    cases h
    obtain ⟨spath, hseff, hne, _, hts, hlen, hfound, hstrict, htn, hre⟩ := outgroupPlan_ok hpl
    have S1 := unroot_same t hu hg hs
    have hu1 : (unroot t).tipNames.Nodup := S1.tips.nodup_iff.2 hu
    obtain ⟨S2, g2⟩ := rerootP_same spath (unroot t) none [] hu1 (unroot_lensGood t hg)
    rw [← hts] at S2 g2
    have hu2 : pl.ts.tipNames.Nodup := S2.tips.nodup_iff.2 hu1
    obtain ⟨S3, _⟩ := rerootP_same pl.f.p pl.ts none (rerootP (unroot t) spath none []).2.2 hu2 g2
    rw [← htn] at S3
    have ST := (S1.trans S2).trans S3
    have hu3 : pl.tn.tipNames.Nodup := ST.tips.nodup_iff.2 hu
    have hseff' : pl.seff = outTips t S := hseff.trans (effOutgroup_eq_outTips t S S1.tips)
    have hSn : pl.seff.Nodup := by rw [hseff']; exact nodup_eraseDups _
    obtain ⟨q1, _⟩ := moveRoot_tipNames_split pl.tn pl.r e c hk
    have hAl : (aSide pl.tn pl.r).leaves = (oldRoot pl.tn pl.r).leaves := by simp [aSide, oldRoot, T.leaves_node]
    have hnd2 : (c.leaves ++ (oldRoot pl.tn pl.r).leaves).Nodup := q1.nodup_iff.2 hu3
    have hAn : (aSide pl.tn pl.r).leaves.Nodup := by rw [hAl]; exact (List.nodup_append.1 hnd2).2.1
    obtain ⟨hin, hout⟩ := plan_clade hSn hne hlen hfound htn hre hAn
    have hdf := hstrict rfl
    have hckids : c.kids ≠ [] := by intro h0; rw [h0] at hlen2; simp at hlen2
    have hcl : c.leaves = leavesL c.kids := by
      obtain ⟨dc, pc, kc⟩ := c; exact leaves_of_kids hckids
    have htips : (T.node c.d 0 c.kids).tipNames = c.leaves := by
      unfold T.tipNames
      have : (c.kids.length == 1) = false := by simp; omega
      simp [this, hcl]
    have hdisj : ∀ x, x ∈ c.leaves → x ∉ (oldRoot pl.tn pl.r).leaves :=
      fun x h1 h2 => (List.nodup_append.1 hnd2).2.2 x h1 x h2 rfl
    -- what was removed is the outgroup
    have hgone : (t.tipNames.filter (fun x => !(T.node c.d 0 c.kids).tipNames.contains x)).Perm (outTips t S) := by
      rw [htips, ← hseff']
      apply (List.perm_ext_iff_of_nodup (hu.filter _) hSn).2
      intro x
      simp only [List.mem_filter, Bool.not_eq_true', List.contains_eq_mem, decide_eq_false_iff_not]
      constructor
      · rintro ⟨hx, hnc⟩
        have := q1.mem_iff.2 (ST.tips.mem_iff.2 hx)
        rcases List.mem_append.1 this with h' | h'
        · exact absurd h' hnc
        · exact hout hdf x (hAl ▸ h')
      · intro hx
        have hxo : x ∈ (oldRoot pl.tn pl.r).leaves := hAl ▸ hin x hx
        exact ⟨ST.tips.mem_iff.1 (q1.mem_iff.1 (List.mem_append_right _ hxo)), fun hc' => hdisj x hc' hxo⟩
    refine ⟨?_, hgone⟩
    obtain ⟨z, hz⟩ : ∃ z, z ∈ (T.node c.d 0 c.kids).tipNames := by
      cases hb : (T.node c.d 0 c.kids).tipNames with
      | nil => exact absurd hb hne'
      | cons z _ => exact ⟨z, by simp⟩
    unfold isSide
    simp only [Bool.and_eq_true, Bool.not_eq_true', List.isEmpty_eq_false_iff, List.any_eq_true,
      List.contains_eq_mem, decide_eq_true_eq, decide_eq_false_iff_not]
    refine ⟨⟨hseff' ▸ hne, z, (hsub z hz).1, (hsub z hz).2⟩, ?_⟩
    rw [← canonSide_perm_side _ hgone]
    exact hside

theorem Res.bind_err {α β : Type} {r : Res α} {f : α → Res β} {m : String} (h : r.bind f = .err m) :
    r = .err m ∨ ∃ x, r = .ok x ∧ f x = .err m := by
  cases r with
  | ok x => exact Or.inr ⟨x, rfl, h⟩
  | err m' => simp [Res.bind] at h; exact Or.inl (by rw [h])
  | panic m' => simp [Res.bind] at h

theorem check_err {c : Bool} {m m' : String} (h : check c (.err m') = .err m) : c = false ∧ m = m' := by
  unfold check at h; split at h
  · cases h
  · rename_i hc; simp at h; exact ⟨by simpa using hc, h.symm⟩

/-- the refusals of the plan in non-strict mode -/
theorem outgroupPlan_err_nonstrict {S : List String} {t1 : T} {m : String}
    (h : outgroupPlan false S t1 = .err m) :
    m = "dupnames" ∨ (m = "none" ∧ effOutgroup t1 S = []) ∨
    (m = "all" ∧ tempRootNeighbour t1 (effOutgroup t1 S) = none) ∨ m = "no common ancestor" ∨
    (m = "multifurcated" ∧ effOutgroup t1 S ≠ []) := by
  unfold outgroupPlan at h
  rcases Res.bind_err h with h | ⟨_, _, h⟩
  · exact Or.inl (check_err h).2
  rcases Res.bind_err h with h | ⟨_, hne, h⟩
  · right; left; refine ⟨(check_err h).2, ?_⟩
    have := (check_err h).1; simpa using this
  have hne' : effOutgroup t1 S ≠ [] := by
    have := check_ok_err hne; simpa using this
  rcases Res.bind_err h with h | ⟨spath, _, h⟩
  · right; right; left
    cases ho : tempRootNeighbour t1 (effOutgroup t1 S) with
    | none => rw [ho] at h; simp [ofOption] at h; exact ⟨h.symm, rfl⟩
    | some v => rw [ho] at h; simp [ofOption] at h
  rcases Res.bind_err h with h | ⟨_, _, h⟩
  · right; right; right; left; simpa using (check_err h).2
  rcases Res.bind_err h with h | ⟨f, _, h⟩
  · right; right; right; left
    unfold lcaRes at h; split at h
    · simp at h; exact h.symm
    · cases h
  rcases Res.bind_err h with h | ⟨_, _, h⟩
  · have := (check_err h).1; simp at this
  rcases Res.bind_err h with h | ⟨r, _, h⟩
  · right; right; right; right
    refine ⟨?_, hne'⟩
    unfold rootEdgeIdx at h
    split at h
    · cases h
    · split at h
      · simp at h; exact h.symm
      · split at h <;> cases h
  · cases h
/-- every refusal of the model in non-strict mode, with its cause -/
theorem outgroup_err_nonstrict {rm : Bool} {S : List String} {t : T} {m : String}
    (h : rerootOutGroup rm false S t = .err m) :
    m = "dupnames" ∨ (m = "none" ∧ effOutgroup (unroot t) S = []) ∨
    (m = "all" ∧ tempRootNeighbour (unroot t) (effOutgroup (unroot t) S) = none) ∨ m = "no common ancestor" ∨
    (m = "multifurcated" ∧ effOutgroup (unroot t) S ≠ []) ∨ (m = "roottip" ∧ rm = true) := by
  unfold rerootOutGroup rerootOutGroupWith at h
  rcases Res.bind_err h with h | ⟨pl, _, h⟩
  · rcases outgroupPlan_err_nonstrict h with h | h | h | h | h
    · exact Or.inl h
    · exact Or.inr (Or.inl h)
    · exact Or.inr (Or.inr (Or.inl h))
    · exact Or.inr (Or.inr (Or.inr (Or.inl h)))
    · exact Or.inr (Or.inr (Or.inr (Or.inr (Or.inl h))))
  rcases Res.bind_err h with h | ⟨ec, _, h⟩
  · cases ho : pl.tn.kids[pl.r]? <;> rw [ho] at h <;> simp [ofOption] at h
  cases rm
  · simp only [Bool.false_eq_true, if_false] at h
    cases ho : cutAt pl.tn pl.r (halfEdge ec.1) (halfEdge ec.1) (!(pl.back.head? == some pl.r)) <;> rw [ho] at h <;> simp [ofOption] at h
  · simp only [if_true] at h
    split at h
    · simp at h; exact Or.inr (Or.inr (Or.inr (Or.inr (Or.inr ⟨h.symm, rfl⟩))))
    · cases h

end Gotree.C05
