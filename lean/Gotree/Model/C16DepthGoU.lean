/-
  C16 — `computeDepthUnRooted` (tree/tree.go:940-968, as of 7dc6678), statement by statement.

  Nodes are designated by their position in `Nodes()` order (pre-order); `adjOf t` lists, for every
  node, its `neigh` slice (positions, in neighbour order: the parent sits at position `ppos`).  The
  state is the `depth` field of every node (`-1` = `NIL_DEPTH`).

    for _, n := range t.Nodes() { n.depth = NIL_DEPTH }          -- resetDepths (since 7dc6678)
    nodes := t.Tips(); currentlevel := 0; nbchanged := 1
    for nbchanged != 0 {
      nbchanged = 0
      for _, n := range nodes { if n.depth == NIL_DEPTH { n.depth = currentlevel; nbchanged++ } }   -- setLevel
      for _, n := range nodes { for _, next := range n.neigh { if next.depth == NIL_DEPTH { nextnodes = append(nextnodes, next) } } }  -- nextNodes
      nodes = nextnodes; currentlevel++
    }

  The `for nbchanged != 0` loop is run with explicit fuel (number of nodes + 1: every pass but the
  last one fills at least one node); running out of fuel is the outcome `none` (the Go loop would
  not have stopped).  Core Lean only.
-/
import Gotree.Model.Core

namespace Gotree.C16
open Gotree

/-- positions (pre-order) of the children of a node whose first child has position `i` -/
def childIdx (i : Nat) : Kids → List Nat
  | [] => []
  | (_, t) :: r => i :: childIdx (i + t.size) r

mutual
/-- the `neigh` slices of the nodes of the subtree whose top node has position `base`, in pre-order;
    `par` = position of the parent (inserted at `ppos`) -/
def adjT (base : Nat) (par : Option Nat) : T → List (List Nat)
  | .node _ p ks =>
    let cs := childIdx (base + 1) ks
    (match par with
     | none => cs
     | some q => cs.take p ++ q :: cs.drop p) :: adjL (base + 1) base ks
def adjL (i : Nat) (par : Nat) : Kids → List (List Nat)
  | [] => []
  | (_, t) :: r => adjT i (some par) t ++ adjL (i + t.size) par r
end

def adjOf (t : T) : List (List Nat) := adjT 0 none t

/-- `t.Tips()`: the nodes with exactly one neighbour, in pre-order -/
def tipsOf (adj : List (List Nat)) : List Nat :=
  (List.range adj.length).filter fun v => (adj.getD v []).length == 1

/-- first inner loop: returns the depths and `nbchanged` -/
def setLevel (lvl : Int) : List Nat → List Int → Nat → List Int × Nat
  | [], dep, ch => (dep, ch)
  | n :: r, dep, ch =>
    if dep.getD n 0 == -1 then setLevel lvl r (dep.set n lvl) (ch + 1) else setLevel lvl r dep ch

/-- second inner loop -/
def nextNodes (adj : List (List Nat)) (dep : List Int) (nodes : List Nat) : List Nat :=
  nodes.flatMap fun n => (adj.getD n []).filter fun m => dep.getD m 0 == -1

/-- the `for nbchanged != 0` loop -/
def levelLoop (adj : List (List Nat)) : Nat → List Nat → Int → List Int → Option (List Int)
  | 0, _, _, _ => none
  | f + 1, nodes, lvl, dep =>
    let r := setLevel lvl nodes dep 0
    if r.2 == 0 then some r.1 else levelLoop adj f (nextNodes adj r.1 nodes) (lvl + 1) r.1

/-- `computeDepthUnRooted()` read back with `Node.Depth()` in `Nodes()` order; `stale` = the depths
    the nodes carried before the call (forgotten by the reset) -/
def goComputeDepthsUnrooted (t : T) (stale : List Int := []) : Option (List Int) :=
  let adj := adjOf t
  let _forgotten := stale
  levelLoop adj (adj.length + 1) (tipsOf adj) 0 (List.replicate adj.length (-1))

/-- pinned variant (before 7dc6678): no reset — the loop only fills the nodes whose stale depth is `-1` -/
def goComputeDepthsUnrootedPinned (t : T) (stale : List Int) : Option (List Int) :=
  let adj := adjOf t
  levelLoop adj (adj.length + 1) (tipsOf adj) 0 stale

end Gotree.C16
