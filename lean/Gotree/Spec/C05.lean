/-
  C05 — what the property means, from the split list only (DESIGN §3.1, §6 C05).
  Every predicate takes the tree *before* the operation and a tree *after* it
  (the implementation's own output for the oracle, the model's for the theorems).
-/
import Gotree.Model.C05
import Gotree.Spec.Splits

namespace Gotree.C05
open Gotree

/-- same tip set -/
def sameTips (t u : T) : Bool := sortS u.tipNames == sortS t.tipNames

/-- same unrooted splits with lengths and supports (the two root branches of a rooted
    tree counting as one), same tip branch lengths -/
def sameSplits (t u : T) : Bool := u.usplits == t.usplits && u.tipLens == t.tipLens

/-- same tip-to-tip path lengths -/
def sameDists (t u : T) : Bool := u.distMatrix == t.distMatrix

/-- "the operation did not change the tree itself" -/
def preserved (t u : T) : Bool := sameTips t u && sameSplits t u && sameDists t u

/-- the outgroup as the property sees it: the given names that are tips, once each -/
def outTips (t : T) (S : List String) : List String := (S.filter t.tipNames.contains).eraseDups

/-- the outgroup is one side of a split of the tree (trivial splits included), and
    neither empty nor everything -/
def isSide (t : T) (S : List String) : Bool :=
  let all := t.tipNames
  let s := outTips t S
  !s.isEmpty && all.any (fun x => !s.contains x) &&
    (t.usplitsAll.map (·.side)).contains (canonSide all s)

/-- the branch separating `s` from the rest, fused (`none`: no such branch) -/
def sideSplit (t : T) (s : List String) : Option USplit :=
  t.usplitsAll.find? (fun sp => sp.side == canonSide t.tipNames s)

/-- fused length of the branch separating `s` from the rest (`none`: no such branch) -/
def sideLen (t : T) (s : List String) : Option Rat := (sideSplit t s).map (·.len)

/-- after a successful outgroup rooting on a side: two root clades, one is exactly the
    outgroup, the separating branch is cut into two equal halves (absent stays absent),
    each half carrying the support of the branch when that branch is not a tip branch -/
def cladeOK (t : T) (S : List String) (u : T) : Bool :=
  let s := outTips t S
  match u.kids with
  | [(e1, c1), (e2, c2)] =>
    (sortS c1.leaves == sortS s || sortS c2.leaves == sortS s) &&
    (match sideSplit t s with
     | some sp => e1.len == (if sp.len == NIL then NIL else sp.len / 2) && e2.len == e1.len &&
         (lightSize t.tipNames sp.side ≤ 1 || (e1.sup == sp.sup && e2.sup == sp.sup))
     | none => false)
  | _ => false

/-- the same without the reference to "the" separating branch: when some node has exactly two
    neighbours a split is carried by several branches and the code cuts one of them; what remains
    required is two root clades, one exactly the outgroup, on two equal root branches (the fused
    length and support of the split are still checked by `preserved`) -/
def cladeWeak (t : T) (S : List String) (u : T) : Bool :=
  let s := outTips t S
  match u.kids with
  | [(e1, c1), (e2, c2)] =>
    (sortS c1.leaves == sortS s || sortS c2.leaves == sortS s) && e2.len == e1.len && e2.sup == e1.sup
  | _ => false

/-- non-strict rooting on a non-monophyletic outgroup: it ends up inside one root clade -/
def insideOK (t : T) (S : List String) (u : T) : Bool :=
  let s := outTips t S
  match u.kids with
  | [(_, c1), (_, c2)] => s.all c1.leaves.contains || s.all c2.leaves.contains
  | _ => false

/-- outgroup removed: the rest is the restriction of the tree to the other tips -/
def removedOK (t : T) (S : List String) (u : T) : Bool :=
  let keep := t.tipNames.filter (fun x => !S.contains x)
  sortS u.tipNames == sortS keep &&
  keep.all (fun a => keep.all fun b => a == b || u.dist a b == t.dist a b) &&
  canonSet u.usplitSet == restrictSplits t.tipNames keep t.usplitSet

/-- The unrooted split map of the tree restricted to the taxa `keep` (every branch with its length and
    support; branches that restrict to the same split are fused: lengths added, larger support; branches
    with nothing or everything of `keep` on one side disappear).  Same definition as `C06.restrictU`,
    copied so that this Spec does not depend on another property's file. -/
def restrictData (before : T) (keep : List String) : List USplit :=
  let k := before.tipNames.filter keep.contains
  let l := before.splits.foldl (fun acc s =>
      let side := s.below.filter k.contains
      if side.isEmpty || side.length == k.length then acc
      else insertU ⟨canonSide k side, s.e.len, s.e.sup⟩ acc) []
  l.mergeSort (fun a b => decide (toString a.side ≤ toString b.side))

/-- the surviving branches keep their lengths and supports: the non-trivial splits of `u` with
    (length, support) and its tip branch lengths are those of the restriction of `t` to the tips of `u` -/
def survivorsDataOK (t u : T) : Bool :=
  let k := t.tipNames.filter u.tipNames.contains
  let exp := restrictData t u.tipNames
  u.usplits == exp.filter (fun s => 2 ≤ lightSize k s.side) &&
  u.tipLens == (exp.filter (fun s => lightSize k s.side ≤ 1)).map (fun s => (s.side, s.len))

/-- Outgroup removed, any outgroup (in particular one that is NOT a side of a split, non-strict mode:
    the code then removes every tip below the ancestor of the outgroup): the outgroup is absent; what
    was removed is exactly one side of a split of the tree (one root clade) and contains the outgroup;
    what is left is the restriction of the tree to the surviving tips — their distances, their splits,
    the lengths and supports of the surviving branches. -/
def removedAnyOK (t : T) (s : List String) (u : T) : Bool :=
  let keep := u.tipNames
  let gone := t.tipNames.filter (fun x => !keep.contains x)
  keep.all (fun x => t.tipNames.contains x && !s.contains x) &&
  !keep.isEmpty && s.all gone.contains &&
  (t.usplitsAll.map (·.side)).contains (canonSide t.tipNames gone) &&
  keep.all (fun a => keep.all fun b => a == b || u.dist a b == t.dist a b) &&
  canonSet u.usplitSet == restrictSplits t.tipNames keep t.usplitSet &&
  survivorsDataOK t u

/-! ### When may outgroup rooting refuse?

The statement: an outgroup that is one side of a split is rooted on (clause 2); "an outgroup that is
not monophyletic is refused in strict mode and otherwise ends up inside one root clade".  So a
refusal is allowed exactly in the cases listed by `refusalCause`; any other refusal contradicts the
statement. -/

/-- the reference tip of the code (`RerootOutGroup` roots the tree temporarily there): the first tip, in
    the order of `Tips()` of the unrooted tree, that is not in the outgroup -/
def refTip (t : T) (s : List String) : Option String :=
  let t1 := unroot t
  if t1.kids.length == 1 && !s.contains t1.name then some t1.name
  else t1.leaves.find? (fun x => !s.contains x)

/-- the clades of the tree seen from the tip `r`: for every branch the side without `r` (sorted, without
    repetition).  Two of them are nested or disjoint. -/
def cladesFrom (t : T) (r : String) : List (List String) :=
  let all := t.tipNames
  ((t.splits.map fun sp => sortS (if sp.below.contains r then all.filter (fun x => !sp.below.contains x) else sp.below)).filter
    (fun X => !X.isEmpty)).eraseDups

/-- the clade of the common ancestor of the outgroup, seen from the reference tip: the smallest clade
    containing the outgroup (the clades containing it are nested) -/
def ancestorClade (t : T) (s : List String) : Option (List String) :=
  match refTip t s with
  | none => none
  | some r =>
    ((cladesFrom t r).filter fun X => s.all X.contains).foldl
      (fun best X => match best with
        | none => some X
        | some b => if X.length < b.length then some X else some b) none

/-- the common ancestor of the outgroup (seen from the reference tip) is a multifurcation: besides the
    branches leading to outgroup tips and the one leading to the reference tip it has a further branch —
    a clade `Y` directly below the ancestor clade without any outgroup tip.  Never the case when the
    outgroup is a side itself (then the ancestor clade is the outgroup). -/
def ancestorAmbiguous (t : T) (S : List String) : Bool :=
  let s := outTips t S
  match refTip t s, ancestorClade t s with
  | some r, some M =>
    let cl := cladesFrom t r
    cl.any fun Y => decide (Y.length < M.length) && Y.all M.contains && !(Y.any s.contains) &&
      !(cl.any fun Z => decide (Y.length < Z.length) && decide (Z.length < M.length) && Y.all Z.contains && Z.all M.contains)
  | _, _ => false

/-- the names of the nodes of the unrooted tree, without the empty ones, contain a repetition
    (`Reroot` needs the node index, which refuses such trees) -/
def dupNodeNames (t : T) : Bool :=
  let names := (unroot t).nodeNames.filter (· != "")
  names.eraseDups.length != names.length

/-- Why the statement lets `RerootOutGroup(remove, strict, S)` refuse, `none` when it does not:
    * `none-or-all`     none of the names is a tip, or every tip is named (no root position exists);
    * `dupnames`        two nodes carry the same non-empty name (no node index);
    * `strict-nonside`  strict mode and the outgroup is not one side of a split;
    * `one-tip-left`    the outgroup is to be removed and fewer than two tips would remain (the clade of the
                        common ancestor of the outgroup, seen from the first tip outside it, is removed);
    * `single-child`    the outgroup is to be removed and some node has exactly two neighbours (what remains
                        may then hang on such a node, which cannot be the new root).
    In particular: an outgroup that is a side with at least two tips on the other side, and — in non-strict
    mode — ANY outgroup, must not be refused. -/
def refusalCause (t : T) (rm strict : Bool) (S : List String) : Option String :=
  let s := outTips t S
  if s.isEmpty || t.tipNames.all s.contains then some "none-or-all"
  else if dupNodeNames t then some "dupnames"
  else if strict && !isSide t S then some "strict-nonside"
  else if rm && !t.noSingle then some "single-child"
  else if rm then
    (match ancestorClade t s with
     | some m => if t.tipNames.length - m.length < 2 && !ancestorAmbiguous t S then some "one-tip-left" else none
     | none => none)
  else none

/-- largest tip-to-tip distance -/
def diam (t : T) : Rat :=
  t.tipNames.foldl (fun m a => t.tipNames.foldl (fun m b => if a != b && t.dist a b > m then t.dist a b else m) m) 0

/-- the root lies halfway along a longest tip-to-tip path -/
def halfwayOK (t u : T) : Bool :=
  let tips := t.tipNames
  let D := diam t
  u.kids.length == 2 &&
  tips.any fun a => tips.any fun b => a != b && u.dist a b == D && u.rootDist a == D / 2 && u.rootDist b == D / 2

/-- unique tip names (hypothesis of every theorem; evaluated by the driver) -/
def uniq (t : T) : Bool := decide t.tipNames.Nodup

/-- every length absent or not negative (hypothesis of the split-map theorems) -/
def lensOK (t : T) : Bool := t.splits.all fun s => s.e.len == NIL || decide (0 ≤ s.e.len)

/-- every support absent or not negative (hypothesis of the unrooting theorems) -/
def supsOK (t : T) : Bool := t.splits.all fun s => s.e.sup == NIL || decide (0 ≤ s.e.sup)

/-- the printing by which `usplitsAll` is sorted distinguishes the sides present (hypothesis of the
    literal-equality theorems; fails only for names containing ", ") -/
def keysOK (t : T) : Bool := decide ((t.usplitsAll.map fun s => toString s.side).Nodup)

/-- tip names the printing of a side can delimit: non-empty and free of ','.  Implies `keysOK`
    (`keysOK_of_plainNames`); evaluated by the driver (tag hyp-plainnames). -/
def plainNames (t : T) : Bool := t.tipNames.all fun x => x != "" && !x.toList.contains ','

/-- no two branches of the unrooted tree carry the same split (true when no node has exactly two
    neighbours; hypothesis of the link between `outgroup_clade` and the oracle `cladeOK`) -/
def branchesDistinct (t : T) : Bool :=
  decide (((unroot t).splits.map fun s => canonSide (unroot t).tipNames s.below).Nodup)

def allLens (t : T) : Bool := t.edges.all fun e => e.len ≥ 0

/-! ## The derived indexes (tip index, branch bitsets) after an operation -/

/-- the number a tip must bear in the index: its rank among the tip names (names unique) -/
def tipRank (names : List String) (x : String) : Nat := (names.filter (· < x)).length

/-- same elements, as many -/
def sameBits (a b : List Nat) : Bool := a.length == b.length && a.all b.contains && b.all a.contains

/-- What must hold of the indexes read on a tree `u` (model-free): the index counts exactly the tips of
    `u`; every tip is numbered by its rank; no name that is not a tip is still answered; every branch
    carries a bitset, as long as the index, whose set bits are the numbers of the tips below the branch.
    `ids` in `Tips()` order, `bits` in `Edges()` order (`none` = a nil bitset). -/
def indexOK (u : T) (nb : Int) (ids : List Int) (bits : List (Option (Nat × List Nat))) (stale : List String) : Bool :=
  let names := u.tipNames
  nb == (names.length : Int) && ids == names.map (fun x => (tipRank names x : Int)) && stale.isEmpty &&
  bits.length == u.splits.length &&
  (List.zip u.splits bits).all fun p =>
    match p.2 with
    | none => false
    | some (len, set) => len == names.length && sameBits set (p.1.below.map (tipRank names))

end Gotree.C05
