package c18

// Shrinking of failing requests (vh C18 -arg shrink:<file>): greedy removal of taxa (from every tree,
// alignment, state / tip / map file at once), of whole trees of multi-tree files and of alignment
// columns, as long as the request still yields differing outputs on the code under test.
// The shrunk request lines are printed as comments-free request lines on stdout (not case lines).

import (
	"fmt"
	"os"
	"sort"
	"strings"

	"verifharness/core"
)

// a shrunk request must keep failing RELIABLY: three repetitions in a row, each within `nruns` runs
func stillFails(c *core.Ctx, r *request, nruns int) bool {
	for rep := 0; rep < 10; rep++ {
		if !failsOnce(c, r, nruns) {
			return false
		}
	}
	return true
}

func failsOnce(c *core.Ctx, r *request, nruns int) bool {
	var first string
	for i := 0; i < nruns; i++ {
		var o runOut
		if r.kind == "cli" {
			o = runCLIOnce(c, r, i)
			if !strings.HasPrefix(o.blob, "exit=0\n") {
				return false // the shrunk input must still be accepted by the command
			}
		} else {
			o = runLibOnce(c, r)
			if strings.HasPrefix(o.blob, "panic") {
				return false
			}
		}
		if i == 0 {
			first = o.blob
		} else if o.blob != first {
			return true
		}
	}
	return false
}

func isNewickFile(content string) bool {
	t := strings.TrimSpace(content)
	return strings.HasPrefix(t, "(") && strings.HasSuffix(t, ";")
}

func taxaOf(files map[string]string) []string {
	set := map[string]bool{}
	for _, content := range files {
		if !isNewickFile(content) {
			continue
		}
		for _, l := range strings.Split(strings.TrimSpace(content), "\n") {
			if t, err := tryParse(l); err == nil {
				for _, n := range t.AllTipNames() {
					set[n] = true
				}
			}
		}
	}
	var out []string
	for k := range set {
		out = append(out, k)
	}
	sort.Strings(out)
	return out
}

// remove one taxon from every file; ok=false when some tree cannot lose it
func dropTaxon(files map[string]string, taxon string) (map[string]string, bool) {
	out := map[string]string{}
	for name, content := range files {
		switch {
		case isNewickFile(content):
			var b strings.Builder
			for _, l := range strings.Split(strings.TrimSpace(content), "\n") {
				t, err := tryParse(l)
				if err != nil {
					return nil, false
				}
				has := false
				for _, n := range t.AllTipNames() {
					if n == taxon {
						has = true
					}
				}
				if has {
					if len(t.Tips()) <= 4 {
						return nil, false
					}
					if err := t.RemoveTips(false, taxon); err != nil {
						return nil, false
					}
				}
				b.WriteString(t.Newick() + "\n")
			}
			out[name] = b.String()
		case strings.HasPrefix(content, ">"): // fasta
			var b strings.Builder
			ls := strings.Split(content, "\n")
			for i := 0; i+1 < len(ls); i += 2 {
				if ls[i] == ">"+taxon {
					continue
				}
				b.WriteString(ls[i] + "\n" + ls[i+1] + "\n")
			}
			out[name] = b.String()
		default: // line files: "taxon", "taxon<TAB>…", "…<TAB>taxon"
			var b strings.Builder
			for _, l := range strings.Split(content, "\n") {
				if l == "" {
					continue
				}
				f := strings.Split(l, "\t")
				if f[0] == taxon || f[len(f)-1] == taxon {
					continue
				}
				b.WriteString(l + "\n")
			}
			out[name] = b.String()
		}
	}
	return out, true
}

func shrinkRequest(c *core.Ctx, r *request) *request {
	const nruns = 4
	cur := *r
	if !stillFails(c, &cur, nruns) {
		fmt.Fprintf(os.Stderr, "c18 shrink: %s does not fail on this code, kept as it is\n", r.tpl)
		return r
	}
	try := func(files map[string]string) bool {
		same := len(files) == len(cur.files)
		for k, v := range files {
			if cur.files[k] != v {
				same = false
			}
		}
		if same {
			return false // nothing was removed
		}
		cand := cur
		cand.files = files
		ok := stillFails(c, &cand, nruns)
		if os.Getenv("C18_SHRINK_TRACE") != "" {
			n := 0
			for _, v := range files {
				n += len(v)
			}
			fmt.Fprintf(os.Stderr, "try %d bytes -> %v\n", n, ok)
		}
		if ok {
			cur = cand
			return true
		}
		return false
	}
	for progress := true; progress; {
		progress = false
		// 1. taxa
		for _, tx := range taxaOf(cur.files) {
			if f, ok := dropTaxon(cur.files, tx); ok && try(f) {
				progress = true
			}
		}
		// 2. whole lines of multi-line non-fasta files (trees of a multi-tree file, map / tip / state lines)
		for name, content := range cur.files {
			if strings.HasPrefix(content, ">") {
				continue
			}
			ls := strings.Split(strings.TrimSuffix(content, "\n"), "\n")
			for i := len(ls) - 1; i >= 0 && len(ls) > 1; i-- {
				cand := append(append([]string{}, ls[:i]...), ls[i+1:]...)
				f := map[string]string{}
				for k, v := range cur.files {
					f[k] = v
				}
				f[name] = strings.Join(cand, "\n") + "\n"
				if try(f) {
					ls = cand
					progress = true
				}
			}
		}
		// 3. alignment columns
		for name, content := range cur.files {
			if !strings.HasPrefix(content, ">") {
				continue
			}
			ls := strings.Split(strings.TrimSuffix(content, "\n"), "\n")
			width := 0
			if len(ls) > 1 {
				width = len(ls[1])
			}
			for j := width - 1; j >= 0 && width > 1; j-- {
				var b strings.Builder
				for i := 0; i+1 < len(ls); i += 2 {
					b.WriteString(ls[i] + "\n" + ls[i+1][:j] + ls[i+1][j+1:] + "\n")
				}
				f := map[string]string{}
				for k, v := range cur.files {
					f[k] = v
				}
				f[name] = b.String()
				if try(f) {
					ls = strings.Split(strings.TrimSuffix(b.String(), "\n"), "\n")
					width--
					progress = true
				}
			}
		}
	}
	return &cur
}

func shrinkFile(c *core.Ctx, path string) {
	b, err := os.ReadFile(path)
	if err != nil {
		panic(err)
	}
	for _, l := range strings.Split(string(b), "\n") {
		if l == "" || strings.HasPrefix(l, "#") {
			if l != "" {
				fmt.Fprintln(c.W, l)
			}
			continue
		}
		f := strings.Split(l, "\t")
		if f[0] != "C18.run" || len(f) < 7 {
			fmt.Fprintln(c.W, l)
			continue
		}
		r := &request{kind: f[1], tpl: f[2], threaded: f[3] == "1", args: decList(f[5]), files: decFiles(f[6])}
		s := shrinkRequest(c, r)
		thr := "0"
		if s.threaded {
			thr = "1"
		}
		fmt.Fprintln(c.W, strings.Join([]string{"C18.run", s.kind, s.tpl, thr, "0", core.StrList(s.args), encFiles(s.files)}, "\t"))
	}
}
