/-
  C11 — the OUTER loop of `support.TBE` (support/tbe.go:197-277): the bootstrap trees are taken from the
  channel one after the other by the caller's goroutine itself;

    for boot := range boottrees {
        if boot.Err != nil { …; err = boot.Err; return }
        if err = boot.Tree.ReinitIndexes(); err != nil { …; return }          -- duplicate tip names
        if err = reftree.CompareTipIndexes(boot.Tree); err != nil { …; return } -- other taxa
        … one fan-out over the reference branches: `cpu` workers, `wg.Wait()` …
        nboot++
    }

  An erroneous tree makes the call return its error at once (the trees after it are not read); a good
  tree costs one run of the pool LTS of Model/C11.lean over the reference branches (`tbeItems`, per-branch
  function `tbeItemFn` = C10's `tbeEdge`), each under ITS OWN schedule `scheds k`.  `tbeSeq` is the same loop
  with the fan-out replaced by the sequential map: what one thread computes.

  Core Lean only (linked into the driver).
-/
import Gotree.Spec.C11

namespace Gotree.C11
open Gotree

/-- outcome of the outer loop: the error class of the first erroneous tree, `lost-branch` when a fan-out
    ended without delivering every branch (excluded for the extracted shape by `tbe_schedule_independent`),
    or the raw supports and `nboot` -/
def tbeOuter (shape : Shape) (ref : T) (w cap : Nat) (scheds : Nat → List (Nat × Nat)) :
    List Item → Nat → List Rat → Except String (List Rat × Nat)
  | [], k, sups => .ok (sups, k)
  | it :: rest, k, sups =>
    match it.bad ref, it with
    | some c, _ => .error c
    | none, .err => .error "item"
    | none, .tree b =>
      let fin := runToEnd shape (tbeItemFn ref b) (fun _ => false) w cap (tbeItems ref sups) (scheds k)
      if !fin.closed || fin.panicked then .error "lost-branch"
      else match tbeCollect ref.splits.length fin.out with
        | none => .error "lost-branch"
        | some sups' => tbeOuter shape ref w cap scheds rest (k + 1) sups'

/-- the same loop in one thread: every branch in turn -/
def tbeSeq (ref : T) : List Item → Nat → List Rat → Except String (List Rat × Nat)
  | [], k, sups => .ok (sups, k)
  | it :: rest, k, sups =>
    match it.bad ref, it with
    | some c, _ => .error c
    | none, .err => .error "item"
    | none, .tree b =>
      match tbeCollect ref.splits.length ((tbeItems ref sups).map (tbeItemFn ref b)) with
      | none => .error "lost-branch"
      | some sups' => tbeSeq ref rest (k + 1) sups'

/-- `TBE` as the caller sees it: the normalised supports, or the error -/
def tbeCall (shape : Shape) (ref : T) (w cap : Nat) (scheds : Nat → List (Nat × Nat)) (items : List Item) : Except String (List Rat) :=
  match tbeOuter shape ref w cap scheds items 0 (ref.splits.map fun _ => NIL) with
  | .error c => .error c
  | .ok (sups, nboot) => .ok (tbeNormalize ref nboot sups)

def tbeCallSeq (ref : T) (items : List Item) : Except String (List Rat) :=
  match tbeSeq ref items 0 (ref.splits.map fun _ => NIL) with
  | .error c => .error c
  | .ok (sups, nboot) => .ok (tbeNormalize ref nboot sups)

end Gotree.C11
