/-
  C07 — lemmas about the renumbering of Model/C07Renum.lean: nothing but the ids changes, the ids become
  pairwise distinct.
-/
import Gotree.Model.C07Renum
import Gotree.Lemmas.C07Hist
import Gotree.Lemmas.C07Resolve

namespace Gotree.C07
open Gotree

mutual
theorem renumT_basic (n : Nat) : ∀ t : T,
    (renumT n t).1.leaves = t.leaves ∧ (renumT n t).1.isLeaf = t.isLeaf ∧ (renumT n t).1.d = t.d
  | .node d p [] => by simp [renumT, renumL, T.leaves, T.isLeaf, T.kids, T.d]
  | .node d p ((e, c) :: r) => by
    have h := renumL_basic n ((e, c) :: r)
    refine ⟨?_, ?_, ?_⟩
    · rw [renumT]
      simp only [renumL] at h ⊢
      simp only [T.leaves]
      exact h.1
    · simp [renumT, renumL, T.isLeaf, T.kids]
    · simp [renumT, T.d]
theorem renumL_basic (n : Nat) : ∀ k : Kids,
    leavesL (renumL n k).1 = leavesL k ∧ (renumL n k).1.length = k.length
  | [] => by simp [renumL]
  | (e, c) :: r => by
    have h1 := renumT_basic (n + 1) c
    have h2 := renumL_basic (renumT (n + 1) c).2 r
    simp only [renumL, leavesL, h1.1, h2.1, List.length_cons, h2.2, and_self]
end

/- seen without ids (`obsR`), renumbering changes nothing -/
mutual
theorem renumT_RT {β : Type} (f : List String → β) (n : Nat) : ∀ t : T, RT f (renumT n t).1 = RT f t
  | .node d p k => by
    have h := renumL_RL f n k
    simpa [RT, RL, renumT, obsT_node] using h
theorem renumL_RL {β : Type} (f : List String → β) (n : Nat) : ∀ k : Kids, RL f (renumL n k).1 = RL f k
  | [] => by simp [renumL]
  | (e, c) :: r => by
    have h1 := renumT_RT f (n + 1) c
    have h2 := renumL_RL f (renumT (n + 1) c).2 r
    have hb := renumT_basic (n + 1) c
    simp only [RT, RL] at h1 h2 ⊢
    simp only [renumL, obsL, List.map_cons, List.map_append, h1, h2, hb.1, hb.2.1, hb.2.2]
    rfl
end

/- the ids after renumbering: n, n+1, … in `Edges()` order -/
mutual
theorem renumT_ids (n : Nat) : ∀ t : T,
    (renumT n t).1.splitsBelow.map (·.e.id) = (List.range' n t.splitsBelow.length).map Int.ofNat ∧
    (renumT n t).2 = n + t.splitsBelow.length
  | .node d p k => by
    have h := renumL_ids n k
    simpa [renumT, T.splitsBelow] using h
theorem renumL_ids (n : Nat) : ∀ k : Kids,
    (splitsL (renumL n k).1).map (·.e.id) = (List.range' n (splitsL k).length).map Int.ofNat ∧
    (renumL n k).2 = n + (splitsL k).length
  | [] => by simp [renumL, splitsL]
  | (e, c) :: r => by
    have h1 := renumT_ids (n + 1) c
    have h2 := renumL_ids (renumT (n + 1) c).2 r
    rw [h1.2] at h2
    constructor
    · simp only [renumL, splitsL, List.map_cons, List.map_append, h1.1, h1.2, h2.1, List.length_cons, List.length_append]
      rw [← List.map_append, List.range'_append_1, Nat.add_comm]
      rw [List.range'_succ, List.map_cons, Nat.add_comm 1 n]
      rfl
    · simp only [renumL, splitsL, h1.2, h2.2, List.length_cons, List.length_append]; omega
end

theorem uniqueIds_renumber (t : T) : uniqueIds (renumber t) = true := by
  have h := (renumL_ids 0 t.kids).1
  have e : (renumber t).splits = splitsL (renumL 0 t.kids).1 := by
    cases t; simp [renumber, renumT, T.splits, T.kids]
  unfold uniqueIds
  rw [e, h]
  simp only [decide_eq_true_eq]
  exact List.pairwise_map.mpr ((List.nodup_range' (step := 1) (by omega)).imp (fun h hab => h (Int.ofNat.inj hab)))

theorem renumber_RT {β : Type} (f : List String → β) (t : T) : RT f (renumber t) = RT f t := renumT_RT f 0 t

theorem renumber_kids_length (t : T) : (renumber t).kids.length = t.kids.length := by
  cases t with
  | node d p k => simpa [renumber, renumT, T.kids] using (renumL_basic 0 k).2

/-- what survives a collapse by length without `--tips`, on the id-free observations -/
def keptR {β : Type} (l : Rat) (y : ObsR β) : Bool := !(decide (y.2.1 ≤ l)) || y.2.2.2.2.1

theorem keepV_obsR {β : Type} (l : Rat) : ∀ L : List (Obs β),
    (L.filterMap (keepV (fun x => decide (x.2.1.len ≤ l)) false)).map obsR = (L.map obsR).filter (keptR l)
  | [] => rfl
  | x :: r => by
    have ih := keepV_obsR l r
    obtain ⟨a, e, tip, nd⟩ := x
    simp only [List.filterMap_cons, List.map_cons, List.filter_cons, keepV, keptR, obsR]
    by_cases h1 : e.len ≤ l
    · cases tip <;> simp [h1, ih, obsR]
    · simp [h1, ih, obsR]

end Gotree.C07
