/-
  C17 — the split list before and after `Apply`: one branch apart.
-/
import Gotree.Model.C17
import Gotree.Lemmas.C17
import Gotree.Lemmas.C17Sim
import Gotree.Spec.C17

namespace Gotree.C17
open Gotree Gotree.C17.Spec

theorem perm_iff_count' {α} [DecidableEq α] {l l' : List α} :
    l.Perm l' ↔ ∀ a, @List.count α instBEqOfDecidableEq a l = @List.count α instBEqOfDecidableEq a l' :=
  @List.perm_iff_count α instBEqOfDecidableEq inferInstance l l'

/-- permutation of two explicit concatenations of the same blocks of split entries -/
macro "perm_entries" : tactic => `(tactic|
  (rw [perm_iff_count']; intro a; simp only [List.count_cons, List.count_append, List.count_nil]; omega))

/- ## SameBranches -/

theorem sameBranch_refl (s : SplitE) : SameBranch s s := ⟨List.Perm.refl _, rfl, rfl⟩

theorem sameBranches_refl : ∀ (l : List SplitE), SameBranches l l
  | [] => trivial
  | s :: l => ⟨sameBranch_refl s, sameBranches_refl l⟩

theorem sameBranches_append : ∀ {a a' b b' : List SplitE}, SameBranches a a' → SameBranches b b' →
    SameBranches (a ++ b) (a' ++ b')
  | [], [], _, _, _, hb => by simpa using hb
  | [], _ :: _, _, _, ha, _ => by simp [SameBranches] at ha
  | _ :: _, [], _, _, ha, _ => by simp [SameBranches] at ha
  | s :: a, s' :: a', b, b', ha, hb => by
    simp only [SameBranches, List.cons_append] at ha ⊢
    exact ⟨ha.1, sameBranches_append ha.2 hb⟩

/-- context: equal-or-same branches around two lists that are one branch apart -/
theorem oneBranchApart_context {L L' X X' Y Y' : List SplitE} (h : OneBranchApart L L')
    (hx : SameBranches X X') (hy : SameBranches Y Y') : OneBranchApart (X ++ L ++ Y) (X' ++ L' ++ Y') := by
  obtain ⟨c, c', R, R', h1, h2, h3, h4⟩ := h
  refine ⟨c, c', X ++ R ++ Y, X' ++ R' ++ Y', ?_, ?_, sameBranches_append (sameBranches_append hx h3) hy, h4⟩
  · have : (X ++ L ++ Y).Perm (X ++ (c :: R) ++ Y) :=
      List.Perm.append_right _ (List.Perm.append_left _ h1)
    refine this.trans ?_
    simp only [List.append_assoc, List.cons_append]
    exact List.perm_middle
  · have : (X' ++ L' ++ Y').Perm (X' ++ (c' :: R') ++ Y') :=
      List.Perm.append_right _ (List.Perm.append_left _ h2)
    refine this.trans ?_
    simp only [List.append_assoc, List.cons_append]
    exact List.perm_middle

/-- the split lists of the children of a node before and after -/
def RS (S S' : T) : Prop := OneBranchApart (splitsL S.kids) (splitsL S'.kids)

theorem splitsBelow_eq (t : T) : t.splitsBelow = splitsL t.kids := by
  obtain ⟨d, p, k⟩ := t
  simp [T.splitsBelow]

theorem RS_set (c c' : T) (e : EdgeD) (hr : RS c c') (hl : c'.leaves.Perm c.leaves) (hleaf : c'.isLeaf = c.isLeaf) :
    ∀ (k : Kids) (i : Nat), k[i]? = some (e, c) → OneBranchApart (splitsL k) (splitsL (k.set i (e, c'))) := by
  intro k
  induction k with
  | nil => intro i h; simp at h
  | cons x xs ih =>
    intro i h
    cases i with
    | zero =>
      simp at h; subst h
      simp only [List.set_cons_zero, splitsL, splitsBelow_eq]
      have := oneBranchApart_context (X := [⟨c.leaves, e, c.isLeaf⟩]) (X' := [⟨c'.leaves, e, c'.isLeaf⟩])
        (Y := splitsL xs) (Y' := splitsL xs) hr ⟨⟨hl.symm, rfl, hleaf.symm⟩, trivial⟩ (sameBranches_refl _)
      simpa using this
    | succ i =>
      obtain ⟨ex, tx⟩ := x
      simp only [List.set_cons_succ, splitsL]
      have := oneBranchApart_context (X := ⟨tx.leaves, ex, tx.isLeaf⟩ :: tx.splitsBelow)
        (X' := ⟨tx.leaves, ex, tx.isLeaf⟩ :: tx.splitsBelow) (Y := []) (Y' := [])
        (ih i (by simpa using h)) (sameBranches_refl _) trivial
      simpa using this

/-- `RK` and `RS` together go up one step -/
theorem RKS_up {c c' : T} (h : RK c c' ∧ RS c c') (d : NodeD) (p : Nat) (k : Kids) (i : Nat) (e : EdgeD)
    (hk : k[i]? = some (e, c)) : RK (.node d p k) (.node d p (k.set i (e, c'))) ∧ RS (.node d p k) (.node d p (k.set i (e, c'))) :=
  ⟨h.1.up d p k i e hk, RS_set c c' e h.2 h.1.leaves_perm h.1.isLeaf_eq k i hk⟩

theorem RKS_lift (f : T → Option T) : ∀ (q : List Nat) (t t' S : T), subAt q t = some S →
    modAt q f t = some t' → (∀ S', f S = some S' → RK S S' ∧ RS S S') → RK t t' ∧ RS t t' := by
  intro q
  induction q with
  | nil =>
    intro t t' S hs hm hr
    simp only [subAt, Option.some.injEq] at hs
    subst hs
    exact hr t' (by simpa [modAt] using hm)
  | cons i q ih =>
    intro t t' S hs hm hr
    obtain ⟨d, pp, k⟩ := t
    simp only [subAt] at hs
    cases hki : k[i]? with
    | none => simp [hki] at hs
    | some ec =>
      obtain ⟨e, c⟩ := ec
      simp only [hki] at hs
      simp only [modAt, hki] at hm
      cases hmc : modAt q f c with
      | none => simp [hmc] at hm
      | some c' =>
        simp only [hmc, Option.some.injEq] at hm
        subst hm
        exact RKS_up (ih c c' S hs hmc hr) d pp k i e hki

/- ## leaves -/

theorem leaves_ne_nil : ∀ (t : T), t.leaves ≠ [] := by
  intro t
  induction t using T.induct with
  | h d p k ih =>
    cases k with
    | nil => simp [T.leaves]
    | cons x xs =>
      obtain ⟨ex, tx⟩ := x
      simp only [T.leaves, leavesL]
      intro h
      exact ih (ex, tx) (by simp) (List.append_eq_nil_iff.mp h).1

theorem leaves_sublist_leavesL (e : EdgeD) (c : T) : ∀ (k : Kids) (i : Nat), k[i]? = some (e, c) →
    c.leaves.Sublist (leavesL k) := by
  intro k
  induction k with
  | nil => intro i h; simp at h
  | cons x xs ih =>
    intro i h
    obtain ⟨ex, tx⟩ := x
    cases i with
    | zero =>
      simp at h; obtain ⟨rfl, rfl⟩ := h
      simp only [leavesL]
      exact List.sublist_append_left _ _
    | succ i =>
      simp only [leavesL]
      exact (ih i (by simpa using h)).trans (List.sublist_append_right _ _)

/-- the leaves below an inner node reached by a path are among the leaves below the start -/
theorem sub_leaves_sublist : ∀ (q : List Nat) (t S : T), subAt q t = some S → S.kids ≠ [] →
    (leavesL S.kids).Sublist (leavesL t.kids) := by
  intro q
  induction q with
  | nil =>
    intro t S hs _
    simp only [subAt, Option.some.injEq] at hs
    subst hs
    exact List.Sublist.refl _
  | cons i q ih =>
    intro t S hs hne
    obtain ⟨d, pp, k⟩ := t
    simp only [subAt] at hs
    cases hki : k[i]? with
    | none => simp [hki] at hs
    | some ec =>
      obtain ⟨e, c⟩ := ec
      simp only [hki] at hs
      have h1 := ih c S hs hne
      have hc : c.kids ≠ [] := by
        intro h0
        rw [h0] at h1
        simp only [leavesL, List.sublist_nil] at h1
        obtain ⟨dS, pS, kS⟩ := S
        cases kS with
        | nil => exact hne rfl
        | cons y ys =>
          obtain ⟨ey, ty⟩ := y
          simp only [T.kids_node, leavesL] at h1
          exact leaves_ne_nil ty (List.append_eq_nil_iff.mp h1).1
      have h2 := leaves_sublist_leavesL e c k i hki
      rw [leaves_eq, if_neg hc] at h2
      exact h1.trans h2

/- ## the local fact -/

/-- the entry of the split list for child number `j` -/
def entryOf (k : Kids) (j : Nat) : SplitE :=
  match k[j]? with
  | some (e, c) => ⟨c.leaves, e, c.isLeaf⟩
  | none => ⟨[], EdgeD.blank, true⟩

theorem oneBranchApart_of {L L' : List SplitE} (c c' : SplitE) (hc : c ∈ L) (hp : (c' :: L).Perm (c :: L'))
    (he : c.e = c'.e) (ht : c.tip = false) (ht' : c'.tip = false) (hd : DifferentSplit c.below c'.below) :
    OneBranchApart L L' := by
  obtain ⟨s, t, rfl⟩ := List.append_of_mem hc
  refine ⟨c, c', s ++ t, s ++ t, List.perm_middle, ?_, sameBranches_refl _, he, ht, ht', hd⟩
  have h1 : (c' :: (s ++ c :: t)).Perm (c :: c' :: (s ++ t)) :=
    (List.Perm.cons c' List.perm_middle).trans (List.Perm.swap c c' _)
  exact (List.Perm.cons_inv (h1.symm.trans hp)).symm

theorem oneBranchApart_kids {k k' : Kids} (c : SplitE) (jj : Nat) (hc : c ∈ splitsL k)
    (hp : (entryOf k' jj :: splitsL k).Perm (c :: splitsL k'))
    (he : c.e = (entryOf k' jj).e) (ht : c.tip = false) (ht' : (entryOf k' jj).tip = false)
    (hd : DifferentSplit c.below (entryOf k' jj).below) : OneBranchApart (splitsL k) (splitsL k') :=
  oneBranchApart_of c (entryOf k' jj) hc hp he ht ht' hd

macro "ev_entries" : tactic => `(tactic|
  simp only [entryOf, List.getElem?_cons_zero, List.getElem?_cons_succ, splitsL, T.splitsBelow, T.leaves, leavesL,
    List.append_nil, T.isLeaf, List.isEmpty_cons, T.kids_node])

end Gotree.C17
