/-
  C08 — replacing absent lengths by 0 changes neither the shape nor the names of a tree.
-/
import Gotree.Model.C08Zero
import Gotree.Lemmas.C08Bits

namespace Gotree.C08
open Gotree List

mutual
theorem zeroLens_leaves : ∀ (t : T), t.zeroLens.leaves = t.leaves
  | .node d p [] => by simp [T.zeroLens, zeroLensL, T.leaves]
  | .node d p ((e, t) :: r) => by
    have h := zeroLensL_leaves ((e, t) :: r)
    simp only [T.zeroLens, zeroLensL, T.leaves] at h ⊢
    exact h
theorem zeroLensL_leaves : ∀ (k : Kids), leavesL (zeroLensL k) = leavesL k
  | [] => by simp [zeroLensL]
  | (e, t) :: r => by simp only [zeroLensL, leavesL, zeroLens_leaves t, zeroLensL_leaves r]
end

theorem zeroLensL_length : ∀ (k : Kids), (zeroLensL k).length = k.length
  | [] => rfl
  | (_, _) :: r => by simp [zeroLensL, zeroLensL_length r]

theorem zeroLens_kids (t : T) : t.zeroLens.kids = zeroLensL t.kids := by cases t; rfl

theorem zeroLens_name (t : T) : t.zeroLens.name = t.name := by cases t; rfl

theorem zeroLens_tipNames (t : T) : t.zeroLens.tipNames = t.tipNames := by
  unfold T.tipNames
  rw [zeroLens_kids, zeroLensL_length, zeroLensL_leaves, zeroLens_name]

mutual
theorem zeroLens_noSingleBelow : ∀ (t : T), t.zeroLens.noSingleBelow = t.noSingleBelow
  | .node d p k => by
    simp only [T.zeroLens, T.noSingleBelow, zeroLensL_length, zeroLensL_noSingle k]
theorem zeroLensL_noSingle : ∀ (k : Kids), noSingleL (zeroLensL k) = noSingleL k
  | [] => rfl
  | (e, t) :: r => by simp only [zeroLensL, noSingleL, zeroLens_noSingleBelow t, zeroLensL_noSingle r]
end

theorem unrootedOK_zeroLens (t : T) : unrootedOK t.zeroLens = unrootedOK t := by
  unfold unrootedOK T.uniqueTips T.noSingle
  rw [zeroLens_tipNames, zeroLens_kids, zeroLensL_noSingle, zeroLensL_length]

theorem sameTaxa_zeroLens (r c : T) : sameTaxa r.zeroLens c.zeroLens = sameTaxa r c := by
  unfold sameTaxa; rw [zeroLens_tipNames, zeroLens_tipNames]

end Gotree.C08
