/-
  C14 round 2 — the flood fill `cutEdgesMaxLengthRecur` of the statement-level model going
  away from `prev`, down a subtree: the tips it collects and the branches it marks.
  Core Lean only.
-/
import Gotree.Lemmas.C14Walk5

namespace Gotree.C14
open Gotree Gotree.C14.Go

/- tips (node indices) joined to the top node of a subtree by branches shorter than `thr`,
   and the branches (indices) crossed, in the order of the flood -/
mutual
def openT (thr : Rat) (n : Nat) : T → List Nat
  | .node _ _ [] => [n]
  | .node _ _ (k :: ks) => openL thr (n + 1) (k :: ks)
def openL (thr : Rat) : Nat → Kids → List Nat
  | _, [] => []
  | n, (e, t) :: r => (if e.len < thr then openT thr n t else []) ++ openL thr (n + t.size) r
end

mutual
def reachT (thr : Rat) (n : Nat) : T → List Nat
  | .node _ _ k => reachL thr (n + 1) k
def reachL (thr : Rat) : Nat → Kids → List Nat
  | _, [] => []
  | n, (e, t) :: r => (if e.len < thr then (n - 1) :: reachT thr n t else []) ++ reachL thr (n + t.size) r
end

def markAll (v : Array Bool) (l : List Nat) : Array Bool := l.foldl (fun v i => v.set! i true) v

theorem markAll_append (v : Array Bool) (a b : List Nat) : markAll v (a ++ b) = markAll (markAll v a) b := by
  simp [markAll, List.foldl_append]

def tipPairs (g : G) (l : List Nat) : Bag := l.map fun i => (g.name i, i)

/-- the function folded over `cur.neigh` by `cutEdgesMaxLengthRecur` -/
def crStep (g : G) (thr : Rat) (fuel cur prev : Nat) : Bag × Array Bool → Nat × Nat → Except String (Bag × Array Bool) :=
  fun st nb =>
    match g.edges[nb.2]? with
    | none => .error "model: branch"
    | some b =>
      if nb.1 != prev && b.d.len < thr then
        cutRecur g thr fuel st.1 nb.1 cur (st.2.set! nb.2 true)
      else .ok st

theorem cutRecur_succ (g : G) (thr : Rat) (fuel : Nat) (bag : Bag) (cur prev : Nat) (visited : Array Bool) (nd : GNode)
    (h : g.nodes[cur]? = some nd) :
    cutRecur g thr (fuel + 1) bag cur prev visited =
      match (if nd.neigh.length == 1 then addTip g bag cur else .ok bag) with
      | .error e => .error e
      | .ok bag => nd.neigh.foldlM (crStep g thr fuel cur prev) (bag, visited) := by
  rw [cutRecur, h]
  rfl

mutual
theorem openT_sub (thr : Rat) : ∀ (t : T) (n : Nat), (openT thr n t).Sublist (leafIdxT n t)
  | .node _ _ [], n => by simp [openT, leafIdxT]
  | .node _ _ (x :: k), n => by simpa [openT, leafIdxT] using openL_sub thr (x :: k) (n + 1)
theorem openL_sub (thr : Rat) : ∀ (k : Kids) (n : Nat), (openL thr n k).Sublist (leafIdxL n k)
  | [], _ => by simp [openL, leafIdxL]
  | (e, t) :: r, n => by
    simp only [openL, leafIdxL]
    refine List.Sublist.append ?_ (openL_sub thr r (n + t.size))
    split
    · exact openT_sub thr t n
    · exact List.nil_sublist _
end

/-- what the loop writes for one child: the tips and the branches, nothing when the child is
    `prev` or its branch is not shorter than the threshold -/
def openW (thr : Rat) (prev : Nat) (x : Nat × (EdgeD × T)) : List Nat :=
  if x.1 != prev && x.2.1.len < thr then openT thr x.1 x.2.2 else []
def reachW (thr : Rat) (prev : Nat) (x : Nat × (EdgeD × T)) : List Nat :=
  if x.1 != prev && x.2.1.len < thr then (x.1 - 1) :: reachT thr x.1 x.2.2 else []

/-- the statement of the flood down a subtree (induction hypothesis of `flood_down`) -/
def FloodDown (g : G) (thr : Rat) (t : T) : Prop :=
  ∀ (fuel n p : Nat) (bag : Bag) (visited : Array Bool), t.size ≤ fuel → p < n →
    Sub g.nodes n (flatT (some p) n t) → Sub g.edges n (gedgesT n t) → (∃ b, g.edges[n - 1]? = some b) →
    (bag.map (·.1) ++ (leafIdxT n t).map g.name).Nodup →
    cutRecur g thr fuel bag n p visited =
      .ok (bag ++ tipPairs g (openT thr n t), markAll visited (reachT thr n t))

theorem flood_kids (g : G) (thr : Rat) (fuel cur m prev : Nat) (ks : Kids) :
    ∀ (l : List (Nat × (EdgeD × T))) (rest : List String) (bag : Bag) (visited : Array Bool),
    (∀ x ∈ l, KidOK g cur m ks x ∧ FloodDown g thr x.2.2 ∧ (x.1 != prev → x.2.2.size ≤ fuel)) →
    (bag.map (·.1) ++ ((l.flatMap fun x => leafIdxT x.1 x.2.2).map g.name ++ rest)).Nodup →
    (l.map fun x => (x.1, x.1 - 1)).foldlM (crStep g thr fuel cur prev) (bag, visited) =
      .ok (bag ++ tipPairs g (l.flatMap (openW thr prev)), markAll visited (l.flatMap (reachW thr prev)))
  | [], _, bag, visited, _, _ => by simp [tipPairs, markAll]; rfl
  | x :: l, rest, bag, visited, hok, hnd => by
    obtain ⟨hx, hfd, hsz⟩ := hok x (by simp)
    simp only [List.map_cons, List.foldlM_cons, List.flatMap_cons]
    have hedge : g.edges[x.1 - 1]? = some ⟨cur, x.1, x.2.1⟩ := hx.edge
    by_cases hc : (x.1 != prev && decide (x.2.1.len < thr)) = true
    · have hne : (x.1 != prev) = true := (Bool.and_eq_true _ _ ▸ hc).1
      have hw1 : openW thr prev x = openT thr x.1 x.2.2 := by simp only [openW]; rw [if_pos hc]
      have hw2 : reachW thr prev x = (x.1 - 1) :: reachT thr x.1 x.2.2 := by simp only [reachW]; rw [if_pos hc]
      have hnd1 : (bag.map (·.1) ++ (leafIdxT x.1 x.2.2).map g.name).Nodup := by
        simp only [List.flatMap_cons, List.map_append, ← List.append_assoc] at hnd
        exact (List.nodup_append.1 (List.nodup_append.1 hnd).1).1 |> fun h => by
          simpa [List.append_assoc] using (List.nodup_append.1 (List.nodup_append.1 hnd).1).1
      have hstep : crStep g thr fuel cur prev (bag, visited) (x.1, x.1 - 1) =
          .ok (bag ++ tipPairs g (openT thr x.1 x.2.2), markAll (visited.set! (x.1 - 1) true) (reachT thr x.1 x.2.2)) := by
        simp only [crStep, hedge]
        rw [if_pos hc]
        exact hfd fuel x.1 cur bag _ (hsz hne) hx.gt hx.nodes hx.edges ⟨_, hedge⟩ hnd1
      rw [hstep, hw1, hw2]
      simp only [bind, Except.bind]
      rw [flood_kids g thr fuel cur m prev ks l rest _ _ (fun y hy => hok y (by simp [hy])) ?_]
      · simp only [tipPairs, List.map_append, List.append_assoc, markAll, List.foldl_append, List.foldl_cons]
      · -- the names stay distinct
        simp only [List.flatMap_cons, List.map_append, tipPairs, List.map_map] at hnd ⊢
        have hsub : ((openT thr x.1 x.2.2).map g.name).Sublist ((leafIdxT x.1 x.2.2).map g.name) :=
          (openT_sub thr x.2.2 x.1).map _
        have : ((bag.map (·.1) ++ (openT thr x.1 x.2.2).map g.name) ++
            ((l.flatMap fun x => leafIdxT x.1 x.2.2).map g.name ++ rest)).Sublist
            (bag.map (·.1) ++ ((leafIdxT x.1 x.2.2).map g.name ++
              ((l.flatMap fun x => leafIdxT x.1 x.2.2).map g.name) ++ rest)) := by
          simp only [List.append_assoc]
          exact List.Sublist.append (List.Sublist.refl _) (List.Sublist.append hsub (List.Sublist.refl _))
        have h2 := this.nodup (by simpa [List.append_assoc] using hnd)
        have e : ((fun x : String × Nat => x.fst) ∘ fun i => (g.name i, i)) = g.name := rfl
        rw [e]
        simpa [List.append_assoc] using h2
    · have hw1 : openW thr prev x = [] := by simp only [openW]; rw [if_neg hc]
      have hw2 : reachW thr prev x = [] := by simp only [reachW]; rw [if_neg hc]
      have hstep : crStep g thr fuel cur prev (bag, visited) (x.1, x.1 - 1) = .ok (bag, visited) := by
        simp only [crStep, hedge]
        rw [if_neg hc]
      rw [hstep, hw1, hw2]
      simp only [bind, Except.bind, List.nil_append]
      refine flood_kids g thr fuel cur m prev ks l rest bag visited (fun y hy => hok y (by simp [hy])) ?_
      simp only [List.flatMap_cons, List.map_append] at hnd
      have : (bag.map (·.1) ++ ((l.flatMap fun x => leafIdxT x.1 x.2.2).map g.name ++ rest)).Sublist
          (bag.map (·.1) ++ ((leafIdxT x.1 x.2.2).map g.name ++ (l.flatMap fun x => leafIdxT x.1 x.2.2).map g.name ++ rest)) := by
        simp only [List.append_assoc]
        exact List.Sublist.append (List.Sublist.refl _) (List.sublist_append_right _ _)
      exact this.nodup (by simpa [List.append_assoc] using hnd)

end Gotree.C14

namespace Gotree.C14
open Gotree Gotree.C14.Go

theorem lookup_none_of_not_mem {β : Type} : ∀ {l : List (String × β)} {k : String}, k ∉ l.map (·.1) → l.lookup k = none
  | [], _, _ => rfl
  | (k', v) :: l, k, h => by
    simp only [List.map_cons, List.mem_cons, not_or] at h
    have : (k == k') = false := by simpa using h.1
    simp only [List.lookup_cons, this]
    exact lookup_none_of_not_mem h.2

theorem foldlM_insAt_ex {α σ : Type} (f : σ → α → Except String σ) (l : List α) (i : Nat) (x : α) (s : σ)
    (hx : ∀ s, f s x = .ok s) : (insAt l i x).foldlM f s = l.foldlM f s := by
  unfold insAt
  conv => rhs; rw [← List.take_append_drop i l]
  rw [List.foldlM_append, List.foldlM_append]
  cases (l.take i).foldlM f s with
  | error e => rfl
  | ok s' => simp [List.foldlM_cons, hx, bind, Except.bind]

theorem openW_kids (thr : Rat) (p : Nat) : ∀ (ks : Kids) (m : Nat), p < m →
    (kidsIdx m ks).flatMap (openW thr p) = openL thr m ks ∧ (kidsIdx m ks).flatMap (reachW thr p) = reachL thr m ks
  | [], _, _ => by simp [kidsIdx, openL, reachL]
  | (e, t) :: r, m, hp => by
    obtain ⟨h1, h2⟩ := openW_kids thr p r (m + t.size) (by omega)
    have hne : (m != p) = true := by
      have : m ≠ p := by omega
      simpa using this
    simp only [kidsIdx, List.flatMap_cons, openL, reachL, openW, reachW, hne, Bool.true_and, decide_eq_true_eq, h1, h2]
    exact ⟨trivial, trivial⟩

/-- The flood of `cutEdgesMaxLengthRecur` entering a subtree from its parent collects exactly
    the tips joined to the top node by branches shorter than the threshold, marks exactly the
    branches it crosses, and reports no duplicate name when the names below are distinct. -/
theorem flood_down (g : G) (thr : Rat) : ∀ (t : T), FloodDown g thr t := by
  intro t
  induction t using T.induct with
  | h d pp ks ih =>
    intro fuel n p bag visited hf hp hs he hedge hnd
    rw [size_node] at hf
    obtain ⟨fuel, rfl⟩ : ∃ f, fuel = f + 1 := ⟨fuel - 1, by omega⟩
    rw [flatT_node] at hs
    rw [gedgesT_node] at he
    have hnode := hs.head
    obtain ⟨b, hb⟩ := hedge
    rw [cutRecur_succ g thr fuel bag n p visited _ hnode]
    have hlen : (insAt ((kidIdx (n + 1) ks).map fun c => (c, c - 1)) pp (p, n - 1)).length = ks.length + 1 := by
      simp [insAt, kidIdx_length]; omega
    have hpar : ∀ st, crStep g thr fuel n p st (p, n - 1) = .ok st := by
      intro st; simp [crStep, hb]
    by_cases hk : ks = []
    · subst hk
      have hnm : g.name n = d.name := by simp [G.name, hnode]
      have hfresh : d.name ∉ bag.map (·.1) := by
        simp only [leafIdxT, List.map_cons, List.map_nil, hnm] at hnd
        intro h
        exact (List.nodup_append.1 hnd).2.2 _ h _ (by simp) rfl
      have hadd : addTip g bag n = .ok (bag ++ [(d.name, n)]) := by
        simp only [addTip, hnode]
        simp [kidIdx, insAt, lookup_none_of_not_mem hfresh]
      simp only [kidIdx, List.map_nil, insAt, List.take_nil, List.drop_nil, List.nil_append, List.length_cons,
        List.length_nil, Nat.zero_add, beq_self_eq_true, if_true] at hadd ⊢
      rw [hadd]
      simp only [List.foldlM_cons, List.foldlM_nil, hpar, bind, Except.bind, pure, Except.pure]
      simp [openT, reachT, reachL, tipPairs, markAll, hnm]
    · have hl2 : ((insAt ((kidIdx (n + 1) ks).map fun c => (c, c - 1)) pp (p, n - 1)).length == 1) = false := by
        rw [hlen]
        have : ks.length ≠ 0 := fun h0 => hk (List.length_eq_zero_iff.1 h0)
        simp [this]
      simp only [hl2, Bool.false_eq_true, if_false]
      rw [foldlM_insAt_ex _ _ pp (p, n - 1) _ hpar]
      have hpairs : (kidIdx (n + 1) ks).map (fun c => (c, c - 1)) = (kidsIdx (n + 1) ks).map fun x => (x.1, x.1 - 1) := by
        rw [kidIdx_eq, List.map_map]; rfl
      have hok := kids_ok g ks (n + 1) n (by omega) hs.tail (by simpa using he)
      rw [hpairs, flood_kids g thr fuel n (n + 1) p ks (kidsIdx (n + 1) ks) [] bag visited
        (fun x hx => ⟨hok x hx, ih x.2 (hok x hx).mem, fun _ => by have := (hok x hx).size; omega⟩)
        (by rw [leafIdxL_kidsIdx, List.append_nil]; rw [leafIdxT_node_ne n d pp hk] at hnd; exact hnd)]
      obtain ⟨h1, h2⟩ := openW_kids thr p ks (n + 1) (by omega)
      rw [h1, h2]
      cases ks with
      | nil => exact absurd rfl hk
      | cons x k => simp only [openT, reachT]

end Gotree.C14

namespace Gotree.C14
open Gotree Gotree.C14.Go

/- the tips the flood collects are, by name, the "open" part of `comp` of the rose-tree model -/
mutual
theorem openT_names (g : G) (thr : Rat) : ∀ (t : T) (n : Nat) (par : Option Nat), Sub g.nodes n (flatT par n t) →
    (openT thr n t).map g.name = (comp thr t).1
  | .node d pp [], n, par, hs => by
    rw [flatT_node] at hs
    simp [openT, comp, G.name, hs.head]
  | .node d pp (x :: k), n, par, hs => by
    rw [flatT_node] at hs
    simp only [openT, comp]
    exact openL_names g thr (x :: k) (n + 1) n hs.tail
theorem openL_names (g : G) (thr : Rat) : ∀ (k : Kids) (n p : Nat), Sub g.nodes n (flatL p n k) →
    (openL thr n k).map g.name = (compL thr k).1
  | [], _, _, _ => by simp [openL, compL]
  | (e, t) :: r, n, p, hs => by
    rw [flatL_cons] at hs
    have h2 := hs.right
    rw [flatT_length] at h2
    have a1 := openT_names g thr t n (some p) hs.left
    have a2 := openL_names g thr r (n + t.size) p h2
    simp only [openL, compL, List.map_append]
    by_cases h : e.len < thr
    · simp only [h, if_true, a1, a2]
    · simp only [h, if_false, List.map_nil, List.nil_append, a2]
end

end Gotree.C14
