/-
  C02 — what the property means, on the implementation's own observation:
  the outcome class of a reader is `ok` or `err` (never panic / exit / timeout),
  and every delivered tree was traversed, indexed and written without a crash.
-/
import Gotree.Model.C02

namespace Gotree.C02
open Gotree

/-- outcome classes the property allows for a reader -/
def outcomeAllowed (o : String) : Bool := o == "ok" || o == "err"

/-- classes the property allows for the use of a delivered tree
    (`err` = `ReinitIndexes` reported an error, e.g. duplicate tip names) -/
def useAllowed (u : String) : Bool := u == "ok" || u == "err"

/-- one delivered record as observed: id, and for a tree its use class and α dump -/
structure ObsRec where
  id : Int
  isTree : Bool
  use : String
  dump : String
  deriving Repr

/-- the Spec predicate of C02 on one observation -/
def readOK (outcome : String) (recs : List ObsRec) : Bool :=
  outcomeAllowed outcome &&
  recs.all fun r => !r.isTree || (useAllowed r.use && !(r.dump.startsWith "MALFORMED"))

/-- F7 (known finding, runtime behaviour outside any model): the nesting probe at
    depth ≥ 10⁶ ends in a crash of the process. -/
def isF7 (depth : Nat) (outcome : String) : Bool :=
  depth ≥ 1000000 && (outcome.startsWith "panic" || outcome.startsWith "exit")

end Gotree.C02
