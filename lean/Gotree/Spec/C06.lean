/-
  C06 — what "pruning yields the induced subtree" means, from the split list
  only (DESIGN §3.1, Spec/Splits.lean).  Core Lean only.
-/
import Gotree.Model.C06
import Gotree.Spec.Splits

namespace Gotree.C06
open Gotree

/-- the tips that must remain: `revert = false` removes the named ones, `true` keeps them;
    names that are no tip of the tree play no role -/
def kept (t : T) (names : List String) (rev : Bool) : List String :=
  t.tipNames.filter fun n => names.contains n == rev

/-- every length is absent (`NIL`) or non-negative (what `math.Max(0, l)` assumes) -/
def lensOK (t : T) : Bool := t.edges.all fun e => e.len == NIL || decide (0 ≤ e.len)

/-- Hypotheses on the input tree: unique tip names, no single-child inner node,
    and the root is not itself a tip (a root with exactly one neighbour). -/
def uniq (t : T) : Bool := !hasDup t.tipNames

def wf (t : T) : Bool := uniq t && t.noSingle && t.kids.length != 1

/-- no single-child inner node, and (unrooted view) no degree-2 node created:
    a root that had ≥ 3 neighbours does not end with exactly 2 -/
def noSingleAfter (before after : T) : Bool :=
  after.noSingle && after.kids.length != 1 && (before.kids.length ≤ 2 || after.kids.length != 2)

/-- hypotheses on the input tree without any condition on the root: unique tip names, no
    single-child inner node (the root may be a tip) -/
def wfR (t : T) : Bool := uniq t && t.noSingle

/-- What the root may look like afterwards.  A tip root that is kept stays the (tip) root; when
    it is removed, or when the root had ≥ 3 neighbours, the new root has ≥ 3 neighbours / is not
    of degree 2; a rooted tree may keep a root of degree 2; never a new tip root. -/
def rootAfterOK (before : T) (names : List String) (rev : Bool) (after : T) : Bool :=
  if before.kids.length == 1 then
    if (kept before names rev).contains before.name then after.kids.length == 1 && after.name == before.name
    else decide (3 ≤ after.kids.length)
  else after.kids.length != 1 && (before.kids.length ≤ 2 || after.kids.length != 2)

/-- clause 4 for every input shape -/
def noSingleAfterR (before : T) (names : List String) (rev : Bool) (after : T) : Bool :=
  after.noSingle && rootAfterOK before names rev after

/-- the rendering by which the split lists are sorted tells the given sides apart (true for
    every name set free of look-alikes such as a name containing ", ") -/
def sidesInj (l : List (List String)) : Bool :=
  l.all fun a => l.all fun b => toString a != toString b || a == b

/-- tip names the rendering of a side can delimit: non-empty and free of ',' -/
def goodNames (t : T) : Bool := t.tipNames.all fun x => x != "" && !x.toList.contains ','

/-- 1. the tip set is exactly the requested one -/
def tipsOK (before : T) (names : List String) (rev : Bool) (after : T) : Bool :=
  sortS after.tipNames == sortS (kept before names rev)

/-- 2. the non-trivial splits are exactly the non-trivial restrictions -/
def splitsOK (before : T) (names : List String) (rev : Bool) (after : T) : Bool :=
  after.usplitSet == restrictSplits before.tipNames (kept before names rev) before.usplitSet

/-- 3. every path length between two remaining tips is unchanged -/
def distOK (before : T) (names : List String) (rev : Bool) (after : T) : Bool :=
  let k := sortS (kept before names rev)
  k.all fun a => k.all fun b => a == b || after.dist a b == before.dist a b

/-- The branches of the induced subtree with their data: every branch of
    `before` restricted to `keep`, branches with the same restricted split
    fused (lengths added, support = max), splits with an empty side dropped. -/
def restrictU (before : T) (keep : List String) : List USplit :=
  let k := before.tipNames.filter keep.contains
  let l := before.splits.foldl (fun acc s =>
      let side := s.below.filter k.contains
      if side.isEmpty || side.length == k.length then acc
      else insertU ⟨canonSide k side, s.e.len, s.e.sup⟩ acc) []
  l.mergeSort (fun a b => decide (toString a.side ≤ toString b.side))

/-- 5. merged branches: length = sum, support (inner branches) = max -/
def dataOK (before : T) (names : List String) (rev : Bool) (after : T) : Bool :=
  let k := kept before names rev
  let exp := restrictU before k
  after.usplits == exp.filter (fun s => 2 ≤ lightSize k s.side) &&
  after.tipLens == (exp.filter (fun s => lightSize k s.side ≤ 1)).map (fun s => (s.side, s.len))

/-- a tip branch gets no support from a merge ("only if it is not a tip branch", tree.go:406) -/
def tipSupOK (before after : T) : Bool :=
  !(before.tipEdges.all (·.sup == NIL)) || after.tipEdges.all (·.sup == NIL)

/-- `A` and `B` are the same side, or complementary sides, of a split of the taxa `all` -/
def sameSplit (all A B : List String) : Prop :=
  (∀ a ∈ all, (a ∈ A ↔ a ∈ B)) ∨ (∀ a ∈ all, (a ∈ A ↔ a ∉ B))

/-- The branches of `t'` are exactly the restrictions of the branches of `t` to the
    taxa `K` (those with both sides non-empty), as splits of `K`: statement 2 of the
    property in membership form (the non-trivial ones are those with ≥ 2 taxa on
    both sides, a property of the split itself). -/
def splitsInduced (K : List String) (t t' : T) : Prop :=
  (∀ s' ∈ t'.splits, ∃ s ∈ t.splits, sameSplit K s'.below s.below) ∧
  (∀ s ∈ t.splits, (∃ a ∈ K, a ∈ s.below) → (∃ b ∈ K, b ∉ s.below) →
    ∃ s' ∈ t'.splits, sameSplit K s'.below s.below)

/-- 6. look-ups by name reflect the new tip set: the names answered `true` by
    `ExistsTip` among all the candidates asked, their `TipIndex`, `NbTips` -/
def indexOK (after : T) (existing : List String) (tipIdx : List Int) (nb : Int) : Bool :=
  existing == sortS after.tipNames &&
  tipIdx == (List.range existing.length).map (fun (i : Nat) => Int.ofNat i) &&
  nb == (after.tipNames.length : Int)

/- ## the rooted view (inputs whose root has exactly two neighbours) -/

/-- same members (lists used as sets) -/
def sameMembers (l₁ l₂ : List (List String)) : Bool := l₁.all l₂.contains && l₂.all l₁.contains

/-- the clades of a tree: the set of tips below each branch, sorted -/
def clades (t : T) : List (List String) := t.splits.map fun s => sortS s.below

/-- the clades of the rooted subtree induced on `keep`: restrictions of the clades that are
    neither empty nor everything (the root of the induced subtree is the last common ancestor of
    the kept tips: a branch with every kept tip below it lies above that root) -/
def restrictClades (before : T) (keep : List String) : List (List String) :=
  let k := before.tipNames.filter keep.contains
  (before.splits.map fun s => sortS (s.below.filter k.contains)).filter
    fun c => !c.isEmpty && c.length != k.length

/-- 7. The subtree induced by a ROOTED tree is rooted: its root is the last common ancestor of the
    kept tips, i.e. its clades are exactly the proper non-empty restrictions of the original clades,
    and depths below the root are the original ones up to the common offset (root-to-tip distances
    differ by the same amount for all kept tips). -/
def rootedOK (before : T) (names : List String) (rev : Bool) (after : T) : Bool :=
  before.kids.length != 2 ||
  (sameMembers (clades after) (restrictClades before (kept before names rev)) &&
   (!(lensOK before) ||
    (let k := kept before names rev
     k.all fun a => k.all fun b =>
       after.rootDist a - after.rootDist b == before.rootDist a - before.rootDist b)))

/-- clause 2 compared as sets (what `removeTips_oracle_roottip` proves for every name set) -/
def splitsOKm (before : T) (names : List String) (rev : Bool) (after : T) : Bool :=
  sameMembers after.usplitSet (restrictSplits before.tipNames (kept before names rev) before.usplitSet)

/-- same elements with the same multiplicities for lists without repeated elements -/
def sameElems {α : Type} [BEq α] (l₁ l₂ : List α) : Bool :=
  l₁.length == l₂.length && l₁.all l₂.contains && l₂.all l₁.contains

/-- clause 5 compared up to the order of the lists (what `removeTips_data_roottip` proves) -/
def dataOKm (before : T) (names : List String) (rev : Bool) (after : T) : Bool :=
  let k := kept before names rev
  let exp := restrictU before k
  sameElems after.usplits (exp.filter (fun s => 2 ≤ lightSize k s.side)) &&
  sameElems after.tipLens ((exp.filter (fun s => lightSize k s.side ≤ 1)).map (fun s => (s.side, s.len)))

/-- a rooted binary tree: the root and every inner node have exactly two children (the region
    where the current code keeps the root of a rooted input; see class RootedRootSuppressed) -/
def rootedBin (t : T) : Bool := t.kids.length == 2 && binaryL t.kids

/-- What a tip file asks for: its lines ("\n" or "\r\n" ended, a last line without line end counts)
    cut at every ','; a tip is requested iff its name is one of these tokens (nothing is trimmed). -/
def fileTokens (content : String) : List String :=
  let lines := (content.replace "\r\n" "\n").splitOn "\n"
  let lines := if lines.getLast? == some "" then lines.dropLast else lines
  lines.flatMap fun l => l.splitOn ","

/- ## look-ups and branch indexes after pruning, on the raw answers of the implementation -/

/-- `TipNode(q)` for every name `q` the index answers: the node returned carries that name, has one
    neighbour and is the tip standing at the reported position of `Tips()` -/
def tipNodesOK (after : T) (existing tnNames : List String) (tnNeigh tnPos : List Int) : Bool :=
  tnNames == existing && tnNeigh == existing.map (fun _ => (1 : Int)) && tnPos.length == existing.length &&
  (List.zip existing tnPos).all fun qp => decide (qp.2 ≥ 0) && after.tipNames[qp.2.toNat]? == some qp.1

/-- One row per branch, in `Edges()` order (the order of `T.splits`): the bitset of the branch has one
    bit per tip and bit `TipIndex(q)` is set iff `q` is below the branch — every branch carries the
    split it induces on the NEW tip set (the bitsets are rebuilt after the tip index). -/
def bitsetsOK (after : T) (existing : List String) (tipIdx : List Int) (rows : List (Option (List Bool))) : Bool :=
  rows.length == after.splits.length &&
  (List.zip after.splits rows).all fun sr =>
    match sr.2 with
    | none => false
    | some bits =>
      bits.length == after.tipNames.length &&
      (List.zip existing tipIdx).all fun qi =>
        decide (qi.2 ≥ 0) && bits[qi.2.toNat]? == some (sr.1.below.contains qi.1)

/-- `CommonEdges` of the pruned tree with an independently rebuilt, freshly indexed copy `c`:
    `[edges(c,c), common(c,c), edges(t,c), common(t,c)]` — the pruned tree shares every branch with it -/
def commonEdgesOK (ce : List Int) : Bool :=
  match ce with
  | [a, c1, b, c2] => decide (a ≥ 0) && a == b && c1 == c2
  | _ => false

/- ## the whole command (`pruneAll`) -/

/-- every input tree satisfies the hypotheses of the theorems for the names the flags select -/
def AllGood (f : PruneFlags) : List T → List (List String) → Prop
  | [], _ => True
  | ref :: rest, samples =>
    wfR ref = true ∧ 3 ≤ (kept ref (f.names ref (samples.headD [])) f.revert).length ∧
      AllGood f rest samples.tail

/-- every output is the induced subtree of the corresponding input -/
def OutputsInduced (f : PruneFlags) : List T → List (List String) → List T → Prop
  | [], _, outs => outs = []
  | _ :: _, _, [] => False
  | ref :: rest, samples, t' :: outs =>
    t'.tipNames.Perm (kept ref (f.names ref (samples.headD [])) f.revert) ∧
      splitsInduced (kept ref (f.names ref (samples.headD [])) f.revert) ref t' ∧ wfR t' = true ∧
      OutputsInduced f rest samples.tail outs

end Gotree.C06
