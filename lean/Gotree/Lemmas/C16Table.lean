/-
  C16 — what the guard rows of the source table mean for the model: the first leading `if` that
  fires for a size and a rootedness is the model's answer, and when none fires the size is one the
  model accepts (GenKind.min / the bounds of the enumerator).
-/
import Gotree.Model.C16Table

namespace Gotree.C16
open Gotree

theorem guard_sem_fires (g : Guard) (n : Int) (rooted : Bool) : g.sem.fires n rooted = g.fires n rooted := rfl

/-- the meaning of a guard table does not depend on the source text kept in `raw` -/
theorem firstFiring_sem (tbl : List Guard) (fn : String) (n : Int) (rooted : Bool) :
    firstFiring (guardsOf (tbl.map Guard.sem) fn) n rooted = firstFiring (guardsOf tbl fn) n rooted := by
  induction tbl with
  | nil => rfl
  | cons g r ih =>
    unfold firstFiring guardsOf at *
    simp only [List.map_cons, List.filter_cons]
    have hfn : g.sem.fn = g.fn := rfl
    rw [hfn]
    by_cases h : (g.fn == fn) = true
    · simp only [h, if_true, List.find?_cons, guard_sem_fires]
      by_cases hf : g.fires n rooted = true
      · simp only [hf]; rfl
      · have hf' : g.fires n rooted = false := by simpa using hf
        simp only [hf']; exact ih
    · have h' : (g.fn == fn) = false := by simpa using h
      simp only [h']; exact ih

theorem firstFiring_congr (a b : List Guard) (h : a.map Guard.sem = b.map Guard.sem) (fn : String) (n : Int)
    (rooted : Bool) : firstFiring (guardsOf a fn) n rooted = firstFiring (guardsOf b fn) n rooted := by
  rw [← firstFiring_sem a, ← firstFiring_sem b, h]

theorem guardsOf_uniform : guardsOf expectedGuards "RandomUniformBinaryTree" =
    [⟨"RandomUniformBinaryTree", .lt, 3, none, errLess3All, "nbtips < 3"⟩] := by decide
theorem guardsOf_yule : guardsOf expectedGuards "RandomYuleBinaryTree" =
    [⟨"RandomYuleBinaryTree", .lt, 3, none, errLess3All, "nbtips < 3"⟩] := by decide
theorem guardsOf_caterpillar : guardsOf expectedGuards "RandomCaterpillarBinaryTree" =
    [⟨"RandomCaterpillarBinaryTree", .lt, 3, none, errLess3All, "nbtips < 3"⟩] := by decide
theorem guardsOf_balanced : guardsOf expectedGuards "RandomBalancedBinaryTree" =
    [⟨"RandomBalancedBinaryTree", .lt, 1, none, errDepth, "depth < 1"⟩,
     ⟨"RandomBalancedBinaryTree", .lt, 2, some false, errDepthU, "depth < 2 && !rooted"⟩] := by decide
theorem guardsOf_star : guardsOf expectedGuards "StarTree" =
    [⟨"StarTree", .lt, 2, none, errStar, "nbtips < 2"⟩] := by decide
theorem guardsOf_topo : guardsOf expectedGuards "AllTopologies" =
    [⟨"AllTopologies", .lt, 3, some false, errTopoU, "nbTips < 3 && !rooted"⟩,
     ⟨"AllTopologies", .lt, 2, some true, errTopoR, "nbTips < 2 && rooted"⟩,
     ⟨"AllTopologies", .other, 0, none, errTopoNames, "len(tipNames) > 0 && len(tipNames) != nbTips"⟩] := by decide

/-- what the answer of a guard list says about a call of generator `g` -/
def guardAnswerOK (g : GenKind) (n : Int) (rooted : Bool) (ints : List Nat) (lens : List Rat) : Option String → Prop
  | some m => run g n rooted ints lens = .err m
  | none => (g.min rooted : Int) ≤ n

/-- the guard rows the model was written from decide exactly as the model does -/
theorem expected_guards_model (g : GenKind) (n : Int) (rooted : Bool) (ints : List Nat) (lens : List Rat) :
    guardAnswerOK g n rooted ints lens (firstFiring (guardsOf expectedGuards g.goName) n rooted) := by
  cases g with
  | uniform =>
    simp only [GenKind.goName, guardsOf_uniform]
    by_cases h : n < 3
    · simp [firstFiring, Guard.fires, Cmp.holds, h, guardAnswerOK, run, uniform, insertionGen]
    · simp [firstFiring, Guard.fires, Cmp.holds, h, guardAnswerOK, GenKind.min]; omega
  | yule =>
    simp only [GenKind.goName, guardsOf_yule]
    by_cases h : n < 3
    · simp [firstFiring, Guard.fires, Cmp.holds, h, guardAnswerOK, run, yule, insertionGen]
    · simp [firstFiring, Guard.fires, Cmp.holds, h, guardAnswerOK, GenKind.min]; omega
  | caterpillar =>
    simp only [GenKind.goName, guardsOf_caterpillar]
    by_cases h : n < 3
    · simp [firstFiring, Guard.fires, Cmp.holds, h, guardAnswerOK, run, caterpillar, insertionGen]
    · simp [firstFiring, Guard.fires, Cmp.holds, h, guardAnswerOK, GenKind.min]; omega
  | balanced =>
    simp only [GenKind.goName, guardsOf_balanced]
    by_cases h1 : n < 1
    · simp [firstFiring, Guard.fires, Cmp.holds, h1, guardAnswerOK, run, balanced]
    · by_cases h2 : n < 2
      · cases rooted <;> simp [firstFiring, Guard.fires, Cmp.holds, h1, h2, guardAnswerOK, run, balanced, GenKind.min] <;> omega
      · cases rooted <;> simp [firstFiring, Guard.fires, Cmp.holds, h1, h2, guardAnswerOK, GenKind.min] <;> omega
  | star =>
    simp only [GenKind.goName, guardsOf_star]
    by_cases h : n < 2
    · simp [firstFiring, Guard.fires, Cmp.holds, h, guardAnswerOK, run, star]
    · simp [firstFiring, Guard.fires, Cmp.holds, h, guardAnswerOK, GenKind.min]; omega

/-- the same for the size guards of the enumerator (the third row, on the number of names, is an
    `other` row: it never fires here; `allTopologies_rejects` covers it) -/
theorem expected_guards_topo (n : Int) (rooted : Bool) (names : List String) :
    match firstFiring (guardsOf expectedGuards "AllTopologies") n rooted with
    | some m => allTopologies n rooted names = .err m
    | none => ((if rooted then 2 else 3 : Nat) : Int) ≤ n := by
  simp only [guardsOf_topo]
  cases rooted
  · by_cases h : n < 3
    · simp [firstFiring, Guard.fires, Cmp.holds, h, allTopologies]
    · simp [firstFiring, Guard.fires, Cmp.holds, h]; omega
  · by_cases h : n < 2
    · have h3 : n < 3 := by omega
      simp [firstFiring, Guard.fires, Cmp.holds, h, h3, allTopologies]
    · simp [firstFiring, Guard.fires, Cmp.holds, h]; omega

end Gotree.C16
