/-
  C01 — the property theorems (every `theorem` here is audited with `#print axioms`).

  All statements are about the model functions the driver runs against the Go code
  (`Newick.parse`, `Newick.write`, at CHARACTER level: the lexer is inside), for an arbitrary
  `FloatCodec` (no axiom; `decCodec` below is a lawful instance, i.e. the hypotheses are satisfiable).
-/
import Gotree.Lemmas.C01
import Gotree.Lemmas.C01Codec
import Gotree.Lemmas.C01GoCodec
import Gotree.Lemmas.C01Lit
import Gotree.Lemmas.C01GoRead

namespace Gotree.C01
open Gotree Gotree.Newick

/-- The round trip with ANY input following the text: the parser stops right after the `;` (this is what a
    second `Parse()` on the same Parser starts from).  For every tree of the quantifier, and also for a
    root with a single child (`WF01r`). -/
theorem parseR_write (C : FloatCodec) (t : T) (tail : List Char) (h : WF01r C.isFloat C.dom t = true) :
    Newick.parseR C.toCodec (Newick.write C.toCodec t ++ tail) = .ok (t.normIds, tail) := by
  cases t with
  | node d pp ks =>
    simp only [WF01r, Bool.and_eq_true, decide_eq_true_eq] at h
    obtain ⟨⟨⟨⟨hlen, hroot1⟩, hin⟩, hcs⟩, hkids⟩ := h
    cases ks with
    | nil => simp at hlen
    | cons k ks =>
      have hkid : ∀ et ∈ k :: ks, KidOK C et.1 et.2 := fun et hm => kid_ok C et.2 et.1 (wfKids_mem _ _ _ hkids et hm)
      have htrim := trimL_ok (k :: ks) (fun et hm => trim_ok _ _ et.2 et.1 (wfKids_mem _ _ _ hkids et hm)) 0
      have hlen' := normFromL_length (k :: ks) 0
      -- the text
      have htxt : Newick.write C.toCodec (.node d pp (k :: ks)) ++ tail =
          '(' :: (writeKids C.toCodec true (k :: ks) ++ ')' :: (d.name.toList ++ (writeComments d.comments ++ ';' :: tail))) := by
        simp [Newick.write, writeNode]
      have hsd : StartsDelim (writeComments d.comments ++ ';' :: tail) :=
        startsDelim_comments _ _ ⟨';', tail, rfl, by decide⟩
      -- the machine
      have hrun : run C.toCodec {} ('(' :: (writeKids C.toCodec true (k :: ks) ++ ')' :: (d.name.toList ++ (writeComments d.comments ++ ';' :: tail)))) =
          .ok (⟨[⟨d, EdgeD.blank, (normFromL 0 (k :: ks)).1⟩], 0, some .eot, (normFromL 0 (k :: ks)).2, none, false⟩, ';' :: tail) := by
        have h0 : ({} : PState) = ⟨[], 0, none, 0, none, false⟩ := rfl
        rw [h0, run_open_root, kids_all C k ks hkid _ [] 1 0 none false _ (by omega)]
        have h10 : (1 : Int) - 1 = 0 := by omega
        rw [h10]
        -- the root's name
        have hname : run C.toCodec ⟨[{ (⟨⟨"", []⟩, EdgeD.blank, []⟩ : Frame) with kids := [] ++ (normFromL 0 (k :: ks)).1 }], 0, some .closepar,
              (normFromL 0 (k :: ks)).2, none, false⟩ (d.name.toList ++ (writeComments d.comments ++ ';' :: tail)) =
            run C.toCodec ⟨[⟨⟨d.name, []⟩, EdgeD.blank, (normFromL 0 (k :: ks)).1⟩], 0, some .closepar,
              (normFromL 0 (k :: ks)).2, none, false⟩ (writeComments d.comments ++ ';' :: tail) := by
          simp only [innerNameOK, Bool.and_eq_true] at hin
          obtain ⟨⟨hnm, hfirst⟩, hnum⟩ := hin
          cases hl : d.name.toList with
          | nil =>
            have := toList_nil_eq d.name hl
            simp [this]
          | cons c w =>
            rw [hl] at hnm hfirst hnum
            have hall := noMeta_ident _ hnm
            simp only [List.all_cons, Bool.and_eq_true] at hall
            have hws : isWhitespace c = false := by simpa using hfirst
            have hnf : C.isFloat (c :: w) = false := by
              simp only [List.isEmpty_cons, Bool.false_or, notNumeric, Bool.and_eq_true, Bool.not_eq_true'] at hnum
              exact hnum.1
            rw [run_name_root C.toCodec _ 0 _ none false c w _ hall.1 hws hall.2 hnf hsd]
            have hnm2 : String.ofList (c :: w) = d.name := by rw [← hl]; exact String.ofList_toList
            simp [hnm2]
        simp only [List.nil_append] at hname ⊢
        rw [hname]
        obtain ⟨pt', _, hc⟩ := run_comments C.toCodec d.comments ⟨⟨d.name, []⟩, EdgeD.blank, (normFromL 0 (k :: ks)).1⟩ [] 0 .closepar
          (normFromL 0 (k :: ks)).2 none false (';' :: tail) (Or.inl rfl) hcs
        rw [hc]
        simp only [Bool.false_and, List.nil_append]
        rw [run_semi]
      -- Parse around the loop
      rw [htxt]
      obtain ⟨hs0, hk0⟩ := scanIW_char C.toCodec '(' (writeKids C.toCodec true (k :: ks) ++ ')' :: (d.name.toList ++ (writeComments d.comments ++ ';' :: tail)))
        .openpar (scan_openpar _ _) (by decide)
      obtain ⟨hs1, _⟩ := scanIW_char C.toCodec ';' tail .eot (scan_semi _ _) (by decide)
      simp [Newick.parseR, hs0, hk0, hrun, hs1, PState.result, PState.unwind, Frame.toT, trimTips, T.normIds, normFrom, htrim, hlen']
      intro hks
      rw [hks] at hroot1
      simp at hroot1
      rw [hroot1]

/-- `Parse` is `parseR` without the rest. -/
theorem parse_eq_parseR (C : Codec) (inp : List Char) :
    Newick.parse C inp = (match Newick.parseR C inp with
      | .ok (t, _) => .ok t | .err m => .err m | .panic m => .panic m | .unrep m => .unrep m) := by
  unfold Newick.parse Newick.parseR
  simp only []
  split
  · rfl
  · split
    · rfl
    · split <;> try rfl
      split
      · rfl
      · split
        · rfl
        · split <;> rfl

/-- The round trip for every tree of the quantifier, and also for a root with a single child (`WF01r`). -/
theorem parse_write_gen (C : FloatCodec) (t : T) (h : WF01r C.isFloat C.dom t = true) :
    Newick.parse C.toCodec (Newick.write C.toCodec t) = .ok t.normIds := by
  have := parseR_write C t [] h
  rw [List.append_nil] at this
  rw [parse_eq_parseR, this]

theorem parseMany_ok (C : Codec) (inp : List Char) (t : T) (r : List Char) (h : Newick.parseR C inp = .ok (t, r)) :
    Newick.parseMany C inp = .ok t :: Newick.parseMany C r := by
  rw [Newick.parseMany]
  split
  · rename_i t' r' h'; rw [h] at h'; cases h'; rfl
  all_goals (rename_i m h'; rw [h] at h'; cases h')

theorem parseMany_nil (C : Codec) : Newick.parseMany C [] = [.err "found …, expected ("] := by
  rw [Newick.parseMany]
  have : Newick.parseR C [] = .err "found …, expected (" := by
    simp [Newick.parseR, scanIW, skipWs, scan]
  split
  all_goals (rename_i h'; rw [this] at h'; cases h')
  rfl

/-- One Parser, several trees: calling `Parse()` repeatedly on the concatenation of the texts of WF01 trees
    delivers the trees one by one, then the error of the exhausted input. -/
theorem parseMany_writes (C : FloatCodec) (ts : List T) (h : ∀ t ∈ ts, WF01 C.isFloat C.dom t = true) :
    Newick.parseMany C.toCodec (ts.flatMap (Newick.write C.toCodec)) =
      ts.map (fun t => Newick.Outcome.ok t.normIds) ++ [.err "found …, expected ("] := by
  induction ts with
  | nil => simp [parseMany_nil]
  | cons t ts ih =>
    have ht := h t (List.mem_cons_self ..)
    have hr : WF01r C.isFloat C.dom t = true := by
      cases t with
      | node d pp ks =>
        simp only [WF01, Bool.and_eq_true, decide_eq_true_eq] at ht
        obtain ⟨⟨⟨hlen, hin⟩, hcs⟩, hkids⟩ := ht
        simp only [WF01r, Bool.and_eq_true, decide_eq_true_eq, Bool.or_eq_true, bne_iff_ne, ne_eq]
        exact ⟨⟨⟨⟨by omega, Or.inl (by omega)⟩, hin⟩, hcs⟩, hkids⟩
    simp only [List.flatMap_cons, List.map_cons, List.cons_append]
    rw [parseMany_ok _ _ _ _ (parseR_write C t _ hr), ih (fun t' ht' => h t' (List.mem_cons_of_mem _ ht'))]

/-- ★ Reading back what the writer wrote gives the same tree: same shape, child order, names, lengths,
    supports, p-values, node comments and branch comments; only the branch ids are renumbered in creation
    order and the parent positions are 0 (`T.normIds`).  Character level, any size, any degree. -/
theorem parse_write (C : FloatCodec) (t : T) (h : WF01 C.isFloat C.dom t = true) :
    Newick.parse C.toCodec (Newick.write C.toCodec t) = .ok t.normIds := by
  apply parse_write_gen
  cases t with
  | node d pp ks =>
    simp only [WF01, Bool.and_eq_true, decide_eq_true_eq] at h
    obtain ⟨⟨⟨hlen, hin⟩, hcs⟩, hkids⟩ := h
    simp only [WF01r, Bool.and_eq_true, decide_eq_true_eq, Bool.or_eq_true, bne_iff_ne, ne_eq]
    exact ⟨⟨⟨⟨by omega, Or.inl (by omega)⟩, hin⟩, hcs⟩, hkids⟩

/-- The writer does not look at branch ids or parent positions: the re-read tree writes the same text. -/
theorem write_normIds (C : Codec) (t : T) : Newick.write C t.normIds = Newick.write C t := by
  cases t with
  | node d pp ks =>
    have h := writeNode_norm C (.node d pp ks) 0 false
    simp only [Newick.write, T.normIds]
    rw [h]
    simp [normFrom]

/-- Corollary: writing, reading and writing again gives byte-identical text. -/
theorem write_parse_write (C : FloatCodec) (t t' : T) (h : WF01 C.isFloat C.dom t = true)
    (hp : Newick.parse C.toCodec (Newick.write C.toCodec t) = .ok t') :
    Newick.write C.toCodec t' = Newick.write C.toCodec t := by
  rw [parse_write C t h] at hp
  cases hp
  exact write_normIds C.toCodec t

/-- The re-read tree is the original as far as the property looks: `sameTree` (shape, order, names,
    lengths, supports, p-values, node and branch comments). -/
theorem sameTree_normIds (t : T) : sameTree t t.normIds = true := sameTree_norm t 0

/-- The oracle the driver evaluates on the implementation's output holds of the model's round trip:
    for every WF01 tree the model re-reads a tree for which `roundTripOK` is true. -/
theorem roundtrip_oracle (C : FloatCodec) (t : T) (h : WF01 C.isFloat C.dom t = true) :
    ∃ t', Newick.parse C.toCodec (Newick.write C.toCodec t) = .ok t' ∧
      roundTripOK t t' (Newick.writeStr C.toCodec t) (Newick.writeStr C.toCodec t') = true := by
  refine ⟨t.normIds, parse_write C t h, ?_⟩
  simp [roundTripOK, sameTree_normIds, Newick.writeStr, write_normIds]

/-- Corollary: on WF01 trees the text determines the tree (up to ids / parent positions): everything the
    property lists survives, because two trees with the same text are `sameTree`. -/
theorem write_injective_on_WF01 (C : FloatCodec) (t₁ t₂ : T) (h₁ : WF01 C.isFloat C.dom t₁ = true)
    (h₂ : WF01 C.isFloat C.dom t₂ = true) (hw : Newick.write C.toCodec t₁ = Newick.write C.toCodec t₂) :
    t₁.normIds = t₂.normIds ∧ sameTree t₁ t₂ = true := by
  have e1 := parse_write C t₁ h₁
  have e2 := parse_write C t₂ h₂
  rw [hw, e2] at e1
  have heq : t₂.normIds = t₁.normIds := by injection e1
  refine ⟨heq.symm, ?_⟩
  have s1 := sameTree_normIds t₁
  have s2 := sameTree_normIds t₂
  rw [heq] at s2
  exact sameTree_euclid t₁ t₂ _ s1 s2

/-- ★ for the executable codec: the round trip of the very functions the driver runs against the Go code
    (`parse goCodec`, `write goCodec`), for every tree whose values pass the decidable check `goDom`
    (the driver evaluates `WF01 goCodec.isFloat goDom` on every case: tag `godom`). -/
theorem parse_write_go (t : T) (h : WF01 goCodec.isFloat goDom t = true) :
    Newick.parse goCodec (Newick.write goCodec t) = .ok t.normIds :=
  parse_write goFloatCodec t h

/-- ★ for the executable codec with ALL FOUR laws proved: `goDomS x` only says that the shortest-digit search
    for `|x|` ended on a candidate it checked (and that the decimal magnitude is inside the reader's window);
    that the text `goFormatFloat x` is then accepted by the model of `ParseFloat` and read back as `x` is
    theorem `goDomS_goDom` (render → read, digit by digit).  The driver evaluates this hypothesis on every
    case (tag `godom`) and reports a float64 value outside `goDomS` as a broken tie. -/
theorem parse_write_goS (t : T) (h : WF01 goCodec.isFloat goDomS t = true) :
    Newick.parse goCodec (Newick.write goCodec t) = .ok t.normIds :=
  parse_write goFloatCodecS t h

/-- the four codec laws of the executable codec, as one statement -/
theorem goCodec_laws :
    (∀ x : Rat, goCodec.fmt x ≠ [] ∧ (goCodec.fmt x).all numClean = true) ∧
    (∀ x : Rat, goDomS x = true → goCodec.isFloat (goCodec.fmt x) = true) ∧
    (∀ x : Rat, goDomS x = true → goCodec.parse (goCodec.fmt x) = some x) ∧
    (∀ l : List Char, goCodec.isFloat l = true → l.all (fun c => c != '/') = true) :=
  ⟨goFormatFloat_clean, goFloatCodecS.fmt_isFloat, goFloatCodecS.parse_fmt, goCodec_isFloat_noSlash⟩

/-- the model of `ParseFloat` on what the model of `FormatFloat` writes for `n · 10^p`: the nearest float64 -/
theorem goParseFloat_of_render (n : Nat) (p : Int) (h0 : 0 < n) (h1 : n < 10 ^ 400)
    (hlo : -330 ≤ (numDecDigits n : Int) + p) (hhi : (numDecDigits n : Int) + p ≤ 311) :
    goParseFloat (renderFixed 400 n p) = (match roundF64 (scale10 ((n : Nat) : Rat) p) with | none => .bad | some q => .fin q) :=
  (goParseFloat_render n p h0 h1 hlo hhi).1

/-- the first and the fourth law of the executable codec hold for all inputs -/
theorem goCodec_unconditional_laws :
    (∀ x : Rat, goCodec.fmt x ≠ [] ∧ (goCodec.fmt x).all numClean = true) ∧
    (∀ l : List Char, goCodec.isFloat l = true → l.all (fun c => c != '/') = true) :=
  ⟨goFormatFloat_clean, goCodec_isFloat_noSlash⟩

/-! ### the node stack, literally -/

/-- The machine that keeps parseIter's variables `node` / `edge` (their nil-ness) and the nil edge of the
    stack elements explicitly (Model/C01Lit.lean) computes, for EVERY input, what `Newick.parse` computes:
    the nil tests the functional machine derives from the shape of the stack are the code's. -/
theorem parse_literal_stack (C : Codec) (inp : List Char) : Lit.parseL C inp = Newick.parse C inp :=
  Lit.parseL_eq_parse C inp

/-- the loop itself, from the initial state -/
theorem run_literal_stack (C : Codec) (inp : List Char) :
    Lit.eraseO (Lit.runL C {} inp) = Newick.run C {} inp := Lit.runL_eq_run C inp

/-! ### defect F1 (repaired by 6ae5e49): regression theorems -/

/-- The scanner as it is now returns a name containing NUL whole … -/
theorem scan_nul_whole (C : Codec) (r : List Char) :
    (scan C false ('a' :: '\x00' :: 'b' :: ',' :: r)).2.1 = ['a', '\x00', 'b'] := by
  simp [scan, isWhitespace, isIdent, List.takeWhile]

/-- … while the scanner pinned before the fix cut it at the NUL (and swallowed the NUL). -/
theorem scanPinned_nul_fails (C : Codec) (r : List Char) :
    (scanPinned C false ('a' :: '\x00' :: 'b' :: ',' :: r)).2.1 = ['a'] ∧
    (scanPinned C false ('a' :: '\x00' :: 'b' :: ',' :: r)).2.2 = 'b' :: ',' :: r := by
  simp [scanPinned, isWhitespace, isIdent, List.takeWhile, List.dropWhile, dropNul]

/-! ### every clause of the quantifier is needed: concrete witnesses (lawful codec `ratCodec`) on which
    the model's own round trip fails once ONE clause of WF01 is dropped -/

def leafE (len : Rat) (name : String) : EdgeD × T := (⟨len, NIL, NIL, [], 0⟩, T.leaf name)
def innerAB (e : EdgeD) (d : NodeD) : EdgeD × T := (e, .node d 0 [leafE NIL "a", leafE NIL "b"])
def root3 (k : EdgeD × T) : T := .node ⟨"", []⟩ 0 [k, leafE NIL "c"]

/-- a tip name with a trailing blank is trimmed by the parser -/
theorem needs_trimmed_tip : roundTripModel ratCodec.toCodec (root3 (leafE NIL "x ")) = false := by decide +kernel
/-- a tip name with a leading blank loses it in the lexer -/
theorem needs_no_leading_blank : roundTripModel ratCodec.toCodec (root3 (leafE NIL " x")) = false := by decide +kernel
/-- a numeric-looking inner name comes back as a support -/
theorem needs_nonnumeric_inner_name :
    roundTripModel ratCodec.toCodec (root3 (innerAB ⟨NIL, NIL, NIL, [], 0⟩ ⟨"12r1", []⟩)) = false := by decide +kernel
/-- a float/float inner name comes back as support and p-value -/
theorem needs_not_float_slash_float :
    roundTripModel ratCodec.toCodec (root3 (innerAB ⟨NIL, NIL, NIL, [], 0⟩ ⟨"1r2/1r4", []⟩)) = false := by decide +kernel
/-- a second branch comment comes back as a node comment -/
theorem needs_one_branch_comment :
    roundTripModel ratCodec.toCodec (root3 (innerAB ⟨1, NIL, NIL, ["x", "y"], 0⟩ ⟨"", []⟩)) = false := by decide +kernel
/-- a branch comment on a branch without length comes back as a node comment -/
theorem needs_length_for_branch_comment :
    roundTripModel ratCodec.toCodec (root3 (innerAB ⟨NIL, NIL, NIL, ["x"], 0⟩ ⟨"", []⟩)) = false := by decide +kernel
/-- a support next to a name is not written -/
theorem needs_name_xor_support :
    roundTripModel ratCodec.toCodec (root3 (innerAB ⟨NIL, 1/2, NIL, [], 0⟩ ⟨"N", []⟩)) = false := by decide +kernel
/-- a p-value without support is not written -/
theorem needs_support_for_pvalue :
    roundTripModel ratCodec.toCodec (root3 (innerAB ⟨NIL, NIL, 1/2, [], 0⟩ ⟨"", []⟩)) = false := by decide +kernel
/-- a support on a tip branch is not written -/
theorem needs_no_support_on_tip :
    roundTripModel ratCodec.toCodec (root3 (⟨NIL, 1/2, NIL, [], 0⟩, T.leaf "x")) = false := by decide +kernel
/-- a `]` inside a comment ends it -/
theorem needs_comment_without_bracket :
    roundTripModel ratCodec.toCodec (root3 (innerAB ⟨NIL, NIL, NIL, [], 0⟩ ⟨"", ["a]b"]⟩)) = false := by decide +kernel
/-- a metacharacter inside a name splits it -/
theorem needs_no_metachar : roundTripModel ratCodec.toCodec (root3 (leafE NIL "x:y")) = false := by decide +kernel
/-- quoting does not protect a metacharacter: the parser knows no quotes (`'x,y'` is two tips) -/
theorem needs_no_metachar_even_quoted : roundTripModel ratCodec.toCodec (root3 (leafE NIL "'x,y'")) = false := by decide +kernel
/-- … while quotes, blanks inside and NHX-style comments as such are harmless -/
theorem quotes_blanks_nhx_roundtrip :
    roundTripModel ratCodec.toCodec (root3 (innerAB ⟨1, NIL, NIL, ["&&NHX:S=x:E=1.1.1"], 0⟩ ⟨"'Homo sapiens'", ["&&NHX:B=100", "&!color=#ff0000"]⟩)) = true ∧
    roundTripModel ratCodec.toCodec (root3 (leafE 2 "it''s \"x\" y")) = true := by decide +kernel
/-- a numeric-looking root name is ignored by the parser ("support attached to the root") -/
theorem needs_nonnumeric_root_name :
    roundTripModel ratCodec.toCodec (.node ⟨"1r2", []⟩ 0 [leafE NIL "a", leafE NIL "b"]) = false := by decide +kernel
/-- and the same shapes inside WF01 do round-trip (the witnesses are not broken for another reason) -/
theorem witnesses_control :
    roundTripModel ratCodec.toCodec (root3 (leafE NIL "x")) = true ∧
    roundTripModel ratCodec.toCodec (root3 (innerAB ⟨1, 1/2, 1/4, ["x"], 0⟩ ⟨"", ["a[b"]⟩)) = true ∧
    roundTripModel ratCodec.toCodec (root3 (innerAB ⟨NIL, NIL, NIL, [], 0⟩ ⟨"1r2/x", []⟩)) = true := by decide +kernel

/-! ### fix 331c4ae (writer, root with a single neighbour): regression theorems -/

def root1 : T := .node ⟨"R", ["rc"]⟩ 0 [innerAB ⟨1, 1/2, NIL, [], 0⟩ ⟨"", []⟩]

example : WF01r ratCodec.isFloat ratCodec.dom root1 = true := by decide +kernel
example : String.ofList (Newick.write ratCodec.toCodec root1) = "((a,b)1r2:1r1)R[rc];" := by decide +kernel

/-- with the writer as it is now a root with one child round-trips (instance of `parse_write_gen`) … -/
theorem root1_roundtrip : roundTripModel ratCodec.toCodec root1 = true := by decide +kernel

/-- … while the text of the writer pinned before the fix, "(a,b)1r2:1r1R[rc];", is not read back as the tree. -/
theorem writePinned_root1_fails :
    (match Newick.parse ratCodec.toCodec (Newick.writePinned ratCodec.toCodec root1) with
     | .ok t' => sameTree root1 t'
     | _ => false) = false := by decide +kernel

/-! ### the hypotheses are satisfiable (lawful codec `ratCodec`, a non-trivial tree) -/

/-- unrooted, a multifurcation, support/p-value next to two node comments and a branch comment, an inner
    name with a slash, a numeric-looking tip, a blank inside a tip name, absent / zero / negative / fractional
    lengths, root name and root comment, non-zero parent position and arbitrary branch ids -/
def exTree : T :=
  .node ⟨"root", ["rc"]⟩ 0
    [ (⟨3, 9/10, 1/20, ["bc"], 7⟩, .node ⟨"", ["c1", "c;2"]⟩ 0
        [ (⟨1/2, NIL, NIL, [], 0⟩, T.leaf "a"), (⟨NIL, NIL, NIL, [], 0⟩, T.leaf "b c"), (⟨0, NIL, NIL, [], 0⟩, T.leaf "100") ]),
      (⟨NIL, NIL, NIL, [], 3⟩, .node ⟨"N1/x", []⟩ 2 [ (⟨2, NIL, NIL, ["k"], 0⟩, T.leaf "c"), (⟨NIL, NIL, NIL, [], 0⟩, T.leaf "d") ]),
      (⟨-5/4, NIL, NIL, [], 0⟩, T.leaf "e") ]

example : WF01 ratCodec.isFloat ratCodec.dom exTree = true := by decide +kernel
example : String.ofList (Newick.write ratCodec.toCodec exTree) =
    "((a:1r2,b c,100:0r1)9r10/1r20[c1][c;2]:3r1[bc],(c:2r1[k],d)N1/x,e:-5r4)root[rc];" := by decide +kernel
example : Newick.parse ratCodec.toCodec (Newick.write ratCodec.toCodec exTree) = .ok exTree.normIds :=
  parse_write ratCodec exTree (by decide +kernel)

/-- Non-vacuity, as a theorem: there is a lawful codec and a WF01 tree with a multifurcation, comments,
    a support with p-value and non-integer values for which the round trip holds. -/
theorem parse_write_nonvacuous :
    ∃ (C : FloatCodec) (t : T), WF01 C.isFloat C.dom t = true ∧
      Newick.parse C.toCodec (Newick.write C.toCodec t) = .ok t.normIds :=
  ⟨ratCodec, exTree, by decide +kernel, parse_write ratCodec exTree (by decide +kernel)⟩

end Gotree.C01
