/-
  C03 — helper lemmas (core Lean; mutual structural inductions over `T` / `Kids`).

  Technique for the "global" statements (about positions in the whole tree `R`):
  the loops are stated for a node at path `p` of `R` whose kids are `pre ++ k`,
  with the loop index `pre.length`; a step moves the head of `k` to the end of `pre`.
-/
import Gotree.Spec.C03

namespace Gotree.C03
open Gotree

def lf (n : String) : EdgeD × T := (EdgeD.blank, T.leaf n)
def inn (k : Kids) : EdgeD × T := (EdgeD.blank, T.node ⟨"", []⟩ 0 k)

/-- the 18-node witness of DESIGN §1 (F8): 10 tips, 7 internal branches, unrooted -/
def witness18 : T :=
  T.node ⟨"", []⟩ 0
    [inn [inn [lf "a", lf "b"], inn [lf "c", lf "d"]],
     inn [inn [lf "e", lf "f"], lf "g"],
     inn [inn [lf "h", lf "i"], lf "j"]]

/- ## the guard `len(edge.right.neigh) > 1` only skips an empty loop -/

@[simp] theorem edgesRecur_node (p : Path) (d pp k) : edgesRecur p (.node d pp k) = edgesLoop p 0 k := by
  cases k with
  | nil => simp [edgesRecur, edgesLoop]
  | cons a l => simp [edgesRecur]

@[simp] theorem internalEdgesRecur_node (p : Path) (d pp k) :
    internalEdgesRecur p (.node d pp k) = internalLoop p 0 k := by
  cases k with
  | nil => simp [internalEdgesRecur, internalLoop]
  | cons a l => simp [internalEdgesRecur]

@[simp] theorem tipEdgesRecur_node (p : Path) (d pp k) : tipEdgesRecur p (.node d pp k) = tipEdgesLoop p 0 k := by
  cases k with
  | nil => simp [tipEdgesRecur, tipEdgesLoop]
  | cons a l => simp [tipEdgesRecur]

/- ## positions -/

theorem subtreeAt_snoc (R : T) (p : Path) (i : Nat) :
    subtreeAt R (p ++ [i]) = (subtreeAt R p).bind (fun t => (t.kids[i]?).map (·.2)) := by
  induction p generalizing R with
  | nil =>
    simp
    cases h : R.kids[i]? with
    | none => simp [subtreeAt, h]
    | some x => cases x; simp [subtreeAt, h]
  | cons j q ih =>
    simp [subtreeAt]
    cases h : R.kids[j]? with
    | none => simp
    | some x => cases x; simp [ih]

theorem at_kid {R : T} {p : Path} {d pp} {pre : Kids} {e t r}
    (h : subtreeAt R p = some (.node d pp (pre ++ (e, t) :: r))) :
    subtreeAt R (p ++ [pre.length]) = some t := by
  rw [subtreeAt_snoc, h]
  simp

theorem at_next {R : T} {p : Path} {d pp} {pre : Kids} {e t r}
    (h : subtreeAt R p = some (.node d pp (pre ++ (e, t) :: r))) :
    subtreeAt R p = some (.node d pp ((pre ++ [(e, t)]) ++ r)) := by
  simpa using h

theorem snoc_not_empty (p : Path) (i : Nat) : (p ++ [i]).isEmpty = false := by cases p <;> rfl

/-- is the lower end of a listed branch a tip of `R` -/
def edgeToTip (R : T) (r : EdgeRef) : Bool := isTipAt R r.path
/-- is a listed node a tip of `R` -/
def nodeIsTip (R : T) (r : NodeRef) : Bool := isTipAt R r.path

theorem isTipAt_kid {R : T} {p : Path} {i : Nat} {t : T} (h : subtreeAt R (p ++ [i]) = some t) :
    isTipAt R (p ++ [i]) = isTip true t := by
  simp [isTipAt, h, snoc_not_empty]

/- ## TipEdges = the listed branches that end in a tip -/
mutual
theorem tipEdgesRecur_filter (R : T) : (t : T) → (p : Path) → subtreeAt R p = some t →
    tipEdgesRecur p t = (edgesRecur p t).filter (edgeToTip R)
  | .node d pp k, p, h => by
    simp only [tipEdgesRecur_node, edgesRecur_node]
    exact tipEdgesLoop_filter R k p d pp [] (by simpa using h)
theorem tipEdgesLoop_filter (R : T) : (k : Kids) → (p : Path) → (d : NodeD) → (pp : Nat) → (pre : Kids) →
    subtreeAt R p = some (.node d pp (pre ++ k)) →
    tipEdgesLoop p pre.length k = (edgesLoop p pre.length k).filter (edgeToTip R)
  | [], _, _, _, _, _ => by simp [tipEdgesLoop, edgesLoop]
  | (e, t) :: r, p, d, pp, pre, h => by
    have ht := at_kid h
    have ih1 := tipEdgesRecur_filter R t (p ++ [pre.length]) ht
    have ih2 := tipEdgesLoop_filter R r p d pp (pre ++ [(e, t)]) (at_next h)
    simp only [List.length_append, List.length_cons, List.length_nil, Nat.zero_add] at ih2
    simp only [tipEdgesLoop, edgesLoop, List.filter_cons, List.filter_append, edgeToTip, isTipAt_kid ht]
    rw [ih1, ih2]
    cases isTip true t <;> simp [edgeToTip]
end

/- ## InternalEdges = the listed branches that do not end in a tip -/

theorem edgesLoop_of_tip {t : T} (h : isTip true t = true) (p : Path) : edgesRecur p t = [] := by
  cases t with
  | node d pp k =>
    cases k with
    | nil => simp [edgesLoop]
    | cons a l => simp [isTip, nneigh] at h

mutual
theorem internalEdgesRecur_filter (R : T) : (t : T) → (p : Path) → subtreeAt R p = some t →
    internalEdgesRecur p t = (edgesRecur p t).filter (fun r => !edgeToTip R r)
  | .node d pp k, p, h => by
    simp only [internalEdgesRecur_node, edgesRecur_node]
    exact internalLoop_filter R k p d pp [] (by simpa using h)
theorem internalLoop_filter (R : T) : (k : Kids) → (p : Path) → (d : NodeD) → (pp : Nat) → (pre : Kids) →
    subtreeAt R p = some (.node d pp (pre ++ k)) →
    internalLoop p pre.length k = (edgesLoop p pre.length k).filter (fun r => !edgeToTip R r)
  | [], _, _, _, _, _ => by simp [internalLoop, edgesLoop]
  | (e, t) :: r, p, d, pp, pre, h => by
    have ht := at_kid h
    have ih1 := internalEdgesRecur_filter R t (p ++ [pre.length]) ht
    have ih2 := internalLoop_filter R r p d pp (pre ++ [(e, t)]) (at_next h)
    simp only [List.length_append, List.length_cons, List.length_nil, Nat.zero_add] at ih2
    simp only [internalLoop, edgesLoop, List.filter_cons, List.filter_append, edgeToTip, isTipAt_kid ht]
    rw [ih1, ih2]
    cases hq : isTip true t
    · simp [edgeToTip]
    · simp [edgeToTip, edgesLoop_of_tip hq]
end

/- ## Tips = the listed nodes that have exactly one neighbour -/
mutual
theorem tipsRecur_filter (R : T) : (t : T) → (p : Path) → subtreeAt R p = some t →
    tipsRecur (!p.isEmpty) p t = (nodesRecur p t).filter (nodeIsTip R)
  | .node d pp k, p, h => by
    have ih := tipsLoop_filter R k p d pp [] (by simpa using h)
    simp only [List.length_nil] at ih
    simp only [tipsRecur, nodesRecur, List.filter_cons, nodeIsTip, isTipAt, h, isTip, nneigh, T.kids_node]
    rw [ih]
    cases hq : (k.length + (if (!p.isEmpty) = true then 1 else 0) == 1) <;> simp [nodeIsTip]
theorem tipsLoop_filter (R : T) : (k : Kids) → (p : Path) → (d : NodeD) → (pp : Nat) → (pre : Kids) →
    subtreeAt R p = some (.node d pp (pre ++ k)) →
    tipsLoop p pre.length k = (nodesLoop p pre.length k).filter (nodeIsTip R)
  | [], _, _, _, _, _ => by simp [tipsLoop, nodesLoop]
  | (e, t) :: r, p, d, pp, pre, h => by
    have ht := at_kid h
    have ih1 := tipsRecur_filter R t (p ++ [pre.length]) ht
    have ih2 := tipsLoop_filter R r p d pp (pre ++ [(e, t)]) (at_next h)
    simp only [List.length_append, List.length_cons, List.length_nil, Nat.zero_add] at ih2
    simp only [snoc_not_empty, Bool.not_false] at ih1
    simp only [tipsLoop, nodesLoop, List.filter_append]
    rw [ih1, ih2]
end

/- ## the paths listed are those of the plain walk -/
mutual
theorem nodesRecur_paths : (t : T) → (p : Path) → (nodesRecur p t).map (·.path) = allPathsFrom p t
  | .node d pp k, p => by simp [nodesRecur, allPathsFrom, nodesLoop_paths k p 0]
theorem nodesLoop_paths : (k : Kids) → (p : Path) → (i : Nat) → (nodesLoop p i k).map (·.path) = allPathsL p i k
  | [], _, _ => by simp [nodesLoop, allPathsL]
  | (e, t) :: r, p, i => by
    simp [nodesLoop, allPathsL, nodesRecur_paths t (p ++ [i]), nodesLoop_paths r p (i + 1)]
end

mutual
theorem edgesRecur_paths : (t : T) → (p : Path) → p :: (edgesRecur p t).map (·.path) = allPathsFrom p t
  | .node d pp k, p => by simp [allPathsFrom, edgesLoop_paths k p 0]
theorem edgesLoop_paths : (k : Kids) → (p : Path) → (i : Nat) → (edgesLoop p i k).map (·.path) = allPathsL p i k
  | [], _, _ => by simp [edgesLoop, allPathsL]
  | (e, t) :: r, p, i => by
    have h1 := edgesRecur_paths t (p ++ [i])
    have h2 := edgesLoop_paths r p (i + 1)
    simp only [edgesLoop, allPathsL, List.map_cons, List.map_append, h2, ← h1, List.cons_append]
end

/- ## the data listed are those of Core's spec-level definitions -/
mutual
theorem nodesRecur_names : (t : T) → (p : Path) → (nodesRecur p t).map (·.d.name) = t.nodeNames
  | .node d pp k, p => by simp [nodesRecur, T.nodeNames, nodesLoop_names k p 0]
theorem nodesLoop_names : (k : Kids) → (p : Path) → (i : Nat) → (nodesLoop p i k).map (·.d.name) = nodeNamesL k
  | [], _, _ => by simp [nodesLoop, nodeNamesL]
  | (e, t) :: r, p, i => by
    simp [nodesLoop, nodeNamesL, nodesRecur_names t (p ++ [i]), nodesLoop_names r p (i + 1)]
end

mutual
theorem tipsRecur_names : (t : T) → (p : Path) → (tipsRecur true p t).map (·.d.name) = t.leaves
  | .node d pp [], p => by simp [tipsRecur, tipsLoop, T.leaves]
  | .node d pp (a :: l), p => by
    simp [tipsRecur, T.leaves, tipsLoop_names (a :: l) p 0]
theorem tipsLoop_names : (k : Kids) → (p : Path) → (i : Nat) → (tipsLoop p i k).map (·.d.name) = leavesL k
  | [], _, _ => by simp [tipsLoop, leavesL]
  | (e, t) :: r, p, i => by
    simp [tipsLoop, leavesL, tipsRecur_names t (p ++ [i]), tipsLoop_names r p (i + 1)]
end

mutual
theorem edgesRecur_data : (t : T) → (p : Path) → (edgesRecur p t).map (·.e) = t.splitsBelow.map (·.e)
  | .node d pp k, p => by simp [T.splitsBelow, edgesLoop_data k p 0]
theorem edgesLoop_data : (k : Kids) → (p : Path) → (i : Nat) → (edgesLoop p i k).map (·.e) = (splitsL k).map (·.e)
  | [], _, _ => by simp [edgesLoop, splitsL]
  | (e, t) :: r, p, i => by
    simp [edgesLoop, splitsL, edgesRecur_data t (p ++ [i]), edgesLoop_data r p (i + 1)]
end

theorem isTip_true_eq_isLeaf (t : T) : isTip true t = t.isLeaf := by
  cases t with
  | node d pp k => cases k <;> simp [isTip, nneigh, T.isLeaf]

mutual
theorem tipEdgesRecur_data : (t : T) → (p : Path) →
    (tipEdgesRecur p t).map (·.e) = (t.splitsBelow.filter (·.tip)).map (·.e)
  | .node d pp k, p => by simp [T.splitsBelow, tipEdgesLoop_data k p 0]
theorem tipEdgesLoop_data : (k : Kids) → (p : Path) → (i : Nat) →
    (tipEdgesLoop p i k).map (·.e) = ((splitsL k).filter (·.tip)).map (·.e)
  | [], _, _ => by simp [tipEdgesLoop, splitsL]
  | (e, t) :: r, p, i => by
    have h1 := tipEdgesRecur_data t (p ++ [i])
    have h2 := tipEdgesLoop_data r p (i + 1)
    simp only [tipEdgesLoop, splitsL, List.filter_cons, List.filter_append, List.map_append, h1, h2,
      isTip_true_eq_isLeaf]
    cases t.isLeaf <;> simp
end

theorem splitsBelow_of_leaf {t : T} (h : t.isLeaf = true) : t.splitsBelow = [] := by
  cases t with
  | node d pp k => cases k with
    | nil => simp [T.splitsBelow, splitsL]
    | cons a l => simp [T.isLeaf] at h

mutual
theorem internalEdgesRecur_data : (t : T) → (p : Path) →
    (internalEdgesRecur p t).map (·.e) = (t.splitsBelow.filter (! ·.tip)).map (·.e)
  | .node d pp k, p => by simp [T.splitsBelow, internalLoop_data k p 0]
theorem internalLoop_data : (k : Kids) → (p : Path) → (i : Nat) →
    (internalLoop p i k).map (·.e) = ((splitsL k).filter (! ·.tip)).map (·.e)
  | [], _, _ => by simp [internalLoop, splitsL]
  | (e, t) :: r, p, i => by
    have h1 := internalEdgesRecur_data t (p ++ [i])
    have h2 := internalLoop_data r p (i + 1)
    simp only [internalLoop, splitsL, List.filter_cons, List.filter_append, List.map_append, h2,
      isTip_true_eq_isLeaf]
    cases hq : t.isLeaf
    · simp [h1]
    · simp [splitsBelow_of_leaf hq]
end

/- ## every listed branch is a (parent, child) link of the tree -/

/-- the listed branch sits at position `i` of the kids of the node at `q`, carries the
    data of that link, and its lower end is the subtree hanging there -/
def Oriented (R : T) (r : EdgeRef) : Prop :=
  ∃ (q : Path) (i : Nat) (parent child : T),
    r.path = q ++ [i] ∧ subtreeAt R q = some parent ∧ parent.kids[i]? = some (r.e, child) ∧
    subtreeAt R r.path = some child

mutual
theorem edgesRecur_oriented (R : T) : (t : T) → (p : Path) → subtreeAt R p = some t →
    ∀ r ∈ edgesRecur p t, Oriented R r
  | .node d pp k, p, h => by
    simp only [edgesRecur_node]
    exact edgesLoop_oriented R k p d pp [] (by simpa using h)
theorem edgesLoop_oriented (R : T) : (k : Kids) → (p : Path) → (d : NodeD) → (pp : Nat) → (pre : Kids) →
    subtreeAt R p = some (.node d pp (pre ++ k)) →
    ∀ r ∈ edgesLoop p pre.length k, Oriented R r
  | [], _, _, _, _, _ => by simp [edgesLoop]
  | (e, t) :: r, p, d, pp, pre, h => by
    have ht := at_kid h
    have ih1 := edgesRecur_oriented R t (p ++ [pre.length]) ht
    have ih2 := edgesLoop_oriented R r p d pp (pre ++ [(e, t)]) (at_next h)
    simp only [List.length_append, List.length_cons, List.length_nil, Nat.zero_add] at ih2
    intro x hx
    simp only [edgesLoop, List.mem_cons, List.mem_append] at hx
    rcases hx with hx | hx | hx
    · subst hx
      exact ⟨p, pre.length, _, t, rfl, h, by simp, ht⟩
    · exact ih1 x hx
    · exact ih2 x hx
end

/- ## every listed node is the node of the tree at its path -/
mutual
theorem nodesRecur_valid (R : T) : (t : T) → (p : Path) → subtreeAt R p = some t →
    ∀ r ∈ nodesRecur p t, ∃ s, subtreeAt R r.path = some s ∧ s.d = r.d
  | .node d pp k, p, h => by
    intro x hx
    simp only [nodesRecur, List.mem_cons] at hx
    rcases hx with hx | hx
    · subst hx; exact ⟨_, h, rfl⟩
    · exact nodesLoop_valid R k p d pp [] (by simpa using h) x hx
theorem nodesLoop_valid (R : T) : (k : Kids) → (p : Path) → (d : NodeD) → (pp : Nat) → (pre : Kids) →
    subtreeAt R p = some (.node d pp (pre ++ k)) →
    ∀ r ∈ nodesLoop p pre.length k, ∃ s, subtreeAt R r.path = some s ∧ s.d = r.d
  | [], _, _, _, _, _ => by simp [nodesLoop]
  | (e, t) :: r, p, d, pp, pre, h => by
    have ht := at_kid h
    have ih1 := nodesRecur_valid R t (p ++ [pre.length]) ht
    have ih2 := nodesLoop_valid R r p d pp (pre ++ [(e, t)]) (at_next h)
    simp only [List.length_append, List.length_cons, List.length_nil, Nat.zero_add] at ih2
    intro x hx
    simp only [nodesLoop, List.mem_append] at hx
    rcases hx with hx | hx
    · exact ih1 x hx
    · exact ih2 x hx
end

/- ## no node is met twice by the plain walk -/

mutual
theorem allPathsFrom_prefix : (t : T) → (p : Path) → ∀ q ∈ allPathsFrom p t, p <+: q
  | .node d pp k, p => by
    intro q hq
    simp only [allPathsFrom, List.mem_cons] at hq
    rcases hq with hq | hq
    · subst hq; exact List.prefix_refl _
    · obtain ⟨j, _, hj⟩ := allPathsL_prefix k p 0 q hq
      exact (List.prefix_append p [j]).trans hj
theorem allPathsL_prefix : (k : Kids) → (p : Path) → (i : Nat) → ∀ q ∈ allPathsL p i k, ∃ j, i ≤ j ∧ (p ++ [j]) <+: q
  | [], _, _ => by simp [allPathsL]
  | (e, t) :: r, p, i => by
    intro q hq
    simp only [allPathsL, List.mem_append] at hq
    rcases hq with hq | hq
    · exact ⟨i, Nat.le_refl _, allPathsFrom_prefix t (p ++ [i]) q hq⟩
    · obtain ⟨j, hj, hp⟩ := allPathsL_prefix r p (i + 1) q hq
      exact ⟨j, by omega, hp⟩
end

theorem snoc_prefix_inj {p q : Path} {i j : Nat} (h1 : (p ++ [i]) <+: q) (h2 : (p ++ [j]) <+: q) : i = j := by
  have h3 : (p ++ [i]) <+: (p ++ [j]) := List.prefix_of_prefix_length_le h1 h2 (by simp)
  have h4 : p ++ [i] = p ++ [j] := h3.eq_of_length (by simp)
  simpa using h4

mutual
theorem allPathsFrom_nodup : (t : T) → (p : Path) → (allPathsFrom p t).Nodup
  | .node d pp k, p => by
    simp only [allPathsFrom, List.nodup_cons]
    refine ⟨?_, allPathsL_nodup k p 0⟩
    intro hm
    obtain ⟨j, _, hj⟩ := allPathsL_prefix k p 0 p hm
    have := hj.length_le
    simp at this
    omega
theorem allPathsL_nodup : (k : Kids) → (p : Path) → (i : Nat) → (allPathsL p i k).Nodup
  | [], _, _ => by simp [allPathsL]
  | (e, t) :: r, p, i => by
    simp only [allPathsL]
    refine List.nodup_append.mpr ⟨allPathsFrom_nodup t (p ++ [i]), allPathsL_nodup r p (i + 1), ?_⟩
    intro a ha b hb hab
    subst hab
    have h1 := allPathsFrom_prefix t (p ++ [i]) a ha
    obtain ⟨j, hj, h2⟩ := allPathsL_prefix r p (i + 1) a hb
    have := snoc_prefix_inj h1 h2
    omega
end
/- ## multisets of paths: equal after sorting iff permutations -/

theorem pathLe_total : ∀ (a b : Path), (pathLe a b || pathLe b a) = true
  | [], _ => by simp [pathLe]
  | _ :: _, [] => by simp [pathLe]
  | a :: p, b :: q => by
    have ih := pathLe_total p q
    simp only [pathLe, Bool.or_eq_true, Bool.and_eq_true, decide_eq_true_eq, beq_iff_eq] at ih ⊢
    rcases Nat.lt_trichotomy a b with h | h | h
    · exact Or.inl (Or.inl h)
    · subst h
      rcases ih with ih | ih
      · exact Or.inl (Or.inr ⟨rfl, ih⟩)
      · exact Or.inr (Or.inr ⟨rfl, ih⟩)
    · exact Or.inr (Or.inl h)

theorem pathLe_trans : ∀ (a b c : Path), pathLe a b = true → pathLe b c = true → pathLe a c = true
  | [], _, _, _, _ => by simp [pathLe]
  | _ :: _, [], _, h, _ => by simp [pathLe] at h
  | _ :: _, _ :: _, [], _, h => by simp [pathLe] at h
  | a :: p, b :: q, c :: r, h1, h2 => by
    simp only [pathLe, Bool.or_eq_true, Bool.and_eq_true, decide_eq_true_eq, beq_iff_eq] at h1 h2 ⊢
    rcases h1 with h1 | ⟨h1, h1'⟩
    · rcases h2 with h2 | ⟨h2, _⟩
      · exact Or.inl (by omega)
      · exact Or.inl (by omega)
    · rcases h2 with h2 | ⟨h2, h2'⟩
      · exact Or.inl (by omega)
      · exact Or.inr ⟨by omega, pathLe_trans p q r h1' h2'⟩

theorem pathLe_antisymm : ∀ (a b : Path), pathLe a b = true → pathLe b a = true → a = b
  | [], [], _, _ => rfl
  | [], _ :: _, _, h => by simp [pathLe] at h
  | _ :: _, [], h, _ => by simp [pathLe] at h
  | a :: p, b :: q, h1, h2 => by
    simp only [pathLe, Bool.or_eq_true, Bool.and_eq_true, decide_eq_true_eq, beq_iff_eq] at h1 h2
    rcases h1 with h1 | ⟨h1, h1'⟩
    · rcases h2 with h2 | ⟨h2, _⟩ <;> omega
    · rcases h2 with h2 | ⟨_, h2'⟩
      · omega
      · rw [h1, pathLe_antisymm p q h1' h2']

theorem sortPaths_perm {l₁ l₂ : List Path} (h : l₁.Perm l₂) : sortPaths l₁ = sortPaths l₂ := by
  unfold sortPaths
  apply List.Perm.eq_of_pairwise (le := fun a b => pathLe a b = true)
  · intro a b _ _ h1 h2; exact pathLe_antisymm a b h1 h2
  · exact List.pairwise_mergeSort pathLe_trans pathLe_total l₁
  · exact List.pairwise_mergeSort pathLe_trans pathLe_total l₂
  · exact (List.mergeSort_perm l₁ pathLe).trans (h.trans (List.mergeSort_perm l₂ pathLe).symm)

theorem sameBag_of_perm {l₁ l₂ : List Path} (h : l₁.Perm l₂) : sameBag l₁ l₂ = true := by
  simp [sameBag, sortPaths_perm h]

end Gotree.C03
