/-
  C04 — the facts about the source that the hand-written model and the harness copy silently, spelled
  out so that they can be compared with the tables regenerated from the source on every run
  (`lean/Gotree/Gen/C04Facts.lean`, written by `harness/c04/extract.go`; decided in `Proofs/C04.lean`).
  Core Lean only.
-/
namespace Gotree.C04.Facts

def all4 : List String := ["UpdateTipIndex", "ClearBitSets", "UpdateBitSet", "ComputeEdgeHashes"]
def internal3 : List String := ["ClearBitSets", "UpdateBitSet", "ComputeEdgeHashes"]

/-- Which index routines each edit of the histories runs by itself — what `ownRecompute` of the harness
    assumes when it reads the indexes straight after the edit, and what `reinitLit3` /
    `reinitInternalLit` are models of.  (`⊆`: the edit must reach AT LEAST these.) -/
def assumedReach : List (String × List String) := [
  ("Tree.ReinitIndexes", all4),                 -- script step `reinit`            : model `reinitLit3`
  ("Tree.ReinitInternalIndexes", internal3),    -- script step `internal`          : model `reinitInternalLit`
  ("Tree.ShuffleTips", all4),                   -- `shuffle`
  ("Tree.UnRoot", all4),                        -- `unroot`
  ("Tree.RemoveTips", all4),                    -- `remove`  (UpdateTipIndex + ReinitInternalIndexes)
  ("Tree.Reroot", internal3),                   -- `reroot`
  ("Tree.Resolve", internal3),                  -- `resolve`
  ("Tree.CollapseShortBranches", internal3),    -- `collapse` (through RemoveEdges)
  ("Tree.RemoveEdges", internal3),
  ("Tree.RemoveSingleNodes", internal3),        -- `singles`
  ("Tree.RerootMidPoint", internal3),           -- `midpoint`
  ("Tree.RerootOutGroup", internal3),           -- `outgroup`
  ("Tree.Clone", ["UpdateTipIndex"])]           -- `clone` (the copy's tip index; bitsets are copied)

def lookup (tbl : List (String × List String)) (k : String) : Option (List String) :=
  (tbl.find? fun r => r.1 == k).map (·.2)

/-- every assumed row is in the regenerated table with at least the assumed routines -/
def reachOK (tbl : List (String × List String)) : Bool :=
  assumedReach.all fun r =>
    match lookup tbl r.1 with
    | some got => r.2.all fun x => got.contains x
    | none => false

/-- The one-line decisions of the source the model copies (skeleton = if-conditions, return expressions,
    assignments as printed by go/printer), next to the Lean definition that is their model. -/
def assumedFacts : List (String × List String) := [
  -- `indexFor`  (Model/C04HM.lean)
  ("indexFor", ["ret hashcode & (capacity - 1)"]),
  -- `HM.new`: size 0 means one bucket
  ("NewHashMap", ["if size == 0", "set size = 1", "ret &HashMap{ mapArray: make([]Bucket, size), capacity: size, loadfactor: loadfactor, total: 0, }"]),
  -- `goPolicy` (`>=`, float64 product) and `HM.rehash` (`2 * m.cap`, re-insertion of every bucket of the old array)
  ("HashMap.rehash", ["if float64(em.total) >= float64(em.capacity)*em.loadfactor", "set newcapacity := em.capacity * 2", "set newmap := make([]Bucket, newcapacity)", "range _, b of em.mapArray", "set em.capacity = newcapacity", "set em.mapArray = newmap"]),
  -- `fnv1a`
  ("tax_hash", ["set h := fnv.New64a()", "call h.Write([]byte(s))", "ret h.Sum64()"]),
  -- `dumpBitSetL` (Model/C04Dump.lean): positions Len-1 .. 0, then a dot (since 405e36d)
  ("Edge.DumpBitSet", ["if e.bitset == nil", "ret \"nil\"", "var var s strings.Builder", "for i := e.bitset.Len(); i > 0; i--", "if e.bitset.Test(i - 1)", "call s.WriteByte('1')", "else", "call s.WriteByte('0')", "call s.WriteByte('.')", "ret s.String()"]),
  -- `EdgeIdx.hashCode`
  ("Edge.HashCode", ["var var hashcode uint64 = 0", "if e.ntaxleft == e.ntaxright", "set hashcode = e.hashcodeleft * e.hashcoderight", "else", "if e.ntaxleft < e.ntaxright", "set hashcode = e.hashcodeleft", "else", "set hashcode = e.hashcoderight", "ret hashcode"]),
  -- `EdgeIdx.equals`
  ("Edge.HashEquals", ["ret e.bitset.EqualOrComplement(h.(*Edge).bitset)"]),
  -- `EdgeIdx.sameBipartition`
  ("Edge.SameBipartition", ["if e.HashCode() != e2.HashCode()", "ret false", "ret e.bitset.EqualOrComplement(e2.bitset)"]),
  -- `EdgeIdx.topoDepth`
  ("Edge.TopoDepth", ["if e.ntaxleft == 0 || e.ntaxright == 0", "ret mutils.Min(e.ntaxleft, e.ntaxright), nil"]),
  -- `eiKeep`
  ("EdgeIndex.Edges", ["set keyvalues := em.hash.KeyValues()", "set bitsets := make([]*KeyValue, 0, len(keyvalues))", "range _, kv of keyvalues", "set e := kv.Key.(*Edge)", "set v := (kv.Value).(*EdgeIndexInfo)", "if (v.Count > minCount && v.Count <= maxCount) || v.Count == maxCount", "set bitsets = append(bitsets, &KeyValue{e, v})", "ret bitsets"]),
  -- `Quartet.hashCode` (Model/C04Q.lean): the five compare-and-swap steps, then the polynomial in 31
  ("Quartet.HashCode", ["set i1, i2, i3, i4 := int(q.T1), int(q.T2), int(q.T3), int(q.T4)", "if i2 < i1", "set i1, i2 = i2, i1", "if i4 < i3", "set i3, i4 = i4, i3", "if i3 < i1", "set i1, i3 = i3, i1", "if i4 < i2", "set i2, i4 = i4, i2", "if i3 < i2", "set i3, i2 = i2, i3", "var var hashCode uint64 = 1", "set hashCode = 31*(31*(31*(31+uint64(i1))+uint64(i2))+uint64(i3)) + uint64(i4)", "ret hashCode"]),
  -- `Quartet.hashEquals`
  ("Quartet.HashEquals", ["set q2 := h.(*Quartet)", "ret q.Compare(q2) != QUARTET_DIFF"]),
  -- `indexQuartets`: every quartet put with itself as value; the capacity the driver replaces by 128 (theorem `indexQuartets_plain_map`: immaterial)
  ("Tree.IndexQuartets", ["set index := hashmap.NewHashMap(12800000, .75)", "set n := 0", "call t.Quartets(specific, func(q *Quartet) { n++ index.PutValue(q, q) })", "ret index"]),
  -- `sortNames`: bytewise order of the names
  ("Tree.SortedTips", ["set tips := t.Tips()", "call sort.Slice(tips, func(i, j int) bool { return strings.Compare(tips[i].Name(), tips[j].Name()) < 0 })", "ret strings.Compare(tips[i].Name(), tips[j].Name()) < 0", "ret tips"]),
  -- `reinitInternalLit`: width of the bitsets = size of the tip index, empty index = error
  ("Tree.ClearBitSets", ["set length := uint(len(t.tipIndex))", "if length == 0", "call t.clearBitSetsRecur(nil, nil, length)", "ret nil"])]

/-- the keys whose regenerated skeleton differs from the assumed one (or is missing) -/
def factsDiff (tbl : List (String × List String)) : List String :=
  assumedFacts.filterMap fun r => if lookup tbl r.1 == some r.2 then none else some r.1

end Gotree.C04.Facts
