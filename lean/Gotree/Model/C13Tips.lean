/-
  C13 — the REPAIR of open finding F60 as a model variant (`…Tips`): the Nexus writer and reader rename
  TIPS ONLY through the translate table,

      for _, tip := range t.Tips() { if n, ok := table[tip.Name()]; ok { tip.SetName(n) } }
      (reader: then `t.UpdateTipIndex()`, whose error — two tips with the same name — is returned)

  instead of `tree.Rename`, which indexes every named node and refuses a repeated inner name.
  Everything else is the code as it is (same text pieces, same lexer, same parser).  The theorems about
  this variant (Proofs/C13.lean, `…_tipsOnly`) show ahead of time that the repair closes the finding.
  Core Lean only.
-/
import Gotree.Model.C13

namespace Gotree.C13
open Gotree

/-- `if n, ok := m[name]; ok { name = n }` -/
def renameKey (m : List (String × String)) (n : String) : String :=
  match lookup m n with | some v => v | none => n

mutual
/-- the tips below a node that has a parent -/
def renameTipsN (m : List (String × String)) : T → T
  | .node d p [] => .node { d with name := renameKey m d.name } p []
  | .node d p (k :: ks) => .node d p (renameTipsL m (k :: ks))
def renameTipsL (m : List (String × String)) : Kids → Kids
  | [] => []
  | (e, t) :: r => (e, renameTipsN m t) :: renameTipsL m r
end

/-- the same from the root (`Tips()`: the root is a tip iff it has exactly one neighbour) -/
def renameTips (m : List (String × String)) : T → T
  | .node d p k => .node (if k.length == 1 then { d with name := renameKey m d.name } else d) p (renameTipsL m k)

/-- reader side: rename the tips, then `UpdateTipIndex` (error when two tips share a name) -/
def renameTipsChecked (m : List (String × String)) (t : T) : Option T :=
  let t' := renameTips m t
  if hasDup t'.tipNames then none else some t'

/-- the tree that is written (the tip loop cannot fail) -/
def writtenTreeTips (translate : Bool) (s : WState) (t : T) : T :=
  if translate then renameTips s.map t else t

def writeNexusLoopTips (C : NewickCodec) (translate : Bool) : List (Nat × T) → WState → Txt → WState × Txt
  | [], s, buf => (s, buf)
  | it :: r, s, buf =>
    writeNexusLoopTips C translate r (stepState s it.2)
      (buf ++ treeLine C it.1 (writtenTreeTips translate (stepState s it.2) it.2))

/-- `WriteNexus` with the tips-only renaming -/
def writeNexusTips (C : NewickCodec) (translate : Bool) (ts : List (Nat × T)) : Txt :=
  let s := (writeNexusLoopTips C translate ts {} []).1
  let treeBuf := (writeNexusLoopTips C translate ts {} []).2
  lit1 ++ (natTxt s.map.length ++ ';' :: (lit2a ++ (litTaxlabels ++ (labelsText s.slice ++ ';' :: (lit3a ++
  ((if translate then litTranslate ++ (joinMap (translateLine s.map) s.slice ++ litTrEnd) else []) ++
  (treeBuf ++ lit4)))))))

namespace Nex

/-- the loop over `treestrings` at the end of `Parse`, translating the tips only -/
def buildTreesTips (C : NewickCodec) (transl : Option (List (String × String))) (taxlabels : Option (List String)) :
    List (String × Txt) → Option NexDoc
  | [] => some []
  | (name, s) :: r =>
    match C.parse (s ++ [';']) with
    | none => none
    | some t0 =>
      let t? : Option T := match transl with
        | some m => renameTipsChecked m t0
        | none => some t0
      match t? with
      | none => none
      | some t =>
        let okTaxa : Bool := match taxlabels with
          | none => true
          | some labs => t.tipNames.all labs.contains
        if !okTaxa then none else
        match buildTreesTips C transl taxlabels r with
        | none => none
        | some d => some ((name, t) :: d)

/-- `Parse()` with the tips-only translation -/
def parseTips (C : NewickCodec) (doc : Txt) : PRes NexDoc :=
  let toks := scan doc
  if toks.contains .loneCR then .unsupported else
  match toks with
  | .kw .nexus _ :: r =>
    (match parseLoop (r.length + 1) r {} with
     | .err => .err
     | .unsupported => .unsupported
     | .ok st =>
       if st.ntax != -1 && st.ntax != ((st.taxlabels.getD []).length : Int) then .err else
       match st.trees with
       | none => .ok []
       | some l =>
         match buildTreesTips C st.transl st.taxlabels l with
         | none => .err
         | some d => .ok d)
  | _ => .err

end Nex

/-- the trees the tips-only writer emits -/
def writtenListTips : List (Nat × T) → WState → List (Nat × T)
  | [], _ => []
  | it :: r, s => (it.1, writtenTreeTips true (stepState s it.2) it.2) :: writtenListTips r (stepState s it.2)

end Gotree.C13
