/-
  C16 — what the option model `parseGenArgs` computes: unfolding steps (a value option consumes two
  words, `-r` one) and "an option given twice: the last one counts".
-/
import Gotree.Spec.C16Cli

namespace Gotree.C16
open Gotree

theorem parseGenArgs_nil (bal : Bool) (r : GenReq) : parseGenArgs bal [] r = some r := by
  simp [parseGenArgs]

/-- a value option spelled `-x v` / `--xx v` sets its field and the rest is read from the new request -/
theorem parseGenArgs_value_step (bal : Bool) (f v : String) (rest : List String) (r : GenReq) (k : FlagKind)
    (hs : splitFlag f = (f, none)) (hk : flagKind bal f = k) (hr : k ≠ .rooted) (hu : k ≠ .unknown) :
    parseGenArgs bal (f :: v :: rest) r = (setFlag k v r).bind (parseGenArgs bal rest) := by
  subst hk
  rw [parseGenArgs]
  simp only [hs]

/-- `-r` / `--rooted` sets the flag and consumes one word -/
theorem parseGenArgs_rooted_step (bal : Bool) (f : String) (rest : List String) (r : GenReq)
    (hs : splitFlag f = (f, none)) (hk : flagKind bal f = .rooted) :
    parseGenArgs bal (f :: rest) r = parseGenArgs bal rest { r with rooted := true } := by
  cases rest with
  | nil =>
    rw [parseGenArgs_nil, parseGenArgs]
    simp only [hs, hk]
  | cons b rest =>
    rw [parseGenArgs]
    simp only [hs, hk]

/-- the size option given twice: the last one counts (what the `twice` spelling of the command runs tests) -/
theorem parseGenArgs_size_twice (bal : Bool) (f v1 v2 : String) (rest : List String) (r : GenReq) (x1 x2 : Int)
    (hs : splitFlag f = (f, none)) (hk : flagKind bal f = .size) (h1 : v1.toInt? = some x1) (h2 : v2.toInt? = some x2) :
    parseGenArgs bal (f :: v1 :: f :: v2 :: rest) r = parseGenArgs bal (f :: v2 :: rest) r := by
  rw [parseGenArgs_value_step bal f v1 _ r .size hs hk (by intro h; cases h) (by intro h; cases h)]
  rw [parseGenArgs_value_step bal f v2 _ r .size hs hk (by intro h; cases h) (by intro h; cases h)]
  simp only [setFlag, h1, h2, Option.map_some, Option.bind_some]
  rw [parseGenArgs_value_step bal f v2 _ _ .size hs hk (by intro h; cases h) (by intro h; cases h)]
  simp only [setFlag, h2, Option.map_some, Option.bind_some]

/-- an unknown word is a usage error, wherever it stands first -/
theorem parseGenArgs_unknown (bal : Bool) (f : String) (rest : List String) (r : GenReq)
    (hk : flagKind bal (splitFlag f).1 = .unknown) : parseGenArgs bal (f :: rest) r = none := by
  cases rest with
  | nil =>
    rw [parseGenArgs]
    split <;> simp_all
  | cons b rest =>
    rw [parseGenArgs]
    split <;> simp_all

end Gotree.C16
