/-
  C09 — assembly: the star tree satisfies the loop invariant, and the loop of
  `Consensus` over compatible rows gives a tree whose branches are the rows.
-/
import Gotree.Lemmas.C09
import Gotree.Lemmas.C09Loop

namespace Gotree.C09
open Gotree

theorem starOf_kids (t : T) : (starOf t).kids = (t.splits.filter (·.tip)).map fun s =>
    ((⟨s.e.len, NIL, NIL, [], -1⟩ : EdgeD), T.leaf (s.below.headD "")) := rfl

theorem star_splits_singleton (t : T) : ∀ s ∈ (starOf t).splits, ∃ a, s.below = [a] := by
  intro s hs
  unfold T.splits at hs
  rw [starOf_kids] at hs
  obtain ⟨et, het, hse⟩ := mem_splitsL.1 hs
  obtain ⟨x, _, rfl⟩ := List.mem_map.1 het
  simp only [blk, T.leaf, T.leaves, T.splitsBelow, splitsL, List.mem_singleton] at hse
  exact ⟨x.below.headD "", by rw [hse]⟩

/-- the star tree of the first tree satisfies the loop invariant with nothing inserted -/
theorem star_loopInv (first : T) (hnd : first.tipNames.Nodup) (hdeg : 2 ≤ first.kids.length)
    (h2 : 2 ≤ (first.splits.filter (·.tip)).length) :
    LoopInv (starOf first).tipNames (starOf first) [] [] := by
  have hk : 2 ≤ (starOf first).kids.length := by rw [starOf_kids, List.length_map]; exact h2
  have ht := tipNames_eq_leaves (starOf first) hk
  have hst := starOf_tipNames first h2
  have hft := tipNames_eq_leaves first hdeg
  refine ⟨hk, ?_, ?_, ?_, by simp, by simp⟩
  · rw [← ht, hst, ← hft]; exact hnd
  · rw [ht]
  · intro s hs; exact Or.inl (star_splits_singleton first s hs)

/-- the loop of `Consensus` on the star tree, for rows that satisfy `selOK` -/
theorem consensus_loop (first : T) (alltips : List String) (n : Nat) (sel : List Entry)
    (hnd : first.tipNames.Nodup) (hdeg : 2 ≤ first.kids.length)
    (h2 : 2 ≤ (first.splits.filter (·.tip)).length) (halt : alltips = allTipNames first)
    (hsel : selOK (starOf first).tipNames alltips sel = true) :
    ∃ r, applyAll alltips n (starOf first) sel = .ok r ∧
      LoopInv (starOf first).tipNames r (innerRows alltips n sel) (tipRows alltips sel) := by
  have hst := starOf_tipNames first h2
  have hft := tipNames_eq_leaves first hdeg
  have ha : alltips = (starOf first).tipNames := by
    rw [halt, hst, allTipNames_eq first (by omega), hft]
  have hT : (starOf first).tipNames.Nodup := by rw [hst, ← hft]; exact hnd
  have := loop_spec (starOf first).tipNames alltips n hT (by rw [ha]; exact hT) (by rw [ha]; exact fun a h => h)
    sel [] (starOf first) (by simpa using hsel) (by simpa [innerRows, tipRows] using star_loopInv first hnd hdeg h2)
  simpa using this

end Gotree.C09
