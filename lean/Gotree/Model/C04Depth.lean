/-
  C04 — model of `Tree.ComputeDepths` (tree/tree.go:909), the last step of `ReinitIndexes` and
  `ReinitInternalIndexes`: `computeDepthRecurRooted` when the root has two neighbours, else
  `computeDepthUnRooted`, which resets every depth to `NIL_DEPTH` (-1; since 7dc6678) and then fills the unset
  nodes level by level from the tips.  The model takes the depths the nodes had BEFORE the call (pre-order of the
  alpha dump): the pinned variant, without the reset, depends on them.
  Core Lean only.
-/
import Gotree.Model.Core

namespace Gotree.C04
open Gotree

/- parent index (pre-order numbering, root = 0) of every node, pre-order -/
mutual
def parentsT (me : Nat) : T → List Nat × Nat            -- parents of the nodes strictly below, next free index
  | .node _ _ k => parentsL me (me + 1) k
def parentsL (par next : Nat) : Kids → List Nat × Nat
  | [] => ([], next)
  | (_, t) :: r =>
    let a := parentsT next t
    let b := parentsL par a.2 r
    (par :: (a.1 ++ b.1), b.2)
end

/-- `neigh` of every node by pre-order index (parent and children; the order does not matter for the levels) -/
def adjacency (t : T) : List (List Nat) :=
  let ps := (parentsT 0 t).1                      -- parent of node i+1
  (List.range (ps.length + 1)).map fun i =>
    (if i == 0 then [] else [ps.getD (i - 1) 0]) ++
      ((List.range ps.length).filter fun j => ps.getD j 0 == i).map (· + 1)

/-- the `for nbchanged != 0` loop of `computeDepthUnRooted`; `fuel` bounds the number of rounds (every round but the
    last sets at least one node: `number of nodes + 1` rounds are enough) -/
def depthRounds (adj : List (List Nat)) : Nat → List Nat → Int → List Int → List Int
  | 0, _, _, d => d
  | fuel + 1, nodes, level, d =>
    let d' := nodes.foldl (fun d n => if d.getD n 0 == -1 then d.set n level else d) d      -- if n.depth == NIL_DEPTH
    let changed := nodes.any fun n => d.getD n 0 == -1
    if !changed then d'
    else depthRounds adj fuel (nodes.flatMap fun n => (adj.getD n []).filter fun m => d'.getD m 0 == -1) (level + 1) d'

/- `computeDepthRecurRooted`: tips 0, else 1 + the least depth of the children; pre-order list, own depth first -/
mutual
def depthRootedT : T → List Int
  | .node _ _ [] => [0]
  | .node _ _ (k :: ks) =>
    let sub := depthRootedL (k :: ks)
    (1 + sub.1) :: sub.2
def depthRootedL : Kids → Int × List Int                   -- (least depth among these children, their pre-order lists)
  | [] => (-1, [])
  | (_, t) :: r =>
    let a := depthRootedT t
    let b := depthRootedL r
    let da := a.headD 0
    ((if b.1 == -1 || da < b.1 then da else b.1), a ++ b.2)
end

/-- `ComputeDepths` on a tree whose nodes carry the depths `before` (pre-order; -1 = `NIL_DEPTH`).  Since fix 7dc6678
    `computeDepthUnRooted` first resets every node (`for _, n := range t.Nodes() { n.depth = NIL_DEPTH }`): `before`
    is kept as an argument but no longer matters. -/
def computeDepths (t : T) (before : List Int) : List Int :=
  if t.kids.length == 2 then depthRootedT t
  else
    let adj := adjacency t
    let tips := (List.range adj.length).filter fun i => (adj.getD i []).length == 1
    depthRounds adj (adj.length + 1) tips 0 (before.map fun _ => -1)

/-- the pinned `ComputeDepths` (before 7dc6678, finding F98): the unrooted loop ran on the depths as they were -/
def computeDepthsPinned (t : T) (before : List Int) : List Int :=
  if t.kids.length == 2 then depthRootedT t
  else
    let adj := adjacency t
    let tips := (List.range adj.length).filter fun i => (adj.getD i []).length == 1
    depthRounds adj (adj.length + 1) tips 0 before

end Gotree.C04
