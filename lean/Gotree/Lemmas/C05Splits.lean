/-
  C05Splits — shared lemmas about the split list (DESIGN §3.1), owned by C05, meant to be
  imported by C03, C06, C07, C15, C16, C17.  Core Lean only (no Mathlib).

  Part 1 (this section): `leaves`/`splits` of appended kid lists, permutation invariance and
            linearity of `distW`, `sep_compl`, the one-step root move:
            `moveRoot_splits_perm`, `moveRoot_tips`, `moveRoot_dist`.
  Part 2: the unrooted split map `usplitsAll` (`Spec/Splits.lean`): `canonSide_perm`,
            `canonSide_compl`, `ufoldU_perm`, `ufoldU_fuse`, `moveRoot_usplits`.

  Names are kept stable.
-/
import Gotree.Model.C05
import Gotree.Spec.Splits
import Gotree.Lemmas.C14

namespace Gotree
open Gotree.C14 (distW_nil distW_cons distW_append sep_comm distW_comm)

/-! ## basic shapes -/

theorem T.leaves_node (d : NodeD) (p : Nat) (k : Kids) :
    (T.node d p k).leaves = if k.isEmpty then [d.name] else leavesL k := by
  cases k <;> simp [T.leaves]

theorem T.isLeaf_node (d : NodeD) (p : Nat) (k : Kids) : (T.node d p k).isLeaf = k.isEmpty := rfl

theorem T.splitsBelow_node (d : NodeD) (p : Nat) (k : Kids) : (T.node d p k).splitsBelow = splitsL k := by
  simp [T.splitsBelow]

theorem leavesL_nil : leavesL [] = [] := by simp [leavesL]

theorem leavesL_cons (e : EdgeD) (t : T) (r : Kids) : leavesL ((e, t) :: r) = t.leaves ++ leavesL r := by
  simp [leavesL]

theorem leavesL_append (a b : Kids) : leavesL (a ++ b) = leavesL a ++ leavesL b := by
  induction a with
  | nil => simp [leavesL]
  | cons x a ih => obtain ⟨e, t⟩ := x; simp [leavesL, ih]

theorem splitsL_nil : splitsL [] = [] := by simp [splitsL]

theorem splitsL_cons (e : EdgeD) (t : T) (r : Kids) :
    splitsL ((e, t) :: r) = ⟨t.leaves, e, t.isLeaf⟩ :: (t.splitsBelow ++ splitsL r) := by
  simp [splitsL]

theorem splitsL_append (a b : Kids) : splitsL (a ++ b) = splitsL a ++ splitsL b := by
  induction a with
  | nil => simp [splitsL]
  | cons x a ih => obtain ⟨e, t⟩ := x; simp [splitsL, ih]

/-- a non-empty kid list has at least one leaf below it -/
theorem T.leaves_ne_nil : ∀ (t : T), t.leaves ≠ [] := by
  intro t
  induction t using T.induct with
  | h d p k ih =>
    cases k with
    | nil => simp [T.leaves]
    | cons x r =>
      obtain ⟨e, c⟩ := x
      have := ih (e, c) (by simp)
      simp [T.leaves, leavesL, this]

theorem leavesL_ne_nil (k : Kids) (h : k ≠ []) : leavesL k ≠ [] := by
  cases k with
  | nil => exact absurd rfl h
  | cons x r => obtain ⟨e, c⟩ := x; simp [leavesL, T.leaves_ne_nil c]

/-! ## `distW`: permutation invariance, linearity -/

theorem distW_perm (w : EdgeD → Rat) {l₁ l₂ : List SplitE} (h : l₁.Perm l₂) (a b : String) :
    distW w l₁ a b = distW w l₂ a b := by
  induction h with
  | nil => rfl
  | cons x _ ih => rw [distW_cons, distW_cons, ih]
  | swap x y l => simp only [distW_cons]; grind
  | trans _ _ ih₁ ih₂ => exact ih₁.trans ih₂

/-- what one entry contributes depends only on which pairs it separates and on its weight -/
theorem distW_cons_congr (w : EdgeD → Rat) (s s' : SplitE) (l : List SplitE) (a b : String)
    (hs : s.sep a b = s'.sep a b) (hw : w s.e = w s'.e) :
    distW w (s :: l) a b = distW w (s' :: l) a b := by
  rw [distW_cons, distW_cons, hs, hw]

/-- linearity: two entries with the same separation count as one entry carrying the sum -/
theorem distW_fuse (w : EdgeD → Rat) (s₁ s₂ s : SplitE) (l : List SplitE) (a b : String)
    (h₁ : s₁.sep a b = s.sep a b) (h₂ : s₂.sep a b = s.sep a b) (hw : w s.e = w s₁.e + w s₂.e) :
    distW w (s₁ :: s₂ :: l) a b = distW w (s :: l) a b := by
  simp only [distW_cons, h₁, h₂, hw]
  cases s.sep a b <;> simp <;> grind

/-! ## complementary sides separate the same pairs -/

/-- `A` and `B` are complementary among the names `all` (unique): for names of `all`,
    being in `A` is the same as not being in `B`. -/
theorem mem_compl_iff {all A B : List String} (hn : all.Nodup) (hp : (A ++ B).Perm all)
    {x : String} (hx : x ∈ all) : x ∈ A ↔ x ∉ B := by
  have hnd : (A ++ B).Nodup := hp.nodup_iff.2 hn
  have hm : x ∈ A ++ B := hp.mem_iff.2 hx
  rw [List.nodup_append] at hnd
  rw [List.mem_append] at hm
  constructor
  · intro ha hb; exact hnd.2.2 x ha x hb rfl
  · intro hb; exact hm.resolve_right hb

/-- `sep_compl`: complementary sides separate the same pairs of tips (unique names). -/
theorem sep_compl {all A B : List String} (hn : all.Nodup) (hp : (A ++ B).Perm all)
    (e₁ e₂ : EdgeD) (t₁ t₂ : Bool) {a b : String} (ha : a ∈ all) (hb : b ∈ all) :
    (SplitE.mk A e₁ t₁).sep a b = (SplitE.mk B e₂ t₂).sep a b := by
  have h1 := mem_compl_iff hn hp ha
  have h2 := mem_compl_iff hn hp hb
  simp only [SplitE.sep]
  by_cases hA : a ∈ A <;> by_cases hB : b ∈ A <;> simp_all

/-! ## the one-step root move -/

theorem list_split_at {α : Type} : ∀ (l : List α) (i : Nat) (x : α), l[i]? = some x →
    l = l.take i ++ x :: l.drop (i + 1) ∧ l.eraseIdx i = l.take i ++ l.drop (i + 1)
  | [], i, x, h => by simp at h
  | a :: l, 0, x, h => by simp at h; simp [h]
  | a :: l, i + 1, x, h => by
    have := list_split_at l i x (by simpa using h)
    constructor
    · simp only [List.take_succ_cons, List.drop_succ_cons, List.cons_append]; rw [← this.1]
    · simp only [List.eraseIdx_cons_succ, List.take_succ_cons, List.drop_succ_cons, List.cons_append, this.2]

theorem insertAt_perm {α : Type} (l : List α) (i : Nat) (x : α) : (C05.insertAt l i x).Perm (x :: l) := by
  unfold C05.insertAt
  have h : (l.take i ++ x :: l.drop i).Perm (x :: (l.take i ++ l.drop i)) := List.perm_middle
  simpa [List.take_append_drop] using h

theorem leavesL_insertAt (l : Kids) (i : Nat) (e : EdgeD) (t : T) :
    leavesL (C05.insertAt l i (e, t)) = leavesL (l.take i) ++ (t.leaves ++ leavesL (l.drop i)) := by
  simp [C05.insertAt, leavesL_append, leavesL_cons]

theorem splitsL_insertAt (l : Kids) (i : Nat) (e : EdgeD) (t : T) :
    splitsL (C05.insertAt l i (e, t)) =
      splitsL (l.take i) ++ (⟨t.leaves, e, t.isLeaf⟩ :: (t.splitsBelow ++ splitsL (l.drop i))) := by
  simp [C05.insertAt, splitsL_append, splitsL_cons]

/-- the old root as it hangs below the new one after `moveRoot t i` -/
def C05.oldRoot (t : T) (i : Nat) : T := .node t.d i (t.kids.eraseIdx i)

theorem C05.moveRoot_of_get (t : T) (i : Nat) (e : EdgeD) (c : T) (h : t.kids[i]? = some (e, c)) :
    C05.moveRoot t i = .node c.d 0 (C05.insertAt c.kids c.ppos (e, C05.oldRoot t i)) := by
  obtain ⟨d, p, kids⟩ := t
  obtain ⟨dc, pc, kc⟩ := c
  simp only [T.kids_node] at h
  simp [C05.moveRoot, h, C05.oldRoot]

theorem C05.moveRoot_of_none (t : T) (i : Nat) (h : t.kids[i]? = none) : C05.moveRoot t i = t := by
  obtain ⟨d, p, kids⟩ := t
  simp only [T.kids_node] at h
  simp [C05.moveRoot, h]

theorem perm_shuffle4 {α : Type} (a p q d : List α) : (a ++ ((p ++ q) ++ d)).Perm ((p ++ (a ++ d)) ++ q) := by
  simp only [List.append_assoc]
  exact (List.perm_append_comm_assoc a p (q ++ d)).trans
    (List.Perm.append_left p (List.Perm.append_left a List.perm_append_comm))

/-- **Effect of a root move on the split list**: the entry of branch `i` is complemented
    (the leaves below it are replaced by the leaves on the other side), its data are kept,
    nothing else changes (up to order). -/
theorem C05.moveRoot_splits_perm (t : T) (i : Nat) (e : EdgeD) (c : T) (h : t.kids[i]? = some (e, c)) :
    ∃ rest : List SplitE,
      t.splits.Perm (⟨c.leaves, e, c.isLeaf⟩ :: rest) ∧
      (C05.moveRoot t i).splits.Perm (⟨(C05.oldRoot t i).leaves, e, (C05.oldRoot t i).isLeaf⟩ :: rest) := by
  obtain ⟨hk, he⟩ := list_split_at t.kids i (e, c) h
  refine ⟨splitsL (t.kids.take i) ++ c.splitsBelow ++ splitsL (t.kids.drop (i + 1)), ?_, ?_⟩
  · unfold T.splits
    conv => lhs; rw [hk]
    rw [splitsL_append, splitsL_cons]
    have := @List.perm_middle _ (⟨c.leaves, e, c.isLeaf⟩ : SplitE) (splitsL (t.kids.take i))
      (c.splitsBelow ++ splitsL (t.kids.drop (i + 1)))
    simp [List.append_assoc] at this ⊢
  · rw [C05.moveRoot_of_get t i e c h]
    unfold T.splits
    rw [T.kids_node, splitsL_insertAt]
    have hb : (C05.oldRoot t i).splitsBelow = splitsL (t.kids.take i) ++ splitsL (t.kids.drop (i + 1)) := by
      simp [C05.oldRoot, T.splitsBelow_node, he, splitsL_append]
    have hc : c.splitsBelow = splitsL (c.kids.take c.ppos) ++ splitsL (c.kids.drop c.ppos) := by
      obtain ⟨dc, pc, kc⟩ := c
      rw [T.splitsBelow_node, ← splitsL_append]; simp
    rw [hb, hc]
    refine List.perm_middle.trans (List.Perm.cons _ ?_)
    exact (perm_shuffle4 _ _ _ _).trans (by simp [List.append_assoc])

/-- the tips of both trees are the leaves on the two sides of branch `i` -/
theorem C05.moveRoot_tipNames_split (t : T) (i : Nat) (e : EdgeD) (c : T) (h : t.kids[i]? = some (e, c)) :
    (c.leaves ++ (C05.oldRoot t i).leaves).Perm t.tipNames ∧
    (c.leaves ++ (C05.oldRoot t i).leaves).Perm (C05.moveRoot t i).tipNames := by
  obtain ⟨hk, he⟩ := list_split_at t.kids i (e, c) h
  have hold : (C05.oldRoot t i).leaves =
      if (t.kids.take i ++ t.kids.drop (i + 1)).isEmpty then [t.name]
      else leavesL (t.kids.take i) ++ leavesL (t.kids.drop (i + 1)) := by
    simp [C05.oldRoot, T.leaves_node, he, leavesL_append, T.name]
  have hlen : t.kids.length = (t.kids.take i ++ t.kids.drop (i + 1)).length + 1 := by
    conv => lhs; rw [hk]
    simp only [List.length_append, List.length_cons]; omega
  have hkl : leavesL t.kids = leavesL (t.kids.take i) ++ (c.leaves ++ leavesL (t.kids.drop (i + 1))) := by
    have := congrArg leavesL hk
    simpa [leavesL_append, leavesL_cons] using this
  constructor
  · unfold T.tipNames
    rw [hold, hkl]
    generalize t.kids.take i = pre at *
    generalize t.kids.drop (i + 1) = post at *
    by_cases hemp : pre ++ post = []
    · have h1 : pre = [] := (List.append_eq_nil_iff.1 hemp).1
      have h2 : post = [] := (List.append_eq_nil_iff.1 hemp).2
      subst h1; subst h2
      simp only [List.nil_append, List.length_nil, Nat.zero_add] at hlen
      simp [hlen, leavesL_nil]
    · have hne : (pre ++ post).length ≠ 0 := by simpa using hemp
      have h1 : (t.kids.length == 1) = false := by simp; omega
      have h2 : (pre ++ post).isEmpty = false := by simpa using hemp
      simp only [h1, h2, if_false, Bool.false_eq_true, List.nil_append]
      rw [List.perm_iff_count]; intro x
      simp only [List.count_append]; omega
  · rw [C05.moveRoot_of_get t i e c h]
    unfold T.tipNames
    rw [T.kids_node, leavesL_insertAt]
    obtain ⟨dc, pc, kc⟩ := c
    simp only [T.kids_node, T.ppos_node, T.d_node, T.name, T.leaves_node]
    have hl : (C05.insertAt kc pc (e, C05.oldRoot t i)).length = kc.length + 1 := by
      simpa using (insertAt_perm kc pc (e, C05.oldRoot t i)).length_eq
    simp only [hl]
    cases kc with
    | nil => simp [leavesL_nil]
    | cons k ks =>
      have hsplit : leavesL (k :: ks) = leavesL ((k :: ks).take pc) ++ leavesL ((k :: ks).drop pc) := by
        rw [← leavesL_append]; simp
      simp only [List.isEmpty_cons, Bool.false_eq_true, if_false, List.length_cons]
      have : (ks.length + 1 + 1 == 1) = false := by simp
      simp only [this, Bool.false_eq_true, if_false, List.nil_append]
      rw [hsplit]
      rw [List.perm_iff_count]; intro x
      simp only [List.count_append]; omega

/-- `moveRoot_tips`: a root move keeps the tips (as a multiset of names). -/
theorem C05.moveRoot_tips (t : T) (i : Nat) : (C05.moveRoot t i).tipNames.Perm t.tipNames := by
  cases h : t.kids[i]? with
  | none => rw [C05.moveRoot_of_none t i h]
  | some ec =>
    obtain ⟨e, c⟩ := ec
    obtain ⟨h1, h2⟩ := C05.moveRoot_tipNames_split t i e c h
    exact h2.symm.trans h1

/-- `moveRoot_dist` (★): a one-edge root move preserves every tip-to-tip path sum, for any
    branch weight, on a tree with unique tip names. -/
theorem C05.moveRoot_distW (w : EdgeD → Rat) (t : T) (i : Nat) (hu : t.tipNames.Nodup) (a b : String)
    (ha : a ∈ t.tipNames) (hb : b ∈ t.tipNames) :
    distW w (C05.moveRoot t i).splits a b = distW w t.splits a b := by
  cases h : t.kids[i]? with
  | none => rw [C05.moveRoot_of_none t i h]
  | some ec =>
    obtain ⟨e, c⟩ := ec
    obtain ⟨rest, p1, p2⟩ := C05.moveRoot_splits_perm t i e c h
    obtain ⟨q1, _⟩ := C05.moveRoot_tipNames_split t i e c h
    rw [distW_perm w p1, distW_perm w p2]
    exact distW_cons_congr w _ _ rest a b
      (sep_compl hu (List.perm_append_comm.trans q1) e e _ _ ha hb) rfl

theorem C05.moveRoot_dist (t : T) (i : Nat) (hu : t.tipNames.Nodup) (a b : String)
    (ha : a ∈ t.tipNames) (hb : b ∈ t.tipNames) :
    (C05.moveRoot t i).dist a b = t.dist a b :=
  C05.moveRoot_distW EdgeD.lenOr0 t i hu a b ha hb


/-! # Part 2 — the unrooted split map

## fusing lengths and supports -/

def GoodL (x : Rat) : Prop := x = NIL ∨ 0 ≤ x

theorem fuseLen_comm (a b : Rat) : fuseLen a b = fuseLen b a := by
  unfold fuseLen
  by_cases ha : a = NIL <;> by_cases hb : b = NIL <;> simp [ha, hb, Rat.add_comm]

theorem fuseLen_good {a b : Rat} (ha : GoodL a) (hb : GoodL b) : GoodL (fuseLen a b) := by
  unfold fuseLen GoodL NIL at *
  by_cases h1 : a = -1 <;> by_cases h2 : b = -1 <;> simp [h1, h2] <;> grind

theorem fuseLen_assoc {a b c : Rat} (ha : GoodL a) (hb : GoodL b) (hc : GoodL c) :
    fuseLen (fuseLen a b) c = fuseLen a (fuseLen b c) := by
  unfold fuseLen GoodL NIL at *
  by_cases h1 : a = -1 <;> by_cases h2 : b = -1 <;> by_cases h3 : c = -1 <;> simp [h1, h2, h3] <;> grind

theorem fuseSup_comm (a b : Rat) : fuseSup a b = fuseSup b a := by
  unfold fuseSup; grind

theorem fuseSup_assoc (a b c : Rat) : fuseSup (fuseSup a b) c = fuseSup a (fuseSup b c) := by
  unfold fuseSup; grind

/-- the entry `x` after absorbing `s` (same side) -/
def fuseU (x s : USplit) : USplit := { x with len := fuseLen x.len s.len, sup := fuseSup x.sup s.sup }

@[simp] theorem fuseU_side (x s : USplit) : (fuseU x s).side = x.side := rfl

theorem insertU_nil (s : USplit) : insertU s [] = [s] := rfl

theorem insertU_cons_eq (s x : USplit) (r : List USplit) (h : x.side = s.side) :
    insertU s (x :: r) = fuseU x s :: r := by
  simp [insertU, h, fuseU]

theorem insertU_cons_ne (s x : USplit) (r : List USplit) (h : x.side ≠ s.side) :
    insertU s (x :: r) = x :: insertU s r := by
  simp [insertU, h]

def GoodU (l : List USplit) : Prop := ∀ x ∈ l, GoodL x.len
def SidesNodup (l : List USplit) : Prop := (l.map (·.side)).Nodup

theorem fuseU_comm (x y : USplit) (h : x.side = y.side) : fuseU x y = fuseU y x := by
  cases x; cases y; simp_all [fuseU, fuseLen_comm, fuseSup_comm]

theorem fuseU_rcomm (z x y : USplit) (gz : GoodL z.len) (gx : GoodL x.len) (gy : GoodL y.len) :
    fuseU (fuseU z x) y = fuseU (fuseU z y) x := by
  simp only [fuseU]
  congr 1
  · rw [fuseLen_assoc gz gx gy, fuseLen_assoc gz gy gx, fuseLen_comm x.len]
  · rw [fuseSup_assoc, fuseSup_assoc, fuseSup_comm x.sup]

theorem fuseU_assoc (z x y : USplit) (gz : GoodL z.len) (gx : GoodL x.len) (gy : GoodL y.len) :
    fuseU (fuseU z x) y = fuseU z (fuseU x y) := by
  simp only [fuseU]
  congr 1
  · exact fuseLen_assoc gz gx gy
  · exact fuseSup_assoc _ _ _

theorem mem_insertU_side (s : USplit) : ∀ (acc : List USplit) (a : List String),
    a ∈ (insertU s acc).map (·.side) ↔ a ∈ acc.map (·.side) ∨ a = s.side
  | [], a => by simp [insertU_nil]
  | x :: r, a => by
    by_cases h : x.side = s.side
    · rw [insertU_cons_eq s x r h]; simp [h]; grind
    · rw [insertU_cons_ne s x r h]
      have := mem_insertU_side s r a
      simp only [List.map_cons, List.mem_cons] at this ⊢
      rw [this]; grind

theorem insertU_sidesNodup (s : USplit) : ∀ (acc : List USplit), SidesNodup acc → SidesNodup (insertU s acc)
  | [], _ => by simp [insertU_nil, SidesNodup]
  | x :: r, hn => by
    unfold SidesNodup at *
    by_cases h : x.side = s.side
    · rw [insertU_cons_eq s x r h]; simpa using hn
    · rw [insertU_cons_ne s x r h]
      simp only [List.map_cons, List.nodup_cons] at hn ⊢
      refine ⟨?_, insertU_sidesNodup s r hn.2⟩
      rw [mem_insertU_side]
      exact fun h' => h'.elim hn.1 h

theorem insertU_good (s : USplit) (gs : GoodL s.len) : ∀ (acc : List USplit), GoodU acc → GoodU (insertU s acc)
  | [], _ => by simp [insertU_nil, GoodU, gs]
  | x :: r, hg => by
    by_cases h : x.side = s.side
    · rw [insertU_cons_eq s x r h]
      intro y hy
      rcases List.mem_cons.1 hy with rfl | hy
      · exact fuseLen_good (hg x (by simp)) gs
      · exact hg y (by simp [hy])
    · rw [insertU_cons_ne s x r h]
      intro y hy
      rcases List.mem_cons.1 hy with rfl | hy
      · exact hg _ (by simp)
      · exact insertU_good s gs r (fun z hz => hg z (by simp [hz])) y hy

/-- inserting into two presentations of the same accumulator -/
theorem insertU_perm (s : USplit) {a₁ a₂ : List USplit} (h : a₁.Perm a₂) (hn : SidesNodup a₁) :
    (insertU s a₁).Perm (insertU s a₂) := by
  induction h with
  | nil => exact List.Perm.refl _
  | @cons x l₁ l₂ hp ih =>
    have hn' : SidesNodup l₁ := by
      unfold SidesNodup at *; exact (List.nodup_cons.1 (by simpa using hn)).2
    by_cases hx : x.side = s.side
    · rw [insertU_cons_eq s x _ hx, insertU_cons_eq s x _ hx]; exact List.Perm.cons _ hp
    · rw [insertU_cons_ne s x _ hx, insertU_cons_ne s x _ hx]; exact List.Perm.cons _ (ih hn')
  | swap x y l =>
    unfold SidesNodup at hn
    simp only [List.map_cons, List.nodup_cons, List.mem_cons, not_or] at hn
    have hxy : y.side ≠ x.side := hn.1.1
    by_cases hx : x.side = s.side
    · have hy : y.side ≠ s.side := fun h => hxy (h.trans hx.symm)
      rw [show insertU s (y :: x :: l) = y :: fuseU x s :: l by
            rw [insertU_cons_ne s y _ hy, insertU_cons_eq s x _ hx],
          show insertU s (x :: y :: l) = fuseU x s :: y :: l by rw [insertU_cons_eq s x _ hx]]
      exact List.Perm.swap _ _ _
    · by_cases hy : y.side = s.side
      · rw [show insertU s (y :: x :: l) = fuseU y s :: x :: l by rw [insertU_cons_eq s y _ hy],
            show insertU s (x :: y :: l) = x :: fuseU y s :: l by
              rw [insertU_cons_ne s x _ hx, insertU_cons_eq s y _ hy]]
        exact List.Perm.swap _ _ _
      · rw [show insertU s (y :: x :: l) = y :: x :: insertU s l by
              rw [insertU_cons_ne s y _ hy, insertU_cons_ne s x _ hx],
            show insertU s (x :: y :: l) = x :: y :: insertU s l by
              rw [insertU_cons_ne s x _ hx, insertU_cons_ne s y _ hy]]
        exact List.Perm.swap _ _ _
  | @trans l₁ l₂ l₃ h₁ _ ih₁ ih₂ =>
    have hn2 : SidesNodup l₂ := by
      unfold SidesNodup at *; exact ((h₁.map _).nodup_iff).1 hn
    exact (ih₁ hn).trans (ih₂ hn2)

/-- the order of two insertions does not matter -/
theorem insertU_comm (x y : USplit) (gx : GoodL x.len) (gy : GoodL y.len) :
    ∀ (acc : List USplit), GoodU acc → (insertU y (insertU x acc)).Perm (insertU x (insertU y acc))
  | [], _ => by
    by_cases h : x.side = y.side
    · rw [insertU_nil, insertU_nil, insertU_cons_eq y x [] h, insertU_cons_eq x y [] h.symm, fuseU_comm x y h]
    · rw [insertU_nil, insertU_nil, insertU_cons_ne y x [] h, insertU_cons_ne x y [] (Ne.symm h), insertU_nil, insertU_nil]
      exact List.Perm.swap _ _ _
  | z :: r, hg => by
    have gz : GoodL z.len := hg z (by simp)
    have gr : GoodU r := fun w hw => hg w (by simp [hw])
    by_cases hx : z.side = x.side <;> by_cases hy : z.side = y.side
    · rw [insertU_cons_eq x z r hx, insertU_cons_eq y z r hy,
        insertU_cons_eq y (fuseU z x) r (by simpa using hy), insertU_cons_eq x (fuseU z y) r (by simpa using hx),
        fuseU_rcomm z x y gz gx gy]
    · rw [insertU_cons_eq x z r hx, insertU_cons_ne y z r hy,
        insertU_cons_ne y (fuseU z x) r (by simpa using hy), insertU_cons_eq x z _ hx]
    · rw [insertU_cons_ne x z r hx, insertU_cons_eq y z r hy,
        insertU_cons_eq y z _ hy, insertU_cons_ne x (fuseU z y) r (by simpa using hx)]
    · rw [insertU_cons_ne x z r hx, insertU_cons_ne y z r hy, insertU_cons_ne y z _ hy, insertU_cons_ne x z _ hx]
      exact List.Perm.cons _ (insertU_comm x y gx gy r gr)

/-- two entries with the same side count as one fused entry -/
theorem insertU_fuse (x y : USplit) (h : x.side = y.side) (gx : GoodL x.len) (gy : GoodL y.len) :
    ∀ (acc : List USplit), GoodU acc → insertU y (insertU x acc) = insertU (fuseU x y) acc
  | [], _ => by rw [insertU_nil, insertU_cons_eq y x [] h, insertU_nil]
  | z :: r, hg => by
    have gz : GoodL z.len := hg z (by simp)
    have gr : GoodU r := fun w hw => hg w (by simp [hw])
    by_cases hx : z.side = x.side
    · rw [insertU_cons_eq x z r hx, insertU_cons_eq y (fuseU z x) r (by simpa using hx.trans h),
        insertU_cons_eq (fuseU x y) z r (by simpa using hx), fuseU_assoc z x y gz gx gy]
    · rw [insertU_cons_ne x z r hx, insertU_cons_ne y z _ (fun h' => hx (h'.trans h.symm)),
        insertU_cons_ne (fuseU x y) z r (by simpa using hx), insertU_fuse x y h gx gy r gr]

/-- the fold that builds the unrooted split map -/
def ufoldU (l acc : List USplit) : List USplit := l.foldl (fun acc s => insertU s acc) acc

theorem ufoldU_nil (acc : List USplit) : ufoldU [] acc = acc := rfl
theorem ufoldU_cons (s : USplit) (l acc : List USplit) : ufoldU (s :: l) acc = ufoldU l (insertU s acc) := rfl

theorem ufoldU_perm_acc : ∀ (l : List USplit) {a₁ a₂ : List USplit}, a₁.Perm a₂ → SidesNodup a₁ →
    (ufoldU l a₁).Perm (ufoldU l a₂)
  | [], _, _, h, _ => h
  | s :: l, _, _, h, hn => ufoldU_perm_acc l (insertU_perm s h hn) (insertU_sidesNodup s _ hn)

/-- **permutation invariance of the unrooted split map** -/
theorem ufoldU_perm {l₁ l₂ : List USplit} (h : l₁.Perm l₂) (hg : GoodU l₁) :
    ∀ (acc : List USplit), SidesNodup acc → GoodU acc → (ufoldU l₁ acc).Perm (ufoldU l₂ acc) := by
  induction h with
  | nil => intro acc _ _; exact List.Perm.refl _
  | cons x _ ih =>
    intro acc hn ha
    have gx : GoodL x.len := hg x (by simp)
    exact ih (fun w hw => hg w (by simp [hw])) _ (insertU_sidesNodup x acc hn) (insertU_good x gx acc ha)
  | swap x y l =>
    intro acc hn ha
    have gx : GoodL x.len := hg x (by simp)
    have gy : GoodL y.len := hg y (by simp)
    simp only [ufoldU_cons]
    exact ufoldU_perm_acc l (insertU_comm y x gy gx acc ha)
      (insertU_sidesNodup x _ (insertU_sidesNodup y _ hn))
  | trans h₁ _ ih₁ ih₂ =>
    intro acc hn ha
    exact (ih₁ hg acc hn ha).trans (ih₂ (fun w hw => hg w (h₁.mem_iff.2 hw)) acc hn ha)

theorem ufoldU_fuse (x y : USplit) (l acc : List USplit) (h : x.side = y.side)
    (gx : GoodL x.len) (gy : GoodL y.len) (ha : GoodU acc) :
    ufoldU (x :: y :: l) acc = ufoldU (fuseU x y :: l) acc := by
  simp only [ufoldU_cons, insertU_fuse x y h gx gy acc ha]

/-! ## sorting, least name, canonical sides -/


theorem sortS_eq_sortNames (l : List String) : sortS l = C14.sortNames l := rfl

theorem sortS_perm (l : List String) : (sortS l).Perm l := C14.sortNames_perm l

theorem mem_sortS {a : String} {l : List String} : a ∈ sortS l ↔ a ∈ l := C14.mem_sortNames

theorem sortS_congr {l₁ l₂ : List String} (h : l₁.Perm l₂) : sortS l₁ = sortS l₂ :=
  C14.sortNames_eq_of_perm h

theorem contains_congr {l₁ l₂ : List String} (h : l₁.Perm l₂) (x : String) : l₁.contains x = l₂.contains x := by
  rw [Bool.eq_iff_iff]; simp [h.mem_iff]

/-! ### least name -/

theorem str_le_of_lt {a b : String} (h : a < b) : a ≤ b := by
  rcases String.le_total a b with h' | h'
  · exact h'
  · exact absurd h (String.not_lt.2 h')

theorem foldl_min_spec : ∀ (r : List String) (a : String),
    (r.foldl (fun m x => if x < m then x else m) a) ∈ a :: r ∧
    ∀ x ∈ a :: r, (r.foldl (fun m x => if x < m then x else m) a) ≤ x
  | [], a => by simp
  | b :: r, a => by
    simp only [List.foldl_cons]
    by_cases h : b < a
    · simp only [h, if_true]
      obtain ⟨h1, h2⟩ := foldl_min_spec r b
      refine ⟨by simp only [List.mem_cons] at h1 ⊢; grind, ?_⟩
      intro x hx
      simp only [List.mem_cons] at hx
      rcases hx with rfl | rfl | hx
      · exact String.le_trans (h2 b (by simp)) (str_le_of_lt h)
      · exact h2 _ (by simp)
      · exact h2 x (by simp [hx])
    · simp only [h, if_false]
      obtain ⟨h1, h2⟩ := foldl_min_spec r a
      refine ⟨by simp only [List.mem_cons] at h1 ⊢; grind, ?_⟩
      intro x hx
      simp only [List.mem_cons] at hx
      rcases hx with rfl | rfl | hx
      · exact h2 _ (by simp)
      · exact String.le_trans (h2 a (by simp)) (String.not_lt.1 h)
      · exact h2 x (by simp [hx])

theorem minS_spec {l : List String} {m : String} (h : minS l = some m) : m ∈ l ∧ ∀ x ∈ l, m ≤ x := by
  cases l with
  | nil => simp [minS] at h
  | cons a r =>
    simp only [minS, Option.some.injEq] at h
    subst h
    exact foldl_min_spec r a

theorem minS_eq_none {l : List String} : minS l = none ↔ l = [] := by
  cases l <;> simp [minS]

theorem minS_congr {l₁ l₂ : List String} (h : l₁.Perm l₂) : minS l₁ = minS l₂ := by
  cases h1 : minS l₁ with
  | none =>
    have : l₂ = [] := by have := minS_eq_none.1 h1; subst this; exact h.symm.eq_nil
    rw [this]; rfl
  | some m₁ =>
    cases h2 : minS l₂ with
    | none =>
      have : l₁ = [] := by have := minS_eq_none.1 h2; subst this; exact h.eq_nil
      rw [this] at h1; simp [minS] at h1
    | some m₂ =>
      obtain ⟨a1, b1⟩ := minS_spec h1
      obtain ⟨a2, b2⟩ := minS_spec h2
      congr 1
      exact String.le_antisymm (b1 m₂ (h.mem_iff.2 a2)) (b2 m₁ (h.mem_iff.1 a1))

/-! ### canonical sides -/

theorem complS_congr {all₁ all₂ : List String} (h : all₁.Perm all₂) (s : List String) :
    (complS all₁ s).Perm (complS all₂ s) := h.filter _

/-- the canonical side does not depend on the order in which the taxa are listed -/
theorem canonSide_perm_all {all₁ all₂ : List String} (h : all₁.Perm all₂) (side : List String) :
    canonSide all₁ side = canonSide all₂ side := by
  unfold canonSide
  have hf : side.filter all₁.contains = side.filter all₂.contains := by
    apply List.filter_congr; intro x _; exact contains_congr h x
  rw [hf, minS_congr h]
  cases minS all₂ with
  | none => rfl
  | some m => simp only [sortS_congr (complS_congr h _)]

/-- … nor on the order in which the side is listed -/
theorem canonSide_perm_side (all : List String) {s₁ s₂ : List String} (h : s₁.Perm s₂) :
    canonSide all s₁ = canonSide all s₂ := by
  unfold canonSide
  rw [sortS_congr (h.filter _)]

/-- complementary sides have the same canonical presentation -/
theorem canonSide_compl {all A B : List String} (hn : all.Nodup) (hp : (A ++ B).Perm all) :
    canonSide all A = canonSide all B := by
  have hnd : (A ++ B).Nodup := hp.nodup_iff.2 hn
  have hA : ∀ x ∈ A, x ∈ all := fun x hx => hp.mem_iff.1 (List.mem_append_left _ hx)
  have hB : ∀ x ∈ B, x ∈ all := fun x hx => hp.mem_iff.1 (List.mem_append_right _ hx)
  have hdisj : ∀ x, x ∈ A → x ∈ B → False := fun x ha hb => (List.nodup_append.1 hnd).2.2 x ha x hb rfl
  have hcov : ∀ x ∈ all, x ∈ A ∨ x ∈ B := fun x hx => List.mem_append.1 (hp.mem_iff.2 hx)
  have fA : A.filter all.contains = A := List.filter_eq_self.2 (fun x hx => by simpa using hA x hx)
  have fB : B.filter all.contains = B := List.filter_eq_self.2 (fun x hx => by simpa using hB x hx)
  -- the complement of one side, computed from `all`, is the other side
  have cA : (complS all (sortS A)).Perm B := by
    apply (List.perm_ext_iff_of_nodup (hn.filter _) (List.nodup_append.1 hnd).2.1).2
    intro x
    simp only [List.mem_filter, Bool.not_eq_true', List.contains_eq_mem, decide_eq_false_iff_not, mem_sortS]
    constructor
    · rintro ⟨h1, h2⟩; exact (hcov x h1).resolve_left h2
    · intro h; exact ⟨hB x h, fun h' => hdisj x h' h⟩
  have cB : (complS all (sortS B)).Perm A := by
    apply (List.perm_ext_iff_of_nodup (hn.filter _) (List.nodup_append.1 hnd).1).2
    intro x
    simp only [List.mem_filter, Bool.not_eq_true', List.contains_eq_mem, decide_eq_false_iff_not, mem_sortS]
    constructor
    · rintro ⟨h1, h2⟩; exact (hcov x h1).resolve_right h2
    · intro h; exact ⟨hA x h, fun h' => hdisj x h h'⟩
  unfold canonSide
  rw [fA, fB]
  cases hm : minS all with
  | none => 
    have : all = [] := minS_eq_none.1 hm
    subst this
    have := hp.eq_nil
    simp only [List.append_eq_nil_iff] at this
    rw [this.1, this.2]
  | some m =>
    have hmall := (minS_spec hm).1
    simp only
    rcases hcov m hmall with h | h
    · have h1 : (sortS A).contains m = true := by simpa [mem_sortS] using h
      have h2 : (sortS B).contains m = false := by
        simp only [List.contains_eq_mem, decide_eq_false_iff_not, mem_sortS]; exact fun h' => hdisj m h h'
      simp only [h1, h2, if_true, Bool.false_eq_true, if_false]
      exact sortS_congr cA
    · have h1 : (sortS B).contains m = true := by simpa [mem_sortS] using h
      have h2 : (sortS A).contains m = false := by
        simp only [List.contains_eq_mem, decide_eq_false_iff_not, mem_sortS]; exact fun h' => hdisj m h' h
      simp only [h1, h2, if_true, Bool.false_eq_true, if_false]
      exact (sortS_congr cB).symm

theorem lightSize_perm_all {all₁ all₂ : List String} (h : all₁.Perm all₂) (side : List String) :
    lightSize all₁ side = lightSize all₂ side := by
  unfold lightSize
  have hf : side.filter all₁.contains = side.filter all₂.contains := by
    apply List.filter_congr; intro x _; exact contains_congr h x
  rw [hf, h.length_eq]

/-! ## `usplitsAll` of a tree -/

/-- one branch as an unrooted split over the taxa `all` -/
def toU (all : List String) (s : SplitE) : USplit := ⟨canonSide all s.below, s.e.len, s.e.sup⟩

/-- the order `usplitsAll` sorts by -/
def uLe (a b : USplit) : Bool := decide (toString a.side ≤ toString b.side)

theorem T.usplitsAll_eq (t : T) :
    t.usplitsAll = (ufoldU (t.splits.map (toU t.tipNames)) []).mergeSort uLe := by
  unfold T.usplitsAll ufoldU
  simp only [List.foldl_map]
  rfl

/-- every length of the split list is absent or non-negative -/
def LensGood (l : List SplitE) : Prop := ∀ s ∈ l, GoodL s.e.len

theorem LensGood.goodU {l : List SplitE} (h : LensGood l) (all : List String) : GoodU (l.map (toU all)) := by
  intro x hx
  obtain ⟨s, hs, rfl⟩ := List.mem_map.1 hx
  exact h s hs

theorem GoodU.of_perm {l₁ l₂ : List USplit} (h : l₁.Perm l₂) (hg : GoodU l₂) : GoodU l₁ :=
  fun x hx => hg x (h.mem_iff.1 hx)

theorem toU_perm_all {all₁ all₂ : List String} (h : all₁.Perm all₂) : toU all₁ = toU all₂ := by
  funext s; simp [toU, canonSide_perm_all h]

/-- Two trees on the same taxa whose branch lists, read as unrooted splits, build the same
    map (up to order) have the same `usplitsAll` up to order.  Clients get the hypothesis
    from `ufoldU_perm` (reordering, complementing entries: `canonSide_compl`) and
    `ufoldU_fuse` (two branches fused into one). -/
theorem usplitsAll_perm_of_ufold {t u : T} (hall : u.tipNames.Perm t.tipNames)
    (h : (ufoldU (u.splits.map (toU t.tipNames)) []).Perm (ufoldU (t.splits.map (toU t.tipNames)) [])) :
    u.usplitsAll.Perm t.usplitsAll := by
  rw [T.usplitsAll_eq, T.usplitsAll_eq, toU_perm_all hall]
  exact (List.mergeSort_perm _ _).trans (h.trans (List.mergeSort_perm _ _).symm)

theorem usplitsAll_perm_of {t u : T} (hall : u.tipNames.Perm t.tipNames)
    (hs : (u.splits.map (toU t.tipNames)).Perm (t.splits.map (toU t.tipNames)))
    (hg : LensGood t.splits) : u.usplitsAll.Perm t.usplitsAll :=
  usplitsAll_perm_of_ufold hall
    (ufoldU_perm hs (GoodU.of_perm hs (hg.goodU _)) [] (by simp [SidesNodup]) (by intro x hx; cases hx))

theorem usplits_perm_of {t u : T} (hall : u.tipNames.Perm t.tipNames) (h : u.usplitsAll.Perm t.usplitsAll) :
    u.usplits.Perm t.usplits := by
  unfold T.usplits
  have : (fun s : USplit => decide (2 ≤ lightSize u.tipNames s.side)) =
      (fun s : USplit => decide (2 ≤ lightSize t.tipNames s.side)) := by
    funext s; rw [lightSize_perm_all hall]
  rw [this]; exact h.filter _

theorem tipLens_perm_of {t u : T} (hall : u.tipNames.Perm t.tipNames) (h : u.usplitsAll.Perm t.usplitsAll) :
    u.tipLens.Perm t.tipLens := by
  unfold T.tipLens
  have : (fun s : USplit => decide (lightSize u.tipNames s.side ≤ 1)) =
      (fun s : USplit => decide (lightSize t.tipNames s.side ≤ 1)) := by
    funext s; rw [lightSize_perm_all hall]
  rw [this]; exact (h.filter _).map _

/-- `moveRoot_usplits` (★): a one-edge root move keeps the unrooted split map — every split
    with its length and support — on a tree with unique tip names and lengths that are
    absent or non-negative. -/
theorem C05.moveRoot_usplitsAll (t : T) (i : Nat) (hu : t.tipNames.Nodup) (hg : LensGood t.splits) :
    (C05.moveRoot t i).usplitsAll.Perm t.usplitsAll := by
  cases h : t.kids[i]? with
  | none => rw [C05.moveRoot_of_none t i h]
  | some ec =>
    obtain ⟨e, c⟩ := ec
    obtain ⟨rest, p1, p2⟩ := C05.moveRoot_splits_perm t i e c h
    obtain ⟨q1, _⟩ := C05.moveRoot_tipNames_split t i e c h
    refine usplitsAll_perm_of (C05.moveRoot_tips t i) ?_ hg
    refine (p2.map _).trans (List.Perm.trans ?_ (p1.map _).symm)
    simp only [List.map_cons]
    have : toU t.tipNames ⟨(C05.oldRoot t i).leaves, e, (C05.oldRoot t i).isLeaf⟩ =
        toU t.tipNames ⟨c.leaves, e, c.isLeaf⟩ := by
      simp only [toU]
      rw [canonSide_compl hu (List.perm_append_comm.trans q1)]
    rw [this]

theorem C05.moveRoot_usplits (t : T) (i : Nat) (hu : t.tipNames.Nodup) (hg : LensGood t.splits) :
    (C05.moveRoot t i).usplits.Perm t.usplits :=
  usplits_perm_of (C05.moveRoot_tips t i) (C05.moveRoot_usplitsAll t i hu hg)

theorem C05.moveRoot_tipLens (t : T) (i : Nat) (hu : t.tipNames.Nodup) (hg : LensGood t.splits) :
    (C05.moveRoot t i).tipLens.Perm t.tipLens :=
  tipLens_perm_of (C05.moveRoot_tips t i) (C05.moveRoot_usplitsAll t i hu hg)



/-! ## filtering by side, forgetting supports -/

theorem insertU_filter (p : USplit → Bool) (hp : ∀ x y : USplit, x.side = y.side → p x = p y) (s : USplit) :
    ∀ (acc : List USplit), (insertU s acc).filter p = if p s then insertU s (acc.filter p) else acc.filter p
  | [] => by by_cases h : p s <;> simp [insertU_nil, h]
  | x :: r => by
    by_cases hx : x.side = s.side
    · have h1 : p (fuseU x s) = p s := hp _ _ (by simpa using hx)
      have h2 : p x = p s := hp _ _ hx
      rw [insertU_cons_eq s x r hx]
      by_cases h : p s
      · simp only [List.filter_cons, h1, h2, h, if_true]
        rw [insertU_cons_eq s x _ hx]
      · simp [h1, h2, h]
    · rw [insertU_cons_ne s x r hx]
      have ih := insertU_filter p hp s r
      by_cases hpx : p x
      · simp only [List.filter_cons, hpx, if_true, ih]
        by_cases h : p s
        · simp only [h, if_true]; rw [insertU_cons_ne s x _ hx]
        · simp [h]
      · simp only [List.filter_cons, hpx, Bool.false_eq_true, if_false, ih]

theorem ufoldU_filter (p : USplit → Bool) (hp : ∀ x y : USplit, x.side = y.side → p x = p y) :
    ∀ (l acc : List USplit), (ufoldU l acc).filter p = ufoldU (l.filter p) (acc.filter p)
  | [], acc => rfl
  | s :: l, acc => by
    rw [ufoldU_cons, ufoldU_filter p hp l, insertU_filter p hp s acc]
    by_cases h : p s <;> simp [h, ufoldU_cons]

/-- the entry without its support -/
def forgetSup (x : USplit) : USplit := { x with sup := NIL }

@[simp] theorem forgetSup_side (x : USplit) : (forgetSup x).side = x.side := rfl
@[simp] theorem forgetSup_len (x : USplit) : (forgetSup x).len = x.len := rfl

theorem forgetSup_fuseU (x s : USplit) : forgetSup (fuseU x s) = fuseU (forgetSup x) (forgetSup s) := by
  simp [forgetSup, fuseU, fuseSup]

theorem insertU_forget (s : USplit) : ∀ (acc : List USplit),
    (insertU s acc).map forgetSup = insertU (forgetSup s) (acc.map forgetSup)
  | [] => rfl
  | x :: r => by
    by_cases hx : x.side = s.side
    · rw [insertU_cons_eq s x r hx, List.map_cons, List.map_cons,
        insertU_cons_eq (forgetSup s) (forgetSup x) _ (by simpa using hx), forgetSup_fuseU]
    · rw [insertU_cons_ne s x r hx, List.map_cons, List.map_cons,
        insertU_cons_ne (forgetSup s) (forgetSup x) _ (by simpa using hx), insertU_forget s r]

theorem ufoldU_forget : ∀ (l acc : List USplit),
    (ufoldU l acc).map forgetSup = ufoldU (l.map forgetSup) (acc.map forgetSup)
  | [], _ => rfl
  | s :: l, acc => by rw [ufoldU_cons, ufoldU_forget l, insertU_forget, List.map_cons, ufoldU_cons]

/-- predicates of `T.usplits` / `T.tipLens` -/
def nontrivU (all : List String) (s : USplit) : Bool := decide (2 ≤ lightSize all s.side)
def trivU (all : List String) (s : USplit) : Bool := decide (lightSize all s.side ≤ 1)

theorem nontrivU_side (all : List String) (x y : USplit) (h : x.side = y.side) : nontrivU all x = nontrivU all y := by
  simp [nontrivU, h]
theorem trivU_side (all : List String) (x y : USplit) (h : x.side = y.side) : trivU all x = trivU all y := by
  simp [trivU, h]
theorem trivU_eq_not (all : List String) (x : USplit) : trivU all x = !nontrivU all x := by
  simp only [trivU, nontrivU]
  by_cases h : 2 ≤ lightSize all x.side <;> simp [h] <;> omega

/-- the non-trivial splits of a tree depend only on the non-trivial entries of its branch list -/
theorem T.usplits_perm_ufold (t : T) :
    t.usplits.Perm (ufoldU ((t.splits.map (toU t.tipNames)).filter (nontrivU t.tipNames)) []) := by
  unfold T.usplits
  rw [T.usplitsAll_eq]
  have := ufoldU_filter (nontrivU t.tipNames) (nontrivU_side _) (t.splits.map (toU t.tipNames)) []
  simp only [List.filter_nil] at this
  rw [← this]
  exact (List.mergeSort_perm _ _).filter _

theorem map_forget_pair (l : List USplit) :
    (l.map forgetSup).map (fun s => (s.side, s.len)) = l.map (fun s => (s.side, s.len)) := by
  simp [List.map_map, Function.comp_def]

/-- the tip branch lengths depend only on the trivial entries, supports forgotten -/
theorem T.tipLens_perm_ufold (t : T) :
    t.tipLens.Perm ((ufoldU (((t.splits.map (toU t.tipNames)).filter (trivU t.tipNames)).map forgetSup) []).map
      (fun s => (s.side, s.len))) := by
  unfold T.tipLens
  rw [T.usplitsAll_eq]
  have h1 := ufoldU_filter (trivU t.tipNames) (trivU_side _) (t.splits.map (toU t.tipNames)) []
  have h2 := ufoldU_forget ((t.splits.map (toU t.tipNames)).filter (trivU t.tipNames)) []
  simp only [List.filter_nil, List.map_nil] at h1 h2
  rw [← h2, map_forget_pair, ← h1]
  exact ((List.mergeSort_perm _ _).filter _).map _

/-- Two trees on the same taxa have the same `usplits` and `tipLens` as soon as the folds over
    their non-trivial entries, and over their trivial entries without supports, agree. -/
theorem usplits_tipLens_of_ufold {t u : T} (hall : u.tipNames.Perm t.tipNames)
    (h1 : (ufoldU ((u.splits.map (toU t.tipNames)).filter (nontrivU t.tipNames)) []).Perm
          (ufoldU ((t.splits.map (toU t.tipNames)).filter (nontrivU t.tipNames)) []))
    (h2 : (ufoldU (((u.splits.map (toU t.tipNames)).filter (trivU t.tipNames)).map forgetSup) []).Perm
          (ufoldU (((t.splits.map (toU t.tipNames)).filter (trivU t.tipNames)).map forgetSup) [])) :
    u.usplits.Perm t.usplits ∧ u.tipLens.Perm t.tipLens := by
  have e1 : nontrivU u.tipNames = nontrivU t.tipNames := by
    funext s; simp [nontrivU, lightSize_perm_all hall]
  have e2 : trivU u.tipNames = trivU t.tipNames := by
    funext s; simp [trivU, lightSize_perm_all hall]
  constructor
  · refine (T.usplits_perm_ufold u).trans (List.Perm.trans ?_ (T.usplits_perm_ufold t).symm)
    rw [toU_perm_all hall, e1]; exact h1
  · refine (T.tipLens_perm_ufold u).trans (List.Perm.trans ?_ (T.tipLens_perm_ufold t).symm)
    rw [toU_perm_all hall, e2]; exact h2.map _


end Gotree
