package c14

import (
	"fmt"
	"math/rand"
	"sort"

	"verifharness/core"

	"github.com/evolbioinfo/gotree/tree"
)

// Histories: the tree is indexed and measured FIRST (tip index, bitsets, hashes, depths, the node ids
// ToDistanceMatrix leaves behind, the branch ids CutEdgesMaxLength leaves behind), THEN renamed / grafted /
// re-rooted through the library, THEN measured.  Whatever the measurement reuses from before the edit is
// stale.  The request carries the tree before the history and the seed of the history (so that a replay
// re-executes it); the case line carries the alpha dump after the history, which is what is measured.
//
//	C14.hmatrix  metric  dump0  hseed | dump1  tips  matrix
//	C14.hcut     thr     dump0  hseed | dump1  ok/err/panic  bags
//	C14.havg     metric  dumps0 hseed | dumps1 ok/err/panic  tips  matrix

func history(t *tree.Tree, hseed int64) {
	r := rand.New(rand.NewSource(hseed))
	core.Safe(func() { t.ReinitIndexes() }) // error (duplicate names) ignored
	core.Safe(func() { t.ToDistanceMatrix(r.Intn(3)) })
	core.Safe(func() { t.CutEdgesMaxLength(float64(r.Intn(5))) })
	tips := t.Tips()
	if len(tips) < 2 {
		return
	}
	sort.Slice(tips, func(i, j int) bool { return tips[i].Name() < tips[j].Name() })
	nedit := 1 + r.Intn(2)
	for k := 0; k < nedit; k++ {
		switch r.Intn(5) {
		case 0: // two tips exchange their names
			i, j := r.Intn(len(tips)), r.Intn(len(tips))
			a, b := tips[i].Name(), tips[j].Name()
			tips[i].SetName(b)
			tips[j].SetName(a)
		case 1: // one tip now sorts first / last
			i := r.Intn(len(tips))
			tips[i].SetName([]string{"A", "zz"}[r.Intn(2)] + tips[i].Name())
		case 2: // every tip gets the name of its mirror in name order
			nm := make([]string, len(tips))
			for i, x := range tips {
				nm[i] = x.Name()
			}
			for i, x := range tips {
				x.SetName(nm[len(nm)-1-i])
			}
		case 3: // a new tip grafted on a branch that has a length
			var es []*tree.Edge
			for _, e := range t.Edges() {
				if e.Length() >= 0 {
					es = append(es, e)
				}
			}
			if len(es) > 0 {
				n := t.NewNode()
				n.SetName(fmt.Sprintf("g%d", r.Intn(3)))
				for _, x := range t.Tips() {
					if x.Name() == n.Name() {
						n.SetName(n.Name() + "x")
					}
				}
				core.Safe(func() { t.GraftTipOnEdge(n, es[r.Intn(len(es))]) })
			}
		case 4: // the root moves to another inner node
			var inner []*tree.Node
			for _, n := range t.Nodes() {
				if !n.Tip() {
					inner = append(inner, n)
				}
			}
			if len(inner) > 0 {
				core.Safe(func() { t.Reroot(inner[r.Intn(len(inner))]) })
			}
		}
	}
	// round 7b: a tip is removed (fewer branches than when CutEdgesMaxLength numbered them, fewer tips than when
	// ToDistanceMatrix numbered them: ids that are now out of range or no longer a bijection).  Drawn AFTER the
	// edits so that the histories of older seeds keep their edits.
	if cur := t.Tips(); len(cur) >= 4 && r.Intn(2) == 0 {
		k := 1 + r.Intn(2)
		var gone []string
		idx := r.Perm(len(cur))[:k]
		if r.Intn(2) == 0 {
			idx[0] = len(cur) - 1 // the last tip of the walk: the branches before it keep their indices
			if k == 2 && idx[1] == idx[0] {
				idx = idx[:1]
			}
		}
		for _, i := range idx {
			gone = append(gone, cur[i].Name())
		}
		core.Safe(func() { t.RemoveTips(false, gone...) })
	}
}

// afterHistory builds the tree, runs the history and returns the tree with its alpha dump.  The edits are
// other properties' operations: should one of them leave an ill-formed tree (their business, not C14's),
// the history is dropped and the tree is measured as built.
func afterHistory(n *core.N, hseed int64) (*tree.Tree, *core.N) {
	t, err := core.Build(n)
	if err != nil {
		panic(err)
	}
	p, _ := core.Safe(func() { history(t, hseed) })
	n1, wf := core.Alpha(t)
	if p || !wf.OK() {
		t, _ = core.Build(n)
		return t, n
	}
	return t, n1
}

func doHMatrix(c *core.Ctx, metric int, n *core.N, hseed int64) {
	t, n1 := afterHistory(n, hseed)
	var mat [][]float64
	var tips []*tree.Node
	hs := fmt.Sprint(hseed)
	if p, msg := core.Safe(func() { mat, tips = t.ToDistanceMatrix(metric) }); p {
		c.Emit("C14.hmatrix", metricName(metric), n.Dump(), hs, n1.Dump(), "PANIC,"+core.Escape(msg)+",", "")
		return
	}
	c.Emit("C14.hmatrix", metricName(metric), n.Dump(), hs, n1.Dump(), core.StrList(names(tips)), core.RatMatrix(mat))
}

func doHCut(c *core.Ctx, thr float64, n *core.N, hseed int64) {
	t, n1 := afterHistory(n, hseed)
	var bags []*tree.TipBag
	var err error
	hs := fmt.Sprint(hseed)
	if p, msg := core.Safe(func() { bags, err = t.CutEdgesMaxLength(thr) }); p {
		c.Emit("C14.hcut", core.Rat(thr), n.Dump(), hs, n1.Dump(), "panic:"+core.Escape(msg), "")
		return
	}
	if err != nil {
		c.Emit("C14.hcut", core.Rat(thr), n.Dump(), hs, n1.Dump(), "err", "")
		return
	}
	var out [][]string
	for _, b := range bags {
		out = append(out, names(b.Tips()))
	}
	c.Emit("C14.hcut", core.Rat(thr), n.Dump(), hs, n1.Dump(), "ok", core.StrLists(out))
}

func doHAvg(c *core.Ctx, metric int, ns []*core.N, hseed int64) {
	ch := make(chan tree.Trees, len(ns)+1)
	var ns1 []*core.N
	for i, n := range ns {
		t, n1 := afterHistory(n, hseed+int64(i))
		ns1 = append(ns1, n1)
		ch <- tree.Trees{Tree: t, Id: i}
	}
	close(ch)
	var mat [][]float64
	var tips []*tree.Node
	var err error
	hs := fmt.Sprint(hseed)
	if p, msg := core.Safe(func() { mat, tips, err = tree.AvgDistanceMatrix(metric, ch) }); p {
		c.Emit("C14.havg", metricName(metric), core.Dumps(ns), hs, core.Dumps(ns1), "panic:"+core.Escape(msg), "", "")
		return
	}
	if err != nil {
		c.Emit("C14.havg", metricName(metric), core.Dumps(ns), hs, core.Dumps(ns1), "err", "", "")
		return
	}
	c.Emit("C14.havg", metricName(metric), core.Dumps(ns), hs, core.Dumps(ns1), "ok", core.StrList(names(tips)), core.RatMatrix(mat))
}

// ---- every child order of small trees, for the cut -------------------------------------------------------------

func permutations(n int) [][]int {
	if n == 0 {
		return [][]int{{}}
	}
	var out [][]int
	for _, p := range permutations(n - 1) {
		for i := 0; i <= len(p); i++ {
			q := append(append(append([]int{}, p[:i]...), n-1), p[i:]...)
			out = append(out, q)
		}
	}
	return out
}

// smallCutOrders: stars with 3 and 4 tips and a cherry beside two tips, every order of the children (of the
// root and of the inner node), every assignment short (1/8) / long (1) of the branch lengths, threshold 1/2.
// A bag lost or doubled because of the order in which the branches are inspected shows here.
// every = false draws a sample of the two larger families.
func smallCutOrders(c *core.Ctx, every bool) {
	leaf := func(name string, long bool) *core.N {
		e := core.NewE()
		e.Len = 0.125
		if long {
			e.Len = 1
		}
		return &core.N{Name: name, E: e}
	}
	tipNames := []string{"A", "B", "C", "D"}
	for _, k := range []int{3, 4} {
		for _, p := range permutations(k) {
			for mask := 0; mask < 1<<k; mask++ {
				if k == 4 && !every && !c.G.Chance(0.15) {
					continue
				}
				root := &core.N{}
				for _, i := range p {
					root.Kids = append(root.Kids, leaf(tipNames[i], mask>>i&1 == 1))
				}
				doCut(c, 0.5, root)
			}
		}
	}
	// (cherry(A,B), C, D): positions of the three children of the root x order inside the cherry x 2^5 lengths
	for _, p := range permutations(3) {
		for _, q := range permutations(2) {
			for mask := 0; mask < 1<<5; mask++ {
				if !every && !c.G.Chance(0.15) {
					continue
				}
				ce := core.NewE()
				ce.Len = 0.125
				if mask>>4&1 == 1 {
					ce.Len = 1
				}
				cherry := &core.N{E: ce}
				for _, i := range q {
					cherry.Kids = append(cherry.Kids, leaf(tipNames[i], mask>>i&1 == 1))
				}
				parts := []*core.N{cherry, leaf("C", mask>>2&1 == 1), leaf("D", mask>>3&1 == 1)}
				root := &core.N{}
				for _, i := range p {
					root.Kids = append(root.Kids, parts[i])
				}
				doCut(c, 0.5, root)
			}
		}
	}
}
