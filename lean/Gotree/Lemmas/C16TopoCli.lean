/-
  C16 — the `generate topologies` command model: helper lemmas.
-/
import Gotree.Model.C16TopoCli

namespace Gotree.C16
open Gotree

/-- an output that cannot be opened: exit status 1, an error logged, nothing written — whatever
    the input and the size -/
theorem topoCli_uncreatable (n : Int) (rooted : Bool) (inp : TopoInput) :
    topoCli n rooted inp false = ⟨1, true, []⟩ := by
  unfold topoCli
  cases inp with
  | unreadable => rfl
  | absent => simp only; split <;> simp
  | names l => simp only; split <;> simp

theorem topoCli_unreadable (n : Int) (rooted : Bool) (creatable : Bool) :
    topoCli n rooted .unreadable creatable = ⟨1, true, []⟩ := rfl

/-- the enumerator's rejection is the command's: exit status 1, logged, nothing written -/
theorem topoCli_of_err (n : Int) (rooted : Bool) (inp : TopoInput) (creatable : Bool)
    (h : (allTopologies (inp.args n).1 rooted (inp.args n).2).isErr = true) :
    topoCli n rooted inp creatable = ⟨1, true, []⟩ := by
  unfold topoCli
  cases inp with
  | unreadable => rfl
  | absent =>
    simp only
    cases hr : allTopologies ((TopoInput.absent).args n).1 rooted ((TopoInput.absent).args n).2 with
    | ok ts => rw [hr] at h; simp [Res.isErr] at h
    | err m => rfl
    | panic m => rfl
  | names l =>
    simp only
    cases hr : allTopologies ((TopoInput.names l).args n).1 rooted ((TopoInput.names l).args n).2 with
    | ok ts => rw [hr] at h; simp [Res.isErr] at h
    | err m => rfl
    | panic m => rfl

theorem topoCli_of_ok (n : Int) (rooted : Bool) (inp : TopoInput) (ts : List T) (hi : inp ≠ .unreadable)
    (h : allTopologies (inp.args n).1 rooted (inp.args n).2 = .ok ts) :
    topoCli n rooted inp true = ⟨0, false, ts⟩ := by
  unfold topoCli
  cases inp with
  | unreadable => exact absurd rfl hi
  | absent => simp only [h, if_true]
  | names l => simp only [h, if_true]

end Gotree.C16
