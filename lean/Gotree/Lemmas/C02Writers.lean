/-
  C02 — what the PhyloXML writer model computes: its `<clade>` lines are well nested, one clade per node.
-/
import Gotree.Model.C02Writers
import Gotree.Model.C02

namespace Gotree.C02.Writers
open Gotree Gotree.C02

theorem wellNested_content : ∀ (c rest : List PxLine) (d : Nat), c.all PxLine.isContent = true →
    wellNested (c ++ rest) (d + 1) = wellNested rest (d + 1)
  | [], _, _, _ => rfl
  | l :: c, rest, d, h => by
    simp only [List.all_cons, Bool.and_eq_true] at h
    have ih := wellNested_content c rest d h.2
    cases l with
    | opn _ => simp [PxLine.isContent] at h
    | cls _ => simp [PxLine.isContent] at h
    | name _ _ => simp only [List.cons_append, wellNested, ih]; simp
    | len _ _ => simp only [List.cons_append, wellNested, ih]; simp
    | conf _ _ => simp only [List.cons_append, wellNested, ih]; simp

theorem pxContent_isContent (lvl : Nat) (above : Option EdgeD) (isTip : Bool) (d : NodeD) :
    (pxContent lvl above isTip d).all PxLine.isContent = true := by
  unfold pxContent
  cases above with
  | none => by_cases h : d.name != "" <;> simp [h, PxLine.isContent]
  | some e =>
    by_cases h : d.name != "" <;> by_cases h2 : e.len != NIL <;> by_cases h3 : (!isTip && e.sup != NIL) <;>
      simp [h, h2, h3, PxLine.isContent]

mutual
theorem wellNested_node (lvl : Nat) (above : Option EdgeD) : ∀ (t : T) (rest : List PxLine) (d : Nat),
    wellNested (pxNode lvl above t ++ rest) d = wellNested rest d
  | .node nd p kids, rest, d => by
    unfold pxNode
    simp only [List.cons_append, List.append_assoc, wellNested]
    rw [wellNested_content _ _ d (pxContent_isContent _ _ _ _), wellNested_kids (lvl + 1) kids _ (d + 1)]
    simp [wellNested]
theorem wellNested_kids (lvl : Nat) : ∀ (ks : Kids) (rest : List PxLine) (d : Nat),
    wellNested (pxKids lvl ks ++ rest) d = wellNested rest d
  | [], _, _ => by simp [pxKids]
  | (e, t) :: r, rest, d => by
    unfold pxKids
    rw [List.append_assoc, wellNested_node lvl (some e) t _ d, wellNested_kids lvl r rest d]
end

theorem nOpen_append (a b : List PxLine) : nOpen (a ++ b) = nOpen a + nOpen b := by
  simp [nOpen, List.countP_append]

theorem nOpen_content (c : List PxLine) (h : c.all PxLine.isContent = true) : nOpen c = 0 := by
  induction c with
  | nil => rfl
  | cons l c ih =>
    simp only [List.all_cons, Bool.and_eq_true] at h
    cases l <;> simp_all [nOpen, PxLine.isContent]

mutual
theorem nOpen_node (lvl : Nat) (above : Option EdgeD) : ∀ (t : T), nOpen (pxNode lvl above t) = nNodes t
  | .node nd p kids => by
    unfold pxNode nNodes
    have hk := nOpen_kids (lvl + 1) kids
    have hc := nOpen_content _ (pxContent_isContent lvl above
      (kids.length + (if above.isSome then 1 else 0) == 1) nd)
    show nOpen (PxLine.opn lvl :: _) = _
    rw [show ∀ l : List PxLine, PxLine.opn lvl :: l = [PxLine.opn lvl] ++ l from fun _ => rfl,
      nOpen_append, nOpen_append, nOpen_append, hc, hk]
    simp [nOpen]
theorem nOpen_kids (lvl : Nat) : ∀ (ks : Kids), nOpen (pxKids lvl ks) = nNodesL ks
  | [] => by simp [pxKids, nNodesL, nOpen]
  | (e, t) :: r => by
    unfold pxKids nNodesL
    rw [nOpen_append, nOpen_node lvl (some e) t, nOpen_kids lvl r]
end

end Gotree.C02.Writers
