/-
  C17 — the pointer-level square, connected to `T`: at every site of the enumeration the
  heap `extract` reads off the tree is the abstraction of a well-formed pointer piece.
-/
import Gotree.Lemmas.C17HeapSim
import Gotree.Lemmas.C17Sim

namespace Gotree.C17
open Gotree

/-- the same records: the same piece -/
theorem same_eq {h h' : PHeap} (hs : h.same h') : h = h' := by
  obtain ⟨hn, he⟩ := hs
  obtain ⟨n, e⟩ := h
  obtain ⟨n', e'⟩ := h'
  have h1 : n = n' := by
    funext x
    have := hn x
    cases hx : n x; cases hx' : n' x
    simp_all
  have h2 : e = e' := by
    funext x
    have := he x
    cases hx : e x; cases hx' : e' x
    simp_all
  rw [h1, h2]

/-- the statement for one configuration -/
def LocalFresh (path : List Nat) (d1 : NodeD) (cross : Bool) (isRoot : Bool) (p1 : Nat) (k1 : Kids) (j p2 : Nat) : Prop :=
  ∀ H, extract (.node d1 p1 k1) isRoot (newNNI path isRoot p1 j p2 cross) false = some H →
    Fresh H (newNNI path isRoot p1 j p2 cross).i1 p2 cross

macro "fresh_case" : tactic => `(tactic|
  (intro H hH
   simp [extract, slots3, newNNI, lab1, lab2, rot1, rot2, Tri.get, Tri.idx] at hH
   subst hH
   exact ⟨by simp [newNNI], by simp, by simp [slices1, lab1, rot1, newNNI], by simp [slices2, lab2, rot1],
     rfl, by simp [Outer.isUp], by simp [Outer.isUp], by simp [Outer.isUp]⟩))

theorem extract_fresh {path : List Nat} {isRoot : Bool} {p1 : Nat} {k1 : Kids} {j : Nat}
    {e : EdgeD} {d2 : NodeD} {p2 : Nat} {u v : EdgeD × T} (d1 : NodeD) (cross : Bool)
    (s : Site path isRoot p1 k1 j e d2 p2 u v) : LocalFresh path d1 cross isRoot p1 k1 j p2 := by
  obtain ⟨eu, tu⟩ := u
  obtain ⟨ev, tv⟩ := v
  refine site_cases s (LocalFresh path d1 cross) ?_ ?_
  · intro y z p1 hp2
    obtain ⟨ey, ty⟩ := y
    obtain ⟨ez, tz⟩ := z
    have h2 : p2 = 0 ∨ p2 = 1 ∨ p2 = 2 := by omega
    unfold LocalFresh
    rcases h2 with rfl | rfl | rfl <;> cases cross <;> refine ⟨?_, ?_, ?_⟩ <;> fresh_case
  · intro y hp1 hp2
    obtain ⟨ey, ty⟩ := y
    have h1 : p1 = 0 ∨ p1 = 1 ∨ p1 = 2 := by omega
    have h2 : p2 = 0 ∨ p2 = 1 ∨ p2 = 2 := by omega
    unfold LocalFresh
    rcases h1 with rfl | rfl | rfl <;> rcases h2 with rfl | rfl | rfl <;> cases cross <;> refine ⟨?_, ?_⟩ <;> fresh_case

end Gotree.C17
