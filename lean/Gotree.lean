-- GENERATED
import Gotree.Model.C14
import Gotree.Model.Core
import Gotree.Model.Dump
import Gotree.Spec.C14
