// Package c06: pruning yields exactly the induced subtree
// (tree.RemoveTips / removeTip, cmd/prune.go).
package c06

import (
	"fmt"
	"sort"
	"strings"

	"verifharness/core"

	"github.com/evolbioinfo/gotree/tree"
)

func b01(b bool) string {
	if b {
		return "1"
	}
	return "0"
}

// moveRoot re-roots the harness-side tree on child i of the root, exactly as a
// pointer graph would look after it: no neighbour order changes, so the old
// root becomes a kid of the new root at the position the parent had (PPos),
// and remembers where the new root sat among its own neighbours.
func moveRoot(r *core.N, i int) *core.N {
	c := r.Kids[i]
	if len(c.Kids) == 0 {
		return r
	}
	e := c.E
	rest := append(append([]*core.N(nil), r.Kids[:i]...), r.Kids[i+1:]...)
	old := &core.N{Name: r.Name, Comments: r.Comments, PPos: i, E: e, Kids: rest}
	p := c.PPos
	if p > len(c.Kids) {
		p = len(c.Kids)
	}
	kids := append([]*core.N(nil), c.Kids[:p]...)
	kids = append(kids, old)
	kids = append(kids, c.Kids[p:]...)
	return &core.N{Name: c.Name, Comments: c.Comments, PPos: 0, Kids: kids}
}

func uniqSorted(l []string) []string {
	m := map[string]bool{}
	var out []string
	for _, s := range l {
		if !m[s] {
			m[s] = true
			out = append(out, s)
		}
	}
	sort.Strings(out)
	return out
}

// doRemove runs RemoveTips on the real code and emits the case line; it returns the
// tree after the operation (nil unless the call succeeded on a well-formed heap).
func doRemove(c *core.Ctx, rev bool, names []string, pre bool, n *core.N) *core.N {
	t, err := core.Build(n)
	if err != nil {
		panic(err)
	}
	if pre {
		// the index exists before the call (as after ReinitIndexes in the commands that use it)
		if p, _ := core.Safe(func() { err = t.UpdateTipIndex() }); p || err != nil {
			pre = false
		}
	}
	return observe(c, "C06.remove", []string{b01(rev), core.StrList(names), b01(pre), n.Dump()}, t, n, rev, names)
}

// observe calls RemoveTips(rev, names...) on the real tree t (whose α dump is n), reads the raw answers
// of the implementation afterwards and emits the case line `op head… outcome after index-answers…`.
func observe(c *core.Ctx, op string, head []string, t *tree.Tree, n *core.N, rev bool, names []string) *core.N {
	emit := func(rest ...string) { c.Emit(op, append(head, rest...)...) }
	var rerr error
	if p, msg := core.Safe(func() { rerr = t.RemoveTips(rev, names...) }); p {
		emit("panic:"+core.Escape(msg), "", "", "", "-1", "", "", "", "", "")
		return nil
	}
	if rerr != nil {
		emit("err", "", "", "", "-1", "", "", "", "", "")
		return nil
	}
	var after *core.N
	var wf *core.WF
	if p, msg := core.Safe(func() { after, wf = core.Alpha(t) }); p {
		emit("panic-alpha:"+core.Escape(msg), "", "", "", "-1", "", "", "", "", "")
		return nil
	}
	if !wf.OK() {
		emit("malformed:"+core.Escape(strings.Join(wf.Problems, "; ")), "", "", "", "-1", "", "", "", "", "")
		return nil
	}
	// index answers for every name that could be known to the index
	cands := uniqSorted(append(append(append([]string(nil), n.TipNames()...), names...), after.TipNames()...))
	cands = uniqSorted(append(cands, "zz%absent"))
	// RAW observations, judged by the Lean driver (Spec.tipNodesOK, Spec.bitsetsOK):
	// * for every name the index answers: TipIndex, and what TipNode returns (its name, its number of
	//   neighbours, its position in Tips());
	// * for every branch in Edges() order (= the order of the α dump): its bitset as a 0/1 string;
	// * CommonEdges of the pruned tree with an independently rebuilt and freshly indexed copy.
	tippos := map[*tree.Node]int{}
	for i, tp := range t.Tips() {
		tippos[tp] = i
	}
	var existing, tnNames []string
	var tis, tnNeigh, tnPos []int
	nb := -1
	core.Safe(func() {
		for _, q := range cands {
			ok, e := t.ExistsTip(q)
			if e != nil || !ok {
				continue
			}
			existing = append(existing, q)
			if ti, e2 := t.TipIndex(q); e2 == nil {
				tis = append(tis, ti)
			} else {
				tis = append(tis, -1)
			}
			nd, e3 := t.TipNode(q)
			if e3 != nil || nd == nil {
				tnNames, tnNeigh, tnPos = append(tnNames, ""), append(tnNeigh, -1), append(tnPos, -1)
				continue
			}
			pos, in := tippos[nd]
			if !in {
				pos = -1
			}
			tnNames, tnNeigh, tnPos = append(tnNames, nd.Name()), append(tnNeigh, nd.Nneigh()), append(tnPos, pos)
		}
		if k, e := t.NbTips(); e == nil {
			nb = k
		}
	})
	var rows strings.Builder
	core.Safe(func() {
		for _, e := range t.Edges() {
			b := e.Bitset()
			if b == nil {
				rows.WriteString("nil;")
				continue
			}
			for i := uint(0); i < b.Len(); i++ {
				if b.Test(i) {
					rows.WriteByte('1')
				} else {
					rows.WriteByte('0')
				}
			}
			rows.WriteByte(';')
		}
	})
	ce := []int{-1, -1, -1, -1}
	core.Safe(func() {
		t2, err := core.Build(after)
		if err != nil || t2.ReinitIndexes() != nil {
			return
		}
		if a, c1, e1 := t2.CommonEdges(t2, false); e1 == nil {
			ce[0], ce[1] = a, c1
		}
		if a, c2, e2 := t.CommonEdges(t2, false); e2 == nil {
			ce[2], ce[3] = a, c2
		}
	})
	emit("ok", after.Dump(), core.StrList(existing), core.IntList(tis), fmt.Sprint(nb),
		core.StrList(tnNames), core.IntList(tnNeigh), core.IntList(tnPos), rows.String(), core.IntList(ce))
	return after
}

// Replay re-executes request lines on the real code.
func Replay(c *core.Ctx, lines []string) {
	for _, l := range lines {
		f := strings.Split(l, "\t")
		switch {
		case f[0] == "C06.remove" && len(f) >= 5:
			n, err := core.ParseDump(f[4])
			if err != nil {
				panic(err)
			}
			var names []string
			for _, s := range strings.Split(strings.TrimSuffix(f[2], ","), ",") {
				if f[2] == "" {
					break
				}
				u, err := core.Unescape(s)
				if err != nil {
					panic(err)
				}
				names = append(names, u)
			}
			doRemove(c, f[1] == "1", names, f[3] == "1", n)
		case f[0] == "C06.stale" && len(f) >= 5:
			replayStale(c, f)
		case f[0] == "C06.cli" && len(f) >= 8:
			replayCLI(c, f)
		case f[0] == "C06.tipfile" && len(f) >= 3:
			content, err := core.Unescape(f[1])
			if err != nil {
				panic(err)
			}
			doTipFile(c, content, decodeList(f[2]))
		}
	}
}

func opts(g *core.G) core.TreeOpts {
	o := core.DefaultOpts()
	o.MinTips, o.MaxTips = 4, 14
	switch g.Intn(4) {
	case 0:
		o.Lengths = 2
	case 1:
		o.Lengths = 0
	default:
		o.Lengths = 3
	}
	o.Supports = 2
	if g.Chance(0.2) {
		o.Supports = 1
	}
	if g.Chance(0.08) {
		o.Singles = 0.15
	}
	return o
}

// innerNodes lists the non-root inner nodes.
func innerNodes(n *core.N) []*core.N {
	var out []*core.N
	var rec func(x *core.N, root bool)
	rec = func(x *core.N, root bool) {
		if !root && len(x.Kids) > 0 {
			out = append(out, x)
		}
		for _, k := range x.Kids {
			rec(k, false)
		}
	}
	rec(n, true)
	return out
}

// pickRemoval draws the set of tips to remove; the kind is a generator branch.
func pickRemoval(g *core.G, n *core.N) []string {
	tips := n.TipNames()
	nt := len(tips)
	maxrm := nt - 3
	if maxrm < 0 {
		maxrm = 0
	}
	var rm []string
	switch g.Intn(8) {
	case 0: // a whole clade
		in := innerNodes(n)
		if len(in) > 0 {
			rm = in[g.Intn(len(in))].Leaves()
		}
	case 1: // the tips attached to the root
		for _, k := range n.Kids {
			if len(k.Kids) == 0 && g.Chance(0.8) {
				rm = append(rm, k.Name)
			}
		}
	case 2: // both tips of a cherry
		for _, x := range append(innerNodes(n), n) {
			leaf := 0
			for _, k := range x.Kids {
				if len(k.Kids) == 0 {
					leaf++
				}
			}
			if leaf >= 2 && leaf == len(x.Kids) {
				rm = x.Leaves()
				if g.Chance(0.5) {
					break
				}
			}
		}
	case 3: // a single tip
		rm = []string{tips[g.Intn(nt)]}
		// rooted tree, one child of the root is a tip, the other has ≥ 3 children: the tip goes and so
		// many children of the other that exactly two are left (the node that becomes the root loses children)
		if len(n.Kids) == 2 && g.Chance(0.7) {
			for i := 0; i < 2; i++ {
				leaf, other := n.Kids[i], n.Kids[1-i]
				if len(leaf.Kids) == 0 && len(other.Kids) >= 3 {
					rm = []string{leaf.Name}
					perm := g.R.Perm(len(other.Kids))
					for _, j := range perm[2:] {
						rm = append(rm, other.Kids[j].Leaves()...)
					}
				}
			}
		}
	case 4: // leaves fewer than 3 tips (outside the property's quantifier: tie only)
		perm := g.R.Perm(nt)
		k := nt - g.Intn(3)
		for _, i := range perm[:k] {
			rm = append(rm, tips[i])
		}
		return rm
	default: // a random subset leaving at least 3 tips
		perm := g.R.Perm(nt)
		k := 0
		if maxrm > 0 {
			k = 1 + g.Intn(maxrm)
		}
		for _, i := range perm[:k] {
			rm = append(rm, tips[i])
		}
	}
	if len(rm) > maxrm && g.Chance(0.9) {
		rm = rm[:maxrm]
	}
	return rm
}

// request turns a removal set into (revert, names): with revert the names are the complement;
// absent names and repeated names are mixed in.
func request(g *core.G, n *core.N, rm []string) (bool, []string) {
	rev := g.Chance(0.4)
	inrm := map[string]bool{}
	for _, s := range rm {
		inrm[s] = true
	}
	var names []string
	if rev {
		for _, s := range n.TipNames() {
			if !inrm[s] {
				names = append(names, s)
			}
		}
	} else {
		names = append(names, rm...)
	}
	g.R.Shuffle(len(names), func(i, j int) { names[i], names[j] = names[j], names[i] })
	if g.Chance(0.3) {
		names = append(names, fmt.Sprintf("absent%d", g.Intn(10)))
		if g.Chance(0.3) {
			names = append([]string{"N1"}, names...) // could be the name of an inner node
		}
	}
	if len(names) > 0 && g.Chance(0.1) {
		names = append(names, names[0])
	}
	return rev, names
}

// addChain hangs a random leaf below a path of 2 or 3 single-child nodes (what case 1
// of removeTip removes iteratively) and returns the name of that leaf.
func addChain(g *core.G, n *core.N) string {
	type slot struct {
		p *core.N
		i int
	}
	var slots []slot
	var rec func(x *core.N)
	rec = func(x *core.N) {
		for i, k := range x.Kids {
			if len(k.Kids) == 0 {
				slots = append(slots, slot{x, i})
			}
			rec(k)
		}
	}
	rec(n)
	if len(slots) == 0 {
		return ""
	}
	s := slots[g.Intn(len(slots))]
	leaf := s.p.Kids[s.i]
	cur := leaf
	for j := 0; j < 2+g.Intn(2); j++ {
		mid := &core.N{E: core.NewE(), Kids: []*core.N{cur}}
		mid.E.Len = float64(g.Intn(16)) / 8
		cur = mid
	}
	s.p.Kids[s.i] = cur
	return leaf.Name
}

func renameTip(n *core.N, from, to string) {
	if len(n.Kids) == 0 && n.Name == from {
		n.Name = to
	}
	for _, k := range n.Kids {
		renameTip(k, from, to)
	}
}

func genTree(c *core.Ctx) (*core.N, string) {
	g := c.G
	o := opts(g)
	if !c.Quick() && g.Chance(0.08) {
		o.MaxTips = 45 // larger trees in the thorough tier
	}
	lookAlike := g.Chance(0.09)
	if lookAlike {
		o.FunnyNames = true // blanks, quotes, numeric-looking and non-ASCII tip names
	}
	n, _ := g.Tree(o)
	if lookAlike && g.Chance(0.5) {
		// a tip whose name reads like two other tips listed one after the other
		// (preferably the two tips of a cherry, so that a side and a tip name render alike)
		if tn := n.TipNames(); len(tn) >= 4 {
			a, b := tn[0], tn[1]
			for _, x := range innerNodes(n) {
				if len(x.Kids) == 2 && len(x.Kids[0].Kids) == 0 && len(x.Kids[1].Kids) == 0 {
					a, b = x.Kids[0].Name, x.Kids[1].Name
					break
				}
			}
			if b < a {
				a, b = b, a
			}
			for _, c := range tn {
				if c != a && c != b {
					renameTip(n, c, a+", "+b)
					break
				}
			}
		}
	}
	if g.Chance(0.012) {
		// two tips with the same name (outside the hypotheses: only "no crash, no hang, no corrupt heap" is observed)
		if tn := n.TipNames(); len(tn) >= 5 {
			renameTip(n, tn[1], tn[0])
		}
	}
	chain := ""
	if g.Chance(0.05) {
		chain = addChain(g, n)
	}
	// parent positions other than 0: move the root around
	if g.Chance(0.4) {
		for s := 0; s < 1+g.Intn(3); s++ {
			if len(n.Kids) > 0 {
				n = moveRoot(n, g.Intn(len(n.Kids)))
			}
		}
	}
	if g.Chance(0.06) { // the root itself is a tip
		n.E = core.NewE()
		n.E.Len = g.Length(&core.TreeOpts{Lengths: 3, LenDenom: 8, LenMax: 40})
		n = &core.N{Name: "rt", Kids: []*core.N{n}}
	}
	core.NumberEdges(n)
	return n, chain
}

// tinyLengths adds to a share of the lengths a multiple of 2^-34 (about 6e-11): still exact in float64, sums
// included (at most 40 significant bits), but not representable with 9 decimals — a merged length that is
// rounded, truncated or printed with a fixed number of decimals is no longer the sum (seeded C06-12).
func tinyLengths(g *core.G, n *core.N) {
	var rec func(x *core.N)
	rec = func(x *core.N) {
		if x.E != nil && x.E.Len >= 0 && g.Chance(0.6) {
			x.E.Len += float64(1+g.Intn(1023)) / float64(uint64(1)<<34)
		}
		for _, k := range x.Kids {
			rec(k)
		}
	}
	rec(n)
}

func libCase(c *core.Ctx) {
	g := c.G
	n, chain := genTree(c)
	if g.Chance(0.3) {
		tinyLengths(g, n)
	}
	for step := 0; step < 3 && n != nil; step++ {
		rm := pickRemoval(g, n)
		if chain != "" && step == 0 && g.Chance(0.8) {
			have := false
			for _, s := range rm {
				have = have || s == chain
			}
			if !have {
				rm = append(rm, chain)
			}
		}
		// a root that is itself a tip goes too (hypothesis branch roottip-removed of the theorems)
		if step == 0 && len(n.Kids) == 1 && len(n.TipNames())-len(rm) > 3 && g.Chance(0.5) {
			rm = append(rm, n.Name)
		}
		rev, names := request(g, n, rm)
		after := doRemove(c, rev, names, g.Chance(0.5), n)
		// re-anchored history: prune the result again (parent positions produced by the code itself)
		if after == nil || len(after.TipNames()) < 5 || !g.Chance(0.35) {
			return
		}
		n = after
	}
}

// rootLossCase: a ROOTED tree whose root has a tip child x and a multifurcating child N (>= 3 children).
// x goes together with so many children of N that exactly two are left: the root disappears (case 1b),
// N takes its place and must then be KEPT with two children (the rootedness is the one read before the
// loop, not the one of the tree under surgery).  x stands before or after N, so that it is removed first
// or last; a further variant removes x alone or leaves three children.
func rootLossCase(c *core.Ctx) {
	g := c.G
	o := opts(g)
	o.Singles = 0
	o.MinTips, o.MaxTips = 5, 12
	var n *core.N
	for try := 0; try < 30; try++ {
		n, _ = g.Tree(o)
		if len(n.Kids) >= 3 {
			break
		}
	}
	if len(n.Kids) < 3 {
		return
	}
	lo := &core.TreeOpts{Lengths: o.Lengths, LenDenom: 8, LenMax: 40}
	x := &core.N{Name: "xr", E: core.NewE()}
	x.E.Len = g.Length(lo)
	n.E = core.NewE()
	n.E.Len = g.Length(lo)
	root := &core.N{Kids: []*core.N{x, n}}
	if g.Chance(0.4) {
		root.Kids = []*core.N{n, x}
	}
	core.NumberEdges(root)
	perm := g.R.Perm(len(n.Kids))
	keepKids := 2
	if g.Chance(0.2) {
		keepKids = 3
	}
	rm := []string{"xr"}
	if !g.Chance(0.1) {
		for _, j := range perm[keepKids:] {
			rm = append(rm, n.Kids[j].Leaves()...)
		}
	}
	if len(root.TipNames())-len(rm) < 3 {
		// too few tips would be left: keep one more child
		rm = []string{"xr"}
		for _, j := range perm[3:] {
			rm = append(rm, n.Kids[j].Leaves()...)
		}
	}
	rev, names := request(g, root, rm)
	doRemove(c, rev, names, g.Chance(0.5), root)
}

// sweep: every subset of the tips that leaves at least 3 of them.
func sweep(c *core.Ctx, maxTips int) {
	g := c.G
	o := opts(g)
	o.Singles = 0
	o.MinTips, o.MaxTips = 4, maxTips
	n, _ := g.Tree(o)
	if g.Chance(0.4) && len(n.Kids) > 0 {
		n = moveRoot(n, g.Intn(len(n.Kids)))
	}
	core.NumberEdges(n)
	if g.Chance(0.3) {
		tinyLengths(g, n)
	}
	tips := n.TipNames()
	nt := len(tips)
	for mask := 0; mask < 1<<uint(nt); mask++ {
		var rm, keep []string
		for i, s := range tips {
			if mask&(1<<uint(i)) != 0 {
				rm = append(rm, s)
			} else {
				keep = append(keep, s)
			}
		}
		if len(keep) < 3 {
			continue
		}
		if mask%2 == 0 {
			doRemove(c, false, rm, mask%3 == 0, n)
		} else {
			doRemove(c, true, keep, mask%3 == 0, n)
		}
	}
}

// Run generates the cases of C06.
func Run(c *core.Ctx) {
	if c.Arg != "" {
		Replay(c, core.ReadRequests(c.Arg))
		return
	}
	for i := 0; i < c.Scale(700, 19000); i++ {
		libCase(c)
	}
	for i := 0; i < c.Scale(6, 40); i++ {
		sweep(c, c.Scale(6, 9))
	}
	for i := 0; i < c.Scale(120, 4000); i++ {
		staleCase(c)
	}
	for i := 0; i < c.Scale(40, 1500); i++ {
		rootLossCase(c)
	}
	if c.Gotree != "" {
		for i := 0; i < c.Scale(90, 1200); i++ {
			cliCase(c)
		}
		for i := 0; i < c.Scale(25, 400); i++ {
			tipFileCase(c)
		}
		for i := 0; i < c.Scale(2, 12); i++ {
			longTipFileCase(c, i)
		}
	}
}
