/-
  C01 — the decisions about the regenerated source table `Gotree.Gen.C01` (harness/c01/extract.go → Gen/C01Syntax.lean).
  Kept apart from Proofs/C01.lean because other properties import that module (Lemmas/C13C01): nothing outside C01
  may import this file or Lemmas/C01Table (the only C01 modules that depend on a `Gen` module).  Every `theorem`
  here is audited with `#print axioms` like those of Proofs/C01.lean.
-/
import Gotree.Proofs.C01
import Gotree.Lemmas.C01Table

namespace Gotree.C01
open Gotree Gotree.Newick

/-! ### the source table (regenerated from the working tree on every run) against the model

   `Gotree.Gen.C01` is written by harness/c01/extract.go (go/parser) from io/newick/newick_token.go, newick_lexer.go,
   newick_parser.go, tree/edge.go and tree/node.go.  Each statement below INTERPRETS the table as the Go conditions
   it was read from and compares the answer with the model function itself on a finite family of probes
   (Lemmas/C01Table.lean); when the source changes one of these facts, the decision fails (and the case stream still
   looks for a failing input through the oracle). -/

/-- the token constants of newick_token.go are the model's `Tok`, in order -/
theorem tokenTableCheck : Table.tokensOK = true := by decide +kernel

/-- `isWhitespace`, `isIdent`, the `switch ch` of `Scanner.Scan` and the eof sentinel: the model's `isWhitespace`,
    `isIdent`, `scan` give the same answer for every probed code point (ASCII, Latin-1, the Unicode blanks) in both modes -/
theorem lexerTableCheck : Table.lexerOK = true := by decide +kernel

/-- parseIter `case OPENBRACK`: for every prevTok (and -1) and every nil-ness of node / edge, the if-chain of the
    source sends the comment where `Newick.iter` sends it (branch, node, or error) -/
theorem commentTableCheck : Table.commentOK = true := by decide +kernel

/-- parseIter `case IDENT, NUMERIC`: label / new tip / error by prevTok as in `Newick.iter`; `strings.Split(lit, "/")`
    with `len(vals) == 2` as `splitSlash`; every ParseFloat is 64 bit -/
theorem identTableCheck : Table.identOK = true := by decide +kernel

/-- tree/edge.go and Node.Newick: sentinels = `NIL`; the three presence tests agree with `writeDecor` on the probes
    (-2, -1, -1/2, 0, 1/2, 1); support only next to an empty name; FormatFloat(·, 'f', -1, 64) three times; the
    parenthesis conditions agree with `writeNode` -/
theorem writerTableCheck : Table.writerOK = true := by decide +kernel

end Gotree.C01
