/-
  C16 — `tipDistOK` means "distance in branches to the closest tip".
-/
import Gotree.Spec.C16DepthDist

namespace Gotree.C16
open Gotree

/-- `Reach adj k v`: there is a walk of `k` branches from node `v` to a tip (a node with one neighbour) -/
inductive Reach (adj : List (List Nat)) : Nat → Nat → Prop where
  | tip (v : Nat) (hv : v < adj.length) (ht : (adj.getD v []).length = 1) : Reach adj 0 v
  | step (k u v : Nat) (hv : v < adj.length) (hu : u ∈ adj.getD v []) (h : Reach adj k u) : Reach adj (k + 1) v

/-- `k` is the number of branches between `v` and the closest tip -/
def IsTipDist (adj : List (List Nat)) (v k : Nat) : Prop :=
  Reach adj k v ∧ ∀ j, Reach adj j v → k ≤ j

theorem minList_le : ∀ (l : List Nat) (a : Nat), a ∈ l → minList l ≤ a
  | [], _, h => by cases h
  | [b], a, h => by simp at h; subst h; simp [minList]
  | b :: c :: r, a, h => by
    simp only [minList]
    rcases List.mem_cons.mp h with rfl | h
    · exact Nat.min_le_left _ _
    · exact Nat.le_trans (Nat.min_le_right _ _) (minList_le (c :: r) a h)

theorem minList_mem : ∀ (l : List Nat), l ≠ [] → minList l ∈ l
  | [], h => absurd rfl h
  | [b], _ => by simp [minList]
  | b :: c :: r, _ => by
    simp only [minList]
    have ih := minList_mem (c :: r) (by simp)
    by_cases hc : b ≤ minList (c :: r)
    · rw [Nat.min_eq_left hc]; exact List.mem_cons_self
    · rw [Nat.min_eq_right (by omega)]; exact List.mem_cons_of_mem _ ih

theorem tipDistAt_of_ok (adj : List (List Nat)) (dep : List Nat) (h : tipDistOK adj dep = true) (v : Nat)
    (hv : v < adj.length) : tipDistAt adj dep v = true := by
  simp only [tipDistOK, Bool.and_eq_true, List.all_eq_true, List.mem_range] at h
  exact h.2 v hv

/-- a walk of `k` branches to a tip bounds the reported depth -/
theorem dep_le_of_reach (adj : List (List Nat)) (dep : List Nat) (h : tipDistOK adj dep = true) :
    ∀ k v, Reach adj k v → dep.getD v 0 ≤ k := by
  intro k v hr
  induction hr with
  | tip v hv ht =>
    have := tipDistAt_of_ok adj dep h v hv
    simp only [tipDistAt, Bool.and_eq_true] at this
    have h2 := this.2
    simp only [ht, beq_self_eq_true, if_true, beq_iff_eq] at h2
    omega
  | step k u v hv hu _ ih =>
    have := tipDistAt_of_ok adj dep h v hv
    simp only [tipDistAt, Bool.and_eq_true] at this
    have h2 := this.2
    by_cases ht : ((adj.getD v []).length == 1) = true
    · simp only [ht, if_true, beq_iff_eq] at h2; omega
    · simp only [ht, Bool.false_eq_true, if_false, Bool.and_eq_true, beq_iff_eq] at h2
      have hm : minList ((adj.getD v []).map fun u => dep.getD u 0) ≤ dep.getD u 0 :=
        minList_le _ _ (List.mem_map.mpr ⟨u, hu, rfl⟩)
      omega

/-- the reported depth is the length of a walk to a tip -/
theorem reach_of_dep (adj : List (List Nat)) (dep : List Nat) (h : tipDistOK adj dep = true) :
    ∀ d v, v < adj.length → dep.getD v 0 = d → Reach adj d v := by
  intro d
  induction d with
  | zero =>
    intro v hv hd
    have := tipDistAt_of_ok adj dep h v hv
    simp only [tipDistAt, Bool.and_eq_true] at this
    have h2 := this.2
    by_cases ht : ((adj.getD v []).length == 1) = true
    · exact Reach.tip v hv (by simpa using ht)
    · simp only [ht, Bool.false_eq_true, if_false, Bool.and_eq_true, beq_iff_eq] at h2
      omega
  | succ d ih =>
    intro v hv hd
    have := tipDistAt_of_ok adj dep h v hv
    simp only [tipDistAt, Bool.and_eq_true] at this
    obtain ⟨hin, h2⟩ := this
    by_cases ht : ((adj.getD v []).length == 1) = true
    · simp only [ht, if_true, beq_iff_eq] at h2; omega
    · simp only [ht, Bool.false_eq_true, if_false, Bool.and_eq_true, beq_iff_eq] at h2
      obtain ⟨hne, heq⟩ := h2
      have hne' : ((adj.getD v []).map fun u => dep.getD u 0) ≠ [] := by
        intro hc
        have : adj.getD v [] = [] := List.map_eq_nil_iff.mp hc
        rw [this] at hne; simp at hne
      obtain ⟨u, hu, hue⟩ := List.mem_map.mp (minList_mem _ hne')
      have hul : u < adj.length := by
        have := List.all_eq_true.mp hin u hu
        simpa using this
      exact Reach.step d u v hv hu (ih u hul (by omega))

/-- ★ depths that pass `tipDistOK` are, node by node, the number of branches to the closest tip -/
theorem tipDistOK_sound (adj : List (List Nat)) (dep : List Nat) (h : tipDistOK adj dep = true) (v : Nat)
    (hv : v < adj.length) : IsTipDist adj v (dep.getD v 0) :=
  ⟨reach_of_dep adj dep h _ v hv rfl, fun j hj => dep_le_of_reach adj dep h j v hj⟩

/-- … and there is only one such list: the condition determines every depth -/
theorem tipDist_unique (adj : List (List Nat)) (v k k' : Nat) (h : IsTipDist adj v k) (h' : IsTipDist adj v k') : k = k' :=
  Nat.le_antisymm (h.2 _ h'.1) (h'.2 _ h.1)

end Gotree.C16
