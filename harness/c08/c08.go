// Package c08: tree comparison counts are exact set differences of splits.
//
// Runs the real tree.Compare / tree.CompareWeighted (single worker: threads are
// C11's business), Tree.CompareTipIndexes, Tree.CommonEdges and the command
// `gotree compare trees` on generated pairs, and prints one case line per case.
package c08

import (
	"bufio"
	"bytes"
	"errors"
	"fmt"
	"math/big"
	"math/rand"
	"os"
	"os/exec"
	"sort"
	"strconv"
	"strings"
	"time"

	"verifharness/core"

	"github.com/evolbioinfo/gotree/tree"
)

// ---------------------------------------------------------------------------
// harness-side tree surgery (on core.N, never on the code under test)

type slot struct {
	parent *core.N
	idx    int
	node   *core.N
}

func slots(n *core.N) []slot {
	var out []slot
	var rec func(x *core.N)
	rec = func(x *core.N) {
		for i, k := range x.Kids {
			out = append(out, slot{x, i, k})
			rec(k)
		}
	}
	rec(n)
	return out
}

func isAncestor(a, b *core.N) bool { // a is b or above b
	if a == b {
		return true
	}
	for _, k := range a.Kids {
		if isAncestor(k, b) {
			return true
		}
	}
	return false
}

// collapseOne removes one random internal branch (the node's kids are spliced in its place).
func collapseOne(g *core.G, n *core.N) bool {
	var cand []slot
	for _, s := range slots(n) {
		if len(s.node.Kids) > 0 {
			cand = append(cand, s)
		}
	}
	if len(cand) == 0 {
		return false
	}
	s := cand[g.Intn(len(cand))]
	kids := append([]*core.N(nil), s.parent.Kids[:s.idx]...)
	kids = append(kids, s.node.Kids...)
	kids = append(kids, s.parent.Kids[s.idx+1:]...)
	s.parent.Kids = kids
	return true
}

// resolveOne groups some children of a multifurcating node under a new node.
func resolveOne(g *core.G, o *core.TreeOpts, n *core.N) bool {
	type cnd struct {
		x    *core.N
		root bool
	}
	var cand []cnd
	if len(n.Kids) >= 4 {
		cand = append(cand, cnd{n, true})
	}
	for _, s := range slots(n) {
		if len(s.node.Kids) >= 3 {
			cand = append(cand, cnd{s.node, false})
		}
	}
	if len(cand) == 0 {
		return false
	}
	c := cand[g.Intn(len(cand))]
	k := len(c.x.Kids)
	maxs := k - 1
	if c.root {
		maxs = k - 2
	}
	s := 2 + g.Intn(maxs-1)
	perm := g.R.Perm(k)
	chosen := map[int]bool{}
	for _, i := range perm[:s] {
		chosen[i] = true
	}
	m := &core.N{E: core.NewE()}
	m.E.Len = g.Length(o)
	m.E.Sup = g.Support(o)
	var kids []*core.N
	placed := false
	for i, kid := range c.x.Kids {
		if chosen[i] {
			m.Kids = append(m.Kids, kid)
			if !placed {
				kids = append(kids, m)
				placed = true
			}
		} else {
			kids = append(kids, kid)
		}
	}
	c.x.Kids = kids
	return true
}

// swapSubtrees exchanges two subtrees that are not nested and hang from different nodes.
func swapSubtrees(g *core.G, n *core.N) bool {
	sl := slots(n)
	for try := 0; try < 20; try++ {
		a := sl[g.Intn(len(sl))]
		b := sl[g.Intn(len(sl))]
		if a.node == b.node || a.parent == b.parent || isAncestor(a.node, b.node) || isAncestor(b.node, a.node) {
			continue
		}
		a.parent.Kids[a.idx], b.parent.Kids[b.idx] = b.node, a.node
		return true
	}
	return false
}

func leaves(n *core.N) []*core.N {
	var out []*core.N
	var rec func(x *core.N)
	rec = func(x *core.N) {
		if len(x.Kids) == 0 {
			out = append(out, x)
		}
		for _, k := range x.Kids {
			rec(k)
		}
	}
	for _, k := range n.Kids {
		rec(k)
	}
	return out
}

func perturbLengths(g *core.G, o *core.TreeOpts, n *core.N, p float64) {
	for _, s := range slots(n) {
		if g.Chance(p) {
			s.node.E.Len = g.Length(o)
		}
	}
}

// ---------------------------------------------------------------------------
// pair generator

var kindNames = []string{"identical", "contraction", "refinement", "contract+refine", "subtreeswap", "independent", "tipswap", "difftaxa"}

func baseOpts(g *core.G, weighted bool) core.TreeOpts {
	o := core.DefaultOpts()
	o.MinTips, o.MaxTips = 4, 14
	o.Rooted = 0
	o.Multif = 0.35
	o.InnerNames = 0.05
	o.Lengths = 2
	if weighted {
		o.Lengths = 3
		if g.Chance(0.25) {
			o.Lengths = 2 // some lengths absent (sentinel -1), some zero
		}
	}
	if g.Chance(0.15) {
		o.MinTips, o.MaxTips = 4, 6
	}
	if g.Chance(0.1) {
		o.MaxTips = 30
	}
	return o
}

// aliasGroups: names that are distinct strings but look alike (equal as numbers, equal
// up to case, one a prefix of the other).  Anything that orders or identifies taxa by
// something coarser than the string itself confuses them.
var aliasGroups = [][]string{
	{"7", "07", "007", "7.0", "+7", "70"},
	{"1", "01", "001", "10", "010", "1e0"},
	{"Abc", "abc", "ABC", "abcx", "abc1"},
	{"-3", "3", "03", "3x", "+3"},
}

// alias renames some tips of both trees (the same tip gets the same new name in both).
func alias(g *core.G, intsOnly bool, trees ...*core.N) {
	seen := map[string]bool{}
	var names []string
	for _, t := range trees {
		for _, l := range leaves(t) {
			if !seen[l.Name] {
				seen[l.Name] = true
				names = append(names, l.Name)
			}
		}
	}
	grp := aliasGroups[g.Intn(len(aliasGroups))]
	if intsOnly {
		grp = []string{"7", "07", "007", "70", "0007"}
	}
	k := 2 + g.Intn(len(grp)-1)
	if k > len(names) {
		k = len(names)
	}
	perm := g.R.Perm(len(names))
	gperm := g.R.Perm(len(grp))
	m := map[string]string{}
	for i := 0; i < k; i++ {
		m[names[perm[i]]] = grp[gperm[i]]
	}
	for _, t := range trees {
		for _, l := range leaves(t) {
			if nn, ok := m[l.Name]; ok {
				l.Name = nn
			}
		}
	}
}

// pair draws (reference, compared).  Outside the property's hypotheses (rooted
// trees, single-child nodes) with a small probability: those cases check the
// model against the code only.
func pair(g *core.G, weighted bool, forceKind int) (*core.N, *core.N) {
	o := baseOpts(g, weighted)
	if g.Chance(0.14) {
		o.Rooted = 1
	} else if g.Chance(0.06) {
		o.Singles = 0.15
	}
	r, _ := g.Tree(o)
	if forceKind < 0 && g.Chance(0.04) {
		// degenerate shape, tie only: the root is itself a tip (a single neighbour)
		r.E = core.NewE()
		r.E.Len = g.Length(&o)
		r = &core.N{Name: "rootTip", Kids: []*core.N{r}}
	}
	kind := g.Intn(len(kindNames))
	if forceKind >= 0 {
		kind = forceKind
	}
	c := r.Clone()
	switch kind {
	case 0:
		if weighted && g.Chance(0.5) {
			perturbLengths(g, &o, c, 0.2)
		}
	case 1:
		for i, k := 0, 1+g.Intn(3); i < k; i++ {
			collapseOne(g, c)
		}
	case 2:
		// make sure there is something to resolve: collapse in the reference first
		for i, k := 0, 1+g.Intn(2); i < k; i++ {
			collapseOne(g, r)
		}
		c = r.Clone()
		for i, k := 0, 1+g.Intn(2); i < k; i++ {
			resolveOne(g, &o, c)
		}
	case 3:
		collapseOne(g, c)
		if g.Chance(0.5) {
			collapseOne(g, c)
		}
		resolveOne(g, &o, c)
		if g.Chance(0.5) {
			resolveOne(g, &o, c)
		}
	case 4:
		for i, k := 0, 1+g.Intn(2); i < k; i++ {
			swapSubtrees(g, c)
		}
	case 5:
		o2 := o
		n := len(r.TipNames())
		o2.MinTips, o2.MaxTips = n, n
		c, _ = g.Tree(o2)
	case 6:
		l := leaves(c)
		a, b := l[g.Intn(len(l))], l[g.Intn(len(l))]
		a.Name, b.Name = b.Name, a.Name
	case 7:
		l := leaves(c)
		switch g.Intn(4) {
		case 0: // one tip renamed (same count)
			l[g.Intn(len(l))].Name = "zz_other"
		case 1: // compared tree has one more tip (superset)
			s := slots(c)
			x := s[g.Intn(len(s))]
			nt := &core.N{Name: "zz_extra", E: core.NewE()}
			nt.E.Len = g.Length(&o)
			x.parent.Kids = append(x.parent.Kids, nt)
		case 2: // compared tree lacks one tip (subset): drop a leaf from a node that keeps >= 3 kids
			done := false
			for _, s := range slots(c) {
				if len(s.node.Kids) == 0 && len(s.parent.Kids) >= 4 {
					s.parent.Kids = append(append([]*core.N(nil), s.parent.Kids[:s.idx]...), s.parent.Kids[s.idx+1:]...)
					done = true
					break
				}
			}
			if !done {
				l[0].Name = "zz_other"
			}
		default: // all other names
			for i, x := range l {
				x.Name = fmt.Sprintf("u%d", i)
			}
		}
		if g.Chance(0.5) {
			swapSubtrees(g, c)
		}
	}
	if weighted && kind != 0 && g.Chance(0.5) {
		perturbLengths(g, &o, c, 0.3)
	}
	if g.Chance(0.3) {
		alias(g, false, r, c)
	}
	if g.Chance(0.5) {
		return c, r
	}
	return r, c
}

// rootedCopy returns a copy of n (root of degree >= 3) rooted in the middle of one of the internal
// branches at its root, or nil when there is none.
func rootedCopy(n *core.N) *core.N {
	c := n.Clone()
	if len(c.Kids) < 3 {
		return nil
	}
	for i, k := range c.Kids {
		if len(k.Kids) >= 2 {
			rest := &core.N{E: core.NewE()}
			rest.Kids = append(append([]*core.N(nil), c.Kids[:i]...), c.Kids[i+1:]...)
			return &core.N{Kids: []*core.N{k, rest}}
		}
	}
	return nil
}

// ---------------------------------------------------------------------------
// running the real code

func build(n *core.N) *tree.Tree {
	t, err := core.Build(n)
	if err != nil {
		panic(err)
	}
	return t
}

// rerooted returns a copy of n re-rooted on another internal node and with the
// neighbours of every node rotated, both by the real code (Reroot,
// RotateInternalNodes); the dump is the alpha image of the result.
func rerooted(g *core.G, n *core.N) *core.N {
	t := build(n)
	var inner []*tree.Node
	for _, x := range t.Nodes() {
		if x.Nneigh() >= 3 {
			inner = append(inner, x)
		}
	}
	if len(inner) > 0 {
		if err := t.Reroot(inner[g.Intn(len(inner))]); err != nil {
			panic(err)
		}
	}
	rand.Seed(int64(g.Intn(1 << 30)))
	t.RotateInternalNodes()
	back, wf := core.Alpha(t)
	if !wf.OK() {
		panic(fmt.Sprintf("re-rooted copy malformed: %v", wf.Problems))
	}
	return back
}

// identifier given to the compared tree; every record must carry it back
const recordId = 7

func one(c *tree.Tree) <-chan tree.Trees {
	ch := make(chan tree.Trees, 1)
	ch <- tree.Trees{Tree: c, Id: recordId}
	close(ch)
	return ch
}

// workers is the number of worker goroutines of the next comparisons (1, 2, 4, 16).  With
// more than one worker the channel also carries three decoys (fresh copies of the reference,
// ids 101..103) around the compared tree, so that several workers really take trees; every
// tree must get exactly one record, carrying its id, and the record of a decoy must say
// "identical".  The record of the compared tree must be the sequential one whatever the
// number of workers (schedules themselves are C11's business).
var workers = 1

// decoys: also with a single worker (then one goroutine handles all four trees in turn)
var decoys = false

func feed(rn *core.N, c *tree.Tree) (<-chan tree.Trees, int) {
	if workers <= 1 && !decoys {
		return one(c), 1
	}
	ch := make(chan tree.Trees, 5)
	ch <- tree.Trees{Tree: build(rn), Id: 101}
	// an item that already carries the error of the reader (and no tree): `inerr = treeV.Err`
	ch <- tree.Trees{Tree: nil, Id: errItemId, Err: errors.New("reader error")}
	ch <- tree.Trees{Tree: c, Id: recordId}
	ch <- tree.Trees{Tree: build(rn), Id: 102}
	ch <- tree.Trees{Tree: build(rn), Id: 103}
	close(ch)
	return ch, 5
}

// id of the item of the channel that carries an error instead of a tree: its record must carry
// that error (model: compareItem / compareWeightedItem on Item.readErr)
const errItemId = 104

// stale leaves t with a tip index and bitsets computed for OTHER names: two tips exchange their
// names, the tree is indexed, the names are put back.  A comparison must re-index the trees it is
// given (ReinitIndexes), so the result must be the one of a freshly built tree.
func stale(t *tree.Tree) {
	tips := t.Tips()
	if len(tips) < 2 {
		return
	}
	a, b := tips[0], tips[len(tips)-1]
	na, nb := a.Name(), b.Name()
	a.SetName(nb)
	b.SetName(na)
	t.ReinitIndexes()
	a.SetName(na)
	b.SetName(nb)
}

// history: the next comparison is the second use of its trees — both were indexed under other
// names before (stale), and the reference has already served in a comparison with another tree
var history = false

// collect checks the bookkeeping of the records and returns the one of the compared tree.
// inProperty: root of degree >= 3 and no single-child node (the trees of the property; a
// tree with a single-child node has two branches for one split and is not even "identical"
// to itself for CompareWeighted when their lengths differ).
func inProperty(n *core.N) bool {
	if len(n.Kids) < 3 {
		return false
	}
	ok := true
	var rec func(x *core.N)
	rec = func(x *core.N) {
		for _, k := range x.Kids {
			if len(k.Kids) == 1 {
				ok = false
			}
			rec(k)
		}
	}
	rec(n)
	return ok
}

func collect(strict bool, n int, ids []int, errs []error, same []bool, recs []string) string {
	seen := map[int]int{}
	out := "none"
	for i, id := range ids {
		seen[id]++
		if id == recordId {
			out = recs[i]
		} else if id == errItemId {
			if errs[i] == nil {
				return "panic:" + core.Escape("the item of the channel carrying an error got a record without Err")
			}
		} else if strict && (errs[i] != nil || !same[i]) {
			return "panic:" + core.Escape(fmt.Sprintf("decoy %d (the reference itself) not reported identical", id))
		}
	}
	if len(ids) != n || seen[recordId] != 1 || len(seen) != n {
		return "panic:" + core.Escape(fmt.Sprintf("%d records for %d trees, ids %v", len(ids), n, ids))
	}
	return out
}

func runCompare(rn, cn *core.N, tips, sc bool) string {
	r, c := build(rn), build(cn)
	out := "none"
	if p, msg := core.Safe(func() {
		if history {
			stale(r)
			stale(c)
			if first, err := tree.Compare(r, one(build(cn)), !tips, !sc, 1); err == nil {
				for range first {
				}
			}
		}
		ch, n := feed(rn, c)
		stats, err := tree.Compare(r, ch, tips, sc, workers)
		if err != nil {
			out = "referr"
			return
		}
		var ids []int
		var errs []error
		var same []bool
		var recs []string
		for st := range stats {
			ids = append(ids, st.Id)
			errs = append(errs, st.Err)
			same = append(same, st.Sametree)
			if st.Err != nil {
				// what the record carries besides Err (since e41ab42 the loop does not run on other taxa)
				recs = append(recs, fmt.Sprintf("err;%d;%d;%d;%v", st.Tree1, st.Common, st.Tree2, st.Sametree))
			} else {
				recs = append(recs, fmt.Sprintf("ok;%d;%d;%d;%v", st.Tree1, st.Common, st.Tree2, st.Sametree))
			}
		}
		out = collect(inProperty(rn), n, ids, errs, same, recs)
	}); p {
		return "panic:" + core.Escape(msg)
	}
	return out
}

func runWeighted(rn, cn *core.N, tips, sc bool) string {
	r, c := build(rn), build(cn)
	out := "none"
	if p, msg := core.Safe(func() {
		if history {
			stale(r)
			stale(c)
			if first, err := tree.CompareWeighted(r, one(build(cn)), !tips, !sc, 1); err == nil {
				for range first {
				}
			}
		}
		ch, n := feed(rn, c)
		stats, err := tree.CompareWeighted(r, ch, tips, sc, workers)
		if err != nil {
			out = "referr"
			return
		}
		var ids []int
		var errs []error
		var same []bool
		var recs []string
		// a caller collects the records and reads them afterwards: a record must stay what it
		// was when it was sent (its slices must not be reused for the next tree)
		var all []tree.WeightedBipartitionStats
		for st := range stats {
			all = append(all, st)
		}
		for _, st := range all {
			ids = append(ids, st.Id)
			errs = append(errs, st.Err)
			same = append(same, st.Sametree)
			if st.Err != nil {
				recs = append(recs, fmt.Sprintf("err;%v;%s;%s;%s", st.Sametree, core.RatList(st.Tree1), core.RatList(st.Tree2), core.RatList(st.Common)))
			} else {
				recs = append(recs, fmt.Sprintf("ok;%v;%s;%s;%s", st.Sametree, core.RatList(st.Tree1), core.RatList(st.Tree2), core.RatList(st.Common)))
			}
		}
		out = collect(inProperty(rn), n, ids, errs, same, recs)
	}); p {
		return "panic:" + core.Escape(msg)
	}
	return out
}

func b01(b bool) string {
	if b {
		return "1"
	}
	return "0"
}

func doCmp(c *core.Ctx, weighted, tips, sc bool, rn, cn *core.N) {
	if weighted && c.G.Chance(0.2) {
		// negative branch lengths (distance methods produce them): a length is absent only
		// when it is the marker -1 itself
		for _, n := range []*core.N{rn, cn} {
			for _, s := range slots(n) {
				if s.node.E.Len > 0 && s.node.E.Len != 1 && c.G.Chance(0.3) {
					s.node.E.Len = -s.node.E.Len
				}
			}
		}
	}
	r2, c2 := rerooted(c.G, rn), rerooted(c.G, cn)
	// 0 and -3: `if cpus < 1 { cpus = 1 }` (model workersOf)
	workers = []int{1, 1, 2, 4, 16, 0, -3, 1}[c.G.Intn(8)]
	decoys = weighted || c.G.Chance(0.3) // one worker: one goroutine handles all the items in turn
	emitCmp(c, weighted, tips, sc, rn, cn, r2, c2)
}

func emitCmp(c *core.Ctx, weighted, tips, sc bool, rn, cn, r2, c2 *core.N) {
	f := runCompare
	op := "C08.cmp"
	if weighted {
		f = runWeighted
		op = "C08.wcmp"
	}
	if !begin(c, op, b01(tips), b01(sc), rn.Dump(), cn.Dump(), r2.Dump(), c2.Dump(), strconv.Itoa(workers)) {
		return
	}
	o1, o2 := f(rn, cn, tips, sc), f(cn, rn, tips, sc)
	// the third run (re-rooted, rotated copies) is also the one with a history: its trees were
	// indexed under other names before and its reference has already been compared once
	history = true
	o3 := f(r2, c2, tips, sc)
	history = false
	emit(c, op, b01(tips), b01(sc), rn.Dump(), cn.Dump(), r2.Dump(), c2.Dump(), o1, o2, o3, strconv.Itoa(workers))
}

func doCommon(c *core.Ctx, tips bool, an, bn *core.N) {
	if !begin(c, "C08.common", b01(tips), an.Dump(), bn.Dump()) {
		return
	}
	a, b := build(an), build(bn)
	out := ""
	if p, msg := core.Safe(func() {
		if err := a.ReinitIndexes(); err != nil {
			out = "reiniterr"
			return
		}
		if err := b.ReinitIndexes(); err != nil {
			out = "reiniterr"
			return
		}
		t1, co, err := a.CommonEdges(b, tips)
		if err != nil {
			out = "err"
		} else {
			out = fmt.Sprintf("ok;%d;%d", t1, co)
		}
	}); p {
		out = "panic:" + core.Escape(msg)
	}
	emit(c, "C08.common", b01(tips), an.Dump(), bn.Dump(), out)
}

func doTipIdx(c *core.Ctx, an, bn *core.N) {
	if !begin(c, "C08.tipidx", an.Dump(), bn.Dump()) {
		return
	}
	a, b := build(an), build(bn)
	out := ""
	if p, msg := core.Safe(func() {
		if err := a.ReinitIndexes(); err != nil {
			out = "reiniterr"
			return
		}
		if err := b.ReinitIndexes(); err != nil {
			out = "reiniterr"
			return
		}
		if err := a.CompareTipIndexes(b); err != nil {
			out = "err"
		} else {
			out = "ok"
		}
	}); p {
		out = "panic:" + core.Escape(msg)
	}
	emit(c, "C08.tipidx", an.Dump(), bn.Dump(), out)
}

// the last three combine --rf with the other flags: the documented priority is
// --binary (with or without --weighted) > --weighted > --rf (model: Flags / libCall / rowEvent)
// "nocompared": no -c at all (`intree2file == "none"`: the command must fail before reading anything)
var cliModes = []string{"plain", "rf", "binary", "weighted", "wbinary", "rf+binary", "rf+weighted", "rf+wbinary", "nocompared"}

// effMode is the mode the documentation gives for a combination of flags
func effMode(mode string) string {
	switch mode {
	case "rf+binary":
		return "binary"
	case "rf+weighted":
		return "weighted"
	case "rf+wbinary":
		return "wbinary"
	}
	return mode
}

// cliThreads is the -t of the next `compare trees` (1: rows in file order; 3: any order, the
// harness presents them by id; the text is compared as header + set of lines)
var cliThreads = 1

func doCLI(c *core.Ctx, mode string, tips bool, rn *core.N, cns []*core.N) {
	if !begin(c, "C08.cli", mode, b01(tips), rn.Dump(), core.Dumps(cns)) {
		return
	}
	ref := c.TmpFile(build(rn).Newick() + "\n")
	var b strings.Builder
	for _, cn := range cns {
		b.WriteString(build(cn).Newick())
		b.WriteByte('\n')
	}
	comp := c.TmpFile(b.String())
	// option handling: the reference comes from a file, or (modes rf / wbinary) from the
	// standard input, which is the default of -i; --tips by its long or short name
	args := []string{"compare", "trees", "-c", comp, "-t", strconv.Itoa(cliThreads)}
	if mode == "nocompared" {
		args = []string{"compare", "trees", "-t", "1"}
	}
	stdin := ""
	if mode == "rf" || mode == "wbinary" {
		stdin = build(rn).Newick() + "\n"
	} else {
		args = append(args, "-i", ref)
	}
	if tips {
		if mode == "binary" || mode == "weighted" {
			args = append(args, "-l")
		} else {
			args = append(args, "--tips")
		}
	}
	switch mode {
	case "rf":
		args = append(args, "--rf")
	case "binary":
		args = append(args, "--binary")
	case "weighted":
		args = append(args, "--weighted")
	case "wbinary":
		args = append(args, "--weighted", "--binary")
	case "rf+binary":
		args = append(args, "--binary", "--rf")
	case "rf+weighted":
		args = append(args, "--rf", "--weighted")
	case "rf+wbinary":
		args = append(args, "--rf", "--binary", "--weighted")
	}
	res := c.RunCLI(stdin, 20*time.Second, args...)
	fullMode := mode
	mode = effMode(mode)
	outcome := "ok"
	if res.Timeout {
		outcome = "timeout"
	} else if res.Exit != 0 {
		// "error": the command reported an error and exited; "crash": the Go runtime killed it
		outcome = "error"
		for _, l := range strings.Split(res.Stderr, "\n") {
			if strings.HasPrefix(l, "fatal error:") || strings.HasPrefix(l, "panic:") {
				outcome = "crash:" + core.Escape(l)
				break
			}
		}
	}
	var rows strings.Builder
	var rowList [][]string
	lines := strings.Split(strings.TrimRight(res.Stdout, "\n"), "\n")
	for i, l := range lines {
		if l == "" {
			continue
		}
		if i == 0 && mode != "rf" {
			continue // header
		}
		f := strings.Split(l, "\t")
		ok := true
		for j, v := range f {
			if mode == "weighted" && j > 0 {
				r := new(big.Rat)
				if _, good := r.SetString(v); good {
					f[j] = r.RatString()
				} else {
					ok = false
				}
			}
			if strings.ContainsAny(f[j], ";| ") {
				ok = false
			}
		}
		if !ok {
			// not a data row (e.g. the error message printed by Execute)
			continue
		}
		rowList = append(rowList, f)
	}
	if cliThreads > 1 && mode != "rf" {
		sort.SliceStable(rowList, func(i, j int) bool {
			a, e1 := strconv.Atoi(rowList[i][0])
			b, e2 := strconv.Atoi(rowList[j][0])
			return e1 == nil && e2 == nil && a < b
		})
	}
	for _, f := range rowList {
		rows.WriteString(strings.Join(f, ";"))
		rows.WriteByte('|')
	}
	// the text written on the standard output, as it is (tied to the model's cliOutput)
	emit(c, "C08.cli", fullMode, b01(tips), rn.Dump(), core.Dumps(cns), outcome, rows.String(), core.Escape(res.Stdout), strconv.Itoa(cliThreads))
}

// `gotree compare edges -i ref -c comp`: one row per branch of the reference (brid, terminal,
// topodepth, found, transfer distance).
func doCLIEdges(c *core.Ctx, rn, cn *core.N) {
	if !begin(c, "C08.cliedges", rn.Dump(), cn.Dump()) {
		return
	}
	ref := c.TmpFile(build(rn).Newick() + "\n")
	comp := c.TmpFile(build(cn).Newick() + "\n")
	res := c.RunCLI("", 20*time.Second, "compare", "edges", "-i", ref, "-c", comp)
	outcome := cliOutcome(res)
	var rows strings.Builder
	for i, l := range strings.Split(strings.TrimRight(res.Stdout, "\n"), "\n") {
		f := strings.Split(l, "\t")
		if i == 0 || len(f) < 12 {
			continue
		}
		// tree, brid, terminal, topodepth, found, transfer
		rows.WriteString(strings.Join([]string{f[0], f[1], f[4], f[6], f[9], f[11]}, ";"))
		rows.WriteByte('|')
	}
	emit(c, "C08.cliedges", rn.Dump(), cn.Dump(), outcome, rows.String())
}

func cliOutcome(res core.CLIResult) string {
	if res.Timeout {
		return "timeout"
	}
	if res.Exit != 0 {
		for _, l := range strings.Split(res.Stderr, "\n") {
			if strings.HasPrefix(l, "fatal error:") || strings.HasPrefix(l, "panic:") {
				return "crash:" + core.Escape(l)
			}
		}
		return "error"
	}
	return "ok"
}

// `gotree compare tips`: mode "c" (-c trees), "f" (-f tip list), "cf" (both: -c has priority,
// the tip list given is a decoy).
func doCLITips(c *core.Ctx, mode string, rn *core.N, cns []*core.N) {
	if !begin(c, "C08.clitips", mode, rn.Dump(), core.Dumps(cns)) {
		return
	}
	ref := c.TmpFile(build(rn).Newick() + "\n")
	args := []string{"compare", "tips", "-i", ref}
	if mode == "c" || mode == "cf" {
		var b strings.Builder
		for _, cn := range cns {
			b.WriteString(build(cn).Newick())
			b.WriteByte('\n')
		}
		args = append(args, "-c", c.TmpFile(b.String()))
	}
	if mode == "f" {
		args = append(args, "-f", c.TmpFile(strings.Join(cns[0].TipNames(), "\n")+"\n"))
	}
	if mode == "cf" {
		args = append(args, "-f", c.TmpFile("decoy_a\ndecoy_b\n"))
	}
	res := c.RunCLI("", 20*time.Second, args...)
	var rows strings.Builder
	for _, l := range strings.Split(strings.TrimRight(res.Stdout, "\n"), "\n") {
		var id int
		var sign, name string
		if n, _ := fmt.Sscanf(l, "(Tree %d) %s %s", &id, &sign, &name); n == 3 && (sign == "<" || sign == ">" || sign == "=") {
			rows.WriteString(fmt.Sprintf("%d;%s;%s|", id, map[string]string{"<": "lt", ">": "gt", "=": "eq"}[sign], core.Escape(name)))
		}
	}
	emit(c, "C08.clitips", mode, rn.Dump(), core.Dumps(cns), cliOutcome(res), rows.String())
}

// ---------------------------------------------------------------------------
// replay and generation

func parse(s string) *core.N {
	n, err := core.ParseDump(s)
	if err != nil {
		panic(err)
	}
	return n
}

// Replay re-executes the requests of a corpus / replay file on the real code
// (recorded outputs are ignored).
func Replay(c *core.Ctx, lines []string) {
	for _, l := range lines {
		f := strings.Split(l, "\t")
		switch {
		case (f[0] == "C08.cmp" || f[0] == "C08.wcmp") && len(f) >= 5:
			rn, cn := parse(f[3]), parse(f[4])
			r2, c2 := rn, cn
			if len(f) >= 7 {
				r2, c2 = parse(f[5]), parse(f[6])
			}
			workers = 1
			decoys = len(f) >= 11 && f[0] == "C08.wcmp"
			if len(f) >= 11 {
				if w, err := strconv.Atoi(f[10]); err == nil && w >= 1 {
					workers = w
				}
			}
			emitCmp(c, f[0] == "C08.wcmp", f[1] == "1", f[2] == "1", rn, cn, r2, c2)
		case f[0] == "C08.common" && len(f) >= 4:
			doCommon(c, f[1] == "1", parse(f[2]), parse(f[3]))
		case f[0] == "C08.tipidx" && len(f) >= 3:
			doTipIdx(c, parse(f[1]), parse(f[2]))
		case f[0] == "C08.cli" && len(f) >= 5:
			var cns []*core.N
			for _, d := range strings.Split(strings.TrimSuffix(f[4], "|"), "|") {
				cns = append(cns, parse(d))
			}
			if c.Gotree != "" {
				doCLI(c, f[1], f[2] == "1", parse(f[3]), cns)
			}
		case f[0] == "C08.cliedges" && len(f) >= 3:
			if c.Gotree != "" {
				doCLIEdges(c, parse(f[1]), parse(f[2]))
			}
		case f[0] == "C08.clitips" && len(f) >= 4:
			var cns []*core.N
			for _, d := range strings.Split(strings.TrimSuffix(f[3], "|"), "|") {
				cns = append(cns, parse(d))
			}
			if c.Gotree != "" {
				doCLITips(c, f[1], parse(f[2]), cns)
			}
		default:
			panic("C08: cannot replay " + f[0])
		}
	}
}

// ---------------------------------------------------------------------------
// child process: tree.Compare / CompareWeighted do their work in goroutines, where a
// panic cannot be recovered by the caller.  The cases are therefore executed by a
// child (the same binary, VERIF_C08_CHILD=1) that announces each case before running
// it; when the child dies the parent reports that case with outcome `panic:` and
// starts another child that skips the cases already done (generation is deterministic).

var (
	caseNo  int
	skipTo  int
	isChild bool
)

// begin announces a case; false means the case was handled by an earlier child.
func begin(c *core.Ctx, op string, inputs ...string) bool {
	n := caseNo
	caseNo++
	if n < skipTo {
		return false
	}
	if isChild {
		c.Emit("#PENDING", append([]string{op}, inputs...)...)
		c.W.Flush()
	}
	return true
}

func emit(c *core.Ctx, op string, fields ...string) {
	c.Emit(op, fields...)
	if isChild {
		c.W.Flush()
	}
}

var nOutputs = map[string]int{"C08.cmp": 3, "C08.wcmp": 3, "C08.common": 1, "C08.tipidx": 1, "C08.cli": 3, "C08.cliedges": 2, "C08.clitips": 2}

func parent(c *core.Ctx) {
	done := 0
	for attempt := 0; attempt < 200; attempt++ {
		cmd := exec.Command(os.Args[0], os.Args[1:]...)
		cmd.Env = append(os.Environ(), "VERIF_C08_CHILD=1", "VERIF_C08_SKIP="+strconv.Itoa(done))
		var stderr bytes.Buffer
		cmd.Stderr = &stderr
		out, err := cmd.StdoutPipe()
		if err != nil {
			panic(err)
		}
		if err := cmd.Start(); err != nil {
			panic(err)
		}
		lines := make(chan string, 64)
		go func() {
			sc := bufio.NewScanner(out)
			sc.Buffer(make([]byte, 1<<20), 1<<28)
			for sc.Scan() {
				lines <- sc.Text()
			}
			close(lines)
		}()
		pending := ""
		reason := ""
	read:
		for {
			select {
			case l, ok := <-lines:
				if !ok {
					break read
				}
				if strings.HasPrefix(l, "#PENDING\t") {
					pending = strings.TrimPrefix(l, "#PENDING\t")
					continue
				}
				c.W.WriteString(l)
				c.W.WriteByte('\n')
				pending = ""
				done++
			case <-time.After(300 * time.Second):
				cmd.Process.Kill()
				reason = "timeout"
				break read
			}
		}
		werr := cmd.Wait()
		if werr == nil && pending == "" && reason == "" {
			return
		}
		if pending == "" {
			panic(fmt.Sprintf("C08: executor died outside a case (%v): %s", werr, tail(stderr.String(), 2000)))
		}
		if reason == "" {
			reason = "executor died: " + firstLine(stderr.String())
		}
		f := strings.Split(pending, "\t")
		fields := append([]string(nil), f[1:]...)
		nworkers := ""
		if f[0] == "C08.cmp" || f[0] == "C08.wcmp" {
			nworkers = fields[len(fields)-1]
			fields = fields[:len(fields)-1]
		}
		if strings.HasPrefix(f[0], "C08.cli") {
			fields = append(fields, "crash:"+core.Escape(reason), "")
		} else {
			for i := 0; i < nOutputs[f[0]]; i++ {
				fields = append(fields, "panic:"+core.Escape(reason))
			}
			if nworkers != "" {
				fields = append(fields, nworkers)
			}
		}
		c.Emit(f[0], fields...)
		done++
	}
	panic("C08: executor restarted too often")
}

func firstLine(s string) string {
	for _, l := range strings.Split(s, "\n") {
		if strings.TrimSpace(l) != "" {
			return l
		}
	}
	return ""
}

func tail(s string, n int) string {
	if len(s) > n {
		return s[len(s)-n:]
	}
	return s
}

// Run generates the cases of C08.
func Run(c *core.Ctx) {
	if os.Getenv("VERIF_C08_CHILD") == "" {
		parent(c)
		return
	}
	isChild = true
	skipTo, _ = strconv.Atoi(os.Getenv("VERIF_C08_SKIP"))
	if c.Arg != "" {
		Replay(c, core.ReadRequests(c.Arg))
		return
	}
	g := c.G
	n := c.Scale(800, 25000)
	for i := 0; i < n; i++ {
		tips := g.Chance(0.5)
		sc := g.Chance(0.3)
		switch i % 8 {
		case 0, 1, 2, 3:
			rn, cn := pair(g, false, -1)
			if g.Chance(0.05) {
				// tie only: an unrooted tree against a ROOTED presentation of the same tree (a root of
				// degree 2 on one of its internal branches): that branch is counted twice on one side,
				// the difference `total - common` goes negative (model branch model-negative-count)
				if rc := rootedCopy(rn); rc != nil {
					cn = rc
				}
			}
			doCmp(c, false, tips, sc, rn, cn)
		case 4, 5:
			rn, cn := pair(g, true, -1)
			doCmp(c, true, tips, sc, rn, cn)
		case 6:
			rn, cn := pair(g, false, -1)
			doCommon(c, tips, rn, cn)
		default:
			k := -1
			if g.Chance(0.6) {
				k = 7
			}
			rn, cn := pair(g, false, k)
			doTipIdx(c, rn, cn)
		}
	}
	if c.Gotree != "" {
		m := c.Scale(40, 800)
		for i := 0; i < m; i++ {
			mode := cliModes[i%len(cliModes)]
			weighted := mode == "weighted" || mode == "wbinary"
			tips := g.Chance(0.5)
			o := baseOpts(g, weighted)
			rn, _ := g.Tree(o)
			k := 1 + g.Intn(3)
			var cns []*core.N
			for j := 0; j < k; j++ {
				cn := rn.Clone()
				switch g.Intn(5) {
				case 0:
				case 1:
					collapseOne(g, cn)
				case 2:
					collapseOne(g, cn)
					resolveOne(g, &o, cn)
				case 3:
					swapSubtrees(g, cn)
				default:
					collapseOne(g, rn)
					cn = rn.Clone()
					resolveOne(g, &o, cn)
				}
				if weighted {
					perturbLengths(g, &o, cn, 0.3)
				}
				cns = append(cns, cn)
			}
			if g.Chance(0.3) {
				alias(g, true, append([]*core.N{rn}, cns...)...)
			}
			cliThreads = []int{1, 1, 3}[g.Intn(3)]
			if g.Chance(0.15) {
				bad := cns[g.Intn(len(cns))]
				leaves(bad)[0].Name = "zz_other"
				cliThreads = 1 // which rows precede the error is only determined with one worker
			}
			doCLI(c, mode, tips, rn, cns)
			cliThreads = 1
		}
		// compare edges / compare tips
		m2 := c.Scale(24, 400)
		for i := 0; i < m2; i++ {
			if i%2 == 0 {
				k := -1
				if g.Chance(0.15) {
					k = 7
				}
				rn, cn := pair(g, false, k)
				doCLIEdges(c, rn, cn)
			} else {
				mode := []string{"c", "f", "cf"}[(i/2)%3]
				rn, _ := pair(g, false, 0)
				var cns []*core.N
				for j, k := 0, 1+g.Intn(3); j < k; j++ {
					kind := 7
					if g.Chance(0.3) {
						kind = 4
					}
					// a tree on (mostly) the taxa of rn
					cn := rn.Clone()
					if kind == 4 {
						swapSubtrees(g, cn)
					}
					if kind == 7 {
						l := leaves(cn)
						switch g.Intn(3) {
						case 0:
							l[g.Intn(len(l))].Name = "zz_other"
						case 1:
							nt := &core.N{Name: "zz_extra", E: core.NewE()}
							cn.Kids = append(cn.Kids, nt)
						default:
							l[0].Name = "zz_a"
							l[len(l)-1].Name = "zz_b"
						}
					}
					cns = append(cns, cn)
				}
				doCLITips(c, mode, rn, cns)
			}
		}
	}
}
