/-
  C05 — `LeastCommonAncestorRecur` and the placement of the root by `RerootOutGroup`.
-/
import Gotree.Lemmas.C05

namespace Gotree.C05
open Gotree

/-! ## LeastCommonAncestorRecur: what `found` means -/

/-- number of outgroup / foreign leaves in a list of names -/
def cntIn (S l : List String) : Nat := (l.filter S.contains).length
def cntOut (S l : List String) : Nat := (l.filter (fun x => !S.contains x)).length

theorem cntIn_append (S a b : List String) : cntIn S (a ++ b) = cntIn S a + cntIn S b := by
  simp [cntIn, List.filter_append]
theorem cntOut_append (S a b : List String) : cntOut S (a ++ b) = cntOut S a + cntOut S b := by
  simp [cntOut, List.filter_append]

theorem cntIn_single (S : List String) (x : String) : cntIn S [x] = if S.contains x then 1 else 0 := by
  by_cases h : x ∈ S <;> simp [cntIn, List.filter_cons, h]
theorem cntOut_single (S : List String) (x : String) : cntOut S [x] = if S.contains x then 0 else 1 := by
  by_cases h : x ∈ S <;> simp [cntOut, List.filter_cons, h]

/-- the node reached by a path: the tree itself, or what `descend` finds -/
def AtPath (t : T) (p : List Nat) (y : T) : Prop := (p = [] ∧ y = t) ∨ ∃ e, descend t.kids p = some (e, y)

/-- meaning of a successful search in the subtree `t` -/
def FoundOK (S : List String) (nS : Nat) (t : T) (p es : List Nat) (tp : Bool) (df : Nat) : Prop :=
  ∃ y, AtPath t p y ∧ cntIn S y.leaves = nS ∧ (tp = true → y.kids = []) ∧
    (tp = false → es.Nodup ∧ (∀ i ∈ es, i < y.kids.length) ∧
      (∀ i, i ∉ es → ∀ e c, y.kids[i]? = some (e, c) → cntIn S c.leaves = 0) ∧
      (df = 0 → ∀ i ∈ es, ∀ e c, y.kids[i]? = some (e, c) → cntOut S c.leaves = 0))

/-- state of the loop over the kids `K` of a node when it has processed the first `idx` -/
def AccInv (S : List String) (K : Kids) (idx common : Nat) (edges : List Nat) (different : Nat) : Prop :=
  common = cntIn S (leavesL (K.take idx)) ∧ edges.Nodup ∧ (∀ i ∈ edges, i < idx) ∧
    (∀ i ∈ edges, i < K.length) ∧
    (∀ i, i < idx → i ∉ edges → ∀ e c, K[i]? = some (e, c) → cntIn S c.leaves = 0) ∧ (different = 0 → ∀ i ∈ edges, ∀ e c, K[i]? = some (e, c) → cntOut S c.leaves = 0)

theorem atPath_cons {d : NodeD} {pp : Nat} {K : Kids} {j : Nat} {e : EdgeD} {c y : T} {p' : List Nat}
    (hk : K[j]? = some (e, c)) (h : AtPath c p' y) : AtPath (.node d pp K) (j :: p') y := by
  right
  rcases h with ⟨rfl, rfl⟩ | ⟨e', h⟩
  · exact ⟨e, by simp [descend, hk]⟩
  · cases p' with
    | nil => simp [descend] at h
    | cons j' r => exact ⟨e', by simp [descend, hk, h]⟩

theorem leavesL_take_succ (K : Kids) (idx : Nat) (e : EdgeD) (t : T) (h : K[idx]? = some (e, t)) :
    leavesL (K.take (idx + 1)) = leavesL (K.take idx) ++ t.leaves := by
  rw [List.take_add_one, h]; simp [leavesL_append, leavesL_cons, leavesL_nil]

mutual
theorem lcaNode_sem (S : List String) (nS : Nat) (hn : 0 < nS) : ∀ (t : T),
    (∀ com df, lcaNode S nS t = .nf com df → com = cntIn S t.leaves ∧ df = cntOut S t.leaves) ∧
    (∀ p es tp df, lcaNode S nS t = .found p es tp df → FoundOK S nS t p es tp df)
  | .node d pp [] => by
    constructor
    · intro com df h
      simp only [lcaNode] at h
      by_cases hc : S.contains d.name = true
      · simp only [hc, if_true] at h
        split at h
        · cases h
        · cases h; simp [T.leaves, cntIn_single, cntOut_single, hc]
          simpa using hc
      · simp only [hc, Bool.false_eq_true, if_false] at h
        cases h; simp [T.leaves, cntIn_single, cntOut_single, hc]
        simpa using hc
    · intro p es tp df h
      simp only [lcaNode] at h
      by_cases hc : S.contains d.name = true
      · simp only [hc, if_true] at h
        split at h
        · rename_i h1
          cases h
          refine ⟨_, Or.inl ⟨rfl, rfl⟩, ?_, fun _ => rfl, (fun h => by cases h)⟩
          simp only [T.leaves, cntIn_single, hc, if_true]
          simpa using h1
        · cases h
      · simp only [hc, Bool.false_eq_true, if_false] at h
        cases h
  | .node d pp (k :: ks) => by
    have inv0 : AccInv S (k :: ks) 0 0 [] 0 := by
      refine ⟨by simp [cntIn, leavesL_nil], List.nodup_nil, by simp, by simp, by simp, by simp⟩
    obtain ⟨h1, h2⟩ := lcaKids_sem S nS hn d pp (k :: ks) (k :: ks) 0 0 [] 0 0 rfl inv0
    constructor
    · intro com df h
      simp only [lcaNode] at h
      have := h1 com df h
      simpa [T.leaves, leavesL_nil, cntIn, cntOut] using this
    · intro p es tp df h
      simp only [lcaNode] at h
      exact h2 p es tp df h
theorem lcaKids_sem (S : List String) (nS : Nat) (hn : 0 < nS) (d : NodeD) (pp : Nat) (K : Kids) :
    ∀ (k : Kids) (idx common : Nat) (edges : List Nat) (different tmpdiff : Nat),
    K.drop idx = k → AccInv S K idx common edges different →
    (∀ com df, lcaKids S nS k idx common edges different tmpdiff = .nf com df →
      com = common + cntIn S (leavesL k) ∧ df = different + tmpdiff + cntOut S (leavesL k)) ∧
    (∀ p es tp df, lcaKids S nS k idx common edges different tmpdiff = .found p es tp df →
      FoundOK S nS (.node d pp K) p es tp df)
  | [], idx, common, edges, different, tmpdiff, hk, inv => by
    constructor
    · intro com df h
      simp only [lcaKids] at h
      split at h
      · cases h
      · cases h; simp [leavesL_nil, cntIn, cntOut]
    · intro p es tp df h
      simp only [lcaKids] at h
      split at h
      · rename_i hc
        cases h
        have hlen : K.length ≤ idx := by
          have := congrArg List.length hk
          simp at this; omega
        obtain ⟨i1, i2, i3, i3', i5, i4⟩ := inv
        refine ⟨_, Or.inl ⟨rfl, rfl⟩, ?_, (fun h => by cases h), fun _ => ⟨i2, ?_, ?_, ?_⟩⟩
        · have : K.take idx = K := List.take_of_length_le hlen
          rw [this] at i1
          have hcne : K ≠ [] ∨ K = [] := by cases K <;> simp
          have hc' : common = nS := by simpa using hc
          rw [← hc', i1]
          cases K with
          | nil => exfalso; simp [leavesL_nil, cntIn] at i1; omega
          | cons x xs => simp [T.leaves]
        · intro i hi; exact i3' i hi
        · intro i hi e' c' hc'
          have hlt : i < K.length := (List.getElem?_eq_some_iff.1 hc').1
          exact i5 i (by omega) hi e' c' hc'
        · exact i4
      · cases h
  | (e, t) :: r, idx, common, edges, different, tmpdiff, hk, inv => by
    have hki : K[idx]? = some (e, t) := by
      have := congrArg (fun l => l[0]?) hk
      simpa using this
    have hk' : K.drop (idx + 1) = r := by
      have := congrArg (List.drop 1) hk
      simpa [List.drop_drop, Nat.add_comm] using this
    obtain ⟨n1, n2⟩ := lcaNode_sem S nS hn t
    obtain ⟨i1, i2, i3, i3', i5, i4⟩ := inv
    have htake := leavesL_take_succ K idx e t hki
    constructor
    · intro com df h
      simp only [lcaKids] at h
      cases hres : lcaNode S nS t with
      | found p es tp df' => simp [hres] at h
      | nf c1 d1 =>
        simp only [hres] at h
        obtain ⟨rfl, rfl⟩ := n1 c1 d1 hres
        by_cases hpos : cntIn S t.leaves > 0
        · simp only [hpos, if_true] at h
          have inv' : AccInv S K (idx + 1) (common + cntIn S t.leaves) (edges ++ [idx]) (different + cntOut S t.leaves) := by
            refine ⟨by rw [htake, cntIn_append, i1], ?_, ?_, ?_, ?_, ?_⟩
            · rw [List.nodup_append]
              refine ⟨i2, by simp, ?_⟩
              intro a ha b hb hab
              simp at hb; subst hb; subst hab
              exact Nat.lt_irrefl _ (i3 _ ha)
            · intro i hi
              rcases List.mem_append.1 hi with hi | hi
              · exact Nat.lt_succ_of_lt (i3 i hi)
              · simp at hi; omega
            · intro i hi
              rcases List.mem_append.1 hi with hi | hi
              · exact i3' i hi
              · simp at hi; subst hi
                exact (List.getElem?_eq_some_iff.1 hki).1
            · intro i hlt hi e' c' hc'
              have hi1 : i ∉ edges := fun h => hi (List.mem_append_left _ h)
              have hi2 : i ≠ idx := fun h => hi (by simp [h])
              exact i5 i (by omega) hi1 e' c' hc'
            · intro h0 i hi e' c' hc'
              have hd0 : different = 0 := by omega
              have ho0 : cntOut S t.leaves = 0 := by omega
              rcases List.mem_append.1 hi with hi | hi
              · exact i4 hd0 i hi e' c' hc'
              · simp at hi; subst hi
                rw [hki] at hc'; cases hc'; exact ho0
          have := (lcaKids_sem S nS hn d pp K r (idx + 1) _ _ _ tmpdiff hk' inv').1 com df h
          simp only [leavesL_cons, cntIn_append, cntOut_append]
          omega
        · simp only [hpos, if_false] at h
          have h0 : cntIn S t.leaves = 0 := by omega
          have inv' : AccInv S K (idx + 1) common edges different := by
            refine ⟨by rw [htake, cntIn_append, h0, i1]; rfl, i2, fun i hi => Nat.lt_succ_of_lt (i3 i hi), i3', ?_, i4⟩
            intro i hlt hi e' c' hc'
            by_cases hii : i = idx
            · subst hii; rw [hki] at hc'; cases hc'; exact h0
            · exact i5 i (by omega) hi e' c' hc'
          have := (lcaKids_sem S nS hn d pp K r (idx + 1) _ _ _ (tmpdiff + cntOut S t.leaves) hk' inv').1 com df h
          simp only [leavesL_cons, cntIn_append, cntOut_append]
          omega
    · intro p es tp df h
      simp only [lcaKids] at h
      cases hres : lcaNode S nS t with
      | found p' es' tp' df' =>
        simp only [hres] at h
        cases h
        obtain ⟨y, hy, rest⟩ := n2 p' es tp df hres
        exact ⟨y, atPath_cons hki hy, rest⟩
      | nf c1 d1 =>
        simp only [hres] at h
        obtain ⟨rfl, rfl⟩ := n1 c1 d1 hres
        by_cases hpos : cntIn S t.leaves > 0
        · simp only [hpos, if_true] at h
          have inv' : AccInv S K (idx + 1) (common + cntIn S t.leaves) (edges ++ [idx]) (different + cntOut S t.leaves) := by
            refine ⟨by rw [htake, cntIn_append, i1], ?_, ?_, ?_, ?_, ?_⟩
            · rw [List.nodup_append]
              refine ⟨i2, by simp, ?_⟩
              intro a ha b hb hab
              simp at hb; subst hb; subst hab
              exact Nat.lt_irrefl _ (i3 _ ha)
            · intro i hi
              rcases List.mem_append.1 hi with hi | hi
              · exact Nat.lt_succ_of_lt (i3 i hi)
              · simp at hi; omega
            · intro i hi
              rcases List.mem_append.1 hi with hi | hi
              · exact i3' i hi
              · simp at hi; subst hi
                exact (List.getElem?_eq_some_iff.1 hki).1
            · intro i hlt hi e' c' hc'
              have hi1 : i ∉ edges := fun h => hi (List.mem_append_left _ h)
              have hi2 : i ≠ idx := fun h => hi (by simp [h])
              exact i5 i (by omega) hi1 e' c' hc'
            · intro h0 i hi e' c' hc'
              have hd0 : different = 0 := by omega
              have ho0 : cntOut S t.leaves = 0 := by omega
              rcases List.mem_append.1 hi with hi | hi
              · exact i4 hd0 i hi e' c' hc'
              · simp at hi; subst hi
                rw [hki] at hc'; cases hc'; exact ho0
          exact (lcaKids_sem S nS hn d pp K r (idx + 1) _ _ _ tmpdiff hk' inv').2 p es tp df h
        · simp only [hpos, if_false] at h
          have h0 : cntIn S t.leaves = 0 := by omega
          have inv' : AccInv S K (idx + 1) common edges different := by
            refine ⟨by rw [htake, cntIn_append, h0, i1]; rfl, i2, fun i hi => Nat.lt_succ_of_lt (i3 i hi), i3', ?_, i4⟩
            intro i hlt hi e' c' hc'
            by_cases hii : i = idx
            · subst hii; rw [hki] at hc'; cases hc'; exact h0
            · exact i5 i (by omega) hi e' c' hc'
          exact (lcaKids_sem S nS hn d pp K r (idx + 1) _ _ _ (tmpdiff + cntOut S t.leaves) hk' inv').2 p es tp df h
end



/-! ## where the root is placed -/

theorem full_of_nodup {α : Type} {A B : List α} (hA : A.Nodup) (hsub : A ⊆ B) (hlen : B.length ≤ A.length)
    (hB : B.Nodup) : B ⊆ A := by
  intro x hx
  apply Classical.byContradiction
  intro hxa
  have h1 : (x :: A).Nodup := List.nodup_cons.2 ⟨hxa, hA⟩
  have h2 : (x :: A) ⊆ B := by
    intro y hy
    rcases List.mem_cons.1 hy with rfl | hy
    · exact hx
    · exact hsub hy
  have := h1.length_le_of_subset h2
  simp at this; omega

theorem cntOut_zero {S l : List String} (h : cntOut S l = 0) : ∀ x ∈ l, x ∈ S := by
  intro x hx
  have : l.filter (fun x => !S.contains x) = [] := List.length_eq_zero_iff.1 h
  have h2 := List.filter_eq_nil_iff.1 this x hx
  simpa using h2

theorem cntIn_zero {S l : List String} (h : cntIn S l = 0) : ∀ x ∈ l, x ∉ S := by
  intro x hx
  have : l.filter S.contains = [] := List.length_eq_zero_iff.1 h
  have h2 := List.filter_eq_nil_iff.1 this x hx
  simpa using h2

theorem cntIn_full {S l : List String} (hl : l.Nodup) (hS : S.Nodup) (h : cntIn S l = S.length) : S ⊆ l := by
  have hsub : l.filter S.contains ⊆ S := by
    intro x hx; have := (List.mem_filter.1 hx).2; simpa using this
  have := full_of_nodup (hl.filter _) hsub (by unfold cntIn at h; omega) hS
  intro x hx
  exact (List.mem_filter.1 (this hx)).1

theorem eraseIdx_insertAt {α : Type} (l : List α) (pos : Nat) (x : α) (hp : pos ≤ l.length) :
    (insertAt l pos x).eraseIdx pos = l ∧ (insertAt l pos x)[pos]? = some x := by
  unfold insertAt
  have hlen : (l.take pos).length = pos := by simp; omega
  constructor
  · rw [List.eraseIdx_append_of_length_le (by omega)]
    simp [hlen]
  · rw [List.getElem?_append_right (by omega)]
    simp [hlen]

theorem adjIdx_ne_pos (pos i : Nat) : adjIdx (some pos) i ≠ pos := by
  unfold adjIdx; simp only; split <;> omega

theorem adjIdx_surj (pos j n : Nat) (hj : j < n + 1) (hne : j ≠ pos) (hp : pos ≤ n) :
    ∃ i, i < n ∧ adjIdx (some pos) i = j := by
  by_cases h : j < pos
  · exact ⟨j, by omega, by simp [adjIdx, h]⟩
  · refine ⟨j - 1, by omega, ?_⟩
    have : ¬ (j - 1 < pos) := by omega
    simp only [adjIdx, this, if_false]; omega

/-- what `rootEdgeIdx` returns -/
theorem rootEdgeIdx_ok {tn : T} {es : List Nat} {r : Nat} (h : rootEdgeIdx tn es = .ok r) :
    (tn.kids.length = 1 ∧ r = 0) ∨
    (tn.kids.length ≠ 1 ∧ tn.kids.length - es.length = 1 ∧ r < tn.kids.length ∧ r ∉ es) := by
  unfold rootEdgeIdx at h
  by_cases h1 : tn.kids.length = 1
  · simp [h1] at h; exact Or.inl ⟨h1, h.symm⟩
  · right
    simp only [beq_iff_eq, h1, if_false, bne_iff_ne, ne_eq, ite_not] at h
    by_cases h2 : tn.kids.length - es.length = 1
    · simp only [h2, if_true] at h
      cases hf : (List.range tn.kids.length).find? (fun i => !es.contains i) with
      | none => rw [hf] at h; cases h
      | some r' =>
        rw [hf] at h
        cases h
        have hm := List.mem_of_find?_eq_some hf
        have hp := List.find?_some hf
        exact ⟨h1, h2, by simpa using hm, by simpa using hp⟩
    · simp [h2] at h



theorem leavesL_all_in {K : Kids} {S : List String} : ∀ (k : Kids) (off : Nat),
    (∀ j e c, k[j]? = some (e, c) → K[off + j]? = some (e, c)) →
    (∀ j e c, j < k.length → K[off + j]? = some (e, c) → cntOut S c.leaves = 0) →
    ∀ x ∈ leavesL k, x ∈ S
  | [], _, _, _, x, h => by simp [leavesL_nil] at h
  | (ea, ca) :: k, off, hk, hgood, x, hx => by
    rw [leavesL_cons] at hx
    rcases List.mem_append.1 hx with hx | hx
    · exact cntOut_zero (hgood 0 ea ca (by simp) (hk 0 ea ca (by simp))) x hx
    · refine leavesL_all_in (K := K) k (off + 1) (fun j e c h => ?_) (fun j e c hj h => ?_) x hx
      · have := hk (j + 1) e c (by simpa using h)
        rwa [show off + 1 + j = off + (j + 1) by omega]
      · exact hgood (j + 1) e c (by simp; omega) (by rwa [show off + (j + 1) = off + 1 + j by omega])

/-- the side of the cut that stays with the ancestor -/
def aSide (tn : T) (r : Nat) : T := .node tn.d 0 (tn.kids.eraseIdx r)

/-- The core of `outgroup_clade`: the node found by the search, once the tree is presented at
    it and the root branch is chosen, keeps on its side of that branch all the outgroup tips;
    and only them when no foreign tip was counted (`df = 0`). -/
theorem plan_clade {ts : T} {seff : List String} (hS : seff.Nodup) (hne : seff ≠ [])
    (hts : 1 < ts.kids.length)
    {p es : List Nat} {tp : Bool} {df : Nat} (hf : lcaNode seff seff.length ts = .found p es tp df)
    {back1 : List Nat} {tn : T} {adj : Option Nat} {back : List Nat}
    (hr : (tn, adj, back) = rerootP ts p none back1) {r : Nat}
    (hre : rootEdgeIdx tn (es.map (adjIdx adj)) = .ok r)
    (hAn : (aSide tn r).leaves.Nodup) :
    (∀ x ∈ seff, x ∈ (aSide tn r).leaves) ∧ (df = 0 → ∀ x ∈ (aSide tn r).leaves, x ∈ seff) := by
  have hpos : 0 < seff.length := List.length_pos_iff.2 hne
  obtain ⟨y, hy, hcnt, htip, hes⟩ := (lcaNode_sem seff seff.length hpos ts).2 p es tp df hf
  rcases hy with ⟨rfl, rfl⟩ | ⟨e0, hd⟩
  · -- the ancestor is the node the search started from
    rw [rerootP_nil] at hr
    simp only [Prod.mk.injEq] at hr
    obtain ⟨h1, h2, h3⟩ := hr
    subst h1; subst h2; subst h3
    have htp : tp = false := by
      cases tp with
      | false => rfl
      | true => have := htip rfl; rw [this] at hts; exact absurd hts (by decide)
    obtain ⟨hnd, hlt, hout, hin⟩ := hes htp
    have hes' : es.map (adjIdx none) = es := by
      have : adjIdx none = id := by funext i; rfl
      rw [this, List.map_id]
    rw [hes'] at hre
    rcases rootEdgeIdx_ok hre with ⟨h1, _⟩ | ⟨_, h2, hrlt, hrn⟩
    · omega
    · -- every kid but `r` is among the returned branches
      have hall : ∀ i, i < tn.kids.length → i ≠ r → i ∈ es := by
        intro i hi hir
        have hsub : (r :: es) ⊆ List.range tn.kids.length := by
          intro j hj
          rcases List.mem_cons.1 hj with rfl | hj
          · exact List.mem_range.2 hrlt
          · exact List.mem_range.2 (hlt j hj)
        have hfull := full_of_nodup (List.nodup_cons.2 ⟨hrn, hnd⟩) hsub (by simp; omega) List.nodup_range
        have := hfull (List.mem_range.2 hi)
        rcases List.mem_cons.1 this with h | h
        · exact absurd h hir
        · exact h
      obtain ⟨er, cr, hkr⟩ : ∃ er cr, tn.kids[r]? = some (er, cr) := by
        have := List.getElem?_eq_getElem hrlt
        exact ⟨_, _, this⟩
      obtain ⟨hsplit, herase⟩ := list_split_at tn.kids r (er, cr) hkr
      have hne' : tn.kids.eraseIdx r ≠ [] := by
        intro h0; have := congrArg List.length h0
        rw [List.length_eraseIdx_of_lt hrlt] at this; simp at this; omega
      have hA : (aSide tn r).leaves = leavesL (tn.kids.eraseIdx r) := by
        simp only [aSide, T.leaves_node]
        cases h : tn.kids.eraseIdx r with
        | nil => exact absurd h hne'
        | cons a b => simp
      -- leaves of tn: those of kid r and those of the others
      have hleaves : tn.leaves = leavesL tn.kids := by
        obtain ⟨d, pp, k⟩ := tn
        cases k with
        | nil => simp at hts
        | cons a b => simp [T.leaves]
      have hperm : (leavesL tn.kids).Perm (cr.leaves ++ leavesL (tn.kids.eraseIdx r)) := by
        conv => lhs; rw [hsplit]
        rw [herase, leavesL_append, leavesL_cons, leavesL_append]
        rw [List.perm_iff_count]; intro x
        simp only [List.count_append]; omega
      have hcr0 : cntIn seff cr.leaves = 0 := hout r hrn er cr hkr
      rw [hA]
      constructor
      · -- all outgroup tips are among the leaves, none in kid r
        intro x hx
        have hcnt' : cntIn seff (leavesL (tn.kids.eraseIdx r)) = seff.length := by
          have := congrArg (cntIn seff) hleaves
          rw [hcnt] at this
          have h2 : cntIn seff (leavesL tn.kids) = cntIn seff (cr.leaves ++ leavesL (tn.kids.eraseIdx r)) := by
            unfold cntIn; exact (hperm.filter _).length_eq
          rw [h2, cntIn_append, hcr0] at this
          omega
        exact cntIn_full (hA ▸ hAn) hS hcnt' hx
      · intro hdf x hx
        -- x is a leaf of some kid i ≠ r, which is among the returned branches
        rw [herase, leavesL_append] at hx
        rcases List.mem_append.1 hx with hx | hx
        · -- in the kids before r
          have : ∀ (k : Kids) (off : Nat), (∀ j e c, k[j]? = some (e, c) → tn.kids[off + j]? = some (e, c)) →
              (∀ j, j < k.length → off + j ≠ r) → x ∈ leavesL k → x ∈ seff := by
            intro k
            induction k with
            | nil => intro _ _ _ h; simp [leavesL_nil] at h
            | cons a k ih =>
              obtain ⟨ea, ca⟩ := a
              intro off hk hne hx
              rw [leavesL_cons] at hx
              rcases List.mem_append.1 hx with hx | hx
              · have hk0 := hk 0 ea ca (by simp)
                have hlt0 : off + 0 < tn.kids.length := (List.getElem?_eq_some_iff.1 hk0).1
                exact cntOut_zero (hin hdf (off + 0) (hall _ hlt0 (hne 0 (by simp))) ea ca hk0) x hx
              · refine ih (off + 1) (fun j e c h => ?_) (fun j hj => ?_) hx
                · have := hk (j + 1) e c (by simpa using h)
                  rwa [show off + 1 + j = off + (j + 1) by omega]
                · have := hne (j + 1) (by simp; omega)
                  rwa [show off + 1 + j = off + (j + 1) by omega]
          refine this (tn.kids.take r) 0 (fun j e c h => ?_) (fun j hj => ?_) hx
          · rw [List.getElem?_take] at h
            split at h
            · simpa using h
            · cases h
          · simp at hj; omega
        · have : ∀ (k : Kids) (off : Nat), (∀ j e c, k[j]? = some (e, c) → tn.kids[off + j]? = some (e, c)) →
              (∀ j, j < k.length → off + j ≠ r) → x ∈ leavesL k → x ∈ seff := by
            intro k
            induction k with
            | nil => intro _ _ _ h; simp [leavesL_nil] at h
            | cons a k ih =>
              obtain ⟨ea, ca⟩ := a
              intro off hk hne hx
              rw [leavesL_cons] at hx
              rcases List.mem_append.1 hx with hx | hx
              · have hk0 := hk 0 ea ca (by simp)
                have hlt0 : off + 0 < tn.kids.length := (List.getElem?_eq_some_iff.1 hk0).1
                exact cntOut_zero (hin hdf (off + 0) (hall _ hlt0 (hne 0 (by simp))) ea ca hk0) x hx
              · refine ih (off + 1) (fun j e c h => ?_) (fun j hj => ?_) hx
                · have := hk (j + 1) e c (by simpa using h)
                  rwa [show off + 1 + j = off + (j + 1) by omega]
                · have := hne (j + 1) (by simp; omega)
                  rwa [show off + 1 + j = off + (j + 1) by omega]
          refine this (tn.kids.drop (r + 1)) (r + 1) (fun j e c h => ?_) (fun j hj => by omega) hx
          rw [List.getElem?_drop] at h
          exact h
  · -- the ancestor is a proper descendant: the tree is presented at it
    obtain ⟨pos, x0, h1, h2, hpos'⟩ := rerootP_descend p ts none back1 ts.kids e0 y rfl hd
    rw [← hr] at h1 h2
    simp only at h1 h2
    subst h1; subst h2
    by_cases hyk : y.kids = []
    · -- a single outgroup tip
      have hk1 : (T.node y.d 0 (insertAt y.kids pos (e0, x0))).kids.length = 1 := by
        simp [hyk, insertAt]
      have hr0 : r = 0 := by
        rcases rootEdgeIdx_ok hre with ⟨_, h⟩ | ⟨h, _⟩
        · exact h
        · exact absurd hk1 h
      subst hr0
      have hA : (aSide (T.node y.d 0 (insertAt y.kids pos (e0, x0))) 0).leaves = [y.d.name] := by
        simp [aSide, hyk, insertAt, T.leaves_node]
      have hyl : y.leaves = [y.d.name] := by
        obtain ⟨dy, py, ky⟩ := y; simp only [T.kids_node] at hyk; subst hyk; simp [T.leaves]
      rw [hA]
      rw [hyl] at hcnt
      constructor
      · exact cntIn_full (by simp) hS hcnt
      · intro _ x hx
        simp only [List.mem_singleton] at hx; subst hx
        rw [cntIn_single] at hcnt
        by_cases hc : seff.contains y.d.name = true
        · simpa using hc
        · have hm : y.d.name ∉ seff := by simpa using hc
          simp [hm] at hcnt; omega
    · have htp : tp = false := by
        cases tp with
        | false => rfl
        | true => exact absurd (htip rfl) hyk
      obtain ⟨hnd, hlt, hout, hin⟩ := hes htp
      have hlen : (T.node y.d 0 (insertAt y.kids pos (e0, x0))).kids.length = y.kids.length + 1 := by
        simpa using (insertAt_perm y.kids pos (e0, x0)).length_eq
      have hn0 : 0 < y.kids.length := List.length_pos_iff.2 hyk
      have hall : ∀ i, i < y.kids.length → i ∈ es := by
        intro i hi
        have hsub : es ⊆ List.range y.kids.length := fun j hj => List.mem_range.2 (hlt j hj)
        rcases rootEdgeIdx_ok hre with ⟨h, _⟩ | ⟨_, h2, _, _⟩
        · omega
        · have h2' : (y.kids.length + 1) - es.length = 1 := by
            rw [← hlen]; simpa using h2
          have h3 := hnd.length_le_of_subset hsub
          simp only [List.length_range] at h3
          have hfull := full_of_nodup hnd hsub (by simp; omega) List.nodup_range
          exact hfull (List.mem_range.2 hi)
      have hrpos : r = pos := by
        rcases rootEdgeIdx_ok hre with ⟨h, _⟩ | ⟨_, _, hrlt, hrn⟩
        · omega
        · apply Classical.byContradiction
          intro hne'
          obtain ⟨i, hi, hadj⟩ := adjIdx_surj pos r y.kids.length (by omega) hne' hpos'
          exact hrn (List.mem_map.2 ⟨i, hall i hi, hadj⟩)
      subst hrpos
      have hA : (aSide (T.node y.d 0 (insertAt y.kids r (e0, x0))) r).leaves = leavesL y.kids := by
        simp only [aSide, T.d_node, T.kids_node, (eraseIdx_insertAt y.kids r (e0, x0) hpos').1, T.leaves_node]
        cases h : y.kids with
        | nil => exact absurd h hyk
        | cons a b => simp
      have hyl : y.leaves = leavesL y.kids := by
        obtain ⟨dy, py, ky⟩ := y
        cases ky with
        | nil => exact absurd rfl hyk
        | cons a b => simp [T.leaves]
      rw [hA]
      rw [hA] at hAn
      rw [hyl] at hcnt
      constructor
      · exact cntIn_full hAn hS hcnt
      · intro hdf
        exact leavesL_all_in (K := y.kids) y.kids 0 (fun j e c h => by simpa using h)
          (fun j e c hj h => hin hdf j (hall j hj) e c (by simpa using h))



theorem nodup_eraseDups_aux : ∀ (n : Nat) (l : List String), l.length ≤ n → l.eraseDups.Nodup
  | 0, l, h => by
    have : l = [] := List.length_eq_zero_iff.1 (by omega)
    subst this; simp
  | n + 1, [], _ => by simp
  | n + 1, a :: as, h => by
    rw [List.eraseDups_cons]
    have hlen : (as.filter fun b => !b == a).length ≤ n := by
      have := List.length_filter_le (fun b => !b == a) as
      simp at h; omega
    refine List.nodup_cons.2 ⟨?_, nodup_eraseDups_aux n _ hlen⟩
    intro hm
    rw [List.mem_eraseDups] at hm
    have := (List.mem_filter.1 hm).2
    simp at this

theorem nodup_eraseDups (l : List String) : l.eraseDups.Nodup := nodup_eraseDups_aux l.length l (Nat.le_refl _)

theorem effOutgroup_eq_outTips (t : T) (S : List String) (h : (unroot t).tipNames.Perm t.tipNames) :
    effOutgroup (unroot t) S = outTips t S := by
  unfold effOutgroup outTips
  congr 1
  apply List.filter_congr
  intro x _
  exact contains_congr h x

/-- the two subtrees made by `cutAt` -/
theorem cutAt_kids (tn t' : T) (r : Nat) (ea eb : EdgeD) (b : Bool) (e : EdgeD) (c : T)
    (hk : tn.kids[r]? = some (e, c)) (h : cutAt tn r ea eb b = some t') :
    ∃ cA cB : T, cA.leaves = (aSide tn r).leaves ∧ cB.leaves = c.leaves ∧
      t'.kids = (if b then [(ea, cA), (eb, cB)] else [(eb, cB), (ea, cA)]) := by
  rw [cutAt_eq tn r ea eb b e c hk] at h
  have := (Option.some.inj h).symm
  subst this
  refine ⟨.node tn.d (tn.kids.length - 1) (tn.kids.eraseIdx r), .node c.d c.kids.length c.kids, ?_, ?_, rfl⟩
  · simp [aSide, T.leaves_node]
  · obtain ⟨dc, pc, kc⟩ := c; simp [T.leaves_node]

/-- **`outgroup_clade`, common part**: after a successful outgroup rooting (outgroup kept) the
    root has exactly two children hanging on two equal halves `halfEdge e` of one branch `e`;
    all outgroup tips are in the first of them; and that child contains nothing else when the
    search counted no foreign tip below the ancestor — which is what strict mode demands. -/
theorem outgroup_structure (t t' : T) (strict : Bool) (S : List String)
    (h : rerootOutGroup false strict S t = .ok t') (hu : t.tipNames.Nodup) (hg : LensGood t.splits)
    (hs : ∀ s ∈ t.splits, GoodL s.e.sup) :
    ∃ (e : EdgeD) (cA cB : T) (first : Bool),
      t'.kids = (if first then [(halfEdge e, cA), (halfEdge e, cB)] else [(halfEdge e, cB), (halfEdge e, cA)]) ∧
      (∀ x ∈ outTips t S, x ∈ cA.leaves) ∧
      (strict = true → cA.leaves.Perm (outTips t S)) := by
  have hsame := outgroup_same t t' strict S h hu hg hs
  unfold rerootOutGroup rerootOutGroupWith at h
  obtain ⟨pl, hpl, h⟩ := Res.bind_ok h
  obtain ⟨ec, hec, h⟩ := Res.bind_ok h
  obtain ⟨e, c⟩ := ec
  have hk := ofOption_ok_panic hec
  simp only [Bool.false_eq_true, if_false] at h
  have hcut := ofOption_ok_panic h
  obtain ⟨spath, hseff, hne, _, hts, hlen, hfound, hstrict, htn, hre⟩ := outgroupPlan_ok hpl
  obtain ⟨cA, cB, hA, hB, hkids⟩ := cutAt_kids pl.tn t' pl.r _ _ _ e c hk hcut
  have S1 := unroot_same t hu hg hs
  have hseff' : pl.seff = outTips t S := hseff.trans (effOutgroup_eq_outTips t S S1.tips)
  have hSn : pl.seff.Nodup := by rw [hseff']; exact nodup_eraseDups _
  -- the leaves of the first child are distinct: they are tips of t'
  have hnd' : t'.tipNames.Nodup := hsame.tips.nodup_iff.2 hu
  have hAn : (aSide pl.tn pl.r).leaves.Nodup := by
    rw [← hA]
    have htips : t'.tipNames = leavesL t'.kids := by
      unfold T.tipNames
      have : t'.kids.length = 2 := by rw [hkids]; split <;> rfl
      simp [this]
    rw [htips, hkids] at hnd'
    split at hnd'
    · simp only [leavesL_cons, leavesL_nil, List.append_nil] at hnd'
      exact (List.nodup_append.1 hnd').1
    · simp only [leavesL_cons, leavesL_nil, List.append_nil] at hnd'
      exact (List.nodup_append.1 hnd').2.1
  obtain ⟨hin, hout⟩ := plan_clade hSn hne hlen hfound htn hre hAn
  refine ⟨e, cA, cB, _, hkids, ?_, ?_⟩
  · intro x hx; rw [hA]; exact hin x (hseff' ▸ hx)
  · intro hst
    have hdf := hstrict hst
    rw [← hseff']
    apply (List.perm_ext_iff_of_nodup (hA ▸ hAn) hSn).2
    intro x
    rw [hA]
    exact ⟨hout hdf x, hin x⟩



theorem ufoldU_sides (a : List String) : ∀ (l acc : List USplit),
    a ∈ (ufoldU l acc).map (·.side) ↔ a ∈ acc.map (·.side) ∨ a ∈ l.map (·.side)
  | [], acc => by simp [ufoldU_nil]
  | s :: l, acc => by
    rw [ufoldU_cons, ufoldU_sides a l, mem_insertU_side]
    simp only [List.map_cons, List.mem_cons]
    constructor
    · rintro ((h | h) | h)
      · exact Or.inl h
      · exact Or.inr (Or.inl h)
      · exact Or.inr (Or.inr h)
    · rintro (h | h | h)
      · exact Or.inl (Or.inl h)
      · exact Or.inl (Or.inr h)
      · exact Or.inr h

/-- the sides of `usplitsAll` are the canonical sides of the branches -/
theorem mem_usplitsAll_sides (t : T) (a : List String) :
    a ∈ t.usplitsAll.map (·.side) ↔ ∃ s ∈ t.splits, canonSide t.tipNames s.below = a := by
  rw [T.usplitsAll_eq]
  have hp := (List.mergeSort_perm (ufoldU (t.splits.map (toU t.tipNames)) []) uLe).map (·.side)
  rw [hp.mem_iff, ufoldU_sides]
  simp [toU]

/-- every side is a non-trivial split or a tip branch -/
theorem sides_split (t : T) (a : List String) :
    a ∈ t.usplitsAll.map (·.side) ↔ a ∈ t.usplits.map (·.side) ∨ a ∈ t.tipLens.map (·.1) := by
  unfold T.usplits T.tipLens
  simp only [List.mem_map, List.mem_filter, decide_eq_true_eq]
  constructor
  · rintro ⟨x, hx, rfl⟩
    by_cases h : 2 ≤ lightSize t.tipNames x.side
    · exact Or.inl ⟨x, ⟨hx, h⟩, rfl⟩
    · exact Or.inr ⟨(x.side, x.len), ⟨x, ⟨hx, by omega⟩, rfl⟩, rfl⟩
  · rintro (⟨x, ⟨hx, _⟩, rfl⟩ | ⟨_, ⟨x, ⟨hx, _⟩, rfl⟩, rfl⟩)
    · exact ⟨x, hx, rfl⟩
    · exact ⟨x, hx, rfl⟩

theorem Same.sides {t u : T} (h : Same t u) (a : List String) :
    a ∈ u.usplitsAll.map (·.side) ↔ a ∈ t.usplitsAll.map (·.side) := by
  rw [sides_split, sides_split, (h.usp.map _).mem_iff, (h.tl.map _).mem_iff]

/-- `outgroup_strict_refuses`: in strict mode a rooting can only succeed on an outgroup that
    is one side of a split of the tree. -/
theorem outgroup_strict_side (t t' : T) (S : List String)
    (h : rerootOutGroup false true S t = .ok t') (hu : t.tipNames.Nodup) (hg : LensGood t.splits)
    (hs : ∀ s ∈ t.splits, GoodL s.e.sup) : isSide t S = true := by
  have hsame := outgroup_same t t' true S h hu hg hs
  obtain ⟨e, cA, cB, first, hk, hin, hp⟩ := outgroup_structure t t' true S h hu hg hs
  have hperm := hp rfl
  -- the tips of t' are the leaves of the two root children
  have htips : t'.tipNames = (if first then cA.leaves ++ cB.leaves else cB.leaves ++ cA.leaves) := by
    unfold T.tipNames
    rw [hk]
    cases first <;> simp [leavesL_cons, leavesL_nil]
  have hmemA : (⟨cA.leaves, halfEdge e, cA.isLeaf⟩ : SplitE) ∈ t'.splits := by
    unfold T.splits
    rw [hk]
    cases first <;> simp [splitsL_cons]
  have hnd' : t'.tipNames.Nodup := hsame.tips.nodup_iff.2 hu
  -- the outgroup is neither empty nor everything
  have hne : outTips t S ≠ [] := by
    intro h0
    rw [h0] at hperm
    exact T.leaves_ne_nil cA hperm.eq_nil
  obtain ⟨z, hz⟩ : ∃ z, z ∈ cB.leaves := by
    cases hb : cB.leaves with
    | nil => exact absurd hb (T.leaves_ne_nil cB)
    | cons z _ => exact ⟨z, by simp⟩
  have hzA : z ∉ cA.leaves := by
    rw [htips] at hnd'
    cases first
    · simp only [Bool.false_eq_true, if_false] at hnd'
      exact fun h => (List.nodup_append.1 hnd').2.2 z hz z h rfl
    · simp only [if_true] at hnd'
      exact fun h => (List.nodup_append.1 hnd').2.2 z h z hz rfl
  have hzt : z ∈ t.tipNames := by
    apply hsame.tips.mem_iff.1
    rw [htips]; cases first <;> simp [hz]
  have hzS : z ∉ outTips t S := fun h => hzA (hperm.mem_iff.2 h)
  -- the side
  have hside : canonSide t.tipNames (outTips t S) ∈ t.usplitsAll.map (·.side) := by
    rw [← hsame.sides, mem_usplitsAll_sides]
    refine ⟨_, hmemA, ?_⟩
    rw [canonSide_perm_all hsame.tips]
    exact canonSide_perm_side _ hperm
  unfold isSide
  simp only [Bool.and_eq_true, Bool.not_eq_true', List.isEmpty_eq_false_iff, List.any_eq_true,
    List.contains_eq_mem, decide_eq_true_eq, decide_eq_false_iff_not]
  exact ⟨⟨hne, z, hzt, hzS⟩, hside⟩


end Gotree.C05
