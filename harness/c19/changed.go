package c19

// changed.go — table (f): every place where a command asks pflag whether an option was GIVEN
// instead of reading its value: `<x>.Flags().Changed("name")`, `<x>.PersistentFlags().Changed(…)`,
// `<x>.Flag("name").Changed`, `<x>.Flags().Lookup("name").Changed`, inside the function literals of
// a command or the helpers they call — and, since round 7, the other ways of learning it: Flags().NFlag(),
// Flags().Visit(…), os.Args, cobra's MarkFlagRequired / MarkFlags… groups, DisableFlagParsing, and the
// environment (os.Getenv …) — reported under the name of the call.  Each is a place where "option omitted" and "documented
// default spelled out" can part ways whatever the flag table says (F45, F55, repopulate).
// Regenerated into lean/Gotree/Gen/C19Changed.lean; Proofs/C19.lean decides that every site is
// accounted for by a model of that command's cascade or a recorded finding.

import (
	"go/ast"
	"go/parser"
	"go/token"
	"os"
	"path/filepath"
	"sort"
	"strconv"
	"strings"
)

type changedSite struct {
	Path, Flag, File, Via string
}

func changedSites(repo string) (out []changedSite, problems []string) {
	_, paths, problems := initSites(repo)
	dir := filepath.Join(repo, "cmd")
	ents, _ := os.ReadDir(dir)
	fset := token.NewFileSet()
	var files []*ast.File
	for _, e := range ents {
		n := e.Name()
		if !strings.HasSuffix(n, ".go") || strings.HasSuffix(n, "_test.go") || !compiled(dir, n) {
			continue
		}
		f, err := parser.ParseFile(fset, filepath.Join(dir, n), nil, 0)
		if err != nil {
			problems = append(problems, err.Error())
			continue
		}
		files = append(files, f)
	}
	funcs := map[string]*ast.FuncDecl{}
	for _, f := range files {
		for _, d := range f.Decls {
			if fd, ok := d.(*ast.FuncDecl); ok && fd.Recv == nil && fd.Name.Name != "init" {
				funcs[fd.Name.Name] = fd
			}
		}
	}
	lit := func(e ast.Expr) string {
		if bl, ok := e.(*ast.BasicLit); ok && bl.Kind == token.STRING {
			s, _ := strconv.Unquote(bl.Value)
			return s
		}
		return "?" // not a literal: reported with this name, which no model accounts for
	}
	// flagNameOf: the flag a `.Changed` refers to, "" if the expression is not such a test
	flagNameOf := func(n ast.Node) (string, bool) {
		switch x := n.(type) {
		case *ast.CallExpr: // ….Changed("name")
			if se, ok := x.Fun.(*ast.SelectorExpr); ok && se.Sel.Name == "Changed" && len(x.Args) == 1 {
				return lit(x.Args[0]), true
			}
			// the other ways of learning which options were GIVEN (or of making one mandatory / exclusive):
			// reported under the name of the call, which no model accounts for
			if se, ok := x.Fun.(*ast.SelectorExpr); ok {
				switch se.Sel.Name {
				case "NFlag", "Visit", "MarkFlagRequired", "MarkPersistentFlagRequired", "MarkFlagsMutuallyExclusive",
					"MarkFlagsRequiredTogether", "MarkFlagsOneRequired":
					return "(" + se.Sel.Name + ")", true
				case "Getenv", "LookupEnv", "Environ":
					if pk, ok := se.X.(*ast.Ident); ok && pk.Name == "os" {
						return "(os." + se.Sel.Name + ")", true // the environment feeding an option: "omitted" is then not the documented default
					}
				}
			}
		case *ast.KeyValueExpr: // DisableFlagParsing: true in a command literal
			if k, ok := x.Key.(*ast.Ident); ok && k.Name == "DisableFlagParsing" {
				return "(DisableFlagParsing)", true
			}
		case *ast.SelectorExpr: // ….Flag("name").Changed / ….Lookup("name").Changed   (field, not call)
			if pk, ok := x.X.(*ast.Ident); ok && pk.Name == "os" && x.Sel.Name == "Args" {
				return "(os.Args)", true
			}
			if x.Sel.Name == "Changed" {
				if call, ok := x.X.(*ast.CallExpr); ok {
					if se, ok := call.Fun.(*ast.SelectorExpr); ok && (se.Sel.Name == "Flag" || se.Sel.Name == "Lookup") && len(call.Args) == 1 {
						return lit(call.Args[0]), true
					}
				}
				// the field read off a *pflag.Flag held in a variable (`f.Changed` inside VisitAll, …): which flag it
				// is cannot be told syntactically
				return "(.Changed)", true
			}
		}
		return "", false
	}
	for _, f := range files {
		for _, d := range f.Decls {
			gd, ok := d.(*ast.GenDecl)
			if !ok {
				continue
			}
			for _, sp := range gd.Specs {
				vs, ok := sp.(*ast.ValueSpec)
				if !ok {
					continue
				}
				for i, id := range vs.Names {
					if i >= len(vs.Values) {
						continue
					}
					u, ok := vs.Values[i].(*ast.UnaryExpr)
					if !ok {
						continue
					}
					cl, ok := u.X.(*ast.CompositeLit)
					if !ok {
						continue
					}
					path, ok := paths[id.Name]
					if !ok {
						continue
					}
					visited := map[string]bool{}
					var scan func(body *ast.BlockStmt, via string, depth int)
					scan = func(body *ast.BlockStmt, via string, depth int) {
						if body == nil || depth > 6 {
							return
						}
						ast.Inspect(body, func(n ast.Node) bool {
							if name, ok := flagNameOf(n); ok {
								out = append(out, changedSite{Path: path, Flag: name, File: filepath.Base(fset.Position(n.Pos()).Filename), Via: via})
								if _, isCall := n.(*ast.CallExpr); isCall {
									return false // do not count the selector inside the call again
								}
							}
							if call, ok := n.(*ast.CallExpr); ok {
								if fn, ok := call.Fun.(*ast.Ident); ok {
									if fd, ok := funcs[fn.Name]; ok && !visited[fn.Name] {
										visited[fn.Name] = true
										v := fn.Name
										if via != "" {
											v = via + ">" + fn.Name
										}
										scan(fd.Body, v, depth+1)
									}
								}
							}
							return true
						})
					}
					for _, el := range cl.Elts {
						if kv, ok := el.(*ast.KeyValueExpr); ok {
							if fl, ok := kv.Value.(*ast.FuncLit); ok {
								scan(fl.Body, "", 0)
							}
						}
					}
				}
			}
		}
	}
	sort.SliceStable(out, func(i, j int) bool {
		if out[i].Path != out[j].Path {
			return out[i].Path < out[j].Path
		}
		return out[i].Flag < out[j].Flag
	})
	// any other `Changed` in the package (outside command bodies and their helpers) is reported as a problem
	total := 0
	for _, f := range files {
		ast.Inspect(f, func(n ast.Node) bool {
			if _, ok := flagNameOf(n); ok {
				total++
				if _, isCall := n.(*ast.CallExpr); isCall {
					return false
				}
			}
			return true
		})
	}
	if total > len(out) {
		problems = append(problems, strconv.Itoa(total-len(out))+" `Changed` test(s) outside the command bodies this pass walks")
	}
	return
}
