package c19

// io.go — the cases that tie Model/C19IO (openWriteFile / closeWriteFile / utils.OpenFile / readTree:
// what the documented defaults "stdout" of --output and "stdin" of --input MEAN) to the binary, and
// the case that carries table (g).
//
//	C19.sentinels rows problems            rows: "site,op,literal," each followed by ";"
//	C19.io kind name path flag runs        kind: out | in;  runs: [value label, outcome] each followed by ";"
//	        out: value ∈ "" (omitted), stdout, -, out.txt        in: "" (omitted), stdin, -, = (empty text), file

import (
	"bytes"
	"compress/gzip"
	"strings"

	"verifharness/core"
)

func emitSentinels(c *core.Ctx) {
	rows, problems := sentinelRows(c.Repo)
	var b strings.Builder
	for _, r := range rows {
		b.WriteString(core.StrList([]string{r.Site, r.Op, r.Lit}) + ";")
	}
	c.Emit("C19.sentinels", b.String(), core.StrList(problems))
}

type ioSet struct {
	kind, name, path string
	base             []string
	flag             string
	stdin            string // the input that goes to stdin (for kind "in": also the file given to the option in the `file` run)
}

func ioSets() []ioSet {
	return []ioSet{
		{"out", "stats", "stats", nil, "--output", "tree"},
		{"out", "consensus", "compute consensus", nil, "--output", "trees"},
		{"out", "setmin", "brlen setmin", []string{"-l", "0.11"}, "--output", "tree"},
		{"out", "annotate", "annotate", []string{"-m", "{annotmap}"}, "--output", "tree"},
		{"out", "merge", "merge", []string{"-i", "{rooted}"}, "--output", "other"},
		{"out", "reformat", "reformat newick", nil, "--output", "tree"},
		{"in", "stats", "stats", nil, "--input", "tree"},
		{"in", "consensus", "compute consensus", nil, "--input", "trees"},
		{"in", "setmin", "brlen setmin", []string{"-l", "0.11"}, "--input", "tree"},
		{"in", "divide", "divide", nil, "--input", "trees"},
		{"in", "annotate", "annotate", []string{"-m", "{annotmap}"}, "--input", "tree"},
		{"in", "annotate-compared", "annotate", []string{"-i", "{tree}"}, "--compared", "named"},
		{"in", "merge-compared", "merge", []string{"-i", "{rooted}"}, "--compared", "other"},
		{"in", "merge-reftree", "merge", []string{"-c", "{other}"}, "--reftree", "rooted"},
		{"in", "compare-trees", "compare trees", []string{"-c", "{trees}"}, "--reftree", "tree"},
	}
}

// ioCases: only == "" runs every set, otherwise the set "kind/name"
func ioCases(c *core.Ctx, r *runner, only string) {
	for _, s := range ioSets() {
		if only != "" && only != s.kind+"/"+s.name {
			continue
		}
		var b strings.Builder
		run := func(label string, extra []string, stdin string) {
			args := append(append([]string{}, s.base...), extra...)
			o := r.invoke(strings.Fields(s.path), r.subst(args), stdin)
			b.WriteString(core.StrList([]string{label, o}) + ";")
		}
		run("", nil, s.stdin)
		if s.kind == "out" {
			run("stdout", []string{s.flag + "=stdout"}, s.stdin)
			run("-", []string{s.flag, "-"}, s.stdin)
			run("out.txt", []string{s.flag + "=out.txt"}, s.stdin)
		} else {
			run("stdin", []string{s.flag + "=stdin"}, s.stdin)
			run("-", []string{s.flag, "-"}, s.stdin)
			run("=", []string{s.flag + "="}, s.stdin)
			run("file", []string{s.flag, "{" + s.stdin + "}"}, "")
		}
		c.Emit("C19.io", s.kind, s.name, core.Escape("gotree "+s.path), s.flag, b.String())
	}
}

// ---------------------------------------------------------------- input FILE NAMES
//
//	C19.fname name path runs     runs: [file name, kind of text in it, outcome with --format omitted,
//	                                     outcome with --format=newick (the documented default) spelled out]
//
// The same text under different file names (.nex .nexus .xml .phyloxml .nwk, none, upper case, .gz):
// a reader that derives the input format from the NAME of the file when the option was not given makes
// "omitted" differ from "documented default spelled out" for some names only (seeded C19-10).

var fnameSuffixes = []string{"", ".nwk", ".nex", ".nexus", ".xml", ".phyloxml", ".NEX", ".Nexus", ".nex.gz", ".nwk.gz", ".phyloxml.gz", ".tree.nex", ".json"}

func gz(s string) string {
	var b bytes.Buffer
	w := gzip.NewWriter(&b)
	w.Write([]byte(s))
	w.Close()
	return b.String()
}

// fnameInputs adds, for every suffix, the inputs tree / trees / rooted / treenexus under a name with that suffix
func fnameInputs(in inputs) {
	for _, base := range []string{"tree", "trees", "rooted", "treenexus"} {
		for _, sfx := range fnameSuffixes {
			c := in[base]
			if strings.HasSuffix(sfx, ".gz") {
				c = gz(c)
			}
			in["fn_"+base+sfx] = c
		}
	}
}

type fnameSet struct {
	name, path string
	args       []string // "{F}" is replaced by the file under test
	base       string   // which text the file holds
	kind       string
	stdin      string
}

func fnameSets() []fnameSet {
	return []fnameSet{
		{"stats-i", "stats", []string{"-i", "{F}"}, "tree", "newick", ""},                                   // readTrees
		{"consensus-i", "compute consensus", []string{"-i", "{F}"}, "trees", "newick", ""},                    // readTrees (anchored)
		{"compare-trees-i", "compare trees", []string{"-i", "{F}", "-c", "{trees}"}, "tree", "newick", ""},    // readTree
		{"compare-trees-c", "compare trees", []string{"-i", "{tree}", "-c", "{F}"}, "trees", "newick", ""},    // readTrees
		{"merge-i", "merge", []string{"-i", "{F}"}, "rooted", "newick", "other"},                              // readTree (anchored)
		{"annotate-c", "annotate", []string{"-i", "{tree}", "-c", "{F}"}, "tree", "newick", ""},               // readTree (anchored)
		{"reformat-i", "reformat newick", []string{"-i", "{F}"}, "tree", "newick", ""},                        // --input-format alias
		{"stats-i-nexus", "stats", []string{"-i", "{F}"}, "treenexus", "nexus", ""},                           // Nexus text: refused either way
	}
}

func fnameCases(c *core.Ctx, r *runner, only string) {
	if _, ok := r.in["fn_tree.nex"]; !ok {
		fnameInputs(r.in)
	}
	for _, s := range fnameSets() {
		if only != "" && only != s.name {
			continue
		}
		var b strings.Builder
		for _, sfx := range fnameSuffixes {
			file := "fn_" + s.base + sfx
			args := make([]string, len(s.args))
			for i, a := range s.args {
				if a == "{F}" {
					a = "{" + file + "}"
				}
				args[i] = a
			}
			o0 := r.invoke(strings.Fields(s.path), r.subst(args), s.stdin)
			o1 := r.invoke(strings.Fields(s.path), r.subst(append(append([]string{}, args...), "--format=newick")), s.stdin)
			b.WriteString(core.StrList([]string{file, s.kind, o0, o1}) + ";")
		}
		c.Emit("C19.fname", s.name, core.Escape("gotree "+s.path), b.String())
	}
}
