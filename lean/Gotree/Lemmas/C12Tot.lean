/-
  C12 — meaning of the second Sankoff pass (`totA`): for an inner node `v` and a state
  `s`, the slice entry is the least number of changes of a labelling of the whole tree
  that puts `s` at `v` (lower bound for all such labellings, and attained).
-/
import Gotree.Lemmas.C12

namespace Gotree.C12
open Gotree

section tot
variable (k : Nat) (tv : String → Vec)

theorem fits_s_lt : ∀ (c : T) (l : LT), fits k tv c l = true → l.s < k
  | .node d p [], .node r ls, h => by
    simp only [fits, Bool.and_eq_true, decide_eq_true_eq] at h; exact h.1.2
  | .node d p (x :: xs), .node r ls, h => by
    simp only [fits, Bool.and_eq_true, decide_eq_true_eq] at h; exact h.1

/-- lower bound, subtree with an outside cost `U` -/
def PLB (c : T) : Prop :=
  ∀ (U : Vec) (p : List Nat) (tot : Vec) (lc : LT) (s : Nat),
    fits k tv c lc = true → lc.get p = some s → (totA k tv U c).get p = some tot →
    innerAt c p = true → tot.at s ≤ U.at lc.s + lc.changes

theorem tot_lb_list : ∀ (ks : Kids), (∀ et ∈ ks, PLB k tv et.2) →
    ∀ (U pre : Vec) (ls : List LT) (i : Nat) (p : List Nat) (tot : Vec) (s r : Nat), r < k →
    fitsL k tv ks ls = true → LT.getL ls i p = some s → A.getL (totL k tv U pre ks) i p = some tot →
    innerOpt (subL ks i p) = true →
    tot.at s ≤ U.at r + pre.at r + LT.changesL r ls
  | [], _, _, _, _, _, _, _, _, _, _, _, _, hg, _ => by simp [totL, A.getL] at hg
  | _ :: _, _, _, _, [], _, _, _, _, _, _, hf, _, _, _ => by simp [fitsL] at hf
  | (e, c) :: rest, ih, U, pre, l :: lr, 0, p, tot, s, r, hr, hf, hl, hg, hin => by
    simp only [fitsL, Bool.and_eq_true] at hf
    simp only [LT.getL] at hl
    simp only [totL, A.getL] at hg
    simp only [subL] at hin
    have hc := ih (e, c) (List.mem_cons_self ..) _ p tot l s hf.1 hl hg (by simpa [innerAt] using hin)
    have hls := fits_s_lt k tv c l hf.1
    have h2 : minOver k (fun t => (vadd k U (vadd k pre (fL k tv rest))).at t + (if l.s = t then 0 else 1))
        ≤ (vadd k U (vadd k pre (fL k tv rest))).at r + (if l.s = r then 0 else 1) :=
      minOver_le k (fun t => (vadd k U (vadd k pre (fL k tv rest))).at t + (if l.s = t then 0 else 1)) r hr
    have hR : (vadd k U (vadd k pre (fL k tv rest))).at r = U.at r + (pre.at r + (fL k tv rest).at r) := by
      simp only [at_vadd, hr, if_true]
    have h3 := lb_list k tv r hr rest lr (fun et _ l hl => lb k tv et.2 l hl r hr) hf.2
    simp only [through, at_tab, hls, if_true] at hc
    simp only [LT.changesL]
    omega
  | (e, c) :: rest, ih, U, pre, l :: lr, i + 1, p, tot, s, r, hr, hf, hl, hg, hin => by
    simp only [fitsL, Bool.and_eq_true] at hf
    simp only [LT.getL] at hl
    simp only [totL, A.getL] at hg
    simp only [subL] at hin
    have h1 := tot_lb_list rest (fun et het => ih et (List.mem_cons_of_mem _ het)) U
      (vadd k pre (gv k tv c)) lr i p tot s r hr hf.2 hl hg hin
    have h2 := lb k tv c l hf.1 r hr
    simp only [at_vadd, hr, if_true] at h1
    simp only [LT.changesL]
    omega

theorem tot_lb : ∀ c : T, PLB k tv c := by
  intro c
  induction c using T.induct with
  | h d p ks ih =>
    intro U pth tot lc s hf hl hg hin
    match ks, ih, lc, pth, hf, hl, hg, hin with
    | [], _, _, [], _, _, _, hin => simp [innerAt, innerOpt, sub] at hin
    | [], _, _, i :: q, _, _, _, hin => simp [innerAt, innerOpt, sub, subL] at hin
    | x :: xs, _, .node r ls, [], hf, hl, hg, _ =>
      simp only [fits, Bool.and_eq_true, decide_eq_true_eq] at hf
      simp only [LT.get, Option.some.injEq] at hl
      simp only [totA, A.get, Option.some.injEq] at hg
      subst hl; subst hg
      have := lb_list k tv r hf.1 (x :: xs) ls (fun et _ l hl => lb k tv et.2 l hl r hf.1) hf.2
      simp only [at_vadd, hf.1, if_true, LT.s_node, LT.changes]
      omega
    | x :: xs, ih, .node r ls, i :: q, hf, hl, hg, hin =>
      simp only [fits, Bool.and_eq_true, decide_eq_true_eq] at hf
      simp only [LT.get] at hl
      simp only [totA, A.get] at hg
      have := tot_lb_list k tv (x :: xs) ih U (vzero k) ls i q tot s r hf.1 hf.2 hl hg
        (by simpa [innerAt, sub] using hin)
      simp only [at_vzero, LT.s_node, LT.changes] at this ⊢
      omega

/-- attainment, subtree with an outside cost `U` -/
def PAT (c : T) : Prop :=
  ∀ (U : Vec) (p : List Nat) (tot : Vec) (s : Nat), s < k →
    (totA k tv U c).get p = some tot → innerAt c p = true →
    ∃ lc, fits k tv c lc = true ∧ lc.get p = some s ∧ U.at lc.s + lc.changes = tot.at s

theorem tot_att_list (hk : 0 < k) : ∀ (ks : Kids), (∀ et ∈ ks, PAT k tv et.2) →
    (∀ n ∈ leavesL ks, leafNonempty k tv n) →
    ∀ (U pre : Vec) (i : Nat) (p : List Nat) (tot : Vec) (s : Nat), s < k →
    A.getL (totL k tv U pre ks) i p = some tot →
    innerOpt (subL ks i p) = true →
    ∃ r, r < k ∧ ∃ ls, fitsL k tv ks ls = true ∧ LT.getL ls i p = some s ∧
      U.at r + pre.at r + LT.changesL r ls = tot.at s
  | [], _, _, _, _, _, _, _, _, _, hg, _ => by simp [totL, A.getL] at hg
  | (e, c) :: rest, ih, hne, U, pre, 0, p, tot, s, hs, hg, hin => by
    simp only [totL, A.getL] at hg
    simp only [subL] at hin
    obtain ⟨lc, hfc, hgc, hcc⟩ := ih (e, c) (List.mem_cons_self ..) _ p tot s hs hg (by simpa [innerAt] using hin)
    have hls := fits_s_lt k tv c lc hfc
    obtain ⟨r0, hr0, he0⟩ := minOver_attained k hk
      (fun t => (vadd k U (vadd k pre (fL k tv rest))).at t + (if lc.s = t then 0 else 1))
    obtain ⟨lr, hlr, hcr⟩ := att_list k tv r0 hr0 rest
      (fun et het => att k tv hk et.2 (fun n hn => hne n (by
        simp only [leavesL, List.mem_append]; exact Or.inr (leaves_mem_kids rest et het n hn))) r0 hr0)
    refine ⟨r0, hr0, lc :: lr, by simp [fitsL, hfc, hlr], by simpa [LT.getL] using hgc, ?_⟩
    have hR : (vadd k U (vadd k pre (fL k tv rest))).at r0 = U.at r0 + (pre.at r0 + (fL k tv rest).at r0) := by
      simp only [at_vadd, hr0, if_true]
    simp only [through, at_tab, hls, if_true] at hcc
    rw [← he0] at hcc
    simp only [LT.changesL]
    omega
  | (e, c) :: rest, ih, hne, U, pre, i + 1, p, tot, s, hs, hg, hin => by
    simp only [totL, A.getL] at hg
    simp only [subL] at hin
    obtain ⟨r, hr, lr, hlr, hgr, hcr⟩ := tot_att_list hk rest (fun et het => ih et (List.mem_cons_of_mem _ het))
      (fun n hn => hne n (by simp only [leavesL, List.mem_append]; exact Or.inr hn))
      U (vadd k pre (gv k tv c)) i p tot s hs hg hin
    obtain ⟨l, hl, hc⟩ := att k tv hk c (fun n hn => hne n (by
      simp only [leavesL, List.mem_append]; exact Or.inl hn)) r hr
    refine ⟨r, hr, l :: lr, by simp [fitsL, hl, hlr], by simpa [LT.getL] using hgr, ?_⟩
    simp only [at_vadd, hr, if_true] at hcr
    simp only [LT.changesL]
    omega

theorem tot_att (hk : 0 < k) : ∀ c : T, (∀ n ∈ c.leaves, leafNonempty k tv n) → PAT k tv c := by
  intro c
  induction c using T.induct with
  | h d p ks ih =>
    intro hne U pth tot s hs hg hin
    match ks, ih, hne, pth, hg, hin with
    | [], _, _, [], _, hin => simp [innerAt, innerOpt, sub] at hin
    | [], _, _, i :: q, _, hin => simp [innerAt, innerOpt, sub, subL] at hin
    | x :: xs, ih, hne, [], hg, _ =>
      rw [leaves_node_cons] at hne
      simp only [totA, A.get, Option.some.injEq] at hg
      subst hg
      obtain ⟨ls, hls, hcs⟩ := att_list k tv s hs (x :: xs)
        (fun et het => att k tv hk et.2 (fun n hn => hne n (leaves_mem_kids (x :: xs) et het n hn)) s hs)
      refine ⟨.node s ls, by simp [fits, hs, hls], by simp [LT.get], ?_⟩
      simp only [at_vadd, hs, if_true, LT.s_node, LT.changes]
      omega
    | x :: xs, ih, hne, i :: q, hg, hin =>
      rw [leaves_node_cons] at hne
      simp only [totA, A.get] at hg
      obtain ⟨r, hr, ls, hls, hgl, hcl⟩ := tot_att_list k tv hk (x :: xs)
        (fun et het => ih et het (fun n hn => hne n (leaves_mem_kids (x :: xs) et het n hn))) hne
        U (vzero k) i q tot s hs hg (by simpa [innerAt, sub] using hin)
      refine ⟨.node r ls, by simp [fits, hr, hls], by simpa [LT.get] using hgl, ?_⟩
      simp only [at_vzero, LT.s_node, LT.changes] at hcl ⊢
      omega

end tot

end Gotree.C12
