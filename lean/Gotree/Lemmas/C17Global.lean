/-
  C17 — helper lemmas about the slot writes of the whole-heap model (`Model/C17Global.lean`).
-/
import Gotree.Model.C17Global

namespace Gotree.C17
open Gotree.C17.G

theorem setNeigh_length (ns : List GNode) (x i v : Nat) : (setNeigh ns x i v).length = ns.length := by
  unfold setNeigh; split <;> simp

theorem setBr_length (ns : List GNode) (x i v : Nat) : (setBr ns x i v).length = ns.length := by
  unfold setBr; split <;> simp

theorem setNeigh_get_ne (ns : List GNode) (x i v y : Nat) (h : y ≠ x) : (setNeigh ns x i v)[y]? = ns[y]? := by
  unfold setNeigh; split
  · rw [List.getElem?_set_ne (Ne.symm h)]
  · rfl

theorem setBr_get_ne (ns : List GNode) (x i v y : Nat) (h : y ≠ x) : (setBr ns x i v)[y]? = ns[y]? := by
  unfold setBr; split
  · rw [List.getElem?_set_ne (Ne.symm h)]
  · rfl

theorem reattach_length (es : List GEdge) (e a b : Nat) : (reattach es e a b).length = es.length := by
  unfold reattach; split <;> simp

theorem inverse_length (es : List GEdge) (e : Nat) : (inverse es e).length = es.length := by
  unfold inverse; split <;> simp

theorem idx_get (l : List Nat) (a i : Nat) (h : idx l a = some i) : l[i]? = some a := by
  induction l generalizing i with
  | nil => simp [idx] at h
  | cons y l ih =>
    simp only [idx] at h
    split at h
    · rename_i hy; cases h; simp [hy]
    · cases hh : idx l a with
      | none => simp [hh] at h
      | some j => simp [hh] at h; subst h; simpa using ih j hh

theorem idx_lt (l : List Nat) (a i : Nat) (h : idx l a = some i) : i < l.length := by
  have := idx_get l a i h
  exact (List.getElem?_eq_some_iff.mp this).1

theorem idx_set_other (l : List Nat) (a i j v : Nat) (h : idx l a = some i) (hj : j ≠ i) (hv : v ≠ a) :
    idx (l.set j v) a = some i := by
  induction l generalizing i j with
  | nil => simp [idx] at h
  | cons y l ih =>
    simp only [idx] at h
    cases j with
    | zero =>
      simp only [List.set_cons_zero, idx, hv, if_false]
      split at h
      · cases h; exact absurd rfl hj
      · exact h
    | succ j =>
      simp only [List.set_cons_succ, idx]
      split at h
      · rename_i hy; simp [hy]; exact Option.some.inj h
      · rename_i hy
        simp only [hy, if_false]
        cases hh : idx l a with
        | none => simp [hh] at h
        | some k =>
          simp [hh] at h; subst h
          have : j ≠ k := fun e => hj (by simp [e])
          simp [ih k j hh this]

theorem idx_set_new (l : List Nat) (v j : Nat) (h : idx l v = none) (hj : j < l.length) :
    idx (l.set j v) v = some j := by
  induction l generalizing j with
  | nil => simp at hj
  | cons y l ih =>
    simp only [idx] at h
    split at h
    · cases h
    · rename_i hy
      cases j with
      | zero => simp [idx]
      | succ j =>
        simp only [List.set_cons_succ, idx, hy, if_false]
        have hn : idx l v = none := by
          cases hh : idx l v with
          | none => rfl
          | some k => simp [hh] at h
        simp [ih j hn (by simpa using hj)]

theorem set_same (l : List Nat) (i v : Nat) (h : l[i]? = some v) : l.set i v = l := by
  have hi := (List.getElem?_eq_some_iff.mp h)
  rw [← hi.2]; exact List.set_getElem_self hi.1


theorem setNeigh_get (ns : List GNode) (x i v y : Nat) :
    (setNeigh ns x i v)[y]? = if y = x then (ns[y]?).map (fun nd => { nd with neigh := nd.neigh.set i v }) else ns[y]? := by
  unfold setNeigh
  split
  · rename_i nd hnd
    by_cases hy : y = x
    · subst hy; simp [hnd, List.getElem?_set_self ((List.getElem?_eq_some_iff.mp hnd).1)]
    · simp [hy, List.getElem?_set_ne (Ne.symm hy)]
  · rename_i hnd
    by_cases hy : y = x
    · subst hy; simp [hnd]
    · simp [hy]

theorem setBr_get (ns : List GNode) (x i v y : Nat) :
    (setBr ns x i v)[y]? = if y = x then (ns[y]?).map (fun nd => { nd with br := nd.br.set i v }) else ns[y]? := by
  unfold setBr
  split
  · rename_i nd hnd
    by_cases hy : y = x
    · subst hy; simp [hnd, List.getElem?_set_self ((List.getElem?_eq_some_iff.mp hnd).1)]
    · simp [hy, List.getElem?_set_ne (Ne.symm hy)]
  · rename_i hnd
    by_cases hy : y = x
    · subst hy; simp [hnd]
    · simp [hy]

theorem reattach_get (es : List GEdge) (e a b y : Nat) :
    (reattach es e a b)[y]? = if y = e then (es[y]?).map (fun E => if E.left = a then ⟨b, E.right⟩ else ⟨E.left, b⟩) else es[y]? := by
  unfold reattach
  split
  · rename_i E hE
    by_cases hy : y = e
    · subst hy; simp [hE, List.getElem?_set_self ((List.getElem?_eq_some_iff.mp hE).1)]
    · simp [hy, List.getElem?_set_ne (Ne.symm hy)]
  · rename_i hE
    by_cases hy : y = e
    · subst hy; simp [hE]
    · simp [hy]

theorem inverse_get (es : List GEdge) (e y : Nat) :
    (inverse es e)[y]? = if y = e then (es[y]?).map (fun E => ⟨E.right, E.left⟩) else es[y]? := by
  unfold inverse
  split
  · rename_i E hE
    by_cases hy : y = e
    · subst hy; simp [hE, List.getElem?_set_self ((List.getElem?_eq_some_iff.mp hE).1)]
    · simp [hy, List.getElem?_set_ne (Ne.symm hy)]
  · rename_i hE
    by_cases hy : y = e
    · subst hy; simp [hE]
    · simp [hy]


theorem applyCore_eq (g : GHeap) (n : GNNI) (x : Nat) (N1 N2 N12 X : GNode) (i0 i12 i1 i22 i2 e1 e2 ec : Nat) (E1 E2 : GEdge)
    (hx : x = if n.cross then n.n21 else n.n22)
    (g1 : g.nodes[n.n1]? = some N1) (g2 : g.nodes[n.n2]? = some N2) (g12 : g.nodes[n.n12]? = some N12) (gx : g.nodes[x]? = some X)
    (k0 : idx N1.neigh n.n2 = some i0) (k12 : idx N1.neigh n.n12 = some i12) (k1 : idx N12.neigh n.n1 = some i1)
    (k22 : idx N2.neigh x = some i22) (k2 : idx X.neigh n.n2 = some i2)
    (b1 : N1.br[i12]? = some e1) (b2 : N2.br[i22]? = some e2) (bc : N1.br[i0]? = some ec)
    (ge1 : g.edges[e1]? = some E1) (ge2 : g.edges[e2]? = some E2) :
    applyCore g n = .ok (applyRes g n x i12 i1 i22 i2 e1 e2 ec (decide (E1.right = n.n1 ∨ E2.right = n.n2))) := by
  subst hx
  unfold applyCore applyRes
  simp only [g1, g2, g12, gx, k0, k12, k1, k22, k2, b1, b2, bc, ge1, ge2]
  by_cases hinv : E1.right = n.n1 ∨ E2.right = n.n2 <;> simp [hinv]

theorem undoCore_eq (g : GHeap) (n : GNNI) (x : Nat) (N1 N2 N12 X : GNode) (i0 i12 i2 i11 i1 e1 e2 ec : Nat) (E1 E2 : GEdge)
    (hx : x = if n.cross then n.n21 else n.n22)
    (g1 : g.nodes[n.n1]? = some N1) (g2 : g.nodes[n.n2]? = some N2) (g12 : g.nodes[n.n12]? = some N12) (gx : g.nodes[x]? = some X)
    (k0 : idx N1.neigh n.n2 = some i0) (k12 : idx N2.neigh n.n12 = some i12) (k2 : idx N12.neigh n.n2 = some i2)
    (k11 : idx N1.neigh x = some i11) (k1 : idx X.neigh n.n1 = some i1)
    (b1 : N1.br[i11]? = some e1) (b2 : N2.br[i12]? = some e2) (bc : N1.br[i0]? = some ec)
    (ge1 : g.edges[e1]? = some E1) (ge2 : g.edges[e2]? = some E2) :
    undoCore g n = .ok (undoRes g n x i11 i1 i12 i2 e1 e2 ec (decide (E2.right = n.n2 ∨ E1.right = n.n1))) := by
  subst hx
  unfold undoCore undoRes
  simp only [g1, g2, g12, gx, k0, k12, k2, k11, k1, b1, b2, bc, ge1, ge2]
  by_cases hinv : E2.right = n.n2 ∨ E1.right = n.n1 <;> simp [hinv]


theorem nodes_back (g : GHeap) (n : GNNI) (x : Nat) (N1 N2 N12 X : GNode) (i12 i1 i22 i2 e1 e2 ec ec' : Nat) (inv inv' : Bool)
    (g1 : g.nodes[n.n1]? = some N1) (g2 : g.nodes[n.n2]? = some N2) (g12 : g.nodes[n.n12]? = some N12) (gx : g.nodes[x]? = some X)
    (d1 : n.n1 ≠ n.n2) (d2 : n.n12 ≠ n.n1) (d3 : n.n12 ≠ n.n2) (d4 : x ≠ n.n1) (d5 : x ≠ n.n2) (d6 : x ≠ n.n12)
    (k12 : N1.neigh[i12]? = some n.n12) (k1 : N12.neigh[i1]? = some n.n1) (k22 : N2.neigh[i22]? = some x) (k2 : X.neigh[i2]? = some n.n2)
    (b1 : N1.br[i12]? = some e1) (b2 : N2.br[i22]? = some e2) :
    (undoRes (applyRes g n x i12 i1 i22 i2 e1 e2 ec inv) n x i12 i2 i22 i1 e2 e1 ec' inv').nodes = g.nodes := by
  apply List.ext_getElem?
  intro y
  simp only [undoRes, applyRes, setNeigh_get, setBr_get]
  by_cases h1 : y = n.n1
  · subst h1
    simp [d1, Ne.symm d2, Ne.symm d4, g1, List.set_set, set_same _ _ _ k12, set_same _ _ _ b1]
  · by_cases h2 : y = n.n2
    · subst h2
      simp [Ne.symm d1, Ne.symm d3, Ne.symm d5, g2, List.set_set, set_same _ _ _ k22, set_same _ _ _ b2]
    · by_cases h3 : y = n.n12
      · subst h3
        simp [d2, d3, Ne.symm d6, g12, List.set_set, set_same _ _ _ k1]
      · by_cases h4 : y = x
        · subst h4
          simp [d4, d5, d6, gx, List.set_set, set_same _ _ _ k2]
        · simp [h1, h2, h3, h4]


theorem edges_back (g : GHeap) (n : GNNI) (x : Nat) (i12 i1 i22 i2 e1 e2 ec : Nat) (E1 E2 EC : GEdge) (inv : Bool)
    (ge1 : g.edges[e1]? = some E1) (ge2 : g.edges[e2]? = some E2) (gec : g.edges[ec]? = some EC)
    (d1 : n.n1 ≠ n.n2) (d2 : n.n12 ≠ n.n1) (d3 : n.n12 ≠ n.n2) (d4 : x ≠ n.n1) (d5 : x ≠ n.n2)
    (c1 : e1 ≠ e2) (c2 : ec ≠ e1) (c3 : ec ≠ e2)
    (j1 : (E1.left = n.n1 ∧ E1.right = n.n12) ∨ (E1.left = n.n12 ∧ E1.right = n.n1))
    (j2 : (E2.left = n.n2 ∧ E2.right = x) ∨ (E2.left = x ∧ E2.right = n.n2)) :
    (undoRes (applyRes g n x i12 i1 i22 i2 e1 e2 ec inv) n x i12 i2 i22 i1 e2 e1 ec inv).edges = g.edges := by
  apply List.ext_getElem?
  intro y
  simp only [undoRes, applyRes]
  cases inv <;> simp only [reattach_get, inverse_get, if_true, if_false, Bool.false_eq_true]
  all_goals
    by_cases h1 : y = e1
    · subst h1
      rcases j1 with ⟨a, b⟩ | ⟨a, b⟩ <;> cases E1 <;> simp_all [Ne.symm c2]
    · by_cases h2 : y = e2
      · subst h2
        rcases j2 with ⟨a, b⟩ | ⟨a, b⟩ <;> cases E2 <;> simp_all [Ne.symm c1, Ne.symm c3]
      · by_cases h3 : y = ec
        · subst h3; cases EC; simp_all
        · simp [h1, h2, h3]



end Gotree.C17
