/-
  C13 — the `gotree reformat` glue (`reformatGlue`) on the records of a good file and of a file with a
  broken tree.
-/
import Gotree.Lemmas.C13
import Gotree.Model.C13Codec

namespace Gotree.C13
open Gotree

theorem good_recsOfTrees (ts : List T) (i : Nat) : goodOf (recsOfTrees ts i) = enumFrom i ts := by
  induction ts generalizing i with
  | nil => rfl
  | cons t r ih => simp [recsOfTrees, enumFrom, goodOf, ih]

theorem failed_recsOfTrees (ts : List T) (i : Nat) : failedOf (recsOfTrees ts i) = false := by
  induction ts generalizing i with
  | nil => rfl
  | cons t r ih => simp [recsOfTrees, failedOf, ih]

theorem enumFrom_snd (i : Nat) (l : List T) : (enumFrom i l).map (·.2) = l := by
  induction l generalizing i with
  | nil => rfl
  | cons t r ih => simp [enumFrom, ih]

/-- all records good: exit 0 and the writer's document of exactly these trees, identifiers kept -/
theorem reformatGlue_good (E : Env) (out : OutFmt) (tr : Bool) (ts : List T) :
    reformatGlue E out tr (recsOfTrees ts 0) =
      (true, match out with
        | .newick => Px.joinT (fun t => E.C.write t ++ ['\n']) ts
        | .nexus => writeNexus E.C tr (enumFrom 0 ts)
        | .phyloxml => Px.render E.N ts) := by
  unfold reformatGlue
  simp only [good_recsOfTrees, failed_recsOfTrees, enumFrom_snd]
  cases out <;> simp

theorem good_append_err (ts : List T) (i : Nat) (rest : List Rec) :
    goodOf (recsOfTrees ts i ++ ⟨i + ts.length, .err⟩ :: rest) = enumFrom i ts ∧
    failedOf (recsOfTrees ts i ++ ⟨i + ts.length, .err⟩ :: rest) = true := by
  induction ts generalizing i with
  | nil => simp [recsOfTrees, enumFrom, goodOf, failedOf]
  | cons t r ih =>
    have := ih (i + 1)
    rw [show i + 1 + r.length = i + (r.length + 1) by omega] at this
    simp only [recsOfTrees, enumFrom, goodOf, failedOf, List.cons_append, List.length_cons, this]
    exact ⟨trivial, trivial⟩

/-- a broken tree after `ts` good ones: non-zero exit; Newick output keeps the trees before it, Nexus
    and PhyloXML write nothing -/
theorem reformatGlue_error (E : Env) (out : OutFmt) (tr : Bool) (ts : List T) (rest : List Rec) :
    reformatGlue E out tr (recsOfTrees ts 0 ++ ⟨ts.length, .err⟩ :: rest) =
      (false, match out with
        | .newick => Px.joinT (fun t => E.C.write t ++ ['\n']) ts
        | _ => []) := by
  have h := good_append_err ts 0 rest
  simp only [Nat.zero_add] at h
  unfold reformatGlue
  simp only [h.1, h.2, enumFrom_snd]
  cases out <;> simp

end Gotree.C13
