/-
  C17 — the two rearrangements of one branch (`cross = false / true`) give trees that are
  themselves one branch apart.
-/
import Gotree.Lemmas.C17Split

namespace Gotree.C17
open Gotree Gotree.C17.Spec

/-- same number of children, same leaves below, same data when there is at most one child -/
structure RL (S S' : T) : Prop where
  nkids : S'.kids.length = S.kids.length
  data : S.kids.length ≤ 1 → S'.d = S.d
  leaves : (leavesL S'.kids).Perm (leavesL S.kids)

theorem RL.of_RK {S S1 S2 : T} (h1 : RK S S1) (h2 : RK S S2) : RL S1 S2 where
  nkids := by rw [h2.nkids, h1.nkids]
  data := fun h => by
    have hS : S.kids.length ≤ 1 := by rw [← h1.nkids]; exact h
    rw [h2.data hS, h1.data hS]
  leaves := h2.leaves.trans h1.leaves.symm

theorem RL.leaves_perm {S S' : T} (h : RL S S') : S'.leaves.Perm S.leaves := by
  rw [leaves_eq, leaves_eq]
  have hn := h.nkids
  by_cases hk : S.kids = []
  · have hk' : S'.kids = [] := by
      apply List.eq_nil_of_length_eq_zero
      rw [hn, hk]; rfl
    have hd := h.data (by simp [hk])
    simp [hk, hk', T.name, hd]
  · have hk' : S'.kids ≠ [] := by
      intro h0
      apply hk
      apply List.eq_nil_of_length_eq_zero
      rw [← hn, h0]; rfl
    simpa [hk, hk'] using h.leaves

theorem RL.isLeaf_eq {S S' : T} (h : RL S S') : S'.isLeaf = S.isLeaf := by
  have hn := h.nkids
  obtain ⟨d, p, k⟩ := S
  obtain ⟨d', p', k'⟩ := S'
  simp only [T.kids_node] at hn
  cases k <;> cases k' <;> simp_all [T.isLeaf]

theorem leavesL_set2 (c1 c2 : T) (e : EdgeD) (hl : c2.leaves.Perm c1.leaves) :
    ∀ (k : Kids) (i : Nat), (leavesL (k.set i (e, c2))).Perm (leavesL (k.set i (e, c1))) := by
  intro k
  induction k with
  | nil => intro i; simp
  | cons x xs ih =>
    intro i
    obtain ⟨ex, tx⟩ := x
    cases i with
    | zero =>
      simp only [List.set_cons_zero, leavesL]
      exact List.Perm.append_right _ hl
    | succ i =>
      simp only [List.set_cons_succ, leavesL]
      exact List.Perm.append_left _ (ih i)

theorem RS_set2 (c1 c2 : T) (e : EdgeD) (hr : RS c1 c2) (hl : c2.leaves.Perm c1.leaves) (hleaf : c2.isLeaf = c1.isLeaf) :
    ∀ (k : Kids) (i : Nat), i < k.length →
      OneBranchApart (splitsL (k.set i (e, c1))) (splitsL (k.set i (e, c2))) := by
  intro k
  induction k with
  | nil => intro i h; simp at h
  | cons x xs ih =>
    intro i h
    cases i with
    | zero =>
      simp only [List.set_cons_zero, splitsL, splitsBelow_eq]
      have := oneBranchApart_context (X := [⟨c1.leaves, e, c1.isLeaf⟩]) (X' := [⟨c2.leaves, e, c2.isLeaf⟩])
        (Y := splitsL xs) (Y' := splitsL xs) hr ⟨⟨hl.symm, rfl, hleaf.symm⟩, trivial⟩ (sameBranches_refl _)
      simpa using this
    | succ i =>
      obtain ⟨ex, tx⟩ := x
      simp only [List.set_cons_succ, splitsL]
      have := oneBranchApart_context (X := ⟨tx.leaves, ex, tx.isLeaf⟩ :: tx.splitsBelow)
        (X' := ⟨tx.leaves, ex, tx.isLeaf⟩ :: tx.splitsBelow) (Y := []) (Y' := [])
        (ih i (by simpa using h)) (sameBranches_refl _) trivial
      simpa using this

/-- two rewritings of the same tree at the same path -/
theorem RLS_lift2 (f1 f2 : T → Option T) : ∀ (q : List Nat) (t t1 t2 S : T), subAt q t = some S →
    modAt q f1 t = some t1 → modAt q f2 t = some t2 →
    (∀ S1 S2, f1 S = some S1 → f2 S = some S2 → RL S1 S2 ∧ RS S1 S2) → RL t1 t2 ∧ RS t1 t2 := by
  intro q
  induction q with
  | nil =>
    intro t t1 t2 S hs h1 h2 hr
    simp only [subAt, Option.some.injEq] at hs
    subst hs
    exact hr t1 t2 (by simpa [modAt] using h1) (by simpa [modAt] using h2)
  | cons i q ih =>
    intro t t1 t2 S hs h1 h2 hr
    obtain ⟨d, pp, k⟩ := t
    simp only [subAt] at hs
    cases hki : k[i]? with
    | none => simp [hki] at hs
    | some ec =>
      obtain ⟨e, c⟩ := ec
      simp only [hki] at hs
      simp only [modAt, hki] at h1 h2
      cases hm1 : modAt q f1 c with
      | none => simp [hm1] at h1
      | some c1 =>
        cases hm2 : modAt q f2 c with
        | none => simp [hm2] at h2
        | some c2 =>
          simp only [hm1, Option.some.injEq] at h1
          simp only [hm2, Option.some.injEq] at h2
          subst h1
          subst h2
          have hi : i < k.length := (List.getElem?_eq_some_iff.mp hki).1
          obtain ⟨hl, hs'⟩ := ih c c1 c2 S hs hm1 hm2 hr
          refine ⟨⟨by simp, fun _ => rfl, leavesL_set2 c1 c2 e hl.leaves_perm k i⟩, ?_⟩
          exact RS_set2 c1 c2 e hs' hl.leaves_perm hl.isLeaf_eq k i hi

end Gotree.C17
