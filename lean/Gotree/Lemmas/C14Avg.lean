/-
  C14 round 2 — the literal loops of `AvgDistanceMatrix` (Model/C14Go.lean: `checkNames`,
  `addRow`, `addRows`, `avgStepG`, `avgLoopG`, `avgFinish`) compute what the summarising
  `avgMatrix` of Model/C14.lean says, as soon as the per-tree matrices agree.
  Core Lean only.
-/
import Gotree.Lemmas.C14R2

namespace Gotree.C14
open Gotree Gotree.C14.Go

def avgMsg : String := "trees do not have the same sets of tip names"

/-! ## the name check -/

theorem checkNames_cases : ∀ (tips : List String) (i : Nat) (tips2 : List String),
    checkNames tips i tips2 = .ok () ∨ checkNames tips i tips2 = .err avgMsg ∨
      ∃ e, checkNames tips i tips2 = .panic e
  | [], _, _ => Or.inl (by simp [checkNames])
  | a :: r, i, tips2 => by
    unfold checkNames
    cases tips2[i]? with
    | none => exact Or.inr (Or.inr ⟨_, rfl⟩)
    | some b =>
      by_cases hab : a = b
      · subst hab
        simp only [bne_self_eq_false, Bool.false_eq_true, if_false]
        exact checkNames_cases r (i + 1) tips2
      · have : (a != b) = true := by simpa using hab
        simp only [this, if_true]
        exact Or.inr (Or.inl rfl)

theorem checkNames_self (names : List String) : checkNames names 0 names = .ok () := by
  obtain ⟨u, hu⟩ := (checkNames_ok_iff names 0 names).2 (by simp)
  cases u; exact hu

theorem checkNames_ne {names names2 : List String} (hl : names2.length = names.length) (hne : names2 ≠ names) :
    checkNames names 0 names2 = .err avgMsg := by
  rcases checkNames_cases names 0 names2 with h | h | ⟨e, h⟩
  · have := (checkNames_ok_iff names 0 names2).1 ⟨_, h⟩
    simp only [List.drop_zero] at this
    exact absurd (this.eq_of_length hl.symm).symm hne
  · exact h
  · have := (checkNames_panic_iff names 0 names2).1 ⟨_, h⟩
    simp only [List.drop_zero] at this
    omega

/-! ## the addition loops -/

theorem addRow_spec (row2 : List Rat) : ∀ (k j : Nat) (row : List Rat),
    j + k ≤ row.length → j + k ≤ row2.length →
    ∃ r', addRow row row2 k j = .ok r' ∧ r'.length = row.length ∧
      ∀ i, r'[i]? = if j ≤ i ∧ i < j + k then some (row.getD i 0 + row2.getD i 0) else row[i]?
  | 0, j, row, _, _ => ⟨row, rfl, rfl, fun i => by simp; omega⟩
  | k + 1, j, row, h1, h2 => by
    have hj1 : j < row.length := by omega
    have hj2 : j < row2.length := by omega
    unfold addRow
    rw [List.getElem?_eq_getElem hj1, List.getElem?_eq_getElem hj2]
    simp only
    obtain ⟨r', e1, e2, e3⟩ := addRow_spec row2 k (j + 1) (row.set j (row[j] + row2[j]))
      (by simp; omega) (by omega)
    refine ⟨r', e1, by simpa using e2, fun i => ?_⟩
    rw [e3 i]
    by_cases hij : i = j
    · subst hij
      have c1 : ¬ (i + 1 ≤ i ∧ i < i + 1 + k) := by omega
      have c2 : i ≤ i ∧ i < i + (k + 1) := by omega
      simp only [c1, c2, if_false, if_true, and_self]
      simp [List.getD_eq_getElem?_getD, hj1, hj2]
    · have c : (j + 1 ≤ i ∧ i < j + 1 + k) ↔ (j ≤ i ∧ i < j + (k + 1)) := by omega
      have hji : j ≠ i := fun h => hij h.symm
      simp only [c, List.getD_eq_getElem?_getD, List.getElem?_set_ne hji]

theorem addRow_full {n : Nat} (row row2 : List Rat) (h1 : row.length = n) (h2 : row2.length = n) :
    addRow row row2 n 0 = .ok (List.zipWith (· + ·) row row2) := by
  obtain ⟨r', e1, e2, e3⟩ := addRow_spec row2 n 0 row (by omega) (by omega)
  rw [e1]
  congr 1
  apply List.ext_getElem?
  intro i
  rw [e3 i, List.getElem?_zipWith]
  by_cases hi : i < n
  · have a1 : i < row.length := by omega
    have a2 : i < row2.length := by omega
    simp [hi, List.getD_eq_getElem?_getD, a1, a2]
  · have a1 : row.length ≤ i := by omega
    simp [hi, List.getElem?_eq_none_iff.2 a1]

theorem addRows_spec {n : Nat} (m2 : List (List Rat)) (hm2 : ∀ r ∈ m2, r.length = n) : ∀ (k i : Nat) (m : List (List Rat)),
    (∀ r ∈ m, r.length = n) → i + k ≤ m.length → i + k ≤ m2.length → i + k ≤ n →
    ∃ m', addRows m m2 n k i = .ok m' ∧ m'.length = m.length ∧ (∀ r ∈ m', r.length = n) ∧
      ∀ a, m'[a]? = if i ≤ a ∧ a < i + k then some (List.zipWith (· + ·) (m.getD a []) (m2.getD a [])) else m[a]?
  | 0, i, m, hm, _, _, _ => ⟨m, rfl, rfl, hm, fun a => by simp; omega⟩
  | k + 1, i, m, hm, h1, h2, h3 => by
    have hi1 : i < m.length := by omega
    have hi2 : i < m2.length := by omega
    have hn : (n == 0) = false := by
      have : n ≠ 0 := by omega
      simpa using this
    unfold addRows
    simp only [hn, Bool.false_eq_true, if_false]
    rw [List.getElem?_eq_getElem hi1, List.getElem?_eq_getElem hi2]
    simp only
    rw [addRow_full (n := n) m[i] m2[i] (hm _ (List.getElem_mem hi1)) (hm2 _ (List.getElem_mem hi2))]
    simp only
    have hm' : ∀ r ∈ m.set i (List.zipWith (· + ·) m[i] m2[i]), r.length = n := by
      intro r hr
      rcases List.mem_or_eq_of_mem_set hr with h | h
      · exact hm r h
      · rw [h, List.length_zipWith, hm _ (List.getElem_mem hi1), hm2 _ (List.getElem_mem hi2)]; omega
    obtain ⟨m', e1, e2, e4, e3⟩ := addRows_spec m2 hm2 k (i + 1) _ hm' (by simp; omega) (by omega) (by omega)
    refine ⟨m', e1, by simpa using e2, e4, fun a => ?_⟩
    rw [e3 a]
    by_cases hai : a = i
    · subst hai
      have c1 : ¬ (a + 1 ≤ a ∧ a < a + 1 + k) := by omega
      have c2 : a ≤ a ∧ a < a + (k + 1) := by omega
      simp only [c1, c2, if_false, if_true, and_self]
      simp [List.getD_eq_getElem?_getD, hi1, hi2]
    · have c : (i + 1 ≤ a ∧ a < i + 1 + k) ↔ (i ≤ a ∧ a < i + (k + 1)) := by omega
      have hia : i ≠ a := fun h => hai h.symm
      simp only [c, List.getD_eq_getElem?_getD, List.getElem?_set_ne hia]

theorem addRows_full {n : Nat} (acc m2 : List (List Rat)) (h1 : Square n acc) (h2 : Square n m2) :
    addRows acc m2 n n 0 = .ok (addM acc m2) := by
  obtain ⟨m', e1, e2, _, e3⟩ := addRows_spec m2 h2.row_length n 0 acc h1.row_length
    (by rw [h1.length]; omega) (by rw [h2.length]; omega) (by omega)
  rw [e1]
  congr 1
  apply List.ext_getElem?
  intro a
  rw [e3 a, addM, List.getElem?_zipWith]
  by_cases ha : a < n
  · have a1 : a < acc.length := by rw [h1.length]; exact ha
    have a2 : a < m2.length := by rw [h2.length]; exact ha
    simp [ha, List.getD_eq_getElem?_getD, a1, a2]
  · have a1 : acc.length ≤ a := by rw [h1.length]; omega
    simp [ha, List.getElem?_eq_none_iff.2 a1]

/-! ## the loop over the later trees -/

theorem avgLoop_later (metric : Int) (m : Metric) (names : List String) :
    ∀ (us : List T) (acc : List (List Rat)) (tips2 : List String) (k : Nat),
    Square names.length acc → (∀ u ∈ us, matrixGo metric u = some (matrix m u)) →
    avgLoop metric ⟨some acc, names, tips2, k⟩ us =
      if us.all (fun u => (matrix m u).1 == names) then
        .ok ⟨some (sumM m us acc), names, (if us.isEmpty then tips2 else names), k + us.length⟩
      else .err avgMsg
  | [], acc, tips2, k, _, _ => by simp [avgLoop, avgLoopG, sumM]
  | u :: us, acc, tips2, k, hacc, hgo => by
    have hu := hgo u (by simp)
    simp only [avgLoop, avgLoopG, avgStepG, hu, Bool.not_false, Bool.true_and, List.all_cons]
    by_cases hn : (matrix m u).1 = names
    · have hsq : Square names.length (matrix m u).2 := by
        have := matrix_isSquare m u
        rwa [hn] at this
      simp only [hn, bne_self_eq_false, Bool.false_eq_true, if_false, checkNames_self, beq_self_eq_true, Bool.true_and]
      rw [addRows_full acc _ hacc hsq]
      simp only
      have hacc' : Square names.length (addM acc (matrix m u).2) := by
        unfold Square; rw [addM_square acc _ hacc hsq]; exact hacc
      have ih := avgLoop_later metric m names us _ names (k + 1) hacc' (fun v hv => hgo v (by simp [hv]))
      simp only [avgLoop] at ih
      rw [ih]
      have e1 : k + 1 + us.length = k + (us.length + 1) := by omega
      simp only [sumM, List.foldl_cons, List.length_cons, List.isEmpty_cons, Bool.false_eq_true, if_false, e1, ite_self]
    · have hf : ((matrix m u).1 == names) = false := by simpa using hn
      simp only [hf, Bool.false_and, Bool.false_eq_true, if_false]
      by_cases hl : (matrix m u).1.length = names.length
      · have hne : ((matrix m u).1.length != names.length) = false := by simp [hl]
        simp only [hne, Bool.false_eq_true, if_false, checkNames_ne hl hn]
      · have hne : ((matrix m u).1.length != names.length) = true := by simpa using hl
        simp only [hne, if_true]
        rfl

/-! ## the final division -/

theorem zipIdx_map_lt {α : Type} (f : α → α) (n : Nat) : ∀ (l : List α) (k : Nat), k + l.length ≤ n →
    (l.zipIdx k).map (fun p => if p.2 < n then f p.1 else p.1) = l.map f
  | [], _, _ => rfl
  | x :: l, k, h => by
    simp only [List.length_cons] at h
    have hk : k < n := by omega
    simp only [List.zipIdx_cons, List.map_cons, hk, if_true]
    rw [zipIdx_map_lt f n l (k + 1) (by omega)]

theorem zipIdx_map_zero {α : Type} (f : α → α) : ∀ (l : List α) (k : Nat),
    (l.zipIdx k).map (fun p => if p.2 < 0 then f p.1 else p.1) = l
  | [], _ => rfl
  | x :: l, k => by
    have ih := zipIdx_map_zero f l (k + 1)
    simp only [Nat.not_lt_zero, if_false] at ih
    simp only [List.zipIdx_cons, List.map_cons, Nat.not_lt_zero, if_false, ih]

theorem avgFinish_later {n : Nat} (names : List String) (M : List (List Rat)) (c : Nat)
    (hn : names.length = n) (hM : Square n M) :
    avgFinish ⟨some M, names, names, c⟩ = (names, M.map fun r => r.map fun x => x / (c : Rat)) := by
  unfold avgFinish
  simp only [Option.getD_some, hn]
  congr 1
  rw [zipIdx_map_lt (fun r : List Rat => r.zipIdx.map fun xj => if xj.2 < n then xj.1 / (c : Rat) else xj.1) n M 0
    (by rw [hM.length]; omega)]
  apply List.map_congr_left
  intro r hr
  exact zipIdx_map_lt (fun x : Rat => x / (c : Rat)) n r 0 (by rw [hM.row_length r hr]; omega)

theorem avgFinish_first {n : Nat} (names : List String) (M : List (List Rat)) (c : Nat)
    (hn : names.length = n) (hM : Square n M) :
    avgFinish ⟨some M, names, [], c⟩ = (names, M) := by
  unfold avgFinish
  simp only [Option.getD_some, hn, List.length_nil]
  congr 1
  rw [zipIdx_map_lt (fun r : List Rat => r.zipIdx.map fun xj => if xj.2 < 0 then xj.1 / (c : Rat) else xj.1) n M 0
    (by rw [hM.length]; omega)]
  have : ∀ r ∈ M, (fun r : List Rat => r.zipIdx.map fun xj => if xj.2 < 0 then xj.1 / (c : Rat) else xj.1) r = id r := by
    intro r _
    exact zipIdx_map_zero (fun x : Rat => x / (c : Rat)) r 0
  rw [List.map_congr_left this, List.map_id]

/-! ## the statement-level average is the summarised one -/

/-- Provided the statement-level matrix of every tree is the rose-tree one (what the driver
    checks on every case, op `matrix`), the literal loops of `AvgDistanceMatrix` return
    exactly the result of `avgMatrix` — the names and mean that `avg_is_mean` describes — and
    the error "trees do not have the same sets of tip names" exactly when `avgMatrix`
    rejects; they never index out of range. -/
theorem avgGo_eq (metric : Int) (m : Metric) (ts : List T)
    (hgo : ∀ t ∈ ts, matrixGo metric t = some (matrix m t)) :
    avgDistanceMatrix metric ts =
      match avgMatrix m ts with
      | some r => .ok r
      | none => .err avgMsg := by
  cases ts with
  | nil => simp [avgDistanceMatrix, avgLoop, avgLoopG, avgFinish, avgMatrix]
  | cons t us =>
    have ht := hgo t (by simp)
    have hsq := matrix_isSquare m t
    have h1 : avgLoop metric {} (t :: us) = avgLoop metric ⟨some (matrix m t).2, (matrix m t).1, [], 1⟩ us := by
      simp [avgLoop, avgLoopG, avgStepG, ht]
    rw [avgDistanceMatrix, h1, avgLoop_later metric m (matrix m t).1 us _ [] 1 hsq (fun v hv => hgo v (by simp [hv])),
      avgMatrix_cons]
    by_cases hall : (us.all fun u => (matrix m u).1 == (matrix m t).1) = true
    · simp only [hall, if_true]
      have hsq' : Square (matrix m t).1.length (sumM m us (matrix m t).2) :=
        (sumM_spec m _ us _ hsq (fun u hu => by
          simp only [List.all_eq_true, beq_iff_eq] at hall
          rw [hall u hu])).1
      cases us with
      | nil =>
        simp only [List.isEmpty_nil, if_true, List.length_nil]
        rw [avgFinish_first _ _ _ rfl hsq']
        simp only [sumM, List.foldl_nil]
        rw [map_div_one]
      | cons u us =>
        simp only [List.isEmpty_cons, Bool.false_eq_true, if_false]
        rw [avgFinish_later _ _ _ rfl hsq']
        have : 1 + (u :: us).length = (u :: us).length + 1 := by omega
        rw [this]
    · simp only [hall, Bool.false_eq_true, if_false]

end Gotree.C14
