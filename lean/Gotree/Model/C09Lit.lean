/-
  C09 — a second, *literal* model of `tree.Consensus` used for the fidelity figure only
  (no theorem is about it; the theorems are about `Gotree.C09.consensus`, and the driver
  checks on every case that both models give the same obs_C09).

  What is literal here and summarised in `Model/C09.lean`:
  * `RemoveSingleNodes` with the order in which Go re-attaches the grandchildren (at the end of
    the neighbour list) and the parent positions;
  * the edge index is C04's model of the Go hash map (`Gotree.C04.HM`: 128 buckets,
    `indexFor = hashcode & (cap-1)`, rehash at load factor 0.75, `KeyValues()` in bucket
    order), with `Edge.HashCode` from the FNV-1a sums of `ComputeEdgeHashes` (`C04.reinit`);
  * `LeastCommonAncestorUnrooted` + `AddBipartition` with the neighbour order: the moved
    branches in the order of the LCA's neighbour slice, the new node appended last, every
    parent position updated.
  The result is compared with the α dump of the implementation's consensus node by node
  (names, child order, parent positions; lengths and supports up to the final division).
-/
import Gotree.Model.C09
import Gotree.Model.C09Float
import Gotree.Model.C04
import Gotree.Model.C04HM

namespace Gotree.C09L
open Gotree Gotree.C09

/-! ## RemoveSingleNodes, literally -/

/- `rsT e t` for the child `(e, t)` of a node: `(removed, branch, subtree)`; when `removed`
   the subtree is the grandchild that Go appends at the end of the parent's neighbours. -/
mutual
def rsT (e : EdgeD) : T → Bool × EdgeD × T
  | .node d p k =>
    let res := rsL k
    let stay := (res.filter (fun x => !x.1)).map (·.2)
    let app := (res.filter (·.1)).map (·.2)
    let k' := stay ++ app
    let p' := ((res.take p).filter (fun x => !x.1)).length
    match k' with
    | [(ec, c)] =>
      (true, { ec with
          len := if ec.len != NIL || e.len != NIL then max0 ec.len + max0 e.len else ec.len,
          sup := maxR ec.sup e.sup }, c)
    | _ => (false, e, .node d p' k')
def rsL : Kids → List (Bool × EdgeD × T)
  | [] => []
  | (e, t) :: r => rsT e t :: rsL r
end

def removeSinglesX : T → T
  | .node d p k =>
    let res := rsL k
    .node d p ((res.filter (fun x => !x.1)).map (·.2) ++ (res.filter (·.1)).map (·.2))

def normX (t : T) : T := unroot (removeSinglesX t)

/-! ## the edge index as the Go hash map -/

abbrev EI := C04.HM C04.EdgeIdx C04.EIInfo

def eiHash (e : C04.EdgeIdx) : UInt64 := e.hashCode
def eiEq (a b : C04.EdgeIdx) : Bool := a.equals b
def eiPolicy : Nat → Nat → Bool := C04.goPolicy 0.75

/-- `AddEdgeCount` -/
def addEdge (m : EI) (k : C04.EdgeIdx) (len : Rat) : Option EI :=
  match m.get eiHash eiEq k with
  | none => none
  | some none => m.put eiHash eiEq eiPolicy k ⟨1, len⟩
  | some (some v) => m.put eiHash eiEq eiPolicy k ⟨v.count + 1, v.len + len⟩

def addEdges : EI → List (C04.EdgeIdx × Rat) → Option EI
  | m, [] => some m
  | m, (k, l) :: r =>
    match addEdge m k l with
    | none => none
    | some m' => addEdges m' r

/-! ## LeastCommonAncestorUnrooted + AddBipartition, with positions -/

inductive InsX where
  | done (k : Kids) (p : Nat)
  | lift (k : Kids) (p : Nat) (before after : Kids)
  | fail

mutual
def insTX (S : List String) (tot n : Nat) (len sup : Rat) : T → InsX
  | .node _ p k => insKX S tot n len sup false (n - (leavesL k).length) p [] k
def insKX (S : List String) (tot n : Nat) (len sup : Rat) (isRoot : Bool) (outside : Nat) (p : Nat)
    (pre : Kids) : Kids → InsX
  | [] =>
    let inS := fun (et : EdgeD × T) => decide (com S et.2 > 0)
    let A := pre.filter inS
    let B := pre.filter (fun et => !inS et)
    let outCom := tot - comL S pre
    let pB := ((pre.take p).filter (fun et => !inS et)).length
    if isRoot || outCom == 0 then
      if A.length ≤ 1 || A.length + 1 ≥ pre.length + (if isRoot then 0 else 1) then .done pre p
      else .done (B ++ [(newEdge len sup, .node ⟨"", []⟩ A.length (A.map moved))]) pB
    else if outCom == outside then
      if A.length + 1 ≥ pre.length then .done pre p
      else .lift B B.length (((pre.take p).filter inS).map moved) (((pre.drop p).filter inS).map moved)
    else .fail
  | (e, t) :: r =>
    let c := com S t
    if 0 < c && c < t.leaves.length then
      let others := tot - c
      let restLeaves := n - t.leaves.length
      if others == 0 || others == restLeaves then
        match insTX S tot n len sup t with
        | .done k' pc => .done (pre ++ (e, .node t.d pc k') :: r) p
        | .lift k' pc ub ua =>
          let v' : T := .node t.d pc k'
          let n2 : T := .node ⟨"", []⟩ ub.length (ub ++ ua ++ [(newEdge len sup, v')])
          .done (pre ++ r ++ [((moved (e, t)).1, n2)]) (if pre.length < p then p - 1 else p)
        | .fail => .fail
      else .fail
    else insKX S tot n len sup isRoot outside p (pre ++ [(e, t)]) r
end

def insertSplitX (names : List String) (len sup : Rat) (t : T) : Option T :=
  let tips := t.tipNames
  let S := names.filter tips.contains
  if S.isEmpty || tips.all S.contains then none
  else match t with
    | .node d p k =>
      match insKX S S.length tips.length len sup true 0 0 [] k with
      | .done k' _ => some (.node d p k')
      | _ => none

/-! ## Consensus -/

/-- the branches of a normalised tree with their index data, in `Edges()` order -/
def indexed (u : T) : Option (List String × List (C04.EdgeIdx × Rat)) :=
  match C04.reinit C04.fnv1a u with
  | .ok (sorted, idxs) => some (sorted, List.zip idxs (u.splits.map (·.e.len)))
  | .err _ => none

def countLit (alltips starTips : List String) : List T → EI → Option EI
  | [], m => some m
  | t :: r, m =>
    let u := normX t
    match indexed u with
    | none => none
    | some (_, es) =>
      let names := allTipNames u
      if names.length != alltips.length || !(names.all starTips.contains) then none
      else match addEdges m es with
        | none => none
        | some m' => countLit alltips starTips r m'

def applyLit (alltips sorted : List String) (n : Nat) : T → List (C04.EdgeIdx × C04.EIInfo) → Option T
  | star, [] => some star
  | star, (k, v) :: r =>
    let names := alltips.filter fun a => (k.bits.getD (sorted.idxOf a) false)
    let mean := v.len / (v.count : Rat)
    let next : Option T :=
      if names.length < 2 then
        match names with
        | [a] => if star.tipNames.contains a then some (setTipLen a mean star) else none
        | _ => none
      else insertSplitX names mean ((v.count : Rat) / (n : Rat)) star
    match next with
    | none => none
    | some s => applyLit alltips sorted n s r

/-- the literal consensus (only the successful runs are modelled: `none` otherwise) -/
def consensusLit (ts : List T) (c : Rat) : Option T :=
  if c < 1/2 || c > 1 then none else
  match ts.map rerootTip with
  | [] => none
  | t :: r =>
    let u := normX t
    match indexed u with
    | none => none
    | some (sorted, es) =>
      let star := starOf u
      let alltips := allTipNames u
      match addEdges (C04.HM.new 128) es with
      | none => none
      | some m0 =>
        match countLit alltips star.tipNames r m0 with
        | none => none
        | some m =>
          match m.keyValues with
          | none => none
          | some kvs =>
            let n := ts.length
            let sel := kvs.filter fun kv => C04.eiKeep (cutNow c n) n kv.2
            applyLit alltips sorted n star sel

/-! ## comparison with the α dump of the implementation -/

def approxR (a b : Rat) : Bool :=
  (if a ≥ b then a - b else b - a) * (4503599627370496 : Rat) ≤ (if b ≥ 0 then b else -b)

/- `loose` (CLI cases: the result went through the Newick writer and reader): the parent
   positions and the branch ids are those the reader assigns, only the order of the children
   is compared -/
mutual
def sameT (loose : Bool) : T → T → Bool
  | .node d₁ p₁ k₁, .node d₂ p₂ k₂ => d₁.name == d₂.name && (loose || p₁ == p₂) && sameL loose k₁ k₂
def sameL (loose : Bool) : Kids → Kids → Bool
  | [], [] => true
  | (e₁, t₁) :: r₁, (e₂, t₂) :: r₂ =>
    approxR e₁.len e₂.len && approxR e₁.sup e₂.sup && e₁.pval == e₂.pval && (loose || e₁.id == e₂.id) &&
      sameT loose t₁ t₂ && sameL loose r₁ r₂
  | _, _ => false
end

/- a tree as the Newick reader builds it: the parent is the first neighbour of every node -/
mutual
def zeroP : T → T
  | .node d _ k => .node d 0 (zeroPL k)
def zeroPL : Kids → Kids
  | [] => []
  | (e, t) :: r => (e, zeroP t) :: zeroPL r
end

/-- the literal model on a case (`loose` = CLI case: inputs as the Newick reader builds them) -/
def litOf (loose : Bool) (ts : List T) (c : Rat) : Option T :=
  consensusLit (if loose then ts.map zeroP else ts) c

/-- the fidelity tag of a case on which the implementation succeeds, `lit` being `litOf` -/
def fidelityOf (loose : Bool) (impl : T) (lit : Option T) : String :=
  match lit with
  | none => "fidelity-none"
  | some m =>
    if sameT loose impl m then (if loose then "fidelity-exact-cli" else "fidelity-exact")
    else "fidelity-diff"

def fidelity (loose : Bool) (impl : T) (ts : List T) (c : Rat) : String :=
  fidelityOf loose impl (litOf loose ts c)

end Gotree.C09L
