/-
  C05 — the property theorems (audited with #print axioms by bin/check).
  All statements are about the model functions the driver runs (`Gotree/Model/C05.lean`)
  and the Spec predicates the oracle evaluates (`Gotree/Spec/C05.lean`, `Spec/Splits.lean`).
  `List.Perm` of `usplits` / `tipLens` means: the same splits with the same lengths and
  supports (as a multiset; the lists themselves are sorted by a printing of the side).
-/
import Gotree.Lemmas.C05Cli
import Gotree.Lemmas.C05RemoveAny
import Gotree.Lemmas.C05StrictRm
import Gotree.Lemmas.C05Keys
import Gotree.Lemmas.C05OrientPath
import Gotree.Lemmas.C05Index
import Gotree.Lemmas.C05History

/- The property theorems live in `Gotree.C05.P` (the shared lemma file already uses the
   plain names `C05.moveRoot_dist` … for its general versions). -/
namespace Gotree.C05.P
open Gotree Gotree.C05

/-! ## a tree on which every hypothesis below holds -/

def mkE (len sup : Rat) (id : Int) : EdgeD := ⟨len, sup, NIL, [], id⟩

/-- `((A:1,B:2)7/8:1/2,C:0,(D:1,E:1):3);` — unrooted, five tips, a zero length -/
def exT : T :=
  .node ⟨"", []⟩ 0 [
    (mkE (1/2) (7/8) 0, .node ⟨"", []⟩ 0 [(mkE 1 NIL 1, T.leaf "A"), (mkE 2 NIL 2, T.leaf "B")]),
    (mkE 0 NIL 3, T.leaf "C"),
    (mkE 3 NIL 4, .node ⟨"", []⟩ 0 [(mkE 1 NIL 5, T.leaf "D"), (mkE 1 NIL 6, T.leaf "E")])]

example : uniq exT = true ∧ lensOK exT = true := by decide +kernel

/-! ## ★ one-edge root move -/

/-- ★ `moveRoot_dist`: a one-edge root move preserves every tip-to-tip distance. -/
theorem moveRoot_dist (t : T) (i : Nat) (a b : String) (hu : uniq t = true)
    (ha : a ∈ t.tipNames) (hb : b ∈ t.tipNames) : (moveRoot t i).dist a b = t.dist a b :=
  Gotree.C05.moveRoot_distW EdgeD.lenOr0 t i ((uniq_iff t).1 hu) a b ha hb

/-- ★ `moveRoot_splits`: a one-edge root move preserves the tip set and the unrooted split
    map: every split with its length and support, every tip branch with its length. -/
theorem moveRoot_splits (t : T) (i : Nat) (hu : uniq t = true) (hl : lensOK t = true) :
    (moveRoot t i).tipNames.Perm t.tipNames ∧ (moveRoot t i).usplits.Perm t.usplits ∧
    (moveRoot t i).tipLens.Perm t.tipLens :=
  ⟨moveRoot_tips t i, moveRoot_usplits t i ((uniq_iff t).1 hu) ((lensOK_iff t).1 hl),
   moveRoot_tipLens t i ((uniq_iff t).1 hu) ((lensOK_iff t).1 hl)⟩

example : (moveRoot exT 0).dist "A" "D" = 11/2 ∧ exT.dist "A" "D" = 11/2 := by decide +kernel

/-! ## ★ Reroot -/

/-- ★ `reroot_preserves`: `Reroot` on any node, when it succeeds, preserves the tip set, the
    unrooted split map (lengths, supports) and every tip-to-tip distance. -/
theorem reroot_preserves (t t' : T) (p : List Nat) (hu : uniq t = true) (hl : lensOK t = true)
    (h : reroot t p = .ok t') :
    t'.tipNames.Perm t.tipNames ∧ t'.usplits.Perm t.usplits ∧ t'.tipLens.Perm t.tipLens ∧
    ∀ a b, a ∈ t.tipNames → b ∈ t.tipNames → t'.dist a b = t.dist a b := by
  have ht : t' = (rerootP t p none []).1 := by
    unfold reroot at h
    cases hn : nodeAt t p with
    | none => simp [hn] at h
    | some n =>
      simp only [hn] at h
      by_cases h2 : (if p.isEmpty then n.kids.length else n.kids.length + 1) < 2
      · rw [if_pos h2] at h; cases h
      · rw [if_neg h2] at h; cases h; rfl
  subst ht
  obtain ⟨s, _⟩ := rerootP_same p t none [] ((uniq_iff t).1 hu) ((lensOK_iff t).1 hl)
  exact s.spec

/-- `Reroot` refuses exactly the nodes with fewer than two neighbours. -/
theorem reroot_refuses_tips (t n : T) (p : List Nat) (h : nodeAt t p = some n) :
    (∃ t', reroot t p = .ok t') ↔ 2 ≤ (if p.isEmpty then n.kids.length else n.kids.length + 1) := by
  unfold reroot
  rw [h]
  simp only
  by_cases h2 : (if p.isEmpty then n.kids.length else n.kids.length + 1) < 2
  · rw [if_pos h2]
    constructor
    · rintro ⟨t', h⟩; cases h
    · intro h3; omega
  · rw [if_neg h2]
    constructor
    · intro _; omega
    · intro _; exact ⟨_, rfl⟩

example : ∃ t', reroot exT [2] = .ok t' ∧ t'.dist "A" "D" = exT.dist "A" "D" := ⟨_, rfl, by decide +kernel⟩

/-! ## UnRoot, reorderings, outgroup rooting: the tree itself is kept -/

/-- `UnRoot` preserves the tip set, the unrooted splits (the two root branches counting as one
    branch: lengths added, larger support) and every tip-to-tip distance. -/
theorem unroot_preserves (t : T) (hu : uniq t = true) (hl : lensOK t = true) (hs : supsOK t = true) :
    (unroot t).tipNames.Perm t.tipNames ∧ (unroot t).usplits.Perm t.usplits ∧
    (unroot t).tipLens.Perm t.tipLens ∧
    ∀ a b, a ∈ t.tipNames → b ∈ t.tipNames → (unroot t).dist a b = t.dist a b :=
  (unroot_same t ((uniq_iff t).1 hu) ((lensOK_iff t).1 hl) ((supsOK_iff t).1 hs)).spec

/-- a ROOTED witness of the hypotheses of `unroot_preserves` (`exT` is unrooted, `UnRoot` leaves it
    alone): `((A:1,B:2)7/8:1/2,(D:1,E:1)1/2:3);` — the two root branches become one branch of length
    7/2 carrying the larger support -/
def exRooted : T :=
  .node ⟨"", []⟩ 0 [
    (mkE (1/2) (7/8) 0, .node ⟨"", []⟩ 0 [(mkE 1 NIL 1, T.leaf "A"), (mkE 2 NIL 2, T.leaf "B")]),
    (mkE 3 (1/2) 3, .node ⟨"", []⟩ 0 [(mkE 1 NIL 4, T.leaf "D"), (mkE 1 NIL 5, T.leaf "E")])]

example : uniq exRooted = true ∧ lensOK exRooted = true ∧ supsOK exRooted = true ∧ exRooted.rooted = true ∧
    (unroot exRooted).rooted = false ∧
    (unroot exRooted).edges.map (fun e => (e.len, e.sup)) = [(1, NIL), (2, NIL), (7/2, 7/8), (1, NIL), (1, NIL)] ∧
    (unroot exRooted).dist "A" "D" = exRooted.dist "A" "D" := by decide +kernel

/-- `RotateInternalNodes` preserves the tree, whatever the draws. -/
theorem rotate_preserves (t : T) (draws : List Nat) (hl : lensOK t = true) :
    (rotate t draws).tipNames.Perm t.tipNames ∧ (rotate t draws).usplits.Perm t.usplits ∧
    (rotate t draws).tipLens.Perm t.tipLens ∧
    ∀ a b, a ∈ t.tipNames → b ∈ t.tipNames → (rotate t draws).dist a b = t.dist a b :=
  (rotate_same t draws ((lensOK_iff t).1 hl)).spec

/-- `SortNeighborsByTips` preserves the tree. -/
theorem sort_preserves (t : T) (hl : lensOK t = true) :
    (sortT t).tipNames.Perm t.tipNames ∧ (sortT t).usplits.Perm t.usplits ∧
    (sortT t).tipLens.Perm t.tipLens ∧
    ∀ a b, a ∈ t.tipNames → b ∈ t.tipNames → (sortT t).dist a b = t.dist a b :=
  (sortT_same t ((lensOK_iff t).1 hl)).spec

/-- `RerootOutGroup` without removal, whenever it succeeds (strict or not, clade or not),
    preserves the tip set, the unrooted splits — the cut branch counting as one branch with
    its full length and its support — and every tip-to-tip distance. -/
theorem outgroup_preserves (t t' : T) (strict : Bool) (S : List String)
    (hu : uniq t = true) (hl : lensOK t = true) (hs : supsOK t = true)
    (h : rerootOutGroup false strict S t = .ok t') :
    t'.tipNames.Perm t.tipNames ∧ t'.usplits.Perm t.usplits ∧ t'.tipLens.Perm t.tipLens ∧
    ∀ a b, a ∈ t.tipNames → b ∈ t.tipNames → t'.dist a b = t.dist a b :=
  (outgroup_same t t' strict S h ((uniq_iff t).1 hu) ((lensOK_iff t).1 hl) ((supsOK_iff t).1 hs)).spec

example : uniq exT = true ∧ lensOK exT = true ∧ supsOK exT = true := by decide +kernel
example : (rerootOutGroup false true ["B", "A"] exT).cls = "ok" := by decide +kernel

/-- `RerootMidPoint`, whenever it succeeds, preserves the tip set, the unrooted splits (the
    cut branch counting as one branch with its full length and its support) and every
    tip-to-tip distance, and the new root has exactly two children.
    (The halfway clause is `midpoint_halfway` below.) -/
theorem midpoint_preserves (t t' : T) (hu : uniq t = true) (hl : lensOK t = true) (hs : supsOK t = true)
    (h : rerootMidPoint t = .ok t') :
    t'.kids.length = 2 ∧
    t'.tipNames.Perm t.tipNames ∧ t'.usplits.Perm t.usplits ∧ t'.tipLens.Perm t.tipLens ∧
    ∀ a b, a ∈ t.tipNames → b ∈ t.tipNames → t'.dist a b = t.dist a b :=
  have := midpoint_same t t' h ((uniq_iff t).1 hu) ((lensOK_iff t).1 hl) ((supsOK_iff t).1 hs)
  ⟨this.2, this.1.spec⟩

example : (rerootMidPoint exT).cls = "ok" := by decide +kernel

/-- `midpoint_halfway`: after a successful `RerootMidPoint` on a tree whose lengths are all
    present and non-negative (zero lengths and ties between longest paths included), the root
    has two children and lies halfway along a longest tip-to-tip path: there are two tips at
    the largest tip-to-tip distance `diam t` of the input tree, still at that distance from each
    other, each at `diam t / 2` from the new root.  This is the Spec predicate `halfwayOK` the
    oracle evaluates on the implementation's output.  (It holds for the repaired code, 23d32a8;
    for the code before the repair see `midpoint_farend_pinned_fails`.) -/
theorem midpoint_halfway (t t' : T) (hu : uniq t = true) (hl : allLens t = true) (hs : supsOK t = true)
    (h : rerootMidPoint t = .ok t') : halfwayOK t t' = true :=
  midpoint_halfway_core t t' h ((uniq_iff t).1 hu) ((allLens_iff t).1 hl) ((supsOK_iff t).1 hs)

example : allLens exT = true := by decide +kernel

/-- The same six statements in the vocabulary of the oracle: on every tree with unique tips,
    lengths and supports absent or non-negative and distinct sort keys, the Spec predicate
    `preserved` — the one the driver evaluates on the implementation's output — holds between
    the input and the result of every operation of the model. -/
theorem ops_preserved (t : T) (hu : uniq t = true) (hl : lensOK t = true) (hs : supsOK t = true)
    (hk : keysOK t = true) :
    (∀ p t', reroot t p = .ok t' → preserved t t' = true) ∧
    preserved t (unroot t) = true ∧
    (∀ draws, preserved t (rotate t draws) = true) ∧
    preserved t (sortT t) = true ∧
    (∀ strict S t', rerootOutGroup false strict S t = .ok t' → preserved t t' = true) ∧
    (∀ t', rerootMidPoint t = .ok t' → preserved t t' = true) := by
  have hu' := (uniq_iff t).1 hu
  have hl' := (lensOK_iff t).1 hl
  have hs' := (supsOK_iff t).1 hs
  refine ⟨?_, ?_, ?_, ?_, ?_, ?_⟩
  · intro p t' h
    have ht : t' = (rerootP t p none []).1 := by
      unfold reroot at h
      cases hn : nodeAt t p with
      | none => simp [hn] at h
      | some n =>
        simp only [hn] at h
        by_cases h2 : (if p.isEmpty then n.kids.length else n.kids.length + 1) < 2
        · rw [if_pos h2] at h; cases h
        · rw [if_neg h2] at h; cases h; rfl
    subst ht
    exact preserved_of_same (rerootP_same p t none [] hu' hl').1 hk
  · exact preserved_of_same (unroot_same t hu' hl' hs') hk
  · intro draws; exact preserved_of_same (rotate_same t draws hl') hk
  · exact preserved_of_same (sortT_same t hl') hk
  · intro strict S t' h; exact preserved_of_same (outgroup_same t t' strict S h hu' hl' hs') hk
  · intro t' h; exact preserved_of_same (midpoint_same t t' h hu' hl' hs').1 hk

/- `keysOK` holds on every generated tree (driver tag `hyp-keysok`); it cannot be decided by
   kernel reduction here because `List.mergeSort` is defined by well-founded recursion. -/

/-! ## ★ the outgroup is a root clade -/

/-- ★ `outgroup_clade`: whenever `RerootOutGroup(remove = false)` succeeds on an outgroup that
    is one side of a split of the tree (`isSide`; in strict mode no hypothesis is needed, success
    itself implies it, see `outgroup_strict_refuses`), the root has exactly two children, they
    hang on the two equal halves `halfEdge e` of one branch `e` (length halved — an absent length
    stays absent, a zero length stays zero —, support copied to both), and the tips below one of
    them are exactly the outgroup (the given names that are tips of the tree).  Together with
    `outgroup_preserves` — the two halves fuse back into a branch of the input tree with its
    length and support — this is the clause "the outgroup is exactly one of the two clades
    below the root, the separating branch being cut into two equal halves". -/
theorem outgroup_clade (t t' : T) (strict : Bool) (S : List String)
    (hu : uniq t = true) (hl : lensOK t = true) (hs : supsOK t = true)
    (hside : strict = true ∨ isSide t S = true)
    (h : rerootOutGroup false strict S t = .ok t') :
    ∃ (e : EdgeD) (cA cB : T) (first : Bool),
      t'.kids = (if first then [(halfEdge e, cA), (halfEdge e, cB)] else [(halfEdge e, cB), (halfEdge e, cA)]) ∧
      cA.leaves.Perm (outTips t S) := by
  obtain ⟨e, cA, cB, first, hk, _, hp⟩ :=
    outgroup_structure_side t t' strict S h ((uniq_iff t).1 hu) ((lensOK_iff t).1 hl) ((supsOK_iff t).1 hs)
  exact ⟨e, cA, cB, first, hk, hp hside⟩

/-- the hypothesis `isSide` is satisfiable (here obtained from a strict success, since
    `usplitsAll` sorts with `List.mergeSort`, which kernel reduction cannot unfold) -/
example : isSide exT ["A", "B"] = true := by
  have hc : (rerootOutGroup false true ["A", "B"] exT).cls = "ok" := by decide +kernel
  cases h : rerootOutGroup false true ["A", "B"] exT with
  | ok t' =>
    exact outgroup_strict_side exT t' _ h ((uniq_iff _).1 (by decide +kernel))
      ((lensOK_iff _).1 (by decide +kernel)) ((supsOK_iff _).1 (by decide +kernel))
  | err m => rw [h] at hc; simp [Res.cls] at hc
  | panic m => rw [h] at hc; simp [Res.cls] at hc

/-- `outgroup_clade` in the vocabulary of the oracle: under the same hypotheses, and when no two
    branches of the unrooted tree carry the same split (`branchesDistinct`: no node with exactly
    two neighbours), the Spec predicate `cladeOK` — two root clades, one exactly the outgroup, both
    root branches of length l/2 where l is the (fused) length of that split in the input, each
    carrying its support — holds on the result; and `insideOK` holds in every mode. -/
theorem outgroup_clade_oracle (t t' : T) (strict : Bool) (S : List String)
    (hu : uniq t = true) (hl : lensOK t = true) (hs : supsOK t = true)
    (h : rerootOutGroup false strict S t = .ok t') :
    insideOK t S t' = true ∧
    ((strict = true ∨ isSide t S = true) → branchesDistinct t = true → cladeOK t S t' = true) :=
  ⟨insideOK_of t t' strict S h ((uniq_iff t).1 hu) ((lensOK_iff t).1 hl) ((supsOK_iff t).1 hs),
   fun hside hD => cladeOK_of t t' strict S h ((uniq_iff t).1 hu) ((lensOK_iff t).1 hl) ((supsOK_iff t).1 hs)
     hside ((branchesDistinct_iff t).1 hD)⟩

/-- the hypothesis `branchesDistinct` follows from a structural one: distinct tip names and no
    node with exactly one child (`T.noSingle`: no node with exactly two neighbours; the root of a
    rooted tree does not count, `UnRoot` removes it) -/
theorem branchesDistinct_of_noSingle (t : T) (hu : uniq t = true) (hns : t.noSingle = true) :
    branchesDistinct t = true :=
  Gotree.C05.branchesDistinct_of_noSingle t ((uniq_iff t).1 hu) hns

/-- `outgroup_clade_oracle` with structural hypotheses only -/
theorem outgroup_clade_structural (t t' : T) (strict : Bool) (S : List String)
    (hu : uniq t = true) (hl : lensOK t = true) (hs : supsOK t = true) (hns : t.noSingle = true)
    (hside : strict = true ∨ isSide t S = true)
    (h : rerootOutGroup false strict S t = .ok t') : cladeOK t S t' = true :=
  (outgroup_clade_oracle t t' strict S hu hl hs h).2 hside (branchesDistinct_of_noSingle t hu hns)

example : exT.noSingle = true := by decide

/-- `outgroup_clade`, removal requested: when `RerootOutGroup(remove = true)` succeeds on an
    outgroup that is one side of a split (or in strict mode), the outgroup is absent and
    everything else is intact: the tips are exactly the tips that are not in the outgroup, and
    all their pairwise distances are those of the input tree. -/
theorem outgroup_removed (t t' : T) (strict : Bool) (S : List String)
    (hu : uniq t = true) (hl : lensOK t = true) (hs : supsOK t = true)
    (hside : strict = true ∨ isSide t S = true)
    (h : rerootOutGroup true strict S t = .ok t') :
    t'.tipNames.Perm (t.tipNames.filter (fun x => !(outTips t S).contains x)) ∧
    ∀ a b, a ∈ t'.tipNames → b ∈ t'.tipNames → t'.dist a b = t.dist a b :=
  outgroup_remove_same t t' strict S h ((uniq_iff t).1 hu) ((lensOK_iff t).1 hl) ((supsOK_iff t).1 hs) hside

example : (rerootOutGroup true true ["A", "B"] exT).cls = "ok" := by decide +kernel

/-- `outgroup_removed`, split sets and oracle vocabulary: moreover the non-trivial sides of the
    result are exactly the restrictions, to the remaining tips, of the non-trivial sides of the
    input (those that stay non-trivial); and when the sort keys of the result are distinct the
    Spec predicate `removedOK` — what the oracle evaluates — holds. -/
theorem outgroup_removed_restriction (t t' : T) (strict : Bool) (S : List String)
    (hu : uniq t = true) (hl : lensOK t = true) (hs : supsOK t = true)
    (hside : strict = true ∨ isSide t S = true)
    (h : rerootOutGroup true strict S t = .ok t') :
    (∀ K : List String, K.Perm t'.tipNames → ∀ a, a ∈ t'.usplits.map (·.side) ↔
      a ∈ ((t.usplits.map (·.side)).map (fun σ => canonSide K (σ.filter K.contains))).filter
        (fun a => decide (2 ≤ lightSize K a))) ∧
    (keysOK t' = true → removedOK t (outTips t S) t' = true) :=
  ⟨(outgroup_remove_full t t' strict S h ((uniq_iff t).1 hu) ((lensOK_iff t).1 hl) ((supsOK_iff t).1 hs) hside).2.2,
   fun hk => removedOK_of t t' strict S h ((uniq_iff t).1 hu) ((lensOK_iff t).1 hl) ((supsOK_iff t).1 hs) hside hk⟩

/-- `outgroup_removed_any`: removal requested, ANY outgroup — in particular one that is not a side
    of a split, in non-strict mode, where the code removes everything below the ancestor of the
    outgroup.  Whenever `RerootOutGroup(remove = true)` succeeds: the outgroup is absent from the
    result; the tips that disappeared are exactly one side of a split of the input (one root clade, it
    contains the outgroup); the surviving tips keep all their pairwise distances; the non-trivial
    splits of the result are the restrictions of those of the input; and the branches of
    the result are exactly — same leaves below, same length, support and other data — the branches
    of a tree `tn` that is the input up to rooting (`Same`: the input unrooted and re-rooted), minus
    branches that have all or none of the surviving tips below them.  These are the clauses of the
    oracle `removedAnyOK`; its last clause `survivorsDataOK` (the same data after fusing, on both
    sides, the branches that carry the same restricted split) is not derived from this in Lean. -/
theorem outgroup_removed_any (t t' : T) (strict : Bool) (S : List String)
    (hu : uniq t = true) (hl : lensOK t = true) (hs : supsOK t = true)
    (h : rerootOutGroup true strict S t = .ok t') :
    t'.tipNames.Nodup ∧ t'.tipNames ≠ [] ∧
    (∀ x ∈ t'.tipNames, x ∈ t.tipNames ∧ x ∉ outTips t S) ∧
    canonSide t.tipNames (t.tipNames.filter (fun x => !t'.tipNames.contains x)) ∈ t.usplitsAll.map (·.side) ∧
    (∀ a b, a ∈ t'.tipNames → b ∈ t'.tipNames → t'.dist a b = t.dist a b) ∧
    (∀ K : List String, K.Perm t'.tipNames → ∀ a, a ∈ t'.usplits.map (·.side) ↔
      a ∈ ((t.usplits.map (·.side)).map (fun σ => canonSide K (σ.filter K.contains))).filter
        (fun a => decide (2 ≤ lightSize K a))) ∧
    (∃ (tn : T) (rest : List SplitE), Same t tn ∧ tn.splits.Perm (rest ++ t'.splits) ∧
      ∀ s ∈ rest, (∀ x ∈ t'.tipNames, x ∈ s.below) ∨ (∀ x ∈ t'.tipNames, x ∉ s.below)) :=
  outgroup_remove_any t t' strict S h ((uniq_iff t).1 hu) ((lensOK_iff t).1 hl) ((supsOK_iff t).1 hs)

/-- a non-side outgroup, removed in non-strict mode: `{D, C}` in `exT` takes `E` away with it -/
example : (match rerootOutGroup true false ["D", "C"] exT with
      | .ok u => u.tipNames == ["A", "B"]
      | _ => false) = true ∧
    (rerootOutGroup true true ["D", "C"] exT).cls = "err" := by decide +kernel

/-- `outgroup_strict_refuses`: an outgroup that is not one side of a split of the tree (a
    "non-monophyletic" outgroup, in the unrooted sense) is refused in strict mode. -/
theorem outgroup_strict_refuses (t : T) (S : List String)
    (hu : uniq t = true) (hl : lensOK t = true) (hs : supsOK t = true) (hns : isSide t S = false) :
    ∀ t', rerootOutGroup false true S t ≠ .ok t' := by
  intro t' h
  have := outgroup_strict_side t t' S h ((uniq_iff t).1 hu) ((lensOK_iff t).1 hl) ((supsOK_iff t).1 hs)
  rw [this] at hns; cases hns

/-- the same with the outgroup removed (`-r`): a strict success means the outgroup is one side of a
    split, and what was removed is exactly the outgroup -/
theorem outgroup_strict_refuses_removing (t t' : T) (S : List String)
    (hu : uniq t = true) (hl : lensOK t = true) (hs : supsOK t = true)
    (h : rerootOutGroup true true S t = .ok t') :
    isSide t S = true ∧ (t.tipNames.filter (fun x => !t'.tipNames.contains x)).Perm (outTips t S) :=
  outgroup_strict_side_rm t t' S h ((uniq_iff t).1 hu) ((lensOK_iff t).1 hl) ((supsOK_iff t).1 hs)

/-- a non-side outgroup on a tree satisfying the hypotheses: `{D, C}` in `exT` (that `isSide exT ["D","C"]` is
    `false` follows from the refusal, by `outgroup_strict_refuses_removing` / `outgroup_strict_side`; it is
    not evaluated in the kernel because `usplitsAll` sorts with `mergeSort`) -/
example : (rerootOutGroup false true ["D", "C"] exT).cls = "err" ∧ (rerootOutGroup true true ["D", "C"] exT).cls = "err" ∧
    (rerootOutGroup false false ["D", "C"] exT).cls = "ok" := by decide +kernel

/-! ### Non-strict mode: when is the rooting refused?  (deviation from the statement)

The statement reads "an outgroup that is not monophyletic is refused in strict mode and otherwise ends
up inside one root clade".  `outgroup_nonstrict_inside` proves the second half for every SUCCESSFUL
rooting.  Success itself is not guaranteed: the code — and the model — refuse in non-strict mode when the
common ancestor of the outgroup (seen from the first tip outside it) has several branches without
outgroup tips (finding OutgroupNonStrictMultifurcationRefused, tree/algo.go `len(n.br)-len(edges) != 1`).
The full statement one would like,

    uniq t → noSingle t → ¬dupNodeNames t → outTips t S ≠ [] → ¬ all tips named →
      ∃ t', rerootOutGroup false false S t = .ok t'

is FALSE for the code as it is (`outgroup_nonstrict_polytomy_refused` below); what holds is the list of
causes of a refusal: -/

/-- `outgroup_nonstrict_refusals_partial`: in non-strict mode the model refuses only for one of these
    causes: two nodes with the same name; no given name is a tip; every tip is named (no tip is left to
    start from); a tree of two nodes; the ancestor of the outgroup is a multifurcation (the deviation);
    with removal, fewer than two branches at the node that remains. -/
theorem outgroup_nonstrict_refusals_partial (rm : Bool) (t : T) (S : List String) (m : String)
    (h : rerootOutGroup rm false S t = .err m) :
    m = "dupnames" ∨ (m = "none" ∧ effOutgroup (unroot t) S = []) ∨
    (m = "all" ∧ tempRootNeighbour (unroot t) (effOutgroup (unroot t) S) = none) ∨ m = "no common ancestor" ∨
    (m = "multifurcated" ∧ effOutgroup (unroot t) S ≠ []) ∨ (m = "roottip" ∧ rm = true) :=
  outgroup_err_nonstrict h

/-- `(a:1,b:1,c:1,d:1);` -/
def starT : T :=
  .node ⟨"", []⟩ 0 [(mkE 1 NIL 0, T.leaf "a"), (mkE 1 NIL 1, T.leaf "b"), (mkE 1 NIL 2, T.leaf "c"), (mkE 1 NIL 3, T.leaf "d")]

/-- `(a:1,b:1,c:1,(d:1,e:1):1);` -/
def star2T : T :=
  .node ⟨"", []⟩ 0 [(mkE 1 NIL 0, T.leaf "a"), (mkE 1 NIL 1, T.leaf "b"), (mkE 1 NIL 2, T.leaf "c"),
    (mkE 1 NIL 3, .node ⟨"", []⟩ 0 [(mkE 1 NIL 4, T.leaf "d"), (mkE 1 NIL 5, T.leaf "e")])]

def errIs (r : Res T) (m : String) : Bool := match r with | .err m' => m' == m | _ => false

/-- the deviation, on the model: non-strict rooting on `{a, b}` is refused on both trees ("multifurcated"),
    while `{D, C}` in `exT` — not a side either, but its ancestor has one free branch only — is accepted -/
theorem outgroup_nonstrict_polytomy_refused :
    errIs (rerootOutGroup false false ["a", "b"] starT) "multifurcated" = true ∧
    errIs (rerootOutGroup false false ["a", "b"] star2T) "multifurcated" = true ∧
    errIs (rerootOutGroup true false ["a", "b"] star2T) "multifurcated" = true ∧
    (rerootOutGroup false false ["D", "C"] exT).cls = "ok" ∧
    uniq starT = true ∧ starT.noSingle = true := by decide +kernel

/-! ### the hypothesis `keysOK` from the names alone -/

/-- `keysOK_of_plainNames`: when every tip name is non-empty and free of ',' the printing by which the
    split list is sorted tells the sides apart — the hypothesis `keysOK` of the literal-equality theorems
    (`ops_preserved`, `outgroup_clade_oracle`, `outgroup_removed`) holds.  (`keysOK` itself cannot be
    evaluated in the kernel, `plainNames` can.) -/
theorem keysOK_of_plainNames (t : T) (h : plainNames t = true) : keysOK t = true :=
  Gotree.C05.keysOK_of_plainNames t h

example : plainNames exT = true ∧ keysOK exT = true :=
  ⟨by decide +kernel, Gotree.C05.keysOK_of_plainNames exT (by decide +kernel)⟩

/-- `outgroup_nonstrict_inside`: in non-strict mode a successful rooting — monophyletic
    outgroup or not — leaves the whole outgroup inside one of the two root clades, the root
    again sitting in the middle of one branch. -/
theorem outgroup_nonstrict_inside (t t' : T) (S : List String)
    (hu : uniq t = true) (hl : lensOK t = true) (hs : supsOK t = true)
    (h : rerootOutGroup false false S t = .ok t') :
    ∃ (e : EdgeD) (cA cB : T) (first : Bool),
      t'.kids = (if first then [(halfEdge e, cA), (halfEdge e, cB)] else [(halfEdge e, cB), (halfEdge e, cA)]) ∧
      ∀ x ∈ outTips t S, x ∈ cA.leaves := by
  obtain ⟨e, cA, cB, first, hk, hin, _⟩ :=
    outgroup_structure t t' false S h ((uniq_iff t).1 hu) ((lensOK_iff t).1 hl) ((supsOK_iff t).1 hs)
  exact ⟨e, cA, cB, first, hk, hin⟩

/-- `outgroup_ignores_absent_names`: the result depends on the given names only through those
    that are tips of the (unrooted) tree, each counted once. -/
theorem outgroup_ignores_absent_names (rm strict : Bool) (S S' : List String) (t : T)
    (h : effOutgroup (unroot t) S' = effOutgroup (unroot t) S) :
    rerootOutGroup rm strict S' t = rerootOutGroup rm strict S t := by
  unfold rerootOutGroup rerootOutGroupWith outgroupPlan
  rw [h]

/-- in particular names that are not tips can be dropped, or added -/
theorem outgroup_drop_absent (rm strict : Bool) (S : List String) (t : T) :
    rerootOutGroup rm strict (S.filter (unroot t).tipNames.contains) t = rerootOutGroup rm strict S t :=
  outgroup_ignores_absent_names rm strict S _ t (by
    unfold effOutgroup
    rw [List.filter_filter]
    congr 1
    apply List.filter_congr
    intro x _
    simp)

example : (rerootOutGroup false true ["B", "zz", "A", "B"] exT).cls = "ok" ∧
    (rerootOutGroup false true ["A", "C"] exT).cls = "err" ∧
    (rerootOutGroup false false ["A", "C"] exT).cls = "ok" := by decide +kernel

/-- What `UnRoot` does with a node that has exactly two neighbours: when the first root child has
    exactly one child, that child becomes the root of a tree whose root has two neighbours again —
    the result is still "rooted" (`Tree.Rooted()`), although tips, splits, lengths and distances are
    kept (`unroot_preserves` needs no hypothesis on such nodes).  Without such nodes the result is
    never rooted (`unroot_noSingle`). -/
theorem unroot_single_child_stays_rooted (d d1 d2 : NodeD) (p p1 p2 : Nat) (e1 e2 : EdgeD) (k : EdgeD × T) (k2 : Kids) :
    (unroot (.node d p [(e1, .node d1 p1 [k]), (e2, .node d2 p2 k2)])).rooted = true := by
  rw [unroot_rooted]; rfl

theorem unroot_result_not_rooted (t : T) (h : t.noSingle = true) : (unroot t).rooted = false := by
  have := (unroot_noSingle t h).2
  simp [T.rooted, this]

/-- `UnRoot` does nothing to a tree that is not rooted. -/
theorem unroot_not_rooted (t : T) (h : t.rooted = false) : unroot t = t := by
  unfold unroot
  split
  · simp [T.rooted] at h
  · rfl


/-! ## orientation (`SetRoot`, `ReorderEdges`, `Parent`, `ParentEdge`, `RerootFirst`) -/

/-- After `Reroot` every branch points away from the root: `t.root = n; ReorderEdges(n, nil, …)`
    applied to a correctly oriented heap yields the correctly oriented heap of the re-rooted
    tree (`orient` gives every branch the flag "left is the end nearer the root"), and the branches
    reported as reversed are exactly those that pointed the wrong way after `t.root = n`. -/
theorem reroot_oriented (t : T) (path : List Nat) :
    (rerootO t path).1 = orient (rerootP t path none []).1 ∧
    (rerootO t path).2 = (setRootO (orient t) path none).wrong ∧
    (∀ f ∈ (rerootO t path).1.flags, f = true) ∧ (rerootO t path).1.wrong = [] := by
  refine ⟨rerootO_oriented t path, rerootO_reversed t path, ?_, ?_⟩
  · rw [rerootO_oriented]; exact flags_orient _
  · rw [rerootO_oriented]; exact wrong_orient _

/-- `Reroot(n)` inverts exactly the branches on the path from the old root to `n` (any path that
    exists in the tree), and `ReorderEdges` reports them from `n` outwards -/
theorem reroot_reverses_path (t : T) (path : List Nat) (hv : (edgesAlong t path).length = path.length) :
    (rerootO t path).2 = (edgesAlong t path).reverse :=
  rerootO_reversed_path t path (by rw [edgesAlong_eq] at hv; exact hv)

example : (edgesAlong exT [0, 1]).length = 2 ∧ (rerootO exT [0, 1]).2.map (·.id) = [2, 0] := by decide +kernel

/-- whatever the orientation before, `ReorderEdges` from the root leaves every branch pointing away
    from the root, changes nothing else, and reports exactly the branches it inverted -/
theorem reorder_orients (o : OT) : o.reorder.1 = orient o.erase ∧ o.reorder.2 = o.wrong :=
  ⟨reorder_fst o, reorder_snd o⟩

/-- in a correctly oriented heap `Parent()` / `ParentEdge()` find no parent for the root and exactly
    the parent for every other node -/
theorem parents_after_reorder (o : OT) :
    ∃ rest, o.reorder.1.parents none = "none" :: rest ∧ ∀ s ∈ rest, s = "parent" := by
  rw [reorder_fst]; exact parents_of_oriented _

/-- `RerootFirst` is `Reroot` on the first node with three neighbours: it preserves the tree -/
theorem rerootFirst_preserves (t t' : T) (hu : uniq t = true) (hl : lensOK t = true)
    (h : rerootFirst t = .ok t') :
    t'.tipNames.Perm t.tipNames ∧ t'.usplits.Perm t.usplits ∧ t'.tipLens.Perm t.tipLens ∧
    ∀ a b, a ∈ t.tipNames → b ∈ t.tipNames → t'.dist a b = t.dist a b := by
  unfold rerootFirst at h
  split at h
  · cases h
  · exact reroot_preserves t t' _ hu hl h

example : (rerootFirst exT).cls = "ok" ∧ (rerootO exT [0]).2.map (·.id) = [0] := by decide +kernel

/-! ## the command line (`gotree reroot outgroup|midpoint`, `unroot`, `rotate rand|sort`) -/

/-- the tip file (-l) wins over the arguments; with neither the command fails -/
theorem cli_tips_priority (ls args : List String) :
    cliTips (some ls) args = .ok (parseTipsFile ls) ∧
    (args ≠ [] → cliTips none args = .ok args) ∧ (cliTips none []).cls = "err" := by
  refine ⟨rfl, ?_, rfl⟩
  intro h; cases args with
  | nil => exact absurd rfl h
  | cons a r => rfl

/-- `reroot outgroup` (outgroup kept) and `reroot midpoint` on a file of several trees: the trees
    written are, in order, the results for a prefix of the input trees; each of them is the
    corresponding input tree (tips, splits, lengths, supports, distances: `preserved`); and the
    command ends "ok" exactly when every tree was written. -/
theorem cli_written_trees (kind : CliKind) (strict : Bool) (file : Option (List String)) (args : List String)
    (draws : List Nat) (trees : List T) (hk : kind = .outgroup ∨ kind = .midpoint)
    (hyp : ∀ t ∈ trees, uniq t = true ∧ lensOK t = true ∧ supsOK t = true ∧ keysOK t = true) :
    (cliRun kind false strict file args draws trees).1.length ≤ trees.length ∧
    (∀ (i : Nat) (u : T), (cliRun kind false strict file args draws trees).1[i]? = some u →
      ∃ t, trees[i]? = some t ∧ preserved t u = true) := by
  rcases hk with rfl | rfl
  · simp only [cliRun]
    cases htips : cliTips file args with
    | ok tips =>
      simp only
      obtain ⟨h1, h2, _⟩ := cliLoop_spec (rerootOutGroup false strict tips) trees
      refine ⟨h1, fun i u hu => ?_⟩
      obtain ⟨t, ht, hop⟩ := h2 i u hu
      obtain ⟨a, b, c, d⟩ := hyp t (List.mem_of_getElem? ht)
      exact ⟨t, ht, (ops_preserved t a b c d).2.2.2.2.1 strict tips u hop⟩
    | err m => simp
    | panic m => simp
  · simp only [cliRun]
    obtain ⟨h1, h2, _⟩ := cliLoop_spec rerootMidPoint trees
    refine ⟨h1, fun i u hu => ?_⟩
    obtain ⟨t, ht, hop⟩ := h2 i u hu
    obtain ⟨a, b, c, d⟩ := hyp t (List.mem_of_getElem? ht)
    exact ⟨t, ht, (ops_preserved t a b c d).2.2.2.2.2 u hop⟩

/-- `unroot`, `rotate rand` (whatever the seed) and `rotate sort` write exactly one tree per input
    tree, each being the corresponding input tree (`preserved`), and end "ok". -/
theorem cli_written_trees_total (kind : CliKind) (rm strict : Bool) (file : Option (List String)) (args : List String)
    (draws : List Nat) (trees : List T) (hk : kind = .unroot ∨ kind = .rotateRand ∨ kind = .rotateSort)
    (hyp : ∀ t ∈ trees, uniq t = true ∧ lensOK t = true ∧ supsOK t = true ∧ keysOK t = true) :
    (cliRun kind rm strict file args draws trees).2 = "ok" ∧
    (cliRun kind rm strict file args draws trees).1.length = trees.length ∧
    (∀ (i : Nat) (u : T), (cliRun kind rm strict file args draws trees).1[i]? = some u →
      ∃ t, trees[i]? = some t ∧ preserved t u = true) := by
  rcases hk with rfl | rfl | rfl
  · simp only [cliRun, List.length_map, List.getElem?_map, true_and]
    intro i u hu
    cases ht : trees[i]? with
    | none => simp [ht] at hu
    | some t =>
      simp only [ht, Option.map_some, Option.some.injEq] at hu
      obtain ⟨a, b, c, d⟩ := hyp t (List.mem_of_getElem? ht)
      exact ⟨t, rfl, hu ▸ (ops_preserved t a b c d).2.1⟩
  · simp only [cliRun, true_and]
    obtain ⟨h1, h2⟩ := cliRotate_spec trees draws
    refine ⟨h1, fun i u hu => ?_⟩
    obtain ⟨t, ds, ht, rfl⟩ := h2 i u hu
    obtain ⟨a, b, c, d⟩ := hyp t (List.mem_of_getElem? ht)
    exact ⟨t, ht, (ops_preserved t a b c d).2.2.1 ds⟩
  · simp only [cliRun, List.length_map, List.getElem?_map, true_and]
    intro i u hu
    cases ht : trees[i]? with
    | none => simp [ht] at hu
    | some t =>
      simp only [ht, Option.map_some, Option.some.injEq] at hu
      obtain ⟨a, b, c, d⟩ := hyp t (List.mem_of_getElem? ht)
      exact ⟨t, rfl, hu ▸ (ops_preserved t a b c d).2.2.2.1⟩

/-! ## the repaired defects, as theorems about the variants of the model that reproduce them -/

/-- `(a:0,b:0,(c:0,d:0):0);` -/
def zeroT : T :=
  .node ⟨"", []⟩ 0 [(mkE 0 NIL 0, T.leaf "a"), (mkE 0 NIL 1, T.leaf "b"),
    (mkE 0 NIL 2, .node ⟨"", []⟩ 0 [(mkE 0 NIL 3, T.leaf "c"), (mkE 0 NIL 4, T.leaf "d")])]

/-- `((a:1,b:1)7/8:0,c:1,d:1);` -/
def f11T : T :=
  .node ⟨"", []⟩ 0 [(mkE 0 (7/8) 0, .node ⟨"", []⟩ 0 [(mkE 1 NIL 1, T.leaf "a"), (mkE 1 NIL 2, T.leaf "b")]),
    (mkE 1 NIL 3, T.leaf "c"), (mkE 1 NIL 4, T.leaf "d")]

/-- `((t3:9/8,t2:15/8)7/8:9/4,t0:0,t1:0);` -/
def farT : T :=
  .node ⟨"", []⟩ 0 [(mkE (9/4) (7/8) 0, .node ⟨"", []⟩ 0 [(mkE (9/8) NIL 1, T.leaf "t3"), (mkE (15/8) NIL 2, T.leaf "t2")]),
    (mkE 0 NIL 3, T.leaf "t0"), (mkE 0 NIL 4, T.leaf "t1")]

/-- lengths and supports of the root branches of a result -/
def rootEdges (r : Res T) : List (Rat × Rat) :=
  match r with
  | .ok u => u.kids.map (fun k => (k.1.len, k.1.sup))
  | _ => []

/-- a Boolean test of a successful result -/
def okAnd (r : Res T) (f : T → Bool) : Bool :=
  match r with
  | .ok u => f u
  | _ => false

/-- F10 (before 87d290a): midpoint rooting of an all-zero tree indexes `potentialedges[-1]`;
    the repaired code reports an error. -/
theorem midpoint_allzero_pinned_fails :
    (rerootMidPointPinned zeroT).cls = "panic" ∧ (rerootMidPoint zeroT).cls = "err" := by decide +kernel

/-- F11 (before 7c83b91): on a zero-length separating branch the two root branches lost the
    length (absent instead of 0) and the support; the repaired code keeps both. -/
theorem outgroup_zerocut_pinned_fails :
    rootEdges (rerootOutGroupPinned false false ["a", "b"] f11T) = [(NIL, NIL), (NIL, NIL)] ∧
    rootEdges (rerootOutGroup false false ["a", "b"] f11T) = [(0, 7/8), (0, 7/8)] := by decide +kernel

/-- `MidpointZeroLengthFarEnd` (before 23d32a8): when the longest path stops at an inner node
    reached towards the root, the walk started from the wrong end of its first branch: the root
    is not halfway (63/16 and 3/16 from the two ends of the longest path, of length 33/8); the
    repaired code puts it at 33/16 from both. -/
theorem midpoint_farend_pinned_fails :
    okAnd (rerootMidPointFarEndPinned farT) (fun u =>
      !halfwayOK farT u && u.rootDist "t2" == 63/16 && u.rootDist "t0" == 3/16) = true ∧
    okAnd (rerootMidPoint farT) (fun u =>
      halfwayOK farT u && u.rootDist "t2" == 33/16 && u.rootDist "t0" == 33/16 && u.dist "t2" "t0" == 33/8) = true ∧
    diam farT = 33/8 := by decide +kernel

/-! ## The derived indexes after a history of operations (round 7)

`Reroot`, `UnRoot`, `RerootOutGroup`, `RerootMidPoint` end by recomputing the tip index and / or the
bitsets of all branches from the tree (`UpdateTipIndex`, `ClearBitSets`, `UpdateBitSet`), so the indexes
after a history `runSteps` are `indexOf` of the resulting tree. -/

/-- `UpdateBitSet` / `fillRightBitSet`: in `Edges()` order every branch receives exactly the numbers of
    the tips below it, whatever the numbering. -/
theorem index_bitsets_are_splits (tid : String → Nat) (t : T) :
    bitsets tid t = t.splits.map (fun s => s.below.map tid) := bitsets_eq tid t

/-- `UpdateTipIndex` (sorted tips, `tipid = i`): a tip is numbered by the number of tip names strictly
    smaller than its own. -/
theorem index_tipid_is_rank (t : T) (x : String) (hx : x ∈ t.tipNames) :
    idxOfName x (sortNames t.tipNames) = tipRank t.tipNames x := tipid_rank _ x hx

/-- Whatever the history, the indexes the model recomputes at its end satisfy the Spec predicate the
    oracle evaluates on the implementation's indexes (`indexOK`): the index counts the tips of the
    resulting tree, numbers each by its rank, and every branch carries the bitset of the tips below it. -/
theorem index_after_history (steps : List Step) (t u : T) (_h : (runSteps steps t).2 = .ok u) :
    indexOK u (indexOf u).nb ((indexOf u).ids.map Int.ofNat) ((indexOf u).bits.map some) [] = true :=
  indexOK_indexOf u

/-- a history of three steps on `exT` (reroot below the first root child, outgroup rooting with removal,
    midpoint): it succeeds, two tips are gone, and the bitsets are those of the three tips left -/
example : (match (runSteps [.reroot [0], .outgroup true false ["D", "E"], .midpoint] exT).2 with
    | .ok u => (indexOf u).nb == 3 && (indexOf u).ids.length == 3 && (indexOf u).bits.length == u.splits.length
    | _ => false) = true := by decide +kernel

/-- `history_preserves`: any history of root moves and reorderings on one tree — `Reroot` at any node of the
    tree as it is then, `UnRoot`, `RerootOutGroup` without removal (strict or not, any outgroup),
    `RerootMidPoint`, `SortNeighborsByTips`, `RerootFirst`, `RotateInternalNodes` with any draws —, when every
    step succeeds, preserves the tip set, the unrooted splits with lengths and supports and every tip-to-tip
    distance.  `historyOK` (evaluated by the driver, tag `hyp-historyok`): no step removes tips and the tree
    before every step has lengths and supports absent or non-negative. -/
theorem history_preserves (steps : List Step) (t u : T) (hu : uniq t = true) (hh : historyOK steps t = true)
    (h : (runSteps steps t).2 = .ok u) :
    u.tipNames.Perm t.tipNames ∧ u.usplits.Perm t.usplits ∧ u.tipLens.Perm t.tipLens ∧
    ∀ a b, a ∈ t.tipNames → b ∈ t.tipNames → u.dist a b = t.dist a b :=
  (history_same steps t u hh ((uniq_iff t).1 hu) h).spec

example : historyOK [.reroot [0], .outgroup false false ["D", "E"], .midpoint, .unroot, .sort] exT = true ∧
    (runSteps [.reroot [0], .outgroup false false ["D", "E"], .midpoint, .unroot, .sort] exT).1 = 5 := by decide +kernel

end Gotree.C05.P
