/-
  C12 — the same character coded over two alphabets (ACR: the sorted list of the states that
  occur; ASR: the fixed list A C G T - *): re-coding the states by an injection `ι` changes
  neither the minimum nor which states are optimal.
-/
import Gotree.Lemmas.C12UnambDown

namespace Gotree.C12
open Gotree

mutual
def LT.map (f : Nat → Nat) : LT → LT
  | .node s ks => .node (f s) (LT.mapL f ks)
def LT.mapL (f : Nat → Nat) : List LT → List LT
  | [] => []
  | l :: r => LT.map f l :: LT.mapL f r
end

@[simp] theorem LT.map_s (f : Nat → Nat) : ∀ l : LT, (l.map f).s = f l.s
  | .node s ks => by simp [LT.map]

mutual
theorem LT.changes_map_le (f : Nat → Nat) : ∀ l : LT, (l.map f).changes ≤ l.changes
  | .node s ks => by
    simp only [LT.map, LT.changes]
    exact LT.changesL_map_le f s ks
theorem LT.changesL_map_le (f : Nat → Nat) (s : Nat) : ∀ ls : List LT,
    LT.changesL (f s) (LT.mapL f ls) ≤ LT.changesL s ls
  | [] => by simp [LT.mapL, LT.changesL]
  | l :: r => by
    have h1 := LT.changes_map_le f l
    have h2 := LT.changesL_map_le f s r
    simp only [LT.mapL, LT.changesL, LT.map_s]
    by_cases h : l.s = s
    · simp [h]; omega
    · simp only [h, if_false]
      split <;> omega
end

mutual
theorem LT.get_map (f : Nat → Nat) : ∀ (l : LT) (p : List Nat), (l.map f).get p = (l.get p).map f
  | .node s ks, [] => by simp [LT.map, LT.get]
  | .node s ks, i :: p => by simp only [LT.map, LT.get]; exact LT.getL_map f ks i p
theorem LT.getL_map (f : Nat → Nat) : ∀ (ls : List LT) (i : Nat) (p : List Nat),
    LT.getL (LT.mapL f ls) i p = (LT.getL ls i p).map f
  | [], _, _ => by simp [LT.mapL, LT.getL]
  | l :: r, 0, p => by simp only [LT.mapL, LT.getL]; exact LT.get_map f l p
  | l :: r, i + 1, p => by simp only [LT.mapL, LT.getL]; exact LT.getL_map f r i p
end

section embed
variable (k1 k2 : Nat) (tv1 tv2 : String → Vec) (f : Nat → Nat)

/-- `f` sends states `< k1` to states `< k2` and tip states of the first coding to tip states of
    the second -/
abbrev TipMap (n : String) : Prop := ∀ s, s < k1 → (tv1 n).at s ≠ 0 → (tv2 n).at (f s) ≠ 0

theorem fits_map_list (hf : ∀ s, s < k1 → f s < k2) : ∀ (ks : Kids),
    (∀ et ∈ ks, ∀ l, (∀ n ∈ et.2.leaves, TipMap k1 tv1 tv2 f n) → fits k1 tv1 et.2 l = true →
      fits k2 tv2 et.2 (l.map f) = true) →
    (∀ n ∈ leavesL ks, TipMap k1 tv1 tv2 f n) →
    ∀ ls, fitsL k1 tv1 ks ls = true → fitsL k2 tv2 ks (LT.mapL f ls) = true
  | [], _, _, [], _ => by simp [LT.mapL, fitsL]
  | [], _, _, _ :: _, h => by simp [fitsL] at h
  | _ :: _, _, _, [], h => by simp [fitsL] at h
  | (e, c) :: r, ih, hl, l :: lr, h => by
    simp only [fitsL, Bool.and_eq_true] at h
    simp only [LT.mapL, fitsL, Bool.and_eq_true]
    exact ⟨ih (e, c) (List.mem_cons_self ..) l
        (fun n hn => hl n (by simp only [leavesL, List.mem_append]; exact Or.inl hn)) h.1,
      fits_map_list hf r (fun et het => ih et (List.mem_cons_of_mem _ het))
        (fun n hn => hl n (by simp only [leavesL, List.mem_append]; exact Or.inr hn)) lr h.2⟩

theorem fits_map (hf : ∀ s, s < k1 → f s < k2) : ∀ (c : T) (l : LT),
    (∀ n ∈ c.leaves, TipMap k1 tv1 tv2 f n) → fits k1 tv1 c l = true → fits k2 tv2 c (l.map f) = true := by
  intro c
  induction c using T.induct with
  | h d pp ks ih =>
    intro l hl h
    match ks, ih, l, hl, h with
    | [], _, .node s ls, hl, h =>
      simp only [fits, Bool.and_eq_true, decide_eq_true_eq, List.isEmpty_iff] at h
      obtain ⟨⟨hls, hs⟩, hne⟩ := h
      subst hls
      simp only [LT.map, LT.mapL, fits, List.isEmpty_nil, Bool.true_and, Bool.and_eq_true, decide_eq_true_eq]
      exact ⟨hf s hs, hl d.name (by simp [T.leaves]) s hs hne⟩
    | x :: xs, ih, .node s ls, hl, h =>
      rw [leaves_node_cons] at hl
      simp only [fits, Bool.and_eq_true, decide_eq_true_eq] at h
      simp only [LT.map, fits, Bool.and_eq_true, decide_eq_true_eq]
      exact ⟨hf s h.1, fits_map_list k1 k2 tv1 tv2 f hf (x :: xs) ih hl ls h.2⟩

/-- the minimum of the second coding is at most that of the first -/
theorem minCost_le_of_map (hk1 : 0 < k1) (hf : ∀ s, s < k1 → f s < k2) (t : T) (hne : t.kids ≠ [])
    (hl : ∀ n ∈ leavesL t.kids, TipMap k1 tv1 tv2 f n)
    (hne1 : ∀ n ∈ leavesL t.kids, leafNonempty k1 tv1 n) :
    minCost k2 tv2 t ≤ minCost k1 tv1 t := by
  obtain ⟨l, hfit, hc⟩ := minCost_attained k1 tv1 hk1 t hne hne1
  have hl' : ∀ n ∈ t.leaves, TipMap k1 tv1 tv2 f n := by
    match t, hne, hl with
    | .node d p (x :: xs), _, hl => intro n hn; rw [leaves_node_cons] at hn; exact hl n hn
  have h2 := fits_map k1 k2 tv1 tv2 f hf t l hl' hfit
  have h3 := minCost_le k2 tv2 t hne (l.map f) h2
  have h4 := LT.changes_map_le f l
  omega

end embed

end Gotree.C12
