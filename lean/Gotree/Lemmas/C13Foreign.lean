/-
  C13 — the parts of the Nexus parser that only matter for documents gotree's writer does not emit:
  comments, commands and blocks it does not know are skipped.
-/
import Gotree.Lemmas.C13Nex

namespace Gotree.C13
open Gotree
open Nex

theorem skipComment_spec (c r : List Tok) (h : ∀ t ∈ c, t ≠ .closebrack) :
    skipComment (c ++ .closebrack :: r) = some r := by
  induction c with
  | nil => rfl
  | cons t c ih =>
    have ht := h t (by simp)
    have := ih (fun x hx => h x (by simp [hx]))
    cases t <;> first | (exact absurd rfl ht) | (simpa [skipComment] using this)

theorem skipCommand_spec (c r : List Tok) (h : ∀ t ∈ c, t ≠ .endcmd) :
    skipCommand (c ++ .endcmd :: r) = some r := by
  induction c with
  | nil => rfl
  | cons t c ih =>
    have ht := h t (by simp)
    have := ih (fun x hx => h x (by simp [hx]))
    cases t <;> first | (exact absurd rfl ht) | (simpa [skipCommand] using this)

/-- a comment between the commands of a TREES block is skipped -/
theorem parseTrees_comment (f : Nat) (c r : List Tok) (a : TreesAcc) (h : ∀ t ∈ c, t ≠ .closebrack) :
    parseTrees (f + 1) (.openbrack :: (c ++ .closebrack :: r)) a = parseTrees f r a := by
  rw [parseTrees]
  simp only [skipComment_spec c r h]

/-- a comment between the commands of a TAXA block is skipped -/
theorem parseTaxa_comment (f : Nat) (c r : List Tok) (n : Int) (labs : List String) (h : ∀ t ∈ c, t ≠ .closebrack) :
    parseTaxa (f + 1) (.openbrack :: (c ++ .closebrack :: r)) n labs = parseTaxa f r n labs := by
  rw [parseTaxa]
  simp only [skipComment_spec c r h]

/-- a command the TREES block does not know (first token an identifier, e.g. `TITLE x;`) is skipped up
    to its `;` -/
theorem parseTrees_unknown_command (f : Nat) (w : String) (c r : List Tok) (a : TreesAcc) (h : ∀ t ∈ c, t ≠ .endcmd) :
    parseTrees (f + 1) (.ident w :: (c ++ .endcmd :: r)) a = parseTrees f r a := by
  rw [parseTrees]
  · simp only [skipCommand_spec c r h]
  all_goals (intros; simp_all)

theorem parseTaxa_unknown_command (f : Nat) (w : String) (c r : List Tok) (n : Int) (labs : List String)
    (h : ∀ t ∈ c, t ≠ .endcmd) :
    parseTaxa (f + 1) (.ident w :: (c ++ .endcmd :: r)) n labs = parseTaxa f r n labs := by
  rw [parseTaxa]
  · simp only [skipCommand_spec c r h]
  all_goals (intros; simp_all)

theorem skipBlock_spec (c r : List Tok) (h : ∀ t ∈ c, ∀ l, t ≠ .kw .end_ l) (w : String) :
    skipBlock (c ++ .kw .end_ w :: .endcmd :: r) = .ok r := by
  induction c with
  | nil => rfl
  | cons t c ih =>
    have ht := h t (by simp)
    have := ih (fun x hx => h x (by simp [hx]))
    cases t with
    | kw k l =>
      cases k <;> first | (exact absurd rfl (ht l)) | (simpa [skipBlock] using this)
    | _ => simpa [skipBlock] using this

/-- a block the parser does not know (`BEGIN name; … END;`, e.g. FigTree's) is skipped as a whole -/
theorem parseLoop_unknown_block (f : Nat) (b b' e : String) (c r : List Tok) (st : PState)
    (h : ∀ t ∈ c, ∀ l, t ≠ .kw .end_ l) :
    parseLoop (f + 1) (.kw .begin_ b :: .ident b' :: .endcmd :: (c ++ .kw .end_ e :: .endcmd :: r)) st =
      parseLoop f r st := by
  rw [parseLoop]
  simp only [skipBlock_spec c r h e]

/-- a TREES block (without translate table) inside any document: its trees are APPENDED to those of
    earlier blocks (fix 82a8873) -/
theorem parseLoop_trees_block (f : Nat) (b t e : String) (cs : List Cmd) (h : ∀ c ∈ cs, c.ok)
    (hf : 2 * cs.length + 2 ≤ f) (r : List Tok) (st : PState) :
    parseLoop (f + 1) (.kw .begin_ b :: .kw .trees t :: .endcmd :: .eol :: (cmdsToks cs ++ .kw .end_ e :: .endcmd :: r)) st =
      parseLoop f r { st with trees := some (st.trees.getD [] ++ cs.map fun c => (c.name, c.body)) } := by
  obtain ⟨g, rfl⟩ : ∃ g, f = g + 2 * cs.length + 2 := ⟨f - (2 * cs.length + 2), by omega⟩
  rw [parseLoop]
  simp only []
  have e1 : g + 2 * cs.length + 2 = ((g + 1) + 2 * cs.length) + 1 := by omega
  rw [e1, parseTrees, parseTrees_cmds cs h (g + 1), parseTrees]
  simp

/-- the same block for the parser BEFORE fix 82a8873: the trees of earlier blocks are overwritten -/
theorem parseLoopPinned_trees_block (f : Nat) (b t e : String) (cs : List Cmd) (h : ∀ c ∈ cs, c.ok)
    (hf : 2 * cs.length + 2 ≤ f) (r : List Tok) (st : PState) :
    parseLoopPinned (f + 1) (.kw .begin_ b :: .kw .trees t :: .endcmd :: .eol :: (cmdsToks cs ++ .kw .end_ e :: .endcmd :: r)) st =
      parseLoopPinned f r { st with trees := some (cs.map fun c => (c.name, c.body)) } := by
  obtain ⟨g, rfl⟩ : ∃ g, f = g + 2 * cs.length + 2 := ⟨f - (2 * cs.length + 2), by omega⟩
  rw [parseLoopPinned]
  simp only []
  have e1 : g + 2 * cs.length + 2 = ((g + 1) + 2 * cs.length) + 1 := by omega
  rw [e1, parseTrees, parseTrees_cmds cs h (g + 1), parseTrees]
  simp

theorem parseTranslCom_spec (c r : List Tok) (m : List (String × String)) (h : ∀ t ∈ c, t ≠ .closebrack) :
    parseTranslCom (c ++ .closebrack :: r) m = parseTransl r m := by
  induction c with
  | nil => simp [parseTranslCom]
  | cons t c ih =>
    have ht := h t (by simp)
    have := ih (fun x hx => h x (by simp [hx]))
    cases t <;> first | (exact absurd rfl ht) | (simpa [parseTranslCom] using this)

/-- a comment where an entry of the TRANSLATE command could start is skipped -/
theorem parseTransl_comment (c r : List Tok) (m : List (String × String)) (h : ∀ t ∈ c, t ≠ .closebrack) :
    parseTransl (.openbrack :: (c ++ .closebrack :: r)) m = parseTransl r m := by
  rw [parseTransl, parseTranslCom_spec c r m h]

end Gotree.C13
