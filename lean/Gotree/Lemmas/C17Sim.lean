/-
  C17 — what `Apply` preserves: a relation between the subtree at a site before and
  after, and its lifting through the context (the path from the root to the site).
-/
import Gotree.Model.C17
import Gotree.Lemmas.C17
import Gotree.Spec.Splits

namespace Gotree.C17
open Gotree

/-- evaluate `applyLocal`/`undoLocal` on a concrete slot configuration -/
macro "eval_local" "at" h:ident : tactic => `(tactic|
  simp [applyLocal, undoLocal, extract, applyH, undoH, rebuild, slots3, newNNI, lab1, lab2, rot1, rot2,
    Tri.get, Tri.set, Tri.idx, kidsOf, upIdx, Heap.oriented, Heap.topIs1, Heap.outer, Outer.isUp] at $h:ident)

/-- permutation of two explicit concatenations of the same blocks -/
macro "perm_blocks" : tactic => `(tactic|
  (rw [List.perm_iff_count]; intro a; simp only [List.count_cons, List.count_append, List.count_nil]; omega))

/-- the relation between a node before and after an NNI somewhere at or below it,
    in terms of its children -/
structure RK (S S' : T) : Prop where
  nkids : S'.kids.length = S.kids.length
  data : S.kids.length ≤ 1 → S'.d = S.d
  leaves : (leavesL S'.kids).Perm (leavesL S.kids)
  bin : binaryL S.kids = true → binaryL S'.kids = true
  ppos : pposOKL S.kids = true → pposOKL S'.kids = true
  pp : S.ppos ≤ S.kids.length → S'.ppos ≤ S'.kids.length

theorem leaves_eq (t : T) : t.leaves = if t.kids = [] then [t.name] else leavesL t.kids := by
  obtain ⟨d, p, k⟩ := t
  cases k with
  | nil => simp [T.leaves, T.name]
  | cons x xs => simp [T.leaves]

/-- … and as a whole subtree (what the parent sees) -/
theorem RK.leaves_perm {S S' : T} (h : RK S S') : S'.leaves.Perm S.leaves := by
  rw [leaves_eq, leaves_eq]
  have hn := h.nkids
  by_cases hk : S.kids = []
  · have hk' : S'.kids = [] := by
      apply List.eq_nil_of_length_eq_zero
      rw [hn, hk]; rfl
    have hd := h.data (by simp [hk])
    simp [hk, hk', T.name, hd]
  · have hk' : S'.kids ≠ [] := by
      intro h0
      apply hk
      apply List.eq_nil_of_length_eq_zero
      rw [← hn, h0]; rfl
    simpa [hk, hk'] using h.leaves

theorem RK.isLeaf_eq {S S' : T} (h : RK S S') : S'.isLeaf = S.isLeaf := by
  have hn := h.nkids
  obtain ⟨d, p, k⟩ := S
  obtain ⟨d', p', k'⟩ := S'
  simp only [T.kids_node] at hn
  cases k <;> cases k' <;> simp_all [T.isLeaf]

theorem RK.binaryBelow {S S' : T} (h : RK S S') (hb : S.binaryBelow = true) : S'.binaryBelow = true := by
  obtain ⟨d, p, k⟩ := S
  obtain ⟨d', p', k'⟩ := S'
  have hn := h.nkids
  simp only [T.kids_node] at hn
  simp only [T.binaryBelow, Bool.and_eq_true] at hb ⊢
  exact ⟨by rw [hn]; exact hb.1, h.bin hb.2⟩

theorem RK.pposOKBelow {S S' : T} (h : RK S S') (hb : pposOKBelow S = true) : pposOKBelow S' = true := by
  obtain ⟨d, p, k⟩ := S
  obtain ⟨d', p', k'⟩ := S'
  simp only [C17.pposOKBelow, Bool.and_eq_true, decide_eq_true_eq] at hb ⊢
  exact ⟨h.pp hb.1, h.ppos hb.2⟩

/-- the tips of the whole tree (`Tree.Tips()` names, the root included when it is a tip) -/
theorem RK.tipNames_perm {t t' : T} (hk : RK t t') : t'.tipNames.Perm t.tipNames := by
  have hn := hk.nkids
  unfold T.tipNames
  rw [hn]
  by_cases h1 : t.kids.length = 1
  · have hd := hk.data (by omega)
    simp only [h1, beq_self_eq_true, if_true, T.name, hd]
    exact List.Perm.append_left _ hk.leaves
  · have : (t.kids.length == 1) = false := by simpa using h1
    simp only [this, Bool.false_eq_true, if_false, List.nil_append]
    exact hk.leaves

/- ## the context -/

theorem leavesL_set (c c' : T) (e : EdgeD) (hl : c'.leaves.Perm c.leaves) :
    ∀ (k : Kids) (i : Nat), k[i]? = some (e, c) → (leavesL (k.set i (e, c'))).Perm (leavesL k) := by
  intro k
  induction k with
  | nil => intro i h; simp at h
  | cons x xs ih =>
    intro i h
    cases i with
    | zero =>
      simp at h; subst h
      simp only [List.set_cons_zero, leavesL]
      exact List.Perm.append_right _ hl
    | succ i =>
      obtain ⟨ex, tx⟩ := x
      simp only [List.set_cons_succ, leavesL]
      exact List.Perm.append_left _ (ih i (by simpa using h))

theorem binaryL_set (c c' : T) (e : EdgeD) (hb : c.binaryBelow = true → c'.binaryBelow = true) :
    ∀ (k : Kids) (i : Nat), k[i]? = some (e, c) → binaryL k = true → binaryL (k.set i (e, c')) = true := by
  intro k
  induction k with
  | nil => intro i h; simp at h
  | cons x xs ih =>
    intro i h hk
    obtain ⟨ex, tx⟩ := x
    simp only [binaryL, Bool.and_eq_true] at hk
    cases i with
    | zero =>
      simp at h; obtain ⟨rfl, rfl⟩ := h
      simp only [List.set_cons_zero, binaryL, Bool.and_eq_true]
      exact ⟨hb hk.1, hk.2⟩
    | succ i =>
      simp only [List.set_cons_succ, binaryL, Bool.and_eq_true]
      exact ⟨hk.1, ih i (by simpa using h) hk.2⟩

theorem pposOKL_set (c c' : T) (e : EdgeD) (hb : pposOKBelow c = true → pposOKBelow c' = true) :
    ∀ (k : Kids) (i : Nat), k[i]? = some (e, c) → pposOKL k = true → pposOKL (k.set i (e, c')) = true := by
  intro k
  induction k with
  | nil => intro i h; simp at h
  | cons x xs ih =>
    intro i h hk
    obtain ⟨ex, tx⟩ := x
    simp only [pposOKL, Bool.and_eq_true] at hk
    cases i with
    | zero =>
      simp at h; obtain ⟨rfl, rfl⟩ := h
      simp only [List.set_cons_zero, pposOKL, Bool.and_eq_true]
      exact ⟨hb hk.1, hk.2⟩
    | succ i =>
      simp only [List.set_cons_succ, pposOKL, Bool.and_eq_true]
      exact ⟨hk.1, ih i (by simpa using h) hk.2⟩

/-- one step up: the parent of a changed child -/
theorem RK.up {c c' : T} (h : RK c c') (d : NodeD) (p : Nat) (k : Kids) (i : Nat) (e : EdgeD)
    (hk : k[i]? = some (e, c)) : RK (.node d p k) (.node d p (k.set i (e, c'))) where
  nkids := by simp
  data := fun _ => rfl
  leaves := leavesL_set c c' e h.leaves_perm k i hk
  bin := binaryL_set c c' e h.binaryBelow k i hk
  ppos := pposOKL_set c c' e h.pposOKBelow k i hk
  pp := by simp

/-- lifting along the path -/
theorem RK.lift (f : T → Option T) : ∀ (q : List Nat) (t t' S : T), subAt q t = some S →
    modAt q f t = some t' → (∀ S', f S = some S' → RK S S') → RK t t' := by
  intro q
  induction q with
  | nil =>
    intro t t' S hs hm hr
    simp only [subAt, Option.some.injEq] at hs
    subst hs
    exact hr t' (by simpa [modAt] using hm)
  | cons i q ih =>
    intro t t' S hs hm hr
    obtain ⟨d, pp, k⟩ := t
    simp only [subAt] at hs
    cases hki : k[i]? with
    | none => simp [hki] at hs
    | some ec =>
      obtain ⟨e, c⟩ := ec
      simp only [hki] at hs
      simp only [modAt, hki] at hm
      cases hmc : modAt q f c with
      | none => simp [hmc] at hm
      | some c' =>
        simp only [hmc, Option.some.injEq] at hm
        subst hm
        exact (ih c c' S hs hmc hr).up d pp k i e hki

/-- the local fact: at every site `Apply` relates the subtree before and after by `RK` -/
theorem local_RK {path : List Nat} {isRoot : Bool} {p1 : Nat} {k1 : Kids} {j : Nat}
    {e : EdgeD} {d2 : NodeD} {p2 : Nat} {u v : EdgeD × T} (d1 : NodeD) (cross : Bool)
    (s : Site path isRoot p1 k1 j e d2 p2 u v) :
    ∀ S', applyLocal isRoot (newNNI path isRoot p1 j p2 cross) (.node d1 p1 k1) = some S' →
      RK (.node d1 p1 k1) S' := by
  obtain ⟨eu, tu⟩ := u
  obtain ⟨ev, tv⟩ := v
  refine site_cases s (fun isRoot p1 k1 j p2 =>
    ∀ S', applyLocal isRoot (newNNI path isRoot p1 j p2 cross) (.node d1 p1 k1) = some S' →
      RK (.node d1 p1 k1) S') ?_ ?_
  · intro y z p1 hp2
    obtain ⟨ey, ty⟩ := y
    obtain ⟨ez, tz⟩ := z
    have h2 : p2 = 0 ∨ p2 = 1 ∨ p2 = 2 := by omega
    rcases h2 with rfl | rfl | rfl <;> cases cross <;>
      refine ⟨?_, ?_, ?_⟩ <;> intro S' hS' <;> eval_local at hS' <;> subst hS' <;>
      exact ⟨rfl, by simp, by simp only [T.kids_node, T.leaves, leavesL, List.append_nil]; perm_blocks,
        by simp [binaryL, T.binaryBelow] <;> (intros; simp_all), by simp [pposOKL, pposOKBelow] <;> (intros; simp_all), by simp⟩
  · intro y hp1 hp2
    obtain ⟨ey, ty⟩ := y
    have h1 : p1 = 0 ∨ p1 = 1 ∨ p1 = 2 := by omega
    have h2 : p2 = 0 ∨ p2 = 1 ∨ p2 = 2 := by omega
    rcases h1 with rfl | rfl | rfl <;> rcases h2 with rfl | rfl | rfl <;> cases cross <;>
      refine ⟨?_, ?_⟩ <;> intro S' hS' <;> eval_local at hS' <;> subst hS' <;>
      exact ⟨rfl, by simp, by simp only [T.kids_node, T.leaves, leavesL, List.append_nil]; perm_blocks,
        by simp [binaryL, T.binaryBelow] <;> (intros; simp_all), by simp [pposOKL, pposOKBelow] <;> (intros; simp_all), by simp⟩

end Gotree.C17
