import Driver.Proto
import Driver.C14

open Gotree Gotree.Driver

def dispatch (line : String) : Verdict :=
  match line.splitOn "\t" with
  | [] => bad "empty"
  | head :: fields =>
    match head.splitOn "." with
    | ["C14", op] => C14.handle op fields
    | _ => bad ("unknown request " ++ head)

partial def loop (h : IO.FS.Stream) (out : IO.FS.Stream) : IO Unit := do
  let line ← h.getLine
  if line.isEmpty then return ()
  let line := if line.back == '\n' then String.ofList line.toList.dropLast else line
  out.putStrLn (dispatch line).line
  loop h out

def main : IO Unit := do
  let i ← IO.getStdin
  let o ← IO.getStdout
  loop i o
  o.flush
