/-
  C09 — the float64 product of the threshold (Model/C09Float.lean): the repaired cut is the exact
  floor for every monotone rounding that fixes the integers; the witness collection of the defect.
-/
import Gotree.Lemmas.C09
import Gotree.Model.C09Float

namespace Gotree.C09
open Gotree

/-- The repaired cut is the exact floor for every rounding of the product that is monotone and
    leaves the integers where they are (round-to-nearest of float64 below 2^53 is such a rounding). -/
theorem fmaCutG_eq_floorCut (rnd : Rat → Rat) (hmono : ∀ a b : Rat, a ≤ b → rnd a ≤ rnd b)
    (hint : ∀ k : Int, rnd (k : Rat) = (k : Rat)) (c : Rat) (n : Nat) (hc : 0 ≤ c) :
    fmaCutG rnd c n = floorCut c n := by
  unfold fmaCutG floatCutG floorCut
  generalize hq : c * (n : Rat) = q
  have h0 : (0 : Rat) ≤ q := by rw [← hq]; exact Rat.mul_nonneg hc (by exact_mod_cast Nat.zero_le n)
  have hF0 : 0 ≤ q.floor := Rat.le_floor_iff.2 (by simpa using h0)
  have hFq : ((q.floor : Int) : Rat) ≤ q := Rat.le_floor_iff.1 (Int.le_refl _)
  have hqF : q < ((q.floor + 1 : Int) : Rat) := Rat.floor_lt_iff.1 (by omega)
  have h1 : q.floor ≤ (rnd q).floor := by
    apply Rat.le_floor_iff.2
    have := hmono _ _ hFq
    rwa [hint] at this
  have h2 : (rnd q).floor ≤ q.floor + 1 := by
    have : (rnd q).floor < q.floor + 2 := by
      apply Rat.floor_lt_iff.2
      have h := hmono _ _ (Rat.le_of_lt hqF)
      rw [hint] at h
      have : ((q.floor + 1 : Int) : Rat) < ((q.floor + 2 : Int) : Rat) := by exact_mod_cast (by omega : q.floor + 1 < q.floor + 2)
      grind
    omega
  have hM0 : 0 ≤ (rnd q).floor := by omega
  have hcast : (((rnd q).floor.toNat : Nat) : Rat) = (((rnd q).floor : Int) : Rat) := by
    have : (((rnd q).floor.toNat : Nat) : Int) = (rnd q).floor := Int.toNat_of_nonneg hM0
    exact_mod_cast this
  show (if q - (((rnd q).floor.toNat : Nat) : Rat) < 0 then (rnd q).floor.toNat - 1 else (rnd q).floor.toNat) = q.floor.toNat
  rw [hcast]
  by_cases hcase : (rnd q).floor = q.floor
  · rw [hcase]
    have : ¬ (q - ((q.floor : Int) : Rat) < 0) := by grind
    rw [if_neg this]
  · have hM : (rnd q).floor = q.floor + 1 := by omega
    rw [hM]
    have : q - ((q.floor + 1 : Int) : Rat) < 0 := by grind
    rw [if_pos this]
    omega
/-- `fl(2/3)`: the float64 nearest to 2/3, which is below 2/3 -/
def exFloatC : Rat := 6004799503160661/9007199254740992
/-- ab|cde is in two of the three trees: frequency 2/3 > `exFloatC` -/
def exFloat : List T :=
  [exRoot [exInner 1 [exTip "a" 1, exTip "b" 1], exTip "c" 1, exInner 1 [exTip "d" 1, exTip "e" 1]],
   exRoot [exInner 1 [exTip "a" 1, exTip "b" 1], exTip "c" 1, exInner 1 [exTip "d" 1, exTip "e" 1]],
   exRoot [exInner 1 [exTip "a" 1, exTip "c" 1], exTip "b" 1, exInner 1 [exTip "d" 1, exTip "e" 1]]]

theorem lengthsOK_whereDefined (ts : List T) (r : T) (h : C09S.lengthsOK ts r = true) :
    C09S.lengthsOKWhereDefined ts r = true := by
  unfold C09S.lengthsOKWhereDefined
  unfold C09S.lengthsOK at h
  rw [List.all_eq_true] at h ⊢
  intro u hu
  rw [h u hu, Bool.or_true]

end Gotree.C09
