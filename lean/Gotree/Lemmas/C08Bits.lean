/-
  C08 — the model the driver runs keys the `EdgeIndex` by bitsets compared with
  `eqOrCompl` (as the Go code does); the proofs work with the canonical side of the
  split.  This file shows the two models return the same records.  Core Lean only.
-/
import Gotree.Lemmas.C08Tree
import Gotree.Lemmas.C08W

namespace Gotree.C08
open Gotree List

/-! ## canonical sides: equal iff same or complementary sets -/

theorem canonSide_nodup (a A : List String) (hn : a.Nodup) (hA : A.Nodup) : (canonSide a A).Nodup := by
  unfold canonSide
  simp only
  have h1 : (sortS (A.filter a.contains)).Nodup :=
    (Canon.sortS_perm_self _).symm.nodup (hA.sublist filter_sublist)
  cases minS a with
  | none => exact h1
  | some m =>
    simp only
    split
    · exact (Canon.sortS_perm_self _).symm.nodup (hn.sublist filter_sublist)
    · exact h1

theorem canonSide_sorted (a A : List String) : (canonSide a A).Pairwise (fun x y => decide (x ≤ y) = true) := by
  unfold canonSide
  simp only
  cases minS a with
  | none => exact Canon.sortS_pairwise _
  | some m =>
    simp only
    split
    · exact Canon.sortS_pairwise _
    · exact Canon.sortS_pairwise _

/-- canonical sides with the same members are equal -/
theorem canonSide_ext (a A B : List String) (hn : a.Nodup) (hA : A.Nodup) (hB : B.Nodup)
    (h : ∀ x, x ∈ canonSide a A ↔ x ∈ canonSide a B) : canonSide a A = canonSide a B := by
  apply Perm.eq_of_pairwise (le := fun x y => decide (x ≤ y) = true) _ (canonSide_sorted a A) (canonSide_sorted a B)
  · exact (perm_ext_iff_of_nodup (canonSide_nodup a A hn hA) (canonSide_nodup a B hn hB)).mpr h
  · intro x y _ _ h1 h2
    simp only [decide_eq_true_eq] at h1 h2
    exact String.le_antisymm h1 h2

theorem canonSide_eq_iff (a A B : List String) (hn : a.Nodup) (hA : A.Nodup) (hB : B.Nodup) :
    canonSide a A = canonSide a B ↔ (∀ x ∈ a, (x ∈ A ↔ x ∈ B)) ∨ (∀ x ∈ a, (x ∈ A ↔ x ∉ B)) := by
  constructor
  · intro heq
    have hmem : ∀ x, x ∈ canonSide a A ↔ x ∈ canonSide a B := by intro x; rw [heq]
    by_cases hf : Canon.flipB a A = Canon.flipB a B
    · left
      intro x hx
      have := hmem x
      rw [Canon.mem_canonSide, Canon.mem_canonSide, hf] at this
      cases h2 : Canon.flipB a B with
      | false => simpa [h2, hx] using this
      | true =>
        have h3 : x ∉ A ↔ x ∉ B := by simpa [h2, hx] using this
        constructor
        · intro ha; exact Classical.byContradiction fun hb => (h3.mpr hb) ha
        · intro hb; exact Classical.byContradiction fun ha => (h3.mp ha) hb
    · right
      intro x hx
      have := hmem x
      rw [Canon.mem_canonSide, Canon.mem_canonSide] at this
      cases h1 : Canon.flipB a A <;> cases h2 : Canon.flipB a B
      · rw [h1, h2] at hf; exact absurd rfl hf
      · have h3 : x ∈ A ↔ x ∉ B := by simpa [h1, h2, hx] using this
        exact h3
      · have h3 : x ∉ A ↔ x ∈ B := by simpa [h1, h2, hx] using this
        constructor
        · intro ha hb; exact (h3.mpr hb) ha
        · intro hb; exact Classical.byContradiction fun ha => hb (h3.mp ha)
      · rw [h1, h2] at hf; exact absurd rfl hf
  · intro h
    apply canonSide_ext a A B hn hA hB
    intro x
    rw [Canon.mem_canonSide, Canon.mem_canonSide]
    unfold Canon.flipB
    cases hm : minS a with
    | none =>
      -- no taxon at all
      have : a = [] := by
        cases a with
        | nil => rfl
        | cons _ _ => simp [minS] at hm
      subst this
      simp
    | some m =>
      have hma : m ∈ a := (Canon.minS_spec hm).1
      simp only [contains_eq_mem]
      rcases h with h | h
      · have hmm := h m hma
        by_cases hx : x ∈ a
        · have hxx := h x hx
          by_cases c1 : m ∈ A
          · have c2 : m ∈ B := hmm.mp c1
            simp [c1, c2, hx, hxx]
          · have c2 : m ∉ B := fun hb => c1 (hmm.mpr hb)
            simp [c1, c2, hx, hxx]
        · simp [hx]
      · have hmm := h m hma
        by_cases hx : x ∈ a
        · have hxx := h x hx
          by_cases c1 : m ∈ A
          · have c2 : m ∉ B := hmm.mp c1
            simp [c1, c2, hx, hxx]
          · have c2 : m ∈ B := Classical.byContradiction fun hb => c1 (hmm.mpr hb)
            have hxx' : x ∈ B ↔ x ∉ A := by
              constructor
              · intro hb ha; exact (hxx.mp ha) hb
              · intro ha; exact Classical.byContradiction fun hb => ha (hxx.mpr hb)
            simp [c1, c2, hx, hxx']
        · simp [hx]

/-! ## bitsets: `eqOrCompl` of two keys is equality of the canonical sides -/

theorem mem_sortS' {l : List String} {x : String} : x ∈ sortS l ↔ x ∈ l := Canon.mem_sortS

theorem eqOrCompl_key (a a' : List String) (A B : SplitE) (hp : a ~ a') (hn : a.Nodup)
    (hA : A.below.Nodup) (hB : B.below.Nodup) :
    eqOrCompl (key a A) (key a' B) = (canonSide a A.below == canonSide a' B.below) := by
  rw [← Canon.canonSide_perm hp B.below]
  unfold key
  rw [← Canon.sortS_perm hp]
  rw [Bool.eq_iff_iff, beq_iff_eq, canonSide_eq_iff a A.below B.below hn hA hB]
  unfold eqOrCompl
  simp only [Bool.or_eq_true, Bool.and_eq_true, beq_iff_eq, length_map, true_and, map_map, map_inj_left,
    mem_sortS', Function.comp]
  constructor
  · rintro (h | h)
    · left; intro x hx
      have := h x hx
      rw [Bool.eq_iff_iff, contains_iff_mem, contains_iff_mem] at this
      exact this
    · right; intro x hx
      have := h x hx
      rw [Bool.eq_iff_iff, contains_iff_mem] at this
      simp only [Bool.not_eq_true', contains_eq_mem, decide_eq_false_iff_not] at this
      exact this
  · rintro (h | h)
    · left; intro x hx
      rw [Bool.eq_iff_iff, contains_iff_mem, contains_iff_mem]
      exact h x hx
    · right; intro x hx
      rw [Bool.eq_iff_iff, contains_iff_mem]
      simp only [Bool.not_eq_true', contains_eq_mem, decide_eq_false_iff_not]
      exact h x hx

/-! ## the two indexes run in lockstep -/

inductive Sim (ar : List String) : Index → Canon.Index → Prop
  | nil : Sim ar [] []
  | cons (s : SplitE) (v : Info) (hs : s.below.Nodup) {ixB : Index} {ixC : Canon.Index} :
      Sim ar ixB ixC → Sim ar ((key ar s, v) :: ixB) ((Canon.key ar s, v) :: ixC)

theorem sim_value {ar a' : List String} {ixB : Index} {ixC : Canon.Index} (h : Sim ar ixB ixC)
    (hp : ar ~ a') (hn : ar.Nodup) (e : SplitE) (he : e.below.Nodup) :
    value ixB (key a' e) = Canon.value ixC (Canon.key a' e) := by
  induction h with
  | nil => rfl
  | cons s v hs _ ih =>
    unfold value Canon.value at *
    simp only [find?_cons, lookup_cons]
    rw [eqOrCompl_key ar a' s e hp hn hs he]
    unfold Canon.key
    rw [BEq.comm (a := canonSide a' e.below)]
    cases canonSide ar s.below == canonSide a' e.below with
    | true => rfl
    | false => exact ih

theorem sim_put {ar : List String} {ixB : Index} {ixC : Canon.Index} (h : Sim ar ixB ixC)
    (hn : ar.Nodup) (s : SplitE) (hs : s.below.Nodup) (v : Info) :
    Sim ar (put (key ar s) v ixB) (Canon.put (Canon.key ar s) v ixC) := by
  induction h with
  | nil => exact Sim.cons s v hs Sim.nil
  | cons s0 v0 hs0 h0 ih =>
    unfold put Canon.put
    rw [eqOrCompl_key ar ar s0 s (Perm.refl _) hn hs0 hs]
    unfold Canon.key
    cases canonSide ar s0.below == canonSide ar s.below with
    | true => exact Sim.cons s0 v hs0 h0
    | false => exact Sim.cons s0 v0 hs0 ih

theorem sim_build {ar : List String} (hn : ar.Nodup) (l : List SplitE) (hl : ∀ s ∈ l, s.below.Nodup)
    (i : Nat) {ixB : Index} {ixC : Canon.Index} (h : Sim ar ixB ixC) :
    Sim ar (buildFrom ar l i ixB) (Canon.buildFrom ar l i ixC) := by
  induction l generalizing i ixB ixC with
  | nil => exact h
  | cons s r ih =>
    unfold buildFrom Canon.buildFrom
    exact ih (fun x hx => hl x (by simp [hx])) (i + 1) (sim_put h hn s (hl s (by simp)) _)

theorem sim_index {ar : List String} (hn : ar.Nodup) (l : List SplitE) (hl : ∀ s ∈ l, s.below.Nodup) :
    Sim ar (buildIndex ar l) (Canon.buildIndex ar l) :=
  sim_build hn l hl 0 Sim.nil

/-- the branches of a tree with unique tip names have duplicate-free sides -/
theorem below_nodup (t : T) (hn : t.tipNames.Nodup) : ∀ s ∈ t.splits, s.below.Nodup := by
  intro s hs
  have h1 : s.below <+ leavesL t.kids := Canon.splitsL_sub t.kids s hs
  have h2 : leavesL t.kids <+ t.tipNames := by unfold T.tipNames; exact sublist_append_right _ _
  exact (h1.trans h2).nodup hn

/-! ## the loops -/

theorem cmpLoop_eq (idxB : Index) (idxC : Canon.Index) (all : List String) (tips sc : Bool) (l : List SplitE)
    (h : ∀ e ∈ l, value idxB (key all e) = Canon.value idxC (Canon.key all e)) (st : LoopSt) :
    cmpLoop idxB all tips sc l st = Canon.cmpLoop idxC all tips sc l st := by
  induction l generalizing st with
  | nil => rfl
  | cons e r ih =>
    unfold cmpLoop Canon.cmpLoop
    rw [h e (by simp)]
    simp only [ih (fun x hx => h x (by simp [hx]))]

theorem wLoop1_eq (idxB : Index) (idxC : Canon.Index) (all : List String) (tips sc : Bool) (l : List SplitE)
    (h : ∀ e ∈ l, value idxB (key all e) = Canon.value idxC (Canon.key all e)) (same : Bool) :
    wLoop1 idxB all tips sc l same = Canon.wLoop1 idxC all tips sc l same := by
  induction l generalizing same with
  | nil => rfl
  | cons e r ih =>
    unfold wLoop1 Canon.wLoop1
    rw [h e (by simp)]
    simp only [ih (fun x hx => h x (by simp [hx]))]
    rfl

theorem wLoop2_eq (idxB : Index) (idxC : Canon.Index) (all : List String) (tips sc : Bool) (l : List SplitE)
    (h : ∀ e ∈ l, value idxB (key all e) = Canon.value idxC (Canon.key all e)) (same : Bool) :
    wLoop2 idxB all tips sc l same = Canon.wLoop2 idxC all tips sc l same := by
  induction l generalizing same with
  | nil => rfl
  | cons e r ih =>
    unfold wLoop2 Canon.wLoop2
    rw [h e (by simp)]
    simp only [ih (fun x hx => h x (by simp [hx]))]
    rfl

/-! ## the records -/

theorem nodup_of_reinitOk {t : T} (h : reinitOk t = true) : t.tipNames.Nodup := by
  unfold reinitOk at h
  simp only [Bool.and_eq_true] at h
  exact Canon.nodup_of_uniqueTips t h.1

theorem perm_of_compareTipIndexes {r c : T} (hr : reinitOk r = true) (hc : reinitOk c = true)
    (h : compareTipIndexes r.tipNames c.tipNames = true) : r.tipNames ~ c.tipNames := by
  unfold compareTipIndexes at h
  simp only [Bool.and_eq_true, beq_iff_eq, all_eq_true, contains_iff_mem] at h
  exact Canon.perm_of_subset_length (nodup_of_reinitOk hr) (nodup_of_reinitOk hc) h.2 h.1.2

/-- lookups of the branches of `c` in the index of `r` agree in the two models -/
theorem lookups_agree {r c : T} (hr : reinitOk r = true) (hc : reinitOk c = true)
    (hp : r.tipNames ~ c.tipNames) :
    ∀ e ∈ c.splits, value (buildIndex r.tipNames r.splits) (key c.tipNames e)
      = Canon.value (Canon.buildIndex r.tipNames r.splits) (Canon.key c.tipNames e) := by
  intro e he
  exact sim_value (sim_index (nodup_of_reinitOk hr) r.splits (below_nodup r (nodup_of_reinitOk hr)))
    hp (nodup_of_reinitOk hr) e (below_nodup c (nodup_of_reinitOk hc) e he)

/-- the model the driver runs (bitsets, `eqOrCompl`) and the model the proofs use
    (canonical sides) return the same record, for all inputs -/
theorem compare_eq (r c : T) (tips sc : Bool) : compare r c tips sc = Canon.compare r c tips sc := by
  unfold compare Canon.compare
  cases hr : reinitOk r <;> cases hc : reinitOk c <;>
    cases h3 : compareTipIndexes r.tipNames c.tipNames <;> simp
  have hp := perm_of_compareTipIndexes hr hc h3
  rw [cmpLoop_eq _ _ _ _ _ _ (lookups_agree hr hc hp)]
  simp

theorem comparePinned_eq (r c : T) (tips sc : Bool) :
    comparePinned r c tips sc = Canon.comparePinned r c tips sc := by
  unfold comparePinned Canon.comparePinned
  cases hr : reinitOk r <;> cases hc : reinitOk c <;>
    cases h3 : compareTipIndexes r.tipNames c.tipNames <;> simp
  have hp := perm_of_compareTipIndexes hr hc h3
  rw [cmpLoop_eq _ _ _ _ _ _ (lookups_agree hr hc hp)]
  simp

theorem compareWeighted_eq (r c : T) (tips sc : Bool) :
    compareWeighted r c tips sc = Canon.compareWeighted r c tips sc := by
  unfold compareWeighted Canon.compareWeighted
  cases hr : reinitOk r <;> cases hc : reinitOk c <;>
    cases h3 : compareTipIndexes r.tipNames c.tipNames <;> simp
  have hp := perm_of_compareTipIndexes hr hc h3
  rw [wLoop1_eq _ _ _ _ _ _ (lookups_agree hr hc hp)]
  simp only [wLoop2_eq _ _ _ _ _ _ (lookups_agree hc hr hp.symm)]
  simp

theorem findEdge_eq {r c : T} (hr : reinitOk r = true) (hc : reinitOk c = true) (hp : r.tipNames ~ c.tipNames)
    (e : SplitE) (he : e ∈ r.splits) :
    findEdge r.tipNames c.tipNames e c.splits = Canon.findEdge r.tipNames c.tipNames e c.splits := by
  unfold findEdge Canon.findEdge
  have hall : ∀ e2 ∈ c.splits, (e.tip == e2.tip && eqOrCompl (key r.tipNames e) (key c.tipNames e2))
      = (e.tip == e2.tip && Canon.key r.tipNames e == Canon.key c.tipNames e2) := by
    intro e2 he2
    rw [eqOrCompl_key _ _ e e2 hp (nodup_of_reinitOk hr) (below_nodup r (nodup_of_reinitOk hr) e he)
      (below_nodup c (nodup_of_reinitOk hc) e2 he2)]
    rfl
  rw [Bool.eq_iff_iff, any_eq_true, any_eq_true]
  constructor
  · rintro ⟨e2, h2, h⟩; exact ⟨e2, h2, by rw [← hall e2 h2]; exact h⟩
  · rintro ⟨e2, h2, h⟩; exact ⟨e2, h2, by rw [hall e2 h2]; exact h⟩

theorem commonLoop_eq (all1 all2 : List String) (tipEdges : Bool) (edges2 l : List SplitE)
    (h : ∀ e ∈ l, findEdge all1 all2 e edges2 = Canon.findEdge all1 all2 e edges2) (acc : Nat × Nat) :
    commonLoop all1 all2 tipEdges edges2 l acc = Canon.commonLoop all1 all2 tipEdges edges2 l acc := by
  induction l generalizing acc with
  | nil => rfl
  | cons e r ih =>
    obtain ⟨t1, co⟩ := acc
    unfold commonLoop Canon.commonLoop
    rw [h e (by simp)]
    simp only [ih (fun x hx => h x (by simp [hx]))]

/-- `CommonEdges` is specified for trees whose indexes are initialised -/
theorem commonEdges_eq (r c : T) (tips : Bool) (hr : reinitOk r = true) (hc : reinitOk c = true) :
    commonEdges r c tips = Canon.commonEdges r c tips := by
  unfold commonEdges Canon.commonEdges
  cases h3 : compareTipIndexes r.tipNames c.tipNames <;> simp
  have hp := perm_of_compareTipIndexes hr hc h3
  rw [commonLoop_eq _ _ _ _ _ (fun e he => findEdge_eq hr hc hp e he)]
  exact ⟨rfl, rfl⟩

end Gotree.C08
