/-
  C06 — the tips after the renaming edits of a history (`Model/C06Stale.lean`).
-/
import Gotree.Model.C06Stale
import Gotree.Spec.C06
import Gotree.Lemmas.C05Splits

namespace Gotree.C06
open Gotree

theorem length_mapLeafL (f : String → String) : ∀ k : Kids, (mapLeafL f k).length = k.length
  | [] => by simp [mapLeafL]
  | (e, t) :: r => by simp [mapLeafL, length_mapLeafL f r]

mutual
theorem leaves_mapLeaf (f : String → String) : ∀ t : T, (mapLeaf f t).leaves = t.leaves.map f
  | .node d p [] => by simp [mapLeaf, T.leaves_node]
  | .node d p (k :: ks) => by
    have h := leavesL_mapLeafL f (k :: ks)
    have hne : (mapLeafL f (k :: ks)).isEmpty = false := by
      cases k with
      | mk e t => simp [mapLeafL]
    simp [mapLeaf, T.leaves_node, h, hne]
theorem leavesL_mapLeafL (f : String → String) : ∀ k : Kids, leavesL (mapLeafL f k) = (leavesL k).map f
  | [] => by simp [mapLeafL, leavesL]
  | (e, t) :: r => by simp [mapLeafL, leavesL_cons, leaves_mapLeaf f t, leavesL_mapLeafL f r]
end

/-- `SetName` on the tips: the tip names are the old ones through `f`, in the same `Tips()` order -/
theorem tipNames_mapTips (f : String → String) (t : T) : (mapTips f t).tipNames = t.tipNames.map f := by
  match t with
  | .node d p [] => simp [mapTips, T.tipNames, mapLeafL, leavesL]
  | .node d p [k] =>
    simp [mapTips, T.tipNames, length_mapLeafL, leavesL_mapLeafL, T.name]
  | .node d p (k₁ :: k₂ :: r) =>
    simp [mapTips, T.tipNames, length_mapLeafL, leavesL_mapLeafL]

end Gotree.C06
