/-
  C06 — helper lemmas: what `rmNode` / `rmKids` (the recursive part of the
  model of `removeTip`) do to the leaves, to single-child nodes and to the
  split list.  Core Lean only.
-/
import Gotree.Spec.C06
import Gotree.Lemmas.C14

namespace Gotree.C06
open Gotree Gotree.C14

/-! ## basic facts -/

theorem leaves_node_ne (d : NodeD) (p : Nat) {k : Kids} (h : k ≠ []) :
    (T.node d p k).leaves = leavesL k := by
  cases k with
  | nil => exact absurd rfl h
  | cons a r => rfl

theorem leavesL_append (a b : Kids) : leavesL (a ++ b) = leavesL a ++ leavesL b := by
  induction a with
  | nil => rfl
  | cons et r ih => obtain ⟨e, t⟩ := et; simp [leavesL, ih]

theorem splitsL_append (a b : Kids) : splitsL (a ++ b) = splitsL a ++ splitsL b := by
  induction a with
  | nil => rfl
  | cons et r ih => obtain ⟨e, t⟩ := et; simp [splitsL, ih]

theorem leavesL_single (e : EdgeD) (c : T) : leavesL [(e, c)] = c.leaves := by
  simp [leavesL]

@[simp] theorem reattach_leaves (c : T) : (reattach c).leaves = c.leaves := by
  obtain ⟨d, p, k⟩ := c
  cases k <;> rfl

@[simp] theorem reattach_splitsBelow (c : T) : (reattach c).splitsBelow = c.splitsBelow := by
  obtain ⟨d, p, k⟩ := c; rfl

@[simp] theorem reattach_isLeaf (c : T) : (reattach c).isLeaf = c.isLeaf := by
  obtain ⟨d, p, k⟩ := c; rfl

@[simp] theorem reattach_kids (c : T) : (reattach c).kids = c.kids := by
  obtain ⟨d, p, k⟩ := c; rfl

theorem erase_eq_nil_of_mem {x : String} {l : List String} (hm : x ∈ l) (h : l.erase x = []) : l = [x] := by
  cases l with
  | nil => cases hm
  | cons a r =>
    by_cases hax : a = x
    · subst hax; simp at h; simp [h]
    · have : (a :: r).erase x = a :: r.erase x := by simp [hax]
      rw [this] at h; cases h

/-! ## leaves -/

/-- what an outcome says about the leaves `lv` of the node it is about -/
def OutLeaves (x : String) (lv : List String) : Out → Prop
  | .notFound => x ∉ lv
  | .repl t' => x ∈ lv ∧ t'.leaves.Perm (lv.erase x) ∧ t'.kids ≠ []
  | .gone => lv = [x]
  | .splice _ c => x ∈ lv ∧ c.leaves.Perm (lv.erase x)

def KOutLeaves (x : String) (lv : List String) : KOut → Prop
  | .notFound => x ∉ lv
  | .set ks => x ∈ lv ∧ (leavesL ks).Perm (lv.erase x) ∧ ks ≠ []
  | .del _ ks => x ∈ lv ∧ (leavesL ks).Perm (lv.erase x)
  | .spl _ ks _ _ c => x ∈ lv ∧ (leavesL ks ++ c.leaves).Perm (lv.erase x)

theorem finishNode_leaves (x : String) (d : NodeD) (p : Nat) (lv : List String) (ko : KOut)
    (h : KOutLeaves x lv ko) : OutLeaves x lv (finishNode d p ko) := by
  cases ko with
  | notFound => exact h
  | set ks =>
    obtain ⟨h1, h2, h3⟩ := h
    refine ⟨h1, ?_, h3⟩
    rw [leaves_node_ne d p h3]; exact h2
  | spl i ks ei e c =>
    obtain ⟨h1, h2⟩ := h
    refine ⟨h1, ?_, by simp⟩
    rw [leaves_node_ne _ _ (by simp), leavesL_append, leavesL_single]; exact h2
  | del i ks =>
    obtain ⟨h1, h2⟩ := h
    match ks, h2 with
    | [], h2 =>
      have : lv.erase x = [] := by simpa [leavesL] using h2.symm
      exact erase_eq_nil_of_mem h1 this
    | [(e, c)], h2 =>
      refine ⟨h1, ?_⟩
      simpa [finishNode, leavesL] using h2
    | a :: b :: r, h2 =>
      refine ⟨h1, ?_, by simp⟩
      show (T.node d (pposDel p i) (a :: b :: r)).leaves.Perm _
      rw [leaves_node_ne _ _ (by simp)]; exact h2

mutual
theorem rmNode_leaves (x : String) : ∀ t : T, OutLeaves x t.leaves (rmNode x t)
  | .node d p [] => by
    simp only [rmNode, T.leaves]
    by_cases h : d.name = x
    · simp [h, OutLeaves]
    · simp [h, OutLeaves]; exact fun h' => h h'.symm
  | .node d p (k :: ks) => by
    simp only [rmNode, T.leaves]
    exact finishNode_leaves x d p _ _ (rmKids_leaves x (k :: ks))
theorem rmKids_leaves (x : String) : ∀ k : Kids, KOutLeaves x (leavesL k) (rmKids x k)
  | [] => by simp [rmKids, KOutLeaves, leavesL]
  | (e, t) :: r => by
    have h1 := rmNode_leaves x t
    have h2 := rmKids_leaves x r
    simp only [rmKids, leavesL]
    cases hn : rmNode x t with
    | repl t' =>
      rw [hn] at h1; obtain ⟨a1, a2, a3⟩ := h1
      refine ⟨by simp [a1], ?_, by simp⟩
      rw [List.erase_append_left _ a1]
      simpa [leavesL] using a2.append_right (leavesL r)
    | gone =>
      rw [hn] at h1
      simp only [OutLeaves] at h1
      rw [h1]
      exact ⟨by simp, by simp⟩
    | splice e' c =>
      rw [hn] at h1; obtain ⟨a1, a2⟩ := h1
      refine ⟨by simp [a1], ?_⟩
      rw [List.erase_append_left _ a1]
      exact List.perm_append_comm.trans (a2.append_right (leavesL r))
    | notFound =>
      rw [hn] at h1
      simp only [OutLeaves] at h1
      cases hk : rmKids x r with
      | notFound =>
        rw [hk] at h2
        simp only [KOutLeaves] at h2 ⊢
        simp [h1, h2]
      | set ks' =>
        rw [hk] at h2; obtain ⟨a1, a2, a3⟩ := h2
        refine ⟨by simp [a1], ?_, by simp⟩
        rw [List.erase_append_right _ h1]
        simpa [leavesL] using a2.append_left t.leaves
      | del i ks' =>
        rw [hk] at h2; obtain ⟨a1, a2⟩ := h2
        refine ⟨by simp [a1], ?_⟩
        rw [List.erase_append_right _ h1]
        simpa [leavesL] using a2.append_left t.leaves
      | spl i ks' ei e' c =>
        rw [hk] at h2; obtain ⟨a1, a2⟩ := h2
        refine ⟨by simp [a1], ?_⟩
        rw [List.erase_append_right _ h1]
        simpa [leavesL, List.append_assoc] using a2.append_left t.leaves
end

/-! ## single-child nodes -/

@[simp] theorem reattach_noSingleBelow (c : T) : (reattach c).noSingleBelow = c.noSingleBelow := by
  obtain ⟨d, p, k⟩ := c; rfl

theorem noSingleL_append (a b : Kids) : noSingleL (a ++ b) = (noSingleL a && noSingleL b) := by
  induction a with
  | nil => simp [noSingleL]
  | cons et r ih => obtain ⟨e, t⟩ := et; simp [noSingleL, ih, Bool.and_assoc]

theorem noSingleL_single (e : EdgeD) (c : T) : noSingleL [(e, c)] = c.noSingleBelow := by
  simp [noSingleL]

def OutNS : Out → Prop
  | .notFound => True
  | .repl t' => t'.noSingleBelow = true
  | .gone => True
  | .splice _ c => c.noSingleBelow = true

/-- `n` = number of kids before -/
def KOutNS (n : Nat) : KOut → Prop
  | .notFound => True
  | .set ks => ks.length = n ∧ noSingleL ks = true
  | .del _ ks => ks.length + 1 = n ∧ noSingleL ks = true
  | .spl _ ks _ _ c => ks.length + 1 = n ∧ noSingleL ks = true ∧ c.noSingleBelow = true

theorem finishNode_ns (d : NodeD) (p n : Nat) (hn : n ≠ 1) (ko : KOut) (h : KOutNS n ko) :
    OutNS (finishNode d p ko) := by
  cases ko with
  | notFound => trivial
  | set ks =>
    obtain ⟨h1, h2⟩ := h
    show (T.node d p ks).noSingleBelow = true
    simp [T.noSingleBelow, h1, h2, hn]
  | spl i ks ei e c =>
    obtain ⟨h1, h2, h3⟩ := h
    show (T.node d (pposDel p i) (ks ++ [(fuseEdge ei e (!c.isLeaf), c)])).noSingleBelow = true
    simp [T.noSingleBelow, noSingleL_append, noSingleL_single, h1, h2, h3, hn]
  | del i ks =>
    obtain ⟨h1, h2⟩ := h
    match ks, h2 with
    | [], _ => trivial
    | [(e, c)], h2 =>
      show (reattach c).noSingleBelow = true
      simpa [noSingleL] using h2
    | a :: b :: r, h2 =>
      show (T.node d (pposDel p i) (a :: b :: r)).noSingleBelow = true
      simp [T.noSingleBelow, h2]

mutual
theorem rmNode_ns (x : String) : ∀ t : T, t.noSingleBelow = true → OutNS (rmNode x t)
  | .node d p [], _ => by
    simp only [rmNode]; split <;> trivial
  | .node d p (k :: ks), h => by
    simp only [rmNode]
    simp only [T.noSingleBelow, Bool.and_eq_true, bne_iff_ne, ne_eq] at h
    exact finishNode_ns d p _ h.1 _ (rmKids_ns x (k :: ks) h.2)
theorem rmKids_ns (x : String) : ∀ k : Kids, noSingleL k = true → KOutNS k.length (rmKids x k)
  | [], _ => by simp [rmKids, KOutNS]
  | (e, t) :: r, h => by
    simp only [noSingleL, Bool.and_eq_true] at h
    have h1 := rmNode_ns x t h.1
    have h2 := rmKids_ns x r h.2
    simp only [rmKids]
    cases hn : rmNode x t with
    | repl t' =>
      rw [hn] at h1
      exact ⟨rfl, by simp only [noSingleL, Bool.and_eq_true]; exact ⟨h1, h.2⟩⟩
    | gone => exact ⟨rfl, h.2⟩
    | splice e' c =>
      rw [hn] at h1
      exact ⟨rfl, h.2, h1⟩
    | notFound =>
      cases hk : rmKids x r with
      | notFound => trivial
      | set ks' =>
        rw [hk] at h2; obtain ⟨a1, a2⟩ := h2
        exact ⟨by simp [a1], by simp only [noSingleL, Bool.and_eq_true]; exact ⟨h.1, a2⟩⟩
      | del i ks' =>
        rw [hk] at h2; obtain ⟨a1, a2⟩ := h2
        exact ⟨by simp [← a1], by simp only [noSingleL, Bool.and_eq_true]; exact ⟨h.1, a2⟩⟩
      | spl i ks' ei e' c =>
        rw [hk] at h2; obtain ⟨a1, a2, a3⟩ := h2
        exact ⟨by simp [← a1], by simp only [noSingleL, Bool.and_eq_true]; exact ⟨h.1, a2⟩, a3⟩
end

/-! ## the root level: `removeTip` -/

theorem tipNames_of_ne1 (t : T) (h : t.kids.length ≠ 1) : t.tipNames = leavesL t.kids := by
  simp [T.tipNames, h]

theorem leaves_of_leaf (c : T) (h : c.kids = []) : c.leaves = [c.name] := by
  obtain ⟨d, p, k⟩ := c
  simp at h; subst h; rfl

theorem leaves_of_inner (c : T) (h : c.kids ≠ []) : c.leaves = leavesL c.kids := by
  obtain ⟨d, p, k⟩ := c
  exact leaves_node_ne d p h

theorem kids_of_noSingle_le1 (c : T) (h : c.noSingleBelow = true) (h1 : ¬ c.kids.length > 1) : c.kids = [] := by
  obtain ⟨d, p, k⟩ := c
  simp only [T.noSingleBelow, Bool.and_eq_true, bne_iff_ne, ne_eq] at h
  simp only [T.kids_node] at h1 ⊢
  match k, h, h1 with
  | [], _, _ => rfl
  | [_], h, _ => exact absurd rfl h.1
  | _ :: _ :: _, _, h1 => simp at h1

/-- One tip removed from a tree without single-child nodes whose root is not a
    tip, at least 3 tips remaining: the call succeeds, the tips are the others,
    no single-child node appears and the root is not a tip. -/
theorem removeTip_spec (x : String) (t : T) (hroot : t.kids.length ≠ 1) (hns : t.noSingle = true)
    (hcount : 4 ≤ t.tipNames.length) :
    ∃ t', removeTip x t = .ok t' ∧ t'.tipNames.Perm (t.tipNames.erase x) ∧ t'.noSingle = true ∧
      t'.kids.length ≠ 1 := by
  obtain ⟨d, p, kids⟩ := t
  simp only [T.kids_node] at hroot
  rw [tipNames_of_ne1 _ (by simpa using hroot)] at hcount ⊢
  simp only [T.kids_node, T.noSingle] at hcount hns ⊢
  have hl := rmKids_leaves x kids
  have hn := rmKids_ns x kids hns
  have hr1 : (kids.length == 1) = false := by simp [hroot]
  simp only [removeTip, hr1, Bool.false_and, Bool.false_eq_true, if_false]
  cases hk : rmKids x kids with
  | notFound =>
    rw [hk] at hl
    refine ⟨_, rfl, ?_, hns, hroot⟩
    rw [tipNames_of_ne1 _ (by simpa using hroot)]
    simp only [KOutLeaves] at hl
    simp [List.erase_of_not_mem hl]
  | set ks =>
    rw [hk] at hl hn
    obtain ⟨a1, a2, a3⟩ := hl
    obtain ⟨b1, b2⟩ := hn
    have hne : ks.length ≠ 1 := by rw [b1]; exact hroot
    refine ⟨_, rfl, ?_, b2, hne⟩
    rw [tipNames_of_ne1 _ (by simpa using hne)]; exact a2
  | spl i ks ei e c =>
    rw [hk] at hl hn
    obtain ⟨a1, a2⟩ := hl
    obtain ⟨b1, b2, b3⟩ := hn
    have hne : (ks ++ [(fuseEdge ei e (decide (ks.length + 1 > 1) && !c.isLeaf), c)]).length ≠ 1 := by
      simp [b1, hroot]
    refine ⟨_, rfl, ?_, ?_, hne⟩
    · rw [tipNames_of_ne1 _ (by simpa using hne)]
      simpa [leavesL_append, leavesL_single] using a2
    · simp [noSingleL_append, noSingleL_single, b2, b3]
  | del i ks =>
    rw [hk] at hl hn
    obtain ⟨a1, a2⟩ := hl
    obtain ⟨b1, b2⟩ := hn
    have hlen : 3 ≤ (leavesL ks).length := by
      rw [a2.length_eq, List.length_erase_of_mem a1]; omega
    match ks, a2, b1, b2, hlen with
    | [], _, _, _, hlen => simp [leavesL] at hlen
    | [(e, c)], a2, _, b2, hlen =>
      simp only [leavesL_single] at a2 hlen
      simp only [noSingleL, Bool.and_true] at b2
      have hc : c.kids ≠ [] := by
        intro h0; rw [leaves_of_leaf c h0] at hlen; simp at hlen
      have hc1 : c.kids.length ≠ 1 := by
        obtain ⟨d', p', k'⟩ := c
        simp only [T.noSingleBelow, Bool.and_eq_true, bne_iff_ne, ne_eq] at b2
        exact b2.1
      refine ⟨_, rfl, ?_, ?_, by simpa using hc1⟩
      · rw [tipNames_of_ne1 _ (by simpa using hc1)]
        simpa [leaves_of_inner c hc] using a2
      · obtain ⟨d', p', k'⟩ := c
        simp only [T.noSingleBelow, Bool.and_eq_true] at b2
        exact b2.2
    | [(e0, k0), (e1, k1)], a2, _, b2, hlen =>
      simp only [noSingleL, Bool.and_true, Bool.and_eq_true] at b2
      simp only [leavesL, List.append_nil] at a2 hlen
      by_cases h0 : k0.kids.length > 1
      · simp only [h0, if_true]
        have hk0 : k0.kids ≠ [] := by intro h; rw [h] at h0; simp at h0
        have hne : (k0.kids ++ [(fuseEdge e0 e1 (!k1.isLeaf), reattach k1)]).length ≠ 1 := by
          simp; omega
        refine ⟨_, rfl, ?_, ?_, hne⟩
        · rw [tipNames_of_ne1 _ (by simpa using hne)]
          simpa [leavesL_append, leavesL_single, ← leaves_of_inner k0 hk0] using a2
        · have := b2.1
          obtain ⟨d', p', k'⟩ := k0
          simp only [T.noSingleBelow, Bool.and_eq_true] at this
          simp [noSingleL_append, noSingleL_single, this.2, b2.2]
      · simp only [h0, if_false]
        by_cases h1 : k1.kids.length > 1
        · simp only [h1, if_true]
          have hk1 : k1.kids ≠ [] := by intro h; rw [h] at h1; simp at h1
          have hne : (k1.kids ++ [(fuseEdge e0 e1 (!k0.isLeaf), reattach k0)]).length ≠ 1 := by
            simp; omega
          refine ⟨_, rfl, ?_, ?_, hne⟩
          · rw [tipNames_of_ne1 _ (by simpa using hne)]
            have : (leavesL k1.kids ++ k0.leaves).Perm (k0.leaves ++ k1.leaves) := by
              rw [← leaves_of_inner k1 hk1]; exact List.perm_append_comm
            simpa [leavesL_append, leavesL_single] using this.trans a2
          · have := b2.2
            obtain ⟨d', p', k'⟩ := k1
            simp only [T.noSingleBelow, Bool.and_eq_true] at this
            simp [noSingleL_append, noSingleL_single, this.2, b2.1]
        · exfalso
          have e0' := kids_of_noSingle_le1 k0 b2.1 h0
          have e1' := kids_of_noSingle_le1 k1 b2.2 h1
          rw [leaves_of_leaf k0 e0', leaves_of_leaf k1 e1'] at hlen
          simp at hlen
    | a :: b :: c :: r, a2, _, b2, _ =>
      have hne : (a :: b :: c :: r).length ≠ 1 := by simp
      refine ⟨_, rfl, ?_, b2, hne⟩
      rw [tipNames_of_ne1 _ (by simpa using hne)]; exact a2

/-! ## the loop of `RemoveTips` -/

theorem hasDup_false_iff (l : List String) : hasDup l = false ↔ l.Nodup := by
  induction l with
  | nil => simp [hasDup]
  | cons a r ih => simp [hasDup, ih]

/-- the names flagged for removal in a work list -/
def flagged (l : List (String × Bool)) : List String := (l.filter (·.2)).map (·.1)

theorem flagged_workList (t : T) (S : List String) (rev : Bool) : flagged (workList t S rev) = toRemove t S rev := by
  unfold flagged workList toRemove
  induction t.tipNames with
  | nil => rfl
  | cons a r ih =>
    by_cases h : (S.contains a != rev) = true
    · simp only [List.map_cons, List.filter_cons, h, if_true, ih]
    · have h' : (S.contains a != rev) = false := by simpa using h
      simp only [List.map_cons, List.filter_cons, h', Bool.false_eq_true, if_false, ih]

theorem removeLoop_spec : ∀ (todo : List (String × Bool)) (t : T), t.kids.length ≠ 1 → t.noSingle = true →
    t.tipNames.Nodup → (todo.map (·.1)).Nodup → (∀ n ∈ todo.map (·.1), n ∈ t.tipNames) →
    3 + (flagged todo).length ≤ t.tipNames.length →
    ∃ t', removeLoop todo t = .ok t' ∧ t'.tipNames.Perm (t.tipNames.filter fun n => !(flagged todo).contains n) ∧
      t'.noSingle = true ∧ t'.kids.length ≠ 1 ∧ t'.tipNames.Nodup
  | [], t, hroot, hns, hnd, _, _, _ => by
    refine ⟨t, rfl, ?_, hns, hroot, hnd⟩
    have : (t.tipNames.filter fun _ => true) = t.tipNames := List.filter_eq_self.2 (by simp)
    simp [flagged, this]
  | (n, false) :: r, t, hroot, hns, hnd, htodo, hsub, hcount => by
    have hn : n ∈ t.tipNames := hsub n (by simp)
    have hf : flagged ((n, false) :: r) = flagged r := by simp [flagged]
    rw [hf] at hcount ⊢
    simp only [List.map_cons, List.nodup_cons] at htodo
    obtain ⟨t', g1, g2⟩ := removeLoop_spec r t hroot hns hnd htodo.2 (fun m hm => hsub m (by simp [hm])) hcount
    exact ⟨t', by simp [removeLoop, hn, g1], g2⟩
  | (n, true) :: r, t, hroot, hns, hnd, htodo, hsub, hcount => by
    have hn : n ∈ t.tipNames := hsub n (by simp)
    have hf : flagged ((n, true) :: r) = n :: flagged r := by simp [flagged]
    rw [hf] at hcount ⊢
    simp only [List.map_cons, List.nodup_cons] at htodo
    obtain ⟨t1, h1, h2, h3, h4⟩ := removeTip_spec n t hroot hns (by simp at hcount; omega)
    have hnd1 : t1.tipNames.Nodup := (h2.nodup_iff).2 (hnd.erase n)
    have hsub1 : ∀ m ∈ r.map (·.1), m ∈ t1.tipNames := by
      intro m hm
      have hmn : m ≠ n := by
        intro h; subst h; exact htodo.1 hm
      exact h2.mem_iff.2 ((List.mem_erase_of_ne hmn).2 (hsub m (by simp at hm ⊢; exact Or.inr hm)))
    have hc1 : 3 + (flagged r).length ≤ t1.tipNames.length := by
      rw [h2.length_eq, List.length_erase_of_mem hn]; simp at hcount; omega
    obtain ⟨t', g1, g2, g3, g4, g5⟩ := removeLoop_spec r t1 h4 h3 hnd1 htodo.2 hsub1 hc1
    refine ⟨t', ?_, ?_, g3, g4, g5⟩
    · simp [removeLoop, hn, h1, g1]
    · refine g2.trans ?_
      refine ((h2.filter _).trans ?_)
      rw [hnd.erase_eq_filter n, List.filter_filter]
      apply List.Perm.of_eq
      apply List.filter_congr
      intro m _
      by_cases hmn : m = n
      · subst hmn; simp
      · have : ¬ n = m := fun h => hmn h.symm
        simp [hmn, this]

theorem filter_length_compl (l : List String) (p : String → Bool) :
    (l.filter p).length + (l.filter fun n => !p n).length = l.length := by
  induction l with
  | nil => rfl
  | cons a r ih => by_cases h : p a <;> simp [h] <;> omega

end Gotree.C06
