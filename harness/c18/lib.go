package c18

import (
	"bufio"
	"fmt"
	"math/rand"
	"sort"
	"strconv"
	"strings"

	"verifharness/core"

	"github.com/evolbioinfo/goalign/align"
	"github.com/evolbioinfo/goalign/io/fasta"
	"github.com/evolbioinfo/gotree/acr"
	"github.com/evolbioinfo/gotree/asr"
	"github.com/evolbioinfo/gotree/io/newick"
	"github.com/evolbioinfo/gotree/io/nexus"
	"github.com/evolbioinfo/gotree/io/utils"
	"github.com/evolbioinfo/gotree/mutations"
	"github.com/evolbioinfo/gotree/tree"
)

func parseTree(s string) *tree.Tree {
	t, err := newick.NewParser(strings.NewReader(s)).Parse()
	if err != nil {
		panic(err)
	}
	return t
}

func tryParse(s string) (*tree.Tree, error) {
	return newick.NewParser(strings.NewReader(s)).Parse()
}

func parseAlign(s string) align.Alignment {
	a, err := fasta.NewParser(strings.NewReader(s)).Parse()
	if err != nil {
		panic(err)
	}
	return a
}

// Nexus text (TRANSLATE block) of a multi-Newick text, written by the library itself
func toNexus(multi string) string {
	ch := utils.ReadMultiTrees(bufio.NewReader(strings.NewReader(multi)), utils.FORMAT_NEWICK)
	s, err := nexus.WriteNexus(ch, true)
	if err != nil {
		return ""
	}
	return s
}

func parseMap(s string) map[string]string {
	m := map[string]string{}
	for _, l := range strings.Split(s, "\n") {
		c := strings.Split(l, "\t")
		if len(c) == 2 {
			m[c[0]] = c[1]
		}
	}
	return m
}

func sortedMap(m map[string]string) string {
	ks := make([]string, 0, len(m))
	for k := range m {
		ks = append(ks, k)
	}
	sort.Strings(ks)
	var b strings.Builder
	for _, k := range ks {
		fmt.Fprintf(&b, "%s=%s\n", k, m[k])
	}
	return b.String()
}

func algoOf(s string) int {
	switch s {
	case "deltran":
		return 0 // ALGO_DELTRAN
	case "acctran":
		return 1
	default:
		return 2
	}
}

func mutRecords(ml *mutations.MutationList, full bool) string {
	ks := make([]string, 0, len(ml.Mutations))
	for k := range ml.Mutations {
		ks = append(ks, k)
	}
	sort.Strings(ks)
	var b strings.Builder
	for _, k := range ks {
		m := ml.Mutations[k]
		if full {
			fmt.Fprintf(&b, "%s\t%d\t%d\t%s\t%c\t%c\t%d\t%d\t%d\n", k, m.AlignmentSite, m.BranchIndex, m.ChildNodeName, m.ParentCharacter, m.ChildCharacter, m.NumTips, m.NumTipsWithChildCharacter, m.NumEEM)
		} else {
			fmt.Fprintf(&b, "%s\t%d\t%c\t%c\t%d\n", k, m.AlignmentSite, m.ParentCharacter, m.ChildCharacter, m.NumEEM)
		}
	}
	return b.String()
}

// one in-process execution of a library template on freshly parsed inputs;
// the observation is canonical: anything returned as a Go map is printed sorted by key
func runLibOnce(c *core.Ctx, r *request) (out runOut) {
	out.mode = "lib"
	var b strings.Builder
	p, msg := core.Safe(func() {
		arg := func(i int) string {
			if i < len(r.args) {
				return r.args[i]
			}
			return ""
		}
		switch r.tpl {
		case "lib-asr":
			t := parseTree(r.files["tree"])
			a := parseAlign(r.files["align"])
			seed, _ := strconv.ParseInt(arg(2), 10, 64)
			rand.Seed(seed)
			steps, err := asr.ParsimonyAsr(t, a, algoOf(arg(0)), arg(1) == "random")
			fmt.Fprintf(&b, "%v %v\n%s\n", steps, err, t.Newick())
		case "lib-acr":
			t := parseTree(r.files["tree"])
			st := parseMap(r.files["states"])
			seed, _ := strconv.ParseInt(arg(2), 10, 64)
			rand.Seed(seed)
			m, steps, err := acr.ParsimonyAcr(t, st, algoOf(arg(0)), arg(1) == "random")
			fmt.Fprintf(&b, "%d %v\n%s%s\n", steps, err, sortedMap(m), t.Newick())
		case "lib-mutations":
			t := parseTree(r.files["tree"])
			a := parseAlign(r.files["align"])
			ml, err := mutations.CountMutations(t, a)
			fmt.Fprintf(&b, "%v\n", err)
			if err == nil {
				b.WriteString(mutRecords(ml, true))
			}
		case "lib-eems", "lib-eems-printed":
			t := parseTree(r.files["tree"])
			a := parseAlign(r.files["align"])
			ml, err := mutations.CountEEMs(t, a)
			fmt.Fprintf(&b, "%v\n", err)
			if err == nil {
				b.WriteString(mutRecords(ml, r.tpl == "lib-eems"))
			}
		case "lib-rename":
			t := parseTree(r.files["tree"])
			err := t.Rename(parseMap(r.files["map"]))
			fmt.Fprintf(&b, "%v\n%s\n", err, t.Newick())
		case "lib-renameauto":
			id := 1
			nm := map[string]string{}
			for _, l := range strings.Split(strings.TrimSpace(r.files["tree"]), "\n") {
				t := parseTree(l)
				err := t.RenameAuto(arg(0) == "internal", true, 6, &id, nm)
				fmt.Fprintf(&b, "%v\n%s\n", err, t.Newick())
			}
			b.WriteString(sortedMap(nm))
		case "lib-renameauto-short":
			// more tips than a 2-character id can number: the error text is the observation
			id := new(int)
			*id = 1
			t := parseTree(r.files["tree"])
			err := t.RenameAuto(false, true, 2, id, map[string]string{})
			fmt.Fprintf(&b, "%v\n", err)
		case "lib-renameregexp":
			t := parseTree(r.files["tree"])
			nm := map[string]string{}
			err := t.RenameRegexp(false, true, "t(\\d+)", "leaf$1", nm)
			fmt.Fprintf(&b, "%v\n%s\n%s", err, t.Newick(), sortedMap(nm))
		case "lib-nexus":
			ch := utils.ReadMultiTrees(bufio.NewReader(strings.NewReader(r.files["tree"])), utils.FORMAT_NEWICK)
			s, err := nexus.WriteNexus(ch, arg(0) == "translate")
			fmt.Fprintf(&b, "%v\n%s", err, s)
		case "lib-reroot-outgroup-nonmono":
			t := parseTree(r.files["tree"])
			err := t.RerootOutGroup(false, false, r.args...)
			fmt.Fprintf(&b, "%v\n%s\n", err, t.Newick())
			t2 := parseTree(r.files["tree"])
			n, edges, mono, err2 := t2.LeastCommonAncestorUnrooted(nil, r.args...)
			fmt.Fprintf(&b, "%v %v %d", err2, mono, len(edges))
			if n != nil {
				fmt.Fprintf(&b, " %s %d", n.Name(), n.Nneigh())
			}
			b.WriteString("\n")
		case "lib-tipbag":
			t := parseTree(r.files["tree"])
			tb := tree.NewTipBag()
			for _, n := range t.Tips() {
				tb.AddTip(n)
			}
			for _, n := range tb.Tips() {
				b.WriteString(n.Name() + "\n")
			}
		case "lib-tipindex":
			t := parseTree(r.files["tree"])
			t2 := parseTree(r.files["tree2"])
			err := t.UpdateTipIndex()
			fmt.Fprintf(&b, "%v\n", err)
			t2.UpdateTipIndex()
			for _, n := range t.AllTipNames() {
				i, e := t.TipIndex(n)
				fmt.Fprintf(&b, "%s %d %v\n", n, i, e)
			}
			for _, n := range t.SortedTips() {
				b.WriteString(n.Name() + " ")
			}
			fmt.Fprintf(&b, "\n%v\n%v\n", t.CompareTipIndexes(t2), t2.CompareTipIndexes(t))
			t3 := parseTree(r.files["tree"])
			t3.UpdateTipIndex()
			fmt.Fprintf(&b, "%v\n", t.CompareTipIndexes(t3))
		case "lib-merge":
			t := parseTree(r.files["tree"])
			t2 := parseTree(r.files["tree2"])
			t.ReinitIndexes()
			t2.ReinitIndexes()
			err := t.Merge(t2)
			fmt.Fprintf(&b, "%v\n%s\n", err, t.Newick())
			t3 := parseTree(r.files["tree"])
			t4 := parseTree(r.files["tree"])
			t3.ReinitIndexes()
			t4.ReinitIndexes()
			fmt.Fprintf(&b, "%v\n", t3.Merge(t4))
		default:
			panic("unknown library template " + r.tpl)
		}
	})
	if p {
		out.blob = "panic: " + msg + "\n"
		return
	}
	out.blob = b.String()
	return
}

func libTemplates(c *core.Ctx, in *inputs) []*request {
	seed := fmt.Sprint(in.seed)
	var out []*request
	add := func(name string, files map[string]string, args ...string) {
		out = append(out, &request{kind: "lib", tpl: name, args: args, files: files})
	}
	algo := []string{"acctran", "deltran", "downpass"}[c.G.Intn(3)]
	add("lib-asr", map[string]string{"tree": in.tree, "align": in.protein}, algo, "", seed)
	add("lib-asr", map[string]string{"tree": in.tree, "align": in.protein}, algo, "random", seed)
	add("lib-asr", map[string]string{"tree": in.rooted, "align": in.nucl}, algo, "", seed)
	add("lib-acr", map[string]string{"tree": in.tree, "states": in.states}, algo, "", seed)
	add("lib-acr", map[string]string{"tree": in.tree, "states": in.states}, algo, "random", seed)
	add("lib-acr", map[string]string{"tree": in.tree, "states": in.statesCI}, "downpass", "", seed)
	add("lib-mutations", map[string]string{"tree": in.named, "align": in.anc})
	add("lib-eems-printed", map[string]string{"tree": in.named, "align": in.anc})
	add("lib-eems", map[string]string{"tree": in.named, "align": in.anc})
	add("lib-renameauto-short", map[string]string{"tree": in.tree})
	add("lib-rename", map[string]string{"tree": in.tree, "map": in.mapfile})
	add("lib-rename", map[string]string{"tree": in.tree, "map": in.chainmap})
	add("lib-nexus", map[string]string{"tree": in.numeric}, "translate")
	add("lib-renameauto", map[string]string{"tree": in.multi}, "tips")
	add("lib-renameauto", map[string]string{"tree": in.named}, "internal")
	add("lib-renameregexp", map[string]string{"tree": in.tree})
	add("lib-nexus", map[string]string{"tree": in.multi}, "translate")
	add("lib-nexus", map[string]string{"tree": in.multi}, "")
	add("lib-tipbag", map[string]string{"tree": in.tree})
	for k := 0; k < 3; k++ {
		perm := c.G.R.Perm(len(in.tips))
		add("lib-reroot-outgroup-nonmono", map[string]string{"tree": in.named}, in.tips[perm[0]], in.tips[perm[1]], in.tips[perm[2]])
	}
	add("lib-tipindex", map[string]string{"tree": in.tree, "tree2": in.tree2})
	add("lib-merge", map[string]string{"tree": in.rooted, "tree2": in.rooted2})
	return out
}
