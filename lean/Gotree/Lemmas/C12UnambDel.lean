/-
  C12 — when DELTRAN reports exactly one state at every node, the labelling it spells out is
  most parsimonious.  Trace-back along every branch v → c with p = state of v, x = state of c:
  `f_c(x) + [x ≠ p] = g_c(p)` (x is an optimal completion of c's subtree given p).
-/
import Gotree.Lemmas.C12Sitewise

namespace Gotree.C12
open Gotree

section ud
variable (k : Nat) (tv : String → Vec)

/-- the local step: at an inner node `c` whose parent reports `{p}` (optimal for the parent's
    second-pass slice `totv`), the singleton `{x}` that DELTRAN reports satisfies
    `f_c(x) + [x ≠ p] = g_c(p)`, and `x` is optimal for `c`'s own second-pass slice -/
theorem del_step (hk : 0 < k) (d : NodeD) (pp : Nat) (y : EdgeD × T) (ys : Kids)
    (hl : ∀ n ∈ leavesL (y :: ys), leaf01 k tv n)
    (MIN : Nat) (pv totv R U D : Vec) (p x C : Nat)
    (hp : IsSingle k pv p) (hpv01 : Set01 k pv) (hD01 : Set01 k D)
    (htp : totv.at p = MIN) (hmin : ∀ t, t < k → MIN ≤ totv.at t)
    (hU : ∀ s, s < k → U.at s = (through k R).at s)
    (hR : ∀ t, t < k → R.at t + (gv k tv (.node d pp (y :: ys))).at t = totv.at t)
    (hD : ∀ s, s < k → (D.at s ≠ 0 ↔ ∀ t, t < k →
      (vadd k (fL k tv (y :: ys)) U).at s ≤ (vadd k (fL k tv (y :: ys)) U).at t))
    (hx : IsSingle k (inter k D pv) x) (_hC : C = C) :
    ((if x = p then 0 else 1) + (fL k tv (y :: ys)).at x = (gv k tv (.node d pp (y :: ys))).at p) ∧
    (vadd k (fL k tv (y :: ys)) U).at x = MIN ∧
    (∀ t, t < k → MIN ≤ (vadd k (fL k tv (y :: ys)) U).at t) := by
  have hlc : ∀ n ∈ (T.node d pp (y :: ys)).leaves, leaf01 k tv n := by
    intro n hn; rw [leaves_node_cons] at hn; exact hl n hn
  have hkey := key k tv hk (.node d pp (y :: ys)) hlc
  -- MIN bounds the child's slice from below (as in acc_step)
  have h4 : ∀ s, s < k → MIN ≤ (fL k tv (y :: ys)).at s + U.at s := by
    intro s hs
    rw [hU s hs]
    simp only [through, at_tab, hs, if_true]
    obtain ⟨t0, ht0, he0⟩ := minOver_attained k hk (fun t => R.at t + (if s = t then 0 else 1))
    rw [← he0]
    have hg : (gv k tv (.node d pp (y :: ys))).at t0 ≤ (fL k tv (y :: ys)).at s + (if t0 = s then 0 else 1) := by
      simp only [gv, through, at_tab, ht0, if_true]
      exact minOver_le k (fun t => (fL k tv (y :: ys)).at t + (if t0 = t then 0 else 1)) s hs
    have := hR t0 ht0
    have := hmin t0 ht0
    by_cases hst : s = t0
    · subst hst; simp at hg ⊢; omega
    · have : ¬ t0 = s := fun e => hst e.symm
      simp [hst, this] at hg ⊢; omega
  have hUle : ∀ s t, s < k → t < k → U.at s ≤ R.at t + (if s = t then 0 else 1) := by
    intro s t hs ht
    rw [hU s hs]
    simp only [through, at_tab, hs, if_true]
    exact minOver_le k (fun t => R.at t + (if s = t then 0 else 1)) t ht
  have htot : ∀ s, s < k → (vadd k (fL k tv (y :: ys)) U).at s = (fL k tv (y :: ys)).at s + U.at s := by
    intro s hs; simp only [at_vadd, hs, if_true]
  -- the minimiser of g_c(p) is optimal for the child's slice
  have hgp : (gv k tv (.node d pp (y :: ys))).at p =
      minOver k (fun t => (fL k tv (y :: ys)).at t + (if p = t then 0 else 1)) := by
    simp only [gv, through, at_tab, hp.1, if_true]
  obtain ⟨ts, hts, hes⟩ := minOver_attained k hk (fun t => (fL k tv (y :: ys)).at t + (if p = t then 0 else 1))
  have htsMin : (fL k tv (y :: ys)).at ts + U.at ts = MIN := by
    have h1 := hUle ts p hts hp.1
    have h2 := hR p hp.1
    have h3 := h4 ts hts
    rw [hgp, ← hes] at h2
    by_cases e : ts = p
    · subst e; simp at h1 h2; omega
    · have : ¬ p = ts := fun e' => e e'.symm
      simp [e, this] at h1 h2; omega
  have hDopt : ∀ s, s < k → (D.at s ≠ 0 ↔ (fL k tv (y :: ys)).at s + U.at s = MIN) := by
    intro s hs
    rw [hD s hs]
    constructor
    · intro h
      have := h ts hts
      rw [htot s hs, htot ts hts] at this
      have := h4 s hs
      omega
    · intro h t ht
      rw [htot s hs, htot t ht]
      have := h4 t ht
      omega
  have hxopt : (fL k tv (y :: ys)).at x + U.at x = MIN := by
    have hxat := (hx.2 x hx.1).mpr rfl
    have := inter_sub k D pv hpv01 x hx.1 hxat
    exact (hDopt x hx.1).mp this
  refine ⟨?_, by rw [htot x hx.1]; exact hxopt, fun t ht => by rw [htot t ht]; exact h4 t ht⟩
  rcases inter_cases k D pv with ⟨⟨i0, hi0, hgt0⟩, heq⟩ | ⟨hle, heq⟩
  · -- D contains p: x = p, and f_c(p) = g_c(p)
    have hi0p : i0 = p := by
      apply (hp.2 i0 hi0).mp
      have := hD01 i0 hi0; omega
    subst hi0p
    have hDp : D.at i0 ≠ 0 := by have := hpv01 i0 hi0; omega
    have hxp : x = i0 := by
      obtain ⟨h1, _⟩ := inter_single k D pv i0 hp hD01 hpv01 x hx
      exact h1 hDp
    subst hxp
    simp only [if_true, Nat.zero_add]
    -- ≥ : definition of g ; ≤ : through the parent
    have hge : (gv k tv (.node d pp (y :: ys))).at x ≤ (fL k tv (y :: ys)).at x := by
      rw [hgp]
      have := minOver_le k (fun t => (fL k tv (y :: ys)).at t + (if x = t then 0 else 1)) x hx.1
      simpa using this
    have hUx : U.at x = (through k R).at x := hU x hx.1
    simp only [through, at_tab, hx.1, if_true] at hUx
    obtain ⟨t1, ht1, he1⟩ := minOver_attained k hk (fun t => R.at t + (if x = t then 0 else 1))
    rw [← he1] at hUx
    have hR1 := hR t1 ht1
    have hRx := hR x hx.1
    have hm1 := hmin t1 ht1
    have hk1 := hkey t1 ht1
    have hkx := hkey x hx.1
    by_cases e : x = t1
    · subst e; simp at hUx; omega
    · simp [e] at hUx
      have a1 : (gv k tv (.node d pp (y :: ys))).at t1 ≤ upN k tv (.node d pp (y :: ys)) + 1 := by
        rw [hk1]; split <;> omega
      have a2 : upN k tv (.node d pp (y :: ys)) ≤ (gv k tv (.node d pp (y :: ys))).at x := by
        rw [hkx]; omega
      omega
  · -- D does not contain p: D = {x}, and the minimiser of g_c(p) is x
    rw [heq] at hx
    have hts' : ts = x := (hx.2 ts hts).mp ((hDopt ts hts).mpr htsMin)
    subst hts'
    rw [hgp, ← hes]
    by_cases e : ts = p
    · subst e; simp
    · have : ¬ p = ts := fun e' => e e'.symm
      simp [e, this]; omega

/-- the claim for a non-root subtree in its context -/
def QD (MIN : Nat) (c : T) : Prop :=
  ∀ (U u pv totv R : Vec) (p : Nat) (rest : List Nat) (C : Nat),
    Dual k C U u → IsSingle k pv p → Set01 k pv → totv.at p = MIN → (∀ t, t < k → MIN ≤ totv.at t) →
    (∀ s, s < k → U.at s = (through k R).at s) →
    (∀ t, t < k → R.at t + (gv k tv c).at t = totv.at t) →
    (∀ n ∈ c.leaves, leaf01 k tv n) →
    allSingle k (deltran k (some pv) (down k tv (some u) c)).flat = true →
    (labelOf c ((deltran k (some pv) (down k tv (some u) c)).flat.map (hd k) ++ rest)).2 = rest ∧
    fits k tv c (labelOf c ((deltran k (some pv) (down k tv (some u) c)).flat.map (hd k) ++ rest)).1 = true ∧
    (if (labelOf c ((deltran k (some pv) (down k tv (some u) c)).flat.map (hd k) ++ rest)).1.s = p then 0 else 1) +
      (labelOf c ((deltran k (some pv) (down k tv (some u) c)).flat.map (hd k) ++ rest)).1.changes = (gv k tv c).at p

theorem del_list (hk : 0 < k) (MIN : Nat) : ∀ (ks : Kids), (∀ et ∈ ks, QD k tv MIN et.2) →
    (∀ n ∈ leavesL ks, leaf01 k tv n) →
    ∀ (U : Vec) (us : Option Vec), UpInv k U us → ∀ (pre' pre : Vec) (Cp : Nat), Dual k Cp pre' pre →
    ∀ (S totc : Vec) (x : Nat), IsSingle k S x → Set01 k S → totc.at x = MIN → (∀ t, t < k → MIN ≤ totc.at t) →
    (∀ t, t < k → totc.at t = U.at t + pre'.at t + (fL k tv ks).at t) →
    ∀ (rest : List Nat), allSingle k (A.flatL (deltranL k (some S) (downL k tv us pre ks))) = true →
    (labelOfL ks ((A.flatL (deltranL k (some S) (downL k tv us pre ks))).map (hd k) ++ rest)).2 = rest ∧
    fitsL k tv ks (labelOfL ks ((A.flatL (deltranL k (some S) (downL k tv us pre ks))).map (hd k) ++ rest)).1 = true ∧
    LT.changesL x (labelOfL ks ((A.flatL (deltranL k (some S) (downL k tv us pre ks))).map (hd k) ++ rest)).1
      = (fL k tv ks).at x
  | [], _, _, _, _, _, _, _, _, _, _, _, _, hS, _, _, _, _, rest, _ => by
    simp [downL, deltranL, A.flatL, labelOfL, LT.changesL, fL, at_vzero, fitsL]
  | (e, c) :: r, ih, hl, U, us, hinv, pre', pre, Cp, hp, S, totc, x, hS, hS01, hx, hmin, hinvt, rest, hall => by
    have hlc : ∀ n ∈ c.leaves, leaf01 k tv n :=
      fun n hn => hl n (by simp only [leavesL, List.mem_append]; exact Or.inl hn)
    have hlr : ∀ n ∈ leavesL r, leaf01 k tv n :=
      fun n hn => hl n (by simp only [leavesL, List.mem_append]; exact Or.inr hn)
    have hfr := dual_fL k tv hk r hlr
    have hc := dual_child k tv hk c hlc
    have hp' : Dual k (Cp + (upN k tv c + 1)) (vadd k pre' (gv k tv c)) (vadd k pre (upS k tv c)) := by
      intro t ht
      have := hp t ht; have := hc t ht
      simp only [at_vadd, ht, if_true]; omega
    have hRc : ∀ t, t < k → (vadd k U (vadd k pre' (fL k tv r))).at t + (gv k tv c).at t = totc.at t := by
      intro t ht
      have := hinvt t ht
      simp only [fL, at_vadd, ht, if_true] at this ⊢
      omega
    have hinvt' : ∀ t, t < k → totc.at t = U.at t + (vadd k pre' (gv k tv c)).at t + (fL k tv r).at t := by
      intro t ht
      have := hinvt t ht
      simp only [fL, at_vadd, ht, if_true] at this ⊢
      omega
    match us, hinv, hall with
    | none, hinv, hall =>
      simp only [downL, deltranL, A.flatL, allSingle, List.all_append, Bool.and_eq_true] at hall
      have hC0 : Dual k (Cp + (upNL k tv r + r.length)) (vadd k U (vadd k pre' (fL k tv r)))
          (vadd k pre (sumL k tv r)) := by
        intro t ht
        have := hinv t ht; have := hp t ht; have := hfr t ht
        simp only [at_vadd, ht, if_true]; omega
      have hdu := dual_through k _ hk _ _ hC0
      have hcc := ih (e, c) (List.mem_cons_self ..) _ _ S totc (vadd k U (vadd k pre' (fL k tv r))) x
        ((A.flatL (deltranL k (some S) (downL k tv none (vadd k pre (upS k tv c)) r))).map (hd k) ++ rest) _
        hdu hS hS01 hx hmin (fun s _ => rfl) hRc hlc hall.1
      have hrr := del_list hk MIN r (fun et het => ih et (List.mem_cons_of_mem _ het)) hlr U none hinv _ _ _ hp'
        S totc x hS hS01 hx hmin hinvt' rest hall.2
      simp only [downL, deltranL, A.flatL, List.map_append, List.append_assoc, labelOfL]
      simp only [] at hcc
      rw [hcc.1]
      refine ⟨hrr.1, by simp only [fitsL, hcc.2.1, hrr.2.1, Bool.and_self], ?_⟩
      simp only [LT.changesL, fL, at_vadd, hS.1, if_true]
      have := hcc.2.2
      rw [hrr.2.2]
      omega
    | some u, ⟨C, hC⟩, hall =>
      simp only [downL, deltranL, A.flatL, allSingle, List.all_append, Bool.and_eq_true] at hall
      have hC0 : Dual k (C + (Cp + (upNL k tv r + r.length))) (vadd k U (vadd k pre' (fL k tv r)))
          (vadd k u (vadd k pre (sumL k tv r))) := by
        intro t ht
        have := hC t ht; have := hp t ht; have := hfr t ht
        simp only [at_vadd, ht, if_true]; omega
      have hdu := dual_through k _ hk _ _ hC0
      have hcc := ih (e, c) (List.mem_cons_self ..) _ _ S totc (vadd k U (vadd k pre' (fL k tv r))) x
        ((A.flatL (deltranL k (some S) (downL k tv (some u) (vadd k pre (upS k tv c)) r))).map (hd k) ++ rest) _
        hdu hS hS01 hx hmin (fun s _ => rfl) hRc hlc hall.1
      have hrr := del_list hk MIN r (fun et het => ih et (List.mem_cons_of_mem _ het)) hlr U (some u) ⟨C, hC⟩ _ _ _ hp'
        S totc x hS hS01 hx hmin hinvt' rest hall.2
      simp only [downL, deltranL, A.flatL, List.map_append, List.append_assoc, labelOfL]
      simp only [] at hcc
      rw [hcc.1]
      refine ⟨hrr.1, by simp only [fitsL, hcc.2.1, hrr.2.1, Bool.and_self], ?_⟩
      simp only [LT.changesL, fL, at_vadd, hS.1, if_true]
      have := hcc.2.2
      rw [hrr.2.2]
      omega

theorem del_tree (hk : 0 < k) (MIN : Nat) : ∀ c : T, QD k tv MIN c := by
  intro c
  induction c using T.induct with
  | h d pp ks ih =>
    intro U u pv totv R p rest C hdual hp hpv01 htp hmin hU hR hl hall
    match ks, ih, hR, hl, hall with
    | [], _, hR, hl, hall =>
      simp only [down, deltran, A.flat, A.flatL, allSingle, List.all_cons, List.all_nil, Bool.and_true,
        beq_iff_eq] at hall
      obtain ⟨h1, h2, h3⟩ := single_spec k _ hall
      simp only [down, deltran, A.flat, A.flatL, List.map_cons, List.map_nil, List.cons_append, List.nil_append,
        labelOf, labelOfL, List.headD_cons, List.drop_succ_cons, List.drop_zero, LT.s_node, LT.changes,
        LT.changesL, gv, at_tab, hp.1, if_true]
      refine ⟨trivial, by simp [fits, h1, h2], ?_⟩
      by_cases h0 : (tv d.name).at p = 0
      · have : ¬ hd k (tv d.name) = p := fun e => h2 (e ▸ h0)
        simp [h0, this]
      · have hph := h3 p hp.1 h0
        simp [h0, ← hph]
    | y :: ys, ih, hR, hl, hall =>
      rw [leaves_node_cons] at hl
      have hf := dual_fL k tv hk (y :: ys) hl
      have hdual' : Dual k (C + (upNL k tv (y :: ys) + (y :: ys).length))
          (vadd k (fL k tv (y :: ys)) U) (vadd k u (sumL k tv (y :: ys))) := by
        intro t ht
        have := hdual t ht; have := hf t ht
        simp only [at_vadd, ht, if_true]; omega
      have hD := fun s hs => dual_cp k _ hk _ _ hdual' s hs
      simp only [down, downL, deltran, A.flat, allSingle, List.all_cons, Bool.and_eq_true, beq_iff_eq] at hall
      obtain ⟨hS1, hrest⟩ := hall
      have hS := isSingle_of k _ hS1
      have hD01 : Set01 k (cp k (vadd k u (sumL k tv (y :: ys)))) := cp_01 k _
      have hS01 := inter_01 k _ pv hD01
      obtain ⟨hE, hxmin, hminc⟩ := del_step k tv hk d pp y ys hl MIN pv totv R U _ p _ 0 hp hpv01 hD01 htp hmin hU hR hD hS rfl
      have hlist := del_list k tv hk MIN (y :: ys) ih hl U (some u) ⟨C, hdual⟩ (vzero k) (vzero k) 0
        (by intro t _; simp [at_vzero]) _ _ _ hS hS01 hxmin hminc
        (by intro t ht; simp only [at_vadd, at_vzero, ht, if_true]; omega) rest
        (by simpa only [downL, allSingle] using hrest)
      simp only [down, downL, deltran, A.flat, List.map_cons, List.cons_append, labelOf, List.headD_cons,
        List.drop_succ_cons, List.drop_zero, LT.s_node, LT.changes]
      simp only [downL] at hlist
      refine ⟨hlist.1, by simp [fits, hS.1, hlist.2.1], ?_⟩
      rw [hlist.2.2]
      exact hE

end ud

end Gotree.C12
