/-
  C03 — the reference Newick reader of Spec/C03.lean re-reads what the writer model of C01
  (`Gotree.Newick.write`, the transliteration of Node.Newick / Tree.Newick) writes.
-/
import Gotree.Spec.C03Text

namespace Gotree.C03
open Gotree Gotree.Newick

/- ## character level -/

/-- the text that follows starts with a metacharacter (or is empty) -/
def MetaNext (rest : List Char) : Prop := ∀ c r, rest = c :: r → isMeta c = true

theorem takeWord_spec : ∀ (w rest acc : List Char), notMeta w = true → MetaNext rest →
    takeWord (w ++ rest) acc = (acc.reverse ++ w, rest)
  | [], [], acc, _, _ => by simp [takeWord]
  | [], c :: r, acc, _, hm => by
    have := hm c r rfl
    simp [takeWord, this]
  | a :: w, rest, acc, hw, hm => by
    simp only [notMeta, List.all_cons, Bool.and_eq_true, Bool.not_eq_true'] at hw
    have ih := takeWord_spec w rest (a :: acc) (by simpa [notMeta] using hw.2) hm
    simp [takeWord, hw.1, ih]

theorem takeComment_spec : ∀ (c r acc : List Char), c.all (· != ']') = true →
    takeComment (c ++ ']' :: r) acc = some (acc.reverse ++ c, r)
  | [], r, acc, _ => by simp [takeComment]
  | a :: c, r, acc, h => by
    simp only [List.all_cons, Bool.and_eq_true, bne_iff_ne, ne_eq] at h
    have ih := takeComment_spec c r (a :: acc) h.2
    simp [takeComment, h.1, ih]

/-- the text that follows does not start with '[' -/
def NoBracket (rest : List Char) : Prop := ∀ r, rest ≠ '[' :: r

theorem takeComments_stop (rest : List Char) (fuel : Nat) (acc : List String) (hn : NoBracket rest) :
    takeComments (fuel + 1) rest acc = some (acc.reverse, rest) := by
  unfold takeComments
  split
  · rename_i heq; cases heq
  · exact absurd rfl (hn _)
  · rename_i h1 h2 h3 h4
    simp_all

theorem takeComments_spec : ∀ (cs : List String) (rest : List Char) (fuel : Nat) (acc : List String),
    cs.all commentOK3 = true → NoBracket rest → cs.length + 1 ≤ fuel →
    takeComments fuel (writeComments cs ++ rest) acc = some (acc.reverse ++ cs, rest)
  | [], rest, fuel + 1, acc, _, hn, _ => by
    simpa [writeComments] using takeComments_stop rest fuel acc hn
  | c :: cs, rest, fuel + 1, acc, hc, hn, hf => by
    simp only [List.all_cons, Bool.and_eq_true] at hc
    have ih := takeComments_spec cs rest fuel (c :: acc) hc.2 hn (by simp at hf; omega)
    have hcm := takeComment_spec c.toList (writeComments cs ++ rest) [] (by simpa [commentOK3] using hc.1)
    simp only [writeComments, List.map_cons, List.flatten_cons, bracket, List.cons_append, List.append_assoc,
      List.nil_append] at hcm ⊢
    simp only [takeComments, hcm]
    simpa [writeComments] using ih
  | [], _, 0, _, _, _, hf => by simp at hf
  | _ :: _, _, 0, _, _, _, hf => by simp at hf

/- ## what follows a node: ',' or ')' or ';' -/

def StopC (rest : List Char) : Prop := ∃ c r, rest = c :: r ∧ (c = ',' ∨ c = ')' ∨ c = ';')

theorem StopC.metaNext {rest : List Char} (h : StopC rest) : MetaNext rest := by
  obtain ⟨c, r, rfl, hc⟩ := h
  intro c' r' heq
  injection heq with h1 _
  subst h1
  rcases hc with rfl | rfl | rfl <;> rfl

theorem StopC.noBracket {rest : List Char} (h : StopC rest) : NoBracket rest := by
  obtain ⟨c, r, rfl, hc⟩ := h
  intro r' heq
  injection heq with h1 _
  subst h1
  rcases hc with h | h | h <;> cases h

theorem writeComments_length (cs : List String) : cs.length ≤ (writeComments cs).length := by
  induction cs with
  | nil => simp [writeComments]
  | cons c r ih =>
    simp only [writeComments, List.map_cons, List.flatten_cons, bracket, List.length_append, List.length_cons] at ih ⊢
    omega

theorem metaNext_comments (cs : List String) (rest : List Char) (h : MetaNext rest) :
    MetaNext (writeComments cs ++ rest) := by
  cases cs with
  | nil => simpa [writeComments] using h
  | cons c r =>
    intro c' r' heq
    simp only [writeComments, List.map_cons, List.flatten_cons, bracket, List.cons_append] at heq
    injection heq with h1 _
    subst h1; rfl

def lenText : Option (List Char) → List Char
  | none => []
  | some w => ':' :: w

/-- the part of a node's text after the children: label, node comments, optional length, branch
    comments (branch comments only after a length: otherwise the text cannot tell them from
    node comments) -/
theorem readTail_spec (depth : Nat) (kidsNs : List TextNode) (lab : List Char)
    (ncs : List String) (olen : Option (List Char)) (ecs : List String) (rest : List Char)
    (hlab : notMeta lab = true) (hn : ncs.all commentOK3 = true) (he : ecs.all commentOK3 = true)
    (hlen : ∀ w, olen = some w → notMeta w = true) (hec : olen = none → ecs = []) (hs : StopC rest) :
    readTail depth kidsNs (lab ++ (writeComments ncs ++ (lenText olen ++ (writeComments ecs ++ rest)))) =
      some (kidsNs ++ [⟨depth, String.ofList lab, ncs, olen.map String.ofList, ecs⟩], rest) := by
  have hm4 : MetaNext (writeComments ecs ++ rest) := metaNext_comments ecs rest hs.metaNext
  have hm3 : MetaNext (lenText olen ++ (writeComments ecs ++ rest)) := by
    cases olen with
    | none => simpa [lenText] using hm4
    | some w => intro c r heq; simp only [lenText, List.cons_append] at heq; injection heq with h1 _; subst h1; rfl
  have hm2 := metaNext_comments ncs _ hm3
  have hnb3 : NoBracket (lenText olen ++ (writeComments ecs ++ rest)) := by
    cases olen with
    | none => rw [hec rfl]; simpa [lenText, writeComments] using hs.noBracket
    | some w => intro r heq; simp only [lenText, List.cons_append] at heq; injection heq with h1 _; cases h1
  unfold readTail
  simp only [takeWord_spec lab _ [] hlab hm2, List.reverse_nil, List.nil_append]
  rw [takeComments_spec ncs _ _ [] hn hnb3 (by
    have := writeComments_length ncs
    simp only [List.length_append]; omega)]
  simp only [List.reverse_nil, List.nil_append]
  cases olen with
  | none =>
    have hecs := hec rfl
    subst hecs
    obtain ⟨c, r, hr, hc⟩ := hs
    subst hr
    simp only [lenText, writeComments, List.map_nil, List.flatten_nil, List.nil_append, Option.map_none]
    rcases hc with rfl | rfl | rfl
    · have h1 := takeComments_stop (',' :: r) (r.length + 1) [] (StopC.noBracket ⟨',', r, rfl, Or.inl rfl⟩)
      simp [h1]
    · have h1 := takeComments_stop (')' :: r) (r.length + 1) [] (StopC.noBracket ⟨')', r, rfl, Or.inr (Or.inl rfl)⟩)
      simp [h1]
    · have h1 := takeComments_stop (';' :: r) (r.length + 1) [] (StopC.noBracket ⟨';', r, rfl, Or.inr (Or.inr rfl)⟩)
      simp [h1]
  | some w =>
    simp only [lenText, List.cons_append, Option.map_some]
    rw [takeWord_spec w _ [] (hlen w rfl) hm4]
    simp only [List.reverse_nil, List.nil_append]
    rw [takeComments_spec ecs rest _ [] he hs.noBracket (by
      have := writeComments_length ecs
      simp only [List.length_append]; omega)]
    simp

/-- the label the writer gives: name, or support[/p-value] for an unnamed node -/
def labOf (C : Codec) (d : NodeD) (e : EdgeD) : List Char :=
  d.name.toList ++ (if e.sup != NIL && d.name == "" then
     C.fmt e.sup ++ (if e.pval != NIL then '/' :: C.fmt e.pval else []) else [])

def olenOf (C : Codec) (e : EdgeD) : Option (List Char) := if e.len != NIL then some (C.fmt e.len) else none

theorem decor_shape (C : Codec) (d : NodeD) (e : EdgeD) (rest : List Char) :
    d.name.toList ++ (writeDecor C e d ++ rest) =
      labOf C d e ++ (writeComments d.comments ++ (lenText (olenOf C e) ++ (writeComments e.comments ++ rest))) := by
  unfold writeDecor labOf olenOf
  by_cases h1 : (e.sup != NIL && d.name == "") = true <;> by_cases h2 : (e.len != NIL) = true <;>
    simp [h1, h2, lenText]

theorem splitSlash_none : ∀ (a acc : List Char), a.all (· != '/') = true → splitSlash a acc = (acc.reverse ++ a, none)
  | [], acc, _ => by simp [splitSlash]
  | c :: a, acc, h => by
    simp only [List.all_cons, Bool.and_eq_true, bne_iff_ne, ne_eq] at h
    have ih := splitSlash_none a (c :: acc) h.2
    simp [splitSlash, h.1, ih]

theorem splitSlash_some : ∀ (a b acc : List Char), a.all (· != '/') = true →
    splitSlash (a ++ '/' :: b) acc = (acc.reverse ++ a, some b)
  | [], b, acc, _ => by simp [splitSlash]
  | c :: a, b, acc, h => by
    simp only [List.all_cons, Bool.and_eq_true, bne_iff_ne, ne_eq] at h
    have ih := splitSlash_some a b (c :: acc) h.2
    simp [splitSlash, h.1, ih]

theorem numTextOK_spec {C : Codec} {q : Rat} (h : numTextOK C q = true) :
    notMeta (C.fmt q) = true ∧ (C.fmt q).all (· != '/') = true ∧ decOK (String.ofList (C.fmt q)) q = true := by
  unfold numTextOK at h
  simp only [Bool.and_eq_true] at h
  exact ⟨h.1.1, h.1.2, h.2⟩

theorem decorWF_spec {C : Codec} {d : NodeD} {e : EdgeD} (h : decorWF C d e = true) :
    notMeta d.name.toList = true ∧ d.comments.all commentOK3 = true ∧ e.comments.all commentOK3 = true ∧
    (e.len ≠ NIL → numTextOK C e.len = true) ∧ (e.len = NIL → e.comments = []) ∧
    (d.name = "" → e.sup ≠ NIL → numTextOK C e.sup = true ∧ (e.pval ≠ NIL → numTextOK C e.pval = true)) := by
  unfold decorWF at h
  simp only [Bool.and_eq_true, Bool.or_eq_true, bne_iff_ne, ne_eq, beq_iff_eq, List.isEmpty_iff] at h
  obtain ⟨⟨⟨⟨⟨h1, h2⟩, h3⟩, h4⟩, h5⟩, h6⟩ := h
  refine ⟨h1, h2, h3, fun hq => ?_, fun hq => ?_, fun hn hs => ?_⟩
  · rcases h4 with h | h
    · exact absurd h hq
    · exact h
  · rcases h5 with h | h
    · exact absurd hq h
    · exact h
  · rcases h6 with (h | h) | h
    · exact absurd hn h
    · exact absurd h hs
    · have h' : numTextOK C e.sup = true ∧ (e.pval = NIL ∨ numTextOK C e.pval = true) := by
        simpa [Bool.and_eq_true, Bool.or_eq_true] using h
      refine ⟨h'.1, fun hp => ?_⟩
      rcases h'.2 with h'' | h''
      · exact absurd h'' hp
      · exact h''

/-- the entry the reader produces for a node written by the writer matches the node -/
theorem entry_ok (C : Codec) (depth : Nat) (d : NodeD) (e : EdgeD) (h : decorWF C d e = true) :
    nodeTextOK ⟨depth, d, some e⟩
      ⟨depth, String.ofList (labOf C d e), d.comments, (olenOf C e).map String.ofList, e.comments⟩ = true := by
  obtain ⟨_, _, _, hlen, hecl, hsup⟩ := decorWF_spec h
  have hlab : labelOK d (some e) (String.ofList (labOf C d e)) = true := by
    unfold labelOK labOf
    by_cases hn : d.name = ""
    · simp only [hn, bne_self_eq_false, Bool.false_eq_true, if_false, String.toList_empty, List.nil_append,
        beq_self_eq_true, Bool.and_true]
      by_cases hs : e.sup = NIL
      · simp [hs]
      · have hs' : (e.sup == NIL) = false := by simpa using hs
        have hsb : (e.sup != NIL) = true := by simpa using hs
        obtain ⟨hsn, hp⟩ := hsup hn hs
        obtain ⟨_, hns, hds⟩ := numTextOK_spec hsn
        simp only [hs', hsb, Bool.false_eq_true, if_false, if_true, String.toList_ofList]
        by_cases hpv : e.pval = NIL
        · have : (e.pval != NIL) = false := by simpa using hpv
          simp only [this, Bool.false_eq_true, if_false, List.append_nil]
          rw [splitSlash_none _ [] hns]
          simp [hpv, hds]
        · have hpb : (e.pval != NIL) = true := by simpa using hpv
          obtain ⟨_, _, hdp⟩ := numTextOK_spec (hp hpv)
          simp only [hpb, if_true]
          rw [splitSlash_some _ _ [] hns]
          simp [hpb, hds, hdp]
    · have : (d.name != "") = true := by simpa using hn
      have h2 : (d.name == "") = false := by simpa using hn
      simp [this, h2]
  by_cases hq : e.len = NIL
  · have hec0 := hecl hq
    simp [nodeTextOK, hlab, olenOf, hq, hec0]
  · have hb : (e.len != NIL) = true := by simpa using hq
    have hb2 : (e.len == NIL) = false := by simpa using hq
    obtain ⟨_, _, hd⟩ := numTextOK_spec (hlen hq)
    simp [nodeTextOK, hlab, olenOf, hb, hb2, hd]

/- ## fuel -/
mutual
def need : T → Nat
  | .node _ _ [] => 1
  | .node _ _ (k :: ks) => 1 + needL (k :: ks)
def needL : Kids → Nat
  | [] => 0
  | [(_, t)] => 1 + need t
  | (_, t) :: k2 :: ks => 1 + max (need t) (needL (k2 :: ks))
end

theorem writeKids_false_cons (C : Codec) (x : EdgeD × T) (r : Kids) :
    writeKids C false (x :: r) = ',' :: writeKids C true (x :: r) := by
  obtain ⟨e, t⟩ := x
  simp [writeKids]

theorem writeNode_leaf (C : Codec) (b : Bool) (d : NodeD) (p : Nat) : writeNode C b (.node d p []) = d.name.toList := by
  cases b <;> simp [writeNode, writeKids]

theorem writeNode_inner (C : Codec) (b : Bool) (d : NodeD) (p : Nat) (k : EdgeD × T) (ks : Kids) :
    writeNode C b (.node d p (k :: ks)) = '(' :: (writeKids C true (k :: ks) ++ (')' :: d.name.toList)) := by
  cases b <;> simp [writeNode]

theorem readNode_paren (fuel depth : Nat) (r : List Char) :
    readNode (fuel + 1) depth ('(' :: r) =
      (match readKids fuel (depth + 1) r [] with
       | none => none
       | some (kids, r1) => readTail depth kids r1) := by
  rw [readNode]
  rfl

theorem readNode_noparen (fuel depth : Nat) (cs : List Char) (h : ∀ r, cs ≠ '(' :: r) :
    readNode (fuel + 1) depth cs = readTail depth [] cs := by
  unfold readNode
  split
  · rename_i heq; cases heq
  · exact absurd rfl (h _)
  · simp_all

/-- a label (no metacharacter) followed by something that starts with a metacharacter other than '(' -/
theorem noparen_of (lab rest : List Char) (hl : notMeta lab = true)
    (hr : ∀ r, rest ≠ '(' :: r) : ∀ r, lab ++ rest ≠ '(' :: r := by
  cases lab with
  | nil => simpa using hr
  | cons c l =>
    intro r heq
    simp only [List.cons_append] at heq
    injection heq with h1 _
    subst h1
    simp [notMeta, isMeta] at hl

/-- the entries of the tree and the entries read from the text agree one by one -/
inductive Match : List ExpNode → List TextNode → Prop where
  | nil : Match [] []
  | cons {x y xs ys} (h : nodeTextOK x y = true) (t : Match xs ys) : Match (x :: xs) (y :: ys)

theorem Match.append {a c : List ExpNode} {b d : List TextNode} (h1 : Match a b) (h2 : Match c d) :
    Match (a ++ c) (b ++ d) := by
  induction h1 with
  | nil => simpa using h2
  | cons h _ ih => exact Match.cons h ih

theorem Match.length {a : List ExpNode} {b : List TextNode} (h : Match a b) : a.length = b.length := by
  induction h with
  | nil => rfl
  | cons _ _ ih => simp [ih]

theorem Match.all {a : List ExpNode} {b : List TextNode} (h : Match a b) :
    (List.zipWith nodeTextOK a b).all id = true := by
  induction h with
  | nil => rfl
  | cons h _ ih => simp [h, ih]

theorem stop_comma (r : List Char) : StopC (',' :: r) := ⟨',', r, rfl, Or.inl rfl⟩
theorem stop_close (r : List Char) : StopC (')' :: r) := ⟨')', r, rfl, Or.inr (Or.inl rfl)⟩

/-- the text after a label is never an opening parenthesis -/
theorem after_label_noparen (C : Codec) (d : NodeD) (e : EdgeD) (rest : List Char) (hs : StopC rest) :
    ∀ r, writeComments d.comments ++ (lenText (olenOf C e) ++ (writeComments e.comments ++ rest)) ≠ '(' :: r := by
  have h4 := metaNext_comments e.comments rest hs.metaNext
  intro r heq
  cases hc : d.comments with
  | cons c cs => rw [hc] at heq; simp [writeComments, bracket] at heq
  | nil =>
    rw [hc] at heq
    simp only [writeComments, List.map_nil, List.flatten_nil, List.nil_append] at heq
    cases ho : olenOf C e with
    | some w => rw [ho] at heq; simp [lenText] at heq
    | none =>
      rw [ho] at heq
      simp only [lenText, List.nil_append] at heq
      cases he : e.comments with
      | cons c cs => rw [he] at heq; simp [writeComments, bracket] at heq
      | nil =>
        rw [he] at heq
        simp only [writeComments, List.map_nil, List.flatten_nil, List.nil_append] at heq
        obtain ⟨c, r', hr, hc'⟩ := hs
        rw [hr] at heq
        injection heq with h1 _
        rcases hc' with h | h | h <;> (rw [h] at h1; cases h1)

mutual
theorem readNode_write (C : Codec) : ∀ (t : T) (e : EdgeD) (depth fuel : Nat) (rest : List Char),
    decorWF C t.d e = true → textWFsub C t = true → StopC rest → need t ≤ fuel →
    ∃ ns, readNode fuel depth (writeNode C true t ++ (writeDecor C e t.d ++ rest)) = some (ns, rest) ∧
      Match (expPost depth (some e) t) ns
  | .node d p [], e, depth, fuel, rest, hd, _, hs, hf => by
    obtain ⟨hnm, hnc, hec, hlen, hecl, hsup⟩ := decorWF_spec hd
    cases fuel with
    | zero => simp [need] at hf
    | succ fuel =>
      have hlabm : notMeta (labOf C d e) = true := by
        unfold labOf
        by_cases h1 : (e.sup != NIL && d.name == "") = true
        · simp only [Bool.and_eq_true, bne_iff_ne, ne_eq, beq_iff_eq] at h1
          obtain ⟨hsn, hp⟩ := hsup h1.2 h1.1
          have hb : (e.sup != NIL && d.name == "") = true := by simp [h1.1, h1.2]
          simp only [hb, if_true, notMeta, List.all_append, Bool.and_eq_true] at hnm ⊢
          refine ⟨hnm, (numTextOK_spec hsn).1, ?_⟩
          by_cases hpv : e.pval = NIL
          · simp [hpv]
          · have hpb : (e.pval != NIL) = true := by simpa using hpv
            simp only [hpb, if_true, List.all_cons, Bool.and_eq_true]
            exact ⟨by decide, (numTextOK_spec (hp hpv)).1⟩
        · have : (e.sup != NIL && d.name == "") = false := by simpa using h1
          simpa [this] using hnm
      rw [writeNode_leaf, T.d_node, decor_shape]
      have hnp := noparen_of (labOf C d e) _ hlabm (after_label_noparen C d e rest hs)
      rw [readNode_noparen fuel depth _ hnp]
      rw [readTail_spec depth [] (labOf C d e) d.comments (olenOf C e) e.comments rest hlabm hnc hec
        (by
          intro w hw
          unfold olenOf at hw
          by_cases hq : e.len = NIL
          · simp [hq] at hw
          · have hb : (e.len != NIL) = true := by simpa using hq
            simp only [hb, if_true, Option.some.injEq] at hw
            rw [← hw]; exact (numTextOK_spec (hlen hq)).1)
        (by
          intro ho
          unfold olenOf at ho
          by_cases hq : e.len = NIL
          · exact hecl hq
          · have hb : (e.len != NIL) = true := by simpa using hq
            simp [hb] at ho) hs]
      refine ⟨_, rfl, ?_⟩
      simp only [expPost, expPostL, List.nil_append]
      exact Match.cons (entry_ok C depth d e hd) Match.nil
  | .node d p (k :: ks), e, depth, fuel, rest, hd, hw, hs, hf => by
    obtain ⟨hnm, hnc, hec, hlen, hecl, hsup⟩ := decorWF_spec hd
    cases fuel with
    | zero => simp [need] at hf
    | succ fuel =>
      have hlabm : notMeta (labOf C d e) = true := by
        unfold labOf
        by_cases h1 : (e.sup != NIL && d.name == "") = true
        · simp only [Bool.and_eq_true, bne_iff_ne, ne_eq, beq_iff_eq] at h1
          obtain ⟨hsn, hp⟩ := hsup h1.2 h1.1
          have hb : (e.sup != NIL && d.name == "") = true := by simp [h1.1, h1.2]
          simp only [hb, if_true, notMeta, List.all_append, Bool.and_eq_true] at hnm ⊢
          refine ⟨hnm, (numTextOK_spec hsn).1, ?_⟩
          by_cases hpv : e.pval = NIL
          · simp [hpv]
          · have hpb : (e.pval != NIL) = true := by simpa using hpv
            simp only [hpb, if_true, List.all_cons, Bool.and_eq_true]
            exact ⟨by decide, (numTextOK_spec (hp hpv)).1⟩
        · have : (e.sup != NIL && d.name == "") = false := by simpa using h1
          simpa [this] using hnm
      simp only [need, Nat.add_comm 1] at hf
      have hw' : textWFL C (k :: ks) = true := by simpa [textWFsub] using hw
      obtain ⟨ns, hk, hm⟩ := readKids_write C (k :: ks) (depth + 1) fuel
        (d.name.toList ++ (writeDecor C e d ++ rest)) [] (by simp) hw' (by omega)
      rw [writeNode_inner, T.d_node]
      simp only [List.cons_append, List.append_assoc]
      rw [readNode_paren, hk]
      simp only [List.nil_append]
      rw [decor_shape]
      rw [readTail_spec depth ns (labOf C d e) d.comments (olenOf C e) e.comments rest hlabm hnc hec
        (by
          intro w hw2
          unfold olenOf at hw2
          by_cases hq : e.len = NIL
          · simp [hq] at hw2
          · have hb : (e.len != NIL) = true := by simpa using hq
            simp only [hb, if_true, Option.some.injEq] at hw2
            rw [← hw2]; exact (numTextOK_spec (hlen hq)).1)
        (by
          intro ho
          unfold olenOf at ho
          by_cases hq : e.len = NIL
          · exact hecl hq
          · have hb : (e.len != NIL) = true := by simpa using hq
            simp [hb] at ho) hs]
      refine ⟨_, rfl, ?_⟩
      simp only [expPost]
      exact hm.append (Match.cons (entry_ok C depth d e hd) Match.nil)
theorem readKids_write (C : Codec) : ∀ (k : Kids) (depth fuel : Nat) (rest : List Char) (acc : List TextNode),
    k ≠ [] → textWFL C k = true → needL k ≤ fuel →
    ∃ ns, readKids fuel depth (writeKids C true k ++ (')' :: rest)) acc = some (acc ++ ns, rest) ∧
      Match (expPostL depth k) ns
  | [], _, _, _, _, h, _, _ => absurd rfl h
  | [(e, t)], depth, fuel, rest, acc, _, hw, hf => by
    simp only [textWFL, Bool.and_eq_true] at hw
    cases fuel with
    | zero => simp [needL] at hf
    | succ fuel =>
      simp only [needL] at hf
      obtain ⟨ns, hr, hm⟩ := readNode_write C t e depth fuel (')' :: rest) hw.1.1 hw.1.2 (stop_close rest) (by omega)
      refine ⟨ns, ?_, by simpa [expPostL] using hm⟩
      simp only [writeKids, if_true, List.nil_append, List.append_nil, List.append_assoc]
      rw [readKids, hr]
      rfl
  | (e, t) :: k2 :: ks, depth, fuel, rest, acc, _, hw, hf => by
    simp only [textWFL, Bool.and_eq_true] at hw
    cases fuel with
    | zero => simp [needL] at hf
    | succ fuel =>
      simp only [needL] at hf
      have hw2 : textWFL C (k2 :: ks) = true := by simpa [textWFL, Bool.and_eq_true] using hw.2
      obtain ⟨ns, hr, hm⟩ := readNode_write C t e depth fuel
        (',' :: (writeKids C true (k2 :: ks) ++ (')' :: rest))) hw.1.1 hw.1.2 (stop_comma _) (by omega)
      obtain ⟨ns2, hr2, hm2⟩ := readKids_write C (k2 :: ks) depth fuel rest (acc ++ ns) (by simp) hw2 (by omega)
      refine ⟨ns ++ ns2, ?_, ?_⟩
      · have hshape : writeKids C true ((e, t) :: k2 :: ks) ++ (')' :: rest) =
            writeNode C true t ++ (writeDecor C e t.d ++ (',' :: (writeKids C true (k2 :: ks) ++ (')' :: rest)))) := by
          rw [show writeKids C true ((e, t) :: k2 :: ks) =
            writeNode C true t ++ writeDecor C e t.d ++ writeKids C false (k2 :: ks) by simp [writeKids]]
          rw [writeKids_false_cons]
          simp [List.append_assoc]
        rw [hshape, readKids, hr]
        simp only
        rw [hr2, List.append_assoc]
      · simp only [expPostL]
        exact hm.append hm2
end

/- ## enough fuel: the reader is started with (length of the text + 1) -/
mutual
theorem need_le (C : Codec) : ∀ (t : T), need t ≤ (writeNode C true t).length + 1
  | .node d p [] => by simp [need]
  | .node d p (k :: ks) => by
    have := needL_le C (k :: ks) (by simp)
    rw [writeNode_inner]
    simp only [need, List.length_cons, List.length_append]
    omega
theorem needL_le (C : Codec) : ∀ (k : Kids), k ≠ [] → needL k ≤ (writeKids C true k).length + 2
  | [], h => absurd rfl h
  | [(e, t)], _ => by
    have := need_le C t
    simp only [needL, writeKids, if_true, List.nil_append, List.append_nil, List.length_append]
    omega
  | (e, t) :: k2 :: ks, _ => by
    have h1 := need_le C t
    have h2 := needL_le C (k2 :: ks) (by simp)
    have hs : writeKids C true ((e, t) :: k2 :: ks) =
        writeNode C true t ++ writeDecor C e t.d ++ (',' :: writeKids C true (k2 :: ks)) := by
      rw [← writeKids_false_cons]; simp [writeKids]
    rw [hs]
    simp only [needL, List.length_append, List.length_cons]
    omega
end

theorem writeNode_root (C : Codec) (t : T) : writeNode C false t = writeNode C true t := by
  obtain ⟨d, p, k⟩ := t
  cases k with
  | nil => rw [writeNode_leaf, writeNode_leaf]
  | cons a l => rw [writeNode_inner, writeNode_inner]

theorem Match.snoc_weaken {x x' : ExpNode} (hx : ∀ y, nodeTextOK x y = true → nodeTextOK x' y = true) :
    ∀ (xs : List ExpNode) (ns : List TextNode), Match (xs ++ [x]) ns → Match (xs ++ [x']) ns
  | [], ns, h => by
    cases h with
    | cons h t => exact Match.cons (hx _ h) t
  | a :: xs, ns, h => by
    cases h with
    | cons h t => exact Match.cons h (Match.snoc_weaken hx xs _ t)

theorem root_entry_weaken (depth : Nat) (d : NodeD) (y : TextNode)
    (h : nodeTextOK ⟨depth, d, some EdgeD.blank⟩ y = true) : nodeTextOK ⟨depth, d, none⟩ y = true := by
  obtain ⟨yd, yl, ync, ylen, yec⟩ := y
  simp only [nodeTextOK, Bool.and_eq_true] at h ⊢
  obtain ⟨⟨⟨h1, h2⟩, h4⟩, h5⟩ := h
  refine ⟨⟨⟨h1, ?_⟩, ?_⟩, ?_⟩
  · unfold labelOK at h2 ⊢
    by_cases hn : (d.name != "") = true
    · simpa [hn] using h2
    · simp only [hn, Bool.false_eq_true, if_false] at h2 ⊢
      simpa [EdgeD.blank] using h2
  · cases ylen with
    | none => rfl
    | some l => simp [EdgeD.blank] at h4
  · simpa [EdgeD.blank] using h5

/-- the reference reader re-reads the writer's text as the tree -/
theorem readNewick_write (C : Codec) (t : T) (h : textWF C t = true) :
    ∃ ns, readNewick (writeStr C t) = some ns ∧ Match (expPost 0 none t) ns := by
  simp only [textWF, Bool.and_eq_true] at h
  obtain ⟨⟨hname, hcom⟩, hsub⟩ := h
  have hd : decorWF C t.d EdgeD.blank = true := by
    simp [decorWF, hname, hcom, EdgeD.blank]
  have hdec : writeDecor C EdgeD.blank t.d = writeComments t.d.comments := by
    simp [writeDecor, EdgeD.blank, writeComments]
  have htext : (writeStr C t).toList = writeNode C true t ++ (writeDecor C EdgeD.blank t.d ++ [';']) := by
    simp [writeStr, write, writeNode_root, hdec]
  have hfuel : need t ≤ (writeStr C t).toList.length + 1 := by
    have := need_le C t
    rw [htext]; simp only [List.length_append]; omega
  obtain ⟨ns, hr, hm⟩ := readNode_write C t EdgeD.blank 0 _ [';'] hd hsub ⟨';', [], rfl, Or.inr (Or.inr rfl)⟩ hfuel
  refine ⟨ns, ?_, ?_⟩
  · unfold readNewick
    simp only []
    rw [htext] at hr ⊢
    rw [hr]
    rfl
  · obtain ⟨d, p, k⟩ := t
    simp only [expPost] at hm ⊢
    exact Match.snoc_weaken (fun y hy => root_entry_weaken 0 d y hy) _ _ hm

/-- ★ `write_describes`: the Newick text written for a tree, re-read, is that tree — shape, child
    order, names or supports, comments and lengths (the oracle `textProblems` finds nothing) -/
theorem textProblems_write (C : Codec) (t : T) (h : textWF C t = true) : textProblems t (writeStr C t) = [] := by
  obtain ⟨ns, hr, hm⟩ := readNewick_write C t h
  unfold textProblems
  simp only [hr]
  have hl := hm.length
  simp [hl, hm.all]

end Gotree.C03
