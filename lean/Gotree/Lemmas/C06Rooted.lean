/-
  C06 — the rooted view: the oriented effect of pruning on the split list (`IndR`: no branch is
  ever replaced by its complement), from which the clades of the result and the depths below its
  root follow.  Core Lean only.
-/
import Gotree.Lemmas.C06Literal

namespace Gotree.C06
open Gotree Gotree.C14

/-- `Ind K` without complementation: fused branches have the same kept tips below them. -/
inductive IndR (K : List String) : List SplitE → List SplitE → Prop
  | refl (L : List SplitE) : IndR K L L
  | trans {L L' L'' : List SplitE} : IndR K L L' → IndR K L' L'' → IndR K L L''
  | append {A A' B B' : List SplitE} : IndR K A A' → IndR K B B' → IndR K (A ++ B) (A' ++ B')
  | swap (A B : List SplitE) : IndR K (A ++ B) (B ++ A)
  | single (s s' : SplitE) (hs : s.below.Nodup) (hs' : s'.below.Nodup)
      (h : ∀ a ∈ K, (a ∈ s.below ↔ a ∈ s'.below)) (he : s'.e = s.e) : IndR K [s] [s']
  | drop (A : List SplitE) (h : ∀ s ∈ A, ∀ a ∈ K, a ∉ s.below) : IndR K A []
  | dropTop (hc : SplitE) (hn : hc.below.Nodup) (h : ∀ a ∈ K, a ∈ hc.below) : IndR K [hc] []
  | fuse (s1 s2 s' : SplitE) (n1 : s1.below.Nodup) (n2 : s2.below.Nodup) (n' : s'.below.Nodup)
      (h1 : ∀ a ∈ K, (a ∈ s1.below ↔ a ∈ s'.below)) (h2 : ∀ a ∈ K, (a ∈ s2.below ↔ a ∈ s'.below)) (b : Bool)
      (hb : 2 ≤ lightSize K s'.below → b = true)
      (he : s'.e = fuseEdge s1.e s2.e b ∨ s'.e = fuseEdge s2.e s1.e b) : IndR K [s1, s2] [s']

theorem IndR.toInd {K : List String} {L L' : List SplitE} (h : IndR K L L') : Ind K L L' := by
  induction h with
  | refl L => exact Ind.refl L
  | trans _ _ ih1 ih2 => exact Ind.trans ih1 ih2
  | append _ _ ih1 ih2 => exact Ind.append ih1 ih2
  | swap A B => exact Ind.swap A B
  | single s s' hs hs' h he => exact Ind.single s s' hs hs' h he
  | drop A h => exact Ind.drop A h
  | dropTop hc hn h => exact Ind.dropTop hc hn h
  | fuse s1 s2 s' n1 n2 n' h1 h2 b hb he => exact Ind.fuse s1 s2 s' n1 n2 n' (Or.inl h1) (Or.inl h2) b hb he

/-- what the rooted clauses need: branches correspond with the SAME kept tips below, and the
    depth of the kept tips changes by a common offset -/
structure RootedEff (K : List String) (L L' : List SplitE) : Prop where
  back : ∀ s' ∈ L', ∃ s ∈ L, ∀ a ∈ K, (a ∈ s'.below ↔ a ∈ s.below)
  fwd : ∀ s ∈ L, (∃ a ∈ K, a ∈ s.below) → (∃ b ∈ K, b ∉ s.below) →
    ∃ s' ∈ L', ∀ a ∈ K, (a ∈ s'.below ↔ a ∈ s.below)
  lens : LensGood L → LensGood L'
  depth : LensGood L → ∀ a b, a ∈ K → b ∈ K →
    belowW EdgeD.lenOr0 L' a - belowW EdgeD.lenOr0 L' b = belowW EdgeD.lenOr0 L a - belowW EdgeD.lenOr0 L b

theorem belowW_single (s : SplitE) (a : String) :
    belowW EdgeD.lenOr0 [s] a = if a ∈ s.below then s.e.lenOr0 else 0 := by
  simp [belowW_cons, belowW_nil, Rat.add_zero]

theorem indR_rootedEff {K : List String} {L L' : List SplitE} (h : IndR K L L') : RootedEff K L L' := by
  induction h with
  | refl L =>
    exact ⟨fun s hs => ⟨s, hs, fun _ _ => Iff.rfl⟩, fun s hs _ _ => ⟨s, hs, fun _ _ => Iff.rfl⟩, fun h => h,
      fun _ _ _ _ _ => rfl⟩
  | trans _ _ ih1 ih2 =>
    refine ⟨fun s'' hs'' => ?_, fun s hs h1 h2 => ?_, fun hl => ih2.lens (ih1.lens hl), fun hl a b ha hb => ?_⟩
    · obtain ⟨s', hs', e1⟩ := ih2.back s'' hs''
      obtain ⟨s, hs, e2⟩ := ih1.back s' hs'
      exact ⟨s, hs, fun a ha => (e1 a ha).trans (e2 a ha)⟩
    · obtain ⟨s', hs', e1⟩ := ih1.fwd s hs h1 h2
      obtain ⟨a, ha, hma⟩ := h1
      obtain ⟨b, hb, hmb⟩ := h2
      obtain ⟨s'', hs'', e2⟩ := ih2.fwd s' hs' ⟨a, ha, (e1 a ha).2 hma⟩ ⟨b, hb, fun h => hmb ((e1 b hb).1 h)⟩
      exact ⟨s'', hs'', fun c hc => (e2 c hc).trans (e1 c hc)⟩
    · rw [ih2.depth (ih1.lens hl) a b ha hb, ih1.depth hl a b ha hb]
  | @append A A' B B' _ _ ih1 ih2 =>
    refine ⟨fun s' hs' => ?_, fun s hs h1 h2 => ?_, fun hl t ht => ?_, fun hl a b ha hb => ?_⟩
    · rcases List.mem_append.1 hs' with m | m
      · obtain ⟨s, hs, e⟩ := ih1.back s' m; exact ⟨s, List.mem_append_left _ hs, e⟩
      · obtain ⟨s, hs, e⟩ := ih2.back s' m; exact ⟨s, List.mem_append_right _ hs, e⟩
    · rcases List.mem_append.1 hs with m | m
      · obtain ⟨s', hs', e⟩ := ih1.fwd s m h1 h2; exact ⟨s', List.mem_append_left _ hs', e⟩
      · obtain ⟨s', hs', e⟩ := ih2.fwd s m h1 h2; exact ⟨s', List.mem_append_right _ hs', e⟩
    · rcases List.mem_append.1 ht with m | m
      · exact ih1.lens (fun s hs => hl s (List.mem_append_left _ hs)) t m
      · exact ih2.lens (fun s hs => hl s (List.mem_append_right _ hs)) t m
    · have d1 := ih1.depth (fun s hs => hl s (List.mem_append_left _ hs)) a b ha hb
      have d2 := ih2.depth (fun s hs => hl s (List.mem_append_right _ hs)) a b ha hb
      simp only [belowW_append]
      grind
  | swap A B =>
    refine ⟨fun s' hs' => ⟨s', List.mem_append.2 (List.mem_append.1 hs').symm, fun _ _ => Iff.rfl⟩,
      fun s hs _ _ => ⟨s, List.mem_append.2 (List.mem_append.1 hs).symm, fun _ _ => Iff.rfl⟩,
      fun hl t ht => hl t (List.mem_append.2 (List.mem_append.1 ht).symm), fun _ a b _ _ => ?_⟩
    simp only [belowW_append]; grind
  | single s s' _ _ h he =>
    refine ⟨fun t ht => ?_, fun t ht _ _ => ?_, fun hl t ht => ?_, fun _ a b ha hb => ?_⟩
    · simp at ht; subst ht; exact ⟨s, by simp, fun a ha => (h a ha).symm⟩
    · simp at ht; subst ht; exact ⟨s', by simp, fun a ha => (h a ha).symm⟩
    · simp at ht; subst ht; rw [he]; exact hl s (by simp)
    · simp only [belowW_single, he, ← h a ha, ← h b hb]
  | drop A h =>
    refine ⟨fun t ht => (by cases ht), fun s hs h1 _ => ?_, fun _ t ht => (by cases ht), fun _ a b ha hb => ?_⟩
    · obtain ⟨a, ha, hm⟩ := h1; exact absurd hm (h s hs a ha)
    · rw [belowW_zero _ A a (fun s hs => h s hs a ha), belowW_zero _ A b (fun s hs => h s hs b hb)]; rfl
  | dropTop hc _ h =>
    refine ⟨fun t ht => (by cases ht), fun s hs _ h2 => ?_, fun _ t ht => (by cases ht), fun _ a b ha hb => ?_⟩
    · obtain ⟨b, hb, hm⟩ := h2
      simp at hs; subst hs; exact absurd (h b hb) hm
    · simp only [belowW_single, belowW_nil, h a ha, h b hb, if_true]; grind
  | fuse s1 s2 s' _ _ _ h1 h2 b _ he =>
    refine ⟨fun t ht => ?_, fun t ht _ _ => ?_, fun _ t ht => ?_, fun hl a c ha hc => ?_⟩
    · simp at ht; subst ht; exact ⟨s1, by simp, fun a ha => (h1 a ha).symm⟩
    · simp at ht
      rcases ht with rfl | rfl
      · exact ⟨s', by simp, fun a ha => (h1 a ha).symm⟩
      · exact ⟨s', by simp, fun a ha => (h2 a ha).symm⟩
    · simp at ht; subst ht
      rcases he with he | he <;> rw [he] <;> exact fuse_lenOK _ _ _
    · have l1 := hl s1 (by simp)
      have l2 := hl s2 (by simp)
      have hw : s'.e.lenOr0 = s1.e.lenOr0 + s2.e.lenOr0 := by
        rcases he with he | he
        · rw [he, fuse_lenOr0 l1 l2]
        · rw [he, fuse_lenOr0 l2 l1, Rat.add_comm]
      simp only [belowW_cons, belowW_nil, h1 a ha, h2 a ha, h1 c hc, h2 c hc, hw]
      by_cases m1 : a ∈ s'.below <;> by_cases m2 : c ∈ s'.below <;> simp [m1, m2] <;> grind

/-! ## `rmNode` / `rmKids` never complement a branch -/

def OutIndR (K : List String) (t : T) : Out → Prop
  | .notFound => True
  | .repl t' => IndR K t.splitsBelow t'.splitsBelow
  | .gone => True
  | .splice e c => IndR K t.splitsBelow (⟨c.leaves, e, c.isLeaf⟩ :: c.splitsBelow)

def KOutIndR (K : List String) (k : Kids) : KOut → Prop
  | .notFound => True
  | .set ks => IndR K (splitsL k) (splitsL ks)
  | .del _ ks => IndR K (splitsL k) (splitsL ks)
  | .spl _ ks ei e c =>
    ∀ b, (2 ≤ lightSize K c.leaves → b = true) →
      IndR K (splitsL k) (splitsL ks ++ (⟨c.leaves, fuseEdge ei e b, c.isLeaf⟩ :: c.splitsBelow))

theorem finishNode_indR (K : List String) (d : NodeD) (p : Nat) (k : Kids) (ko : KOut)
    (h : KOutIndR K k ko) : OutIndR K (.node d p k) (finishNode d p ko) := by
  cases ko with
  | notFound => trivial
  | set ks => exact h
  | spl i ks ei e c =>
    show IndR K (splitsL k) (splitsL (ks ++ [(fuseEdge ei e (!c.isLeaf), c)]))
    rw [splitsL_append, splitsL_single]; exact h _ (flag_of_leaf K c)
  | del i ks =>
    match ks, h with
    | [], _ => trivial
    | [(e, c)], h =>
      show IndR K (splitsL k) (⟨(reattach c).leaves, e, (reattach c).isLeaf⟩ :: (reattach c).splitsBelow)
      have h' : IndR K (splitsL k) (splitsL [(e, c)]) := h
      simpa [splitsL_single] using h'
    | a :: b :: r, h => exact h

mutual
theorem rmNode_indR (K : List String) (x : String) (hx : x ∉ K) :
    ∀ t : T, t.leaves.Nodup → OutIndR K t (rmNode x t)
  | .node d p [], _ => by
    simp only [rmNode]; split <;> trivial
  | .node d p (k :: ks), h => by
    simp only [rmNode]
    exact finishNode_indR K d p _ _ (rmKids_indR K x hx (k :: ks) (by simpa [T.leaves] using h))
theorem rmKids_indR (K : List String) (x : String) (hx : x ∉ K) :
    ∀ k : Kids, (leavesL k).Nodup → KOutIndR K k (rmKids x k)
  | [], _ => by simp [rmKids, KOutIndR]
  | (e, t) :: r, hnd => by
    have hnd' := hnd
    simp only [leavesL, List.nodup_append] at hnd'
    have ht : t.leaves.Nodup := hnd'.1
    have hr : (leavesL r).Nodup := hnd'.2.1
    have h1 := rmNode_indR K x hx t ht
    have h2 := rmKids_indR K x hx r hr
    have l1 := rmNode_leaves x t
    simp only [rmKids]
    cases hn : rmNode x t with
    | repl t' =>
      rw [hn] at h1 l1
      show IndR K (splitsL ((e, t) :: r)) (splitsL ((e, t') :: r))
      rw [splitsL_cons, splitsL_cons]
      have ht' : t'.leaves.Nodup := l1.2.1.nodup_iff.2 (ht.erase x)
      exact IndR.append (IndR.single _ _ ht ht' (mem_K_of_eqv hx (eqv_of_perm_erase l1.2.1).symm') rfl)
        (IndR.append h1 (IndR.refl _))
    | gone =>
      rw [hn] at l1
      simp only [OutLeaves] at l1
      show IndR K (splitsL ((e, t) :: r)) (splitsL r)
      rw [splitsL_cons]
      have hd : IndR K [(⟨t.leaves, e, t.isLeaf⟩ : SplitE)] [] := IndR.drop _ (by
        intro s hs a ha hm
        simp at hs; subst hs
        simp [l1] at hm; exact hx (hm ▸ ha))
      have hd2 : IndR K t.splitsBelow [] := IndR.drop _ (by
        intro s hs a ha hm
        have := below_sub t s hs a hm
        rw [l1] at this; simp at this; exact hx (this ▸ ha))
      have := IndR.append hd (IndR.append hd2 (IndR.refl (splitsL r)))
      simpa using this
    | splice e' c =>
      rw [hn] at h1 l1
      intro b hb
      show IndR K (splitsL ((e, t) :: r)) (splitsL r ++ (⟨c.leaves, fuseEdge e e' b, c.isLeaf⟩ :: c.splitsBelow))
      rw [splitsL_cons]
      have hc : c.leaves.Nodup := l1.2.nodup_iff.2 (ht.erase x)
      have s1 : IndR K ([(⟨t.leaves, e, t.isLeaf⟩ : SplitE)] ++ (t.splitsBelow ++ splitsL r))
          ([(⟨t.leaves, e, t.isLeaf⟩ : SplitE)] ++ ((⟨c.leaves, e', c.isLeaf⟩ :: c.splitsBelow) ++ splitsL r)) :=
        IndR.append (IndR.refl _) (IndR.append h1 (IndR.refl _))
      have hf : IndR K [(⟨t.leaves, e, t.isLeaf⟩ : SplitE), ⟨c.leaves, e', c.isLeaf⟩]
          [(⟨c.leaves, fuseEdge e e' b, c.isLeaf⟩ : SplitE)] :=
        IndR.fuse _ _ ⟨c.leaves, fuseEdge e e' b, c.isLeaf⟩ ht hc hc
          (mem_K_of_eqv hx (eqv_of_perm_erase l1.2).symm') (fun _ _ => Iff.rfl) b hb (Or.inl rfl)
      have s2 : IndR K ([(⟨t.leaves, e, t.isLeaf⟩ : SplitE), ⟨c.leaves, e', c.isLeaf⟩] ++ (c.splitsBelow ++ splitsL r))
          ([(⟨c.leaves, fuseEdge e e' b, c.isLeaf⟩ : SplitE)] ++ (c.splitsBelow ++ splitsL r)) :=
        IndR.append hf (IndR.refl _)
      have s3 := IndR.swap (K := K) ((⟨c.leaves, fuseEdge e e' b, c.isLeaf⟩ : SplitE) :: c.splitsBelow) (splitsL r)
      have s12 := IndR.trans s1 (by simpa using s2)
      exact IndR.trans s12 (by simpa using s3)
    | notFound =>
      cases hk : rmKids x r with
      | notFound => trivial
      | set ks' =>
        rw [hk] at h2
        show IndR K (splitsL ((e, t) :: r)) (splitsL ((e, t) :: ks'))
        rw [splitsL_cons, splitsL_cons]
        exact IndR.append (IndR.refl _) (IndR.append (IndR.refl _) h2)
      | del i ks' =>
        rw [hk] at h2
        show IndR K (splitsL ((e, t) :: r)) (splitsL ((e, t) :: ks'))
        rw [splitsL_cons, splitsL_cons]
        exact IndR.append (IndR.refl _) (IndR.append (IndR.refl _) h2)
      | spl i ks' ei e' c =>
        rw [hk] at h2
        intro b hb
        show IndR K (splitsL ((e, t) :: r))
          (splitsL ((e, t) :: ks') ++ (⟨c.leaves, fuseEdge ei e' b, c.isLeaf⟩ :: c.splitsBelow))
        rw [splitsL_cons, splitsL_cons]
        have := IndR.append (IndR.refl (K := K) [(⟨t.leaves, e, t.isLeaf⟩ : SplitE)])
          (IndR.append (IndR.refl t.splitsBelow) (h2 b hb))
        simpa [List.append_assoc] using this
end


/-! ## from `RootedEff` to the Spec predicate `rootedOK` -/

theorem rootDist_eq_belowW (t : T) (a : String) : t.rootDist a = belowW EdgeD.lenOr0 t.splits a := rfl

theorem exists_out_of_short {K A : List String} (hK : K.Nodup) (hA : A.Nodup)
    (h : (A.filter K.contains).length ≠ K.length) : ∃ y ∈ K, y ∉ A := by
  have c := filter_length_compl K A.contains
  have e := count_swap hK hA
  have hle := restr_len_le hK hA
  cases hf : K.filter (fun n => !A.contains n) with
  | nil =>
    rw [hf] at c
    simp only [List.length_nil, Nat.add_zero] at c
    exact absurd (e.trans c) h
  | cons y r =>
    have : y ∈ K.filter (fun n => !A.contains n) := by rw [hf]; simp
    simp only [List.mem_filter, Bool.not_eq_true', List.contains_eq_mem, decide_eq_false_iff_not] at this
    exact ⟨y, this.1, this.2⟩

theorem filter_filter_contains (l : List String) (p : String → Bool) :
    l.filter (l.filter p).contains = l.filter p := by
  apply List.filter_congr
  intro x hx
  by_cases h : p x = true <;> simp [hx, h]

theorem isEmpty_false_iff {α : Type} (l : List α) : l.isEmpty = false ↔ l ≠ [] := by
  cases l <;> simp

theorem rootedOK_of_rootedEff (t t' : T) (S : List String) (rev : Bool) (hT : t.tipNames.Nodup)
    (hperm : t'.tipNames.Perm (kept t S rev)) (R : RootedEff (kept t S rev) t.splits t'.splits)
    (hl : lensOK t = true → LensGood t.splits) : rootedOK t S rev t' = true := by
  have hK : (kept t S rev).Nodup := hT.filter _
  have hnd' : t'.tipNames.Nodup := hperm.nodup_iff.2 hK
  have hk : t.tipNames.filter (kept t S rev).contains = kept t S rev := filter_filter_contains _ _
  have hndall := nd_all_any t' _ hnd' hperm
  -- the clade of a branch of t' and of the corresponding branch of t
  have key : ∀ s ∈ t.splits, ∀ s' ∈ t'.splits, (∀ a ∈ kept t S rev, (a ∈ s'.below ↔ a ∈ s.below)) →
      sortS s'.below = sortS (s.below.filter (kept t S rev).contains) := by
    intro s hs s' hs' e
    have hsn := splits_below_nodup t hT s hs
    have hsn' := splits_below_nodup t' hnd' s' hs'
    have hsub' : ∀ a ∈ s'.below, a ∈ kept t S rev := by
      intro a ha
      apply hperm.mem_iff.1
      have := below_subL t'.kids s' hs' a ha
      unfold T.tipNames; exact List.mem_append_right _ this
    apply sortS_congr
    apply perm_of_nodup_mem hsn' (hsn.filter _)
    intro x
    simp only [List.mem_filter, List.contains_eq_mem, decide_eq_true_eq]
    exact ⟨fun h => ⟨(e x (hsub' x h)).1 h, hsub' x h⟩, fun h => (e x h.2).2 h.1⟩
  simp only [rootedOK, Bool.or_eq_true, bne_iff_ne, ne_eq, Bool.and_eq_true, Bool.not_eq_true']
  right
  refine ⟨?_, ?_⟩
  · simp only [sameMembers, Bool.and_eq_true, List.all_eq_true, List.contains_eq_mem, decide_eq_true_eq]
    constructor
    · intro c hc
      simp only [clades, List.mem_map] at hc
      obtain ⟨s', hs', rfl⟩ := hc
      obtain ⟨s, hs, e⟩ := R.back s' hs'
      have hnd1 := hndall s' hs'
      rw [nd_eq] at hnd1
      simp only [ne_eq, decide_eq_true_eq] at hnd1
      have hsn' := splits_below_nodup t' hnd' s' hs'
      have hsn := splits_below_nodup t hT s hs
      have hlen : (sortS (s.below.filter (kept t S rev).contains)).length = (s'.below.filter (kept t S rev).contains).length := by
        rw [(sortS_perm _).length_eq]
        apply List.Perm.length_eq
        apply perm_of_nodup_mem (hsn.filter _) (hsn'.filter _)
        intro x
        simp only [List.mem_filter, List.contains_eq_mem, decide_eq_true_eq]
        exact ⟨fun h => ⟨(e x h.2).2 h.1, h.2⟩, fun h => ⟨(e x h.2).1 h.1, h.2⟩⟩
      simp only [restrictClades, hk, List.mem_filter, List.mem_map, Bool.and_eq_true, Bool.not_eq_true',
        bne_iff_ne, ne_eq, List.isEmpty_iff]
      refine ⟨⟨s, hs, (key s hs s' hs' e).symm⟩, ?_, ?_⟩
      · rw [isEmpty_false_iff, key s hs s' hs' e]
        intro h0
        rw [h0] at hlen
        exact hnd1.1 (by simpa using hlen.symm)
      · rw [key s hs s' hs' e, hlen]; exact hnd1.2
    · intro c hc
      simp only [restrictClades, hk, List.mem_filter, List.mem_map, Bool.and_eq_true, Bool.not_eq_true',
        bne_iff_ne, ne_eq, List.isEmpty_iff] at hc
      obtain ⟨⟨s, hs, rfl⟩, hne, hlen⟩ := hc
      have hsn := splits_below_nodup t hT s hs
      have hne' : s.below.filter (kept t S rev).contains ≠ [] := by
        intro h0; rw [h0] at hne; simp [sortS] at hne
      obtain ⟨x, hx⟩ := exists_mem_of_ne_nil hne'
      simp only [List.mem_filter, List.contains_eq_mem, decide_eq_true_eq] at hx
      have hlen' : (s.below.filter (kept t S rev).contains).length ≠ (kept t S rev).length := by
        rw [← (sortS_perm _).length_eq]; exact hlen
      obtain ⟨y, hy, hym⟩ := exists_out_of_short hK hsn hlen'
      obtain ⟨s', hs', e⟩ := R.fwd s hs ⟨x, hx.2, hx.1⟩ ⟨y, hy, hym⟩
      simp only [clades, List.mem_map]
      exact ⟨s', hs', key s hs s' hs' e⟩
  · by_cases hlk : lensOK t = true
    · right
      simp only [List.all_eq_true, beq_iff_eq]
      intro a ha b hb
      rw [rootDist_eq_belowW, rootDist_eq_belowW, rootDist_eq_belowW, rootDist_eq_belowW]
      exact R.depth (hl hlk) a b ha hb
    · left; simpa using hlk

/-! ## binary trees stay binary -/

@[simp] theorem reattach_binaryBelow (c : T) : (reattach c).binaryBelow = c.binaryBelow := by
  obtain ⟨d, p, k⟩ := c; rfl

theorem binaryL_append (a b : Kids) : binaryL (a ++ b) = (binaryL a && binaryL b) := by
  induction a with
  | nil => simp [binaryL]
  | cons et r ih => obtain ⟨e, t⟩ := et; simp [binaryL, ih, Bool.and_assoc]

theorem binaryL_single (e : EdgeD) (c : T) : binaryL [(e, c)] = c.binaryBelow := by simp [binaryL]

def OutBin : Out → Prop
  | .notFound => True
  | .repl t' => t'.binaryBelow = true
  | .gone => True
  | .splice _ c => c.binaryBelow = true

def KOutBin (n : Nat) : KOut → Prop
  | .notFound => True
  | .set ks => ks.length = n ∧ binaryL ks = true
  | .del _ ks => ks.length + 1 = n ∧ binaryL ks = true
  | .spl _ ks _ _ c => ks.length + 1 = n ∧ binaryL ks = true ∧ c.binaryBelow = true

theorem finishNode_bin (d : NodeD) (p : Nat) (ko : KOut) (h : KOutBin 2 ko) : OutBin (finishNode d p ko) := by
  cases ko with
  | notFound => trivial
  | set ks =>
    obtain ⟨h1, h2⟩ := h
    show (T.node d p ks).binaryBelow = true
    simp [T.binaryBelow, h1, h2]
  | spl i ks ei e c =>
    obtain ⟨h1, h2, h3⟩ := h
    show (T.node d (pposDel p i) (ks ++ [(fuseEdge ei e (!c.isLeaf), c)])).binaryBelow = true
    simp [T.binaryBelow, binaryL_append, binaryL_single, h1, h2, h3]
  | del i ks =>
    obtain ⟨h1, h2⟩ := h
    match ks, h1, h2 with
    | [(e, c)], _, h2 =>
      show (reattach c).binaryBelow = true
      simpa [binaryL] using h2

mutual
theorem rmNode_bin (x : String) : ∀ t : T, t.binaryBelow = true → OutBin (rmNode x t)
  | .node d p [], _ => by
    simp only [rmNode]; split <;> trivial
  | .node d p (k :: ks), h => by
    simp only [rmNode]
    simp only [T.binaryBelow, Bool.and_eq_true, Bool.or_eq_true, beq_iff_eq] at h
    have hlen : (k :: ks).length = 2 := by
      rcases h.1 with h0 | h0
      · simp at h0
      · exact h0
    have := rmKids_bin x (k :: ks) h.2
    rw [hlen] at this
    exact finishNode_bin d p _ this
theorem rmKids_bin (x : String) : ∀ k : Kids, binaryL k = true → KOutBin k.length (rmKids x k)
  | [], _ => by simp [rmKids, KOutBin]
  | (e, t) :: r, h => by
    simp only [binaryL, Bool.and_eq_true] at h
    have h1 := rmNode_bin x t h.1
    have h2 := rmKids_bin x r h.2
    simp only [rmKids]
    cases hn : rmNode x t with
    | repl t' =>
      rw [hn] at h1
      exact ⟨rfl, by simp only [binaryL, Bool.and_eq_true]; exact ⟨h1, h.2⟩⟩
    | gone => exact ⟨rfl, h.2⟩
    | splice e' c =>
      rw [hn] at h1
      exact ⟨rfl, h.2, h1⟩
    | notFound =>
      cases hk : rmKids x r with
      | notFound => trivial
      | set ks' =>
        rw [hk] at h2; obtain ⟨a1, a2⟩ := h2
        exact ⟨by simp [a1], by simp only [binaryL, Bool.and_eq_true]; exact ⟨h.1, a2⟩⟩
      | del i ks' =>
        rw [hk] at h2; obtain ⟨a1, a2⟩ := h2
        exact ⟨by simp [← a1], by simp only [binaryL, Bool.and_eq_true]; exact ⟨h.1, a2⟩⟩
      | spl i ks' ei e' c =>
        rw [hk] at h2; obtain ⟨a1, a2, a3⟩ := h2
        exact ⟨by simp [← a1], by simp only [binaryL, Bool.and_eq_true]; exact ⟨h.1, a2⟩, a3⟩
end

mutual
theorem noSingle_of_binary : ∀ t : T, t.binaryBelow = true → t.noSingleBelow = true
  | .node _ _ k, h => by
    simp only [T.binaryBelow, Bool.and_eq_true, Bool.or_eq_true, beq_iff_eq] at h
    simp only [T.noSingleBelow, Bool.and_eq_true, bne_iff_ne, ne_eq]
    exact ⟨by rcases h.1 with h0 | h0 <;> omega, noSingleL_of_binaryL k h.2⟩
theorem noSingleL_of_binaryL : ∀ k : Kids, binaryL k = true → noSingleL k = true
  | [], _ => by simp [noSingleL]
  | (_, t) :: r, h => by
    simp only [binaryL, Bool.and_eq_true] at h
    simp only [noSingleL, Bool.and_eq_true]
    exact ⟨noSingle_of_binary t h.1, noSingleL_of_binaryL r h.2⟩
end

/-! ## rooted binary trees: the root is never suppressed -/

theorem removeTip_rootedBin (x : String) (t : T) (h2 : t.kids.length = 2) (hb : binaryL t.kids = true)
    (hnd : t.tipNames.Nodup) (hcount : 4 ≤ t.tipNames.length) (t' : T) (h : removeTip x t = .ok t') :
    t'.kids.length = 2 ∧ binaryL t'.kids = true ∧
      ∀ K : List String, (∀ a ∈ K, a ∈ t'.tipNames) → IndR K t.splits t'.splits := by
  have hroot : t.kids.length ≠ 1 := by omega
  have hns : t.noSingle = true := noSingleL_of_binaryL _ hb
  obtain ⟨t'', e1, hperm, _, hr'⟩ := removeTip_spec x t hroot hns hcount
  rw [h] at e1
  cases e1
  have hnd' : t'.tipNames.Nodup := hperm.nodup_iff.2 (hnd.erase x)
  have hxK : ∀ K : List String, (∀ a ∈ K, a ∈ t'.tipNames) → x ∉ K := by
    intro K hK hm
    have := hperm.mem_iff.1 (hK x hm)
    exact (hnd.mem_erase_iff.1 this).1 rfl
  obtain ⟨d, p, kids⟩ := t
  simp only [T.kids_node] at h2 hb hroot
  have hndk : (leavesL kids).Nodup := by
    rw [tipNames_of_ne1 _ (by simpa using hroot)] at hnd; exact hnd
  have B := rmKids_bin x kids hb
  rw [h2] at B
  have hr1 : (kids.length == 1) = false := by simp [hroot]
  simp only [removeTip, hr1, Bool.false_and, Bool.false_eq_true, if_false] at h
  rw [splits_node]
  cases hk : rmKids x kids with
  | notFound =>
    rw [hk] at h; cases h
    exact ⟨h2, hb, fun K _ => IndR.refl _⟩
  | set ks =>
    rw [hk] at h B; cases h
    obtain ⟨b1, b2⟩ := B
    refine ⟨b1, b2, fun K hK => ?_⟩
    have E := rmKids_indR K x (hxK K hK) kids hndk
    rw [hk] at E; exact E
  | spl i ks ei e c =>
    rw [hk] at h B; cases h
    obtain ⟨b1, b2, b3⟩ := B
    refine ⟨by simp; omega, by simp [binaryL_append, binaryL_single, b2, b3], fun K hK => ?_⟩
    have E := rmKids_indR K x (hxK K hK) kids hndk
    rw [hk] at E
    rw [splits_node, splitsL_append, splitsL_single]
    refine E _ ?_
    intro h2'
    have hc := flag_of_leaf K c h2'
    have hpos : 0 < ks.length := by omega
    simp [hc, hpos]
  | del i ks =>
    rw [hk] at h B
    obtain ⟨b1, b2⟩ := B
    match ks, b1, b2, h with
    | [(e, c)], _, b2, h =>
      cases h
      simp only [binaryL, Bool.and_true] at b2
      simp only [T.kids_node] at hr'
      have hcb : (c.kids.length = 0 ∨ c.kids.length = 2) ∧ binaryL c.kids = true := by
        obtain ⟨dc, pc, kc⟩ := c
        simpa [T.binaryBelow] using b2
      have hc0 : c.kids ≠ [] := by
        intro h0
        have hl : 3 ≤ (T.node c.d 0 c.kids).tipNames.length := by
          rw [hperm.length_eq, List.length_erase]
          split <;> omega
        rw [tipNames_of_ne1 _ (by simpa using hr')] at hl
        simp [h0, leavesL] at hl
      have hc2 : c.kids.length = 2 := by
        rcases hcb.1 with h0 | h0
        · exact absurd (List.length_eq_zero_iff.1 h0) hc0
        · exact h0
      refine ⟨by simpa using hc2, by simpa using hcb.2, fun K hK => ?_⟩
      have E := rmKids_indR K x (hxK K hK) kids hndk
      rw [hk] at E
      have E' : IndR K (splitsL kids) (splitsL [(e, c)]) := E
      rw [splitsL_single] at E'
      rw [splits_node]
      refine IndR.trans E' ?_
      rw [← splitsBelow_eq c]
      have hall : ∀ a ∈ K, a ∈ c.leaves := by
        intro a ha
        have := hK a ha
        rw [tipNames_of_ne1 _ (by simpa using hr')] at this
        simp only [T.kids_node] at this
        rw [leaves_of_inner c hc0]; exact this
      have hcn : c.leaves.Nodup := by
        rw [tipNames_of_ne1 _ (by simpa using hr')] at hnd'
        simp only [T.kids_node] at hnd'
        rw [leaves_of_inner c hc0]; exact hnd'
      have := IndR.append (IndR.dropTop (K := K) ⟨c.leaves, e, c.isLeaf⟩ hcn hall) (IndR.refl c.splitsBelow)
      simpa using this

theorem removeLoop_rootedBin : ∀ (todo : List (String × Bool)) (t : T), t.kids.length = 2 → binaryL t.kids = true →
    t.tipNames.Nodup → (todo.map (·.1)).Nodup → (∀ n ∈ todo.map (·.1), n ∈ t.tipNames) →
    3 + (flagged todo).length ≤ t.tipNames.length →
    ∀ t', removeLoop todo t = .ok t' → ∀ K : List String, (∀ a ∈ K, a ∈ t'.tipNames) → IndR K t.splits t'.splits
  | [], t, _, _, _, _, _, _, t', h, K, _ => by
    cases h; exact IndR.refl _
  | (n, false) :: r, t, h2, hb, hnd, htodo, hsub, hcount, t', h, K, hK => by
    have hn : n ∈ t.tipNames := hsub n (by simp)
    have hf : flagged ((n, false) :: r) = flagged r := by simp [flagged]
    rw [hf] at hcount
    simp only [List.map_cons, List.nodup_cons] at htodo
    have hl : removeLoop r t = .ok t' := by
      simp only [removeLoop] at h
      simpa [hn] using h
    exact removeLoop_rootedBin r t h2 hb hnd htodo.2 (fun m hm => hsub m (by simp at hm ⊢; exact Or.inr hm)) hcount t' hl K hK
  | (n, true) :: r, t, h2, hb, hnd, htodo, hsub, hcount, t', h, K, hK => by
    have hn : n ∈ t.tipNames := hsub n (by simp)
    have hf : flagged ((n, true) :: r) = n :: flagged r := by simp [flagged]
    rw [hf] at hcount
    simp only [List.map_cons, List.nodup_cons] at htodo
    have hroot : t.kids.length ≠ 1 := by omega
    have hns : t.noSingle = true := noSingleL_of_binaryL _ hb
    have hc4 : 4 ≤ t.tipNames.length := by simp at hcount; omega
    obtain ⟨t1, h1, hp, h3, h4⟩ := removeTip_spec n t hroot hns hc4
    obtain ⟨k2, kb, kI⟩ := removeTip_rootedBin n t h2 hb hnd hc4 t1 h1
    have hnd1 : t1.tipNames.Nodup := (hp.nodup_iff).2 (hnd.erase n)
    have hsub1 : ∀ m ∈ r.map (·.1), m ∈ t1.tipNames := by
      intro m hm
      have hmn : m ≠ n := by
        intro h; subst h; exact htodo.1 hm
      exact hp.mem_iff.2 ((List.mem_erase_of_ne hmn).2 (hsub m (by simp at hm ⊢; exact Or.inr hm)))
    have hc1 : 3 + (flagged r).length ≤ t1.tipNames.length := by
      rw [hp.length_eq, List.length_erase_of_mem hn]; simp at hcount; omega
    have hl : removeLoop r t1 = .ok t' := by
      simp only [removeLoop] at h
      simpa [hn, h1] using h
    obtain ⟨t'', g1, g2, _⟩ := removeLoop_spec r t1 h4 h3 hnd1 htodo.2 hsub1 hc1
    rw [hl] at g1; cases g1
    have hK1 : ∀ a ∈ K, a ∈ t1.tipNames := fun a ha => (List.mem_filter.1 (g2.mem_iff.1 (hK a ha))).1
    exact IndR.trans (kI K hK1) (removeLoop_rootedBin r t1 k2 kb hnd1 htodo.2 hsub1 hc1 t' hl K hK)

theorem removeLoop_rootedBin_shape : ∀ (todo : List (String × Bool)) (t : T), t.kids.length = 2 → binaryL t.kids = true →
    t.tipNames.Nodup → (todo.map (·.1)).Nodup → (∀ n ∈ todo.map (·.1), n ∈ t.tipNames) →
    3 + (flagged todo).length ≤ t.tipNames.length →
    ∀ t', removeLoop todo t = .ok t' → t'.kids.length = 2 ∧ binaryL t'.kids = true
  | [], t, h2, hb, _, _, _, _, t', h => by
    cases h; exact ⟨h2, hb⟩
  | (n, false) :: r, t, h2, hb, hnd, htodo, hsub, hcount, t', h => by
    have hn : n ∈ t.tipNames := hsub n (by simp)
    have hf : flagged ((n, false) :: r) = flagged r := by simp [flagged]
    rw [hf] at hcount
    simp only [List.map_cons, List.nodup_cons] at htodo
    have hl : removeLoop r t = .ok t' := by
      simp only [removeLoop] at h
      simpa [hn] using h
    exact removeLoop_rootedBin_shape r t h2 hb hnd htodo.2 (fun m hm => hsub m (by simp at hm ⊢; exact Or.inr hm)) hcount t' hl
  | (n, true) :: r, t, h2, hb, hnd, htodo, hsub, hcount, t', h => by
    have hn : n ∈ t.tipNames := hsub n (by simp)
    have hf : flagged ((n, true) :: r) = n :: flagged r := by simp [flagged]
    rw [hf] at hcount
    simp only [List.map_cons, List.nodup_cons] at htodo
    have hroot : t.kids.length ≠ 1 := by omega
    have hns : t.noSingle = true := noSingleL_of_binaryL _ hb
    have hc4 : 4 ≤ t.tipNames.length := by simp at hcount; omega
    obtain ⟨t1, h1, hp, h3, h4⟩ := removeTip_spec n t hroot hns hc4
    obtain ⟨k2, kb, kI⟩ := removeTip_rootedBin n t h2 hb hnd hc4 t1 h1
    have hnd1 : t1.tipNames.Nodup := (hp.nodup_iff).2 (hnd.erase n)
    have hsub1 : ∀ m ∈ r.map (·.1), m ∈ t1.tipNames := by
      intro m hm
      have hmn : m ≠ n := by
        intro h; subst h; exact htodo.1 hm
      exact hp.mem_iff.2 ((List.mem_erase_of_ne hmn).2 (hsub m (by simp at hm ⊢; exact Or.inr hm)))
    have hc1 : 3 + (flagged r).length ≤ t1.tipNames.length := by
      rw [hp.length_eq, List.length_erase_of_mem hn]; simp at hcount; omega
    have hl : removeLoop r t1 = .ok t' := by
      simp only [removeLoop] at h
      simpa [hn, h1] using h
    exact removeLoop_rootedBin_shape r t1 k2 kb hnd1 htodo.2 hsub1 hc1 t' hl

end Gotree.C06
