/-
  C13 — PhyloXML: decode ∘ encode at element level, cladeToTree, renumbering.
-/
import Gotree.Lemmas.C13

namespace Gotree.C13
open Gotree
open Px

mutual
/-- the `Clade` struct that `xml.Unmarshal` builds from what `writeClade` wrote -/
def cladeOf : Option EdgeD → T → Clade
  | oe, .node d _ k =>
    .mk d.name
      (match oe with | none => none | some e => if e.len != NIL then some e.len else none)
      (match oe with | none => none | some e => if !k.isEmpty && e.sup != NIL then some e.sup else none)
      "" "" (cladesOf k)
def cladesOf : Kids → List Clade
  | [] => []
  | (e, t) :: r => cladeOf (some e) t :: cladesOf r
end

/- ### renumbering does not touch what is kept -/

mutual
theorem strip_renumberGo : ∀ (t : T) (n : Nat), strip (renumberGo t n).1 = strip t
  | .node d p k, n => by
    simp only [renumberGo, strip]
    rw [stripL_renumberL k n]
theorem stripL_renumberL : ∀ (k : Kids) (n : Nat), stripL (renumberL k n).1 = stripL k
  | [], _ => rfl
  | (e, t) :: r, n => by
    simp only [renumberL, stripL]
    rw [strip_renumberGo t (n + 1), stripL_renumberL r _]
end

theorem strip_renumber (t : T) : strip (renumber t) = strip t := strip_renumberGo t 0

/- ### cladeToTree ∘ cladeOf -/

theorem toT_eq (name : String) (bl conf : Option Rat) (k : List Clade) :
    Clade.toT (.mk name bl conf "" "" k) = .node ⟨name, []⟩ 0 (toKids k) := by
  simp only [Clade.toT, Clade.label]
  by_cases h : name = "" <;> simp [h]

mutual
theorem strip_toT : ∀ (p : Rat → Bool) (oe : Option EdgeD) (t : T), pxKids p t.kids = true →
    strip (cladeOf oe t).toT = strip t
  | p, oe, .node d pp k, h => by
    simp only [cladeOf, toT_eq, strip]
    rw [stripL_toKids p k h]
theorem stripL_toKids : ∀ (p : Rat → Bool) (k : Kids), pxKids p k = true → stripL (toKids (cladesOf k)) = stripL k
  | _, [], _ => rfl
  | p, (e, .node d pp k) :: r, h => by
    simp only [pxKids, pxNode, Bool.and_eq_true] at h
    have ih1 := strip_toT p (some e) (.node d pp k) h.1.2
    have ih2 := stripL_toKids p r h.2
    simp only [cladeOf] at ih1
    simp only [cladesOf, cladeOf, toKids, stripL, ih1, ih2]
    congr 2
    cases k with
    | nil =>
      have hs : e.sup = NIL := by have := h.1.1.2; simp at this; exact this.2
      simp only [cladesOf, hs]
      by_cases hl : e.len = NIL <;> simp [hl]
    | cons x k' =>
      obtain ⟨ex, tx⟩ := x
      simp only [cladesOf]
      by_cases hl : e.len = NIL <;> by_cases hs : e.sup = NIL <;> simp [hl, hs]
end

/- ### decode ∘ encode at element level -/

theorem childrenTagged_encKids (N : NumCodec) (tag : String) (h : tag ≠ "clade") (k : Kids) :
    childrenTagged tag (encKids N k) = [] := by
  induction k with
  | nil => simp [encKids, childrenTagged]
  | cons et r ih =>
    obtain ⟨e, t⟩ := et
    cases t with
    | node d p kk =>
      simp only [encKids, encClade, childrenTagged, List.filter_cons, Xml.tag?] at ih ⊢
      have : (some "clade" == some tag) = false := by
        simp; exact fun h' => h h'.symm
      simp [this, ih]

def nameElems (name : String) : List Xml := if name != "" then [.elem "name" [] [.text name]] else []
def blElems (N : NumCodec) : Option Rat → List Xml
  | some q => [.elem "branch_length" [] [txt (N.fmt q)]]
  | none => []
def confElems (N : NumCodec) : Option Rat → List Xml
  | some q => [.elem "confidence" [("type", "bootstrap")] [txt (N.fmt q)]]
  | none => []

theorem chardata_txt (s : Txt) : (chardata [txt s]).toList = s := by
  simp [chardata, txt]

theorem childrenTagged_append (tag : String) (a b : List Xml) :
    childrenTagged tag (a ++ b) = childrenTagged tag a ++ childrenTagged tag b := by
  simp [childrenTagged]

theorem ct_name (tag name : String) :
    childrenTagged tag (nameElems name) = if tag = "name" then nameElems name else [] := by
  unfold nameElems childrenTagged
  by_cases hn : name = "" <;> by_cases ht : tag = "name" <;> simp [hn, ht, Xml.tag?]
  exact fun h => ht h.symm

theorem ct_bl (N : NumCodec) (tag : String) (bl : Option Rat) :
    childrenTagged tag (blElems N bl) = if tag = "branch_length" then blElems N bl else [] := by
  unfold blElems childrenTagged
  cases bl <;> by_cases ht : tag = "branch_length" <;> simp [ht, Xml.tag?]
  exact fun h => ht h.symm

theorem ct_conf (N : NumCodec) (tag : String) (c : Option Rat) :
    childrenTagged tag (confElems N c) = if tag = "confidence" then confElems N c else [] := by
  unfold confElems childrenTagged
  cases c <;> by_cases ht : tag = "confidence" <;> simp [ht, Xml.tag?]
  exact fun h => ht h.symm

theorem decKids_skip (N : NumCodec) (a : List Xml) (K : List Xml) (h : childrenTagged "clade" a = []) :
    decKids N (a ++ K) = decKids N K := by
  induction a with
  | nil => rfl
  | cons x r ih =>
    simp only [childrenTagged, List.filter_cons] at h
    split at h
    · simp at h
    · rename_i hx
      simp only [List.cons_append, decKids, hx]
      exact ih h

/-- decoding one `<clade>` element whose children are: optional name, optional branch length,
    optional confidence, then sub-clades `K` that decode to `cs` -/
theorem decClade_elem (N : NumCodec) (NL : NumLaws N) (name : String) (bl conf : Option Rat) (K : List Xml) (cs : List Clade)
    (hbl : ∀ q, bl = some q → NL.dom q = true) (hconf : ∀ q, conf = some q → NL.dom q = true)
    (hK : decKids N K = .ok cs) (hKt : ∀ tag, tag ≠ "clade" → childrenTagged tag K = []) :
    decClade N (.elem "clade" [] (nameElems name ++ (blElems N bl ++ confElems N conf) ++ K)) =
      .ok (.mk name bl conf "" "" cs) := by
  have hct : ∀ tag, tag ≠ "clade" →
      childrenTagged tag (nameElems name ++ (blElems N bl ++ confElems N conf) ++ K) =
        (if tag = "name" then nameElems name else []) ++
        ((if tag = "branch_length" then blElems N bl else []) ++ (if tag = "confidence" then confElems N conf else [])) := by
    intro tag ht
    simp only [childrenTagged_append, ct_name, ct_bl, ct_conf, hKt tag ht, List.append_nil]
  have hdk : decKids N (nameElems name ++ (blElems N bl ++ confElems N conf) ++ K) = .ok cs := by
    rw [decKids_skip N _ K, hK]
    simp only [childrenTagged_append, ct_name, ct_bl, ct_conf]
    simp
  have hname : strField "name" (nameElems name ++ (blElems N bl ++ confElems N conf) ++ K) = some name := by
    unfold strField
    rw [hct "name" (by decide)]
    by_cases hn : name = "" <;> simp [nameElems, hn, chardata, Xml.kids]
  have hblf : floatField N "branch_length" (nameElems name ++ (blElems N bl ++ confElems N conf) ++ K) =
      (match bl with | some q => .val q | none => .absent) := by
    unfold floatField
    rw [hct "branch_length" (by decide)]
    cases bl with
    | none => simp [blElems]
    | some q =>
      have := NL.parse_fmt q (hbl q rfl)
      simp [blElems, floatVals, Xml.kids, chardata_txt, this]
  have hcf : floatField N "confidence" (nameElems name ++ (blElems N bl ++ confElems N conf) ++ K) =
      (match conf with | some q => .val q | none => .absent) := by
    unfold floatField
    rw [hct "confidence" (by decide)]
    cases conf with
    | none => simp [confElems]
    | some q =>
      have := NL.parse_fmt q (hconf q rfl)
      simp [confElems, floatVals, Xml.kids, chardata_txt, this]
  have htax : childrenTagged "taxonomy" (nameElems name ++ (blElems N bl ++ confElems N conf) ++ K) = [] := by
    rw [hct "taxonomy" (by decide)]; simp
  rw [decClade]
  simp only [hname, hblf, hcf, htax, hdk]
  cases bl <;> cases conf <;> rfl

def blOf (oe : Option EdgeD) : Option Rat :=
  match oe with | none => none | some e => if e.len != NIL then some e.len else none
def confOf (oe : Option EdgeD) (k : Kids) : Option Rat :=
  match oe with | none => none | some e => if !k.isEmpty && e.sup != NIL then some e.sup else none

theorem encClade_eq (N : NumCodec) (oe : Option EdgeD) (d : NodeD) (p : Nat) (k : Kids) :
    encClade N oe (.node d p k) =
      .elem "clade" [] (nameElems d.name ++ (blElems N (blOf oe) ++ confElems N (confOf oe k)) ++ encKids N k) := by
  cases oe with
  | none => simp [encClade, nameElems, blElems, confElems, blOf, confOf]
  | some e =>
    simp only [encClade, nameElems, blOf, confOf]
    by_cases hl : e.len = NIL <;> by_cases hs : (!k.isEmpty && e.sup != NIL) = true <;>
      simp [hl, hs, blElems, confElems]

theorem cladeOf_eq (oe : Option EdgeD) (d : NodeD) (p : Nat) (k : Kids) :
    cladeOf oe (.node d p k) = .mk d.name (blOf oe) (confOf oe k) "" "" (cladesOf k) := by
  cases oe <;> simp [cladeOf, blOf, confOf]

/-- the numbers written for a node are in the codec's domain -/
def oeOK (p : Rat → Bool) (oe : Option EdgeD) (k : Kids) : Prop :=
  (∀ q, blOf oe = some q → p q = true) ∧ (∀ q, confOf oe k = some q → p q = true)

theorem oeOK_of_pxNode (p : Rat → Bool) (e : EdgeD) (d : NodeD) (pp : Nat) (k : Kids)
    (h : pxNode p e (.node d pp k) = true) : oeOK p (some e) k := by
  simp only [pxNode, Bool.and_eq_true, Bool.or_eq_true, beq_iff_eq] at h
  constructor
  · intro q hq
    simp only [blOf] at hq
    split at hq
    · injection hq with hq; subst hq
      rcases h.1.1 with h1 | h1
      · simp_all
      · exact h1
    · cases hq
  · intro q hq
    simp only [confOf] at hq
    split at hq
    · injection hq with hq; subst hq
      rename_i hc
      cases k with
      | nil => simp at hc
      | cons x r =>
        have := h.1.2
        simp only [Bool.or_eq_true, beq_iff_eq] at this
        rcases this with h1 | h1
        · simp_all
        · exact h1
    · cases hq

mutual
theorem dec_enc_clade (N : NumCodec) (NL : NumLaws N) : ∀ (oe : Option EdgeD) (t : T),
    oeOK NL.dom oe t.kids → pxKids NL.dom t.kids = true → decClade N (encClade N oe t) = .ok (cladeOf oe t)
  | oe, .node d p k, ho, hk => by
    rw [encClade_eq, cladeOf_eq]
    exact decClade_elem N NL d.name (blOf oe) (confOf oe k) (encKids N k) (cladesOf k) ho.1 ho.2
      (dec_enc_kids N NL k hk) (fun tag ht => childrenTagged_encKids N tag ht k)
theorem dec_enc_kids (N : NumCodec) (NL : NumLaws N) : ∀ (k : Kids), pxKids NL.dom k = true →
    decKids N (encKids N k) = .ok (cladesOf k)
  | [], _ => rfl
  | (e, .node d p kk) :: r, h => by
    simp only [pxKids, Bool.and_eq_true] at h
    have hn := h.1
    have h1 := dec_enc_clade N NL (some e) (.node d p kk) (oeOK_of_pxNode NL.dom e d p kk hn)
      (by simp only [pxNode, Bool.and_eq_true] at hn; exact hn.2)
    have h2 := dec_enc_kids N NL r h.2
    have htag : (encClade N (some e) (.node d p kk)).tag? = some "clade" := by
      rw [encClade_eq]; rfl
    simp only [encKids, cladesOf, decKids, htag, beq_self_eq_true, if_true, h1, h2]
end

theorem tipsNamed_cladeOf : ∀ (p : Rat → Bool) (oe : Option EdgeD) (t : T),
    (!t.kids.isEmpty || t.name != "") = true → pxKids p t.kids = true → (cladeOf oe t).tipsNamed = true := by
  intro p oe t
  induction t using T.induct generalizing oe with
  | h d pp k ih =>
    intro hroot hk
    simp only [T.kids_node] at hk hroot
    rw [cladeOf_eq]
    simp only [Clade.tipsNamed]
    have hkids : tipsNamedL (cladesOf k) = true := by
      clear hroot
      induction k with
      | nil => rfl
      | cons et r ihr =>
        obtain ⟨e, t⟩ := et
        simp only [pxKids, Bool.and_eq_true] at hk
        simp only [cladesOf, tipsNamedL, Bool.and_eq_true]
        refine ⟨?_, ihr (fun x hx => ih x (by simp [hx])) hk.2⟩
        cases t with
        | node d' p' k' =>
          have hn := hk.1
          simp only [pxNode, Bool.and_eq_true] at hn
          apply ih (e, .node d' p' k') (by simp) (some e)
          · cases k' with
            | nil => have := hn.1.2; simp at this; simp [T.name, this.1]
            | cons _ _ => simp
          · exact hn.2
    cases k with
    | nil =>
      simp [T.name] at hroot
      simp [cladesOf, tipsNamedL, hroot]
    | cons x r =>
      cases hcs : cladesOf (x :: r) with
      | nil => obtain ⟨e, t⟩ := x; simp [cladesOf] at hcs
      | cons c cs => rw [hcs] at hkids; simp [hkids]

end Gotree.C13
