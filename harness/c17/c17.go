// Package c17: the NNI neighbourhood (tree/rearrange.go, cmd/nni.go).
//
// One case = one binary tree and one full run of NNIRearranger.Rearrange on the
// REAL code, with Apply / look / Undo / look in the callback.  Inputs: binary
// trees on >= 4 tips, unrooted and rooted, every root position (the Go tree is
// re-rooted at every inner node; a rooted twin gets its root on a branch next
// to that node), parent positions as the parser makes them (0) or arbitrary.
package c17

import (
	"fmt"
	"os"
	"path/filepath"
	"reflect"
	"strconv"
	"strings"
	"time"

	"verifharness/core"

	"github.com/evolbioinfo/gotree/io/newick"
	"github.com/evolbioinfo/gotree/tree"
)

func opts(g *core.G, thorough bool) core.TreeOpts {
	o := core.DefaultOpts()
	o.MinTips, o.MaxTips = 4, 9
	if thorough {
		o.MaxTips = 14
		if g.Chance(0.004) {
			o.MinTips, o.MaxTips = 25, 40 // a few large trees
		}
	}
	if g.Chance(0.15) {
		o.MinTips, o.MaxTips = 4, 5
	}
	o.Multif = 0
	o.Rooted = 0
	o.Lengths = 2
	o.Supports = 2
	o.InnerNames = 0.1
	if g.Chance(0.2) {
		o.Comments = 0.3 // node and branch comments must come back after Undo, too
	}
	return o
}

func binary(n *core.N, isRoot bool) bool {
	k := len(n.Kids)
	if isRoot {
		if k != 2 && k != 3 {
			return false
		}
	} else if k != 0 && k != 2 {
		return false
	}
	for _, c := range n.Kids {
		if !binary(c, false) {
			return false
		}
	}
	return true
}

// randomPPos gives every non-root node an arbitrary parent position.
func randomPPos(g *core.G, n *core.N, isRoot bool) {
	if !isRoot {
		n.PPos = g.Intn(len(n.Kids) + 1)
	}
	for _, k := range n.Kids {
		randomPPos(g, k, false)
	}
}

// distinctLengths makes the branch data pairwise different, so that an exchange of the
// data of two branches is visible.
func distinctLengths(n *core.N) {
	i := 0
	var rec func(x *core.N)
	rec = func(x *core.N) {
		for _, k := range x.Kids {
			i++
			k.E.Len = float64(i) / 16
			if len(k.Kids) > 0 && x.Name == "" {
				k.E.Sup = float64(i%17) / 16
			}
			rec(k)
		}
	}
	rec(n)
}

// rootOnEdge returns the rooted tree whose root sits on the branch between the root of the
// unrooted tree n and its child number i.
func rootOnEdge(g *core.G, n *core.N, i int) *core.N {
	n = n.Clone()
	child := n.Kids[i]
	var rest []*core.N
	for j, k := range n.Kids {
		if j != i {
			rest = append(rest, k)
		}
	}
	low := &core.N{Name: n.Name, Comments: n.Comments, PPos: g.Intn(len(rest) + 1), Kids: rest, E: core.NewE()}
	if child.E.Len >= 0 {
		low.E.Len = child.E.Len / 2
		child.E.Len = child.E.Len / 2
	}
	low.E.Sup = child.E.Sup
	if len(child.Kids) == 0 {
		low.E.Sup = -1
	}
	if len(rest) < 2 {
		low.E.Sup = -1
	}
	root := &core.N{}
	if g.Chance(0.5) {
		root.Kids = []*core.N{child, low}
	} else {
		root.Kids = []*core.N{low, child}
	}
	return root
}

func wfString(wf *core.WF) string {
	if wf.OK() {
		return "ok"
	}
	return core.Escape(strings.Join(wf.Problems, " / "))
}

// look observes the heap: α (with the harness' checker) and, when α is defined, the text.
func look(t *tree.Tree) (wf, dump, text string) {
	var n *core.N
	var w *core.WF
	if p, msg := core.Safe(func() { n, w = core.Alpha(t) }); p {
		return "panic%3A" + core.Escape(msg), "", ""
	}
	if !w.OK() || n == nil {
		return wfString(w), "", ""
	}
	if p, msg := core.Safe(func() { text = t.Newick() }); p {
		return "newick-panic%3A" + core.Escape(msg), n.Dump(), ""
	}
	return "ok", n.Dump(), core.Escape(text)
}

func outcome(f func() error) string {
	var err error
	if p, msg := core.Safe(func() { err = f() }); p {
		return "panic:" + core.Escape(msg)
	}
	if err != nil {
		return "err:" + core.Escape(err.Error())
	}
	return "ok"
}

// doEnum runs the real enumeration on the tree described by n.
// mode: "plain", "double" (Apply and Undo called twice each), "stop:k" (callback answers false at call k),
// "collect" / "collect-rev" / "collect-mix": the callback only KEEPS the proposals; they are applied
// (each followed by Undo) after Rearrange has returned, in enumeration order / in reverse order /
// interleaved (even positions, then odd positions from the end).
func doEnum(c *core.Ctx, mode string, n *core.N) {
	t, err := core.Build(n)
	if err != nil {
		panic(err)
	}
	before := n.Dump()
	_, d0, text0 := look(t)
	if d0 != before {
		panic("c17: built tree differs from the request")
	}
	stop := 0
	double := mode == "double"
	score := mode == "score"
	if strings.HasPrefix(mode, "stop:") {
		stop, _ = strconv.Atoi(mode[5:])
	}
	same := func(s, ref string) string {
		if s == ref {
			return "="
		}
		return s
	}
	var recs strings.Builder
	calls := 0
	collect := strings.HasPrefix(mode, "collect")
	var kept []tree.Rearrangement
	visit := func(re tree.Rearrangement) {
		a := outcome(re.Apply)
		if double && a == "ok" {
			a = outcome(re.Apply)
		}
		wf1, d1, t1 := look(t)
		if score {
			// a tree search scores the neighbour: a read-only query that lists the branches of the tree
			// between Apply and Undo, and nothing that lists them after Undo (seeded change C17-10)
			core.Safe(func() { t.SumBranchLengths(); _ = len(t.Edges()) })
		}
		u := outcome(re.Undo)
		if double && u == "ok" {
			u = outcome(re.Undo)
		}
		var wf2, d2, t2 string
		if score {
			wf2, d2 = "ok", before // not looked at: the α walk would list the branches again
			if p, msg := core.Safe(func() { t2 = core.Escape(t.Newick()) }); p {
				wf2 = "newick-panic%3A" + core.Escape(msg)
			}
		} else {
			wf2, d2, t2 = look(t)
		}
		fmt.Fprintf(&recs, "%s;%s;%s;%s;%s;%s;%s;%s|", a, wf1, d1, t1, u, wf2, same(d2, before), same(t2, text0))
	}
	r := &tree.NNIRearranger{}
	runOut := outcome(func() error {
		r.Rearrange(t, func(re tree.Rearrangement) bool {
			calls++
			if collect {
				kept = append(kept, re)
				return true
			}
			visit(re)
			return !(stop > 0 && calls >= stop)
		})
		if collect {
			var order []int
			switch mode {
			case "collect-rev":
				for i := len(kept) - 1; i >= 0; i-- {
					order = append(order, i)
				}
			case "collect-mix":
				for i := 0; i < len(kept); i += 2 {
					order = append(order, i)
				}
				for i := len(kept) - 1; i >= 0; i-- {
					if i%2 == 1 {
						order = append(order, i)
					}
				}
			default:
				for i := range kept {
					order = append(order, i)
				}
			}
			for _, i := range order {
				visit(kept[i])
			}
		}
		return nil
	})
	wfF, dF, tF := look(t)
	if runOut != "ok" {
		wfF = core.Escape("Rearrange " + runOut)
	}
	c.Emit("C17.enum", mode, before, text0, recs.String(), strconv.Itoa(calls), wfF, same(dF, before), same(tF, text0))
}

// ---- pointer-level observation (tie of Model/C17Heap.lean) ----

// heapView reads, through the public accessors and pointer identity, the records of the six
// nodes an nni remembers (their neigh and br slices) and of the five branches between them
// (left, right).  The node pointers are read from the unexported fields of the nni by reflection.
type heapView struct {
	nodes  [6]*tree.Node // n1 n2 a(n1_1) b(n1_2) c(n2_1) d(n2_2)
	edges  [5]*tree.Edge // e0, and the branches of a b c d
	nodeId map[*tree.Node]string
	edgeId map[*tree.Edge]string
	cross  bool
}

var refNames = [6]string{"n1", "n2", "a", "b", "c", "d"}
var nniFields = [6]string{"n1", "n2", "n1_1", "n1_2", "n2_1", "n2_2"}

func newHeapView(t *tree.Tree, re tree.Rearrangement) (*heapView, string) {
	v := reflect.ValueOf(re)
	if v.Kind() != reflect.Ptr || v.Elem().Kind() != reflect.Struct {
		return nil, "rearrangement is not a pointer to a struct"
	}
	byPtr := map[uintptr]*tree.Node{}
	hv := &heapView{nodeId: map[*tree.Node]string{}, edgeId: map[*tree.Edge]string{}}
	for i, n := range t.Nodes() {
		byPtr[reflect.ValueOf(n).Pointer()] = n
		hv.nodeId[n] = fmt.Sprintf("x%d", i)
	}
	for i, e := range t.Edges() {
		hv.edgeId[e] = fmt.Sprintf("y%d", i)
	}
	for i, f := range nniFields {
		fv := v.Elem().FieldByName(f)
		if !fv.IsValid() || fv.Kind() != reflect.Ptr {
			return nil, "nni has no pointer field " + f
		}
		n := byPtr[fv.Pointer()]
		if n == nil {
			return nil, "nni field " + f + " is not a node of the tree"
		}
		hv.nodes[i] = n
		hv.nodeId[n] = refNames[i]
	}
	cv := v.Elem().FieldByName("cross")
	if !cv.IsValid() || cv.Kind() != reflect.Bool {
		return nil, "nni has no bool field cross"
	}
	hv.cross = cv.Bool()
	// the five branches, by their position in the slices of the two centre nodes
	find := func(from, to *tree.Node) *tree.Edge {
		for i, nb := range from.Neigh() {
			if nb == to && i < len(from.Edges()) {
				return from.Edges()[i]
			}
		}
		return nil
	}
	pairs := [5][2]int{{0, 1}, {0, 2}, {0, 3}, {1, 4}, {1, 5}}
	names := [5]string{"e0", "ea", "eb", "ec", "ed"}
	for i, p := range pairs {
		e := find(hv.nodes[p[0]], hv.nodes[p[1]])
		if e == nil {
			return nil, "no branch between " + refNames[p[0]] + " and " + refNames[p[1]]
		}
		hv.edges[i] = e
		hv.edgeId[e] = names[i]
	}
	return hv, ""
}

func (hv *heapView) nid(n *tree.Node) string {
	if s, ok := hv.nodeId[n]; ok {
		return s
	}
	return "x999999"
}

// snapshot: N1/N2/A/B/C/D/E0/EA/EB/EC/ED ; a node is "neigh,ids:br,ids", a branch "left>right"
func (hv *heapView) snapshot() string {
	var parts []string
	for _, n := range hv.nodes {
		var ng, br []string
		for _, x := range n.Neigh() {
			ng = append(ng, hv.nid(x))
		}
		for _, e := range n.Edges() {
			if s, ok := hv.edgeId[e]; ok {
				br = append(br, s)
			} else {
				br = append(br, "y999999")
			}
		}
		parts = append(parts, strings.Join(ng, ",")+":"+strings.Join(br, ","))
	}
	for _, e := range hv.edges {
		parts = append(parts, hv.nid(e.Left())+">"+hv.nid(e.Right()))
	}
	return strings.Join(parts, "/")
}

// pathOf: child-index path (as in the α dump) from the root to n
func pathOf(t *tree.Tree, target *tree.Node) string {
	var res []string
	var rec func(cur, prev *tree.Node, p []string) bool
	rec = func(cur, prev *tree.Node, p []string) bool {
		if cur == target {
			res = p
			return true
		}
		j := 0
		for _, nb := range cur.Neigh() {
			if nb == prev {
				continue
			}
			if rec(nb, cur, append(append([]string(nil), p...), strconv.Itoa(j))) {
				return true
			}
			j++
		}
		return false
	}
	rec(t.Root(), nil, nil)
	return strings.Join(res, ".")
}

// doHeap: for every rearrangement the records of the piece before Apply, after Apply, after Undo.
// variant "rr": the tree is re-rooted (real Reroot, at an inner node drawn at random) after the nni
// was created and again between Apply and Undo, so that the root may lie behind any of the four
// outer nodes (commit 48c858a); it is re-rooted at its original root before the next rearrangement.
func doHeap(c *core.Ctx, variant string, seed int64, n *core.N) {
	t, err := core.Build(n)
	if err != nil {
		panic(err)
	}
	g := core.NewG(seed)
	orig := t.Root()
	if orig.Nneigh() < 2 {
		variant = "plain" // Reroot refuses a tip: the original root could not be restored
	}
	var inner []*tree.Node
	for _, x := range t.Nodes() {
		if x.Nneigh() >= 2 {
			inner = append(inner, x)
		}
	}
	reroot := func() string {
		if variant != "rr" || len(inner) == 0 {
			return "ok"
		}
		return outcome(func() error { return t.Reroot(inner[g.Intn(len(inner))]) })
	}
	var recs strings.Builder
	r := &tree.NNIRearranger{}
	runOut := outcome(func() error {
		r.Rearrange(t, func(re tree.Rearrangement) bool {
			hv, msg := newHeapView(t, re)
			if hv == nil {
				fmt.Fprintf(&recs, "noview;%s;;;;;|", core.Escape(msg))
				return true
			}
			path := pathOf(t, hv.nodes[0])
			r1 := reroot()
			s0 := hv.snapshot()
			a := outcome(re.Apply)
			s1 := hv.snapshot()
			r2 := reroot()
			s1b := hv.snapshot()
			u := outcome(re.Undo)
			s2 := hv.snapshot()
			r3 := "ok"
			if variant == "rr" {
				r3 = outcome(func() error { return t.Reroot(orig) })
			}
			rr := "ok"
			if r1 != "ok" || r2 != "ok" || r3 != "ok" {
				rr = "reroot-failed"
			}
			_, wf := core.Alpha(t)
			wfs := wfString(wf)
			fmt.Fprintf(&recs, "%s+%s+%s+%s;%v;%s;%s;%s;%s;%s|", a, u, rr, wfs, hv.cross, path, s0, s1, s1b, s2)
			return true
		})
		return nil
	})
	c.Emit("C17.heap", variant, strconv.FormatInt(seed, 10), n.Dump(), runOut, recs.String())
}

// parseDump reads one Newick text with the repository's parser and returns the α dump.
func parseDump(text string) (string, string) {
	var t *tree.Tree
	var err error
	if p, msg := core.Safe(func() { t, err = newick.NewParser(strings.NewReader(text)).Parse() }); p {
		return "", "parse-panic%3A" + core.Escape(msg)
	}
	if err != nil {
		return "", "parse-error%3A" + core.Escape(err.Error())
	}
	n, wf := core.Alpha(t)
	if !wf.OK() {
		return "", wfString(wf)
	}
	return n.Dump(), "ok"
}

// doCLI writes the tree to a file, runs `gotree nni -i file` (the binary built from the working
// tree) and reports every output line re-read by the repository's Newick parser.
func doCLI(c *core.Ctx, n *core.N) {
	t, err := core.Build(n)
	if err != nil {
		panic(err)
	}
	text := t.Newick()
	before, st := parseDump(text)
	if st != "ok" {
		panic("c17: cannot re-read the input text: " + st)
	}
	file := c.TmpFile(text + "\n")
	r := c.RunCLI("", 30*time.Second, "nni", "-i", file)
	out := "ok"
	if r.Timeout {
		out = "timeout"
	} else if r.Exit != 0 {
		out = fmt.Sprintf("exit:%d", r.Exit)
	}
	var recs strings.Builder
	lines := strings.Split(strings.TrimRight(r.Stdout, "\n"), "\n")
	if strings.TrimSpace(r.Stdout) == "" {
		lines = nil
	}
	for _, l := range lines {
		d, st := parseDump(l)
		fmt.Fprintf(&recs, "%s;%s;%s|", st, d, core.Escape(l))
	}
	c.Emit("C17.cli", n.Dump(), before, core.Escape(text), out, recs.String(), core.Escape(strings.TrimSpace(r.Stderr)))
}

// doCLI2: two trees (on different tip names) in one input file: the loop over the input trees.
func doCLI2(c *core.Ctx, a, b *core.N) { doCLI2x(c, a, b, false) }

// doCLI2x with toFile: the same with `-o file` (op C17.cli2o): the output file must hold the
// neighbours of BOTH trees.
func doCLI2x(c *core.Ctx, a, b *core.N, toFile bool) {
	ta, err := core.Build(a)
	if err != nil {
		panic(err)
	}
	tb, err := core.Build(b)
	if err != nil {
		panic(err)
	}
	textA, textB := ta.Newick(), tb.Newick()
	beforeA, st := parseDump(textA)
	if st != "ok" {
		panic("c17: cannot re-read the input text: " + st)
	}
	beforeB, st := parseDump(textB)
	if st != "ok" {
		panic("c17: cannot re-read the input text: " + st)
	}
	file := c.TmpFile(textA + "\n" + textB + "\n")
	var r core.CLIResult
	op := "C17.cli2"
	if toFile {
		op = "C17.cli2o"
		outf := c.TmpFile("")
		r = c.RunCLI("", 30*time.Second, "nni", "-i", file, "-o", outf)
		bs, _ := os.ReadFile(outf)
		if strings.TrimSpace(r.Stdout) != "" {
			r.Stdout = "STDOUT-NOT-EMPTY\n" + string(bs)
		} else {
			r.Stdout = string(bs)
		}
	} else {
		r = c.RunCLI("", 30*time.Second, "nni", "-i", file)
	}
	out := "ok"
	if r.Timeout {
		out = "timeout"
	} else if r.Exit != 0 {
		out = fmt.Sprintf("exit:%d", r.Exit)
	}
	var recs strings.Builder
	lines := strings.Split(strings.TrimRight(r.Stdout, "\n"), "\n")
	if strings.TrimSpace(r.Stdout) == "" {
		lines = nil
	}
	for _, l := range lines {
		d, st := parseDump(l)
		fmt.Fprintf(&recs, "%s;%s;%s|", st, d, core.Escape(l))
	}
	c.Emit(op, a.Dump(), b.Dump(), beforeA, beforeB, out, recs.String(), core.Escape(strings.TrimSpace(r.Stderr)))
}

// doGlue exercises the glue of cmd/nni.go: input from stdin, output to a file (-o), a second
// record that is not a tree (error path of commit 9333707), an input file that does not exist.
func doGlue(c *core.Ctx, variant string, n *core.N) {
	t, err := core.Build(n)
	if err != nil {
		panic(err)
	}
	text := t.Newick()
	before, st := parseDump(text)
	if st != "ok" {
		panic("c17: cannot re-read the input text: " + st)
	}
	var r core.CLIResult
	outText := ""
	switch variant {
	case "stdin":
		r = c.RunCLI(text+"\n", 30*time.Second, "nni")
		outText = r.Stdout
	case "outfile":
		file := c.TmpFile(text + "\n")
		out := c.TmpFile("")
		r = c.RunCLI("", 30*time.Second, "nni", "-i", file, "-o", out)
		b, _ := os.ReadFile(out)
		outText = string(b)
		if strings.TrimSpace(r.Stdout) != "" {
			outText = "STDOUT-NOT-EMPTY\n" + outText
		}
	case "errtree":
		file := c.TmpFile(text + "\n(x,y,(z,w);\n")
		r = c.RunCLI("", 30*time.Second, "nni", "-i", file)
		outText = r.Stdout
	case "missing":
		r = c.RunCLI("", 30*time.Second, "nni", "-i", filepath.Join(c.Tmp, "no-such-file.nw"))
		outText = r.Stdout
	default:
		panic("c17: unknown glue variant " + variant)
	}
	out := "ok"
	if r.Timeout {
		out = "timeout"
	} else if r.Exit != 0 {
		out = fmt.Sprintf("exit:%d", r.Exit)
	}
	crashed := "nopanic"
	if strings.Contains(r.Stderr, "panic:") || strings.Contains(r.Stderr, "goroutine ") {
		crashed = "panic"
	}
	var recs strings.Builder
	lines := strings.Split(strings.TrimRight(outText, "\n"), "\n")
	if strings.TrimSpace(outText) == "" {
		lines = nil
	}
	for _, l := range lines {
		d, st := parseDump(l)
		fmt.Fprintf(&recs, "%s;%s;%s|", st, d, core.Escape(l))
	}
	c.Emit("C17.glue", variant, n.Dump(), before, out, crashed, recs.String(), core.Escape(strings.TrimSpace(r.Stderr)))
}

// Replay re-executes the requests of a corpus / replay file on the real code.
func Replay(c *core.Ctx, lines []string) {
	for _, l := range lines {
		f := strings.Split(l, "\t")
		switch {
		case f[0] == "C17.enum" && len(f) >= 3:
			n, err := core.ParseDump(f[2])
			if err != nil {
				panic(err)
			}
			doEnum(c, f[1], n)
		case f[0] == "C17.cli" && len(f) >= 2 && c.Gotree != "":
			n, err := core.ParseDump(f[1])
			if err != nil {
				panic(err)
			}
			doCLI(c, n)
		case f[0] == "C17.heap" && len(f) >= 4:
			n, err := core.ParseDump(f[3])
			if err != nil {
				panic(err)
			}
			seed, _ := strconv.ParseInt(f[2], 10, 64)
			doHeap(c, f[1], seed, n)
		case f[0] == "C17.reuse" && len(f) >= 4:
			n, err := core.ParseDump(f[3])
			if err != nil {
				panic(err)
			}
			seed, _ := strconv.ParseInt(f[2], 10, 64)
			doReuse(c, f[1], seed, n)
		case f[0] == "C17.hist" && len(f) >= 4:
			n, err := core.ParseDump(f[3])
			if err != nil {
				panic(err)
			}
			seed, _ := strconv.ParseInt(f[2], 10, 64)
			doHist(c, f[1], seed, n)
		case f[0] == "C17.glue" && len(f) >= 3 && c.Gotree != "":
			n, err := core.ParseDump(f[2])
			if err != nil {
				panic(err)
			}
			doGlue(c, f[1], n)
		case (f[0] == "C17.cli2" || f[0] == "C17.cli2o") && len(f) >= 3 && c.Gotree != "":
			a, err := core.ParseDump(f[1])
			if err != nil {
				panic(err)
			}
			b, err := core.ParseDump(f[2])
			if err != nil {
				panic(err)
			}
			doCLI2x(c, a, b, f[0] == "C17.cli2o")
		}
	}
}

func pickMode(g *core.G, n *core.N) string {
	switch g.Intn(8) {
	case 0:
		return "double"
	case 4:
		return "score"
	case 2:
		return "collect"
	case 3:
		return []string{"collect-rev", "collect-mix"}[g.Intn(2)]
	case 1:
		return fmt.Sprintf("stop:%d", 1+g.Intn(2*len(n.TipNames())))
	}
	return "plain"
}

// tipRoot hangs the rooted binary tree ro below a new root that is a tip.
func tipRoot(g *core.G, ro *core.N) *core.N {
	low := ro.Clone()
	low.E = core.NewE()
	low.E.Len = 0.375
	low.PPos = g.Intn(len(low.Kids) + 1)
	return &core.N{Name: "r0", Kids: []*core.N{low}}
}

func histKind(g *core.G) string {
	if g.Chance(0.5) {
		return "nested"
	}
	return "free"
}

func heapVariant(g *core.G) string {
	if g.Chance(0.5) {
		return "rr"
	}
	return "plain"
}

// Run generates the cases of C17.
func Run(c *core.Ctx) {
	if c.Arg != "" {
		Replay(c, core.ReadRequests(c.Arg))
		return
	}
	nbase := c.Scale(70, 500)
	nlarge := c.Scale(20, 12) // base trees on 15..40 tips (a sample of their root positions each)
	for i := 0; i < nbase+nlarge; i++ {
		var base *core.N
		for {
			o := opts(c.G, !c.Quick())
			if i >= nbase {
				o.MinTips, o.MaxTips = 17, 40
			}
			base, _ = c.G.Tree(o)
			if binary(base, true) && len(base.Kids) == 3 {
				break
			}
		}
		core.NumberEdges(base)
		if c.G.Chance(0.5) {
			distinctLengths(base)
		}
		if c.G.Chance(0.5) {
			randomPPos(c.G, base, true)
		}
		// every root position: re-root the Go tree at every inner node
		large := len(base.TipNames()) > 16
		largeShare := 0.15
		if c.Quick() {
			largeShare = 0.04
		}
		for _, p := range base.Paths() {
			if x := base.At(p); len(x.Kids) < 2 {
				continue
			}
			if large && len(p) > 0 && !c.G.Chance(largeShare) {
				continue
			}
			t, err := core.Build(base)
			if err != nil {
				panic(err)
			}
			v, _, err := core.NodeAt(t, p)
			if err != nil {
				panic(err)
			}
			if len(p) > 0 {
				if err := t.Reroot(v); err != nil {
					panic(err)
				}
			}
			un, wf := core.Alpha(t)
			if !wf.OK() {
				panic("c17: re-rooted tree malformed: " + strings.Join(wf.Problems, "/"))
			}
			doEnum(c, pickMode(c.G, un), un)
			if c.G.Chance(0.3) {
				doHeap(c, heapVariant(c.G), int64(c.G.Intn(1<<30)), un)
			}
			if c.G.Chance(0.35) {
				doHist(c, histKind(c.G), int64(c.G.Intn(1<<30)), un)
			}
			if c.G.Chance(0.2) {
				doReuse(c, []string{"graft", "remove"}[c.G.Intn(2)], int64(c.G.Intn(1<<30)), un)
			}
			// the rooted twin: root on one of the three branches at that node
			first := c.G.Intn(3)
			for i := 0; i < 3; i++ {
				if i != first && (c.Quick() || !c.G.Chance(0.25)) {
					continue
				}
				ro := rootOnEdge(c.G, un, i)
				doEnum(c, pickMode(c.G, ro), ro)
				if c.G.Chance(0.2) {
					// the root is a tip: (((…),(…)))r0; — a root with one neighbour above the rooted twin
					tr := tipRoot(c.G, ro)
					doEnum(c, pickMode(c.G, tr), tr)
					if c.G.Chance(0.3) {
						doHeap(c, heapVariant(c.G), int64(c.G.Intn(1<<30)), tr)
					}
					if c.G.Chance(0.5) {
						doHist(c, histKind(c.G), int64(c.G.Intn(1<<30)), tr)
					}
				}
				if c.G.Chance(0.3) {
					doHeap(c, heapVariant(c.G), int64(c.G.Intn(1<<30)), ro)
				}
				if c.G.Chance(0.35) {
					doHist(c, histKind(c.G), int64(c.G.Intn(1<<30)), ro)
				}
				if c.G.Chance(0.2) {
					doReuse(c, []string{"graft", "remove", "unroot"}[c.G.Intn(3)], int64(c.G.Intn(1<<30)), ro)
				}
			}
		}
	}
	// outside the property's scope, for the correspondence only: trees with multifurcations
	// (Rearrange looks at the degrees of the two ends of a branch only)
	for i := 0; i < c.Scale(25, 250); i++ {
		o := opts(c.G, !c.Quick())
		o.Multif = 0.7
		o.MaxDeg = 4
		o.Rooted = 2
		switch i % 4 {
		case 1:
			o.Singles = 0.2 // single-child inner nodes
		case 2:
			o.Multif = 0 // binary below, but the root becomes a tip (one neighbour)
		}
		base, _ := c.G.Tree(o)
		if i%4 == 2 {
			top := &core.N{Name: "r0", Kids: []*core.N{base}}
			base.E = core.NewE()
			base.E.Len = 0.5
			base.PPos = c.G.Intn(len(base.Kids) + 1)
			base = top
		}
		core.NumberEdges(base)
		if c.G.Chance(0.5) {
			randomPPos(c.G, base, true)
		}
		doEnum(c, pickMode(c.G, base), base)
	}
	// CLI tier: `gotree nni` on trees as the Newick parser builds them (parent positions 0)
	if c.Gotree != "" {
		m := c.Scale(40, 250)
		cliTree := func(prefix string) *core.N {
			var base *core.N
			for {
				o := opts(c.G, !c.Quick())
				o.InnerNames = 0
				o.Comments = 0
				o.TipPrefix = prefix
				base, _ = c.G.Tree(o)
				if binary(base, true) && len(base.Kids) == 3 {
					break
				}
			}
			core.NumberEdges(base)
			if c.G.Chance(0.5) {
				distinctLengths(base)
			}
			if c.G.Chance(0.4) {
				base = rootOnEdge(c.G, base, c.G.Intn(3))
				if c.G.Chance(0.25) {
					base = tipRoot(c.G, base)
					for _, k := range base.Kids {
						k.E.Id = -1
					}
				}
				zeroPPos(base)
			}
			if c.G.Chance(0.35) {
				pctNames(c.G, base)
			}
			return base
		}
		for i := 0; i < m; i++ {
			if i%5 == 4 {
				// two trees in one file (different tip names)
				doCLI2x(c, cliTree("t"), cliTree("u"), i%10 == 9)
				continue
			}
			doCLI(c, cliTree("t"))
		}
		glue := []string{"stdin", "outfile", "errtree", "missing"}
		for i := 0; i < c.Scale(12, 80); i++ {
			doGlue(c, glue[i%len(glue)], cliTree("t"))
		}
	}
}

// pctNames gives the tips names with printf-active text (seeded change C17-12: the Newick text
// used as a format string by cmd/nni.go): a%20b, 100%, %d, %s, %%, %v ...
func pctNames(g *core.G, n *core.N) {
	suffix := []string{"%20b", "_100%", "%d", "%s", "%%", "%v_x", "%5.2f", "%!", "%"}
	if len(n.Kids) == 0 {
		if n.Name != "" && g.Chance(0.7) {
			n.Name = n.Name + suffix[g.Intn(len(suffix))]
		}
		return
	}
	for _, k := range n.Kids {
		pctNames(g, k)
	}
}

func zeroPPos(n *core.N) {
	n.PPos = 0
	for _, k := range n.Kids {
		zeroPPos(k)
	}
}
