package c19

// sentinels.go — table (g): the literals the shared option glue compares an option VALUE with, read
// off the source (go/ast), so that the constants of the hand-written models (Model/C19IO,
// Model/C19PreRun, Glue.readTreeAccepts) are facts about the code and not assumptions:
//
//	cmd/root.go          openWriteFile   file == "stdout" || file == "-"            → os.Stdout
//	cmd/root.go          closeWriteFile  filename != "-" && filename != "stdout"    → Close()
//	cmd/root.go          readTree        infile != "none"
//	io/utils/readfiles.go OpenFile       inputfile == "" || == "stdin" || == "-"    → os.Stdin
//	cmd/root.go          RootCmd.PersistentPreRun   switch rootInputFormat { case "newick": treeformat = utils.FORMAT_NEWICK … }
//	                                                 if seed == -1 { … }
//
// One row per comparison: (site, operator, literal); for the format switch (site, constant assigned,
// case literal — "*" for the default clause).  Regenerated into lean/Gotree/Gen/C19Sentinels.lean;
// Proofs/C19.lean (IO.sentinels_check) decides that the rows are exactly the ones the models are
// built from.  When the decision fails, the C19.io / C19.format / C19.seed / C19.glue cases run the
// binary on every value of the old and of the new table, which is where a failing input is found.

import (
	"go/ast"
	"go/parser"
	"go/token"
	"path/filepath"
	"sort"
	"strconv"
)

type sentinelRow struct{ Site, Op, Lit string }

// litText: the value of a string literal, the text of a (possibly negated) number; ok=false otherwise
func litText(e ast.Expr) (string, bool) {
	switch x := e.(type) {
	case *ast.BasicLit:
		if x.Kind == token.STRING {
			s, err := strconv.Unquote(x.Value)
			return s, err == nil
		}
		if x.Kind == token.INT || x.Kind == token.FLOAT {
			return x.Value, true
		}
	case *ast.UnaryExpr:
		if x.Op == token.SUB {
			if s, ok := litText(x.X); ok {
				return "-" + s, true
			}
		}
	case *ast.ParenExpr:
		return litText(x.X)
	}
	return "", false
}

// comparisons: every `ident ==/!= literal` (either order) under n, restricted to the identifiers of `names`
// (nil = any identifier)
func comparisons(site string, n ast.Node, names map[string]bool) (rows []sentinelRow) {
	ast.Inspect(n, func(m ast.Node) bool {
		// `switch ident { case "a", "b": … }` is the same test as `ident == "a" || ident == "b"`
		if sw, ok := m.(*ast.SwitchStmt); ok {
			if tag, ok := sw.Tag.(*ast.Ident); ok && (names == nil || names[tag.Name]) {
				for _, st := range sw.Body.List {
					if cc, ok := st.(*ast.CaseClause); ok {
						for _, e := range cc.List {
							if l, ok := litText(e); ok {
								rows = append(rows, sentinelRow{site, "==", l})
							}
						}
					}
				}
			}
			return true
		}
		be, ok := m.(*ast.BinaryExpr)
		if !ok || (be.Op != token.EQL && be.Op != token.NEQ && be.Op != token.LSS && be.Op != token.LEQ && be.Op != token.GTR && be.Op != token.GEQ) {
			return true
		}
		id, lit := be.X, be.Y
		if _, ok := litText(id); ok {
			id, lit = be.Y, be.X
		}
		idn, ok1 := id.(*ast.Ident)
		l, ok2 := litText(lit)
		if ok1 && ok2 && (names == nil || names[idn.Name]) {
			rows = append(rows, sentinelRow{site, be.Op.String(), l})
		}
		return true
	})
	return
}

func sentinelRows(repo string) (rows []sentinelRow, problems []string) {
	fset := token.NewFileSet()
	parse := func(rel string) *ast.File {
		f, err := parser.ParseFile(fset, filepath.Join(repo, rel), nil, 0)
		if err != nil {
			problems = append(problems, rel+": "+err.Error())
			return nil
		}
		return f
	}
	params := func(fd *ast.FuncDecl) map[string]bool {
		out := map[string]bool{}
		for _, fl := range fd.Type.Params.List {
			for _, n := range fl.Names {
				out[n.Name] = true
			}
		}
		return out
	}
	funcOf := func(f *ast.File, name string) *ast.FuncDecl {
		if f == nil {
			return nil
		}
		for _, d := range f.Decls {
			if fd, ok := d.(*ast.FuncDecl); ok && fd.Recv == nil && fd.Name.Name == name && fd.Body != nil {
				return fd
			}
		}
		return nil
	}
	root := parse("cmd/root.go")
	for _, fn := range []string{"openWriteFile", "closeWriteFile", "readTree"} {
		fd := funcOf(root, fn)
		if fd == nil {
			problems = append(problems, "cmd/root.go: no function "+fn)
			continue
		}
		r := comparisons(fn, fd.Body, params(fd))
		if len(r) == 0 {
			problems = append(problems, "cmd/root.go: "+fn+" compares its argument with no literal")
		}
		rows = append(rows, r...)
	}
	if fd := funcOf(parse("io/utils/readfiles.go"), "OpenFile"); fd != nil {
		r := comparisons("OpenFile", fd.Body, params(fd))
		if len(r) == 0 {
			problems = append(problems, "io/utils/readfiles.go: OpenFile compares its argument with no literal")
		}
		rows = append(rows, r...)
	} else {
		problems = append(problems, "io/utils/readfiles.go: no function OpenFile")
	}
	// RootCmd = &cobra.Command{ … PersistentPreRun: func(…) { … } … }
	var pre *ast.FuncLit
	if root != nil {
		ast.Inspect(root, func(n ast.Node) bool {
			kv, ok := n.(*ast.KeyValueExpr)
			if !ok {
				return true
			}
			if k, ok := kv.Key.(*ast.Ident); ok && (k.Name == "PersistentPreRun" || k.Name == "PersistentPreRunE") {
				if fl, ok := kv.Value.(*ast.FuncLit); ok && pre == nil {
					pre = fl
				}
			}
			return true
		})
	}
	if pre == nil {
		problems = append(problems, "cmd/root.go: RootCmd has no PersistentPreRun function literal")
		return
	}
	nsw := 0
	ast.Inspect(pre.Body, func(n ast.Node) bool {
		sw, ok := n.(*ast.SwitchStmt)
		if !ok {
			return true
		}
		tag, ok := sw.Tag.(*ast.Ident)
		if !ok || tag.Name != "rootInputFormat" {
			return true
		}
		nsw++
		for _, st := range sw.Body.List {
			cc := st.(*ast.CaseClause)
			// the constant assigned to treeformat in this clause
			konst := "?"
			for _, s := range cc.Body {
				if as, ok := s.(*ast.AssignStmt); ok && len(as.Lhs) == 1 && len(as.Rhs) == 1 {
					if l, ok := as.Lhs[0].(*ast.Ident); ok && l.Name == "treeformat" {
						switch r := as.Rhs[0].(type) {
						case *ast.SelectorExpr:
							konst = r.Sel.Name
						case *ast.Ident:
							konst = r.Name
						}
					}
				}
			}
			if cc.List == nil {
				rows = append(rows, sentinelRow{"PersistentPreRun.format", konst, "*"})
			}
			for _, e := range cc.List {
				if l, ok := litText(e); ok {
					rows = append(rows, sentinelRow{"PersistentPreRun.format", konst, l})
				} else {
					problems = append(problems, "cmd/root.go: a case of the format switch is not a literal")
				}
			}
		}
		return false
	})
	if nsw != 1 {
		problems = append(problems, "cmd/root.go: PersistentPreRun has "+strconv.Itoa(nsw)+" switches on rootInputFormat")
	}
	sr := comparisons("PersistentPreRun.seed", pre.Body, map[string]bool{"seed": true})
	if len(sr) == 0 {
		problems = append(problems, "cmd/root.go: PersistentPreRun compares seed with no literal")
	}
	rows = append(rows, sr...)
	sort.SliceStable(rows, func(i, j int) bool {
		if rows[i].Site != rows[j].Site {
			return rows[i].Site < rows[j].Site
		}
		if rows[i].Lit != rows[j].Lit {
			return rows[i].Lit < rows[j].Lit
		}
		return rows[i].Op < rows[j].Op
	})
	return
}
