/-
  C08 — the glue of `gotree compare trees` (cmd/comparetrees.go RunE and init) and the call
  protocol of `tree.Compare` / `tree.CompareWeighted` around the loop body of Model/C08.lean
  (nil reference, `cpus < 1 → 1`, an item of the channel that already carries an error).

  The command is modelled as an interpreter of a TABLE of facts about its source
  (`Glue`): the flags declared in `init()`, and — in source order — every call of a
  `tree.*` function, every `fmt.Printf`, every assignment to a map cell, each with the
  path of flag tests (`comparetreeweighted`, `comparetreeidentical`, `comparetreerf`)
  under which it is reached.  `expectedGlue` is the table this model was written from;
  `harness/c08/extract.go` regenerates the same table from the working tree
  (`Gotree.Gen.C08Glue.glue`) and theorem `glue_check` of Proofs/C08.lean re-decides that
  they are equal.  The option priorities, the function called, its arguments, the header
  and the row formats of the model are all read from the table.  Core Lean only.
-/
import Gotree.Model.C08
import Gotree.Model.C08Zero

namespace Gotree.C08
open Gotree

/- ## the table -/

/-- a flag declared in `init()`: name, shorthand, package variable, default -/
structure FlagRow where
  name : String
  short : String
  var : String
  dflt : String
  deriving Repr, BEq, DecidableEq

/-- an argument expression: a sum of identifiers / field selections (`st.Tree1 + st.Tree2`), a cell
    of a map (`rfs[id]` ↦ `cell "rfs"`), or anything else (kept as text) -/
inductive Arg where
  | sum (l : List String)
  | cell (m : String)
  | other (s : String)
  deriving Repr, BEq, DecidableEq

/-- a piece of a `Printf` format: literal text, or a verb (`%d` ↦ `verb 'd'`) -/
inductive Piece where
  | lit (s : String)
  | verb (c : Char)
  deriving Repr, BEq, DecidableEq

/-- one event of `RunE`, in source order.  `kind`: `call` (a function of package tree; `text`
    = its name), `printf` (`text` = the format, `fmt` = the same cut into pieces), `assign`
    (`text` = the map written).  `path`: the flag tests on the way (variable, value it must have). -/
structure Event where
  path : List (String × Bool)
  kind : String
  text : String
  fmt : List Piece
  args : List Arg
  deriving Repr, BEq, DecidableEq

/-- an operand of a comparison: an integer literal, or any other expression (as text in which
    the names of receiver, parameters and locals have been normalised: `recv`, `p0…`, `v0…`) -/
inductive Opnd where
  | var (s : String)
  | lit (n : Int)
  deriving Repr, BEq, DecidableEq

/-- a comparison found in a library function -/
structure Cmp where
  fn : String
  lhs : Opnd
  op : String
  rhs : Opnd
  deriving Repr, BEq, DecidableEq

/-- facts about the library functions the model of Model/C08.lean follows: comparisons,
    calls with their arguments (function, callee, arguments), the stats records sent
    (function, field := expression), constants.  Local names are normalised by the extractor. -/
structure LibFacts where
  comparisons : List Cmp
  calls : List (String × String × List String)
  records : List (String × List (String × String))
  consts : List (String × String)
  deriving Repr, BEq, DecidableEq

structure Glue where
  flags : List FlagRow
  events : List Event
  lib : LibFacts
  deriving Repr, BEq, DecidableEq

def cmpArgs : List Arg :=
  [.sum ["refTree"], .sum ["treechan"], .sum ["compareTips"], .sum ["comparetreeidentical"], .sum ["rootCpus"]]

def pW : String × Bool := ("comparetreeweighted", true)
def pNW : String × Bool := ("comparetreeweighted", false)
def pB : String × Bool := ("comparetreeidentical", true)
def pNB : String × Bool := ("comparetreeidentical", false)
def pRF : String × Bool := ("comparetreerf", true)
def pNRF : String × Bool := ("comparetreerf", false)

def fmtBinary : List Piece := [.verb 'd', .lit "\t", .verb 'v', .lit "\n"]
def fmtPlain : List Piece := [.verb 'd', .lit "\t", .verb 'd', .lit "\t", .verb 'd', .lit "\t", .verb 'd', .lit "\n"]

/-- the table the model was written from (cmd/comparetrees.go, tree/algo.go, tree/tree.go,
    tree/edge.go as of /repo 6a194b0) -/
def expectedGlue : Glue where
  flags := [⟨"tips", "l", "compareTips", "false"⟩, ⟨"binary", "", "comparetreeidentical", "false"⟩,
            ⟨"rf", "", "comparetreerf", "false"⟩, ⟨"weighted", "", "comparetreeweighted", "false"⟩]
  events := [
    ⟨[pW], "call", "CompareWeighted", [], cmpArgs⟩,
    ⟨[pW, pB], "printf", "tree\tidentical\n", [.lit "tree\tidentical\n"], []⟩,
    ⟨[pW, pNB], "printf", "tree\tweighted_RF\tKF\n", [.lit "tree\tweighted_RF\tKF\n"], []⟩,
    ⟨[pW, pB], "printf", "%d\t%v\n", fmtBinary, [.sum ["st.Id"], .sum ["st.Sametree"]]⟩,
    ⟨[pW, pNB], "printf", "%d\t%E\t%E\n", [.verb 'd', .lit "\t", .verb 'E', .lit "\t", .verb 'E', .lit "\n"],
      [.sum ["st.Id"], .sum ["wrf"], .other "math.Sqrt(kf)"]⟩,
    ⟨[pNW], "call", "Compare", [], cmpArgs⟩,
    ⟨[pNW, pB], "printf", "tree\tidentical\n", [.lit "tree\tidentical\n"], []⟩,
    ⟨[pNW, pB], "printf", "%d\t%v\n", fmtBinary, [.sum ["st.Id"], .sum ["st.Sametree"]]⟩,
    ⟨[pNW, pNB, pRF], "assign", "rfs", [], [.sum ["st.Tree1", "st.Tree2"]]⟩,
    ⟨[pNW, pNB, pRF], "printf", "%d\n", [.verb 'd', .lit "\n"], [.cell "rfs"]⟩,
    ⟨[pNW, pNB, pNRF], "printf", "tree\treference\tcommon\tcompared\n", [.lit "tree\treference\tcommon\tcompared\n"], []⟩,
    ⟨[pNW, pNB, pNRF], "printf", "%d\t%d\t%d\t%d\n", fmtPlain,
      [.sum ["st.Id"], .sum ["st.Tree1"], .sum ["st.Common"], .sum ["st.Tree2"]]⟩]
  lib := {
    comparisons := [
      ⟨"Compare", .var "p4", "<", .lit 1⟩, ⟨"Compare", .var "v0", "<", .var "p4"⟩, ⟨"Compare", .var "v1", "!=", .var "v2"⟩,
      ⟨"lengthOrZero", .var "p0.Length()", "==", .var "NIL_LENGTH"⟩,
      ⟨"CompareWeighted", .var "p4", "<", .lit 1⟩, ⟨"CompareWeighted", .var "v0", "<", .var "p4"⟩,
      ⟨"CompareWeighted", .var "v1", "!=", .var "v2"⟩,
      ⟨"CompareTipIndexes", .var "len(recv.tipIndex)", "==", .lit 0⟩, ⟨"CompareTipIndexes", .var "len(p0.tipIndex)", "==", .lit 0⟩,
      ⟨"CompareTipIndexes", .var "len(recv.tipIndex)", "!=", .var "len(p0.tipIndex)"⟩,
      ⟨"FindEdge", .var "recv.Right().Tip()", "!=", .var "v0.Right().Tip()"⟩,
      ⟨"FindEdge", .var "recv.HashCode()", "!=", .var "v0.HashCode()"⟩]
    calls := [
      ("Compare", "NewEdgeIndex", ["0.75"]),
      ("Compare", "PutEdgeValue", ["v0", "v1", "v0.Length()"]),
      ("Compare", "Value", ["v0"]),
      ("CompareWeighted", "NewEdgeIndex", ["0.75"]),
      ("CompareWeighted", "PutEdgeValue", ["v0", "v1", "lengthOrZero(v0)"]),
      ("CompareWeighted", "NewEdgeIndex", ["0.75"]),
      ("CompareWeighted", "PutEdgeValue", ["v0", "v1", "lengthOrZero(v0)"]),
      ("CompareWeighted", "Value", ["v0"]),
      ("CompareWeighted", "Value", ["v0"])]
    records := [
      ("Compare", [("Id", "v0.Id"), ("Tree1", "v1 - v2"), ("Tree2", "v3 - v2"),
                   ("Common", "v2"), ("Sametree", "v4"), ("Err", "v5")]),
      ("CompareWeighted", [("Id", "v0.Id"), ("Tree1", "v1"), ("Tree2", "v2"),
                           ("Common", "v3"), ("Sametree", "v4"), ("Err", "v5")])]
    consts := [("NIL_LENGTH", "-1.0")] }

/- ## comparing a regenerated table with the expected one

  Everything is compared literally except the comparisons, which are compared by what they
  compute: two comparisons of the same function over the same operands are equivalent when they
  have the same truth value for every assignment of the probes -2 … 2 to their operands (so
  `cpus <= 0` or `1 > cpus` stand for `cpus < 1`). -/

def Opnd.eval (env : String → Int) : Opnd → Int
  | .var s => env s
  | .lit n => n

def Cmp.eval (c : Cmp) (env : String → Int) : Bool :=
  let a := c.lhs.eval env
  let b := c.rhs.eval env
  if c.op == "<" then decide (a < b) else if c.op == "<=" then decide (a ≤ b)
  else if c.op == ">" then decide (b < a) else if c.op == ">=" then decide (b ≤ a)
  else if c.op == "==" then a == b else a != b

def Opnd.vars : Opnd → List String
  | .var s => [s]
  | .lit _ => []

def Cmp.vars (c : Cmp) : List String := (c.lhs.vars ++ c.rhs.vars).eraseDups

def probeVals : List Int := [-2, -1, 0, 1, 2]

/-- all assignments of the probes to (at most two) operands -/
def probeEnvs : List String → List (String → Int)
  | [] => [fun _ => 0]
  | [x] => probeVals.map fun a => fun s => if s == x then a else 0
  | x :: y :: _ => probeVals.flatMap fun a => probeVals.map fun b => fun s => if s == x then a else if s == y then b else 0

def cmpEquiv (a b : Cmp) : Bool :=
  a.fn == b.fn && a.vars.all (b.vars.contains ·) && b.vars.all (a.vars.contains ·) &&
  (probeEnvs a.vars).all fun env => a.eval env == b.eval env

def cmpsEquiv : List Cmp → List Cmp → Bool
  | [], [] => true
  | a :: as, b :: bs => cmpEquiv a b && cmpsEquiv as bs
  | _, _ => false

/-- the regenerated table `g` says what the expected table `e` says -/
def glueOK (g e : Glue) : Bool :=
  g.flags == e.flags && g.events == e.events && cmpsEquiv g.lib.comparisons e.lib.comparisons &&
  g.lib.calls == e.lib.calls && g.lib.records == e.lib.records && g.lib.consts == e.lib.consts

/- ## the interpreter -/

/-- the values of the four flags after parsing -/
structure Flags where
  tips : Bool
  binary : Bool
  rf : Bool
  weighted : Bool
  deriving Repr, BEq, DecidableEq

/-- value of a package-level flag variable -/
def Flags.var (f : Flags) (v : String) : Option Bool :=
  if v == "compareTips" then some f.tips
  else if v == "comparetreeidentical" then some f.binary
  else if v == "comparetreerf" then some f.rf
  else if v == "comparetreeweighted" then some f.weighted
  else none

/-- is the event reached under these flags -/
def active (f : Flags) (e : Event) : Bool := e.path.all fun p => f.var p.1 == some p.2

def reached (g : Glue) (f : Flags) : List Event := g.events.filter (active f)

/-- the library call made: (function, tips argument, identical-only argument); `none` when the
    table does not determine one -/
def libCall (g : Glue) (f : Flags) : Option (String × Bool × Bool) :=
  match (reached g f).filter (·.kind == "call") with
  | [e] =>
    (match e.args with
     | [_, _, .sum [a], .sum [b], _] =>
       (match f.var a, f.var b with
        | some x, some y => some (e.text, x, y)
        | _, _ => none)
     | _ => none)
  | _ => none

/-- the header printed before the rows (a `printf` without argument), if any -/
def headerOf (g : Glue) (f : Flags) : List String :=
  ((reached g f).filter fun e => e.kind == "printf" && e.args.isEmpty).map (·.text)

/-- the `printf` of a row (the one with arguments) -/
def rowEvent (g : Glue) (f : Flags) : Option Event :=
  ((reached g f).filter fun e => e.kind == "printf" && !e.args.isEmpty).head?

/-- are the rows printed after the loop over the records (through a map filled by an
    `assign`): then nothing is printed when some record carries an error -/
def deferred (g : Glue) (f : Flags) : Bool := (reached g f).any (·.kind == "assign")

/-- a printable value -/
inductive Val where
  | int (i : Int)
  | bool (b : Bool)
  deriving Repr, BEq, DecidableEq

/-- an unweighted record with its id -/
structure Rec where
  id : Nat
  tree1 : Int
  tree2 : Int
  common : Int
  same : Bool
  deriving Repr, BEq, DecidableEq

def atom (r : Rec) (a : String) : Option Int :=
  if a == "st.Id" then some r.id
  else if a == "st.Tree1" then some r.tree1
  else if a == "st.Tree2" then some r.tree2
  else if a == "st.Common" then some r.common
  else none

def sumAtoms (r : Rec) (l : List String) : Option Val := (l.mapM (atom r)).map fun x => .int x.sum

/-- value of an argument expression of a row: a field of the record, a sum of fields, or a map
    cell written by an `assign` event reached under the same flags -/
def evalArg (evs : List Event) (r : Rec) : Arg → Option Val
  | .sum ["st.Sametree"] => some (.bool r.same)
  | .sum l => sumAtoms r l
  | .cell m =>
    (match evs.find? fun e => e.kind == "assign" && e.text == m with
     | some e => (match e.args with | [.sum l] => sumAtoms r l | _ => none)
     | none => none)
  | .other _ => none

/-- `fmt.Sprintf` for the verbs `%d` and `%v` (anything else: `none`), as the list of its pieces -/
def sprintfP : List Piece → List Val → Option (List String)
  | [], [] => some []
  | [], _ :: _ => none
  | .lit s :: ps, vs => (sprintfP ps vs).map (s :: ·)
  | .verb _ :: _, [] => none
  | .verb c :: ps, v :: vs =>
    match (if c == 'd' then (match v with | .int i => some (toString i) | _ => none)
           else if c == 'v' then (match v with | .int i => some (toString i) | .bool b => some (toString b))
           else none) with
    | some s => (sprintfP ps vs).map (s :: ·)
    | none => none

def sprintf (ps : List Piece) (vs : List Val) : Option String := (sprintfP ps vs).map String.join

/-- the text of one row for an (unweighted-shaped) record; `none`: the row has a float verb -/
def rowText (g : Glue) (f : Flags) (r : Rec) : Option String :=
  match rowEvent g f with
  | some e => (e.args.mapM (evalArg (reached g f) r)).bind (sprintf e.fmt)
  | none => none

/-- the record of the compared tree number `id`, as the library call selected by the table
    delivers it (`compareWeighted0` for the weighted flag: only `Sametree` is printable) -/
def recOf (g : Glue) (f : Flags) (r c : T) (id : Nat) : Option (Res Rec) :=
  match libCall g f with
  | some (fn, tips, sc) =>
    if fn == "Compare" then
      some (match compare r c tips sc with
        | .ok s => .ok ⟨id, s.tree1, s.tree2, s.common, s.same⟩
        | .err => .err
        | .refErr => .refErr)
    else if fn == "CompareWeighted" then
      some (match compareWeighted0 r c tips sc with
        | .ok w => .ok ⟨id, 0, 0, 0, w.same⟩
        | .err => .err
        | .refErr => .refErr)
    else none
  | none => none

/-- rows of the records up to the first one that carries an error: (rows, failed) -/
def rowsUntilErr (g : Glue) (f : Flags) (r : T) : List T → Nat → Option (List String × Bool)
  | [], _ => some ([], false)
  | c :: cs, id =>
    match recOf g f r c id with
    | some (.ok rc) =>
      (match rowText g f rc, rowsUntilErr g f r cs (id + 1) with
       | some t, some (ts, failed) => some (t :: ts, failed)
       | _, _ => none)
    | some _ => some ([], true)
    | none => none

/-- What `gotree compare trees -t 1` writes on its standard output, and whether it fails:
    the header, then one row per compared tree in file order up to the first tree that is
    rejected; with rows deferred to the end (`--rf`) an error leaves the header alone.
    `none`: the mode prints floats (`--weighted` without `--binary`), not modelled as text. -/
def cliOutput (g : Glue) (f : Flags) (r : T) (cs : List T) : Option (String × Bool) :=
  match rowsUntilErr g f r cs 0 with
  | some (rows, failed) =>
    let rows := if failed && deferred g f then [] else rows
    some (String.join (headerOf g f ++ rows), failed)
  | none => none

/- ## `--weighted` without `--binary`: the `%E` rows as text

  `wrf` and `kf2` (Model/C08.lean) are the exact sums; the command prints `wrf` and `math.Sqrt(kf)`
  with `%E` (one digit, six decimals, exponent of at least two digits).  On the generated inputs
  the float64 sums are exact (dyadic lengths) and `math.Sqrt` is correctly rounded, so the text is
  the correctly rounded decimal of the exact value (assumption: the square root is not within
  2^-53 of a 7-digit rounding boundary). -/

def pow10 (e : Int) : Rat := if e ≥ 0 then ((10 ^ e.toNat : Nat) : Rat) else 1 / ((10 ^ (-e).toNat : Nat) : Rat)

/-- `e` with `10^e ≤ q < 10^(e+1)` for `q > 0` (fuel: number of steps) -/
def dexpAux : Nat → Rat → Int → Int
  | 0, _, e => e
  | n + 1, q, e => if q ≥ 10 then dexpAux n (q / 10) (e + 1) else if q < 1 then dexpAux n (q * 10) (e - 1) else e

def dexp (q : Rat) : Int := dexpAux 700 q 0

/-- floor of the square root, by bisection: invariant `lo² ≤ n < hi²` -/
def isqrtAux (n : Nat) : Nat → Nat → Nat → Nat
  | 0, lo, _ => lo
  | f + 1, lo, hi =>
    if lo + 1 ≥ hi then lo else
    let mid := (lo + hi) / 2
    if mid * mid ≤ n then isqrtAux n f mid hi else isqrtAux n f lo mid

def isqrt (n : Nat) : Nat := isqrtAux n (n.log2 + 2) 0 (n + 1)

def padLeft0 (w : Nat) (s : String) : String := String.ofList (List.replicate (w - s.length) '0') ++ s

/-- mantissa `m` (7 digits, `10^6 ≤ m < 10^7`) and exponent as `d.ddddddE±xx` -/
def sciText (neg : Bool) (m : Nat) (e : Int) : String :=
  let (m, e) := if m ≥ 10000000 then (m / 10, e + 1) else (m, e)
  let d := padLeft0 7 (toString m)
  (if neg then "-" else "") ++ String.ofList (d.toList.take 1) ++ "." ++ String.ofList (d.toList.drop 1) ++ "E" ++
    (if e < 0 then "-" else "+") ++ padLeft0 2 (toString e.natAbs)

/-- nearest natural number, ties to even -/
def roundHE (q : Rat) : Nat :=
  let f := q.floor.toNat
  let r := q - (f : Rat)
  if r < 1 / 2 then f else if r > 1 / 2 then f + 1 else if f % 2 == 0 then f else f + 1

/-- `fmt.Sprintf("%E", q)` for an exactly represented value -/
def fmtE (q : Rat) : String :=
  if q == 0 then "0.000000E+00" else
  let a := if q < 0 then -q else q
  let e := dexp a
  sciText (q < 0) (roundHE (a * pow10 (6 - e))) e

/-- `fmt.Sprintf("%E", math.Sqrt(q))`, `q ≥ 0` -/
def fmtESqrt (q : Rat) : String :=
  if q ≤ 0 then "0.000000E+00" else
  let e2 := dexp q
  let e : Int := if e2 % 2 == 0 then e2 / 2 else (e2 - 1) / 2
  let x := q * pow10 (12 - 2 * e)          -- √x = √q · 10^(6-e) ∈ [10^6, 10^7)
  let s := isqrt x.floor.toNat
  let t : Rat := (((2 * s + 1) * (2 * s + 1) : Nat) : Rat)
  let m := if t < 4 * x then s + 1 else if t == 4 * x then (if s % 2 == 0 then s else s + 1) else s
  sciText false m e

/-- the pieces of a format filled with already printed values (`%d`, `%E`, `%v` each take one) -/
def fillPieces : List Piece → List String → Option (List String)
  | [], [] => some []
  | [], _ :: _ => none
  | .lit s :: ps, vs => (fillPieces ps vs).map (s :: ·)
  | .verb _ :: _, [] => none
  | .verb _ :: ps, v :: vs => (fillPieces ps vs).map (v :: ·)

/-- one `%d⇥%E⇥%E` row: the id, the weighted Robinson-Foulds sum, the square root of the KF radicand -/
def rowTextW (g : Glue) (f : Flags) (id : Nat) (w : WStats) : Option String :=
  match rowEvent g f with
  | some e =>
    if !(e.fmt.all fun p => match p with | .verb c => c == 'd' || c == 'E' | .lit _ => true) then none else
    ((e.args.mapM fun (a : Arg) => match a with
      | Arg.sum ["st.Id"] => some (toString id)
      | Arg.sum ["wrf"] => some (fmtE (wrf w))
      | Arg.other "math.Sqrt(kf)" => some (fmtESqrt (kf2 w))
      | _ => none).bind (fillPieces e.fmt)).map String.join
  | none => none

def rowsUntilErrW (g : Glue) (f : Flags) (r : T) (tips sc : Bool) : List T → Nat → Option (List String × Bool)
  | [], _ => some ([], false)
  | c :: cs, id =>
    match compareWeighted0 r c tips sc with
    | .ok w =>
      (match rowTextW g f id w, rowsUntilErrW g f r tips sc cs (id + 1) with
       | some t, some (ts, failed) => some (t :: ts, failed)
       | _, _ => none)
    | _ => some ([], true)

/-- `cliOutput` for the mode that prints floats (`--weighted` without `--binary`) -/
def cliOutputW (g : Glue) (f : Flags) (r : T) (cs : List T) : Option (String × Bool) :=
  match libCall g f with
  | some (fn, tips, sc) =>
    if fn != "CompareWeighted" then none else
    (match rowsUntilErrW g f r tips sc cs 0 with
     | some (rows, failed) => some (String.join (headerOf g f ++ (if failed && deferred g f then [] else rows)), failed)
     | none => none)
  | none => none

/-- the whole of RunE: `if intree2file == "none"` (no `-c`) the command fails before reading
    anything; otherwise `cliOutput` on the trees read -/
def cliRun (g : Glue) (f : Flags) (r : T) (compared : Option (List T)) : Option (String × Bool) :=
  match compared with
  | none => some ("", true)
  | some cs => cliOutput g f r cs

/- ## what the Spec prescribes for the text (used by the theorems and the driver) -/

/-- the record the Spec prescribes for the compared tree number `id` -/
def specRec (r c : T) (tips : Bool) (id : Nat) : Rec :=
  ⟨id, (diffL (S tips r) (S tips c)).length, (diffL (S tips c) (S tips r)).length,
   (interL (S tips r) (S tips c)).length, sameSplits r c tips⟩

/-- `id⇥reference⇥common⇥compared` -/
def plainLine (rc : Rec) : String :=
  String.join [toString (rc.id : Int), "\t", toString rc.tree1, "\t", toString rc.common, "\t", toString rc.tree2, "\n"]

/-- the Robinson-Foulds distance alone -/
def rfLine (rc : Rec) : String := String.join [toString (rc.tree1 + rc.tree2), "\n"]

/-- `id⇥true|false` (`--binary`) -/
def binaryLine (rc : Rec) : String := String.join [toString (rc.id : Int), "\t", toString rc.same, "\n"]

/-- rows of the Spec for the trees `cs` numbered from `id` on -/
def specRows (line : Rec → String) (r : T) (tips : Bool) : List T → Nat → List String
  | [], _ => []
  | c :: cs, id => line (specRec r c tips id) :: specRows line r tips cs (id + 1)

/-- rows of the Spec for `--weighted --binary`: the weighted identity (absent length = 0) -/
def specRowsW (r : T) (tips : Bool) : List T → Nat → List String
  | [], _ => []
  | c :: cs, id => binaryLine ⟨id, 0, 0, 0, wSame0 r c tips⟩ :: specRowsW r tips cs (id + 1)

/-- no flag but possibly `--tips` -/
def plainF (tips : Bool) : Flags := ⟨tips, false, false, false⟩
/-- `--rf` -/
def rfF (tips : Bool) : Flags := ⟨tips, false, true, false⟩

/-- the mode the documentation of the command gives for a combination of flags: `--binary`
    (alone or with `--weighted`) first, then `--weighted`, then `--rf` -/
def docMode (f : Flags) : String :=
  if f.binary then (if f.weighted then "wbinary" else "binary")
  else if f.weighted then "weighted" else if f.rf then "rf" else "plain"

/- ## the call protocol of `Compare` / `CompareWeighted` -/

/-- number of worker goroutines started: `if cpus < 1 { cpus = 1 }` -/
def workersOf (cpus : Int) : Nat := if cpus < 1 then 1 else cpus.toNat

/-- an item of the input channel: a tree, or the error of the reader (`Trees.Err`, no tree) -/
inductive Item where
  | tree (t : T)
  | readErr
  deriving Repr

/-- the loop body of `Compare` for one item: `inerr = treeV.Err; if inerr == nil { … }`, the
    record of a failed item carrying `total - 0, 0 - 0, 0, false` -/
def compareItem (r : T) (it : Item) (tips sc : Bool) : Res Stats :=
  match it with
  | .readErr => if !reinitOk r then .refErr else .err
  | .tree c => compare r c tips sc

def compareWeightedItem (r : T) (it : Item) (tips sc : Bool) : Res WStats :=
  match it with
  | .readErr => if !reinitOk r then .refErr else .err
  | .tree c => compareWeighted0 r c tips sc

/-- `Compare(refTree, items, tips, sc, cpus)` as far as a caller that drains the channel can
    tell (the schedules are C11's): `none` = the function returned an error (nil or
    unindexable reference), otherwise one record per item, whatever `cpus` -/
def compareCall (ref : Option T) (items : List Item) (tips sc : Bool) (cpus : Int) : Option (List (Res Stats)) :=
  match ref with
  | none => none
  | some r =>
    if !reinitOk r then none
    else if workersOf cpus == 0 then some [] else some (items.map fun it => compareItem r it tips sc)

end Gotree.C08
