/-
  C14 — helper lemmas for the property theorems of `Gotree/Proofs/C14.lean`.
  Core Lean only.
-/
import Gotree.Spec.C14

namespace Gotree.C14
open Gotree

/-! ## Sums over the split list -/

/-- sum of the weight over the entries that have `b` below them -/
def belowW (w : EdgeD → Rat) (l : List SplitE) (b : String) : Rat :=
  (l.map fun s => if s.below.contains b then w s.e else 0).sum

theorem distW_nil (w : EdgeD → Rat) (a b : String) : distW w [] a b = 0 := rfl

theorem distW_cons (w : EdgeD → Rat) (s : SplitE) (l : List SplitE) (a b : String) :
    distW w (s :: l) a b = (if s.sep a b then w s.e else 0) + distW w l a b := by
  simp [distW]

theorem distW_append (w : EdgeD → Rat) (l₁ l₂ : List SplitE) (a b : String) :
    distW w (l₁ ++ l₂) a b = distW w l₁ a b + distW w l₂ a b := by
  induction l₁ with
  | nil => rw [List.nil_append, distW_nil, Rat.zero_add]
  | cons s l ih => simp only [List.cons_append, distW_cons, ih]; grind

theorem belowW_nil (w : EdgeD → Rat) (b : String) : belowW w [] b = 0 := rfl

theorem belowW_cons (w : EdgeD → Rat) (s : SplitE) (l : List SplitE) (b : String) :
    belowW w (s :: l) b = (if s.below.contains b then w s.e else 0) + belowW w l b := by
  simp [belowW]

theorem belowW_append (w : EdgeD → Rat) (l₁ l₂ : List SplitE) (b : String) :
    belowW w (l₁ ++ l₂) b = belowW w l₁ b + belowW w l₂ b := by
  induction l₁ with
  | nil => rw [List.nil_append, belowW_nil, Rat.zero_add]
  | cons s l ih => simp only [List.cons_append, belowW_cons, ih]; grind

/-- a name below no entry contributes nothing -/
theorem belowW_zero (w : EdgeD → Rat) (l : List SplitE) (b : String)
    (h : ∀ s ∈ l, b ∉ s.below) : belowW w l b = 0 := by
  induction l with
  | nil => rfl
  | cons s l ih =>
    have h1 : b ∉ s.below := h s (by simp)
    rw [belowW_cons, ih (fun s hs => h s (by simp [hs]))]; simp [h1, Rat.add_zero]

/-- if `a` is below no entry, separation from `a` is membership of `b` -/
theorem distW_left_out (w : EdgeD → Rat) (l : List SplitE) (a b : String)
    (h : ∀ s ∈ l, a ∉ s.below) : distW w l a b = belowW w l b := by
  induction l with
  | nil => rfl
  | cons s l ih =>
    have h1 : a ∉ s.below := h s (by simp)
    rw [distW_cons, belowW_cons, ih (fun s hs => h s (by simp [hs]))]
    by_cases h2 : b ∈ s.below <;> simp [SplitE.sep, h1, h2]

theorem distW_right_out (w : EdgeD → Rat) (l : List SplitE) (a b : String)
    (h : ∀ s ∈ l, b ∉ s.below) : distW w l a b = belowW w l a := by
  induction l with
  | nil => rfl
  | cons s l ih =>
    have h1 : b ∉ s.below := h s (by simp)
    rw [distW_cons, belowW_cons, ih (fun s hs => h s (by simp [hs]))]
    by_cases h2 : a ∈ s.below <;> simp [SplitE.sep, h1, h2]

theorem distW_both_out (w : EdgeD → Rat) (l : List SplitE) (a b : String)
    (ha : ∀ s ∈ l, a ∉ s.below) (hb : ∀ s ∈ l, b ∉ s.below) : distW w l a b = 0 := by
  rw [distW_left_out w l a b ha, belowW_zero w l b hb]

theorem sep_comm (s : SplitE) (a b : String) : s.sep a b = s.sep b a := by
  simp [SplitE.sep, bne_comm]

theorem distW_comm (w : EdgeD → Rat) (l : List SplitE) (a b : String) :
    distW w l a b = distW w l b a := by
  simp only [distW, sep_comm]

/-! ## Every `below` of the split list of a subtree consists of leaves of that subtree -/

mutual
theorem below_sub : ∀ (t : T), ∀ s ∈ t.splitsBelow, ∀ x ∈ s.below, x ∈ t.leaves
  | .node _ _ [] => by simp [T.splitsBelow, splitsL]
  | .node _ _ (k :: ks) => by
    simpa [T.splitsBelow, T.leaves] using below_subL (k :: ks)
theorem below_subL : ∀ (k : Kids), ∀ s ∈ splitsL k, ∀ x ∈ s.below, x ∈ leavesL k
  | [] => by simp [splitsL]
  | (e, t) :: r => by
    intro s hs x hx
    simp only [splitsL, List.mem_cons, List.mem_append] at hs
    simp only [leavesL, List.mem_append]
    rcases hs with rfl | hs | hs
    · exact Or.inl hx
    · exact Or.inl (below_sub t s hs x hx)
    · exact Or.inr (below_subL r s hs x hx)
end

theorem out_of_sub (t : T) (b : String) (h : b ∉ t.leaves) : ∀ s ∈ t.splitsBelow, b ∉ s.below :=
  fun s hs hb => h (below_sub t s hs b hb)

theorem out_of_subL (k : Kids) (b : String) (h : b ∉ leavesL k) : ∀ s ∈ splitsL k, b ∉ s.below :=
  fun s hs hb => h (below_subL k s hs b hb)

/-! ## `walkDown` -/

mutual
theorem walkDown_none (w : EdgeD → Rat) : ∀ (t : T) (acc : Rat) (b : String),
    b ∉ t.leaves → (walkDown w t acc).lookup b = none
  | .node d _ [], acc, b, hb => by
    have : (b == d.name) = false := by simpa [T.leaves] using hb
    simp [walkDown, List.lookup_cons, this]
  | .node _ _ (k :: ks), acc, b, hb => by
    simpa [walkDown] using walkDownL_none w (k :: ks) acc b (by simpa [T.leaves] using hb)
theorem walkDownL_none (w : EdgeD → Rat) : ∀ (k : Kids) (acc : Rat) (b : String),
    b ∉ leavesL k → (walkDownL w k acc).lookup b = none
  | [], _, _, _ => by simp [walkDownL]
  | (e, t) :: r, acc, b, hb => by
    simp only [leavesL, List.mem_append, not_or] at hb
    simp [walkDownL, List.lookup_append, walkDown_none w t _ b hb.1, walkDownL_none w r acc b hb.2]
end

mutual
theorem walkDown_lookup (w : EdgeD → Rat) : ∀ (t : T) (acc : Rat) (b : String),
    t.leaves.Nodup → b ∈ t.leaves →
    (walkDown w t acc).lookup b = some (acc + belowW w t.splitsBelow b)
  | .node d _ [], acc, b, _, hb => by
    have : b = d.name := by simpa [T.leaves] using hb
    simp [walkDown, this, T.splitsBelow, splitsL, belowW_nil, Rat.add_zero]
  | .node _ _ (k :: ks), acc, b, hn, hb => by
    simpa [walkDown, T.splitsBelow] using
      walkDownL_lookup w (k :: ks) acc b (by simpa [T.leaves] using hn) (by simpa [T.leaves] using hb)
theorem walkDownL_lookup (w : EdgeD → Rat) : ∀ (k : Kids) (acc : Rat) (b : String),
    (leavesL k).Nodup → b ∈ leavesL k →
    (walkDownL w k acc).lookup b = some (acc + belowW w (splitsL k) b)
  | [], _, _, _, hb => by simp [leavesL] at hb
  | (e, t) :: r, acc, b, hn, hb => by
    simp only [leavesL, List.nodup_append] at hn
    simp only [leavesL, List.mem_append] at hb
    obtain ⟨hn1, hn2, hd⟩ := hn
    simp only [walkDownL, List.lookup_append, splitsL, belowW_cons, belowW_append]
    by_cases h : b ∈ t.leaves
    · have hr : b ∉ leavesL r := fun h' => hd b h b h' rfl
      rw [walkDown_lookup w t _ b hn1 h, belowW_zero w (splitsL r) b (out_of_subL r b hr)]
      have : t.leaves.contains b = true := by simpa using h
      simp only [this, if_true]; congr 1; grind
    · have hr : b ∈ leavesL r := hb.resolve_left h
      rw [walkDown_none w t _ b h, walkDownL_lookup w r acc b hn2 hr,
        belowW_zero w t.splitsBelow b (out_of_sub t b h)]
      have : t.leaves.contains b = false := by simpa using h
      simp only [this, Option.none_or]; congr 1; grind
end

/-! ## `walkUp` -/

mutual
theorem walkUp_none (w : EdgeD → Rat) (a : String) : ∀ (t : T),
    a ∉ t.leaves → walkUp w a t = none
  | .node d _ [], ha => by
    have : ¬ d.name = a := by simpa [T.leaves, eq_comm] using ha
    simp [walkUp, this]
  | .node _ _ (k :: ks), ha => by
    simpa [walkUp] using walkUpL_none w a (k :: ks) (by simpa [T.leaves] using ha)
theorem walkUpL_none (w : EdgeD → Rat) (a : String) : ∀ (k : Kids),
    a ∉ leavesL k → walkUpL w a k = none
  | [], _ => by simp [walkUpL]
  | (e, t) :: r, ha => by
    simp only [leavesL, List.mem_append, not_or] at ha
    simp [walkUpL, walkUp_none w a t ha.1, walkUpL_none w a r ha.2]
end

/-- What the walk started at `a` (a leaf of the subtree) produces: the length
    accumulated up to the top node, and, for every other leaf `b` of the
    subtree, the sum over the separating branches; nothing else is written. -/
def UpOK (w : EdgeD → Rat) (a : String) (lv : List String) (sp : List SplitE)
    (r : Option (Rat × List (String × Rat))) : Prop :=
  ∃ res, r = some (belowW w sp a, res) ∧
    (∀ b ∈ lv, b ≠ a → res.lookup b = some (distW w sp a b)) ∧
    (∀ b, b ∉ lv → res.lookup b = none)

mutual
theorem walkUp_some (w : EdgeD → Rat) (a : String) : ∀ (t : T),
    t.leaves.Nodup → a ∈ t.leaves → UpOK w a t.leaves t.splitsBelow (walkUp w a t)
  | .node d _ [], _, ha => by
    have h : d.name = a := by simpa [T.leaves, eq_comm] using ha
    refine ⟨[], by simp [walkUp, h, T.splitsBelow, splitsL, belowW_nil], ?_, by simp⟩
    intro b hb hne
    exact absurd (by simpa [T.leaves, h] using hb) hne
  | .node _ _ (k :: ks), hn, ha => by
    simpa [walkUp, T.splitsBelow, T.leaves] using
      walkUpL_some w a (k :: ks) (by simpa [T.leaves] using hn) (by simpa [T.leaves] using ha)
theorem walkUpL_some (w : EdgeD → Rat) (a : String) : ∀ (k : Kids),
    (leavesL k).Nodup → a ∈ leavesL k → UpOK w a (leavesL k) (splitsL k) (walkUpL w a k)
  | [], _, ha => by simp [leavesL] at ha
  | (e, t) :: r, hn, ha => by
    simp only [leavesL, List.nodup_append] at hn
    simp only [leavesL, List.mem_append] at ha
    obtain ⟨hn1, hn2, hd⟩ := hn
    by_cases h : a ∈ t.leaves
    · -- the start tip is inside the first child
      have har : a ∉ leavesL r := fun h' => hd a h a h' rfl
      obtain ⟨res, hres, hin, hout⟩ := walkUp_some w a t hn1 h
      refine ⟨res ++ walkDownL w r (belowW w t.splitsBelow a + w e), ?_, ?_, ?_⟩
      · simp only [walkUpL, hres, splitsL, belowW_cons, belowW_append,
          belowW_zero w (splitsL r) a (out_of_subL r a har)]
        have : t.leaves.contains a = true := by simpa using h
        simp only [this, if_true]; congr 2; grind
      · intro b hb hne
        simp only [leavesL, List.mem_append] at hb
        simp only [List.lookup_append, splitsL, distW_cons, distW_append, SplitE.sep]
        have hca : t.leaves.contains a = true := by simpa using h
        by_cases hbt : b ∈ t.leaves
        · have hbr : b ∉ leavesL r := fun h' => hd b hbt b h' rfl
          have hcb : t.leaves.contains b = true := by simpa using hbt
          rw [hin b hbt hne, distW_both_out w (splitsL r) a b (out_of_subL r a har) (out_of_subL r b hbr)]
          simp only [hca, hcb]; simp; grind
        · have hbr : b ∈ leavesL r := hb.resolve_left hbt
          have hcb : t.leaves.contains b = false := by simpa using hbt
          rw [hout b hbt, walkDownL_lookup w r _ b hn2 hbr,
            distW_right_out w t.splitsBelow a b (out_of_sub t b hbt),
            distW_left_out w (splitsL r) a b (out_of_subL r a har)]
          simp only [hca, hcb]; simp; grind
      · intro b hb
        simp only [leavesL, List.mem_append, not_or] at hb
        simp [List.lookup_append, hout b hb.1, walkDownL_none w r _ b hb.2]
    · -- the start tip is inside one of the later children
      have har : a ∈ leavesL r := ha.resolve_left h
      obtain ⟨res, hres, hin, hout⟩ := walkUpL_some w a r hn2 har
      refine ⟨walkDown w t (belowW w (splitsL r) a + w e) ++ res, ?_, ?_, ?_⟩
      · simp only [walkUpL, walkUp_none w a t h, hres, splitsL, belowW_cons, belowW_append,
          belowW_zero w t.splitsBelow a (out_of_sub t a h)]
        have : t.leaves.contains a = false := by simpa using h
        simp only [this]; congr 2; grind
      · intro b hb hne
        simp only [leavesL, List.mem_append] at hb
        simp only [List.lookup_append, splitsL, distW_cons, distW_append, SplitE.sep]
        have hca : t.leaves.contains a = false := by simpa using h
        by_cases hbt : b ∈ t.leaves
        · have hbr : b ∉ leavesL r := fun h' => hd b hbt b h' rfl
          have hcb : t.leaves.contains b = true := by simpa using hbt
          rw [walkDown_lookup w t _ b hn1 hbt,
            distW_left_out w t.splitsBelow a b (out_of_sub t a h),
            distW_right_out w (splitsL r) a b (out_of_subL r b hbr)]
          simp only [hca, hcb]; simp; grind
        · have hbr : b ∈ leavesL r := hb.resolve_left hbt
          have hcb : t.leaves.contains b = false := by simpa using hbt
          rw [walkDown_none w t _ b hbt, hin b hbr hne,
            distW_both_out w t.splitsBelow a b (out_of_sub t a h) (out_of_sub t b hbt)]
          simp only [hca, hcb]; simp; grind
      · intro b hb
        simp only [leavesL, List.mem_append, not_or] at hb
        simp [List.lookup_append, hout b hb.2, walkDown_none w t _ b hb.1]
end

/-! ## `row` -/

theorem row_lookup (w : EdgeD → Rat) (t : T) (hu : t.tipNames.Nodup) (a b : String)
    (ha : a ∈ t.tipNames) (hb : b ∈ t.tipNames) (hab : a ≠ b) :
    (row w t a).lookup b = some (distW w t.splits a b) := by
  unfold row T.splits
  unfold T.tipNames at hu ha hb
  by_cases h1 : t.kids.length = 1
  · -- the root is itself a tip
    simp only [h1, beq_self_eq_true, if_true, List.cons_append, List.nil_append,
      List.nodup_cons, List.mem_cons] at hu ha hb
    obtain ⟨hroot, hn⟩ := hu
    by_cases h2 : t.name = a
    · -- the walk starts at the root
      have har : a ∉ leavesL t.kids := h2 ▸ hroot
      have hbk : b ∈ leavesL t.kids := hb.resolve_left (fun h => hab (h2 ▸ h.symm))
      simp only [h1, h2, beq_self_eq_true, Bool.and_self, if_true]
      rw [walkDownL_lookup w t.kids 0 b hn hbk,
        distW_left_out w (splitsL t.kids) a b (out_of_subL t.kids a har), Rat.zero_add]
    · have hak : a ∈ leavesL t.kids := ha.resolve_left (fun h => h2 h.symm)
      obtain ⟨res, hres, hin, hout⟩ := walkUpL_some w a t.kids hn hak
      have h2' : (t.name == a) = false := by simpa using h2
      simp only [h1, h2', beq_self_eq_true, Bool.and_false, hres, if_true, Bool.false_eq_true,
        if_false, List.lookup_append]
      rcases hb with hb | hb
      · -- the other tip is the root
        have hbr : b ∉ leavesL t.kids := hb ▸ hroot
        rw [hout b hbr, distW_right_out w (splitsL t.kids) a b (out_of_subL t.kids b hbr)]
        simp [hb]
      · rw [hin b hb (Ne.symm hab)]; rfl
  · have h1' : (t.kids.length == 1) = false := by simpa using h1
    simp only [h1', if_false, List.nil_append, Bool.false_eq_true] at hu ha hb
    obtain ⟨res, hres, hin, _⟩ := walkUpL_some w a t.kids hu ha
    simp only [h1', Bool.false_and, hres, if_false, List.append_nil, Bool.false_eq_true]
    exact hin b hb (Ne.symm hab)

/-! ## sorting names -/

theorem sortNames_perm (l : List String) : (sortNames l).Perm l :=
  List.mergeSort_perm _ _

theorem mem_sortNames {a : String} {l : List String} : a ∈ sortNames l ↔ a ∈ l :=
  List.mem_mergeSort

theorem sortNames_sorted (l : List String) : (sortNames l).Pairwise (· ≤ ·) := by
  have h := List.pairwise_mergeSort (le := fun a b : String => decide (a ≤ b))
    (by intro a b c; simpa using String.le_trans)
    (by intro a b; simpa using String.le_total a b) l
  simpa [sortNames] using h

/-- sorting forgets the order of the input -/
theorem sortNames_eq_of_perm {l₁ l₂ : List String} (h : l₁.Perm l₂) : sortNames l₁ = sortNames l₂ :=
  List.Perm.eq_of_pairwise (le := (· ≤ ·)) (fun _ _ _ _ h1 h2 => String.le_antisymm h1 h2)
    (sortNames_sorted l₁) (sortNames_sorted l₂)
    ((sortNames_perm l₁).trans (h.trans (sortNames_perm l₂).symm))

/-! ## the matrix -/

theorem matrix_spec (m : Metric) (t : T) (hu : t.tipNames.Nodup) :
    (matrix m t).2 = (sortNames t.tipNames).map fun a =>
      (sortNames t.tipNames).map fun b => if a == b then 0 else pathSum m t a b := by
  unfold matrix
  apply List.map_congr_left
  intro a ha
  apply List.map_congr_left
  intro b hb
  by_cases hab : a = b
  · simp [hab]
  · have : (a == b) = false := by simpa using hab
    simp only [this, Bool.false_eq_true, if_false]
    rw [row_lookup m.w t hu a b (mem_sortNames.1 ha) (mem_sortNames.1 hb) hab]
    rfl

theorem pathSum_comm (m : Metric) (t : T) (a b : String) : pathSum m t a b = pathSum m t b a :=
  distW_comm _ _ _ _

/-- entry `[i][j]` of a table built by two nested maps over the same list -/
theorem entry_map_map {α : Type} (l : List α) (f : α → α → Rat) (i j : Nat) :
    ((l.map fun a => l.map (f a)).getD i []).getD j 0 =
      match l[i]?, l[j]? with
      | some a, some b => f a b
      | _, _ => 0 := by
  simp only [List.getD_eq_getElem?_getD, List.getElem?_map]
  cases l[i]? <;> cases h : l[j]? <;> simp [h]

/-- all rows have the length of the table: the table is `n × n` -/
def Square (n : Nat) (M : List (List Rat)) : Prop := M.map List.length = List.replicate n n

theorem Square.length {n : Nat} {M : List (List Rat)} (h : Square n M) : M.length = n := by
  simpa using congrArg List.length h

theorem Square.row_length {n : Nat} {M : List (List Rat)} (h : Square n M) :
    ∀ r ∈ M, r.length = n := by
  intro r hr
  have : r.length ∈ M.map List.length := List.mem_map_of_mem hr
  rw [h] at this
  exact (List.mem_replicate.1 this).2

theorem matrix_isSquare (m : Metric) (t : T) :
    Square (matrix m t).1.length (matrix m t).2 := by
  simp [Square, matrix, List.map_map, Function.comp_def, List.map_const']

/-! ## the average -/

/-- `getD` through a `zipWith` of two lists of the same length -/
theorem getD_zipWith {α β γ : Type} (f : α → β → γ) (da : α) (db : β) :
    ∀ (as : List α) (bs : List β), as.length = bs.length → ∀ (i : Nat),
    (List.zipWith f as bs).getD i (f da db) = f (as.getD i da) (bs.getD i db)
  | [], [], _, i => by simp
  | [], _ :: _, h, _ => by simp at h
  | _ :: _, [], h, _ => by simp at h
  | a :: as, b :: bs, h, i => by
    cases i with
    | zero => simp
    | succ i =>
      have := getD_zipWith f da db as bs (by simpa using h) i
      simpa using this

theorem length_getD_row (M : List (List Rat)) (i : Nat) :
    (M.getD i []).length = (M.map List.length).getD i 0 := by
  simp only [List.getD_eq_getElem?_getD, List.getElem?_map]
  cases M[i]? <;> simp

theorem addM_square {n : Nat} : ∀ (A B : List (List Rat)), Square n A → Square n B →
    (addM A B).map List.length = A.map List.length := by
  intro A B hA hB
  have h : A.map List.length = B.map List.length := hA.trans hB.symm
  clear hA hB
  induction A generalizing B with
  | nil => simp [addM]
  | cons r A ih =>
    cases B with
    | nil => simp at h
    | cons s B =>
      simp only [List.map_cons, List.cons.injEq] at h
      have := ih B h.2
      simp only [addM] at this
      simp [addM, List.length_zipWith, h.1, this]

theorem addM_entry {n : Nat} (A B : List (List Rat)) (hA : Square n A) (hB : Square n B) (i j : Nat) :
    ((addM A B).getD i []).getD j 0 = (A.getD i []).getD j 0 + (B.getD i []).getD j 0 := by
  have hlen : A.length = B.length := hA.length.trans hB.length.symm
  have h1 := getD_zipWith (fun r s : List Rat => List.zipWith (· + ·) r s) [] [] A B hlen i
  simp only [List.zipWith_nil_left] at h1
  have hrow : (A.getD i []).length = (B.getD i []).length := by
    rw [length_getD_row, length_getD_row, hA, hB]
  have h2 := getD_zipWith (fun x y : Rat => x + y) 0 0 (A.getD i []) (B.getD i []) hrow j
  rw [Rat.add_zero] at h2
  rw [addM, h1, h2]

/-- entrywise sum of a list of tables, starting from `acc` -/
def sumM (m : Metric) (us : List T) (acc : List (List Rat)) : List (List Rat) :=
  us.foldl (fun acc u => addM acc (matrix m u).2) acc

theorem go_eq (m : Metric) (tips : List String) : ∀ (us : List T) (acc : List (List Rat)),
    avgMatrix.go m tips us acc =
      if us.all (fun u => (matrix m u).1 == tips) then some (sumM m us acc) else none
  | [], acc => by simp [avgMatrix.go, sumM]
  | u :: us, acc => by
    simp only [avgMatrix.go, List.all_cons, sumM, List.foldl_cons]
    by_cases h : (matrix m u).1 = tips
    · simp only [h, beq_self_eq_true, if_true, Bool.true_and]
      exact go_eq m tips us _
    · have : ((matrix m u).1 == tips) = false := by simpa using h
      simp [this]

theorem sumM_spec (m : Metric) (n : Nat) : ∀ (us : List T) (acc : List (List Rat)),
    Square n acc → (∀ u ∈ us, (matrix m u).1.length = n) →
    Square n (sumM m us acc) ∧
    ∀ i j, ((sumM m us acc).getD i []).getD j 0 =
      (acc.getD i []).getD j 0 + (us.map fun u => ((matrix m u).2.getD i []).getD j 0).sum
  | [], acc, hacc, _ => by
    refine ⟨hacc, fun i j => ?_⟩
    simp [sumM, Rat.add_zero]
  | u :: us, acc, hacc, hus => by
    have hu : Square n (matrix m u).2 := by
      have := matrix_isSquare m u
      rwa [hus u (by simp)] at this
    have hacc' : Square n (addM acc (matrix m u).2) := by
      unfold Square; rw [addM_square acc _ hacc hu]; exact hacc
    obtain ⟨h1, h2⟩ := sumM_spec m n us _ hacc' (fun v hv => hus v (by simp [hv]))
    refine ⟨h1, fun i j => ?_⟩
    have := h2 i j
    simp only [sumM, List.foldl_cons, List.map_cons, List.sum_cons] at this ⊢
    rw [this, addM_entry acc _ hacc hu]
    grind

theorem avgMatrix_cons (m : Metric) (t : T) (ts : List T) :
    avgMatrix m (t :: ts) =
      if ts.all (fun u => (matrix m u).1 == (matrix m t).1) then
        some ((matrix m t).1, (sumM m ts (matrix m t).2).map fun r => r.map fun x =>
          x / ((ts.length + 1 : Nat) : Rat))
      else none := by
  simp only [avgMatrix, go_eq]
  split <;> simp_all

theorem div_entry (M : List (List Rat)) (c : Rat) (i j : Nat) :
    ((M.map fun r => r.map fun x => x / c).getD i []).getD j 0 = (M.getD i []).getD j 0 / c := by
  simp only [List.getD_eq_getElem?_getD, List.getElem?_map]
  cases M[i]? with
  | none => simp [Rat.div_def, Rat.zero_mul]
  | some r =>
    simp only [Option.map_some, Option.getD_some, List.getElem?_map]
    cases r[j]? <;> simp [Rat.div_def, Rat.zero_mul]

theorem div_square {n : Nat} (M : List (List Rat)) (c : Rat) (h : Square n M) :
    Square n (M.map fun r => r.map fun x => x / c) := by
  unfold Square at *
  rw [← h]
  simp [List.map_map, Function.comp_def]

/-! ## the cut -/

/-- every branch above `a` (inside the subtree) is shorter than `thr` -/
def topShort (thr : Rat) (l : List SplitE) (a : String) : Bool :=
  l.all fun s => !(s.below.contains a) || decide (s.e.len < thr)

/-- every branch of `l` separating `a` and `b` is shorter than `thr` -/
def pathShortL (thr : Rat) (l : List SplitE) (a b : String) : Bool :=
  l.all fun s => !(s.sep a b) || decide (s.e.len < thr)

theorem pathShort_eq (thr : Rat) (t : T) (a b : String) :
    pathShort thr t a b = pathShortL thr t.splits a b := rfl

theorem topShort_out (thr : Rat) (l : List SplitE) (a : String) (h : ∀ s ∈ l, a ∉ s.below) :
    topShort thr l a = true := by
  simp only [topShort, List.all_eq_true]
  intro s hs
  simp [h s hs]

theorem pathShortL_left_out (thr : Rat) (l : List SplitE) (a b : String)
    (h : ∀ s ∈ l, a ∉ s.below) : pathShortL thr l a b = topShort thr l b := by
  rw [Bool.eq_iff_iff]
  simp only [pathShortL, topShort, List.all_eq_true]
  constructor <;> intro H s hs <;> have := H s hs <;> simpa [SplitE.sep, h s hs] using this

theorem pathShortL_right_out (thr : Rat) (l : List SplitE) (a b : String)
    (h : ∀ s ∈ l, b ∉ s.below) : pathShortL thr l a b = topShort thr l a := by
  rw [Bool.eq_iff_iff]
  simp only [pathShortL, topShort, List.all_eq_true]
  constructor <;> intro H s hs <;> have := H s hs <;> simpa [SplitE.sep, h s hs] using this

theorem pathShortL_both_out (thr : Rat) (l : List SplitE) (a b : String)
    (ha : ∀ s ∈ l, a ∉ s.below) (hb : ∀ s ∈ l, b ∉ s.below) : pathShortL thr l a b = true := by
  rw [pathShortL_left_out thr l a b ha, topShort_out thr l b hb]

/-- two names joined to the top through short branches are joined by short branches -/
theorem pathShortL_of_top (thr : Rat) (l : List SplitE) (a b : String)
    (ha : topShort thr l a = true) (hb : topShort thr l b = true) : pathShortL thr l a b = true := by
  simp only [topShort, pathShortL, List.all_eq_true, SplitE.sep] at *
  intro s hs
  have h1 := ha s hs
  have h2 := hb s hs
  revert h1 h2
  cases s.below.contains a <;> cases s.below.contains b <;> simp

theorem topShort_of_path (thr : Rat) (l : List SplitE) (a b : String)
    (hp : pathShortL thr l a b = true) (ha : topShort thr l a = true) : topShort thr l b = true := by
  simp only [topShort, pathShortL, List.all_eq_true, SplitE.sep] at *
  intro s hs
  have h1 := hp s hs
  have h2 := ha s hs
  revert h1 h2
  cases s.below.contains a <;> cases s.below.contains b <;> simp

/-- the Boolean identity that closes a group -/
theorem short_glue (thr : Rat) (l : List SplitE) (a b : String) :
    ((topShort thr l a && topShort thr l b) || (pathShortL thr l a b && !topShort thr l a))
      = pathShortL thr l a b := by
  have h1 := pathShortL_of_top thr l a b
  have h2 := topShort_of_path thr l a b
  revert h1 h2
  cases topShort thr l a <;> cases topShort thr l b <;> cases pathShortL thr l a b <;> simp

theorem sameBag_append (c c' : List (List String)) (a b : String) :
    sameBag (c ++ c') a b = (sameBag c a b || sameBag c' a b) := by
  simp [sameBag, List.any_append]

theorem sameBag_opt (o : List String) (a b : String) :
    sameBag (if o.isEmpty then [] else [o]) a b = (decide (a ∈ o) && decide (b ∈ o)) := by
  cases o <;> simp [sameBag]

theorem sameBag_out_left (c : List (List String)) (a b : String) (h : ∀ g ∈ c, a ∉ g) :
    sameBag c a b = false := by
  simp only [sameBag, List.any_eq_false]
  intro g hg
  simp [h g hg]

theorem sameBag_out_right (c : List (List String)) (a b : String) (h : ∀ g ∈ c, b ∉ g) :
    sameBag c a b = false := by
  simp only [sameBag, List.any_eq_false]
  intro g hg
  simp [h g hg]

theorem flatten_opt (o : List String) : (if o.isEmpty then [] else [o]).flatten = o := by
  cases o <;> simp

/-- Counting: open leaves plus closed groups are exactly the leaves; closed groups are non-empty. -/
def CompBasic (lv : List String) (oc : List String × List (List String)) : Prop :=
  (∀ x, List.count x oc.1 + List.count x oc.2.flatten = List.count x lv) ∧ ∀ g ∈ oc.2, g ≠ []

mutual
theorem comp_basic (thr : Rat) : ∀ (t : T), CompBasic t.leaves (comp thr t)
  | .node d _ [] => by simp [CompBasic, comp, T.leaves]
  | .node _ _ (k :: ks) => by simpa [comp, T.leaves] using compL_basic thr (k :: ks)
theorem compL_basic (thr : Rat) : ∀ (k : Kids), CompBasic (leavesL k) (compL thr k)
  | [] => by simp [CompBasic, compL, leavesL]
  | (e, t) :: r => by
    have h1 := comp_basic thr t
    have h2 := compL_basic thr r
    rcases hc : comp thr t with ⟨o, c⟩
    rcases hc' : compL thr r with ⟨o', c'⟩
    rw [hc] at h1
    rw [hc'] at h2
    obtain ⟨h1c, h1n⟩ := h1
    obtain ⟨h2c, h2n⟩ := h2
    simp only [compL, hc, hc', leavesL]
    by_cases he : e.len < thr
    · simp only [he, if_true]
      refine ⟨fun x => ?_, fun g hg => ?_⟩
      · have := h1c x; have := h2c x
        simp only [List.flatten_append, List.count_append] at *
        omega
      · rcases List.mem_append.1 hg with hg | hg
        · exact h1n g hg
        · exact h2n g hg
    · simp only [he, if_false]
      refine ⟨fun x => ?_, fun g hg => ?_⟩
      · have := h1c x; have := h2c x
        simp only [List.flatten_append, List.count_append, flatten_opt] at *
        omega
      · simp only [List.mem_append] at hg
        rcases hg with (hg | hg) | hg
        · cases o with
          | nil => simp at hg
          | cons x o => simp at hg; simp [hg]
        · exact h1n g hg
        · exact h2n g hg
end

theorem CompBasic.open_sub {lv : List String} {oc : List String × List (List String)}
    (h : CompBasic lv oc) : ∀ x ∈ oc.1, x ∈ lv := by
  intro x hx
  have h1 := h.1 x
  have : 0 < List.count x oc.1 := List.count_pos_iff.2 hx
  exact List.count_pos_iff.1 (by omega)

theorem CompBasic.closed_sub {lv : List String} {oc : List String × List (List String)}
    (h : CompBasic lv oc) : ∀ g ∈ oc.2, ∀ x ∈ g, x ∈ lv := by
  intro g hg x hx
  have h1 := h.1 x
  have : 0 < List.count x oc.2.flatten := List.count_pos_iff.2 (List.mem_flatten.2 ⟨g, hg, hx⟩)
  exact List.count_pos_iff.1 (by omega)

/-- With unique leaves: the open part is the set of leaves joined to the top by
    short branches; two leaves share a closed group iff they are joined by short
    branches and not joined to the top. -/
def CompOK (thr : Rat) (lv : List String) (sp : List SplitE)
    (oc : List String × List (List String)) : Prop :=
  (∀ x ∈ lv, x ∈ oc.1 ↔ topShort thr sp x = true) ∧
  (∀ a ∈ lv, ∀ b ∈ lv, sameBag oc.2 a b = (pathShortL thr sp a b && !topShort thr sp a))

theorem topShort_cons_append (thr : Rat) (s : SplitE) (l₁ l₂ : List SplitE) (a : String) :
    topShort thr (s :: (l₁ ++ l₂)) a =
      ((!(s.below.contains a) || decide (s.e.len < thr)) && (topShort thr l₁ a && topShort thr l₂ a)) := by
  simp [topShort, List.all_append]

theorem pathShortL_cons_append (thr : Rat) (s : SplitE) (l₁ l₂ : List SplitE) (a b : String) :
    pathShortL thr (s :: (l₁ ++ l₂)) a b =
      ((!(s.sep a b) || decide (s.e.len < thr)) && (pathShortL thr l₁ a b && pathShortL thr l₂ a b)) := by
  simp [pathShortL, List.all_append]

mutual
theorem comp_ok (thr : Rat) : ∀ (t : T), t.leaves.Nodup →
    CompOK thr t.leaves t.splitsBelow (comp thr t)
  | .node d _ [], _ => by
    simp [CompOK, comp, T.leaves, T.splitsBelow, splitsL, topShort, pathShortL, sameBag]
  | .node _ _ (k :: ks), hn => by
    simpa [comp, T.leaves, T.splitsBelow] using
      compL_ok thr (k :: ks) (by simpa [T.leaves] using hn)
theorem compL_ok (thr : Rat) : ∀ (k : Kids), (leavesL k).Nodup →
    CompOK thr (leavesL k) (splitsL k) (compL thr k)
  | [], _ => by simp [CompOK, leavesL]
  | (e, t) :: r, hn => by
    simp only [leavesL, List.nodup_append] at hn
    obtain ⟨hn1, hn2, hd⟩ := hn
    have b1 := comp_basic thr t
    have b2 := compL_basic thr r
    have k1 := comp_ok thr t hn1
    have k2 := compL_ok thr r hn2
    rcases hc : comp thr t with ⟨o, c⟩
    rcases hc' : compL thr r with ⟨o', c'⟩
    rw [hc] at b1 k1
    rw [hc'] at b2 k2
    obtain ⟨ko, ks⟩ := k1
    obtain ⟨ko', ks'⟩ := k2
    -- a name of the first child is not below / in anything of the later children, and conversely
    have inT : ∀ x ∈ t.leaves, t.leaves.contains x = true ∧ topShort thr (splitsL r) x = true ∧
        x ∉ o' ∧ (∀ g ∈ c', x ∉ g) ∧ (∀ s ∈ splitsL r, x ∉ s.below) := by
      intro x hx
      have hxr : x ∉ leavesL r := fun h' => hd x hx x h' rfl
      exact ⟨by simpa using hx, topShort_out _ _ _ (out_of_subL r x hxr),
        fun h => hxr (b2.open_sub x h), fun g hg h => hxr (b2.closed_sub g hg x h),
        out_of_subL r x hxr⟩
    have inR : ∀ x ∈ leavesL r, t.leaves.contains x = false ∧ topShort thr t.splitsBelow x = true ∧
        x ∉ o ∧ (∀ g ∈ c, x ∉ g) ∧ (∀ s ∈ t.splitsBelow, x ∉ s.below) := by
      intro x hx
      have hxt : x ∉ t.leaves := fun h' => hd x h' x hx rfl
      exact ⟨by simpa using hxt, topShort_out _ _ _ (out_of_sub t x hxt),
        fun h => hxt (b1.open_sub x h), fun g hg h => hxt (b1.closed_sub g hg x h),
        out_of_sub t x hxt⟩
    simp only [compL, hc, hc', leavesL, splitsL, CompOK]
    refine ⟨?_, ?_⟩
    · intro x hx
      rw [topShort_cons_append]
      rcases List.mem_append.1 hx with hx | hx
      · obtain ⟨f1, f2, f3, _, _⟩ := inT x hx
        by_cases he : e.len < thr
        · simp [he, f2, f3, ko x hx]
        · simp [he, hx, f3]
      · obtain ⟨f1, f2, f3, _, _⟩ := inR x hx
        by_cases he : e.len < thr
        · simp [he, f2, f3, ko' x hx]
        · have hxt : x ∉ t.leaves := by simpa using f1
          simp [he, hxt, f2, ko' x hx]
    · intro a ha b hb
      rw [topShort_cons_append, pathShortL_cons_append]
      simp only [SplitE.sep]
      rcases List.mem_append.1 ha with ha | ha <;> rcases List.mem_append.1 hb with hb | hb
      · -- both in the first child
        obtain ⟨a1, a2, a3, a4, a5⟩ := inT a ha
        obtain ⟨b1, b2, b3, b4, b5⟩ := inT b hb
        rw [a1, b1, a2, pathShortL_both_out thr (splitsL r) a b a5 b5]
        by_cases he : e.len < thr
        · simp [he, sameBag_append, ks a ha b hb, sameBag_out_left c' a b a4]
        · have hg := short_glue thr t.splitsBelow a b
          have ea : decide (a ∈ o) = topShort thr t.splitsBelow a := by
            rw [Bool.eq_iff_iff]; simpa using ko a ha
          have eb : decide (b ∈ o) = topShort thr t.splitsBelow b := by
            rw [Bool.eq_iff_iff]; simpa using ko b hb
          simp only [he, if_false, sameBag_append, sameBag_opt]
          simp [ks a ha b hb, sameBag_out_left c' a b a4, ea, eb, hg]
      · -- first child / later children
        obtain ⟨a1, a2, a3, a4, a5⟩ := inT a ha
        obtain ⟨b1, b2, b3, b4, b5⟩ := inR b hb
        rw [a1, b1, a2, pathShortL_right_out thr t.splitsBelow a b b5,
          pathShortL_left_out thr (splitsL r) a b a5]
        by_cases he : e.len < thr
        · simp [he, sameBag_append, sameBag_out_right c a b b4, sameBag_out_left c' a b a4]
          cases topShort thr t.splitsBelow a <;> simp
        · simp only [he, if_false, sameBag_append, sameBag_opt]
          simp [sameBag_out_right c a b b4, sameBag_out_left c' a b a4, b3]
      · -- later children / first child
        obtain ⟨a1, a2, a3, a4, a5⟩ := inR a ha
        obtain ⟨b1, b2, b3, b4, b5⟩ := inT b hb
        rw [a1, b1, a2, pathShortL_left_out thr t.splitsBelow a b a5,
          pathShortL_right_out thr (splitsL r) a b b5]
        by_cases he : e.len < thr
        · simp [he, sameBag_append, sameBag_out_left c a b a4, sameBag_out_right c' a b b4]
        · simp only [he, if_false, sameBag_append, sameBag_opt]
          simp [sameBag_out_left c a b a4, sameBag_out_right c' a b b4, a3]
      · -- both in the later children
        obtain ⟨a1, a2, a3, a4, a5⟩ := inR a ha
        obtain ⟨b1, b2, b3, b4, b5⟩ := inR b hb
        rw [a1, b1, a2, pathShortL_both_out thr t.splitsBelow a b a5 b5]
        by_cases he : e.len < thr
        · simp [he, sameBag_append, ks' a ha b hb, sameBag_out_left c a b a4]
        · simp only [he, if_false, sameBag_append, sameBag_opt]
          simp [ks' a ha b hb, sameBag_out_left c a b a4, a3]
end

theorem cut_eq (thr : Rat) (t : T) :
    cut thr t =
      (if ((if t.kids.length == 1 then [t.name] else []) ++ (compL thr t.kids).1).isEmpty then []
        else [(if t.kids.length == 1 then [t.name] else []) ++ (compL thr t.kids).1])
      ++ (compL thr t.kids).2 := by
  unfold cut
  rcases compL thr t.kids with ⟨o, c⟩
  rfl

theorem cut_sameBag (thr : Rat) (t : T) (hu : t.tipNames.Nodup) (a b : String)
    (ha : a ∈ t.tipNames) (hb : b ∈ t.tipNames) :
    sameBag (cut thr t) a b = pathShort thr t a b := by
  rw [pathShort_eq, cut_eq]
  unfold T.splits
  unfold T.tipNames at hu ha hb
  have bb := compL_basic thr t.kids
  generalize (if t.kids.length == 1 then [t.name] else []) = extra at *
  simp only [List.nodup_append] at hu
  obtain ⟨_, hn, hd⟩ := hu
  obtain ⟨ko, ks⟩ := compL_ok thr t.kids hn
  have hout : ∀ x ∈ extra, x ∉ leavesL t.kids := fun x hx h => hd x hx x h rfl
  have key1 : ∀ x ∈ extra ++ leavesL t.kids,
      decide (x ∈ extra ++ (compL thr t.kids).1) = topShort thr (splitsL t.kids) x := by
    intro x hx
    rw [Bool.eq_iff_iff]
    rcases List.mem_append.1 hx with hx | hx
    · simp [hx, topShort_out thr _ x (out_of_subL t.kids x (hout x hx))]
    · have : x ∉ extra := fun h => hout x h hx
      simp [this, ko x hx]
  have key2 : ∀ a ∈ extra ++ leavesL t.kids, ∀ b ∈ extra ++ leavesL t.kids,
      sameBag (compL thr t.kids).2 a b
        = (pathShortL thr (splitsL t.kids) a b && !topShort thr (splitsL t.kids) a) := by
    intro a ha b hb
    rcases List.mem_append.1 ha with ha | ha
    · have hak := hout a ha
      rw [sameBag_out_left _ a b (fun g hg h => hak (bb.closed_sub g hg a h)),
        topShort_out thr _ a (out_of_subL t.kids a hak)]
      simp
    · rcases List.mem_append.1 hb with hb | hb
      · have hbk := hout b hb
        rw [sameBag_out_right _ a b (fun g hg h => hbk (bb.closed_sub g hg b h)),
          pathShortL_right_out thr _ a b (out_of_subL t.kids b hbk)]
        simp
      · exact ks a ha b hb
  rw [sameBag_append, sameBag_opt, key1 a ha, key1 b hb, key2 a ha b hb, short_glue]

theorem cut_perm (thr : Rat) (t : T) : ((cut thr t).flatten).Perm t.tipNames := by
  rw [cut_eq, List.perm_iff_count]
  intro x
  have := (compL_basic thr t.kids).1 x
  simp only [T.tipNames, List.flatten_append, flatten_opt, List.count_append]
  omega

theorem cut_nonempty (thr : Rat) (t : T) : ∀ g ∈ cut thr t, g ≠ [] := by
  rw [cut_eq]
  intro g hg
  rcases List.mem_append.1 hg with hg | hg
  · generalize (if t.kids.length == 1 then [t.name] else []) ++ (compL thr t.kids).1 = o at hg
    cases o with
    | nil => simp at hg
    | cons x o => simp at hg; simp [hg]
  · exact (compL_basic thr t.kids).2 g hg

/-! ## concrete trees used by the `example`s of `Proofs/C14.lean` -/

def mkE (len : Rat) (id : Int) : EdgeD := ⟨len, NIL, NIL, [], id⟩

/-- `((A:1,B:2):1/2,C:3,D:1);` — unrooted, four tips -/
def exT : T :=
  .node ⟨"", []⟩ 0 [
    (mkE (1/2) 0, .node ⟨"", []⟩ 0 [(mkE 1 1, T.leaf "A"), (mkE 2 2, T.leaf "B")]),
    (mkE 3 3, T.leaf "C"),
    (mkE 1 4, T.leaf "D")]

/-- the same tree re-rooted on the tip `D`: `(((A:1,B:2):1/2,C:3):1)D;` -/
def exTipRoot : T :=
  .node ⟨"D", []⟩ 0 [
    (mkE 1 4, .node ⟨"", []⟩ 0 [
      (mkE (1/2) 0, .node ⟨"", []⟩ 0 [(mkE 1 1, T.leaf "A"), (mkE 2 2, T.leaf "B")]),
      (mkE 3 3, T.leaf "C")])]

end Gotree.C14
