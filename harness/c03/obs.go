package c03

import (
	"strconv"
	"strings"

	"github.com/evolbioinfo/gotree/tree"
)

// obs is what the public traversal API answers after a step.  Nodes and
// branches are named by the child-index path (in the α dump) of the node /
// of the lower end of the branch, found by a plain walk of the harness
// (pointer identity); a pointer the walk did not meet is printed "?".
type obs struct {
	nodes, tips                string // paths, each followed by ","
	edges, internal, tipEdges  string // "edgepath/leftpath/rightpath" each followed by ","
	newick                     string
}

func pathStr(p []int) string {
	s := make([]string, len(p))
	for i, x := range p {
		s[i] = strconv.Itoa(x)
	}
	return strings.Join(s, ".")
}

// observe must only be called on a heap that core.Alpha accepted (the
// library's recursions do not terminate on cyclic heaps).
func observe(t *tree.Tree) obs {
	np := map[*tree.Node]string{}
	ep := map[*tree.Edge]string{}
	var walk func(cur, prev *tree.Node, path []int)
	walk = func(cur, prev *tree.Node, path []int) {
		np[cur] = pathStr(path)
		j := 0
		for i, nb := range cur.Neigh() {
			if nb == prev {
				continue
			}
			p := append(append([]int(nil), path...), j)
			ep[cur.Edges()[i]] = pathStr(p)
			walk(nb, cur, p)
			j++
		}
	}
	walk(t.Root(), nil, nil)
	nstr := func(n *tree.Node) string {
		if s, ok := np[n]; ok {
			return s
		}
		return "?"
	}
	nodeList := func(ns []*tree.Node) string {
		var b strings.Builder
		for _, n := range ns {
			b.WriteString(nstr(n))
			b.WriteByte(',')
		}
		return b.String()
	}
	edgeList := func(es []*tree.Edge) string {
		var b strings.Builder
		for _, e := range es {
			if s, ok := ep[e]; ok {
				b.WriteString(s)
			} else {
				b.WriteString("?")
			}
			b.WriteByte('/')
			b.WriteString(nstr(e.Left()))
			b.WriteByte('/')
			b.WriteString(nstr(e.Right()))
			b.WriteByte(',')
		}
		return b.String()
	}
	return obs{
		nodes:    nodeList(t.Nodes()),
		tips:     nodeList(t.Tips()),
		edges:    edgeList(t.Edges()),
		internal: edgeList(t.InternalEdges()),
		tipEdges: edgeList(t.TipEdges()),
		newick:   t.Newick(),
	}
}
