/-
  C15 — the branch data (length, support, p-value, comments, id) of the untouched branches
  survive the local edits: statements about `T.edges`.  Core Lean only.
-/
import Gotree.Lemmas.C15InsertAll

namespace Gotree.C15
open Gotree Gotree.C14

def edgesL (k : Kids) : List EdgeD := (splitsL k).map (·.e)

theorem edges_def (t : T) : t.edges = edgesL t.kids := rfl

theorem edgesL_cons (e : EdgeD) (t : T) (r : Kids) : edgesL ((e, t) :: r) = e :: (t.splitsBelow.map (·.e) ++ edgesL r) := by
  simp [edgesL, splitsL]

theorem edgesL_append (k₁ k₂ : Kids) : edgesL (k₁ ++ k₂) = edgesL k₁ ++ edgesL k₂ := by
  simp [edgesL, splitsL_append]

/-! ## Merge -/

theorem merge_edges' {i1 i2 : Bool} {t t2 t' : T} (h : merge i1 i2 t t2 = .ok t') :
    t'.edges = EdgeD.blank :: (t.edges ++ EdgeD.blank :: t2.edges) := by
  obtain ⟨_, _, _, rfl⟩ := merge_ok h
  simp [T.edges, T.splits, splitsL]

/-! ## GraftTreeOnTip -/

mutual
theorem graftAt_edges {tip : String} {G : T} : ∀ (t t' : T), graftAt tip G t = some t' →
    (t'.splitsBelow.map (·.e)).Perm (t.splitsBelow.map (·.e) ++ G.splitsBelow.map (·.e))
  | .node d p k, t', h => by
    obtain ⟨k', hk, rfl⟩ := graftAt_some h
    simpa [edgesL] using graftKids_edges k k' hk
theorem graftKids_edges {tip : String} {G : T} : ∀ (k k' : Kids), graftKids tip G k = some k' →
    (edgesL k').Perm (edgesL k ++ G.splitsBelow.map (·.e))
  | [], _, h => by simp [graftKids] at h
  | (e, t) :: r, k', h => by
    rcases graftKids_cases h with ⟨hl, _, rfl⟩ | ⟨_, t', ht, rfl⟩ | ⟨_, _, r', hr, rfl⟩
    · simp only [edgesL_cons, (isLeaf_leaves hl).2, List.map_nil, List.nil_append, List.cons_append]
      exact List.Perm.cons _ List.perm_append_comm
    · simp only [edgesL_cons, List.cons_append]
      refine List.Perm.cons _ ?_
      have := (graftAt_edges t t' ht).append_right (edgesL r)
      refine this.trans ?_
      simp only [List.append_assoc]
      exact List.Perm.append_left _ List.perm_append_comm
    · simp only [edgesL_cons, List.cons_append, List.append_assoc]
      exact List.Perm.cons _ (List.Perm.append_left _ (graftKids_edges r r' hr))
end

/-! ## InsertIdenticalTip -/

mutual
theorem insAt_edges {old new : String} : ∀ (t t' : T), insAt old new t = some t' →
    (t'.splitsBelow.map (·.e)).Perm (zeroEdge :: t.splitsBelow.map (·.e)) ∨
    (t'.splitsBelow.map (·.e)).Perm (zeroEdge :: zeroEdge :: t.splitsBelow.map (·.e))
  | .node d p k, t', h => by
    obtain ⟨k', hk, rfl⟩ := insAt_some h
    simpa [edgesL] using insKids_edges k k' hk
theorem insKids_edges {lone : Bool} {old new : String} : ∀ (k k' : Kids), insKids lone old new k = some k' →
    (edgesL k').Perm (zeroEdge :: edgesL k) ∨ (edgesL k').Perm (zeroEdge :: zeroEdge :: edgesL k)
  | [], _, h => by simp [insKids] at h
  | (e, t) :: r, k', h => by
    rcases insKids_cases h with ⟨_, _, _, rfl⟩ | ⟨hl, _, _, rfl⟩ | ⟨_, t', ht, rfl⟩ | ⟨_, _, r', hr, rfl⟩
    · left
      rw [edgesL_append]
      simp only [edgesL, splitsL, T.leaf, T.splitsBelow, List.map_cons, List.map_nil, List.append_nil, List.nil_append]
      exact List.perm_append_singleton _ _
    · right
      simp only [edgesL_cons, cherry_splits, (isLeaf_leaves hl).2, List.map_cons, List.map_nil, List.nil_append,
        List.cons_append]
      exact (List.Perm.swap _ _ _).trans (List.Perm.cons _ (List.Perm.swap _ _ _))
    · rcases insAt_edges t t' ht with h1 | h1
      · left
        simp only [edgesL_cons]
        exact ((h1.append_right _).cons e).trans (List.Perm.swap _ _ _)
      · right
        simp only [edgesL_cons]
        refine ((h1.append_right _).cons e).trans ?_
        simp only [List.cons_append]
        exact (List.Perm.swap _ _ _).trans (List.Perm.cons _ (List.Perm.swap _ _ _))
    · rcases insKids_edges r r' hr with h1 | h1
      · left
        simp only [edgesL_cons]
        refine ((h1.append_left _).cons e).trans ?_
        exact (List.Perm.cons _ List.perm_middle).trans (List.Perm.swap _ _ _)
      · right
        simp only [edgesL_cons]
        refine ((h1.append_left _).cons e).trans ?_
        refine (List.Perm.cons _ List.perm_middle).trans ?_
        refine (List.Perm.swap _ _ _).trans (List.Perm.cons _ ?_)
        exact (List.Perm.cons _ List.perm_middle).trans (List.Perm.swap _ _ _)
end

end Gotree.C15
