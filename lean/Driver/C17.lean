import Driver.Proto
import Gotree.Model.C17
import Gotree.Model.C17Cli
import Gotree.Spec.C17

namespace Gotree.Driver.C17
open Gotree Gotree.Driver Gotree.C17 Gotree.C17.Spec

/-- one callback of the enumeration as the harness saw it -/
structure Rec where
  applyOut : String
  wf1 : String
  dump1 : String
  text1 : String
  undoOut : String
  wf2 : String
  dump2 : String
  text2 : String

def parseRec (before text : String) (s : String) : Option Rec :=
  match s.splitOn ";" with
  | [a, w1, d1, t1, u, w2, d2, t2] =>
    some ⟨a, w1, d1, t1, u, w2, if d2 == "=" then before else d2, if t2 == "=" then text else t2⟩
  | _ => none

inductive Mode | plain | double | stop (k : Nat)

def parseMode (s : String) : Option Mode :=
  match s.splitOn ":" with
  | ["plain"] => some .plain
  | ["double"] => some .double
  | ["stop", k] => k.toNat?.map .stop
  | _ => none

def sortSets (l : List SplitSet) : List String := sortStrings (l.map showStrLists)

def firstSome {α} (l : List (Option α)) : Option α := l.findSome? id

/-- Trees outside the property's scope (not binary): what the theorems still say of ANY tree —
    two rearrangements per branch with both ends of degree three, same tips, exact restoration —
    is evaluated on the implementation's output, and the model is compared exactly. -/
def handleGeneral (m : Mode) (before text : String) (t : T) (recs : List Rec) (calls : Nat)
    (wfF dumpF textF : String) (tags : List String) : Verdict :=
  let rs := rearrangements t
  let perRec : List (Option String) := (recs.zip (List.range recs.length)).map fun (r, i) =>
    let at_ := " at rearrangement " ++ toString i
    if r.applyOut != "ok" then some ("Apply: " ++ r.applyOut ++ at_)
    else if r.wf1 != "ok" then some ("tree malformed after Apply: " ++ r.wf1 ++ at_)
    else match T.undump r.dump1 with
      | none => some ("unreadable dump after Apply" ++ at_)
      | some t1 =>
        if !(sameTips t t1 && t1.rooted == t.rooted) then some ("neighbour on other tips" ++ at_)
        else if r.undoOut != "ok" then some ("Undo: " ++ r.undoOut ++ at_)
        else if r.wf2 != "ok" then some ("tree malformed after Undo: " ++ r.wf2 ++ at_)
        else if r.dump2 != before then some ("Undo does not restore the tree (dump differs)" ++ at_)
        else if r.text2 != text then some ("Undo does not restore the text" ++ at_)
        else none
  let want := 2 * deg3Branches t
  let callsOK : Bool := match m with
    | .stop k => if k = 0 || calls < k then calls == want else calls == k && k ≤ want
    | _ => calls == want
  let finalBad : Option String :=
    if wfF != "ok" then some ("tree malformed after the enumeration: " ++ wfF)
    else if dumpF != before then some "tree changed by the enumeration (dump differs)"
    else if textF != text then some "text changed by the enumeration"
    else if !callsOK then some ("proposed " ++ toString calls ++ " rearrangements, " ++ toString (deg3Branches t) ++
      " branches have both ends of degree three")
    else none
  match firstSome (perRec ++ [finalBad]) with
  | some msg => ⟨.oracle, tags, msg⟩
  | none =>
    let nsT : List T := recs.filterMap fun r => T.undump r.dump1
    let mns := ((rs.map (apply t)).filterMap id).take calls
    let exact := mns.length == nsT.length && (List.zipWith (fun a b => a == b) mns nsT).all id
    let msets := sortSets (((rs.map (apply t)).filterMap id).map (·.usplitSet))
    let isets := sortSets (nsT.map (·.usplitSet))
    if (rs.map (apply t)).any (·.isNone) then ⟨.tie, tags, "model Apply fails"⟩
    else if !(isets.all msets.contains) then ⟨.tie, tags, "model neighbours differ (split sets)"⟩
    else ⟨.pass, tags ++ tagIf exact "exact", ""⟩

def handleEnum (m : Mode) (before text : String) (t : T) (recs : List Rec) (calls : Nat)
    (wfF dumpF textF : String) : Verdict :=
  let inner := innerBranches t
  let rs := rearrangements t
  let scope := inScope t
  let tags := tagIf t.rooted "rooted" ++ tagIf (!t.rooted) "unrooted" ++ tagIf (inner ≥ 2) "nontrivial" ++
    tagIf scope "inscope" ++ tagIf (pposOK t) "pposok" ++ tagIf (rs.any (·.bUp)) "rootside" ++
    tagIf ((rootSplit t).isSome && t.rooted) "f22region" ++
    tagIf (t.kids.any fun k => k.2.isLeaf) "tip-at-root" ++
    tagIf (innerBranchesShape t == inner) "shapecount" ++
    (match m with | .plain => ["plain"] | .double => ["double"] | .stop _ => ["stop"])
  if !scope then
    (if t.uniqueTips then handleGeneral m before text t recs calls wfF dumpF textF ("general" :: tags)
     else ⟨.pass, "skip-dupnames" :: tags, ""⟩) else
  -- ORACLE, on the implementation's own output only
  let ns : List (Option T) := recs.map fun r => T.undump r.dump1
  let nsT : List T := ns.filterMap id
  let perRec : List (Option String) := (recs.zip (List.range recs.length)).map fun (r, i) =>
    let at_ := " at rearrangement " ++ toString i
    if r.applyOut != "ok" then some ("Apply: " ++ r.applyOut ++ at_)
    else if r.wf1 != "ok" then some ("tree malformed after Apply: " ++ r.wf1 ++ at_)
    else match T.undump r.dump1 with
      | none => some ("unreadable dump after Apply" ++ at_)
      | some t1 =>
        if !(neighbourOK t t1) then
          some ((if !(t1.binary && t1.uniqueTips && sameTips t t1 && t1.rooted == t.rooted) then "neighbour not a binary tree on the same tips"
                 else if !(oneSplitApart t.usplitSet t1.usplitSet) then "neighbour does not differ by exactly one split"
                 else "neighbour differs in branch data besides the one split") ++ at_)
        else if r.undoOut != "ok" then some ("Undo: " ++ r.undoOut ++ at_)
        else if r.wf2 != "ok" then some ("tree malformed after Undo: " ++ r.wf2 ++ at_)
        else if r.dump2 != before then some ("Undo does not restore the tree (dump differs)" ++ at_)
        else if r.text2 != text then some ("Undo does not restore the text" ++ at_)
        else none
  let distinct := pairwiseDistinct (nsT.map (·.usplitSet))
  -- did the enumeration run to its end (the callback never answered false)?
  let exhaustive : Bool := match m with | .stop k => k = 0 || calls < k | _ => true
  let callsOK : Bool := match m with
    | .stop k => if k = 0 || calls < k then calls == 2 * inner else calls == k && k ≤ 2 * inner
    | _ => calls == 2 * inner
  let full := exhaustive
  let finalBad : Option String :=
    if wfF != "ok" then some ("tree malformed after the enumeration: " ++ wfF)
    else if dumpF != before then some "tree changed by the enumeration (dump differs)"
    else if textF != text then some "text changed by the enumeration"
    else none
  let other : Option String := firstSome (perRec ++ [if distinct then none else some "two proposed neighbours are the same tree", finalBad,
      if calls != recs.length then some "harness: calls and records differ" else none])
  -- TIE, on obs_C17: number of rearrangements, split set of each neighbour (as a multiset),
  -- and the model's undo of the implementation's neighbour
  let mcalls := match m with | .stop k => callsUntil t k | _ => rs.length
  let mall : List (Option T) := rs.map (apply t)
  let mallT := mall.filterMap id
  let mnsT := mallT.take calls
  -- the order of the enumeration is not part of obs_C17: the neighbours are compared as a
  -- multiset, and when the callback stopped the enumeration, as a sub-multiset of the model's
  let msets := sortSets (mallT.map (·.usplitSet))
  let isets := sortSets (nsT.map (·.usplitSet))
  let exact := mnsT.length == nsT.length && (List.zipWith (fun a b => a == b) mnsT nsT).all id
  let undoOK := exact && (List.zipWith (fun (r : NNI) (n : T) => match undo n r with | some u => u == t | none => false) (rs.take calls) nsT).all id
  -- `double` mode: the model goes through the `applied` flag as the harness does
  -- (Apply, Apply, look, Undo, Undo, look)
  let objOK : Bool := match m with
    | .double => ((rs.take calls).zip nsT).all fun (r, n) =>
        match (Obj.mk r false).apply t with
        | none => false
        | some (t1, o1) =>
          match o1.apply t1 with
          | none => false
          | some (t1', o1') =>
            t1' == n &&
            (match o1'.undo t1' with
             | none => false
             | some (t2, o2) =>
               match o2.undo t2 with
               | none => false
               | some (t3, o3) => t3 == t && !o3.applied)
    | _ => true
  let tie : Option String :=
    if mcalls != calls then some ("model proposes " ++ toString mcalls ++ " rearrangements")
    else if mall.any (·.isNone) then some "model Apply fails"
    else if (if exhaustive then msets != isets else !(isets.all msets.contains)) then some "model neighbours differ (split sets)"
    else if exact && !undoOK then some "model Undo of the implementation's neighbour differs from the original"
    else if exact && !objOK then some "model Apply/Apply/Undo/Undo through the applied flag differs"
    else none
  match other with
  | some msg => ⟨.oracle, tags, msg⟩
  | none =>
    if !callsOK then
      let msg := "proposed " ++ toString calls ++ " rearrangements" ++ (if exhaustive then "" else " (stopped by the callback)") ++
        ", the tree has " ++ toString inner ++ " inner branches"
      if full && f22Region t nsT then
        -- the known finding; the correspondence is still checked on these trees and a broken
        -- tie is not hidden behind the known finding
        match tie with
        | some d => ⟨.tie, tags, d ++ " (tree in the region of F22)"⟩
        | none => ⟨.oracle, tags ++ tagIf exact "exact" ++ tagIf undoOK "model-undo-exact", "class=F22-nni-rooted-root-branches " ++ msg⟩
      else ⟨.oracle, tags, msg⟩
    else
    match tie with
    | some d => ⟨.tie, tags, d⟩
    | none => ⟨.pass, tags ++ tagIf exact "exact" ++ tagIf undoOK "model-undo-exact", ""⟩

/- what the Newick text shows of a tree: shape, child order, names, lengths, supports
   (not the parent positions, not the branch ids) -/
mutual
def sameText : T → T → Bool
  | .node d₁ _ k₁, .node d₂ _ k₂ => d₁.name == d₂.name && sameTextL k₁ k₂
def sameTextL : Kids → Kids → Bool
  | [], [] => true
  | (e₁, t₁) :: r₁, (e₂, t₂) :: r₂ =>
    e₁.len == e₂.len && e₁.sup == e₂.sup && sameText t₁ t₂ && sameTextL r₁ r₂
  | _, _ => false
end

/- the tree as its Newick text shows it: parent positions and branch ids forgotten -/
mutual
def stripT : T → T
  | .node d _ k => .node d 0 (stripL k)
def stripL : Kids → Kids
  | [] => []
  | (e, t) :: r => ({ e with id := 0 }, stripT t) :: stripL r
end

def textKey (t : T) : String := (stripT t).dump

/-- `gotree nni`: the output lines re-read by the parser are the neighbours -/
def handleCLI (t : T) (out : String) (recs : List (String × String)) : Verdict :=
  let inner := innerBranches t
  let rs := rearrangements t
  let scope := inScope t
  let tags := ["cli"] ++ tagIf t.rooted "rooted" ++ tagIf (!t.rooted) "unrooted" ++ tagIf (inner ≥ 2) "nontrivial" ++
    tagIf scope "inscope" ++ tagIf ((rootSplit t).isSome && t.rooted) "f22region"
  if !scope then ⟨.pass, "skip-outofscope" :: tags, ""⟩ else
  if out != "ok" then ⟨.oracle, tags, "gotree nni: " ++ out⟩ else
  let perRec : List (Option String) := (recs.zip (List.range recs.length)).map fun (r, i) =>
    let at_ := " at output line " ++ toString i
    if r.1 != "ok" then some ("output line not a tree: " ++ r.1 ++ at_)
    else match T.undump r.2 with
      | none => some ("unreadable dump" ++ at_)
      | some t1 => if neighbourOK t t1 then none else some ("output tree is not an NNI neighbour of the input" ++ at_)
  let nsT : List T := recs.filterMap fun r => T.undump r.2
  let distinct := pairwiseDistinct (nsT.map (·.usplitSet))
  match firstSome (perRec ++ [if distinct then none else some "two output trees are the same tree"]) with
  | some msg => ⟨.oracle, tags, msg⟩
  | none =>
    let mall := rs.map (apply t)
    let mallT := mall.filterMap id
    let exact := mallT.length == nsT.length && (List.zipWith sameText mallT nsT).all id
    let tie : Option String :=
      if mall.any (·.isNone) then some "model Apply fails"
      else if sortSets (mallT.map (·.usplitSet)) != sortSets (nsT.map (·.usplitSet)) then some "model neighbours differ (split sets)"
      -- each output tree is, as a text (child order, names, lengths, supports), one of the
      -- model's neighbours; the order of the lines is not compared
      else if sortStrings (mallT.map textKey) != sortStrings (nsT.map textKey) then some "model neighbours differ (text: child order or branch data)"
      else none
    if recs.length != 2 * inner then
      let msg := "gotree nni wrote " ++ toString recs.length ++ " trees, the tree has " ++ toString inner ++ " inner branches"
      if f22Region t nsT then
        match tie with
        | some d => ⟨.tie, tags, d ++ " (tree in the region of F22)"⟩
        | none => ⟨.oracle, tags ++ tagIf exact "exact-text", "class=F22-nni-rooted-root-branches " ++ msg⟩
      else ⟨.oracle, tags, msg⟩
    else
    match tie with
    | some d => ⟨.tie, tags, d⟩
    | none => ⟨.pass, tags ++ tagIf exact "exact-text", ""⟩

def handle (op : String) (f : List String) : Verdict :=
  match op, f with
  | "enum", [ms, before, text, recs, calls, wfF, dumpF, textF] =>
    match parseMode ms, T.undump before, (splitTerm "|" recs).mapM (parseRec before text), calls.toNat? with
    | some m, some t, some rl, some c =>
      handleEnum m before text t rl c wfF (if dumpF == "=" then before else dumpF) (if textF == "=" then text else textF)
    | _, _, _, _ => bad "C17.enum fields"
  | "cli", [_req, before, _text, out, recs, _stderr] =>
    let rl : Option (List (String × String)) := (splitTerm "|" recs).mapM fun s =>
      match s.splitOn ";" with
      | [st, d, _] => some (st, d)
      | _ => none
    match T.undump before, rl with
    | some t, some rl => handleCLI t out rl
    | _, _ => bad "C17.cli fields"
  | "glue", [variant, _req, before, out, crashed, recs, _stderr] =>
    let rl : Option (List (String × String)) := (splitTerm "|" recs).mapM fun s =>
      match s.splitOn ";" with
      | [st, d, _] => some (st, d)
      | _ => none
    match T.undump before, rl with
    | some t, some rl =>
      let gtags := ["cli", "glue", "glue-" ++ variant]
      if crashed != "nopanic" then ⟨.oracle, gtags, "gotree nni crashed (panic in stderr)"⟩
      else if out == "timeout" then ⟨.oracle, gtags, "gotree nni: timeout"⟩
      else
      -- the records the reader delivers, as the model sees them
      let recsIn : List (Option T) := match variant with
        | "errtree" => [some t, none]
        | "missing" => []
        | _ => [some t]
      let wantErr := variant == "missing" || (cliRun recsIn).2
      if wantErr && out == "ok" then ⟨.oracle, gtags, "a bad input (missing file, record that is not a tree) is not reported as an error"⟩
      else if !wantErr && out != "ok" then ⟨.oracle, gtags, "gotree nni: " ++ out⟩
      else
        -- on an error `cmd.Execute` prints the message as a last line on standard output
        let lastIsMsg := match rl.getLast? with | some r => r.1 != "ok" | none => false
        if wantErr && !lastIsMsg then ⟨.oracle, gtags, "no error message line after the trees"⟩ else
        let trees := if wantErr then rl.dropLast else rl
        if variant == "missing" then
          (if !trees.isEmpty then ⟨.oracle, gtags, "trees written although the input file is missing"⟩ else ⟨.pass, gtags, ""⟩)
        else
          -- the trees: as for one tree (`handleCLI` holds oracle and tie)
          let v := handleCLI t "ok" trees
          let mlines := cliLines recsIn
          if v.status == .pass && mlines != rl.length then
            { v with status := .tie, tags := gtags ++ v.tags, detail := "model writes " ++ toString mlines ++ " lines" }
          else { v with tags := (gtags ++ v.tags).eraseDups }
    | _, _ => bad "C17.glue fields"
  | "cli2", [_reqA, _reqB, beforeA, beforeB, out, recs, _stderr] =>
    let rl : Option (List (String × String)) := (splitTerm "|" recs).mapM fun s =>
      match s.splitOn ";" with
      | [st, d, _] => some (st, d)
      | _ => none
    match T.undump beforeA, T.undump beforeB, rl with
    | some ta, some tb, some rl =>
      -- the output lines of the first tree come first, then those of the second (the two trees
      -- have different tip names); a line that belongs to neither is given to the first
      let isB (r : String × String) : Bool := match T.undump r.2 with
        | some u => sameTips tb u
        | none => false
      let ra := rl.takeWhile (fun r => !isB r)
      let rb := rl.dropWhile (fun r => !isB r)
      if rb.any (fun r => !isB r) then ⟨.oracle, ["cli", "cli2"], "output trees of the two input trees are interleaved"⟩ else
      let va := handleCLI ta out ra
      let vb := handleCLI tb out rb
      let tags := "cli2" :: (va.tags ++ vb.tags).eraseDups
      -- a new violation on either tree goes first, then the known finding, then PASS
      let known (v : Verdict) : Bool := v.detail.startsWith "class="
      let pick : Verdict :=
        if va.status != .pass && !known va then va
        else if vb.status != .pass && !known vb then vb
        else if va.status != .pass then va
        else vb
      { pick with tags := tags }
    | _, _, _ => bad "C17.cli2 fields"
  | _, _ => bad ("C17: unknown op " ++ op)

end Gotree.Driver.C17
