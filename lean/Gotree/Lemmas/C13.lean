/-
  C13 — helper lemmas (text level: lines, chunks; the multi-tree reader; the first-tree hypothesis).
-/
import Gotree.Spec.C13

namespace Gotree.C13
open Gotree

/- ## lines -/

theorem splitLinesGo_line (a rest cur : Txt) (ha : ∀ c ∈ a, c ≠ '\n') :
    splitLinesGo (a ++ '\n' :: rest) cur = (dropCR (a.reverse ++ cur)).reverse :: splitLinesGo rest [] := by
  induction a generalizing cur with
  | nil => simp [splitLinesGo]
  | cons c a ih =>
    have hc : c ≠ '\n' := ha c (by simp)
    have : (c == '\n') = false := by simpa using hc
    simp only [List.cons_append, splitLinesGo, this]
    have := ih (c :: cur) (fun x hx => ha x (by simp [hx]))
    simpa using this

theorem dropCR_of_head {l : Txt} (h : l.head? ≠ some '\r') : dropCR l = l := by
  cases l with
  | nil => rfl
  | cons c r =>
    unfold dropCR
    split
    · rename_i r' heq
      simp at h
      injection heq with h1 _
      exact absurd h1 h
    · rfl

/-- a text that has no line break and does not end with '\r' is one line -/
def oneLine (a : Txt) : Prop := (∀ c ∈ a, c ≠ '\n') ∧ a.getLast? ≠ some '\r'

theorem splitLines_cons (a rest : Txt) (h : oneLine a) :
    splitLines (a ++ '\n' :: rest) = a :: splitLines rest := by
  unfold splitLines
  rw [splitLinesGo_line a rest [] h.1]
  have : dropCR a.reverse = a.reverse := by
    apply dropCR_of_head
    simpa [List.head?_reverse] using h.2
  simp [this]

def unlines : List Txt → Txt
  | [] => []
  | l :: r => l ++ '\n' :: unlines r

theorem splitLines_unlines (ls : List Txt) (h : ∀ l ∈ ls, oneLine l) : splitLines (unlines ls) = ls := by
  induction ls with
  | nil => rfl
  | cons l r ih =>
    simp only [unlines]
    rw [splitLines_cons l _ (h l (by simp)), ih (fun x hx => h x (by simp [hx]))]

/- ## last non-blank character -/

theorem lastNonBlankRev_blank (b : Txt) (hb : ∀ c ∈ b, isBlank c = true) (x : Txt) (c : Char) (hc : isBlank c = false) :
    lastNonBlankRev (b ++ c :: x) = c := by
  induction b with
  | nil =>
    cases x with
    | nil => rfl
    | cons y x => simp [lastNonBlankRev, hc]
  | cons d b ih =>
    have hd : isBlank d = true := hb d (by simp)
    have ih' := ih (fun y hy => hb y (by simp [hy]))
    cases hbx : b ++ c :: x with
    | nil => simp at hbx
    | cons y z =>
      simp only [List.cons_append, hbx, lastNonBlankRev, hd, if_true]
      rw [← hbx]; exact ih'

/-- a buffer `x ++ ";" ++ blanks` ends the chunk -/
theorem lastNonBlank_semi (x b : Txt) (hb : ∀ c ∈ b, isBlank c = true) : lastNonBlank (x ++ ';' :: b) = ';' := by
  unfold lastNonBlank
  have : (x ++ ';' :: b).reverse = b.reverse ++ ';' :: x.reverse := by simp
  rw [this]
  apply lastNonBlankRev_blank
  · intro c hc; exact hb c (by simpa using hc)
  · decide

theorem lastNonBlankRev_mem (l : Txt) (h : lastNonBlankRev l = ';') : ';' ∈ l := by
  induction l with
  | nil => simp [lastNonBlankRev] at h
  | cons c r ih =>
    cases r with
    | nil => simp [lastNonBlankRev] at h; simp [h]
    | cons d r' =>
      simp only [lastNonBlankRev] at h
      split at h
      · have := ih h; simp [this]
      · simp [h]

/-- a buffer without ';' never ends a chunk -/
theorem lastNonBlank_ne_semi (l : Txt) (h : ';' ∉ l) : (lastNonBlank l == ';') = false := by
  cases hh : lastNonBlank l == ';' with
  | false => rfl
  | true =>
    have := lastNonBlankRev_mem l.reverse (by simpa [lastNonBlank] using hh)
    exact absurd (by simpa using this) h

/- ## the multi-tree reader as "parse the chunks in order" -/

/-- the chunks of a list of lines: lines are concatenated until the buffer's last non-blank
    character is ';' -/
def chunksGo : List Txt → Txt → List Txt
  | [], _ => []
  | l :: ls, acc => if lastNonBlank (acc ++ l) == ';' then (acc ++ l) :: chunksGo ls [] else chunksGo ls (acc ++ l)

/-- what is left in the buffer at the end of the input (text after the last chunk) -/
def tailGo : List Txt → Txt → Txt
  | [], acc => acc
  | l :: ls, acc => if lastNonBlank (acc ++ l) == ';' then tailGo ls [] else tailGo ls (acc ++ l)

def chunks (doc : Txt) : List Txt := chunksGo (splitLines doc) []
def tail (doc : Txt) : Txt := tailGo (splitLines doc) []

/-- the trees of a chunk: its first tree ends it (only white space follows the first ';' outside a comment) -/
def singleTree (c : Txt) : Prop := (afterTree c false).all isNewickWs = true

theorem afterTree_prefix (a bl : Txt) (ha : ∀ c ∈ a, c ≠ ';' ∧ c ≠ '[') : afterTree (a ++ ';' :: bl) false = bl := by
  induction a with
  | nil => simp [afterTree]
  | cons c r ih =>
    have hc := ha c (by simp)
    have h1 : (c == '[') = false := by simpa using hc.2
    have h2 : (c == ';') = false := by simpa using hc.1
    simp only [List.cons_append, afterTree, Bool.false_eq_true, if_false, h1, h2]
    exact ih (fun x hx => ha x (by simp [hx]))

/-- a text `a;bl` with no ';' and no '[' in `a` and only white space in `bl` holds one tree -/
theorem singleTree_of (a bl : Txt) (ha : ∀ c ∈ a, c ≠ ';' ∧ c ≠ '[') (hbl : ∀ c ∈ bl, isNewickWs c = true) :
    singleTree (a ++ ';' :: bl) := by
  unfold singleTree
  rw [afterTree_prefix a bl ha, List.all_eq_true]
  exact hbl

theorem chunkGo_err (C : NewickCodec) (f : Nat) (c : Txt) (id : Nat) (hp : C.parse c = none) :
    chunkGo C (f + 1) c id = ([⟨id, .err⟩], none) := by
  simp [chunkGo, hp]

theorem chunkGo_single (C : NewickCodec) (f : Nat) (c : Txt) (t : T) (id : Nat) (hp : C.parse c = some t)
    (hs : singleTree c) : chunkGo C (f + 1) c id = ([⟨id, .ok t⟩], some (id + 1)) := by
  simp only [singleTree] at hs
  simp [chunkGo, hp, hs]

/-- the first record of a chunk is the parser's answer on the chunk -/
theorem chunkGo_head (C : NewickCodec) (f : Nat) (c : Txt) (id : Nat) :
    headOut (chunkGo C (f + 1) c id).1 = (match C.parse c with | some t => .ok t | none => .err) := by
  simp only [chunkGo]
  cases C.parse c with
  | none => rfl
  | some t =>
    simp only []
    split <;> rfl

/-- parse the chunks in order — every tree of a chunk (`chunkGo`); stop at the first error, which is
    reported with its identifier; no chunk at all (id 0) is reported as an error; text left after the last
    chunk is reported as an error with the next identifier -/
def deliver (C : NewickCodec) (tl : Txt) : List Txt → Nat → List Rec
  | [], id => if id == 0 then [⟨0, .err⟩] else if tl.all isSpaceGo then [] else [⟨id, .err⟩]
  | c :: r, id =>
    match (chunkGo C (c.length + 1) c id).2 with
    | none => (chunkGo C (c.length + 1) c id).1
    | some nid => (chunkGo C (c.length + 1) c id).1 ++ deliver C tl r nid

theorem multiGo_eq_deliver (C : NewickCodec) (ls : List Txt) (acc : Txt) (id : Nat) :
    multiGo C ls acc id = deliver C (tailGo ls acc) (chunksGo ls acc) id := by
  induction ls generalizing acc id with
  | nil => simp [multiGo, chunksGo, tailGo, deliver]
  | cons l ls ih =>
    simp only [multiGo, chunksGo, tailGo]
    split
    · simp only [deliver]
      cases (chunkGo C ((acc ++ l).length + 1) (acc ++ l) id).2 with
      | none => rfl
      | some nid => simp only []; rw [ih]
    · exact ih _ _

theorem chunksGo_lines (ls : List Txt) (h : ∀ l ∈ ls, lastNonBlank l = ';') : chunksGo ls [] = ls := by
  induction ls with
  | nil => rfl
  | cons l r ih =>
    simp only [chunksGo, List.nil_append]
    rw [h l (by simp)]
    simp [ih (fun x hx => h x (by simp [hx]))]

theorem tailGo_lines (ls : List Txt) (h : ∀ l ∈ ls, lastNonBlank l = ';') : tailGo ls [] = [] := by
  induction ls with
  | nil => rfl
  | cons l r ih =>
    simp only [tailGo, List.nil_append]
    rw [h l (by simp)]
    simp [ih (fun x hx => h x (by simp [hx]))]

theorem deliver_ok (C : NewickCodec) (cs : List Txt) (ts : List T) (id : Nat)
    (h : cs.map C.parse = ts.map some) (hs : ∀ c ∈ cs, singleTree c) (hne : cs ≠ [] ∨ id ≠ 0) :
    deliver C [] cs id = recsOfTrees ts id := by
  induction cs generalizing ts id with
  | nil =>
    cases ts with
    | nil =>
      cases hne with
      | inl h => exact absurd rfl h
      | inr h => simp [deliver, recsOfTrees, h]
    | cons _ _ => simp at h
  | cons c cs ih =>
    cases ts with
    | nil => simp at h
    | cons t ts =>
      simp only [List.map_cons, List.cons.injEq] at h
      simp only [deliver, chunkGo_single C _ c t id h.1 (hs c (by simp)), recsOfTrees, List.singleton_append]
      congr 1
      exact ih ts (id + 1) h.2 (fun x hx => hs x (by simp [hx])) (Or.inr (by omega))

theorem deliver_err (C : NewickCodec) (tl : Txt) (cs : List Txt) (ts : List T) (bad : Txt) (rest : List Txt) (id : Nat)
    (h : cs.map C.parse = ts.map some) (hs : ∀ c ∈ cs, singleTree c) (hb : C.parse bad = none) :
    deliver C tl (cs ++ bad :: rest) id = recsOfTrees ts id ++ [⟨id + ts.length, .err⟩] := by
  induction cs generalizing ts id with
  | nil =>
    cases ts with
    | nil => simp [deliver, chunkGo_err C _ bad id hb, recsOfTrees]
    | cons _ _ => simp at h
  | cons c cs ih =>
    cases ts with
    | nil => simp at h
    | cons t ts =>
      simp only [List.map_cons, List.cons.injEq] at h
      simp only [List.cons_append, deliver, chunkGo_single C _ c t id h.1 (hs c (by simp)), recsOfTrees,
        List.length_cons]
      rw [ih ts (id + 1) h.2 (fun x hx => hs x (by simp [hx]))]
      have e : id + 1 + ts.length = id + (ts.length + 1) := by omega
      rw [e]
      rfl

/- ## what the formats keep -/

mutual
theorem keptEqT_of_strip : ∀ (a b : T), strip a = strip b → keptEqT a b = true
  | .node d₁ _ k₁, .node d₂ _ k₂, h => by
    simp only [strip, T.node.injEq, NodeD.mk.injEq] at h
    simp [keptEqT, h.1.1, keptEqL_of_strip k₁ k₂ h.2.2]
theorem keptEqL_of_strip : ∀ (a b : Kids), stripL a = stripL b → keptEqL a b = true
  | [], [], _ => rfl
  | [], (_, _) :: _, h => by simp [stripL] at h
  | (_, _) :: _, [], h => by simp [stripL] at h
  | (e₁, t₁) :: r₁, (e₂, t₂) :: r₂, h => by
    simp only [stripL, List.cons.injEq, Prod.mk.injEq, EdgeD.mk.injEq] at h
    simp [keptEqL, h.1.1.1, h.1.1.2.1, keptEqT_of_strip t₁ t₂ h.1.2, keptEqL_of_strip r₁ r₂ h.2]
end

mutual
theorem strip_of_keptEqT : ∀ (a b : T), keptEqT a b = true → strip a = strip b
  | .node d₁ _ k₁, .node d₂ _ k₂, h => by
    simp only [keptEqT, Bool.and_eq_true, beq_iff_eq] at h
    simp [strip, h.1, strip_of_keptEqL k₁ k₂ h.2]
theorem strip_of_keptEqL : ∀ (a b : Kids), keptEqL a b = true → stripL a = stripL b
  | [], [], _ => rfl
  | [], (_, _) :: _, h => by simp [keptEqL] at h
  | (_, _) :: _, [], h => by simp [keptEqL] at h
  | (e₁, t₁) :: r₁, (e₂, t₂) :: r₂, h => by
    simp only [keptEqL, Bool.and_eq_true, beq_iff_eq] at h
    simp [stripL, h.1.1.1, h.1.1.2, strip_of_keptEqT t₁ t₂ h.1.2, strip_of_keptEqL r₁ r₂ h.2]
end

theorem sameKept_iff (a b : T) : sameKept a b = true ↔ strip a = strip b :=
  ⟨strip_of_keptEqT a b, keptEqT_of_strip a b⟩

theorem recsAre_recsOfTrees (ts us : List T) (i : Nat) (h : us.map strip = ts.map strip) :
    recsAre ts (recsOfTrees us i) i = true := by
  induction ts generalizing us i with
  | nil =>
    cases us with
    | nil => rfl
    | cons _ _ => simp at h
  | cons t ts ih =>
    cases us with
    | nil => simp at h
    | cons u us =>
      simp only [List.map_cons, List.cons.injEq] at h
      simp only [recsOfTrees, recsAre, Out.keptEq, beq_self_eq_true, Bool.true_and, Bool.and_eq_true]
      exact ⟨(sameKept_iff u t).2 h.1, ih us (i + 1) h.2⟩

/- ## first tree of a Newick stream = first chunk of the multi-tree reader -/

theorem breakSafe_snoc (a : Txt) (c : Char) :
    breakSafe (a ++ [c]) = if isNewickWs c then breakSafe a else isDelim c := by
  simp [breakSafe, breakSafeRev]

theorem lnb_snoc_blank (B : Txt) (c : Char) (hc : isBlank c = true) :
    (lastNonBlank (B ++ [c]) == ';') = (lastNonBlank B == ';') := by
  unfold lastNonBlank
  simp only [List.reverse_append, List.reverse_cons, List.reverse_nil, List.nil_append, List.cons_append]
  cases hB : B.reverse with
  | nil =>
    have : c ≠ ';' := by intro h; subst h; simp [isBlank] at hc
    simp [lastNonBlankRev, this]
  | cons d r => simp [lastNonBlankRev, hc]

theorem lnb_snoc_nonblank (B : Txt) (c : Char) (hc : isBlank c = false) : lastNonBlank (B ++ [c]) = c := by
  unfold lastNonBlank
  simp only [List.reverse_append, List.reverse_cons, List.reverse_nil, List.nil_append, List.cons_append]
  cases hB : B.reverse with
  | nil => simp [lastNonBlankRev]
  | cons d r => simp [lastNonBlankRev, hc]

def outOf : Option T → Out
  | some t => .ok t
  | none => .err

theorem headOut_multiGo_chunk (C : NewickCodec) (ls : List Txt) (acc l : Txt)
    (h : (lastNonBlank (acc ++ l) == ';') = true) :
    headOut (multiGo C (l :: ls) acc 0) = outOf (C.parse (acc ++ l)) := by
  simp only [multiGo, h, if_true]
  have hh := chunkGo_head C (acc ++ l).length (acc ++ l) 0
  cases hp : C.parse (acc ++ l) with
  | none => simp [chunkGo, hp, headOut, outOf]
  | some t =>
    rw [hp] at hh
    simp only [outOf]
    split
    · exact hh
    · rename_i nid _
      cases hr : (chunkGo C ((acc ++ l).length + 1) (acc ++ l) 0).1 with
      | nil => rw [hr] at hh; simp [headOut] at hh
      | cons r rs => rw [hr] at hh; simpa [headOut] using hh

/-- once the buffer holds a ';', if the chunk ends at all it is the buffer extended by some text -/
theorem chunk_ends (C : NewickCodec) (r : Txt) (semi nonempty : Bool) :
    ∀ (cur acc : Txt),
      semi = (lastNonBlank (acc ++ cur.reverse) == ';') →
      nonempty = !cur.isEmpty →
      (cur.head? = some '\r' → r.head? ≠ some '\n') →
      chunkEndsGo r semi nonempty = true →
      ∃ x, headOut (multiGo C (splitLinesGo r cur) acc 0) = outOf (C.parse (acc ++ cur.reverse ++ x)) := by
  fun_induction chunkEndsGo r semi nonempty with
  | case1 semi nonempty =>
    intro cur acc hs hn _ h
    simp only [Bool.and_eq_true] at h
    refine ⟨[], ?_⟩
    have hne : cur.isEmpty = false := by rw [h.2] at hn; simpa using hn.symm
    simp only [splitLinesGo, hne, List.append_nil]
    exact headOut_multiGo_chunk C [] acc cur.reverse (by rw [← hs]; exact h.1)
  | case2 r semi nonempty ih =>
    intro cur acc hs hn _ h
    have hstep : splitLinesGo ('\r' :: '\n' :: r) cur = cur.reverse :: splitLinesGo r [] := by
      simp [splitLinesGo, dropCR]
    rw [hstep]
    cases semi with
    | true =>
      refine ⟨[], ?_⟩
      rw [List.append_nil]
      exact headOut_multiGo_chunk C _ acc cur.reverse hs.symm
    | false =>
      simp only [Bool.false_or] at h
      obtain ⟨x, hx⟩ := ih [] (acc ++ cur.reverse) (by simpa using hs) rfl (by simp) h
      refine ⟨x, ?_⟩
      simp only [multiGo, ← hs]
      simpa using hx
  | case3 c r semi nonempty hnot hnl ih =>
    intro cur acc hs hn hinv h
    have hc : c = '\n' := by simpa using hnl
    subst hc
    have hd : dropCR cur = cur := by
      apply dropCR_of_head
      intro hh; exact hinv hh rfl
    have hstep : splitLinesGo ('\n' :: r) cur = cur.reverse :: splitLinesGo r [] := by
      simp [splitLinesGo, hd]
    rw [hstep]
    cases semi with
    | true =>
      refine ⟨[], ?_⟩
      rw [List.append_nil]
      exact headOut_multiGo_chunk C _ acc cur.reverse hs.symm
    | false =>
      simp only [Bool.false_or] at h
      obtain ⟨x, hx⟩ := ih [] (acc ++ cur.reverse) (by simpa using hs) rfl (by simp) h
      refine ⟨x, ?_⟩
      simp only [multiGo, ← hs]
      simpa using hx
  | case4 c r semi nonempty hnot hnl hb ih =>
    intro cur acc hs hn hinv h
    have hcn : (c == '\n') = false := by simpa using hnl
    have hstep : splitLinesGo (c :: r) cur = splitLinesGo r (c :: cur) := by
      simp [splitLinesGo, hcn]
    rw [hstep]
    obtain ⟨x, hx⟩ := ih (c :: cur) acc
      (by rw [hs]; simp only [List.reverse_cons, ← List.append_assoc]; exact (lnb_snoc_blank _ c hb).symm)
      (by simp)
      (by intro hh; simp at hh; subst hh; simp [isBlank] at hb) h
    exact ⟨c :: x, by simpa using hx⟩
  | case5 c r semi nonempty hnot hnl hb ih =>
    intro cur acc hs hn hinv h
    have hcn : (c == '\n') = false := by simpa using hnl
    have hbf : isBlank c = false := by simpa using hb
    have hstep : splitLinesGo (c :: r) cur = splitLinesGo r (c :: cur) := by
      simp [splitLinesGo, hcn]
    rw [hstep]
    obtain ⟨x, hx⟩ := ih (c :: cur) acc
      (by simp only [List.reverse_cons, ← List.append_assoc]; rw [lnb_snoc_nonblank _ c hbf])
      (by simp)
      (by
        intro hh; simp at hh; subst hh
        intro hr
        cases r with
        | nil => simp at hr
        | cons d r' => simp at hr; subst hr; exact hnot r' rfl rfl) h
    exact ⟨c :: x, by simpa using hx⟩

theorem first_head_go (C : NewickCodec) (L : NewickStreamLaws C) (doc : Txt) (safe : Bool) :
    ∀ (pre preF cur acc : Txt),
      (∀ s, C.parse (pre ++ s) = C.parse (preF ++ s)) →
      preF = acc ++ cur.reverse →
      (∀ c ∈ preF, c ≠ ';' ∧ c ≠ '[') →
      (safe = true → breakSafe preF = true) →
      '\r' ∉ cur →
      firstHypGo doc safe = true →
      readFirstNewick C (pre ++ doc) = headOut (multiGo C (splitLinesGo doc cur) acc 0) := by
  fun_induction firstHypGo doc safe with
  | case1 safe => intro _ _ _ _ _ _ _ _ _ h; simp at h
  | case2 r safe ih =>
    intro pre preF cur acc hR hF hno hsafe hcr h
    simp only [Bool.and_eq_true] at h
    have hbs := hsafe h.1
    have hstep : splitLinesGo ('\r' :: '\n' :: r) cur = cur.reverse :: splitLinesGo r [] := by
      simp [splitLinesGo, dropCR]
    rw [hstep]
    have hns : (lastNonBlank (acc ++ cur.reverse) == ';') = false := by
      apply lastNonBlank_ne_semi
      intro hm; exact (hno ';' (hF ▸ hm)).1 rfl
    simp only [multiGo, hns]
    have := ih (pre ++ ['\r', '\n']) preF [] (acc ++ cur.reverse)
      (by
        intro s
        have h1 := hR ('\r' :: '\n' :: s)
        have h2 := L.parse_ws_skip preF ['\r', '\n'] s hno hbs (by decide)
        simp only [List.append_assoc, List.cons_append, List.nil_append] at h1 h2 ⊢
        rw [h1, h2])
      (by simp [hF]) hno (fun _ => hbs) (by simp) h.2
    simpa using this
  | case3 c r safe hnot hsemi =>
    intro pre preF cur acc hR hF hno hsafe hcr h
    have hc : c = ';' := by simpa using hsemi
    subst hc
    have hcn : ((';' : Char) == '\n') = false := by decide
    have hstep : splitLinesGo (';' :: r) cur = splitLinesGo r (';' :: cur) := by
      simp [splitLinesGo, hcn]
    rw [hstep]
    obtain ⟨x, hx⟩ := chunk_ends C r true true (';' :: cur) acc
      (by
        simp only [List.reverse_cons, ← List.append_assoc, ← hF]
        rw [lnb_snoc_nonblank _ ';' (by decide)]; rfl)
      (by simp) (by simp) h
    rw [hx]
    have e1 : C.parse (pre ++ ';' :: r) = C.parse (preF ++ [';']) := by
      rw [hR (';' :: r), L.parse_prefix preF r hno]
    have e2 : C.parse (acc ++ (';' :: cur).reverse ++ x) = C.parse (preF ++ [';']) := by
      have : acc ++ (';' :: cur).reverse ++ x = preF ++ ';' :: x := by simp [hF]
      rw [this, L.parse_prefix preF x hno]
    simp only [readFirstNewick, e1, e2]
    cases C.parse (preF ++ [';']) <;> rfl
  | case4 c r safe hnot hsemi hbr => intro _ _ _ _ _ _ _ _ _ h; simp at h
  | case5 c r safe hnot hsemi hbr hnl ih =>
    intro pre preF cur acc hR hF hno hsafe hcr h
    have hc : c = '\n' := by simpa using hnl
    subst hc
    simp only [Bool.and_eq_true] at h
    have hbs := hsafe h.1
    have hd : dropCR cur = cur := by
      apply dropCR_of_head
      intro hh
      cases cur with
      | nil => simp at hh
      | cons x _ => simp at hh; exact hcr (by simp [hh])
    have hstep : splitLinesGo ('\n' :: r) cur = cur.reverse :: splitLinesGo r [] := by
      simp [splitLinesGo, hd]
    rw [hstep]
    have hns : (lastNonBlank (acc ++ cur.reverse) == ';') = false := by
      apply lastNonBlank_ne_semi
      intro hm; exact (hno ';' (hF ▸ hm)).1 rfl
    simp only [multiGo, hns]
    have := ih (pre ++ ['\n']) preF [] (acc ++ cur.reverse)
      (by
        intro s
        have h1 := hR ('\n' :: s)
        have h2 := L.parse_ws_skip preF ['\n'] s hno hbs (by decide)
        simp only [List.append_assoc, List.cons_append, List.nil_append] at h1 h2 ⊢
        rw [h1, h2])
      (by simp [hF]) hno (fun _ => hbs) (by simp) h.2
    simpa using this
  | case6 c r safe hnot hsemi hbr hnl hcrr => intro _ _ _ _ _ _ _ _ _ h; simp at h
  | case7 c r safe hnot hsemi hbr hnl hcrr hws ih =>
    intro pre preF cur acc hR hF hno hsafe hcr h
    have hcn : (c == '\n') = false := by simpa using hnl
    have hstep : splitLinesGo (c :: r) cur = splitLinesGo r (c :: cur) := by
      simp [splitLinesGo, hcn]
    rw [hstep]
    have := ih (pre ++ [c]) (preF ++ [c]) (c :: cur) acc
      (by intro s; simpa using hR (c :: s))
      (by simp [hF])
      (by
        intro x hx
        rcases List.mem_append.1 hx with h1 | h1
        · exact hno x h1
        · simp at h1; subst h1; exact ⟨by simpa using hsemi, by simpa using hbr⟩)
      (by intro hs; rw [breakSafe_snoc]; simp [hws, hsafe hs])
      (by
        intro hm
        rcases List.mem_cons.1 hm with h1 | h1
        · exact hcrr (by simp [← h1])
        · exact hcr h1)
      h
    simpa using this
  | case8 c r safe hnot hsemi hbr hnl hcrr hws ih =>
    intro pre preF cur acc hR hF hno hsafe hcr h
    have hcn : (c == '\n') = false := by simpa using hnl
    have hstep : splitLinesGo (c :: r) cur = splitLinesGo r (c :: cur) := by
      simp [splitLinesGo, hcn]
    rw [hstep]
    have := ih (pre ++ [c]) (preF ++ [c]) (c :: cur) acc
      (by intro s; simpa using hR (c :: s))
      (by simp [hF])
      (by
        intro x hx
        rcases List.mem_append.1 hx with h1 | h1
        · exact hno x h1
        · simp at h1; subst h1; exact ⟨by simpa using hsemi, by simpa using hbr⟩)
      (by intro hs; rw [breakSafe_snoc]; simp [hws, hs])
      (by
        intro hm
        rcases List.mem_cons.1 hm with h1 | h1
        · exact hcrr (by simp [← h1])
        · exact hcr h1)
      h
    simpa using this

end Gotree.C13
