/-
  C17 — WHOLE-heap pointer model of `nni.Apply` / `nni.Undo` (tree/rearrange.go:86-236), the
  `applied` flag and the error returns included, for ANY history of calls on the rearrangements
  of one in-memory tree (round 7).

  `Model/C17Heap.lean` models the six-node piece of one rearrangement, applied and undone at
  once.  Here the heap is the whole pointer graph: every node with its `neigh` and `br`
  slices, every branch with `left`/`right`; node and branch identities are positions in the
  two lists (`t.Nodes()` / `t.Edges()` order at the start of the history).  An `nni` is the
  six node identities `newNNI` stored, `cross` and `applied`.  `applyG` / `undoG` follow the Go
  statements one by one: the `applied` test, the five `NodeIndex` searches with the error
  message of each, the three reads of `Edges()[i]` (index out of range = panic), `Inverse`,
  the two writes to `br`, the four writes to `neigh`, `setLeft`/`setRight`.
  A pointer that is not a node of the heap cannot occur in Go (`newNNI` stores nodes of the
  tree); the model answers `panic` there (nil dereference) so that it is total.

  Tied to the code by op `C17.hist` (harness/c17/hist.go): the whole heap is read off the real
  tree before and after every call of a random history (no discipline: rearrangements kept by
  the callback are applied and undone in any order, twice, while others are in force) and the
  driver replays the history here, comparing outcome (error text included), flag and every
  record.  Core Lean only.
-/
import Gotree.Model.Core

namespace Gotree.C17.G

structure GNode where
  neigh : List Nat
  br : List Nat
  deriving DecidableEq, Repr, Inhabited

structure GEdge where
  left : Nat
  right : Nat
  deriving DecidableEq, Repr, Inhabited

structure GHeap where
  nodes : List GNode
  edges : List GEdge
  deriving DecidableEq, Repr

/-- the fields of the Go struct `nni` (rearrange.go:36-55), pointers as node identities -/
structure GNNI where
  n1 : Nat
  n2 : Nat
  n11 : Nat
  n12 : Nat
  n21 : Nat
  n22 : Nat
  cross : Bool
  applied : Bool
  deriving DecidableEq, Repr

inductive Out
  | ok
  | err (msg : String)
  | panic
  deriving DecidableEq, Repr

/-- `Node.NodeIndex` (node.go:199): first position, `none` = (-1, error) -/
def idx : List Nat → Nat → Option Nat
  | [], _ => none
  | y :: l, x => if y = x then some 0 else (idx l x).map (· + 1)

/-- `x.neigh[i] = v` -/
def setNeigh (ns : List GNode) (x i v : Nat) : List GNode :=
  match ns[x]? with
  | some nd => ns.set x { nd with neigh := nd.neigh.set i v }
  | none => ns

/-- `x.br[i] = e` -/
def setBr (ns : List GNode) (x i e : Nat) : List GNode :=
  match ns[x]? with
  | some nd => ns.set x { nd with br := nd.br.set i e }
  | none => ns

/-- `if e.Left() == old { e.setLeft(new) } else { e.setRight(new) }` -/
def reattach (es : List GEdge) (e old new : Nat) : List GEdge :=
  match es[e]? with
  | some E => es.set e (if E.left = old then ⟨new, E.right⟩ else ⟨E.left, new⟩)
  | none => es

/-- `e.Inverse()` -/
def inverse (es : List GEdge) (e : Nat) : List GEdge :=
  match es[e]? with
  | some E => es.set e ⟨E.right, E.left⟩
  | none => es

/- the error texts of `Apply` (rearrange.go:97-123) and `Undo` (:173-199), in source order
   (re-read from the source on every run: `Gen/C17Code.lean`, theorem `code_facts_check`) -/
def applyErrs : List String :=
  ["Cannot create NNI with unconnected nodes n1 n2",
   "Cannot apply NNI with unconnected nodes n1 n1_2",
   "Cannot apply NNI with unconnected nodes n1_2 n1",
   "Cannot apply NNI with unconnected nodes n1 n2_1",
   "Cannot apply NNI with unconnected nodes n2_1 n2"]

def undoErrs : List String :=
  ["Cannot create NNI with unconnected nodes n1 n2",
   "Cannot apply NNI with unconnected nodes n2 n1_2",
   "Cannot apply NNI with unconnected nodes n1_2 n2",
   "Cannot apply NNI with unconnected nodes n1 n2_1",
   "Cannot apply NNI with unconnected nodes n2_1 n1"]

/-- why a call fails: an error return (with its text) or a run-time panic -/
inductive Fail
  | err (msg : String)
  | panic
  deriving DecidableEq, Repr

def Fail.out : Fail → Out
  | .err m => .err m
  | .panic => .panic

def errAt (l : List String) (i : Nat) : Except Fail GHeap := .error (.err (l.getD i ""))

/-- `n.Apply()` after the `applied` test: the heap afterwards, or why it fails (every failure
    comes before the first write) -/
def applyCore (g : GHeap) (n : GNNI) : Except Fail GHeap :=
  let x := if n.cross then n.n21 else n.n22                             -- n22node, :113-117
  match g.nodes[n.n1]?, g.nodes[n.n2]?, g.nodes[n.n12]?, g.nodes[x]? with
  | some N1, some N2, some N12, some X =>
    match idx N1.neigh n.n2 with                                        -- n1n2index, :96
    | none => errAt applyErrs 0
    | some n1n2index =>
    match idx N1.neigh n.n12 with                                       -- n12index, :102
    | none => errAt applyErrs 1
    | some n12index =>
    match idx N12.neigh n.n1 with                                       -- n1index, :107
    | none => errAt applyErrs 2
    | some n1index =>
    match idx N2.neigh x with                                           -- n22index, :118
    | none => errAt applyErrs 3
    | some n22index =>
    match idx X.neigh n.n2 with                                         -- n2index, :122
    | none => errAt applyErrs 4
    | some n2index =>
    match N1.br[n12index]?, N2.br[n22index]? with                       -- e1, e2, :127-128
    | some e1, some e2 =>
      match g.edges[e1]?, g.edges[e2]? with
      | some E1, some E2 =>
        -- :132-135  if e1.Right() == n.n1 || e2.Right() == n.n2 { n.n1.Edges()[n1n2index].Inverse() }
        let inv := E1.right = n.n1 ∨ E2.right = n.n2
        match (if inv then N1.br[n1n2index]? else some 0) with
        | none => .error .panic
        | some ec =>
        let es1 := if inv then inverse g.edges ec else g.edges
        let ns1 := setBr g.nodes n.n1 n12index e2                       -- :137
        let ns2 := setBr ns1 n.n2 n22index e1                           -- :138
        let ns3 := setNeigh ns2 n.n1 n12index x                         -- :140
        let ns4 := setNeigh ns3 x n2index n.n1                          -- :141
        let ns5 := setNeigh ns4 n.n2 n22index n.n12                     -- :143
        let ns6 := setNeigh ns5 n.n12 n1index n.n2                      -- :144
        let es2 := reattach es1 e1 n.n1 n.n2                            -- :146-150
        let es3 := reattach es2 e2 n.n2 n.n1                            -- :151-155
        .ok ⟨ns6, es3⟩
      | _, _ => .error .panic
    | _, _ => .error .panic
  | _, _, _, _ => .error .panic

/-- `n.Undo()` after the `applied` test -/
def undoCore (g : GHeap) (n : GNNI) : Except Fail GHeap :=
  let x := if n.cross then n.n21 else n.n22                             -- n11node, :189-193
  match g.nodes[n.n1]?, g.nodes[n.n2]?, g.nodes[n.n12]?, g.nodes[x]? with
  | some N1, some N2, some N12, some X =>
    match idx N1.neigh n.n2 with                                        -- n1n2index, :172
    | none => errAt undoErrs 0
    | some n1n2index =>
    match idx N2.neigh n.n12 with                                       -- n12index, :178
    | none => errAt undoErrs 1
    | some n12index =>
    match idx N12.neigh n.n2 with                                       -- n2index, :183
    | none => errAt undoErrs 2
    | some n2index =>
    match idx N1.neigh x with                                           -- n11index, :194
    | none => errAt undoErrs 3
    | some n11index =>
    match idx X.neigh n.n1 with                                         -- n1index, :198
    | none => errAt undoErrs 4
    | some n1index =>
    match N1.br[n11index]?, N2.br[n12index]? with                       -- e1, e2, :203-204
    | some e1, some e2 =>
      match g.edges[e1]?, g.edges[e2]? with
      | some E1, some E2 =>
        -- :208-211  if e2.Right() == n.n2 || e1.Right() == n.n1 { n.n1.Edges()[n1n2index].Inverse() }
        let inv := E2.right = n.n2 ∨ E1.right = n.n1
        match (if inv then N1.br[n1n2index]? else some 0) with
        | none => .error .panic
        | some ec =>
        let es1 := if inv then inverse g.edges ec else g.edges
        let ns1 := setBr g.nodes n.n1 n11index e2                       -- :213
        let ns2 := setBr ns1 n.n2 n12index e1                           -- :214
        let ns3 := setNeigh ns2 n.n1 n11index n.n12                     -- :216
        let ns4 := setNeigh ns3 n.n12 n2index n.n1                      -- :217
        let ns5 := setNeigh ns4 n.n2 n12index x                         -- :219
        let ns6 := setNeigh ns5 x n1index n.n2                          -- :220
        let es2 := reattach es1 e1 n.n1 n.n2                            -- :222-226
        let es3 := reattach es2 e2 n.n2 n.n1                            -- :227-231
        .ok ⟨ns6, es3⟩
      | _, _ => .error .panic
    | _, _ => .error .panic
  | _, _, _, _ => .error .panic

/-- the heap `Apply` leaves: the two `br` writes, the four `neigh` writes, `Inverse` (if `inv`), the two re-attachments -/
def applyRes (g : GHeap) (n : GNNI) (x i12 i1 i22 i2 e1 e2 ec : Nat) (inv : Bool) : GHeap :=
  ⟨setNeigh (setNeigh (setNeigh (setNeigh (setBr (setBr g.nodes n.n1 i12 e2) n.n2 i22 e1) n.n1 i12 x) x i2 n.n1) n.n2 i22 n.n12) n.n12 i1 n.n2,
   reattach (reattach (if inv then inverse g.edges ec else g.edges) e1 n.n1 n.n2) e2 n.n2 n.n1⟩

/-- the heap `Undo` leaves (`i11` = slot of the swapped neighbour in n1, `i12` = slot of n1_2 in n2) -/
def undoRes (g : GHeap) (n : GNNI) (x i11 i1 i12 i2 e1 e2 ec : Nat) (inv : Bool) : GHeap :=
  ⟨setNeigh (setNeigh (setNeigh (setNeigh (setBr (setBr g.nodes n.n1 i11 e2) n.n2 i12 e1) n.n1 i11 n.n12) n.n12 i2 n.n1) n.n2 i12 x) x i1 n.n2,
   reattach (reattach (if inv then inverse g.edges ec else g.edges) e1 n.n1 n.n2) e2 n.n2 n.n1⟩

/-- the hypotheses of `undoCore_applyCore`, decidable (the driver evaluates it on the code's records) -/
def siteOK (g : GHeap) (n : GNNI) : Bool :=
  match g.nodes[n.n1]?, g.nodes[n.n2]?, g.nodes[n.n12]?, g.nodes[if n.cross then n.n21 else n.n22]? with
  | some N1, some N2, some N12, some X =>
    match idx N1.neigh n.n2, idx N1.neigh n.n12, idx N12.neigh n.n1, idx N2.neigh (if n.cross then n.n21 else n.n22), idx X.neigh n.n2 with
    | some i0, some i12, some _, some i22, some _ =>
      match N1.br[i12]?, N2.br[i22]?, N1.br[i0]? with
      | some e1, some e2, some ec =>
        match g.edges[e1]?, g.edges[e2]?, g.edges[ec]? with
        | some E1, some E2, some _ =>
          n.n1 != n.n2 && n.n12 != n.n1 && n.n12 != n.n2 && (if n.cross then n.n21 else n.n22) != n.n1 &&
          (if n.cross then n.n21 else n.n22) != n.n2 && (if n.cross then n.n21 else n.n22) != n.n12 &&
          (idx N2.neigh n.n12).isNone && (idx N1.neigh (if n.cross then n.n21 else n.n22)).isNone &&
          (idx N12.neigh n.n2).isNone && (idx X.neigh n.n1).isNone &&
          e1 != e2 && ec != e1 && ec != e2 &&
          ((E1.left == n.n1 && E1.right == n.n12) || (E1.left == n.n12 && E1.right == n.n1)) &&
          ((E2.left == n.n2 && E2.right == (if n.cross then n.n21 else n.n22)) || (E2.left == (if n.cross then n.n21 else n.n22) && E2.right == n.n2))
        | _, _, _ => false
      | _, _, _ => false
    | _, _, _, _, _ => false
  | _, _, _, _ => false

/-- `n.Apply()`: outcome, heap and object afterwards (`if n.applied { return }` :87, `n.applied = true` :157) -/
def applyG (g : GHeap) (n : GNNI) : Out × GHeap × GNNI :=
  if n.applied then (.ok, g, n) else
  match applyCore g n with
  | .ok g' => (.ok, g', { n with applied := true })
  | .error f => (f.out, g, n)

/-- `n.Undo()` (`if !n.applied { return }` :163, `n.applied = false` :233) -/
def undoG (g : GHeap) (n : GNNI) : Out × GHeap × GNNI :=
  if !n.applied then (.ok, g, n) else
  match undoCore g n with
  | .ok g' => (.ok, g', { n with applied := false })
  | .error f => (f.out, g, n)

/-- `newNNI(t, n1, n2, cross)` (rearrange.go:69-84) on the heap: `none` = an index error -/
def newNNIG (g : GHeap) (n1 n2 : Nat) (cross : Bool) : Option GNNI :=
  match g.nodes[n1]?, g.nodes[n2]? with
  | some N1, some N2 =>
    -- `n2index, _ := n1.NodeIndex(n2)`: the error is dropped, -1 is kept; Go's `%` keeps the sign:
    -- (-1+1)%3 = 0, (-1+2)%3 = 1
    let i1 : Nat × Nat := match idx N1.neigh n2 with | some i => ((i + 1) % 3, (i + 2) % 3) | none => (0, 1)
    let i2 : Nat × Nat := match idx N2.neigh n1 with | some i => ((i + 1) % 3, (i + 2) % 3) | none => (0, 1)
    match N1.neigh[i1.1]?, N1.neigh[i1.2]?, N2.neigh[i2.1]?, N2.neigh[i2.2]? with
    | some a, some b, some c, some d => some ⟨n1, n2, a, b, c, d, cross, false⟩
    | _, _, _, _ => none
  | _, _ => none

/-- the body of the loop of `Rearrange` for one branch (rearrange.go:24-31) -/
def proposeG (g : GHeap) (e : GEdge) : List (Option GNNI) :=
  match g.nodes[e.left]?, g.nodes[e.right]? with
  | some L, some R =>
    if L.neigh.length == 3 && R.neigh.length == 3 then
      [newNNIG g e.left e.right false, newNNIG g e.left e.right true]
    else []
  | _, _ => []

/-- `Rearrange` (rearrange.go:22-33) on the heap: the branches in identity order (= `t.Edges()`
    order at the start), both ends with three neighbours, `cross = false` then `true` -/
def rearrangeG (g : GHeap) : List (Option GNNI) := g.edges.flatMap (proposeG g)

/-- one call of a history: `isApply` on rearrangement number `k` -/
structure Step where
  k : Nat
  isApply : Bool
  deriving DecidableEq, Repr

/-- the state of a history: the heap and the objects -/
structure State where
  g : GHeap
  objs : List GNNI
  deriving DecidableEq, Repr

def step (s : State) (st : Step) : Out × State :=
  match s.objs[st.k]? with
  | none => (.panic, s)
  | some n =>
    let r := if st.isApply then applyG s.g n else undoG s.g n
    (r.1, ⟨r.2.1, s.objs.set st.k r.2.2⟩)

def run (s : State) : List Step → List Out × State
  | [] => ([], s)
  | st :: rest =>
    let r := step s st
    let q := run r.2 rest
    (r.1 :: q.1, q.2)

/- ## what a well-formed heap promises (decidable; evaluated by the driver on the code's records) -/

def GEdge.joins (e : GEdge) (x y : Nat) : Bool := (e.left == x && e.right == y) || (e.left == y && e.right == x)

/-- `neigh` and `br` are parallel and `br[i]` joins the node and `neigh[i]` -/
def pairingG (g : GHeap) : Bool :=
  (g.nodes.zip (List.range g.nodes.length)).all fun (nd, x) =>
    nd.neigh.length == nd.br.length &&
    (nd.neigh.zip nd.br).all fun (y, e) => match g.edges[e]? with | some E => E.joins x y | none => false

/-- symmetric adjacency through the same branch -/
def symmetricG (g : GHeap) : Bool :=
  (g.nodes.zip (List.range g.nodes.length)).all fun (nd, x) =>
    (nd.neigh.zip nd.br).all fun (y, e) =>
      match g.nodes[y]? with
      | some Y => (Y.neigh.zip Y.br).any fun (x', e') => x' == x && e' == e
      | none => false

/-- number of parent branches of node `x` (branches of its `br` whose `right` it is) -/
def incomingG (g : GHeap) (x : Nat) : Nat :=
  match g.nodes[x]? with
  | some nd => (nd.br.filter fun e => match g.edges[e]? with | some E => E.right == x | none => false).length
  | none => 0

/-- every node but one has exactly one parent branch, one node (the root) none -/
def orientedG (g : GHeap) : Bool :=
  let inc := (List.range g.nodes.length).map (incomingG g)
  inc.all (· ≤ 1) && (inc.filter (· == 0)).length == 1

def wfG (g : GHeap) : Bool := pairingG g && symmetricG g && orientedG g

end Gotree.C17.G
