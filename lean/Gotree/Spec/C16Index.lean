/-
  C16 — "indexes ready for use": what the final `ReinitIndexes` of a generator leaves on the
  returned tree, in the vocabulary of C04 (`Gotree.C04.reinit`, `specIdx`, `branchOK`).
  Core Lean only.
-/
import Gotree.Spec.C16
import Gotree.Spec.C04

namespace Gotree.C16
open Gotree

/-- the index records of the returned tree, as the C04 model of `ReinitIndexes` computes them -/
def Out.reinit (H : String → UInt64) (o : Out) : C04.Res (List String × List C04.EdgeIdx) := C04.reinit H o.t

/-- what the implementation reported about its index, per branch in `Edges()` order -/
structure IdxObs where
  bits : List (List Bool)
  nleft : List Int
  nright : List Int
  hcode : List Nat
  topod : List Int
  tipidx : List Int

def zip4 {α β γ δ : Type} : List α → List β → List γ → List δ → List (α × β × γ × δ)
  | a :: as, b :: bs, c :: cs, d :: ds => (a, b, c, d) :: zip4 as bs cs ds
  | _, _, _, _ => []

/-- ORACLE: every branch record is what C04's Spec prescribes for the split of that branch, and
    `TipIndex(name)` is the rank of the name among the sorted tip names -/
def indexOK (t : T) (tips : List String) (ob : IdxObs) : Bool :=
  let belows := t.splits.map (·.below)
  ob.bits.length == belows.length && ob.nleft.length == belows.length && ob.nright.length == belows.length &&
  ob.topod.length == belows.length &&
  ((List.zip belows (zip4 ob.bits ob.nleft ob.nright ob.topod)).all fun (b, bits, nl, nr, td) =>
    C04.branchOK t.tipNames b bits nl nr (if td < 0 then none else some td)) &&
  ob.tipidx == tips.map (fun x => (((C04.sortNames t.tipNames).idxOf x : Nat) : Int))

/-- TIE: the records the C04 model computes on the model's tree, matched by the leaf set below
    the branch (so that a different branch order does not matter), are the implementation's -/
def indexTie (H : String → UInt64) (o : Out) (t : T) (ob : IdxObs) : Bool :=
  match o.reinit H with
  | .err _ => false
  | .ok (_, recs) =>
    let table := List.zip (o.t.splits.map fun s => sortNames s.below) recs
    let belows := t.splits.map fun s => sortNames s.below
    belows.length == ob.hcode.length &&
    (List.zip belows (zip4 ob.bits ob.nleft ob.nright ob.hcode)).all fun (b, bits, nl, nr, hc) =>
      match table.lookup b with
      | none => false
      | some r => r.bits == bits && (r.nleft : Int) == nl && (r.nright : Int) == nr && r.hashCode.toNat == hc

end Gotree.C16
