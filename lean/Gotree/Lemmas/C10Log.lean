/-
  C10 lemmas, part K: the traversal used for the `--moved-taxa` log (`absent = false`, all
  closest branches kept) computes the same distance as the verified one.
-/
import Gotree.Lemmas.C10Names

namespace Gotree.C10
open Gotree

theorem visitFull_dist (p n : Int) (id r ones : Nat) (st : FS) :
    (visitFull p n id r ones st).dist = (visitEdge p n false r ones ⟨st.dist, false⟩).dist ∧
    (visitEdge p n false r ones ⟨st.dist, false⟩).stop = false := by
  unfold visitFull visitEdge
  simp only []
  by_cases h : edgeDist p n r ones ≤ st.dist
  · simp [h]
  · simp [h]

mutual
theorem fullNode_dist (light : String → Bool) (p n : Int) : ∀ (t : T) (id : Nat) (st : FS),
    (fullNode light p n t id st).1 = (mtdNode light p n false t ⟨st.dist, false⟩).1 ∧
    (fullNode light p n t id st).2.dist = (mtdNode light p n false t ⟨st.dist, false⟩).2.dist ∧
    (mtdNode light p n false t ⟨st.dist, false⟩).2.stop = false
  | .node d _ [], id, st => by
    have hv := visitFull_dist p n id 1 (if light d.name then 0 else 1) st
    simp only [fullNode, mtdNode, Bool.false_eq_true, if_false]
    exact ⟨trivial, hv.1, hv.2⟩
  | .node d _ (k :: ks), id, st => by
    obtain ⟨h1, h2, h3⟩ := fullKids_dist light p n (k :: ks) (id + 1) st
    simp only [fullNode, mtdNode, Bool.false_eq_true, if_false]
    generalize hm : mtdKids light p n false (k :: ks) ⟨st.dist, false⟩ = m at h1 h2 h3
    generalize hf : fullKids light p n (k :: ks) (id + 1) st = f at h1 h2
    obtain ⟨mo, ms⟩ := m
    obtain ⟨fo, fs⟩ := f
    simp only [] at h1 h2 h3 ⊢
    subst h1
    have hms : ms = ⟨fs.dist, false⟩ := by
      cases ms with
      | mk dd ss => simp only [] at h2 h3; subst h2; subst h3; rfl
    rw [h3]
    simp only [Bool.false_eq_true, if_false]
    have hv := visitFull_dist p n id (leavesL (k :: ks)).length fo fs
    rw [hms]
    exact ⟨trivial, hv.1, hv.2⟩
theorem fullKids_dist (light : String → Bool) (p n : Int) : ∀ (k : Kids) (c : Nat) (st : FS),
    (fullKids light p n k c st).1 = (mtdKids light p n false k ⟨st.dist, false⟩).1 ∧
    (fullKids light p n k c st).2.dist = (mtdKids light p n false k ⟨st.dist, false⟩).2.dist ∧
    (mtdKids light p n false k ⟨st.dist, false⟩).2.stop = false
  | [], c, st => by simp [fullKids, mtdKids]
  | (e, t) :: rest, c, st => by
    obtain ⟨h1, h2, h3⟩ := fullNode_dist light p n t c st
    simp only [fullKids, mtdKids]
    generalize hm : mtdNode light p n false t ⟨st.dist, false⟩ = m at h1 h2 h3
    generalize hf : fullNode light p n t c st = f at h1 h2
    obtain ⟨mo, ms⟩ := m
    obtain ⟨fo, fs⟩ := f
    simp only [] at h1 h2 h3 ⊢
    subst h1
    have hms : ms = ⟨fs.dist, false⟩ := by
      cases ms with
      | mk dd ss => simp only [] at h2 h3; subst h2; subst h3; rfl
    rw [h3]
    simp only [Bool.false_eq_true, if_false]
    obtain ⟨g1, g2, g3⟩ := fullKids_dist light p n rest (c + 1 + (splitsL t.kids).length) fs
    rw [hms]
    exact ⟨by rw [g1], g2, g3⟩
end

/-- the distance of the log mode is `MinTransferDist(…, absent = false)` -/
theorem minTransferFull_dist (light : String → Bool) (p n : Int) (b : T) (hp : p ≠ 1)
    (hroot : b.kids.length ≠ 1) :
    (minTransferFull light p n b).1 = minTransferDist light p n false b := by
  unfold minTransferFull minTransferDist
  have hp' : (p == 1) = false := by simpa using hp
  have hr' : (b.kids.length == 1) = false := by simpa using hroot
  simp only [hp', hr', Bool.false_eq_true, if_false]
  exact (fullKids_dist light p n b.kids 0 ⟨p - 1, [], []⟩).2.1

theorem zip_map_self {α β : Type} (g : α → β) : ∀ (l : List α), List.zip l (l.map g) = l.map (fun a => (a, g a))
  | [] => rfl
  | a :: l => by simp [zip_map_self g l]

end Gotree.C10
