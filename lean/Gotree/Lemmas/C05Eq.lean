/-
  C05 — from "same up to order" to the literal Spec predicate `preserved` that the oracle
  evaluates (needs the sort keys of `usplitsAll` to be distinct: `keysOK`).
-/
import Gotree.Lemmas.C05Mid

namespace Gotree.C05
open Gotree

theorem usplit_beq_refl (a : USplit) : (a == a) = true := by
  cases a with
  | mk side len sup =>
    have : (side == side) = true := by simp
    simp [BEq.beq, instBEqUSplit.beq] at this ⊢
    exact this

instance : ReflBEq USplit := ⟨fun {a} => usplit_beq_refl a⟩

theorem inj_of_nodup_map {α β : Type} (f : α → β) : ∀ (l : List α), (l.map f).Nodup →
    ∀ x ∈ l, ∀ y ∈ l, f x = f y → x = y
  | [], _, x, hx, _, _, _ => by cases hx
  | a :: l, hn, x, hx, y, hy, hxy => by
    simp only [List.map_cons, List.nodup_cons, List.mem_map, not_exists, not_and] at hn
    rcases List.mem_cons.1 hx with hxa | hx' <;> rcases List.mem_cons.1 hy with hya | hy'
    · rw [hxa, hya]
    · exact absurd (hxa ▸ hxy).symm (hn.1 y hy')
    · exact absurd (hya ▸ hxy) (hn.1 x hx')
    · exact inj_of_nodup_map f l hn.2 x hx' y hy' hxy

theorem usplitsAll_sorted (t : T) : t.usplitsAll.Pairwise (fun a b => toString a.side ≤ toString b.side) := by
  rw [T.usplitsAll_eq]
  have h := List.pairwise_mergeSort (le := uLe)
    (by intro a b c; simpa [uLe] using String.le_trans)
    (by intro a b; simpa [uLe] using String.le_total (toString a.side) (toString b.side))
    (ufoldU (t.splits.map (toU t.tipNames)) [])
  simpa [uLe] using h

/-- permuted lists of unrooted splits of two trees are equal as soon as the sort keys of one
    tree are pairwise distinct -/
theorem usplits_eq {t u : T} (h : u.usplits.Perm t.usplits) (hk : keysOK t = true) : u.usplits = t.usplits := by
  have hk' : (t.usplitsAll.map fun s => toString s.side).Nodup := by simpa [keysOK] using hk
  have s1 : u.usplits.Pairwise (fun a b => toString a.side ≤ toString b.side) := (usplitsAll_sorted u).filter _
  have s2 : t.usplits.Pairwise (fun a b => toString a.side ≤ toString b.side) := (usplitsAll_sorted t).filter _
  refine List.Perm.eq_of_pairwise ?_ s1 s2 h
  intro a b ha hb h1 h2
  have ha' : a ∈ t.usplitsAll := (List.mem_filter.1 (h.mem_iff.1 ha)).1
  have hb' : b ∈ t.usplitsAll := (List.mem_filter.1 hb).1
  exact inj_of_nodup_map _ _ hk' a ha' b hb' (String.le_antisymm h1 h2)

theorem tipLens_eq {t u : T} (h : u.tipLens.Perm t.tipLens) (hk : keysOK t = true) : u.tipLens = t.tipLens := by
  have hk' : (t.usplitsAll.map fun s => toString s.side).Nodup := by simpa [keysOK] using hk
  have srt : ∀ v : T, v.tipLens.Pairwise (fun a b => toString a.1 ≤ toString b.1) := by
    intro v
    unfold T.tipLens
    exact ((usplitsAll_sorted v).filter _).map _ (fun a b hab => hab)
  refine List.Perm.eq_of_pairwise ?_ (srt u) (srt t) h
  intro a b ha hb h1 h2
  have ha' := h.mem_iff.1 ha
  unfold T.tipLens at ha' hb
  obtain ⟨x, hx, rfl⟩ := List.mem_map.1 ha'
  obtain ⟨y, hy, rfl⟩ := List.mem_map.1 hb
  have := inj_of_nodup_map _ _ hk' x (List.mem_filter.1 hx).1 y (List.mem_filter.1 hy).1 (String.le_antisymm h1 h2)
  rw [this]

/-- the Spec predicate the oracle evaluates -/
theorem preserved_of_same {t u : T} (h : Same t u) (hk : keysOK t = true) : preserved t u = true := by
  unfold preserved sameTips sameSplits sameDists
  have e1 : sortS u.tipNames = sortS t.tipNames := sortS_congr h.tips
  have e2 := usplits_eq h.usp hk
  have e3 := tipLens_eq h.tl hk
  have e4 : u.distMatrix = t.distMatrix := by
    unfold T.distMatrix
    rw [e1]
    refine Prod.ext rfl ?_
    show List.map _ _ = List.map _ _
    apply List.map_congr_left
    intro a ha
    apply List.map_congr_left
    intro b hb
    by_cases hab : a = b
    · simp [hab]
    · have : (a == b) = false := by simpa using hab
      simp only [this, Bool.false_eq_true, if_false]
      exact h.dist a b (mem_sortS.1 ha) (mem_sortS.1 hb)
  rw [e1, e2, e3, e4]
  simp


end Gotree.C05
