/-
  C17 — `Apart` at every site, by cases on the slot configuration: the upper end is the root.
-/
import Gotree.Lemmas.C17ApartLocalRootF
import Gotree.Lemmas.C17ApartLocalRootT

namespace Gotree.C17
open Gotree Gotree.C17.Spec

theorem local_apart_root (path : List Nat) (d1 d2 : NodeD) (cross : Bool) (e eu ev : EdgeD) (tu tv : T)
    (y z : EdgeD × T) (p1 p2 : Nat) (hp2 : p2 ≤ 2) :
    LocalApart path d1 cross true p1 [(e, T.node d2 p2 [(eu, tu), (ev, tv)]), y, z] 0 p2 ∧
    LocalApart path d1 cross true p1 [y, (e, T.node d2 p2 [(eu, tu), (ev, tv)]), z] 1 p2 ∧
    LocalApart path d1 cross true p1 [y, z, (e, T.node d2 p2 [(eu, tu), (ev, tv)])] 2 p2 := by
  cases cross
  · exact local_apart_root_f path d1 d2 e eu ev tu tv y z p1 p2 hp2
  · exact local_apart_root_t path d1 d2 e eu ev tu tv y z p1 p2 hp2

end Gotree.C17
