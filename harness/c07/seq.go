package c07

// Sequences of operations on ONE tree object (the indexes an operation leaves behind are what the next
// one starts from):
//
//	C07.seq  steps baseDump | beforeDump stored draws outcome afterDump
//
// steps: ";"-separated, executed in order on the object built from baseDump:
//
//	reinit | resolve:SEED | len:L:RR:RT | sup:S:RR | depth:MIN:MAX:RR:RT (the LIBRARY call, no re-indexing)
//	| reroot:K (Reroot on the K-th inner node)
//
// The LAST step is the one judged: beforeDump / stored (id:ntaxleft:ntaxright of every branch) are read
// from the object just before it, afterDump just after.  Branch ids are renumbered after every step
// (Resolve creates branches without id).
import (
	"fmt"
	"math/rand"
	"strconv"
	"strings"

	"verifharness/core"

	"github.com/evolbioinfo/gotree/tree"
)

func renumber(t *tree.Tree) {
	for i, e := range t.Edges() {
		e.SetId(i)
	}
}

func doSeq(c *core.Ctx, steps []string, base *core.N) {
	pre := []string{strings.Join(steps, ";"), base.Dump()}
	t := mustBuild(base)
	pending(c, "C07.seq", append(pre, "", "", "", "exit:killed", "")...)
	defer done()
	var before *core.N
	var stored strings.Builder
	var draws []int
	outcome := "ok"
	for i, st := range steps {
		last := i == len(steps)-1
		f := strings.Split(st, ":")
		if last {
			b, wf := core.Alpha(t)
			if !wf.OK() {
				c.Emit("C07.seq", append(pre, "", "", "", "malformed-before:"+core.Escape(strings.Join(wf.Problems, ";")), "")...)
				return
			}
			before = b
			for _, e := range t.Edges() {
				fmt.Fprintf(&stored, "%d:%d:%d,", e.Id(), e.NumTipsLeft(), e.NumTipsRight())
			}
		}
		var err error
		p, msg := core.Safe(func() {
			switch f[0] {
			case "reinit":
				err = t.ReinitIndexes()
			case "resolve":
				seed, _ := strconv.ParseInt(f[1], 10, 64)
				if last {
					var bounds []int
					script(before, true, &bounds)
					rand.Seed(seed)
					for _, b := range bounds {
						draws = append(draws, rand.Intn(b))
					}
				}
				rand.Seed(seed)
				t.Resolve()
			case "len":
				l, _ := core.ParseRat(f[1])
				t.CollapseShortBranches(l, s2b(f[2]), s2b(f[3]))
			case "sup":
				s, _ := core.ParseRat(f[1])
				t.CollapseLowSupport(s, s2b(f[2]))
			case "depth":
				mn, _ := strconv.Atoi(f[1])
				mx, _ := strconv.Atoi(f[2])
				err = t.CollapseTopoDepth(mn, mx, s2b(f[3]), s2b(f[4]))
			case "reroot":
				k, _ := strconv.Atoi(f[1])
				var inner []*tree.Node
				for _, x := range t.Nodes() {
					if !x.Tip() {
						inner = append(inner, x)
					}
				}
				if len(inner) > 0 {
					err = t.Reroot(inner[k%len(inner)])
				}
			}
		})
		if last {
			if p {
				outcome = "panic:" + core.Escape(msg)
			} else if err != nil {
				outcome = "err"
			}
		} else if p {
			c.Emit("C07.seq", append(pre, "", "", "", "panic-in-step-"+strconv.Itoa(i)+":"+core.Escape(msg), "")...)
			return
		}
		renumber(t)
	}
	a := ""
	if !strings.HasPrefix(outcome, "panic") {
		st, d := after(t)
		if st != "ok" {
			outcome = st
		}
		a = d
	}
	c.Emit("C07.seq", append(pre, before.Dump(), stored.String(), core.IntList(draws), outcome, a)...)
}

func seqCase(c *core.Ctx) {
	o := opts(c.G)
	o.Singles = 0
	if c.G.Chance(0.5) {
		o.Multif, o.MaxDeg = 0.6, 6
	}
	if o.MinTips < 4 {
		o.MinTips = 4
	}
	base, _ := c.G.Tree(o)
	core.NumberEdges(base)
	step := func(kind int) string {
		switch kind {
		case 0:
			return "resolve:" + strconv.Itoa(1+c.G.Intn(1<<20))
		case 1:
			return "len:" + core.Rat(float64(c.G.Intn(16))/8) + ":" + b2s(c.G.Chance(0.3)) + ":" + b2s(c.G.Chance(0.3))
		case 2:
			return "sup:" + core.Rat(float64(c.G.Intn(17))/16) + ":" + b2s(c.G.Chance(0.3))
		case 3:
			mn := 1 + c.G.Intn(3)
			return "depth:" + strconv.Itoa(mn) + ":" + strconv.Itoa(mn+c.G.Intn(3)) + ":" + b2s(c.G.Chance(0.3)) + ":" + b2s(c.G.Chance(0.3))
		default:
			return "reroot:" + strconv.Itoa(c.G.Intn(64))
		}
	}
	var steps []string
	if c.G.Chance(0.85) {
		steps = append(steps, "reinit")
	}
	n := 2 + c.G.Intn(3)
	// round 7: a quarter of the sequences are histories of collapses by length / support only, with ONE
	// --root for all steps (the hypotheses of collapse_then_collapse; the driver re-runs the whole history
	// in the model, tags history / hyp-history)
	pure := c.G.Chance(0.25)
	pureRoot := b2s(c.G.Chance(0.5))
	for i := 0; i < n; i++ {
		k := c.G.Intn(5)
		if pure {
			k = 1 + c.G.Intn(2)
			var st string
			if k == 1 {
				st = "len:" + core.Rat(float64(c.G.Intn(16))/8) + ":" + pureRoot + ":" + b2s(c.G.Chance(0.3))
			} else {
				st = "sup:" + core.Rat(float64(c.G.Intn(17))/16) + ":" + pureRoot
			}
			steps = append(steps, st)
			doSeq(c, append([]string{}, steps...), base)
			continue
		}
		if i == n-1 && c.G.Chance(0.6) {
			k = 3 // most sequences end with the library collapse by depth
		}
		steps = append(steps, step(k))
		// every prefix that ends with a judged operation is a case of its own
		if k <= 3 {
			doSeq(c, append([]string{}, steps...), base)
		}
	}
}
