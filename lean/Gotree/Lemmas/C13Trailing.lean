/-
  C13 — white space only after the last tree of a multi-tree Newick file produces no record (round 7):
  trailing blank-only lines, and trailing blanks without a final line end, are ignored by the reader loop.
-/
import Gotree.Lemmas.C13Layout

namespace Gotree.C13
open Gotree

theorem isBlank_ne_semi (c : Char) (h : isBlank c = true) : c ≠ ';' := by
  intro hc; subst hc; simp [isBlank] at h

theorem isBlank_isSpaceGo (c : Char) (h : isBlank c = true) : isSpaceGo c = true := by
  simp only [isBlank, Bool.or_eq_true, beq_iff_eq] at h
  rcases h with rfl | rfl <;> decide

theorem lastNonBlankRev_blank_prefix (b : Txt) (hb : ∀ c ∈ b, isBlank c = true) (x : Txt)
    (hx : (lastNonBlankRev x == ';') = false) : (lastNonBlankRev (b ++ x) == ';') = false := by
  induction b with
  | nil => simpa using hx
  | cons c b ih =>
    have hc : isBlank c = true := hb c (by simp)
    have ih' := ih (fun d hd => hb d (by simp [hd]))
    cases hbx : b ++ x with
    | nil =>
      simp only [List.cons_append, hbx, lastNonBlankRev]
      simpa using isBlank_ne_semi c hc
    | cons d r =>
      simp only [List.cons_append, hbx, lastNonBlankRev, hc, if_true]
      rw [← hbx]; exact ih'

theorem lastNonBlank_append_blank (acc l : Txt) (hl : ∀ c ∈ l, isBlank c = true)
    (h : (lastNonBlank acc == ';') = false) : (lastNonBlank (acc ++ l) == ';') = false := by
  unfold lastNonBlank at *
  rw [List.reverse_append]
  exact lastNonBlankRev_blank_prefix l.reverse (by intro c hc; exact hl c (by simpa using hc)) _ h

theorem all_space_append_blank (acc l : Txt) (hl : ∀ c ∈ l, isBlank c = true) :
    (acc ++ l).all isSpaceGo = acc.all isSpaceGo := by
  rw [List.all_append]
  have : l.all isSpaceGo = true := by
    rw [List.all_eq_true]; intro c hc; exact isBlank_isSpaceGo c (hl c hc)
  simp [this]

theorem multiGo_blank_lines (C : NewickCodec) (tl : List Txt) (htl : ∀ l ∈ tl, ∀ c ∈ l, isBlank c = true) :
    ∀ (acc : Txt) (id : Nat), (lastNonBlank acc == ';') = false → multiGo C tl acc id = multiGo C [] acc id := by
  induction tl with
  | nil => intros; rfl
  | cons l r ih =>
    intro acc id h
    have hl := htl l (by simp)
    have h' := lastNonBlank_append_blank acc l hl h
    have e : multiGo C (l :: r) acc id = multiGo C r (acc ++ l) id := by
      simp only [multiGo, h', Bool.false_eq_true, if_false]
    rw [e, ih (fun x hx => htl x (by simp [hx])) (acc ++ l) id h']
    simp only [multiGo, all_space_append_blank acc l hl]

theorem multiGo_trailing_blank_lines (C : NewickCodec) (tl : List Txt) (htl : ∀ l ∈ tl, ∀ c ∈ l, isBlank c = true)
    (ls : List Txt) : ∀ (acc : Txt) (id : Nat), (lastNonBlank acc == ';') = false →
      multiGo C (ls ++ tl) acc id = multiGo C ls acc id := by
  induction ls with
  | nil => intro acc id h; exact multiGo_blank_lines C tl htl acc id h
  | cons l r ih =>
    intro acc id h
    have h0 : (lastNonBlank ([] : Txt) == ';') = false := by decide
    rw [List.cons_append]
    simp only [multiGo]
    cases hs : lastNonBlank (acc ++ l) == ';' with
    | false => simp only [Bool.false_eq_true, if_false]; exact ih (acc ++ l) id hs
    | true =>
      simp only [if_true]
      cases hc : (chunkGo C ((acc ++ l).length + 1) (acc ++ l) id).2 with
      | none => rfl
      | some nid => simp only [ih [] nid h0]
theorem blank_oneLine (l : Txt) (h : ∀ c ∈ l, isBlank c = true) : oneLine l := by
  refine ⟨?_, ?_⟩
  · intro c hc e; subst e; have := h _ hc; simp [isBlank] at this
  · intro e
    have hm : '\r' ∈ l := List.mem_of_getLast? e
    have := h _ hm; simp [isBlank] at this

theorem readMultiNewick_trailing_blank_lines (C : NewickCodec) (ls tl : List Txt) (hls : ∀ l ∈ ls, oneLine l)
    (htl : ∀ l ∈ tl, ∀ c ∈ l, isBlank c = true) :
    readMultiNewick C (unlines (ls ++ tl)) = readMultiNewick C (unlines ls) := by
  unfold readMultiNewick
  rw [splitLines_unlines (ls ++ tl) (by
        intro l hl
        rcases List.mem_append.1 hl with h | h
        · exact hls l h
        · exact blank_oneLine l (htl l h)),
      splitLines_unlines ls hls]
  exact multiGo_trailing_blank_lines C tl htl ls [] 0 (by decide)

theorem readMultiNewick_trailing_blanks_nonl (C : NewickCodec) (ls : List Txt) (b : Txt) (hls : ∀ l ∈ ls, oneLine l)
    (hb : ∀ c ∈ b, isBlank c = true) :
    readMultiNewick C (unlines ls ++ b) = readMultiNewick C (unlines ls) := by
  cases hbe : b with
  | nil => simp
  | cons c r =>
    subst hbe
    unfold readMultiNewick
    rw [splitLines_noFinal ls (c :: r) hls (blank_oneLine _ hb).1 (by simp), splitLines_unlines ls hls]
    exact multiGo_trailing_blank_lines C [c :: r] (by intro l hl; simp at hl; subst hl; exact hb) ls [] 0 (by decide)

end Gotree.C13
