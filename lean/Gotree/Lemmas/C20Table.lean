/-
  C20 — helper lemmas about the source table (`Model/C20Table.lean`): what an accepted table says
  about the draw bounds.
-/
import Gotree.Model.C20Table

namespace Gotree.C20

theorem tableOK_draws (ss : List Site) (os : List Opt) (h : tableOK ss os = true) :
    drawsOf "totaltrees" (siteEvs ss "sample.noreplace") 0 = [("Intn", .counter 1)] ∧
    drawsOf "totaltrees" (siteEvs ss "sample.replace") 0 = [("Intn", .counter 1)] ∧
    drawsOf "i" (siteEvs ss "randomTips") 0 = [("Intn", .counter 1)] ∧
    drawsOf "i" (siteEvs ss "RotateNeighbors") 0 = [("Intn", .counter 1)] := by
  simp only [tableOK, Bool.and_eq_true, beq_iff_eq] at h
  refine ⟨?_, ?_, ?_, ?_⟩ <;> simp only [h]

theorem scriptBound_counter (c : Nat) : scriptBound [("Intn", .counter c)] = fun i => i + c := by
  funext i; simp [scriptBound]

/-- `2i - 3 = 1 + 2(i - 2)` and `2i - 2 = 2 + 2(i - 2)` on the tips `i ≥ 2` -/
theorem utreeBounds_eq (rooted : Bool) (n : Nat) :
    utreeBounds rooted n = (List.range' 2 (n - 2)).map fun i => (if rooted then 2 else 1) + 2 * (i - 2) := by
  unfold utreeBounds
  apply List.map_congr_left
  intro i hi
  have : 2 ≤ i := (List.mem_range'_1.mp hi).1
  cases rooted <;> simp <;> omega

end Gotree.C20
