/-
  C19 — what the documented defaults of the two most common options MEAN: `-o`, `--output` (default
  "stdout") and `-i`, `--input` (default "stdin"), i.e. the shared glue every command goes through:

    cmd/root.go:124   func openWriteFile(file string)   if file == "stdout" || file == "-" { f = os.Stdout } else { f, err = os.Create(file) }
    cmd/root.go:133   func closeWriteFile(f, filename)  if filename != "-" && filename != "stdout" { f.Close() }
    io/utils/readfiles.go:18 func OpenFile(inputfile)   if inputfile == "" || inputfile == "stdin" || inputfile == "-" { infile = os.Stdin } else { os.Open(inputfile) }
    cmd/root.go:169   func readTree(infile)             if infile != "none" { ReadTree } else { error }

  The models are built FROM the lists of literals below, and table (g) (Gen/C19Sentinels.lean,
  regenerated from the source by harness/c19/sentinels.go) is decided to be exactly these lists
  (Proofs: `IO.sentinels_check`): the constants are facts about the code.  Tied to the binary by the
  `C19.io` cases.
-/
import Gotree.Model.C19PreRun

namespace Gotree.C19.IO

/-- the names `openWriteFile` turns into the standard output (in source order) -/
def stdoutNames : List String := ["stdout", "-"]

/-- the names `closeWriteFile` does NOT close (in source order) -/
def keepOpenNames : List String := ["-", "stdout"]

/-- the names `utils.OpenFile` turns into the standard input -/
def stdinNames : List String := ["", "stdin", "-"]

/-- the names `readTree` refuses -/
def refusedTreeNames : List String := ["none"]

inductive Target
  | stdout
  | file (name : String)
  deriving DecidableEq, Repr

/-- cmd/root.go openWriteFile: where the result goes -/
def openWriteTarget (file : String) : Target :=
  if stdoutNames.contains file then .stdout else .file file

/-- cmd/root.go closeWriteFile: is `Close()` called? -/
def closesFile (filename : String) : Bool := keepOpenNames.all fun n => filename != n

inductive Source
  | stdin
  | file (name : String)
  deriving DecidableEq, Repr

/-- io/utils/readfiles.go OpenFile (local files; the URL schemes of GetReader are not option defaults) -/
def openReadSource (inputfile : String) : Source :=
  if stdinNames.contains inputfile then .stdin else .file inputfile

/-- cmd/root.go readTree: the guard before `utils.ReadTree` -/
def readTreeAccepts (infile : String) : Bool := refusedTreeNames.all fun n => infile != n

def defaultOutput : String := "stdout"
def defaultInput : String := "stdin"

/-! ### table (g): the comparisons as the source spells them -/

/-- (site, operator — or the constant assigned, for the format switch —, literal) -/
structure SentinelRow where
  site : String
  op : String
  lit : String
  deriving DecidableEq, Repr

/-- the format switch of RootCmd.PersistentPreRun: (case literal, constant assigned); "*" = default clause -/
def formatCases : List (String × String) := [
  ("*", "FORMAT_NEWICK"), ("newick", "FORMAT_NEWICK"), ("nexus", "FORMAT_NEXUS"),
  ("nextstrain", "FORMAT_NEXTSTRAIN"), ("phyloxml", "FORMAT_PHYLOXML")]

/-- the name of the constant of io/utils the model's format stands for -/
def constName : PreRun.Fmt → String
  | .newick => "FORMAT_NEWICK"
  | .nexus => "FORMAT_NEXUS"
  | .phyloxml => "FORMAT_PHYLOXML"
  | .nextstrain => "FORMAT_NEXTSTRAIN"

/-- the sentinel of `--seed` (cmd/root.go:84 `if seed == -1`) -/
def seedSentinel : Int := -1

/-- insertion sort on the literal (the extractor sorts its rows by site, then literal) -/
def insertLit (r : SentinelRow) : List SentinelRow → List SentinelRow
  | [] => [r]
  | s :: rest => if r.lit ≤ s.lit then r :: s :: rest else s :: insertLit r rest

def sortLit (l : List SentinelRow) : List SentinelRow := l.foldr insertLit []

/-- the rows the models above stand for, in the extractor's order (site, literal) -/
def expectedRows : List SentinelRow :=
  sortLit (stdinNames.map fun n => ⟨"OpenFile", "==", n⟩) ++
  sortLit (formatCases.map fun (l, k) => ⟨"PersistentPreRun.format", k, l⟩) ++
  [⟨"PersistentPreRun.seed", "==", toString seedSentinel⟩] ++
  sortLit (keepOpenNames.map fun n => ⟨"closeWriteFile", "!=", n⟩) ++
  sortLit (stdoutNames.map fun n => ⟨"openWriteFile", "==", n⟩) ++
  sortLit (refusedTreeNames.map fun n => ⟨"readTree", "!=", n⟩)

/-! ### reading an outcome of the harness ("exit=N\nstdout:\n…\nfile NAME:\n…") -/

/-- the standard output of a successful run that left no file, `none` otherwise -/
def stdoutOnly (outcome : String) : Option String :=
  let pre := "exit=0\nstdout:\n"
  if outcome.startsWith pre && (outcome.splitOn "\nfile ").length == 1 && (outcome.splitOn "\nstderr:\n").length == 1
  then some (String.ofList (outcome.toList.drop pre.length)) else none

/-- the outcome of the same run with its result sent to the file `name` instead -/
def outcomeInFile (name content : String) : String := "exit=0\nstdout:\n\nfile " ++ name ++ ":\n" ++ content

/-- what the model predicts for a run with `--output=value`, given what the run with the option
    omitted printed -/
def predictOutput (value printed : String) : String :=
  match openWriteTarget value with
  | .stdout => "exit=0\nstdout:\n" ++ printed
  | .file n => outcomeInFile n printed

end Gotree.C19.IO
