/-
  C17 — two different inner branches (both ends of degree three) of a tree with unique tip
  names define different splits.
-/
import Gotree.Lemmas.C17OneSplit
import Gotree.Lemmas.C17ApartLocal

namespace Gotree.C17
open Gotree

/-- two paths: equal, one a proper prefix of the other, or diverging -/
theorem path_cases : ∀ (P Q : List Nat),
    P = Q ∨ (∃ a s, Q = P ++ a :: s) ∨ (∃ a s, P = Q ++ a :: s) ∨
    (∃ W a b s1 s2, a ≠ b ∧ P = W ++ a :: s1 ∧ Q = W ++ b :: s2)
  | [], [] => Or.inl rfl
  | [], b :: Q => Or.inr (Or.inl ⟨b, Q, rfl⟩)
  | a :: P, [] => Or.inr (Or.inr (Or.inl ⟨a, P, rfl⟩))
  | a :: P, b :: Q => by
    by_cases hab : a = b
    · subst hab
      rcases path_cases P Q with h | ⟨x, s, h⟩ | ⟨x, s, h⟩ | ⟨W, x, y, s1, s2, hxy, h1, h2⟩
      · exact Or.inl (by rw [h])
      · exact Or.inr (Or.inl ⟨x, s, by rw [h]; rfl⟩)
      · exact Or.inr (Or.inr (Or.inl ⟨x, s, by rw [h]; rfl⟩))
      · exact Or.inr (Or.inr (Or.inr ⟨a :: W, x, y, s1, s2, hxy, by rw [h1]; rfl, by rw [h2]; rfl⟩))
    · exact Or.inr (Or.inr (Or.inr ⟨[], a, b, P, Q, hab, rfl, rfl⟩))

theorem subAt_append : ∀ (p q : List Nat) (t N : T), subAt (p ++ q) t = some N →
    ∃ M, subAt p t = some M ∧ subAt q M = some N := by
  intro p
  induction p with
  | nil => intro q t N h; exact ⟨t, rfl, h⟩
  | cons i p ih =>
    intro q t N h
    obtain ⟨d, pp, k⟩ := t
    simp only [List.cons_append, subAt] at h ⊢
    cases hki : k[i]? with
    | none => simp [hki] at h
    | some ec =>
      obtain ⟨e, c⟩ := ec
      simp only [hki] at h ⊢
      exact ih q c N h

theorem subAt_append_of : ∀ (p q : List Nat) (t M N : T), subAt p t = some M → subAt q M = some N →
    subAt (p ++ q) t = some N := by
  intro p
  induction p with
  | nil => intro q t M N h1 h2; simp only [subAt, Option.some.injEq] at h1; subst h1; exact h2
  | cons i p ih =>
    intro q t M N h1 h2
    obtain ⟨d, pp, k⟩ := t
    simp only [List.cons_append, subAt] at h1 ⊢
    cases hki : k[i]? with
    | none => simp [hki] at h1
    | some ec =>
      obtain ⟨e, c⟩ := ec
      simp only [hki] at h1 ⊢
      exact ih q c M N h1 h2

/-- the leaves of a node reached by a path are leaves of the start -/
theorem sub_leaves_subset : ∀ (q : List Nat) (M N : T), subAt q M = some N → ∀ x ∈ N.leaves, x ∈ M.leaves := by
  intro q
  induction q with
  | nil => intro M N h x hx; simp only [subAt, Option.some.injEq] at h; subst h; exact hx
  | cons i q ih =>
    intro M N h x hx
    obtain ⟨d, pp, k⟩ := M
    simp only [subAt] at h
    cases hki : k[i]? with
    | none => simp [hki] at h
    | some ec =>
      obtain ⟨e, c⟩ := ec
      simp only [hki] at h
      have h1 := ih c N h x hx
      have h2 := (leaves_sublist_leavesL e c k i hki).subset h1
      rw [leaves_eq]
      have : k ≠ [] := by intro h0; subst h0; simp at hki
      simp [this, h2]

theorem kid_leaves_subset (M : T) (i : Nat) (e : EdgeD) (c : T) (h : M.kids[i]? = some (e, c)) :
    ∀ x ∈ c.leaves, x ∈ leavesL M.kids :=
  fun _ hx => (leaves_sublist_leavesL e c M.kids i h).subset hx

/-- different children of a node have disjoint leaves -/
theorem kids_disjoint : ∀ (k : Kids) (a b : Nat) (ea eb : EdgeD) (A B : T), a ≠ b →
    k[a]? = some (ea, A) → k[b]? = some (eb, B) → (leavesL k).Nodup → ∀ x ∈ A.leaves, x ∉ B.leaves := by
  intro k
  induction k with
  | nil => intro a b ea eb A B _ h; simp at h
  | cons x xs ih =>
    obtain ⟨ex, tx⟩ := x
    intro a b ea eb A B hab ha hb hnd x hxA hxB
    rw [leavesL_cons] at hnd
    have hd := (List.nodup_append.mp hnd)
    cases a with
    | zero =>
      cases b with
      | zero => exact hab rfl
      | succ b =>
        simp at ha; obtain ⟨rfl, rfl⟩ := ha
        have := (leaves_sublist_leavesL eb B xs b (by simpa using hb)).subset hxB
        exact hd.2.2 x hxA x this rfl
    | succ a =>
      cases b with
      | zero =>
        simp at hb; obtain ⟨rfl, rfl⟩ := hb
        have := (leaves_sublist_leavesL ea A xs a (by simpa using ha)).subset hxA
        exact hd.2.2 x hxB x this rfl
      | succ b =>
        exact ih a b ea eb A B (by omega) (by simpa using ha) (by simpa using hb) hd.2.1 x hxA hxB

theorem nodup_kids_of_sub : ∀ (q : List Nat) (t M : T), subAt q t = some M → (leavesL t.kids).Nodup →
    (leavesL M.kids).Nodup := by
  intro q
  induction q with
  | nil => intro t M h hnd; simp only [subAt, Option.some.injEq] at h; subst h; exact hnd
  | cons i q ih =>
    intro t M h hnd
    obtain ⟨d, pp, k⟩ := t
    simp only [subAt] at h
    cases hki : k[i]? with
    | none => simp [hki] at h
    | some ec =>
      obtain ⟨e, c⟩ := ec
      simp only [hki] at h
      exact ih c M h (nodup_leavesL_kids e c k i hki hnd)

theorem leaves_of_kids_ne {c : T} (h : c.kids ≠ []) : c.leaves = leavesL c.kids := by
  rw [leaves_eq, if_neg h]

/-- a node with at least two children: below child `j` strictly fewer leaves -/
theorem other_kid (M : T) (j : Nat) (e : EdgeD) (c : T) (hj : M.kids[j]? = some (e, c)) (h2 : 2 ≤ M.kids.length)
    (hnd : (leavesL M.kids).Nodup) : ∃ z, z ∈ leavesL M.kids ∧ z ∉ c.leaves := by
  have : ∃ i, i ≠ j ∧ i < M.kids.length := by
    by_cases h0 : j = 0
    · exact ⟨1, by omega, by omega⟩
    · exact ⟨0, by omega, by omega⟩
  obtain ⟨i, hij, hi⟩ := this
  have hki : M.kids[i]? = some (M.kids[i]) := by simp [hi]
  obtain ⟨z, hz⟩ := List.exists_mem_of_ne_nil _ (leaves_ne_nil (M.kids[i]).2)
  refine ⟨z, kid_leaves_subset M i (M.kids[i]).1 (M.kids[i]).2 hki z hz, ?_⟩
  exact kids_disjoint M.kids i j _ _ _ _ hij hki hj hnd z hz

/-- `c` is the lower end of a branch of `t` both of whose ends have three neighbours: child
    number `j` of the node at path `q` -/
def Low (t : T) (q : List Nat) (j : Nat) (c : T) : Prop :=
  ∃ S e, subAt q t = some S ∧ S.kids[j]? = some (e, c) ∧ c.kids.length = 2 ∧
    (if q = [] then S.kids.length = 3 else S.kids.length = 2)

theorem subAt_single (S : T) (j : Nat) (e : EdgeD) (c : T) (h : S.kids[j]? = some (e, c)) : subAt [j] S = some c := by
  obtain ⟨d, p, k⟩ := S
  simp only [T.kids_node] at h
  simp [subAt, h]

theorem subAt_cons_inv (a : Nat) (s : List Nat) (M N : T) (h : subAt (a :: s) M = some N) :
    ∃ e A, M.kids[a]? = some (e, A) ∧ subAt s A = some N := by
  obtain ⟨d, p, k⟩ := M
  simp only [subAt] at h
  cases hki : k[a]? with
  | none => simp [hki] at h
  | some ec =>
    obtain ⟨e, c⟩ := ec
    simp only [hki] at h
    exact ⟨e, c, by simpa using hki, h⟩

/-- the strictly nested case: `c2` lies below child `a` of `c1` -/
theorem nested_ne {all : List String} (c1 c2 : T) (a : Nat) (s : List Nat) (hk : c1.kids.length = 2)
    (hnd : (leavesL c1.kids).Nodup) (hsub : subAt (a :: s) c1 = some c2)
    (hall : ∀ x ∈ leavesL c1.kids, x ∈ all) (hne : all ≠ []) (hk2 : c2.kids ≠ []) :
    canonSide all (leavesL c1.kids) ≠ canonSide all (leavesL c2.kids) := by
  obtain ⟨e, A, hA, hs⟩ := subAt_cons_inv a s c1 c2 hsub
  have hc2A : ∀ x ∈ c2.leaves, x ∈ A.leaves := sub_leaves_subset s A c2 hs
  obtain ⟨z, hz1, hz2⟩ := other_kid c1 a e A hA (by omega) hnd
  obtain ⟨y, hy⟩ := List.exists_mem_of_ne_nil _ (leaves_ne_nil c2)
  have hy1 : y ∈ leavesL c1.kids := kid_leaves_subset c1 a e A hA y (hc2A y hy)
  rw [leaves_of_kids_ne hk2] at hy hc2A
  intro heq
  rcases canonSide_eq_cases hne heq with h | h
  · exact hz2 (hc2A z ((h z (hall z hz1)).mp hz1))
  · exact ((h y (hall y hy1)).mp hy1) hy

/-- the same without the condition on the upper end: it has at least two children -/
def Low' (t : T) (q : List Nat) (j : Nat) (c : T) : Prop :=
  ∃ S e, subAt q t = some S ∧ S.kids[j]? = some (e, c) ∧ c.kids.length = 2 ∧ 2 ≤ S.kids.length

theorem Low.low' {t : T} {q : List Nat} {j : Nat} {c : T} (h : Low t q j c) : Low' t q j c := by
  obtain ⟨S, e, h1, h2, h3, h4⟩ := h
  exact ⟨S, e, h1, h2, h3, by split at h4 <;> omega⟩

/-- every proper subtree misses a tip of the tree (true when the root has at least two children,
    and when the root is itself a tip) -/
def ProperOutside (t : T) : Prop :=
  ∀ (q : List Nat) (S : T), q ≠ [] → subAt q t = some S → S.kids ≠ [] → ∃ z, z ∈ t.tipNames ∧ z ∉ leavesL S.kids

theorem properOutside_of_two (t : T) (hu : t.tipNames.Nodup) (hk : 2 ≤ t.kids.length) : ProperOutside t := by
  intro q S hq hs hne
  have hnd : (leavesL t.kids).Nodup := by
    unfold T.tipNames at hu
    exact (List.nodup_append.mp hu).2.1
  obtain ⟨z, hz1, hz2⟩ := outside_nonempty t S q hq hs hne hk hnd
  exact ⟨z, leavesL_sub_tipNames t z hz1, hz2⟩

/-- the root is a tip: its own name is outside every subtree below it -/
theorem properOutside_of_tipRoot (t : T) (hu : t.tipNames.Nodup) (hk : t.kids.length = 1) : ProperOutside t := by
  intro q S _ hs hne
  refine ⟨t.name, ?_, ?_⟩
  · simp [T.tipNames, hk]
  · intro hin
    have hsub := (sub_leaves_sublist q t S hs hne).subset hin
    unfold T.tipNames at hu
    simp only [hk, beq_self_eq_true, if_true] at hu
    exact (List.nodup_append.mp hu).2.2 t.name (by simp) t.name hsub rfl

/-- Two different branches whose lower ends have two children define different (canonical)
    splits — unless they are the two branches at the root of a rooted tree. -/
theorem low_ne_po (t : T) (hu : t.tipNames.Nodup) (hpo : ProperOutside t) (q1 q2 : List Nat) (j1 j2 : Nat) (c1 c2 : T)
    (h1 : Low' t q1 j1 c1) (h2 : Low' t q2 j2 c2) (hne : ¬(q1 = q2 ∧ j1 = j2))
    (hroot3 : q1 = [] → q2 = [] → t.kids.length = 3) :
    canonSide t.tipNames (leavesL c1.kids) ≠ canonSide t.tipNames (leavesL c2.kids) := by
  obtain ⟨S1, e1, hs1, hj1, hk1, hS1k⟩ := h1
  obtain ⟨S2, e2, hs2, hj2, hk2, hS2k⟩ := h2
  have hnd : (leavesL t.kids).Nodup := by
    unfold T.tipNames at hu
    exact (List.nodup_append.mp hu).2.1
  have hP1 : subAt (q1 ++ [j1]) t = some c1 := subAt_append_of q1 [j1] t S1 c1 hs1 (subAt_single S1 j1 e1 c1 hj1)
  have hP2 : subAt (q2 ++ [j2]) t = some c2 := subAt_append_of q2 [j2] t S2 c2 hs2 (subAt_single S2 j2 e2 c2 hj2)
  have hc1ne : c1.kids ≠ [] := by intro h; rw [h] at hk1; simp at hk1
  have hc2ne : c2.kids ≠ [] := by intro h; rw [h] at hk2; simp at hk2
  have hall1 : ∀ x ∈ leavesL c1.kids, x ∈ t.tipNames := fun x hx =>
    leavesL_sub_tipNames t x ((sub_leaves_sublist _ t c1 hP1 hc1ne).subset hx)
  have hall2 : ∀ x ∈ leavesL c2.kids, x ∈ t.tipNames := fun x hx =>
    leavesL_sub_tipNames t x ((sub_leaves_sublist _ t c2 hP2 hc2ne).subset hx)
  obtain ⟨y1, hy1⟩ := List.exists_mem_of_ne_nil _ (leavesL_ne_nil _ hc1ne)
  have hne' : t.tipNames ≠ [] := List.ne_nil_of_mem (hall1 y1 hy1)
  rcases path_cases (q1 ++ [j1]) (q2 ++ [j2]) with h | ⟨a, s, h⟩ | ⟨a, s, h⟩ | ⟨W, a, b, s1, s2, hab, hp1, hp2⟩
  · -- the same branch
    obtain ⟨hq, hj⟩ := List.append_inj' h rfl
    exact absurd ⟨hq, by simpa using hj⟩ hne
  · -- c2 strictly below c1
    rw [h] at hP2
    obtain ⟨M, hM, hsub⟩ := subAt_append _ _ t c2 hP2
    rw [hP1] at hM
    simp only [Option.some.injEq] at hM
    subst hM
    exact nested_ne c1 c2 a s hk1 (nodup_kids_of_sub _ t c1 hP1 hnd) hsub hall1 hne' hc2ne
  · -- c1 strictly below c2
    rw [h] at hP1
    obtain ⟨M, hM, hsub⟩ := subAt_append _ _ t c1 hP1
    rw [hP2] at hM
    simp only [Option.some.injEq] at hM
    subst hM
    exact (nested_ne c2 c1 a s hk2 (nodup_kids_of_sub _ t c2 hP2 hnd) hsub hall2 hne' hc1ne).symm
  · -- the two branches hang below different children of the node at `W`
    rw [hp1] at hP1
    rw [hp2] at hP2
    obtain ⟨M, hM, hsub1⟩ := subAt_append _ _ t c1 hP1
    obtain ⟨M', hM', hsub2⟩ := subAt_append _ _ t c2 hP2
    rw [hM] at hM'
    simp only [Option.some.injEq] at hM'
    subst hM'
    obtain ⟨ea, A, hA, hsA⟩ := subAt_cons_inv a s1 M c1 hsub1
    obtain ⟨eb, B, hB, hsB⟩ := subAt_cons_inv b s2 M c2 hsub2
    have hndM : (leavesL M.kids).Nodup := nodup_kids_of_sub W t M hM hnd
    have hdisj : ∀ x ∈ A.leaves, x ∉ B.leaves := kids_disjoint M.kids a b ea eb A B hab hA hB hndM
    have hc1A : ∀ x ∈ leavesL c1.kids, x ∈ A.leaves := fun x hx =>
      sub_leaves_subset s1 A c1 hsA x (by rw [leaves_of_kids_ne hc1ne]; exact hx)
    have hc2B : ∀ x ∈ leavesL c2.kids, x ∈ B.leaves := fun x hx =>
      sub_leaves_subset s2 B c2 hsB x (by rw [leaves_of_kids_ne hc2ne]; exact hx)
    intro heq
    rcases canonSide_eq_cases hne' heq with hsame | hcompl
    · exact hdisj y1 (hc1A y1 hy1) (hc2B y1 ((hsame y1 (hall1 y1 hy1)).mp hy1))
    · -- a tip outside both
      suffices ∃ z, z ∈ t.tipNames ∧ z ∉ leavesL c1.kids ∧ z ∉ leavesL c2.kids by
        obtain ⟨z, hz, hz1, hz2⟩ := this
        have := (hcompl z hz)
        exact hz1 (this.mpr hz2)
      have hAall : ∀ x ∈ A.leaves, x ∈ t.tipNames := fun x hx => by
        have hMl : x ∈ leavesL M.kids := kid_leaves_subset M a ea A hA x hx
        have hMne : M.kids ≠ [] := by intro h0; rw [h0] at hA; simp at hA
        exact leavesL_sub_tipNames t x ((sub_leaves_sublist W t M hM hMne).subset hMl)
      have hBall : ∀ x ∈ B.leaves, x ∈ t.tipNames := fun x hx => by
        have hMl : x ∈ leavesL M.kids := kid_leaves_subset M b eb B hB x hx
        have hMne : M.kids ≠ [] := by intro h0; rw [h0] at hA; simp at hA
        exact leavesL_sub_tipNames t x ((sub_leaves_sublist W t M hM hMne).subset hMl)
      rcases List.eq_nil_or_concat s1 with hs1nil | ⟨L, l, hs1c⟩
      · rcases List.eq_nil_or_concat s2 with hs2nil | ⟨L, l, hs2c⟩
        · -- both are children of the node at `W`
          subst hs1nil; subst hs2nil
          obtain ⟨hq1, hj1'⟩ := List.append_inj' hp1 rfl
          obtain ⟨hq2, hj2'⟩ := List.append_inj' hp2 rfl
          simp only [subAt, Option.some.injEq] at hsA hsB
          subst hsA; subst hsB
          rw [hq1, hM] at hs1
          simp only [Option.some.injEq] at hs1
          subst hs1
          by_cases hW : W = []
          · -- the root, with three children
            have hq2W : q2 = W := hq2
            have hMt : M = t := by
              rw [hW] at hM
              simpa [subAt] using hM.symm
            have hd1 : M.kids.length = 3 := by
              rw [hMt]
              exact hroot3 (hq1.trans hW) (hq2W.trans hW)
            have : ∃ i, i ≠ a ∧ i ≠ b ∧ i < M.kids.length := by
              have ha3 : a < 3 := by
                have := (List.getElem?_eq_some_iff.mp hA).1; omega
              have hb3 : b < 3 := by
                have := (List.getElem?_eq_some_iff.mp hB).1; omega
              by_cases h0 : a ≠ 0 ∧ b ≠ 0
              · exact ⟨0, by omega, by omega, by omega⟩
              · by_cases h1 : a ≠ 1 ∧ b ≠ 1
                · exact ⟨1, by omega, by omega, by omega⟩
                · exact ⟨2, by omega, by omega, by omega⟩
            obtain ⟨i, hia, hib, hi⟩ := this
            have hki : M.kids[i]? = some (M.kids[i]) := by simp [hi]
            obtain ⟨z, hz⟩ := List.exists_mem_of_ne_nil _ (leaves_ne_nil (M.kids[i]).2)
            have hzM : z ∈ leavesL M.kids := kid_leaves_subset M i _ _ hki z hz
            have hMne : M.kids ≠ [] := by intro h0; rw [h0] at hA; simp at hA
            refine ⟨z, leavesL_sub_tipNames t z ((sub_leaves_sublist W t M hM hMne).subset hzM), ?_, ?_⟩
            · intro hz1
              exact kids_disjoint M.kids i a _ _ _ _ hia hki hA hndM z hz (hc1A z hz1)
            · intro hz2
              exact kids_disjoint M.kids i b _ _ _ _ hib hki hB hndM z hz (hc2B z hz2)
          · -- an inner node with exactly these two children: a tip outside it
            have hMne : M.kids ≠ [] := by intro h0; rw [h0] at hA; simp at hA
            obtain ⟨z, hz1, hz2⟩ := hpo W M hW hM hMne
            refine ⟨z, hz1, ?_, ?_⟩
            · intro h; exact hz2 (kid_leaves_subset M a ea _ hA z (hc1A z h))
            · intro h; exact hz2 (kid_leaves_subset M b eb _ hB z (hc2B z h))
        · -- c2 is strictly below child `b`: the node above it has another child there
          subst hs2c
          have hp2' : q2 ++ [j2] = (W ++ b :: L) ++ [l] := by rw [hp2]; simp
          obtain ⟨hq2, hj2'⟩ := List.append_inj' hp2' rfl
          have hj2l : j2 = l := by simpa using hj2'
          subst hj2l
          rw [hq2] at hs2
          obtain ⟨M2, hM2, hsubS2⟩ := subAt_append W (b :: L) t S2 hs2
          rw [hM] at hM2
          simp only [Option.some.injEq] at hM2
          subst hM2
          obtain ⟨eb', B', hB', hsS2⟩ := subAt_cons_inv b L M S2 hsubS2
          rw [hB] at hB'
          simp only [Option.some.injEq, Prod.mk.injEq] at hB'
          obtain ⟨_, rfl⟩ := hB'
          have hndS2 : (leavesL S2.kids).Nodup := nodup_kids_of_sub _ t S2 hs2 hnd
          obtain ⟨z, hz1, hz2⟩ := other_kid S2 j2 e2 c2 hj2 hS2k hndS2
          have hS2ne : S2.kids ≠ [] := by intro h0; rw [h0] at hj2; simp at hj2
          have hzB : z ∈ B.leaves := sub_leaves_subset L B S2 hsS2 z (by rw [leaves_of_kids_ne hS2ne]; exact hz1)
          refine ⟨z, hBall z hzB, ?_, ?_⟩
          · intro h; exact hdisj z (hc1A z h) hzB
          · intro h; exact hz2 (by rw [leaves_of_kids_ne hc2ne]; exact h)
      · -- c1 is strictly below child `a`
        subst hs1c
        have hp1' : q1 ++ [j1] = (W ++ a :: L) ++ [l] := by rw [hp1]; simp
        obtain ⟨hq1, hj1'⟩ := List.append_inj' hp1' rfl
        have hj1l : j1 = l := by simpa using hj1'
        subst hj1l
        rw [hq1] at hs1
        obtain ⟨M1, hM1, hsubS1⟩ := subAt_append W (a :: L) t S1 hs1
        rw [hM] at hM1
        simp only [Option.some.injEq] at hM1
        subst hM1
        obtain ⟨ea', A', hA', hsS1⟩ := subAt_cons_inv a L M S1 hsubS1
        rw [hA] at hA'
        simp only [Option.some.injEq, Prod.mk.injEq] at hA'
        obtain ⟨_, rfl⟩ := hA'
        have hndS1 : (leavesL S1.kids).Nodup := nodup_kids_of_sub _ t S1 hs1 hnd
        obtain ⟨z, hz1, hz2⟩ := other_kid S1 j1 e1 c1 hj1 hS1k hndS1
        have hS1ne : S1.kids ≠ [] := by intro h0; rw [h0] at hj1; simp at hj1
        have hzA : z ∈ A.leaves := sub_leaves_subset L A S1 hsS1 z (by rw [leaves_of_kids_ne hS1ne]; exact hz1)
        refine ⟨z, hAall z hzA, ?_, ?_⟩
        · intro h; exact hz2 (by rw [leaves_of_kids_ne hc1ne]; exact h)
        · intro h; exact hdisj z hzA (hc2B z h)

theorem low_ne' (t : T) (hu : t.tipNames.Nodup) (htk : 2 ≤ t.kids.length) (q1 q2 : List Nat) (j1 j2 : Nat) (c1 c2 : T)
    (h1 : Low' t q1 j1 c1) (h2 : Low' t q2 j2 c2) (hne : ¬(q1 = q2 ∧ j1 = j2))
    (hroot3 : q1 = [] → q2 = [] → t.kids.length = 3) :
    canonSide t.tipNames (leavesL c1.kids) ≠ canonSide t.tipNames (leavesL c2.kids) :=
  low_ne_po t hu (properOutside_of_two t hu htk) q1 q2 j1 j2 c1 c2 h1 h2 hne hroot3

/-- Two different branches both of whose ends have three neighbours define different splits. -/
theorem low_ne (t : T) (hu : t.tipNames.Nodup) (htk : 2 ≤ t.kids.length) (q1 q2 : List Nat) (j1 j2 : Nat) (c1 c2 : T)
    (h1 : Low t q1 j1 c1) (h2 : Low t q2 j2 c2) (hne : ¬(q1 = q2 ∧ j1 = j2)) :
    canonSide t.tipNames (leavesL c1.kids) ≠ canonSide t.tipNames (leavesL c2.kids) := by
  refine low_ne' t hu htk q1 q2 j1 j2 c1 c2 h1.low' h2.low' hne ?_
  intro hq1 _
  obtain ⟨S, e, hs, _, _, hd⟩ := h1
  rw [hq1] at hs hd
  simp only [subAt, Option.some.injEq] at hs
  subst hs
  simpa using hd

end Gotree.C17
