/-
  C14 — what the property means, from the split list only (DESIGN §3.1).
-/
import Gotree.Model.C14

namespace Gotree.C14
open Gotree

/-- path sum of the metric between two tips: sum over the separating entries -/
def pathSum (m : Metric) (t : T) (a b : String) : Rat := distW m.w t.splits a b

/-- every branch on the path joining `a` and `b` is shorter than `thr` -/
def pathShort (thr : Rat) (t : T) (a b : String) : Bool :=
  t.splits.all fun s => !(s.sep a b) || decide (s.e.len < thr)

def sameBag (bags : List (List String)) (a b : String) : Bool :=
  bags.any fun g => g.contains a && g.contains b

/-- Spec of the distance matrix for a tree with unique tip names. -/
def matrixOK (m : Metric) (t : T) (tips : List String) (mat : List (List Rat)) : Bool :=
  tips == sortNames t.tipNames &&
  mat == tips.map fun a => tips.map fun b => if a == b then 0 else pathSum m t a b

/-- Spec of the cut: the bags partition the tips, and two tips share a bag iff
    every branch between them is shorter than the threshold. -/
def cutOK (thr : Rat) (t : T) (bags : List (List String)) : Bool :=
  let tips := t.tipNames
  (bags.flatten.mergeSort (fun a b => decide (a ≤ b)) == sortNames tips) &&
  bags.all (fun g => !g.isEmpty) &&
  tips.all fun a => tips.all fun b => sameBag bags a b == pathShort thr t a b

/-! ## the cut as documented (round 3): no arithmetic on the "absent" sentinel

  What the documentation fixes about a branch WITHOUT a length: `gotree matrix` says "if there is
  no length for a given branch, 0.0 is the default"; `gotree brlen cut` says it cuts "branches
  whose length is greater than or equal to the given length".  For a threshold > 0 both readings
  agree: a branch without length is not cut (0 < thr; it has no length ≥ thr).  For a threshold
  ≤ 0 they disagree (0 ≥ thr would be cut; "no length" would not) and nothing else is said: the
  Spec leaves such a branch UNSPECIFIED there, instead of inheriting the code's `-1 < thr`. -/

/-- is the branch shorter than the threshold, as far as the documentation says -/
def shortDoc (thr : Rat) (e : EdgeD) : Option Bool :=
  if e.len == NIL then (if 0 < thr then some true else none) else some (decide (e.len < thr))

/-- `some false`: some branch between `a` and `b` is documented as cut; `some true`: every branch
    between them is documented as kept; `none`: no branch documented as cut, some unspecified -/
def pathShortDoc (thr : Rat) (t : T) (a b : String) : Option Bool :=
  let seps := t.splits.filter fun s => s.sep a b
  if seps.any (fun s => shortDoc thr s.e == some false) then some false
  else if seps.all (fun s => shortDoc thr s.e == some true) then some true
  else none

/-- Spec of the cut used as oracle: the bags partition the tips, none is empty, and two tips
    share a bag / are apart whenever the documentation decides it. -/
def cutSpecOK (thr : Rat) (t : T) (bags : List (List String)) : Bool :=
  let tips := t.tipNames
  (bags.flatten.mergeSort (fun a b => decide (a ≤ b)) == sortNames tips) &&
  bags.all (fun g => !g.isEmpty) &&
  tips.all fun a => tips.all fun b =>
    match pathShortDoc thr t a b with
    | some v => sameBag bags a b == v
    | none => true

end Gotree.C14
