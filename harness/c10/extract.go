package c10

import (
	"bytes"
	"fmt"
	"go/ast"
	"go/parser"
	"go/printer"
	"go/token"
	"os"
	"path/filepath"
	"sort"
	"strings"
)

// GenTables regenerates from the working tree the facts about the source that the hand-written
// model of C10 assumes (Gotree/Model/C10Table.lean `expected`, re-decided by the theorem
// `sourceFactsCheck` of Proofs/C10.lean):
//
//	cmps   every comparison (nil tests left out) of the functions of support/fbp.go and
//	       support/tbe.go that the model follows, in source order, as a SHAPE: operators, literals,
//	       conversions and upper-case constants are kept, every other operand is `_` (renaming a
//	       variable or inlining a helper value changes nothing; `<` for `<=`, `1` for `2` does);
//	lits   every numeric literal of the same functions, in source order;
//	calls  what cmd/classical.go `classical` and cmd/booster.go `booster` call, with which
//	       arguments and in which order (readers, ReinitIndexes before TBE, raw tree written first);
//	flags  name, shorthand and default of the flags of `gotree compute support` (+ -t);
//	consts tree.NIL_SUPPORT.
//
// Output: <out>/C10Facts.lean.  go/ast only, no type checking.
func GenTables(repo, out string) error {
	fset := token.NewFileSet()
	parse := func(rel string) (*ast.File, error) {
		return parser.ParseFile(fset, filepath.Join(repo, rel), nil, 0)
	}
	show := func(n ast.Node) string {
		var b bytes.Buffer
		printer.Fprint(&b, fset, n)
		return strings.Join(strings.Fields(b.String()), " ")
	}
	funcsOf := func(f *ast.File) map[string]*ast.FuncDecl {
		m := map[string]*ast.FuncDecl{}
		for _, d := range f.Decls {
			if fd, ok := d.(*ast.FuncDecl); ok && fd.Body != nil {
				m[fd.Name.Name] = fd
			}
		}
		return m
	}
	var shape func(e ast.Expr) string
	shape = func(e ast.Expr) string {
		switch x := e.(type) {
		case *ast.BasicLit:
			return x.Value
		case *ast.ParenExpr:
			return "(" + shape(x.X) + ")"
		case *ast.BinaryExpr:
			return shape(x.X) + " " + x.Op.String() + " " + shape(x.Y)
		case *ast.UnaryExpr:
			return x.Op.String() + shape(x.X)
		case *ast.CallExpr:
			if id, ok := x.Fun.(*ast.Ident); ok && (id.Name == "float64" || id.Name == "int" || id.Name == "len" || id.Name == "uint" || id.Name == "uint64") {
				var a []string
				for _, y := range x.Args {
					a = append(a, shape(y))
				}
				return id.Name + "(" + strings.Join(a, ", ") + ")"
			}
			return "_"
		case *ast.SelectorExpr:
			if x.Sel.Name == strings.ToUpper(x.Sel.Name) {
				return x.Sel.Name
			}
			return "_"
		case *ast.Ident:
			if x.Name == "nil" || x.Name == "true" || x.Name == "false" {
				return x.Name
			}
			return "_"
		}
		return "_"
	}
	isNil := func(e ast.Expr) bool {
		id, ok := e.(*ast.Ident)
		return ok && id.Name == "nil"
	}
	// term renders a comparison for Lean (Model/C10Table.lean `Cmp`): operator, both sides as expressions over
	// integer literals, `/ + -` and variables (the operands that are neither, numbered by the rank of their text
	// among the operands of the comparison: `d < *dist` and `*dist > d` get the same numbering), and the shape
	// as a fallback for sides that are not integer expressions.
	term := func(be *ast.BinaryExpr) string {
		var leaves []string
		var collect func(e ast.Expr)
		collect = func(e ast.Expr) {
			switch x := e.(type) {
			case *ast.BasicLit:
			case *ast.ParenExpr:
				collect(x.X)
			case *ast.BinaryExpr:
				if x.Op == token.QUO || x.Op == token.ADD || x.Op == token.SUB {
					collect(x.X)
					collect(x.Y)
					return
				}
				leaves = append(leaves, show(x))
			default:
				leaves = append(leaves, show(e))
			}
		}
		collect(be.X)
		collect(be.Y)
		sort.Strings(leaves)
		rank := map[string]int{}
		for _, l := range leaves {
			if _, ok := rank[l]; !ok {
				rank[l] = len(rank)
			}
		}
		var ex func(e ast.Expr) string
		ex = func(e ast.Expr) string {
			switch x := e.(type) {
			case *ast.BasicLit:
				if x.Kind == token.INT {
					return "(.lit " + x.Value + ")"
				}
				return fmt.Sprintf("(.opaque %q)", x.Value)
			case *ast.ParenExpr:
				return ex(x.X)
			case *ast.BinaryExpr:
				switch x.Op {
				case token.QUO:
					return "(.div " + ex(x.X) + " " + ex(x.Y) + ")"
				case token.ADD:
					return "(.add " + ex(x.X) + " " + ex(x.Y) + ")"
				case token.SUB:
					return "(.sub " + ex(x.X) + " " + ex(x.Y) + ")"
				}
			case *ast.SelectorExpr:
				if x.Sel.Name == strings.ToUpper(x.Sel.Name) {
					return fmt.Sprintf("(.opaque %q)", x.Sel.Name)
				}
			}
			return fmt.Sprintf("(.var %d)", rank[show(e)])
		}
		return fmt.Sprintf("⟨%q, %s, %s, %q⟩", be.Op.String(), ex(be.X), ex(be.Y), shape(be))
	}
	type row struct {
		name  string
		items []string
	}
	var cmps, arith []row
	for _, src := range []struct {
		file  string
		funcs []string
	}{
		{"support/fbp.go", []string{"FBP"}},
		{"support/tbe.go", []string{"MinTransferDist", "speciesToMoveRecursive", "minTransferDistRecur", "TBE", "ReformatAvgDistance", "NormalizeTransferDistancesByDepth", "UpdateTaxaMoveArrays"}},
	} {
		f, err := parse(src.file)
		if err != nil {
			return err
		}
		fm := funcsOf(f)
		for _, name := range src.funcs {
			fd := fm[name]
			if fd == nil {
				return fmt.Errorf("%s: func %s not found", src.file, name)
			}
			c, a := row{name: name}, row{name: name}
			ast.Inspect(fd.Body, func(n ast.Node) bool {
				if bl, ok := n.(*ast.BasicLit); ok && (bl.Kind == token.INT || bl.Kind == token.FLOAT) {
					a.items = append(a.items, bl.Value)
					return true
				}
				be, ok := n.(*ast.BinaryExpr)
				if !ok {
					return true
				}
				switch be.Op {
				case token.LSS, token.LEQ, token.GTR, token.GEQ, token.EQL, token.NEQ:
					if !isNil(be.X) && !isNil(be.Y) {
						c.items = append(c.items, term(be))
					}
				}
				return true
			})
			// the literals as a set (sorted): `x++` for `x += 1` changes nothing, another constant does
			seen := map[string]bool{}
			var uniq []string
			for _, x := range a.items {
				if !seen[x] {
					seen[x] = true
					uniq = append(uniq, x)
				}
			}
			sort.Strings(uniq)
			a.items = uniq
			cmps = append(cmps, c)
			arith = append(arith, a)
		}
	}

	// the commands
	watched := map[string]bool{"readTree": true, "readTrees": true, "support.FBP": true, "support.TBE": true,
		"refTree.ReinitIndexes": true, "supportOut.WriteString": true, "rawSupportOut.WriteString": true}
	var calls [][]string // function, callee, args…
	for _, src := range []struct{ file, fn string }{{"cmd/classical.go", "classical"}, {"cmd/booster.go", "booster"}} {
		f, err := parse(src.file)
		if err != nil {
			return err
		}
		fd := funcsOf(f)[src.fn]
		if fd == nil {
			return fmt.Errorf("%s: func %s not found", src.file, src.fn)
		}
		ast.Inspect(fd.Body, func(n ast.Node) bool {
			ce, ok := n.(*ast.CallExpr)
			if !ok {
				return true
			}
			if callee := show(ce.Fun); watched[callee] {
				r := []string{src.fn, callee}
				for _, a := range ce.Args {
					r = append(r, show(a))
				}
				calls = append(calls, r)
			}
			return true
		})
	}

	// the flags: X.PersistentFlags().<Kind>Var[P](&v, name, [shorthand,] default, usage)
	var flags [][]string
	for _, src := range []struct {
		file, fn string
		only     string
	}{{"cmd/computesupport.go", "init", ""}, {"cmd/booster.go", "addTBEFlags", ""}, {"cmd/root.go", "init", "threads"}} {
		f, err := parse(src.file)
		if err != nil {
			return err
		}
		for _, d := range f.Decls {
			fd, ok := d.(*ast.FuncDecl)
			if !ok || fd.Body == nil || fd.Name.Name != src.fn {
				continue
			}
			ast.Inspect(fd.Body, func(n ast.Node) bool {
				ce, ok := n.(*ast.CallExpr)
				if !ok {
					return true
				}
				sel, ok := ce.Fun.(*ast.SelectorExpr)
				if !ok || !strings.Contains(sel.Sel.Name, "Var") || len(ce.Args) < 4 {
					return true
				}
				name, short, def := show(ce.Args[1]), "", show(ce.Args[2])
				if strings.HasSuffix(sel.Sel.Name, "P") && len(ce.Args) >= 5 {
					short, def = show(ce.Args[2]), show(ce.Args[3])
				}
				name, short = strings.Trim(name, "\""), strings.Trim(short, "\"")
				if src.only == "" || src.only == name {
					flags = append(flags, []string{name, short, def})
				}
				return true
			})
		}
	}

	// tree.NIL_SUPPORT
	var consts [][]string
	ef, err := parse("tree/edge.go")
	if err != nil {
		return err
	}
	ast.Inspect(ef, func(n ast.Node) bool {
		vs, ok := n.(*ast.ValueSpec)
		if !ok {
			return true
		}
		for i, id := range vs.Names {
			if id.Name == "NIL_SUPPORT" && i < len(vs.Values) {
				consts = append(consts, []string{id.Name, show(vs.Values[i])})
			}
		}
		return true
	})

	q := func(l []string) string {
		var p []string
		for _, x := range l {
			p = append(p, fmt.Sprintf("%q", x))
		}
		return "[" + strings.Join(p, ", ") + "]"
	}
	var b strings.Builder
	b.WriteString("-- GENERATED by harness/c10/extract.go (vh gen-tables) from support/fbp.go, support/tbe.go, cmd/classical.go,\n-- cmd/booster.go, cmd/computesupport.go, cmd/root.go, tree/edge.go; do not edit\n")
	b.WriteString("import Gotree.Model.C10Table\n\nnamespace Gotree.Gen.C10\nopen Gotree.C10\n\ndef facts : Facts := {\n  cmps := [\n")
	for i, r := range cmps {
		fmt.Fprintf(&b, "    (%q, [%s])%s\n", r.name, strings.Join(r.items, ", "), map[bool]string{true: ",", false: ""}[i < len(cmps)-1])
	}
	b.WriteString("  ],\n  lits := [\n")
	for i, r := range arith {
		fmt.Fprintf(&b, "    (%q, %s)%s\n", r.name, q(r.items), map[bool]string{true: ",", false: ""}[i < len(arith)-1])
	}
	b.WriteString("  ],\n  calls := [\n")
	for i, r := range calls {
		fmt.Fprintf(&b, "    %s%s\n", q(r), map[bool]string{true: ",", false: ""}[i < len(calls)-1])
	}
	b.WriteString("  ],\n  flags := [\n")
	for i, r := range flags {
		fmt.Fprintf(&b, "    %s%s\n", q(r), map[bool]string{true: ",", false: ""}[i < len(flags)-1])
	}
	b.WriteString("  ],\n  consts := [\n")
	for i, r := range consts {
		fmt.Fprintf(&b, "    %s%s\n", q(r), map[bool]string{true: ",", false: ""}[i < len(consts)-1])
	}
	b.WriteString("  ] }\n\nend Gotree.Gen.C10\n")
	path := filepath.Join(out, "C10Facts.lean")
	if old, err := os.ReadFile(path); err == nil && string(old) == b.String() {
		return nil // unchanged: keep the time stamp (no rebuild)
	}
	return os.WriteFile(path, []byte(b.String()), 0644)
}
