package c03

import (
	"bufio"
	"bytes"
	"fmt"
	"os"
	"os/exec"
	"strings"

	"verifharness/core"
)

// Shrinker for failing histories (manual tool, bin/check does not call it):
//
//	.build/vh-C03 C03 -repo <repo> -arg shrink:<replay or corpus file>
//
// For every request line of the file it looks for a shorter request with the same kind of
// verdict (ORACLE / TIE on the last executed step): ops are dropped one at a time (from the
// end towards the start, repeated until nothing can be dropped), then the start tree is
// replaced by the α dump before the earliest op that can take over as start.  Every candidate
// is executed on the real code (in a child process, like any history) and judged by the Lean
// driver ($VERIF_DRIVER, default lean/.lake/build/bin/gotree_model_C03).  The shrunk request
// lines are printed on stdout; they can be put in corpus/.
func runShrink(c *core.Ctx, file string) {
	driver := os.Getenv("VERIF_DRIVER")
	if driver == "" {
		driver = "/verif/lean/.lake/build/bin/gotree_model_C03"
	}
	for _, l := range core.ReadRequests(file) {
		f := strings.Split(l, "\t")
		if f[0] != stepOp || len(f) < 3 {
			continue
		}
		start, ops := f[1], splitOps(f[2])
		want, _ := verdictOf(c, driver, start, ops)
		if want != "ORACLE" && want != "TIE" {
			fmt.Fprintf(os.Stderr, "shrink: the request does not fail here (%s)\n", want)
			c.Emit(stepOp, start, strings.Join(ops, ";"))
			continue
		}
		// 1. drop ops
		changed := true
		for changed {
			changed = false
			for i := len(ops) - 2; i >= 0; i-- { // the last op is the failing one
				cand := append(append([]string(nil), ops[:i]...), ops[i+1:]...)
				if v, _ := verdictOf(c, driver, start, cand); v == want {
					ops = cand
					changed = true
				}
			}
		}
		// 2. move the start forward: the tree before op i becomes the start tree
		for i := len(ops) - 1; i > 0; i-- {
			if _, befores := verdictOf(c, driver, start, ops); i < len(befores) && befores[i] != "" {
				if v, _ := verdictOf(c, driver, befores[i], ops[i:]); v == want {
					start, ops = befores[i], ops[i:]
					break
				}
			}
		}
		c.Emit(stepOp, start, strings.Join(ops, ";"))
	}
}

func splitOps(s string) []string {
	var out []string
	for _, o := range strings.Split(s, ";") {
		if o != "" {
			out = append(out, o)
		}
	}
	return out
}

// verdictOf executes one history through the ordinary parent/child machinery and the driver;
// it returns the status of the LAST emitted step and the before-dumps of all steps.
func verdictOf(c *core.Ctx, driver, start string, ops []string) (string, []string) {
	tmp := c.TmpFile(stepOp + "\t" + start + "\t" + strings.Join(ops, ";") + "\n")
	defer os.Remove(tmp)
	var buf bytes.Buffer
	sub := *c
	sub.W = bufio.NewWriter(&buf)
	sub.Arg = tmp
	runParent(&sub)
	sub.W.Flush()
	cases := strings.Split(strings.TrimRight(buf.String(), "\n"), "\n")
	if len(cases) == 0 || cases[0] == "" {
		return "NONE", nil
	}
	cmd := exec.Command(driver)
	cmd.Stdin = strings.NewReader(buf.String())
	out, err := cmd.Output()
	if err != nil {
		return "DRIVER-ERROR", nil
	}
	vs := strings.Split(strings.TrimRight(string(out), "\n"), "\n")
	var befores []string
	for _, cl := range cases {
		f := strings.Split(cl, "\t")
		if len(f) > 4 {
			befores = append(befores, f[4])
		} else {
			befores = append(befores, "")
		}
	}
	// the request only counts when ALL its ops were executed and the last one carries the verdict
	if len(vs) != len(ops) {
		return "SHORT", befores
	}
	return strings.SplitN(vs[len(vs)-1], "\t", 2)[0], befores
}
