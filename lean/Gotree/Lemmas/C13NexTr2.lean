/-
  C13 — Nexus with a translate table: the hypotheses of `nexus_roundtrip_translate_state` derived from
  conditions on the input trees (the writer's map, the index numerals, renaming there and back).
-/
import Gotree.Lemmas.C13NexTr

namespace Gotree.C13
open Gotree
open Nex

/- ## the map built by `addTips` -/

def mapFrom (k : Nat) : List String → List (String × String)
  | [] => []
  | t :: r => (t, toString k) :: mapFrom (k + 1) r

theorem keys_mapFrom (k : Nat) (tips : List String) : (mapFrom k tips).map (·.1) = tips := by
  induction tips generalizing k with
  | nil => rfl
  | cons t r ih => simp [mapFrom, ih]

theorem addTips_fresh (tips : List String) (s : WState) (hnd : tips.Nodup) (hd : ∀ x ∈ tips, x ∉ keys s) :
    addTips tips s = ⟨s.map ++ mapFrom s.nb tips, s.slice ++ tips, s.nb + tips.length⟩ := by
  induction tips generalizing s with
  | nil => simp [addTips, mapFrom]
  | cons t r ih =>
    have hnone : lookup s.map t = none := (lookup_none_iff s.map t).2 (hd t (by simp))
    rw [List.nodup_cons] at hnd
    simp only [addTips, hnone]
    rw [ih _ hnd.2 (by
      intro x hx
      simp only [keys, List.map_append, List.map_cons, List.map_nil, List.mem_append, List.mem_cons,
        List.not_mem_nil, or_false, not_or]
      exact ⟨hd x (by simp [hx]), fun h => hnd.1 (h ▸ hx)⟩)]
    simp [mapFrom, Nat.add_assoc, Nat.add_comm 1]

theorem addTips_noop (tips : List String) (s : WState) (h : ∀ x ∈ tips, x ∈ keys s) : addTips tips s = s := by
  induction tips with
  | nil => rfl
  | cons t r ih =>
    have : lookup s.map t ≠ none := fun hn => (lookup_none_iff s.map t).1 hn (h t (by simp))
    simp only [addTips]
    split
    · exact ih (fun x hx => h x (by simp [hx]))
    · rename_i hn; exact absurd hn this

/-- the tree written for `t` when the map is `m` (`writtenTree` looks at the map only) -/
def wOf (m : List (String × String)) (t : T) : T :=
  if hasDup ((allNames t).filter (· != "")) then t else renameT m t

theorem writtenTree_eq (s : WState) (t : T) : writtenTree true s t = wOf s.map t := by
  simp only [writtenTree, wOf, if_true]

theorem stepState_map_const (s : WState) (t : T) (h : ∀ x ∈ t.tipNames, x ∈ keys s) :
    (stepState s t).map = s.map ∧ keys (stepState s t) = keys s := by
  simp [stepState, keys, addTips_noop t.tipNames s h]

/-- once every tip is in the map, the loop leaves the map alone and every tree is renamed through it -/
theorem loop_const (its : List (Nat × T)) (s : WState) (h : ∀ it ∈ its, ∀ x ∈ it.2.tipNames, x ∈ keys s) :
    writtenList its s = its.map (fun it => (it.1, wOf s.map it.2)) ∧ (stateLoop its s).map = s.map := by
  induction its generalizing s with
  | nil => exact ⟨rfl, rfl⟩
  | cons it r ih =>
    obtain ⟨h1, h2⟩ := stepState_map_const s it.2 (h it (by simp))
    have := ih (stepState s it.2) (fun x hx y hy => by rw [h2]; exact h x (by simp [hx]) y hy)
    simp only [writtenList, stateLoop, List.map_cons, writtenTree_eq, h1, this.1, this.2]
    exact ⟨trivial, trivial⟩

/-- the map after the whole loop, for trees on the tip set of the first one -/
theorem loop_first (t0 : T) (rest : List T) (hnd : t0.tipNames.Nodup)
    (h : ∀ t ∈ rest, ∀ x ∈ t.tipNames, x ∈ t0.tipNames) :
    (stateLoop (enumFrom 0 (t0 :: rest)) {}).map = mapFrom 0 t0.tipNames ∧
    writtenList (enumFrom 0 (t0 :: rest)) {} =
      (enumFrom 0 (t0 :: rest)).map (fun it => (it.1, wOf (mapFrom 0 t0.tipNames) it.2)) := by
  have hs1 : (stepState {} t0).map = mapFrom 0 t0.tipNames := by
    simp [stepState, addTips_fresh t0.tipNames {} hnd (by simp [keys])]
  have hk1 : keys (stepState {} t0) = t0.tipNames := by
    simp only [keys, hs1, keys_mapFrom]
  have hmem : ∀ it ∈ enumFrom 1 rest, ∀ x ∈ it.2.tipNames, x ∈ keys (stepState {} t0) := by
    intro it hit x hx
    rw [hk1]
    have : ∀ (i : Nat) (l : List T), it ∈ enumFrom i l → it.2 ∈ l := by
      intro i l
      induction l generalizing i with
      | nil => intro h; simp [enumFrom] at h
      | cons a l ih =>
        intro h
        simp only [enumFrom, List.mem_cons] at h
        rcases h with h | h
        · simp [h]
        · exact List.mem_cons_of_mem _ (ih (i + 1) h)
    exact h it.2 (this 1 rest hit) x hx
  obtain ⟨h1, h2⟩ := loop_const (enumFrom 1 rest) (stepState {} t0) hmem
  simp only [enumFrom, stateLoop, writtenList, List.map_cons, writtenTree_eq, hs1] at h1 h2 ⊢
  exact ⟨h2, by rw [h1]⟩

/- ## index numerals -/

theorem toString_nat_inj {a b : Nat} (h : toString a = toString b) : a = b := by
  have := congrArg intVal h
  rw [intVal_natStr, intVal_natStr] at this
  exact Int.ofNat.inj this

theorem lookup_mapFrom_range (k : Nat) (tips : List String) (x v : String)
    (h : lookup (mapFrom k tips) x = some v) : ∃ j, k ≤ j ∧ v = toString j := by
  induction tips generalizing k with
  | nil => simp [mapFrom, lookup] at h
  | cons t r ih =>
    simp only [mapFrom, lookup] at h
    split at h
    · injection h with h; exact ⟨k, Nat.le_refl _, h.symm⟩
    · obtain ⟨j, hj, hv⟩ := ih (k + 1) h
      exact ⟨j, by omega, hv⟩

theorem lookup_mapFrom_inj (k : Nat) (tips : List String) (hnd : tips.Nodup) (x y v : String)
    (hx : lookup (mapFrom k tips) x = some v) (hy : lookup (mapFrom k tips) y = some v) : x = y := by
  induction tips generalizing k with
  | nil => simp [mapFrom, lookup] at hx
  | cons t r ih =>
    rw [List.nodup_cons] at hnd
    simp only [mapFrom, lookup] at hx hy
    by_cases h1 : t = x <;> by_cases h2 : t = y
    · rw [← h1, ← h2]
    · have e2 : (t == y) = false := by simpa using h2
      simp only [h1, beq_self_eq_true, if_true] at hx
      rw [e2] at hy
      simp only [Bool.false_eq_true, if_false] at hy
      obtain ⟨j, hj, hv⟩ := lookup_mapFrom_range (k + 1) r y v hy
      injection hx with hx
      have := toString_nat_inj (hx.trans hv)
      omega
    · have e1 : (t == x) = false := by simpa using h1
      simp only [h2, beq_self_eq_true, if_true] at hy
      rw [e1] at hx
      simp only [Bool.false_eq_true, if_false] at hx
      obtain ⟨j, hj, hv⟩ := lookup_mapFrom_range (k + 1) r x v hx
      injection hy with hy
      have := toString_nat_inj (hy.trans hv)
      omega
    · have e1 : (t == x) = false := by simpa using h1
      have e2 : (t == y) = false := by simpa using h2
      rw [e1] at hx; rw [e2] at hy
      exact ih (k + 1) hnd.2 hx hy

theorem lookup_mapFrom_mem (k : Nat) (tips : List String) (x : String) (hx : x ∈ tips) :
    ∃ v, lookup (mapFrom k tips) x = some v := by
  cases h : lookup (mapFrom k tips) x with
  | some v => exact ⟨v, rfl⟩
  | none =>
    have := (lookup_none_iff _ x).1 h
    rw [keys_mapFrom] at this
    exact absurd hx this

/-- a decimal numeral is a legal label -/
def notDigitHead (lit : String) : Bool :=
  match lit.toList with | c :: _ => !c.isDigit | [] => true

theorem isDigit_not_bad {c : Char} (h : c.isDigit = true) : badLabelChar c = false := by
  simp only [Char.isDigit, Bool.and_eq_true, decide_eq_true_eq, ge_iff_le] at h
  simp only [badLabelChar, Bool.or_eq_false_iff, beq_eq_false_iff_ne, ne_eq]
  have h1 : '0'.val ≤ c.val := h.1
  have h2 : c.val ≤ '9'.val := h.2
  refine ⟨⟨⟨⟨⟨⟨⟨⟨⟨⟨⟨⟨⟨⟨⟨⟨?_, ?_⟩, ?_⟩, ?_⟩, ?_⟩, ?_⟩, ?_⟩, ?_⟩, ?_⟩, ?_⟩, ?_⟩, ?_⟩, ?_⟩, ?_⟩, ?_⟩, ?_⟩, ?_⟩ <;>
    (intro hc; subst hc; first | (revert h1; decide) | (revert h2; decide))

theorem labelOK_natStr (j : Nat) : labelOK (toString j) = true := by
  have hd : ∀ c ∈ Nat.toDigits 10 j, c.isDigit = true :=
    fun c hc => Nat.isDigit_of_mem_toDigits (by decide) (by decide) hc
  have hl : (toString j).toList = Nat.toDigits 10 j := by simp
  have hne : Nat.toDigits 10 j ≠ [] := Nat.toDigits_ne_nil
  simp only [labelOK, Bool.and_eq_true, Bool.not_eq_true', bne_iff_ne, ne_eq, Option.isNone_iff_eq_none]
  refine ⟨⟨?_, ?_⟩, ?_⟩
  · intro h
    rw [h] at hl
    exact hne hl.symm
  · rw [List.any_eq_false, hl]
    intro c hc
    simp [isDigit_not_bad (hd c hc)]
  · have hup : String.ofList ((toString j).toList.map upperGo) = String.ofList (Nat.toDigits 10 j) := by
      congr 1
      rw [hl]
      exact (List.map_congr_left (fun c hc => upper_digit c (hd c hc))).trans (List.map_id _)
    unfold keywordOf
    rw [hup]
    have key : ∀ lit : String, notDigitHead lit = true → String.ofList (Nat.toDigits 10 j) = lit → False := by
      intro lit hlit heq
      have h2 := congrArg String.toList heq
      simp only [String.toList_ofList] at h2
      simp only [notDigitHead] at hlit
      rw [← h2] at hlit
      cases hh : Nat.toDigits 10 j with
      | nil => exact hne hh
      | cons c r =>
        rw [hh] at hlit
        have := hd c (by rw [hh]; simp)
        simp [this] at hlit
    split <;> first | rfl | (rename_i heq; exfalso; exact key _ (by decide) heq)

/- ## renaming, names and tips -/

mutual
theorem allNames_renameT (m : List (String × String)) : ∀ t : T, allNames (renameT m t) = (allNames t).map (renameName m)
  | .node d p k => by simp only [renameT, allNames, List.map_cons]; rw [allNamesL_renameL m k]
theorem allNamesL_renameL (m : List (String × String)) : ∀ k : Kids, allNamesL (renameL m k) = (allNamesL k).map (renameName m)
  | [] => rfl
  | (e, t) :: r => by
    simp only [renameL, allNamesL, List.map_append]
    rw [allNames_renameT m t, allNamesL_renameL m r]
end

mutual
theorem leaves_renameT (m : List (String × String)) : ∀ t : T, (renameT m t).leaves = t.leaves.map (renameName m)
  | .node d p [] => by simp [renameT, renameL, T.leaves]
  | .node d p ((e, t) :: r) => by
    have := leavesL_renameL m ((e, t) :: r)
    simp only [renameT, renameL, T.leaves] at this ⊢
    exact this
theorem leavesL_renameL (m : List (String × String)) : ∀ k : Kids, leavesL (renameL m k) = (leavesL k).map (renameName m)
  | [] => rfl
  | (e, t) :: r => by
    simp only [renameL, leavesL, List.map_append]
    rw [leaves_renameT m t, leavesL_renameL m r]
end

theorem renameL_length (m : List (String × String)) (k : Kids) : (renameL m k).length = k.length := by
  induction k with
  | nil => rfl
  | cons x r ih => obtain ⟨e, t⟩ := x; simp [renameL, ih]

theorem tipNames_renameT (m : List (String × String)) (t : T) :
    (renameT m t).tipNames = t.tipNames.map (renameName m) := by
  cases t with
  | node d p k =>
    simp only [renameT, T.tipNames, T.kids_node, T.name, T.d_node, renameL_length, leavesL_renameL, List.map_append]
    by_cases h : k.length = 1 <;> simp [h]

mutual
theorem renameT_back (m₁ m₂ : List (String × String)) : ∀ t : T,
    (∀ y ∈ allNames t, renameName m₂ (renameName m₁ y) = y) → renameT m₂ (renameT m₁ t) = t
  | .node d p k, h => by
    simp only [allNames, List.mem_cons] at h
    simp only [renameT]
    rw [renameL_back m₁ m₂ k (fun y hy => h y (Or.inr hy)), h d.name (Or.inl rfl)]
theorem renameL_back (m₁ m₂ : List (String × String)) : ∀ k : Kids,
    (∀ y ∈ allNamesL k, renameName m₂ (renameName m₁ y) = y) → renameL m₂ (renameL m₁ k) = k
  | [], _ => rfl
  | (e, t) :: r, h => by
    simp only [allNamesL, List.mem_append] at h
    simp only [renameL]
    rw [renameT_back m₁ m₂ t (fun y hy => h y (Or.inl hy)), renameL_back m₁ m₂ r (fun y hy => h y (Or.inr hy))]
end

/- ## the parsed translation table -/

theorem lookup_mapSet (t : List (String × String)) (k v k' : String) :
    lookup (mapSet t k v) k' = if k == k' then some v else lookup t k' := by
  induction t with
  | nil => simp [mapSet, lookup]
  | cons x r ih =>
    obtain ⟨a, b⟩ := x
    simp only [mapSet]
    by_cases h : a = k
    · subst h
      simp only [beq_self_eq_true, if_true, lookup]
      split <;> rfl
    · have hak : (a == k) = false := by simpa using h
      simp only [hak, Bool.false_eq_true, if_false, lookup, ih]
      by_cases h2 : a = k'
      · subst h2
        have : (k == a) = false := by simpa using fun e => h e.symm
        simp [this]
      · have : (a == k') = false := by simpa using h2
        simp [this]

theorem tableOf_other (M : List (String × String)) (ls : List String) (acc : List (String × String)) (key : String)
    (h : ∀ l ∈ ls, idxOf M l ≠ key) : lookup (tableOf M ls acc) key = lookup acc key := by
  induction ls generalizing acc with
  | nil => rfl
  | cons l r ih =>
    simp only [tableOf, List.foldl_cons]
    have := ih (mapSet acc (idxOf M l) l) (fun x hx => h x (by simp [hx]))
    simp only [tableOf] at this
    rw [this, lookup_mapSet]
    have : (idxOf M l == key) = false := by simpa using h l (by simp)
    simp [this]

theorem tableOf_mem (M : List (String × String)) (ls : List String) (acc : List (String × String)) (x : String)
    (hnd : ls.Nodup) (hinj : ∀ a ∈ ls, ∀ b ∈ ls, idxOf M a = idxOf M b → a = b) (hx : x ∈ ls) :
    lookup (tableOf M ls acc) (idxOf M x) = some x := by
  induction ls generalizing acc with
  | nil => simp at hx
  | cons l r ih =>
    rw [List.nodup_cons] at hnd
    simp only [tableOf, List.foldl_cons]
    rcases List.mem_cons.1 hx with h | h
    · subst h
      have := tableOf_other M r (mapSet acc (idxOf M x) x) (idxOf M x) (by
        intro l' hl' he
        have := hinj l' (by simp [hl']) x (by simp) he
        exact hnd.1 (this ▸ hl'))
      simp only [tableOf] at this
      rw [this, lookup_mapSet]
      simp
    · have := ih (mapSet acc (idxOf M l) l) hnd.2 (fun a ha b hb => hinj a (by simp [ha]) b (by simp [hb])) h
      simp only [tableOf] at this
      exact this

theorem nodup_map_inj_on {α β : Type} (f : α → β) (l : List α) (hnd : l.Nodup)
    (hinj : ∀ a ∈ l, ∀ b ∈ l, f a = f b → a = b) : (l.map f).Nodup := by
  induction l with
  | nil => exact List.nodup_nil
  | cons a r ih =>
    rw [List.nodup_cons] at hnd
    simp only [List.map_cons, List.nodup_cons, List.mem_map, not_exists, not_and]
    refine ⟨?_, ih hnd.2 (fun x hx y hy => hinj x (by simp [hx]) y (by simp [hy]))⟩
    intro b hb he
    have := hinj b (by simp [hb]) a (by simp) he
    exact hnd.1 (this ▸ hb)

/- ## one tree: written as `renameT M t`, read back as `t` -/

theorem isNumeral_natStr (j : Nat) : isNumeral (toString j) = true := by
  have hd : ∀ c ∈ Nat.toDigits 10 j, c.isDigit = true :=
    fun c hc => Nat.isDigit_of_mem_toDigits (by decide) (by decide) hc
  have hl : (toString j).toList = Nat.toDigits 10 j := by simp
  simp only [isNumeral, Bool.and_eq_true, bne_iff_ne, ne_eq, List.all_eq_true]
  refine ⟨?_, by rw [hl]; exact hd⟩
  intro h
  rw [h] at hl
  exact Nat.toDigits_ne_nil hl.symm

theorem filter_map_ne (f : String → String) (l : List String) (hf : ∀ y ∈ l, (f y = "" ↔ y = "")) :
    (l.map f).filter (· != "") = (l.filter (· != "")).map f := by
  induction l with
  | nil => rfl
  | cons a r ih =>
    have ih' := ih (fun y hy => hf y (by simp [hy]))
    have ha := hf a (by simp)
    by_cases h : a = ""
    · have h2 : f a = "" := ha.2 h
      have e1 : (f a != "") = false := by simp [h2]
      have e2 : (a != "") = false := by simp [h]
      simp only [List.map_cons, List.filter_cons, e1, e2, Bool.false_eq_true, if_false]
      exact ih'
    · have h2 : f a ≠ "" := fun e => h (ha.1 e)
      have e1 : (f a != "") = true := by simpa using h2
      have e2 : (a != "") = true := by simpa using h
      simp only [List.map_cons, List.filter_cons, e1, e2, if_true, ih']

theorem tr_tree_ok (tips0 slice : List String) (t : T)
    (h0 : tips0.Nodup) (h0ne : ∀ x ∈ tips0, x ≠ "")
    (hsl : slice.Nodup) (hmem : ∀ x, x ∈ slice ↔ x ∈ tips0)
    (htm : ∀ x, x ∈ t.tipNames ↔ x ∈ tips0) (htn : t.tipNames.Nodup)
    (hn : namesOK t = true) :
    wOf (mapFrom 0 tips0) t = renameT (mapFrom 0 tips0) t ∧
    renameChecked (tableOf (mapFrom 0 tips0) slice []) (renameT (mapFrom 0 tips0) t) = some t := by
  -- notation
  have hM : ∀ x, x ∈ tips0 → ∃ j : Nat, lookup (mapFrom 0 tips0) x = some (toString j) := by
    intro x hx
    obtain ⟨v, hv⟩ := lookup_mapFrom_mem 0 tips0 x hx
    obtain ⟨j, _, hj⟩ := lookup_mapFrom_range 0 tips0 x v hv
    exact ⟨j, by rw [hv, hj]⟩
  have hMout : ∀ x, x ∉ tips0 → lookup (mapFrom 0 tips0) x = none := by
    intro x hx
    apply (lookup_none_iff _ x).2
    rw [keys_mapFrom]; exact hx
  have fin : ∀ x, x ∈ tips0 → ∃ j : Nat, renameName (mapFrom 0 tips0) x = toString j ∧ idxOf (mapFrom 0 tips0) x = toString j := by
    intro x hx
    obtain ⟨j, hj⟩ := hM x hx
    have hne : (x == "") = false := by simpa using h0ne x hx
    exact ⟨j, by simp [renameName, hne, hj], by simp [idxOf, hj]⟩
  have fout : ∀ x, x ∉ tips0 → renameName (mapFrom 0 tips0) x = x := by
    intro x hx
    simp only [renameName, hMout x hx]
    split <;> rfl
  have finj : ∀ a ∈ tips0, ∀ b ∈ tips0, renameName (mapFrom 0 tips0) a = renameName (mapFrom 0 tips0) b → a = b := by
    intro a ha b hb he
    obtain ⟨ja, hja⟩ := hM a ha
    obtain ⟨jb, hjb⟩ := hM b hb
    have ea : renameName (mapFrom 0 tips0) a = toString ja := by
      have hne : (a == "") = false := by simpa using h0ne a ha
      simp [renameName, hne, hja]
    have eb : renameName (mapFrom 0 tips0) b = toString jb := by
      have hne : (b == "") = false := by simpa using h0ne b hb
      simp [renameName, hne, hjb]
    rw [ea, eb] at he
    rw [he] at hja
    exact lookup_mapFrom_inj 0 tips0 h0 a b _ hja hjb
  have idxinj : ∀ a ∈ slice, ∀ b ∈ slice, idxOf (mapFrom 0 tips0) a = idxOf (mapFrom 0 tips0) b → a = b := by
    intro a ha b hb he
    obtain ⟨ja, ha1, ha2⟩ := fin a ((hmem a).1 ha)
    obtain ⟨jb, hb1, hb2⟩ := fin b ((hmem b).1 hb)
    exact finj a ((hmem a).1 ha) b ((hmem b).1 hb) (by rw [ha1, hb1, ← ha2, ← hb2, he])
  simp only [namesOK, innerNamesDistinct, nonTipNamesNotNumeral, Bool.and_eq_true, Bool.not_eq_true', List.all_eq_true,
    Bool.or_eq_true, beq_iff_eq] at hn
  obtain ⟨hdup, hcls⟩ := hn
  -- classification of the names of t
  have hcl : ∀ y ∈ allNames t, y = "" ∨ y ∈ tips0 ∨ (y ∉ tips0 ∧ isNumeral y = false) := by
    intro y hy
    rcases hcls y hy with (h | h) | h
    · exact Or.inl h
    · exact Or.inr (Or.inl ((htm y).1 (by simpa using h)))
    · by_cases hin : y ∈ tips0
      · exact Or.inr (Or.inl hin)
      · exact Or.inr (Or.inr ⟨hin, by simpa using h⟩)
  -- (i) the tree is written renamed
  have h1 : renameChecked (mapFrom 0 tips0) t = some (renameT (mapFrom 0 tips0) t) := by
    have hd2 : hasDup (renameT (mapFrom 0 tips0) t).tipNames = false := by
      rw [tipNames_renameT, hasDup_false_iff]
      exact nodup_map_inj_on _ _ htn (fun a ha b hb => finj a ((htm a).1 ha) b ((htm b).1 hb))
    simp [renameChecked, hdup, hd2]
  refine ⟨by simp [wOf, hdup], ?_⟩
  -- (ii) read back through the table
  have hback : ∀ y ∈ allNames t,
      renameName (tableOf (mapFrom 0 tips0) slice []) (renameName (mapFrom 0 tips0) y) = y := by
    intro y hy
    rcases hcl y hy with h | h | ⟨h, hnum⟩
    · subst h; simp [renameName]
    · obtain ⟨j, e1, e2⟩ := fin y h
      rw [e1, ← e2]
      have hl := tableOf_mem (mapFrom 0 tips0) slice [] y hsl idxinj ((hmem y).2 h)
      have hne : (idxOf (mapFrom 0 tips0) y == "") = false := by
        rw [e2]
        have := isNumeral_natStr j
        simp only [isNumeral, Bool.and_eq_true, bne_iff_ne, ne_eq] at this
        simpa using this.1
      simp [renameName, hne, hl]
    · rw [fout y h]
      have hl := tableOf_other (mapFrom 0 tips0) slice [] y (by
        intro l hl' he
        obtain ⟨j, _, e2⟩ := fin l ((hmem l).1 hl')
        rw [e2] at he
        rw [← he, isNumeral_natStr] at hnum
        cases hnum)
      simp only [renameName, hl, lookup]
      split <;> rfl
  have hb := renameT_back _ _ t hback
  have hnames : hasDup ((allNames (renameT (mapFrom 0 tips0) t)).filter (· != "")) = false := by
    rw [allNames_renameT, filter_map_ne _ _ (by
      intro y hy
      rcases hcl y hy with h | h | ⟨h, _⟩
      · subst h; simp [renameName]
      · obtain ⟨j, e1, _⟩ := fin y h
        rw [e1]
        have := isNumeral_natStr j
        simp only [isNumeral, Bool.and_eq_true, bne_iff_ne, ne_eq] at this
        exact ⟨fun e => absurd e this.1, fun e => absurd e (h0ne y h)⟩
      · rw [fout y h]), hasDup_false_iff]
    apply nodup_map_inj_on _ _ ((hasDup_false_iff _).1 hdup)
    intro a ha b hb' he
    have ha' := (List.mem_filter.1 ha)
    have hb'' := (List.mem_filter.1 hb')
    have hane : a ≠ "" := by simpa using ha'.2
    have hbne : b ≠ "" := by simpa using hb''.2
    rcases hcl a ha'.1 with h | h | ⟨h, hna⟩
    · exact absurd h hane
    · rcases hcl b hb''.1 with h' | h' | ⟨h', hnb⟩
      · exact absurd h' hbne
      · exact finj a h b h' he
      · obtain ⟨j, e1, _⟩ := fin a h
        rw [e1, fout b h'] at he
        rw [← he, isNumeral_natStr] at hnb
        cases hnb
    · rcases hcl b hb''.1 with h' | h' | ⟨h', _⟩
      · exact absurd h' hbne
      · obtain ⟨j, e1, _⟩ := fin b h'
        rw [e1, fout a h] at he
        rw [he, isNumeral_natStr] at hna
        cases hna
      · rw [fout a h, fout b h'] at he
        exact he
  have htips : hasDup t.tipNames = false := (hasDup_false_iff _).2 htn
  simp [renameChecked, hnames, hb, htips]

/- ## all the trees -/

theorem backOK_of (table : List (String × String)) (labs : List String) (w : T → T) (ts : List T) (i : Nat)
    (h : ∀ t ∈ ts, renameChecked table (w t) = some t ∧ okTaxa labs t = true) :
    backOK table labs ts ((enumFrom i ts).map fun it => (it.1, w it.2)) = true := by
  induction ts generalizing i with
  | nil => rfl
  | cons t r ih =>
    obtain ⟨h1, h2⟩ := h t (by simp)
    simp only [enumFrom, List.map_cons, backOK, h1, h2, Bool.and_true, Bool.and_eq_true]
    exact ⟨(sameKept_iff t t).2 rfl, ih (i + 1) (fun x hx => h x (by simp [hx]))⟩

theorem map_congr_enum (f g : T → T) (ts : List T) (i : Nat) (h : ∀ t ∈ ts, f t = g t) :
    (enumFrom i ts).map (fun it => (it.1, f it.2)) = (enumFrom i ts).map (fun it => (it.1, g it.2)) := by
  induction ts generalizing i with
  | nil => rfl
  | cons t r ih =>
    simp only [enumFrom, List.map_cons, h t (by simp)]
    rw [ih (i + 1) (fun x hx => h x (by simp [hx]))]

/-- the hypotheses of `nexus_roundtrip_translate_state`, from conditions on the input trees; `M` is the
    map the writer builds from the tips of the first tree -/
theorem nexusTrState_ok (t0 : T) (rest : List T)
    (htips : ∀ t ∈ t0 :: rest, tipsOK t = true) (hst : sameTaxa (t0 :: rest) = true)
    (hn : ∀ t ∈ t0 :: rest, namesOK t = true) :
    nexusTrStateOK (t0 :: rest) = true ∧
    writtenList (enumFrom 0 (t0 :: rest)) {} =
      (enumFrom 0 (t0 :: rest)).map (fun it => (it.1, renameT (mapFrom 0 t0.tipNames) it.2)) := by
  have htips' : ∀ t ∈ t0 :: rest, t.tipNames.all labelOK = true ∧ hasDup t.tipNames = false ∧ t.tipNames.length ≤ 9223372036854775807 := by
    intro t ht
    have := htips t ht
    simp only [tipsOK, Bool.and_eq_true, Bool.not_eq_true', decide_eq_true_eq] at this
    exact ⟨this.1.1, this.1.2, this.2⟩
  obtain ⟨a1, a2, a3, a4, a5⟩ := nexusState_ok (t0 :: rest) htips' hst
  have h0nd : t0.tipNames.Nodup := (hasDup_false_iff _).1 (htips' t0 (by simp)).2.1
  have hperm : ∀ t ∈ t0 :: rest, ∀ x, x ∈ t.tipNames ↔ x ∈ t0.tipNames :=
    fun t ht x => (sameTaxa_perm _ hst t t0 ht (by simp)).mem_iff
  obtain ⟨hmap, hW⟩ := loop_first t0 rest h0nd (fun t ht x hx => (hperm t (by simp [ht]) x).1 hx)
  obtain ⟨hinv, _⟩ := stateLoop_spec (enumFrom 0 (t0 :: rest)) {} inv_empty
  have hslmem : ∀ x, x ∈ (stateLoop (enumFrom 0 (t0 :: rest)) {}).slice ↔ x ∈ t0.tipNames := by
    intro x
    rw [hinv.perm.mem_iff]
    simp only [keys, hmap, keys_mapFrom]
  have hslnd : (stateLoop (enumFrom 0 (t0 :: rest)) {}).slice.Nodup := (hasDup_false_iff _).1 a4
  have h0ne : ∀ x ∈ t0.tipNames, x ≠ "" := by
    intro x hx he
    have := (htips' t0 (by simp)).1
    rw [List.all_eq_true] at this
    have := this x hx
    rw [he] at this
    simp [labelOK] at this
  have hper : ∀ t ∈ t0 :: rest,
      wOf (mapFrom 0 t0.tipNames) t = renameT (mapFrom 0 t0.tipNames) t ∧
      renameChecked (tableOf (mapFrom 0 t0.tipNames) (stateLoop (enumFrom 0 (t0 :: rest)) {}).slice [])
        (renameT (mapFrom 0 t0.tipNames) t) = some t :=
    fun t ht => tr_tree_ok t0.tipNames _ t h0nd h0ne hslnd hslmem (hperm t ht)
      ((hasDup_false_iff _).1 (htips' t ht).2.1) (hn t ht)
  have hW' : writtenList (enumFrom 0 (t0 :: rest)) {} =
      (enumFrom 0 (t0 :: rest)).map (fun it => (it.1, renameT (mapFrom 0 t0.tipNames) it.2)) := by
    rw [hW]
    exact map_congr_enum _ _ _ 0 (fun t ht => (hper t ht).1)
  refine ⟨?_, hW'⟩
  simp only [nexusTrStateOK, Bool.and_eq_true, decide_eq_true_eq, beq_iff_eq, List.all_eq_true, Bool.not_eq_true']
  refine ⟨⟨⟨⟨a1, a2⟩, ?_⟩, a4⟩, ?_⟩
  · intro l hl
    refine ⟨a3 l hl, ?_⟩
    rw [hmap]
    obtain ⟨v, hv⟩ := lookup_mapFrom_mem 0 t0.tipNames l ((hslmem l).1 hl)
    obtain ⟨j, _, hj⟩ := lookup_mapFrom_range 0 t0.tipNames l v hv
    simp only [idxOf, hv, hj]
    exact labelOK_natStr j
  · rw [hW', hmap]
    exact backOK_of _ _ _ _ 0 (fun t ht => ⟨(hper t ht).2, a5 t ht⟩)

end Gotree.C13
