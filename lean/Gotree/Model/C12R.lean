/-
  C12 — the random-resolution option (`randomResolve = true`, `--random-resolve`) with explicit
  draws.  The global `math/rand` source is a stream of `Int31()` values (`List Nat`, each
  `< 2^31`); `rand.Intn(n)` is `Int31n` (mask for a power of two, rejection otherwise).

  `randomlyResolveNodeStates(node)`: when more than one state has a count `>= 1`, draw
  `r = rand.Intn(numstates)` and keep the `r`-th of them (in slice order), else leave the slice
  alone.  It is called
    * DOWNPASS: at every non-tip node, after its final slice is written and before the children
      are visited — no later computation reads the resolved slice (children use `upstates` and
      the up-pass slices of their siblings), so the pass is `resolveA ∘ down`;
    * DELTRAN: after the intersection with the (resolved) parent;
    * ACCTRAN: when the node's own call starts, i.e. after its parent intersected it.
  Draws happen in pre-order, one per ambiguous non-tip node.
-/
import Gotree.Model.C12

namespace Gotree.C12
open Gotree

/-- `(*Rand).Int31n(n)` on the stream (n ≥ 1).  An exhausted stream yields 0. -/
def intn (n : Nat) : List Nat → Nat × List Nat
  | [] => (0, [])
  | v :: r =>
    if n &&& (n - 1) == 0 then (v &&& (n - 1), r)
    else if v > 2147483647 - 2147483648 % n then intn n r
    else (v % n, r)

/-- states with a count `>= 1`, in slice order (same as `members`, defined here for the model) -/
def present (k : Nat) (v : Vec) : List Nat := (List.range k).filter fun i => v.at i ≥ 1

/-- `randomlyResolveNodeStates` on one slice -/
def resolve (k : Nat) (v : Vec) (s : List Nat) : Vec × List Nat :=
  let ps := present k v
  if ps.length > 1 then
    let (r, s') := intn ps.length s
    let sel := ps.getD r 0
    (tab k fun i => if i = sel then 1 else 0, s')
  else (v, s)

mutual
/-- DOWNPASS with resolution = resolve every non-tip slice of the down-pass result, pre-order.
    `root` : the node is the root (a root is never a tip here: `runCharR` is used for `rootOk` trees) -/
def resolveA (k : Nat) : A → List Nat → A × List Nat
  | .node s [], st => (.node s [], st)
  | .node s (c :: cs), st =>
    let r := resolve k s st
    let rk := resolveAL k (c :: cs) r.2
    (.node r.1 rk.1, rk.2)
def resolveAL (k : Nat) : List A → List Nat → List A × List Nat
  | [], st => ([], st)
  | a :: r, st =>
    let ra := resolveA k a st
    let rr := resolveAL k r ra.2
    (ra.1 :: rr.1, rr.2)
end

mutual
/-- DELTRAN with resolution -/
def deltranR (k : Nat) (p : Option Vec) : A → List Nat → A × List Nat
  | .node s [], st => (.node s [], st)
  | .node s (c :: cs), st =>
    let s' := match p with
      | none => s
      | some pv => inter k s pv
    let r := resolve k s' st
    let rk := deltranRL k (some r.1) (c :: cs) r.2
    (.node r.1 rk.1, rk.2)
def deltranRL (k : Nat) (p : Option Vec) : List A → List Nat → List A × List Nat
  | [], st => ([], st)
  | a :: r, st =>
    let ra := deltranR k p a st
    let rr := deltranRL k p r ra.2
    (ra.1 :: rr.1, rr.2)
end

mutual
/-- ACCTRAN with resolution (a tip is neither intersected with its parent — fix a20daad — nor resolved) -/
def acctranR (k : Nat) (p : Option Vec) : A → List Nat → A × List Nat
  | .node s [], st => (.node s [], st)
  | .node s (c :: cs), st =>
    let s' := match p with
      | none => s
      | some pv => inter k s pv
    let r := resolve k s' st
    let rk := acctranRL k (some r.1) (c :: cs) r.2
    (.node r.1 rk.1, rk.2)
def acctranRL (k : Nat) (p : Option Vec) : List A → List Nat → List A × List Nat
  | [], st => ([], st)
  | a :: r, st =>
    let ra := acctranR k p a st
    let rr := acctranRL k p r ra.2
    (ra.1 :: rr.1, rr.2)
end

/-- the passes selected by `algo` with `randomResolve = true` (root not a Go tip) -/
def runAlgoR (k : Nat) (tv : String → Vec) (algo : Algo) (t : T) (st : List Nat) : A × List Nat :=
  match algo with
  | .downpass => resolveA k (down k tv none t) st
  | .deltran => deltranR k none (down k tv none t) st
  | .acctran => acctranR k none (upA k tv t) st
  | .none => (upA k tv t, st)

/-- steps, final slices (pre-order) and what is left of the stream -/
def runCharR (k : Nat) (tv : String → Vec) (algo : Algo) (t : T) (st : List Nat) : Nat × List Vec × List Nat :=
  if t.kids.length == 1 then
    if rootTipFixedInRepo && tipRooted t then
      let r := runAlgoR k tv algo (rootAtNeighbour t) st
      (upN k tv (rootAtNeighbour t), backOrder r.1.flat, r.2)
    else (0, tv t.name :: List.replicate (t.size - 1) (vzero k), st)   -- pinned: nothing visited, no draw
  else
    let r := runAlgoR k tv algo t st
    (upN k tv t, r.1.flat, r.2)

structure AcrROut where
  steps : Nat
  sets : List (List String)
  /-- the next `Int31()` value of the source after the run (none = stream exhausted) -/
  next : Option Nat
  deriving Repr

/-- `ParsimonyAcr(t, tipCharacters, algo, true)` on a tree whose root is not a Go tip -/
def acrR (t : T) (m : List (String × String)) (algo : Algo) (st : List Nat) : Option AcrROut :=
  if !((lookedUp t).all fun n => (lookup m n).isSome) then none else
  let alpha := alphabet (m.map (·.2))
  let r := runCharR alpha.length (acrTipVec m alpha) algo t st
  some ⟨r.1, r.2.1.map (stateNames alpha), r.2.2.head?⟩

/- ## ASR with random resolution: `randomlyResolveNodeStates(node, seqs)` loops over ALL sites of the node,
   so the draws of the sites are interleaved (node-major, site-minor): the sites are run in lockstep. -/

/-- annotated tree with one slice per site at every node -/
inductive AM where
  | node (ss : List Vec) (kids : List AM)
  deriving Repr, Inhabited

mutual
def AM.flat : AM → List (List Vec)
  | .node ss k => ss :: AM.flatL k
def AM.flatL : List AM → List (List Vec)
  | [] => []
  | a :: r => a.flat ++ AM.flatL r
end

/- the per-site annotated trees (all of the shape of `t`) put side by side -/
mutual
def amOf : T → List A → AM
  | .node _ _ ks, as => .node (as.map A.s) (amOfL ks (as.map A.kids))
def amOfL : Kids → List (List A) → List AM
  | [], _ => []
  | (_, c) :: r, kss => amOf c (kss.map fun l => l.headD default) :: amOfL r (kss.map List.tail)
end

/-- `for _, ances := range seqs[node.Id()].seq { … rand.Intn … }` -/
def resolveSites (k : Nat) : List Vec → List Nat → List Vec × List Nat
  | [], st => ([], st)
  | v :: r, st =>
    let a := resolve k v st
    let b := resolveSites k r a.2
    (a.1 :: b.1, b.2)

def interSites (k : Nat) (ss : List Vec) : Option (List Vec) → List Vec
  | none => ss
  | some ps => List.zipWith (inter k) ss ps

mutual
def resolveAM (k : Nat) : AM → List Nat → AM × List Nat
  | .node ss [], st => (.node ss [], st)
  | .node ss (c :: cs), st =>
    let r := resolveSites k ss st
    let rk := resolveAML k (c :: cs) r.2
    (.node r.1 rk.1, rk.2)
def resolveAML (k : Nat) : List AM → List Nat → List AM × List Nat
  | [], st => ([], st)
  | a :: r, st =>
    let ra := resolveAM k a st
    let rr := resolveAML k r ra.2
    (ra.1 :: rr.1, rr.2)
end

mutual
def deltranRM (k : Nat) (p : Option (List Vec)) : AM → List Nat → AM × List Nat
  | .node ss [], st => (.node ss [], st)
  | .node ss (c :: cs), st =>
    let r := resolveSites k (interSites k ss p) st
    let rk := deltranRML k (some r.1) (c :: cs) r.2
    (.node r.1 rk.1, rk.2)
def deltranRML (k : Nat) (p : Option (List Vec)) : List AM → List Nat → List AM × List Nat
  | [], st => ([], st)
  | a :: r, st =>
    let ra := deltranRM k p a st
    let rr := deltranRML k p r ra.2
    (ra.1 :: rr.1, rr.2)
end

mutual
def acctranRM (k : Nat) (p : Option (List Vec)) : AM → List Nat → AM × List Nat
  | .node ss [], st => (.node ss [], st)
  | .node ss (c :: cs), st =>
    let r := resolveSites k (interSites k ss p) st
    let rk := acctranRML k (some r.1) (c :: cs) r.2
    (.node r.1 rk.1, rk.2)
def acctranRML (k : Nat) (p : Option (List Vec)) : List AM → List Nat → List AM × List Nat
  | [], st => ([], st)
  | a :: r, st =>
    let ra := acctranRM k p a st
    let rr := acctranRML k p r ra.2
    (ra.1 :: rr.1, rr.2)
end

structure AsrROut where
  steps : List Nat
  /-- per node (pre-order), per site: the characters written -/
  sets : List (List (List String))
  next : Option Nat
  deriving Repr

/-- the passes of `ParsimonyAsr(…, true)` after the up-pass, all sites in lockstep, on the tree `te` the passes start
    from: the per-site results of the deterministic first stage side by side, then the random second stage -/
def asrRAM (te : T) (m : List (String × String)) (len : Nat) (algo : Algo) (st : List Nat) : AM × List Nat :=
  let start : List A := (List.range len).map fun j =>
    if algo == .acctran then upA 6 (asrTipVec m j) te else down 6 (asrTipVec m j) none te
  let am := amOf te start
  match algo with
  | .downpass => resolveAM 6 am st
  | .deltran => deltranRM 6 none am st
  | _ => acctranRM 6 none am st

/-- `ParsimonyAsr(t, a, algo, true)`, nucleotides, root not a Go tip -/
def asrR (t : T) (m : List (String × String)) (len : Nat) (algo : Algo) (st : List Nat) : Option AsrROut :=
  if algo == .none then none else
  if !((lookedUp t).all fun n => (lookup m n).isSome) then none else
  let sites := List.range len
  if t.kids.length == 1 && !(rootTipFixedInRepo && tipRooted t) then
    -- pinned: the root is treated as a leaf, nothing else is visited, no draw
    some ⟨sites.map (fun _ => 0) ++ [0],
      (sites.map fun j => stateNames asrAlphabet (asrTipVec m j t.name)) ::
        List.replicate (t.size - 1) (sites.map fun _ => ["*"]), st.head?⟩
  else
  let te := if t.kids.length == 1 then rootAtNeighbour t else t
  let steps := sites.map fun j => upN 6 (asrTipVec m j) te
  let r := asrRAM te m len algo st
  let fl := r.1.flat.map fun ss => ss.map (stateNames asrAlphabet)
  some ⟨steps ++ [0], if t.kids.length == 1 then backOrder fl else fl, r.2.head?⟩

end Gotree.C12
