package c19

// env.go — the assumption "no environment variable feeds an option" made checkable: the names the
// command layer reads from the environment are extracted from the source (os.Getenv / os.LookupEnv
// with a literal name, in cmd/ and io/utils/), and for every such name a few invocations that omit
// every option are run with the variable set and unset: the outcome must not depend on it (otherwise
// "option omitted" means "whatever the environment says", not the documented default).
//
//	C19.env names problems runs    runs: [variable, value, invocation, outcome unset, outcome set] each followed by ";"

import (
	"go/ast"
	"go/parser"
	"go/token"
	"os"
	"path/filepath"
	"sort"
	"strconv"
	"strings"
	"time"

	"verifharness/core"
)

// extraEnv is appended to the environment of the binary by runIn (set only by envCases, which runs alone)
var extraEnv []string

func envNames(repo string) (names []string, problems []string) {
	seen := map[string]bool{}
	for _, rel := range []string{"cmd", "io/utils", "."} {
		dir := filepath.Join(repo, rel)
		ents, _ := os.ReadDir(dir)
		fset := token.NewFileSet()
		for _, e := range ents {
			n := e.Name()
			if e.IsDir() || !strings.HasSuffix(n, ".go") || strings.HasSuffix(n, "_test.go") {
				continue
			}
			f, err := parser.ParseFile(fset, filepath.Join(dir, n), nil, 0)
			if err != nil {
				problems = append(problems, rel+"/"+n+": "+err.Error())
				continue
			}
			ast.Inspect(f, func(m ast.Node) bool {
				call, ok := m.(*ast.CallExpr)
				if !ok {
					return true
				}
				se, ok := call.Fun.(*ast.SelectorExpr)
				if !ok {
					return true
				}
				pk, ok := se.X.(*ast.Ident)
				if !ok || pk.Name != "os" {
					return true
				}
				switch se.Sel.Name {
				case "Getenv", "LookupEnv":
					if len(call.Args) == 1 {
						if bl, ok := call.Args[0].(*ast.BasicLit); ok && bl.Kind == token.STRING {
							s, _ := strconv.Unquote(bl.Value)
							seen[s] = true
						} else {
							problems = append(problems, rel+"/"+n+": os."+se.Sel.Name+" with a name that is not a literal")
						}
					}
				case "Environ", "ExpandEnv":
					problems = append(problems, rel+"/"+n+": os."+se.Sel.Name)
				}
				return true
			})
		}
	}
	for s := range seen {
		names = append(names, s)
	}
	sort.Strings(names)
	return
}

func envCases(c *core.Ctx, r *runner) {
	names, problems := envNames(c.Repo)
	type inv struct {
		label string
		words []string
		args  []string
		stdin string
		twice bool // a random command: the outcome is whether two runs agree
	}
	invs := []inv{
		{"stats", []string{"stats"}, nil, "tree", false},
		{"reformat-on-nexus", []string{"reformat", "newick"}, nil, "treenexus", false},
		{"consensus", []string{"compute", "consensus"}, nil, "trees", false},
		{"setmin", []string{"brlen", "setmin"}, nil, "zerolen", false},
		{"divide", []string{"divide"}, nil, "trees", false},
		{"compare-trees", []string{"compare", "trees"}, []string{"-c", "{trees}"}, "tree", false},
		{"merge", []string{"merge"}, []string{"-i", "{rooted}"}, "other", false},
		{"yule", []string{"generate", "yuletree"}, nil, "", true},
		{"setrand", []string{"brlen", "setrand"}, nil, "tree", true},
	}
	run := func(x inv) string {
		o := r.invoke(x.words, r.subst(x.args), x.stdin)
		if x.twice {
			time.Sleep(2 * time.Millisecond)
			o2 := r.invoke(x.words, r.subst(x.args), x.stdin)
			return "two runs agree: " + strconv.FormatBool(o == o2) + "; first exit line: " + strings.SplitN(o, "\n", 2)[0]
		}
		return o
	}
	var b strings.Builder
	if len(names) > 0 {
		base := map[string]string{}
		for _, x := range invs {
			base[x.label] = run(x)
		}
		for _, n := range names {
			for _, v := range []string{"7", "2", "nexus", "0.9", "out.txt", "true", "none"} {
				extraEnv = []string{n + "=" + v}
				for _, x := range invs {
					b.WriteString(core.StrList([]string{n, v, x.label, base[x.label], run(x)}) + ";")
				}
				extraEnv = nil
			}
		}
	}
	c.Emit("C19.env", core.StrList(names), core.StrList(problems), b.String())
}
