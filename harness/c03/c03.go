// Package c03: every successful edit leaves a well-formed tree.
//
// Random edit HISTORIES over the public editing operations of package tree.
// After every step the harness' own checker (core.Alpha) reads the heap, the
// five enumerations are compared with a plain walk, and the Newick text is
// emitted; the Lean driver judges all of it.
//
// Process layout: the runner started by bin/check is a *parent* that spawns
// children (re-exec of os.Args[0] with -arg child:…).  A child announces every
// operation before running it ("#P" line); when a child dies (os.Exit inside
// the library, fatal stack overflow) or stays silent too long, the parent
// turns the announced operation into a case line with outcome exit/timeout and
// restarts a child after the history that died.
//
// Case line:
//
//	C03.step <start dump> <ops ';'-joined, up to and including this one> <k>
//	         <before dump> <outcome> <wf problems> <after dump>
//	         <Nodes> <Tips> <Edges> <InternalEdges> <TipEdges> <newick> <extra> <raw graph>
//
// extra: for rotate / resolve the results of the rand.Intn calls the MODEL prescribes
// (same seed replayed with the bounds computed from the tree before the operation);
// for a failed edit the error text.
//
// Such a line is also a *request*: start dump + ops are re-executed on replay.
package c03

import (
	"bufio"
	"fmt"
	"io"
	"log"
	"os"
	"os/exec"
	"strconv"
	"strings"
	"time"

	"verifharness/core"

	"github.com/evolbioinfo/gotree/tree"
)

const stepOp = "C03.step"

// request = one history to execute: a start tree and either a fixed op list
// (replay) or a generator.
type request struct {
	start *core.N
	ops   []string // nil => generate
}

func Run(c *core.Ctx) {
	log.SetOutput(io.Discard)
	if strings.HasPrefix(c.Arg, "child:") {
		runChild(c)
		return
	}
	if strings.HasPrefix(c.Arg, "shrink:") {
		runShrink(c, strings.TrimPrefix(c.Arg, "shrink:"))
		return
	}
	runParent(c)
}

// number of generated histories per run
func nHist(c *core.Ctx) int { return c.Scale(500, 7500) }

func maxOps(c *core.Ctx) int { return c.Scale(12, 60) }

// ---------------------------------------------------------------- parent

func runParent(c *core.Ctx) {
	file := ""
	total := nHist(c)
	if c.Arg != "" && c.Arg != "race" {
		file = c.Arg
		total = len(core.ReadRequests(file))
	}
	from := 0
	crashes := 0
	for from < total {
		next, crashed := superviseChild(c, file, from, total)
		from = next
		if crashed {
			// every crash is already a reported case; a code base that crashes or hangs all the
			// time must not keep the run busy for hours (each hang costs one timeout)
			crashes++
			if crashes >= 8 && file == "" {
				return
			}
		}
	}
}

// superviseChild runs one child on histories [from,total) and returns the index
// of the first history that still has to be run.
func superviseChild(c *core.Ctx, file string, from, total int) (int, bool) {
	arg := fmt.Sprintf("child:%d:%d:%s", from, total, file)
	cmd := exec.Command(os.Args[0], "C03", "-seed", strconv.FormatInt(c.Seed, 10), "-tier", c.Tier,
		"-gotree", c.Gotree, "-tmp", c.Tmp, "-repo", c.Repo, "-arg", arg)
	cmd.Stderr = io.Discard
	out, err := cmd.StdoutPipe()
	if err != nil {
		panic(err)
	}
	if err := cmd.Start(); err != nil {
		panic(err)
	}
	lines := make(chan string, 1024)
	go func() {
		rd := bufio.NewReaderSize(out, 1<<20)
		for {
			l, err := rd.ReadString('\n')
			if len(l) > 0 && strings.HasSuffix(l, "\n") {
				lines <- strings.TrimSuffix(l, "\n")
			}
			if err != nil {
				close(lines)
				return
			}
		}
	}()
	cur := from - 1 // history in progress
	done := from    // first history not finished
	pending := ""
	timeout := 45 * time.Second
	timer := time.NewTimer(timeout)
	defer timer.Stop()
	outcome := "exit"
loop:
	for {
		select {
		case l, ok := <-lines:
			if !ok {
				break loop
			}
			if !timer.Stop() {
				select {
				case <-timer.C:
				default:
				}
			}
			timer.Reset(timeout)
			switch {
			case strings.HasPrefix(l, "#H\t"):
				cur, _ = strconv.Atoi(l[3:])
			case strings.HasPrefix(l, "#D\t"):
				d, _ := strconv.Atoi(l[3:])
				done = d + 1
				pending = ""
			case strings.HasPrefix(l, "#P\t"):
				pending = l[3:]
			default:
				pending = ""
				c.W.WriteString(l)
				c.W.WriteByte('\n')
			}
		case <-timer.C:
			outcome = "timeout"
			cmd.Process.Kill()
			// drain
			for range lines {
			}
			break loop
		}
	}
	cmd.Wait()
	if done >= total {
		return total, false
	}
	// the child died in the middle of history `cur`
	if pending != "" {
		f := strings.Split(pending, "\t") // k, start, ops, before
		if len(f) == 4 {
			c.Emit(stepOp, f[1], f[2], f[0], f[3], outcome, "", "", "", "", "", "", "", "", "", "")
		}
	} else {
		c.Emit(stepOp, "", "", "0", "", outcome+"-harness", "", "", "", "", "", "", "", "", "", "")
	}
	if cur < done {
		cur = done
	}
	return cur + 1, true
}

// ---------------------------------------------------------------- child

func runChild(c *core.Ctx) {
	f := strings.SplitN(c.Arg, ":", 4)
	from, _ := strconv.Atoi(f[1])
	total, _ := strconv.Atoi(f[2])
	file := f[3]
	var reqs []string
	if file != "" {
		reqs = core.ReadRequests(file)
	}
	for i := from; i < total; i++ {
		fmt.Fprintf(c.W, "#H\t%d\n", i)
		if file != "" {
			replayLine(c, reqs[i])
		} else {
			g := core.NewG(c.Seed*1000003 + int64(i)*7919 + 17)
			genHistory(c, g, i)
		}
		fmt.Fprintf(c.W, "#D\t%d\n", i)
		c.W.Flush()
	}
}

func replayLine(c *core.Ctx, l string) {
	f := strings.Split(l, "\t")
	if f[0] != stepOp || len(f) < 3 {
		return
	}
	start, err := core.ParseDump(f[1])
	if err != nil {
		c.Emit(stepOp, f[1], f[2], "0", "", "badrequest:start", "", "", "", "", "", "", "", "", "", "")
		return
	}
	ops := strings.Split(f[2], ";")
	h := newHistory(c, start)
	if h == nil {
		return
	}
	for _, op := range ops {
		if op == "" {
			continue
		}
		if !h.step(op) {
			break
		}
	}
}

// history = the live Go tree plus what has been done to it.
type history struct {
	c     *core.Ctx
	start string
	ops   []string
	t     *tree.Tree
	cur   *core.N // α of the current state
	// a rearrangement that has been applied and not yet undone, kept alive across steps
	pending      tree.Rearrangement
	pendingPre   string // α dump of the tree just before its Apply
	pendingClean bool   // only order/root/index edits since the Apply (the splits must come back)
	pendingFresh bool   // nothing at all since the Apply
}

func newHistory(c *core.Ctx, start *core.N) *history {
	t, err := core.Build(start)
	if err != nil {
		panic(err)
	}
	// the readers always deliver trees with initialised indexes
	core.Safe(func() { t.ReinitIndexes() })
	n, wf := core.Alpha(t)
	if !wf.OK() {
		panic("start tree malformed after ReinitIndexes")
	}
	return &history{c: c, start: start.Dump(), t: t, cur: n}
}

// renumber gives the branches ids 0,1,2… in the pre-order of the α walk (public API only).
func renumber(t *tree.Tree) {
	id := 0
	var rec func(cur, prev *tree.Node)
	rec = func(cur, prev *tree.Node) {
		for i, nb := range cur.Neigh() {
			if nb == prev {
				continue
			}
			cur.Edges()[i].SetId(id)
			id++
			rec(nb, cur)
		}
	}
	rec(t.Root(), nil)
}

// step runs one operation; false = the history ends here.
func (h *history) step(op string) bool {
	c := h.c
	h.ops = append(h.ops, op)
	opsField := strings.Join(h.ops, ";")
	k := strconv.Itoa(len(h.ops))
	before := h.cur.Dump()
	fmt.Fprintf(c.W, "#P\t%s\t%s\t%s\t%s\n", k, h.start, opsField, before)
	c.W.Flush()
	var res *tree.Tree
	var err error
	extraUndo := ""
	if opKind(op) == "nniundo" && h.pending != nil {
		extraUndo = "undo=" + b2s(h.pendingClean) + b2s(h.pendingFresh) + "=" + h.pendingPre
	}
	panicked, msg := core.Safe(func() { res, err = h.applyOp(h.t, op) })
	if panicked {
		c.Emit(stepOp, h.start, opsField, k, before, "panic:"+core.Escape(msg), "", "", "", "", "", "", "", "", "", "")
		return false
	}
	if err != nil {
		if _, ok := err.(badRequest); ok {
			c.Emit(stepOp, h.start, opsField, k, before, "badrequest:"+core.Escape(err.Error()), "", "", "", "", "", "", "", "", "", "")
		} else {
			extra := core.Escape(err.Error())
			if extraUndo != "" {
				extra = extraUndo // what happened since the Apply: the driver checks that a refusal is plausible
			}
			c.Emit(stepOp, h.start, opsField, k, before, "err", "", "", "", "", "", "", "", "", extra, "")
		}
		return false
	}
	h.t = res
	n, wf := core.Alpha(res)
	if !wf.OK() || n == nil {
		after := ""
		if n != nil {
			after = n.Dump()
		}
		c.Emit(stepOp, h.start, opsField, k, before, "ok", core.StrList(wf.Problems), after, "", "", "", "", "", "", "", rawGraph(res))
		return false
	}
	extra := drawsFor(op, h.cur)
	if extraUndo != "" {
		extra = extraUndo
	}
	h.cur = n
	o := observe(res)
	c.Emit(stepOp, h.start, opsField, k, before, "ok", "", n.Dump(), o.nodes, o.tips, o.edges, o.internal, o.tipEdges, core.Escape(o.newick), extra, rawGraph(res))
	// Branch ids are user data that no edit reads; numbering the branches afresh (pre-order, as the
	// Newick parser does) between two steps keeps them pairwise distinct, which the id-addressed
	// contraction model of C07 needs for the exact tie of the next step.
	renumber(res)
	core.NumberEdges(h.cur)
	return true
}
